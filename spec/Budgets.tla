------------------------------- MODULE Budgets -------------------------------
(***************************************************************************)
(* NodePool disruption budgets (property C05), part (i): the arithmetic.   *)
(*                                                                         *)
(* Written from the statement, not from the code:                          *)
(*   - a budget is active during [hit, hit + duration) after each hit of   *)
(*     its cron schedule, always if it has no schedule.  A schedule is     *)
(*     abstracted to its HIT SET (instants, any integer time unit);        *)
(*   - a percentage is taken of the pool's initialized nodes, rounding up; *)
(*   - a budget applies to a reason iff it lists it or lists none (an      *)
(*     empty list lists none);                                             *)
(*   - the allowance of a pool is that of its most restrictive active      *)
(*     applicable budget; a malformed budget allows zero.                  *)
(*                                                                         *)
(* Section 1 holds the pure operators (Active, Value, Applies, Allowed);   *)
(* they refer to no variable and are shared by Budgets_Trace.tla and by    *)
(* the disruption-round model (C05 part (ii)).  Section 2 is a closed      *)
(* model whose only variable `cs` ranges over the CASE SPACE of part (i):  *)
(* TLC enumerates it exhaustively, checks sanity invariants of the         *)
(* definitions on every case and prints every case for replay on the real  *)
(* v1.NodePool.GetAllowedDisruptionsByReason / v1.Budget.IsActive.         *)
(*                                                                         *)
(* A budget is a record                                                    *)
(*   [cron    : STRING   schedule text, "-" if the budget has none,        *)
(*    hits    : Seq(Int) hit set of the schedule (any order),              *)
(*    dur     : Int      duration, same unit as hits, -1 if none,          *)
(*    kind    : "count" | "pct",   val : Nat,                              *)
(*    reasons : Seq(STRING), rstate : "nil" | "empty" | "set"              *)
(*              (rstate only tells an absent list from an empty one - the  *)
(*              statement gives both the same meaning),                    *)
(*    mal     : "-" | "cron" | "nodes" | "duration-only"]                  *)
(***************************************************************************)
EXTENDS Integers, Sequences, FiniteSets, TLC, Json

CONSTANTS Rounding,      \* "up" = the statement; "down" = spec mutation
          WindowEnd,     \* "open" = the statement [hit, hit+dur); "closed" / "startexcl" = spec mutations
          EmptyReasons   \* "all" = the statement (lists none => every reason); "none" = spec mutation

\* ================================================================ 1. pure definitions
Unbounded == 2147483647          \* "no active applicable budget": nothing restricts the pool

Hits(b) == {b.hits[i] : i \in DOMAIN b.hits}
ReasonSet(b) == {b.reasons[i] : i \in DOMAIN b.reasons}
HasSchedule(b) == b.cron # "-"
Malformed(b) == b.mal # "-"

InWindow(h, d, now, wend) ==
    CASE wend = "open"      -> h <= now /\ now < h + d
      [] wend = "closed"    -> h <= now /\ now <= h + d
      [] wend = "startexcl" -> h < now /\ now < h + d
ActiveX(b, now, wend) == ~HasSchedule(b) \/ \E h \in Hits(b) : InWindow(h, b.dur, now, wend)

CeilDiv(a, d) == (a + d - 1) \div d
ValueX(b, n, rnd) == IF b.kind = "count" THEN b.val
                     ELSE IF rnd = "up" THEN CeilDiv(b.val * n, 100) ELSE (b.val * n) \div 100

AppliesX(b, reason, er) ==
    \/ reason \in ReasonSet(b)
    \/ ReasonSet(b) = {} /\ (er = "all" \/ b.rstate = "nil")

MinOf(S) == CHOOSE x \in S : \A y \in S : x <= y
Binding(bs, now, reason, wend, er) ==
    {i \in DOMAIN bs : ActiveX(bs[i], now, wend) /\ AppliesX(bs[i], reason, er)}
AllowedX(bs, now, n, reason, rnd, wend, er) ==
    IF \E i \in DOMAIN bs : Malformed(bs[i]) THEN 0
    ELSE MinOf({ValueX(bs[i], n, rnd) : i \in Binding(bs, now, reason, wend, er)} \cup {Unbounded})

\* the operators of the statement (the switches are "up", "open", "all" in every real configuration)
Active(b, now) == ActiveX(b, now, WindowEnd)
Value(b, n) == ValueX(b, n, Rounding)
Applies(b, reason) == AppliesX(b, reason, EmptyReasons)
Allowed(bs, now, n, reason) == AllowedX(bs, now, n, reason, Rounding, WindowEnd, EmptyReasons)

\* Guards, shared with the trace specification.  `res` is what the code returned.  When nothing
\* restricts the pool the statement only needs a value that can never bind (>= the pool size).
G_C05_Allowed(res, bs, now, n, reason) ==
    LET a == Allowed(bs, now, n, reason) IN IF a = Unbounded THEN res >= n ELSE res = a
G_C05_IsActive(res, b, now) == res = Active(b, now)

\* ================================================================ 2. closed model: the case space
CONSTANTS Horizon,       \* last instant of the horizon (instants are 0..Horizon)
          Schedules,     \* function: cron text -> hit set within 0..Horizon
          Durations,     \* set of window lengths
          Percents, Counts, Sizes,   \* budget values and pool sizes
          Reasons,       \* the disruption reasons
          ListAlphabet,  \* sequence of budgets from which the two- and three-element lists are formed
          ListInstants   \* instants at which the lists are evaluated

VARIABLES cs             \* the case being examined: [fam, budgets, now, n, reason]
vars == <<cs>>

RECURSIVE SortedSeq(_)
SortedSeq(S) == IF S = {} THEN <<>>
                ELSE LET m == MinOf(S) IN <<m>> \o SortedSeq(S \ {m})
MaxOf(S) == CHOOSE x \in S : \A y \in S : x >= y
MaxDur == MaxOf(Durations)

\* ---- budget alphabets
B(cron, dur, kind, val, reasons, rstate, mal) ==
    [cron |-> cron, hits |-> IF cron \in DOMAIN Schedules THEN SortedSeq(Schedules[cron]) ELSE <<>>,
     dur |-> dur, kind |-> kind, val |-> val, reasons |-> reasons, rstate |-> rstate, mal |-> mal]
Always(kind, val, reasons, rstate) == B("-", -1, kind, val, reasons, rstate, "-")
Win(cron, dur, kind, val, reasons, rstate) == B(cron, dur, kind, val, reasons, rstate, "-")

RState(rs) == IF Len(rs) = 0 THEN {"nil", "empty"} ELSE {"set"}
ReasonLists == {<<>>} \cup {<<r>> : r \in Reasons}
               \cup {<<"Underutilized", "Drifted">>, <<"Empty", "Underutilized", "Drifted">>}

ValueSpecs == {<<"pct", p>> : p \in Percents} \cup {<<"count", c>> : c \in Counts}

Case(fam, bs, now, n, reason) == [fam |-> fam, budgets |-> bs, now |-> now, n |-> n, reason |-> reason]
NoCase == Case("-", <<>>, 0, 0, "Drifted")

\* W: one scheduled budget, instants around every hit whose look-back stays inside the horizon
Edge(h, d) == {h - 1, h, h + d - 1, h + d, h + d + 1}
CasesW ==
    UNION {UNION {UNION {{Case("W", <<Win(c, d, "count", 0, <<>>, "nil")>>, t, 10, "Drifted") : t \in Edge(h, d)}
                          : h \in {x \in Schedules[c] : x > MaxDur /\ x + d + 1 <= Horizon}}
                  : d \in Durations}
           : c \in DOMAIN Schedules}

\* V: one always-active budget, every value x every pool size
CasesV == {Case("V", <<Always(v[1], v[2], <<>>, "nil")>>, 0, n, "Drifted") : v \in ValueSpecs, n \in Sizes}

\* R: reason applicability (absent / empty / each reason / several), restrictive and permissive values
CasesR == UNION {{Case("R", <<Always(v[1], v[2], rs, st)>>, 0, n, r) : st \in RState(rs)}
                 : rs \in ReasonLists, r \in Reasons,
                   v \in {<<"count", 0>>, <<"count", 1>>, <<"pct", 50>>}, n \in {0, 10}}

\* L: lists of two and three budgets (most restrictive wins; windows overlapping or not at the instant)
Lists2 == {<<ListAlphabet[i], ListAlphabet[j]>> : i, j \in DOMAIN ListAlphabet}
Lists3 == {<<ListAlphabet[i], ListAlphabet[j], ListAlphabet[k]>> :
             <<i, j, k>> \in {x \in (DOMAIN ListAlphabet) \X (DOMAIN ListAlphabet) \X (DOMAIN ListAlphabet) :
                                x[1] < x[2] /\ x[2] < x[3]}}
CasesL == {Case("L", bs, t, n, r) : bs \in Lists2 \cup Lists3, t \in ListInstants, n \in {0, 7, 12}, r \in Reasons}

\* M: malformed entries (alone, before and after a well-formed budget; listing the reason or another one)
BadCron == "61 * * * *"
MalBudgets ==
    {B(BadCron, MinOf(Durations), "count", 5, rs, IF Len(rs) = 0 THEN "nil" ELSE "set", "cron") : rs \in {<<>>, <<"Empty">>}}
    \cup {B("-", -1, "count", 0, rs, IF Len(rs) = 0 THEN "nil" ELSE "set", "nodes") : rs \in {<<>>, <<"Empty">>}}
    \cup {B("-", MinOf(Durations), "count", 5, rs, IF Len(rs) = 0 THEN "nil" ELSE "set", "duration-only") : rs \in {<<>>, <<"Empty">>}}
CasesM == UNION {{Case("M", <<m>>, 0, 10, r), Case("M", <<m, Always("count", 3, <<>>, "nil")>>, 0, 10, r),
                  Case("M", <<Always("count", 3, <<>>, "nil"), m>>, 0, 10, r)} : m \in MalBudgets, r \in Reasons}

\* ---- the model: one action per family, each picks a case
CaseInit == cs = NoCase
PickWindow    == cs = NoCase /\ cs' \in CasesW
PickValue     == cs = NoCase /\ cs' \in CasesV
PickReasons   == cs = NoCase /\ cs' \in CasesR
PickList      == cs = NoCase /\ cs' \in CasesL
PickMalformed == cs = NoCase /\ cs' \in CasesM
CaseNext == PickWindow \/ PickValue \/ PickReasons \/ PickList \/ PickMalformed
CaseSpec == CaseInit /\ [][CaseNext]_vars

\* ---- sanity invariants of the definitions, checked on every case
A(bs) == Allowed(bs, cs.now, cs.n, cs.reason)
Extras == {ListAlphabet[i] : i \in DOMAIN ListAlphabet} \cup MalBudgets
WellFormedCase == \A i \in DOMAIN cs.budgets : ~Malformed(cs.budgets[i])

\* Allowed never exceeds any active applicable budget's value
Inv_C05_UpperBound ==
    \A i \in DOMAIN cs.budgets :
        Active(cs.budgets[i], cs.now) /\ Applies(cs.budgets[i], cs.reason) /\ WellFormedCase
            => A(cs.budgets) <= Value(cs.budgets[i], cs.n)
\* ... and is attained by one of them (or nothing restricts, or a malformed entry closes the pool)
Inv_C05_Attained ==
    \/ A(cs.budgets) = Unbounded /\ WellFormedCase
    \/ A(cs.budgets) = 0 /\ ~WellFormedCase
    \/ WellFormedCase /\ \E i \in DOMAIN cs.budgets :
          Active(cs.budgets[i], cs.now) /\ Applies(cs.budgets[i], cs.reason) /\ A(cs.budgets) = Value(cs.budgets[i], cs.n)
\* adding a budget (front or back) never increases the allowance; dropping one never decreases it
Inv_C05_Monotone ==
    /\ \A x \in Extras : A(Append(cs.budgets, x)) <= A(cs.budgets) /\ A(<<x>> \o cs.budgets) <= A(cs.budgets)
    /\ \A k \in 0..Len(cs.budgets) : A(cs.budgets) <= A(SubSeq(cs.budgets, 1, k))
\* the order of the list is irrelevant
Inv_C05_OrderFree ==
    A([i \in DOMAIN cs.budgets |-> cs.budgets[Len(cs.budgets) + 1 - i]]) = A(cs.budgets)
\* rounding up: the least k with 100 k >= pct * n; never more than the pool
Inv_C05_Ceil ==
    \A i \in DOMAIN cs.budgets : cs.budgets[i].kind = "pct" =>
        LET v == Value(cs.budgets[i], cs.n) p == cs.budgets[i].val IN
        /\ 100 * v >= p * cs.n /\ 100 * (v - 1) < p * cs.n
        /\ v <= cs.n /\ (p > 0 /\ cs.n > 0 => v >= 1)
\* half-open windows, stated over integer intervals instead of inequalities
Inv_C05_HalfOpen ==
    \A i \in DOMAIN cs.budgets : LET b == cs.budgets[i] IN
        HasSchedule(b) /\ ~Malformed(b) =>
            (Active(b, cs.now) <=> cs.now \in UNION {h..(h + b.dur - 1) : h \in Hits(b)})
\* an empty reason list means the same as an absent one
Norm(b) == [b EXCEPT !.rstate = IF Len(b.reasons) = 0 THEN "nil" ELSE "set"]
Inv_C05_EmptyListsNone ==
    A([i \in DOMAIN cs.budgets |-> Norm(cs.budgets[i])]) = A(cs.budgets)
\* a malformed entry closes the pool for every reason
Inv_C05_MalformedZero == ~WellFormedCase => \A r \in Reasons : Allowed(cs.budgets, cs.now, cs.n, r) = 0

TypeOK == /\ cs.now \in 0..Horizon /\ cs.n \in Nat /\ cs.reason \in Reasons
          /\ \A i \in DOMAIN cs.budgets : cs.budgets[i].kind \in {"count", "pct"}

\* generator: print every case
GenPrint == cs = NoCase \/ PrintT(<<"BEH", ToJson(cs)>>)

\* ---- constants of the checked configuration (substituted in the .cfg files)
Mn == 60
Hr == 3600
MC_Horizon == 6 * Hr
MC_Schedules ==
    ("0 * * * *"    :> {k * Hr : k \in 0..6}) @@
    ("0,20 * * * *" :> ({k * Hr : k \in 0..6} \cup {k * Hr + 20 * Mn : k \in 0..5})) @@
    ("*/15 * * * *" :> {k * 15 * Mn : k \in 0..24}) @@
    ("30 2 * * *"   :> {2 * Hr + 30 * Mn}) @@
    ("@hourly"      :> {k * Hr : k \in 0..6})
MC_Durations == {10 * Mn, 20 * Mn, 30 * Mn, 60 * Mn, 90 * Mn}
MC_Percents == {0, 1, 5, 10, 33, 50, 99, 100}
MC_Counts == {0, 1, 2, 5, 12, 13, 100}
MC_Sizes == 0..12
MC_Reasons == {"Underutilized", "Empty", "Drifted"}
\* hourly/10m is active during [h, h+10m); "0,20"/30m has overlapping windows [h, h+30m) and [h+20m, h+50m)
MC_ListAlphabet ==
    <<Always("count", 2, <<>>, "nil"),
      Always("pct", 50, <<>>, "nil"),
      Always("count", 0, <<>>, "empty"),
      Always("count", 3, <<"Underutilized">>, "set"),
      Always("pct", 10, <<"Empty", "Drifted">>, "set"),
      Win("0 * * * *", 10 * Mn, "count", 0, <<>>, "nil"),
      Win("0,20 * * * *", 30 * Mn, "count", 1, <<"Drifted">>, "set"),
      Win("0,20 * * * *", 30 * Mn, "pct", 33, <<>>, "empty")>>
MC_ListInstants == LET h == 3 * Hr IN {h - 1, h, h + 10 * Mn - 1, h + 10 * Mn, h + 50 * Mn - 1, h + 50 * Mn}
=============================================================================
