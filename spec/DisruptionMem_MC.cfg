CONSTANTS W = 20  U = 5  VD = 15  MaxNow = 60  MaxLen = 8  WeakM = ""
SPECIFICATION Spec
VIEW view
INVARIANTS TypeOK Inv_C07_MemNeverProtected Inv_C07_MemBelief
