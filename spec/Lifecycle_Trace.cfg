SPECIFICATION TraceSpec
