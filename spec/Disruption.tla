----------------------------- MODULE Disruption -----------------------------
(***************************************************************************)
(* Candidate eligibility of the five disruption methods (property C07).    *)
(*                                                                         *)
(* Closed model of one disruption decision about one node X that is        *)
(* otherwise the best candidate of method m:                               *)
(*   Block(b)     the environment puts blocker b on X before the round     *)
(*                (at most MaxPre, one per blocker group, canonical order) *)
(*   Compute      the method computes its candidates at T0: X is kept iff  *)
(*                Eligible(m, X, T0).  Eventual methods (drift, static     *)
(*                drift) issue the command at once                         *)
(*   Churn(b)     while a graceful command waits for validation (VD        *)
(*                seconds) the environment may put one more blocker on X   *)
(*   Validate     at T0+VD the command is issued iff X is still eligible   *)
(* The controller's enabling condition is the guard G_C07_Eligible of      *)
(* DisruptionGuards (a conjunction over the blocker table); the invariant  *)
(* Inv_C07_NeverProtected states the property as the statement words it    *)
(* (a disjunction of protections).  CONSTANT Weak drops one conjunct /     *)
(* weakens one rule: every Disruption_Weak*.cfg must violate the invariant.*)
(*                                                                         *)
(* TLC enumerates the whole blocker x method table (terminal states print  *)
(* the cell: method, blockers, churn, whether the model issues a command); *)
(* checks/C07.py turns every cell into a cluster scenario for the real     *)
(* disruption controller.                                                  *)
(***************************************************************************)
EXTENDS DisruptionGuards, Json

CONSTANTS MaxPre,     \* blockers applied before the round (0..2)
          MaxChurn,   \* blockers applied during the validation wait (0..1)
          PairMode,   \* "all": every pair of blockers; "tgp": pairs only with the terminationGracePeriod modifier
          Weak        \* "" or the name of a weakened rule (spec mutation)

T0 == 1000   \* instant of the round
VD == 15     \* validation delay of graceful commands
NW == 20     \* nomination window
DD == 300    \* do-not-disrupt duration used by the duration blockers
CA == 30     \* consolidateAfter of X's pool

VARIABLES m, pre, churn, v, now, phase, cmds,
          wk      \* the weakened rule in force ("" = none); Weak = "*" lets TLC try every weakening in one run
vars == <<m, pre, churn, v, now, phase, cmds, wk>>
AllWeak == {"hasNode", "initialized", "notDeleting", "notMarked", "notNominated", "noNodeDnd", "poolKnown", "podDnd", "podPdb",
            "consolidatable", "poolKind", "consolidateAfterSet", "policy", "noBuffer", "drifted",
            "waiveWithoutTgp", "waiveGraceful", "nominatedOffByOne", "dndOffByOne", "noRevalidation", "costsCancel"}

\* ---------------------------------------------------------------- the base node: X is the method's best candidate
BasePod == [key |-> "default/px", active |-> TRUE, dndKind |-> "none", dndSec |-> -1, started |-> 100, evictKind |-> TRUE,
            npdb |-> 0, pdbAllowed |-> 1, pdbWaived |-> FALSE, resched |-> TRUE, cost |-> 1, costPos |-> TRUE]
\* cost: the pod's eviction cost as a small integer (1 = default, -10 = clamped strongly negative, 10 = clamped large);
\* costPos = cost > 0 is what the guard reads; the sum only matters to the "costsCancel" spec mutation
WithCost(p, c) == [p EXCEPT !.cost = c, !.costPos = c > 0]
\* a second plain pod: keeps X non-empty when its first pod is made terminal (only emptiness wants X empty)
PlainPod == [BasePod EXCEPT !.key = "default/pxb"]
DsPod == [key |-> "default/dsx", active |-> TRUE, dndKind |-> "true", dndSec |-> -1, started |-> 100, evictKind |-> TRUE,
          npdb |-> 0, pdbAllowed |-> 1, pdbWaived |-> FALSE, resched |-> FALSE, cost |-> 1, costPos |-> TRUE]
NegPod == [WithCost(BasePod, -10) EXCEPT !.key = "default/pxn"]
Base(mm) == [managed |-> TRUE, hasNode |-> TRUE, initialized |-> TRUE, deleting |-> FALSE, nodeDeleting |-> FALSE,
             marked |-> FALSE, nominatedUntil |-> -1, nodeDnd |-> FALSE, poolLabel |-> TRUE, poolKnown |-> TRUE,
             static |-> (mm = "staticdrift"), caSet |-> TRUE, policy |-> "WhenEmptyOrUnderutilized",
             consolidatable |-> IF mm = "staticdrift" THEN "Absent" ELSE "True",
             drifted |-> IF Eventual(mm) THEN "True" ELSE "Absent", tgp |-> FALSE, buffer |-> 0,
             \* emptiness wants X empty: its pod has a non-positive eviction cost
             pods |-> <<IF mm = "emptiness" THEN WithCost(BasePod, -10) ELSE BasePod>>]

\* ---------------------------------------------------------------- blockers (canonical order; one per group)
\* <<name, group>>; names ending in Expired / Edge / Ok / Waived... are the timing and leniency controls
Blockers == <<
  <<"unmanaged", "presence">>, <<"noNode", "presence">>, <<"nodeGone", "presence">>, <<"uninitialized", "presence">>,
  <<"marked", "mark">>, <<"claimDeleting", "deleting">>, <<"instanceTerminating", "deleting">>,
  <<"nominated", "nom">>, <<"nominatedEdge", "nom">>, <<"nominatedExpired", "nom">>,
  <<"nodeDnd", "nodeDnd">>, <<"nodeDndFalse", "nodeDnd">>,
  <<"noPoolLabel", "pool">>, <<"poolUnknown", "pool">>,
  <<"podDndTrue", "podDnd">>, <<"podDndDur", "podDnd">>, <<"podDndDurEdge", "podDnd">>, <<"podDndDurExpired", "podDnd">>,
  <<"podDndNoStart", "podDnd">>, <<"podDndInvalid", "podDnd">>, <<"podDndTerminal", "podDnd">>, <<"podDndTerminating", "podDnd">>,
  <<"dsPodDnd", "podDnd">>,
  <<"pdbZero", "pdb">>, <<"pdbOk", "pdb">>, <<"pdbMulti", "pdb">>, <<"pdbZeroWaived", "pdb">>, <<"pdbZeroTolerating", "pdb">>,
  <<"pdbZeroOtherNs", "pdb">>, <<"pdbZeroAll", "pdb">>, <<"pdbZeroNilSel", "pdb">>,
  <<"notConsolidatable", "cons">>, <<"consolidatableEdge", "cons">>, <<"consolidatableFalse", "cons">>,
  <<"costMixedNeg", "cost">>, <<"costMixedPrio", "cost">>, <<"costAllNonPos", "cost">>, <<"costEdgeZero", "cost">>,
  <<"costEdgeTiny", "cost">>, <<"costLargePos", "cost">>, <<"costPrioOutweighs", "cost">>,
  <<"poolKindFlip", "poolKind">>, <<"caNever", "ca">>, <<"caNeverStale", "ca">>, <<"whenEmpty", "policy">>, <<"buffer", "buffer">>,
  <<"notDrifted", "drift">>, <<"tgp", "tgp">>, <<"poolTgp", "poolTgp">> >>
Name(i) == Blockers[i][1]
Group(i) == Blockers[i][2]
\* blockers the environment can put on X while a command waits for validation
ChurnNames == {"nominated", "podDndTrue", "pdbZero", "pdbMulti", "nodeDnd", "marked", "claimDeleting", "pdbOk"}

Pod1(vv, f(_)) == IF Len(vv.pods) >= 1 THEN [vv EXCEPT !.pods[1] = f(@)] ELSE vv
Apply(b, vv, t) ==
    CASE b = "unmanaged"          -> [vv EXCEPT !.managed = FALSE, !.consolidatable = "Absent", !.drifted = "Absent", !.tgp = FALSE]
      [] b = "noNode"             -> [vv EXCEPT !.hasNode = FALSE, !.initialized = FALSE, !.pods = <<>>, !.consolidatable = "Absent"]
      [] b = "nodeGone"           -> [vv EXCEPT !.hasNode = FALSE, !.pods = <<>>]   \* Node object deleted, claim still Initialized
      [] b = "uninitialized"      -> [vv EXCEPT !.initialized = FALSE, !.consolidatable = "Absent"]
      [] b = "marked"             -> [vv EXCEPT !.marked = TRUE]
      [] b = "claimDeleting"      -> [vv EXCEPT !.deleting = TRUE]
      [] b = "instanceTerminating"-> [vv EXCEPT !.deleting = TRUE]
      [] b = "nominated"          -> [vv EXCEPT !.nominatedUntil = t + NW]          \* nominated now: covers the validation
      [] b = "nominatedEdge"      -> [vv EXCEPT !.nominatedUntil = T0 + 1]          \* last protected instant is T0
      [] b = "nominatedExpired"   -> [vv EXCEPT !.nominatedUntil = T0]              \* window just closed
      [] b = "nodeDnd"            -> [vv EXCEPT !.nodeDnd = TRUE]
      [] b = "nodeDndFalse"       -> vv
      [] b = "noPoolLabel"        -> [vv EXCEPT !.poolLabel = FALSE]
      [] b = "poolUnknown"        -> [vv EXCEPT !.poolKnown = FALSE]
      [] b = "podDndTrue"         -> Pod1(vv, LAMBDA p : [p EXCEPT !.dndKind = "true"])
      [] b = "podDndDur"          -> Pod1(vv, LAMBDA p : [p EXCEPT !.dndKind = "dur", !.dndSec = DD, !.started = T0 - 200])
      [] b = "podDndDurEdge"      -> Pod1(vv, LAMBDA p : [p EXCEPT !.dndKind = "dur", !.dndSec = DD, !.started = T0 - DD + 1])
      [] b = "podDndDurExpired"   -> Pod1(vv, LAMBDA p : [p EXCEPT !.dndKind = "dur", !.dndSec = DD, !.started = T0 - DD])
      [] b = "podDndNoStart"      -> Pod1(vv, LAMBDA p : [p EXCEPT !.dndKind = "dur", !.dndSec = DD, !.started = -1])
      [] b = "podDndInvalid"      -> Pod1(vv, LAMBDA p : [p EXCEPT !.dndKind = "invalid"])
      [] b \in {"podDndTerminal", "podDndTerminating"} -> IF Len(vv.pods) = 0 THEN vv
                                     ELSE LET w1 == Pod1(vv, LAMBDA p : [p EXCEPT !.dndKind = "true", !.active = FALSE, !.resched = FALSE])
                                          IN IF m = "emptiness" THEN w1 ELSE [w1 EXCEPT !.pods = Append(@, PlainPod)]
      [] b = "dsPodDnd"           -> IF vv.hasNode THEN [vv EXCEPT !.pods = Append(@, DsPod)] ELSE vv
      [] b = "pdbZero"            -> Pod1(vv, LAMBDA p : [p EXCEPT !.npdb = 1, !.pdbAllowed = 0])
      [] b = "pdbOk"              -> Pod1(vv, LAMBDA p : [p EXCEPT !.npdb = 1, !.pdbAllowed = 1])
      [] b = "pdbMulti"           -> Pod1(vv, LAMBDA p : [p EXCEPT !.npdb = 2, !.pdbAllowed = 1])
      [] b = "pdbZeroWaived"      -> Pod1(vv, LAMBDA p : [p EXCEPT !.npdb = 1, !.pdbAllowed = 0, !.pdbWaived = TRUE])
      [] b = "pdbZeroTolerating"  -> Pod1(vv, LAMBDA p : [p EXCEPT !.npdb = 1, !.pdbAllowed = 0, !.evictKind = FALSE])
      [] b = "pdbZeroOtherNs"     -> vv
      [] b = "pdbZeroAll"         -> Pod1(vv, LAMBDA p : [p EXCEPT !.npdb = 1, !.pdbAllowed = 0])   \* empty selector = every pod
      [] b = "pdbZeroNilSel"      -> vv                                                            \* nil selector = no pod
      \* eviction costs: a positive-cost pod next to a strongly negative one (they must not cancel) ...
      [] b \in {"costMixedNeg", "costMixedPrio"} ->
             IF Len(vv.pods) = 0 THEN vv
             ELSE [vv EXCEPT !.pods = Append(@, IF m = "emptiness" THEN PlainPod ELSE NegPod)]
      \* ... every pod non-positive (empty), exactly zero (empty), the smallest positive cost, a large one, a negative
      \* deletion cost outweighed by a high priority (positive)
      [] b = "costAllNonPos"      -> Pod1(vv, LAMBDA p : WithCost(p, -10))
      [] b = "costEdgeZero"       -> Pod1(vv, LAMBDA p : WithCost(p, 0))
      [] b = "costEdgeTiny"       -> Pod1(vv, LAMBDA p : WithCost(p, 1))
      [] b = "costLargePos"       -> Pod1(vv, LAMBDA p : WithCost(p, 10))
      [] b = "costPrioOutweighs"  -> Pod1(vv, LAMBDA p : WithCost(p, 10))
      [] b = "notConsolidatable"  -> [vv EXCEPT !.consolidatable = "Absent"]       \* last pod event CA-1 seconds ago
      [] b = "consolidatableEdge" -> vv                                            \* last pod event exactly CA seconds ago
      [] b = "consolidatableFalse"-> [vv EXCEPT !.consolidatable = IF vv.managed THEN "False" ELSE @]
      [] b = "poolKindFlip"       -> [vv EXCEPT !.static = ~@, !.consolidatable = IF ~vv.static THEN "Absent" ELSE @]
      [] b = "caNever"            -> [vv EXCEPT !.caSet = FALSE, !.consolidatable = IF vv.static THEN @ ELSE "Absent"]
      [] b = "caNeverStale"       -> [vv EXCEPT !.caSet = FALSE]                   \* pool just edited, condition not yet cleared
      [] b = "whenEmpty"          -> [vv EXCEPT !.policy = "WhenEmpty"]
      [] b = "buffer"             -> [vv EXCEPT !.buffer = 1]
      [] b = "notDrifted"         -> [vv EXCEPT !.drifted = "Absent"]
      [] b = "tgp"                -> [vv EXCEPT !.tgp = vv.managed]
      [] b = "poolTgp"            -> vv       \* only the pool template has a terminationGracePeriod: the NodeClaim's counts

\* ---------------------------------------------------------------- the controller's rule (with spec mutations)
\* what makes X the method's candidate in the first place (not part of the guard): emptiness takes empty nodes, the
\* consolidation methods non-empty ones.  Spec mutation "costsCancel": emptiness sums the costs instead of looking pod by pod
RECURSIVE SumCost(_, _)
SumCost(ps, i) == IF i > Len(ps) THEN 0 ELSE (IF ps[i].resched THEN ps[i].cost ELSE 0) + SumCost(ps, i + 1)
EmptyW(vv) == IF wk = "costsCancel" THEN SumCost(vv.pods, 1) <= 0 ELSE ~NonEmpty(vv)
Wants(mm, vv) == /\ (mm = "emptiness" => EmptyW(vv))
                 /\ (mm \in {"multi", "single"} => ~EmptyW(vv))
HoldsW(c, mm, vv, t) ==
    IF c = wk THEN TRUE
    ELSE IF c \in {"podDnd", "podPdb"} /\ wk = "waiveWithoutTgp" THEN Eventual(mm) \/ Holds(c, mm, vv, t)
    ELSE IF c \in {"podDnd", "podPdb"} /\ wk = "waiveGraceful" THEN vv.tgp \/ Holds(c, mm, vv, t)
    ELSE IF c = "policy" /\ wk = "costsCancel" THEN (Consolidation(mm) /\ ~EmptyW(vv)) => vv.policy # "WhenEmpty"
    ELSE IF c = "notNominated" /\ wk = "nominatedOffByOne" THEN ~(vv.nominatedUntil > t + 1)
    ELSE IF c = "podDnd" /\ wk = "dndOffByOne"
         THEN Waived(mm, vv) \/ \A i \in DOMAIN vv.pods : ~PodDndBlocks(vv.pods[i], t + 1)
    ELSE Holds(c, mm, vv, t)
EligibleW(mm, vv, t) == /\ Wants(mm, vv)
                        /\ \A i \in DOMAIN Conjuncts : Applies(Conjuncts[i], vv) => HoldsW(Conjuncts[i], mm, vv, t)

\* ---------------------------------------------------------------- closed model
Init == /\ wk \in (IF Weak = "*" THEN AllWeak ELSE {Weak})
        /\ m \in Methods /\ pre = <<>> /\ churn = <<>> /\ v = Base(m) /\ now = T0 /\ phase = "config" /\ cmds = {}

LastIdx == IF pre = <<>> THEN 0 ELSE pre[Len(pre)]
Block(i) == /\ phase = "config" /\ Len(pre) < MaxPre /\ i > LastIdx
            /\ \A j \in DOMAIN pre : Group(pre[j]) # Group(i)
            /\ (Len(pre) >= 1 => (PairMode = "all" \/ Name(i) \in {"tgp", "poolTgp"}
                                  \/ (Name(i) = "whenEmpty" /\ Group(pre[1]) = "cost")))
            /\ pre' = Append(pre, i) /\ v' = Apply(Name(i), v, now)
            /\ UNCHANGED <<m, churn, now, phase, cmds, wk>>

Issue == cmds' = cmds \cup {[m |-> m, v |-> v, now |-> now]}
Compute == /\ phase = "config"
           /\ IF ~EligibleW(m, v, now) THEN phase' = "skipped" /\ UNCHANGED cmds
              ELSE IF Eventual(m) THEN phase' = "issued" /\ Issue
              ELSE phase' = "waiting" /\ UNCHANGED cmds
           /\ UNCHANGED <<m, pre, churn, v, now, wk>>

Churn(i) == /\ phase = "waiting" /\ Len(churn) < MaxChurn /\ Name(i) \in ChurnNames
            /\ Len(pre) <= 1     \* table size: churn is combined with at most one earlier blocker
            /\ \A j \in DOMAIN pre : Group(pre[j]) # Group(i)
            /\ churn' = Append(churn, i) /\ v' = Apply(Name(i), v, now + VD)
            /\ UNCHANGED <<m, pre, now, phase, cmds, wk>>

Validate == /\ phase = "waiting" /\ now' = now + VD
            /\ IF wk = "noRevalidation" \/ EligibleW(m, v, now + VD)
               THEN phase' = "issued" /\ cmds' = cmds \cup {[m |-> m, v |-> v, now |-> now + VD]}
               ELSE phase' = "abandoned" /\ UNCHANGED cmds
            /\ UNCHANGED <<m, pre, churn, v, wk>>

Next == \/ \E i \in DOMAIN Blockers : Block(i) \/ Churn(i)
        \/ Compute \/ Validate
Spec == Init /\ [][Next]_vars

\* ---------------------------------------------------------------- the property, as the statement words it
PodProtects(p, t) == PodDndBlocks(p, t) \/ PodPdbBlocks(p)
Protected(mm, vv, t) ==
    \/ ~vv.managed \/ ~vv.hasNode \/ ~vv.initialized          \* unmanaged, uninitialized
    \/ vv.deleting \/ vv.marked                               \* already deleting
    \/ vv.nominatedUntil > t                                  \* recently nominated for pending pods
    \/ vv.nodeDnd                                             \* annotated do-not-disrupt
    \/ ~vv.poolLabel \/ ~vv.poolKnown
    \/ /\ \E i \in DOMAIN vv.pods : PodProtects(vv.pods[i], t)  \* pod-level blockers ...
       /\ ~(mm \in {"drift", "staticdrift"} /\ vv.tgp)          \* ... only drift overrides, only with a TGP
    \/ /\ mm \in {"emptiness", "multi", "single"}
       /\ (vv.consolidatable # "True" \/ vv.static \/ ~vv.caSet)
    \/ /\ mm \in {"emptiness", "multi", "single"} /\ vv.policy = "WhenEmpty"      \* WhenEmpty: only empty nodes, and a node is
       /\ \E i \in DOMAIN vv.pods : vv.pods[i].resched /\ vv.pods[i].cost > 0   \* empty only if NO pod has a positive cost
    \/ (mm = "emptiness" /\ vv.buffer > 0)
    \/ (mm = "drift" /\ (vv.static \/ vv.drifted # "True"))
    \/ (mm = "staticdrift" /\ (~vv.static \/ vv.drifted # "True"))

Inv_C07_NeverProtected == \A c \in cmds : ~Protected(c.m, c.v, c.now)
\* all spec mutations in one run (Weak = "*"): always true, prints the weakening under which the property breaks
WeakDetect == Inv_C07_NeverProtected \/ PrintT(<<"REJ", wk>>)
\* the guard is exactly as strict as the statement (no over-strictness): whenever the node is not protected the
\* un-weakened guard admits it
Inv_C07_GuardNotStricter == wk # "" \/ G_C07_Eligible(m, v, now) \/ Protected(m, v, now)
TypeOK == /\ m \in Methods /\ phase \in {"config", "skipped", "waiting", "issued", "abandoned"}
          /\ Len(pre) <= MaxPre /\ Len(churn) <= MaxChurn

\* ---------------------------------------------------------------- behaviour generation: one line per table cell
Terminal == phase \in {"skipped", "issued", "abandoned"}
Cell == [m |-> m, pre |-> [i \in DOMAIN pre |-> Name(pre[i])], churn |-> [i \in DOMAIN churn |-> Name(churn[i])],
         issued |-> phase = "issued", phase |-> phase, at |-> now]
GenPrint == ~Terminal \/ PrintT(<<"BEH", ToJson(Cell)>>)
=============================================================================
