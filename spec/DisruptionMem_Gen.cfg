\* behaviour generation by TLC simulation (checks/C07.py adds systematic interval tours)
CONSTANTS W = 20  U = 5  VD = 15  MaxNow = 60  MaxLen = 8  WeakM = ""
SPECIFICATION Spec
INVARIANTS GenPrint
