--------------------------------- MODULE Drain ---------------------------------
(***************************************************************************)
(* Drain of a node that is being terminated (property C10): the            *)
(* terminator's drain pass and the asynchronous eviction queue.            *)
(*                                                                         *)
(* State: the pods of the node (static attributes drawn from an archetype  *)
(* alphabet: tier, do-not-disrupt, toleration, static, own grace period,   *)
(* PDB; dynamic: running / terminating-until / succeeded / gone, PDB       *)
(* blocked, annotation present), the node deadline (the NodeClaim's        *)
(* termination timestamp; absent without a terminationGracePeriod), the    *)
(* eviction queue pod -> deadline it is enqueued under, a logical clock,   *)
(* and the ghost qU[p] = earliest deadline p was EVER queued with while it  *)
(* stayed un-handled (kept when the implementation drops and re-adds it).  *)
(*                                                                         *)
(* Actions = linearization points: one drain pass (list pods, split into   *)
(* past-threshold pods and tier-gated graceful candidates, Queue.Add), one *)
(* queue reconcile of one pod = one API call (eviction with its outcomes   *)
(* 200 / 429 / 404 / 500, or a direct delete with a clamped grace period), *)
(* environment steps (kubelet finishes a pod, PDB flips, annotation        *)
(* cleared, somebody else deletes the pod, the deadline annotation is      *)
(* rewritten, a tolerating pod binds, time passes, restart).               *)
(*                                                                         *)
(* The guards G_C10_* of TerminationGuards.tla are evaluated on the        *)
(* abstraction of this state into the logged record shapes at every        *)
(* eviction, direct delete and enqueue step (action properties).           *)
(***************************************************************************)
EXTENDS TerminationGuards, Json

CONSTANTS Pods,         \* pod names (ordered p1 < p2 < ... by the archetype index to break symmetry)
          Archetypes,   \* sequence of attribute records, see ArchAll
          TGPs,         \* subset of BOOLEAN: NodeClaim has a terminationGracePeriod (deadline = TGP units after deletion)
          TGP,          \* its length in clock units
          MaxNow, MaxFaults, MaxRestarts, MaxDlChanges, MaxLen,
          MaxSpont,     \* budget of spontaneous pod disturbances (a running pod leaves / succeeds / is deleted by somebody else); 99 = unbounded
          EarlierMode,  \* "earlier" (code) | "later" (spec mutation) | "nilclears" (spec mutation: a re-add without deadline clears it)
          GateTiers,    \* TRUE (code) | FALSE: all tiers enqueued at once (spec mutation)
          MinGrace,     \* 1 (code) | 0 (spec mutation)
          DndMode,      \* "honour" (code) | "ignore" (spec mutation: evicts do-not-disrupt pods)
          ThresholdSlack, \* 0 (code) | 1: deletes one unit before deadline - grace (spec mutation)
          SplitMode,    \* "waiting" (code): the deadline split runs over the pods Karpenter can drain | "all" (spec mutation): over
                        \* every pod, so static / tolerating pods past their threshold are queued and deleted
          DropMode      \* "keep" (code): an active pod that is not evictable stays enqueued | "drop" (spec mutation): its entry
                        \* is released and the next drain pass re-adds it under whatever deadline is current

VARIABLES attr, pd, dl, dlChanges, tgp, q, qU, now, bad, faults, restarts, spont, h
vars == <<attr, pd, dl, dlChanges, tgp, q, qU, now, bad, faults, restarts, spont, h>>
view == <<attr, pd, dl, dlChanges, tgp, q, qU, now, bad, faults, restarts, spont>>

NotQ == -2          \* not enqueued;  -1 = enqueued without deadline;  >= 0 = deadline
DndDur == 3         \* clock units a duration-valued annotation stays active after the pod started (at 0)
Dur == [true |-> 0, dur |-> DndDur, bogus |-> -1]

\* archetype alphabet: tier (crit, daemon), do-not-disrupt ("-", "true", "dur", "bogus"), tolerates, static, own grace
\* period in units, pdb ("-", "ok", "blocked"), late (binds later: only tolerating pods)
A(crit, daemon, dnd, tol, static, tgps, pdb, late) ==
    [crit |-> crit, daemon |-> daemon, dnd |-> dnd, tol |-> tol, static |-> static, tgps |-> tgps, pdb |-> pdb, late |-> late]
ArchAll == <<
    A(FALSE, FALSE, "-",     FALSE, FALSE, 1, "-",       FALSE),   \* 1 plain
    A(FALSE, FALSE, "-",     FALSE, FALSE, 3, "blocked", FALSE),   \* 2 plain, long grace, PDB blocked
    A(FALSE, FALSE, "true",  FALSE, FALSE, 1, "-",       FALSE),   \* 3 do-not-disrupt
    A(FALSE, FALSE, "dur",   FALSE, FALSE, 1, "ok",      FALSE),   \* 4 do-not-disrupt for a duration, PDB ok
    A(FALSE, TRUE,  "-",     FALSE, FALSE, 1, "-",       FALSE),   \* 5 daemon
    A(TRUE,  FALSE, "-",     FALSE, FALSE, 3, "-",       FALSE),   \* 6 critical, long grace
    A(TRUE,  TRUE,  "-",     FALSE, FALSE, 1, "blocked", FALSE),   \* 7 critical daemon, PDB blocked
    A(FALSE, FALSE, "-",     TRUE,  FALSE, 1, "-",       TRUE),    \* 8 tolerating, binds late
    A(FALSE, FALSE, "-",     FALSE, TRUE,  1, "-",       FALSE),   \* 9 static (node-owned)
    A(FALSE, FALSE, "bogus", FALSE, FALSE, 1, "-",       FALSE) >> \* 10 invalid annotation value
ArchDl == <<ArchAll[2], ArchAll[3], ArchAll[6]>>
ArchUndrain == <<ArchAll[1], ArchAll[8], ArchAll[9]>>
ArchQuick == <<ArchAll[1], ArchAll[2], ArchAll[3], ArchAll[5], ArchAll[6], ArchAll[8]>>

Hist(e) == Len(h) < MaxLen /\ h' = Append(h, e)
\* deletion times beyond every deadline and the clock bound are equivalent
Cap(t) == IF t > MaxNow + 1 THEN MaxNow + 1 ELSE t
PodSeq == CHOOSE s \in [1..Cardinality(Pods) -> Pods] : \A i, j \in DOMAIN s : i # j => s[i] # s[j]

\* ---------------------------------------------------------------- abstraction into the logged record shapes
Owner(a) == IF a.static THEN "node" ELSE IF a.daemon THEN "daemonset" ELSE "replicaset"
AbsPod(p) == [name |-> p, uid |-> p, node |-> "node-1",
              phase |-> IF pd[p].st = "done" THEN "Succeeded" ELSE "Running",
              deleting |-> pd[p].st = "term", deletedAt |-> pd[p].delAt,
              toleratesDisruption |-> attr[p].tol, owner |-> Owner(attr[p]),
              priorityClass |-> IF attr[p].crit THEN "system-cluster-critical" ELSE "-",
              dnd |-> IF pd[p].dnd THEN attr[p].dnd ELSE "-", started |-> 0, tgps |-> attr[p].tgps]
Present(p) == pd[p].st \in {"run", "term", "done"}
PodsOnNode == {AbsPod(p) : p \in {x \in Pods : Present(x)}}
StuckAfterU == 2
DlGhost(p) == IF qU[p.name] # NotQ THEN qU[p.name] ELSE dl

\* ---------------------------------------------------------------- initial states
Init ==
    \E idx \in [1..Cardinality(Pods) -> DOMAIN Archetypes], t \in TGPs :
      /\ \A i, j \in DOMAIN idx : i < j => idx[i] <= idx[j]
      /\ attr = [p \in Pods |-> Archetypes[idx[CHOOSE i \in DOMAIN PodSeq : PodSeq[i] = p]]]
      /\ tgp = t
      /\ dl = IF t THEN TGP ELSE -1
      /\ pd = [p \in Pods |-> [st |-> IF attr[p].late THEN "absent" ELSE "run", delAt |-> -1,
                               blocked |-> attr[p].pdb = "blocked", dnd |-> attr[p].dnd # "-"]]
      /\ q = [p \in Pods |-> NotQ] /\ qU = [p \in Pods |-> NotQ]
      /\ now = 0 /\ bad = "" /\ dlChanges = 0 /\ faults = 0 /\ restarts = 0 /\ spont = 0
      /\ h = <<[a |-> "Start", tgp |-> t, pods |-> [i \in DOMAIN PodSeq |-> [name |-> PodSeq[i]] @@ attr[PodSeq[i]]]]>>

\* ---------------------------------------------------------------- the code's predicates (Karpenter's view)
Terminal_(p) == pd[p].st = "done"
Terminating_(p) == pd[p].st = "term"
Stuck_(p) == Terminating_(p) /\ now - pd[p].delAt > StuckAfterU
DndActive_(p) == pd[p].dnd /\ (attr[p].dnd = "true" \/ (attr[p].dnd = "dur" /\ now < DndDur))
Waiting_(p) == Present(p) /\ ~Terminal_(p) /\ ~attr[p].tol /\ ~attr[p].static /\ ~Stuck_(p)
\* needsForceDelete(pod, deadline d)
NeedsForce(p, d) ==
    /\ d >= 0
    /\ IF Terminating_(p) THEN pd[p].delAt > d ELSE now > d - attr[p].tgps - ThresholdSlack
Tier(p) == (IF attr[p].crit THEN 2 ELSE 0) + (IF attr[p].daemon THEN 1 ELSE 0)
EarlierOf(a, b) == IF a = NotQ THEN b
                   ELSE IF EarlierMode = "later" THEN (IF a < 0 \/ b < 0 THEN -1 ELSE Max2(a, b))
                   ELSE IF EarlierMode = "nilclears" /\ b < 0 THEN b
                   ELSE DlMin(a, b)

\* ---------------------------------------------------------------- the guards, judged at the step (ghost `bad`)
\* bad = "" in every reachable state <=> the model satisfies the guards of TerminationGuards.tla at every eviction,
\* direct delete and enqueue step (a ghost string instead of action properties keeps the state space small)
Judge(checks) == bad' = IF bad # "" THEN bad
                        ELSE IF \E i \in DOMAIN checks : ~checks[i][2]
                             THEN checks[CHOOSE i \in DOMAIN checks : ~checks[i][2] /\ \A j \in DOMAIN checks : j < i => checks[j][2]][1]
                             ELSE ""
Dl(x) == DlGhost(x)

\* one drain pass of the terminator: Queue.Add of the past-threshold pods of every tier and of the first
\* non-empty tier of graceful candidates
DrainPass ==
    /\ \E p \in Pods : Waiting_(p)
    /\ LET waiting == {p \in Pods : Waiting_(p)}
           force == {p \in (IF SplitMode = "all" THEN {x \in Pods : Present(x) /\ ~Terminal_(x)} ELSE waiting) : NeedsForce(p, dl)}
           graceful == waiting \ force
           firstTier == IF graceful = {} THEN -1 ELSE CHOOSE t \in 0..3 : (\E p \in graceful : Tier(p) = t) /\ \A p \in graceful : Tier(p) >= t
           group == IF GateTiers THEN {p \in graceful : Tier(p) = firstTier} ELSE graceful
           add == force \cup group
       IN /\ q' = [p \in Pods |-> IF p \in add THEN EarlierOf(q[p], dl) ELSE q[p]]
          /\ qU' = [p \in Pods |-> IF p \in add THEN (IF qU[p] = NotQ THEN q'[p] ELSE DlMin(qU[p], q'[p])) ELSE qU[p]]
          \* queue entries only move to earlier deadlines; daemon / critical pods are handed to graceful eviction only
          \* when no first-class pod is left to evict first
          /\ Judge(<< <<"G_C10_EarliestDeadline", \A p \in Pods : /\ (q[p] # NotQ /\ q'[p] # NotQ) => G_C10_EarliestDeadline(q[p], q'[p])
                                                                  /\ (p \in add /\ qU[p] # NotQ) => G_C10_EarliestDeadline(qU[p], q'[p])>>,
                      <<"G_C10_TierOrder", \A p \in {x \in add : q[x] = NotQ} :
                            G_C10_TierOrder(AbsPod(p), q'[p], PodsOnNode, LAMBDA x : q'[p], now, StuckAfterU, Dur)>> >>)
    /\ Hist([a |-> "NodeRec"])
    /\ UNCHANGED <<attr, pd, dl, dlChanges, tgp, now, faults, restarts, spont>>

Complete(p) == q' = [q EXCEPT ![p] = NotQ] /\ qU' = [qU EXCEPT ![p] = NotQ]
\* one reconcile of the eviction queue for pod p; f = "ok" | "err" (the API call fails with a server error)
QRec(p, f) ==
    /\ q[p] # NotQ /\ Present(p)
    /\ (f = "err" => faults < MaxFaults)
    /\ faults' = IF f = "err" THEN faults + 1 ELSE faults
    /\ LET ap == AbsPod(p) IN
       IF NeedsForce(p, q[p])
       THEN LET g == Max2(q[p] - now, MinGrace) IN
            \* direct delete: only with a TGP, after the threshold under the earliest queued deadline, grace >= 1, within it
            /\ Judge(<< <<"G_C10_ForceOnlyWithTgpAfterThreshold", G_C10_ForceOnlyWithTgpAfterThreshold(ap, Dl(ap), tgp, now)>>,
                        <<"G_C10_DeleteOnlyDrainable", G_C10_DeleteOnlyDrainable(ap)>>,
                        <<"G_C10_GraceAtLeastOne", G_C10_GraceAtLeastOne(ap, g)>>,
                        <<"G_C10_GraceWithinDeadline", G_C10_GraceWithinDeadline(ap, g, Dl(ap), now)>> >>)
            /\ IF f = "err" THEN UNCHANGED <<pd, q, qU>>
               ELSE /\ pd' = [pd EXCEPT ![p].st = "term",
                                        ![p].delAt = IF Terminating_(p) /\ pd[p].delAt < now + g THEN @ ELSE Cap(now + g)]
                    /\ Complete(p)
       ELSE IF Terminal_(p) \/ Terminating_(p)
       THEN f = "ok" /\ Complete(p) /\ UNCHANGED <<pd, bad>>
       ELSE IF attr[p].tol \/ attr[p].static \/ (DndMode = "honour" /\ DndActive_(p))
       THEN /\ f = "ok" /\ UNCHANGED <<pd, qU, bad>>
            /\ q' = IF DropMode = "drop" THEN [q EXCEPT ![p] = NotQ] ELSE q
       ELSE \* eviction attempt (200 / 429 by the PDB / 500): only evictable pods, in class order; a 429 leaves the pod alone
            /\ Judge(<< <<"G_C10_EvictOnlyEvictable", G_C10_EvictOnlyEvictable(ap, now, Dur)>>,
                        <<"G_C10_TierOrder", G_C10_TierOrder(ap, Dl(ap), PodsOnNode, Dl, now, StuckAfterU, Dur)>> >>)
            /\ IF f = "err" \/ pd[p].blocked THEN UNCHANGED <<pd, q, qU>>
               ELSE pd' = [pd EXCEPT ![p].st = "term", ![p].delAt = Cap(now + attr[p].tgps)] /\ Complete(p)
    /\ Hist([a |-> "QRec", pod |-> p, f |-> f])
    /\ UNCHANGED <<attr, dl, dlChanges, tgp, now, restarts, spont>>

\* ---------------------------------------------------------------- environment
Env(e) == UNCHANGED bad /\ Hist(e)
Spont == (MaxSpont >= 99 \/ spont < MaxSpont) /\ spont' = IF MaxSpont >= 99 THEN spont ELSE spont + 1
Calm == UNCHANGED spont
PodGone(p) == /\ pd[p].st \in {"run", "term", "done"} /\ pd' = [pd EXCEPT ![p].st = "gone"]
              /\ (IF pd[p].st = "run" THEN Spont ELSE Calm)
              /\ Env([a |-> "PodGone", pod |-> p]) /\ UNCHANGED <<attr, dl, dlChanges, tgp, q, qU, now, faults, restarts>>
PodSucceeds(p) == /\ pd[p].st = "run" /\ pd' = [pd EXCEPT ![p].st = "done"] /\ Spont
                  /\ Env([a |-> "PodSucceeds", pod |-> p]) /\ UNCHANGED <<attr, dl, dlChanges, tgp, q, qU, now, faults, restarts>>
PodBinds(p) == /\ pd[p].st = "absent" /\ attr[p].tol /\ pd' = [pd EXCEPT ![p].st = "run"]
               /\ Env([a |-> "PodBinds", pod |-> p]) /\ UNCHANGED <<attr, dl, dlChanges, tgp, q, qU, now, faults, restarts, spont>>
PdbFlip(p) == /\ attr[p].pdb # "-" /\ Present(p) /\ pd' = [pd EXCEPT ![p].blocked = ~@]
              /\ Env([a |-> "PdbFlip", pod |-> p, allowed |-> IF pd[p].blocked THEN 1 ELSE 0])
              /\ UNCHANGED <<attr, dl, dlChanges, tgp, q, qU, now, faults, restarts, spont>>
DndClear(p) == /\ pd[p].dnd /\ Present(p) /\ pd' = [pd EXCEPT ![p].dnd = FALSE]
               /\ Env([a |-> "DndClear", pod |-> p]) /\ UNCHANGED <<attr, dl, dlChanges, tgp, q, qU, now, faults, restarts, spont>>
\* somebody else deletes the pod with its own grace period or a long one
UserDelete(p, long) == /\ pd[p].st = "run"
                       /\ pd' = [pd EXCEPT ![p].st = "term", ![p].delAt = Cap(now + (IF long THEN MaxNow ELSE attr[p].tgps))]
                       /\ Env([a |-> "UserDeletePod", pod |-> p, long |-> long]) /\ Spont
                       /\ UNCHANGED <<attr, dl, dlChanges, tgp, q, qU, now, faults, restarts>>
\* the termination timestamp annotation is rewritten (earlier or later)
Deadline(d) == /\ tgp /\ d # dl /\ d >= now /\ dlChanges < MaxDlChanges /\ dl' = d /\ dlChanges' = dlChanges + 1
               /\ Env([a |-> "Deadline", to |-> d]) /\ UNCHANGED <<attr, pd, tgp, q, qU, now, faults, restarts, spont>>
\* the annotation disappears: the next drain pass carries no deadline (nil = plus infinity)
DeadlineRemove == /\ tgp /\ dl >= 0 /\ dlChanges < MaxDlChanges /\ dl' = -1 /\ dlChanges' = dlChanges + 1
                  /\ Env([a |-> "DeadlineRemove"]) /\ UNCHANGED <<attr, pd, tgp, q, qU, now, faults, restarts, spont>>
Tick == /\ now < MaxNow /\ now' = now + 1
        /\ Env([a |-> "Tick"]) /\ UNCHANGED <<attr, pd, dl, dlChanges, tgp, q, qU, faults, restarts, spont>>
Restart == /\ restarts < MaxRestarts /\ restarts' = restarts + 1
           /\ q' = [p \in Pods |-> NotQ] /\ qU' = q'
           /\ Env([a |-> "Restart"]) /\ UNCHANGED <<attr, pd, dl, dlChanges, tgp, now, faults, spont>>

Next == \/ DrainPass
        \/ \E p \in Pods, f \in {"ok", "err"} : QRec(p, f)
        \/ \E p \in Pods : PodGone(p) \/ PodSucceeds(p) \/ PodBinds(p) \/ PdbFlip(p) \/ DndClear(p)
        \/ \E p \in Pods, long \in BOOLEAN : UserDelete(p, long)
        \/ \E d \in {TGP - 1, TGP, TGP + 1} : Deadline(d)
        \/ DeadlineRemove
        \/ Tick \/ Restart
Spec == Init /\ [][Next]_vars
FairSpec == Spec /\ WF_vars(DrainPass) /\ WF_vars(Tick) /\ \A p \in Pods : WF_vars(QRec(p, "ok")) /\ WF_vars(Terminating_(p) /\ PodGone(p))

\* ---------------------------------------------------------------- properties (the model satisfies the guards)
TypeOK == /\ now \in 0..MaxNow /\ \A p \in Pods : q[p] \in {NotQ, -1} \cup 0..(TGP + 1)
Inv_C10_Guards == bad = ""
\* with a termination grace period every pod Karpenter drains is terminating or gone once the deadline has passed
\* and the controllers have run (checked under FairSpec)
Live_C10_DrainedByDeadline ==
    tgp => <>[](\A p \in Pods : (Present(p) /\ ~attr[p].tol /\ ~attr[p].static) => pd[p].st \in {"term", "done"})

GenPrint == (Len(h) < MaxLen /\ ENABLED Next) \/ PrintT(<<"BEH", ToJson(h)>>)
BoolBoth == {TRUE, FALSE}
BoolT == {TRUE}
=============================================================================
