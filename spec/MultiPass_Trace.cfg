SPECIFICATION TraceSpec
