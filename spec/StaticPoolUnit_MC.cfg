\* the struct with the "fixed" semantics refines the ideal bookkeeping on every call sequence up to MaxLen
CONSTANTS NU = 2  Limit = 3  Wants = {1, 2}  CodeMode = "fixed"  MaxLen = 30
SPECIFICATION Spec
VIEW view
INVARIANTS Inv_C03_NoCrash Inv_C03_CountsMatchSets Inv_C03_ReservedKept Inv_C03_ReservedCovers
