\* coverage + reachability (vacuity): every action taken; TLC must reach a fallback to a lighter pool, a real truncation, a failed pod
CONSTANTS WeightVecs = {6}  FeatDiag = TRUE  NPods = 2  PodArchs = {1, 2, 5, 6, 10}
CONSTANTS Feats = {"plain", "taint", "limit"}
CONSTANTS Catalogs = {2}  DaemonSets = {2}  MaxTypesSet = {2}  Policies = {"Strict"}  Weak = ""
SPECIFICATION SpecCov
INVARIANTS Inv_C19_HighestWeightFeasible Inv_C19_CheapestPrefix Inv_C13_TypesSubsetMinValues Inv_C13_Requests Inv_C13_Template ReachDetect
