------------------------ MODULE Reservations_Trace ------------------------
(***************************************************************************)
(* Trace validation of property C17, reservation half, over the traces of   *)
(* the scheduling driver (harness/drivers/sched, spec/SCHED_TRACE.md).      *)
(*                                                                         *)
(* Observed: every commitment inside Solve (hook H1 `Sched` events: target  *)
(* NodeClaim = placeholder hostname, its requirement state, remaining       *)
(* instance types and the reservation ids it holds AFTER the step), the     *)
(* claims after FinalizeScheduling (`final`), the Results and PodErrors.    *)
(* Ghost (computed here, never read from the ReservationManager): `held` =  *)
(* hostname -> ids held after the claim's latest commitment, hence the      *)
(* holders of every id and what is left of its catalog capacity.            *)
(* Guards are the declarative ones of ReservationGuards.tla; failures       *)
(* accumulate in `viol`.  Drift_* entries are model-conformance notes (the  *)
(* held set the manager semantics predicts), never a verdict.               *)
(***************************************************************************)
EXTENDS ReservationGuards, Json, IOUtils

VARIABLES l, cfg, held, finalHeld, simple, viol, ntr, stats, done
tvars == <<l, cfg, held, finalHeld, simple, viol, ntr, stats, done>>

Trace == ndJsonDeserialize(IOEnv.TRACE)
Ev == Trace[l]
V(guard, sig) == [line |-> l, guard |-> guard, sig |-> sig]
Chk(ok, guard, sig) == IF ok THEN <<>> ELSE <<V(guard, sig)>>
RECURSIVE Flat(_)
Flat(ss) == IF ss = <<>> THEN <<>> ELSE Head(ss) \o Flat(Tail(ss))

Stats0 == [claimSteps |-> 0, holdingSteps |-> 0, multiHeld |-> 0, releases |-> 0, deferrals |-> 0, pinned |-> 0, exactOpens |-> 0, exactDefers |-> 0, sched |-> 0]
TraceInit == l = 1 /\ cfg = <<>> /\ held = <<>> /\ finalHeld = <<>> /\ simple = FALSE /\ viol = <<>> /\ ntr = 0 /\ stats = Stats0 /\ done = FALSE

Strict == cfg.options.reserved = "strict"

TCfg == /\ Ev.e = "Cfg" /\ cfg' = Ev /\ held' = <<>> /\ finalHeld' = <<>> /\ simple' = SimpleCfg(Ev) /\ ntr' = ntr + 1
        /\ UNCHANGED <<viol, stats>>

HeldOf(h) == IF h \in DOMAIN held THEN held[h] ELSE {}
\* ---- a commitment on a NodeClaim (open = new claim, commit on an in-flight one)
ClaimStep == Ev.kind \in {"open", "commit"} /\ Ev.targetKind \in {"new", "inflight"}
TClaimStep ==
    LET host == Ev.hostname
        prev == HeldOf(host)
        now  == Range(Ev.reserved)
        nh   == [h \in DOMAIN held \cup {host} |-> IF h = host THEN now ELSE held[h]]
        compat == CompatIds(cfg, Ev.its, Ev.reqs)
        exactOpen == Strict /\ Ev.kind = "open" /\ simple /\ Ev.eff # <<>> /\ SimplePod(Ev.eff[1]) /\ KnownPool(cfg, Ev.pool)
    IN
    /\ held' = nh
    /\ viol' = viol
         \o Chk(G_C17_Capacity(cfg, nh), "Inv_C17_ReservationCapacity", SigCapacity(cfg, nh))
         \o (IF Strict THEN Chk(G_C17_StrictClaim(cfg, Ev.its, Ev.reqs, prev, now), "G_C17_StrictDefers",
                                SigStrictClaim(cfg, held, Ev.its, Ev.reqs, prev, now)) ELSE <<>>)
         \o (IF exactOpen THEN Chk(G_C17_NoPoolFallback(cfg, held, Ev.eff[1], Ev.pool), "G_C17_StrictDefers", "fell-back-to-lower-weight-pool") ELSE <<>>)
         \o Chk(now \subseteq compat, "Drift_C17_HeldNotCompatible", "held-id-without-compatible-offering")
         \o Chk(now = {id \in compat : id \in prev \/ Left(cfg, held, id) > 0}, "Drift_C17_HeldSet", IF Strict THEN "strict" ELSE "fallback")
    /\ stats' = [stats EXCEPT !.claimSteps = @ + 1, !.holdingSteps = @ + (IF now # {} THEN 1 ELSE 0),
                              !.multiHeld = @ + (IF Cardinality(now) > 1 THEN 1 ELSE 0),
                              !.releases = @ + (IF prev \ now # {} THEN 1 ELSE 0),
                              !.exactOpens = @ + (IF exactOpen THEN 1 ELSE 0), !.sched = @ + 1]
    /\ UNCHANGED <<cfg, finalHeld, simple, ntr>>

\* ---- relaxation must not answer a reserved-offering error
TRelax ==
    /\ viol' = viol \o Chk(Ev.err # "reserved", "G_C17_StrictDefers", "relaxed-after-reserved-offering-error")
    /\ stats' = [stats EXCEPT !.sched = @ + 1]
    /\ UNCHANGED <<cfg, held, finalHeld, simple, ntr>>

\* ---- a pod went back to the queue; a reserved-offering deferral must be backed by an exhausted reservation
TRequeue ==
    LET deferral == Ev.err = "reserved"
        exact == simple /\ KnownPod(cfg, Ev.pod) /\ SimplePod(PodByKey(cfg, Ev.pod))
    IN
    /\ viol' = viol \o (IF ~deferral THEN <<>>
                        ELSE IF ~Strict THEN <<V("Drift_C17_DeferInFallbackMode", "reserved-offering-error-in-fallback-mode")>>
                        ELSE IF exact THEN Chk(G_C17_DeferJustifiedExact(cfg, held, PodByKey(cfg, Ev.pod)), "G_C17_StrictDefers",
                                               "deferred-though-no-compatible-reservation-exhausted")
                        ELSE Chk(G_C17_DeferJustified(cfg, held), "G_C17_StrictDefers", "deferred-though-no-reservation-exhausted"))
    /\ stats' = [stats EXCEPT !.deferrals = @ + (IF deferral THEN 1 ELSE 0), !.exactDefers = @ + (IF deferral /\ Strict /\ exact THEN 1 ELSE 0), !.sched = @ + 1]
    /\ UNCHANGED <<cfg, held, finalHeld, simple, ntr>>

\* ---- a NodeClaim after FinalizeScheduling
TFinal ==
    LET g == HeldOf(Ev.hostname) IN
    /\ viol' = viol \o Chk(G_C17_PinnedToHeldIds(cfg, Ev.reqs, g), "G_C17_PinnedToHeldIds", SigPinned(cfg, Ev.reqs, g))
                    \o Chk(Range(Ev.reserved) = g, "Drift_C17_FinalHeld", "held-ids-changed-without-commitment")
    /\ finalHeld' = [o \in DOMAIN finalHeld \cup {Ev.opener} |-> IF o = Ev.opener THEN g ELSE finalHeld[o]]
    /\ stats' = [stats EXCEPT !.pinned = @ + (IF g # {} THEN 1 ELSE 0), !.sched = @ + 1]
    /\ UNCHANGED <<cfg, held, simple, ntr>>

TSchedOther == UNCHANGED <<cfg, held, finalHeld, simple, viol, ntr>> /\ stats' = [stats EXCEPT !.sched = @ + 1]

TSched ==
    /\ Ev.e = "Sched"
    /\ IF ClaimStep THEN TClaimStep
       ELSE IF Ev.kind = "relax" THEN TRelax
       ELSE IF Ev.kind = "requeue" THEN TRequeue
       ELSE IF Ev.kind = "final" THEN TFinal
       ELSE TSchedOther

\* ---- Results: the end state (claims identified by their opener)
\* holders by REQUIREMENT SHAPE: the claim can only be launched into reserved capacity with one of these ids
ShapeHeld(r) ==
    [o \in {r.claims[i].pods[1] : i \in {j \in DOMAIN r.claims : r.claims[j].pods # <<>>}} |->
        LET c == CHOOSE x \in Range(r.claims) : x.pods # <<>> /\ x.pods[1] = o IN
        IF IsPinned(cfg, c.reqs) THEN ReqVals(cfg, c.reqs, "rid") ELSE {}]
\* holders as granted during the pass (ghost), for the claims that are still in the Results
GrantedHeld(r) == [o \in DOMAIN ShapeHeld(r) |-> IF o \in DOMAIN finalHeld THEN finalHeld[o] ELSE ShapeHeld(r)[o]]
(* Strict mode (the provisioner's): both counts must stay within capacity.  Fallback mode (simulations): a claim whose pool  *)
(* or pods force capacity-type reserved is opened even when every compatible reservation is used up; it HOLDS nothing, so    *)
(* the statement does not count it - recorded as an observation, not judged.                                                 *)
TResults ==
    /\ Ev.e = "Results"
    /\ viol' = viol
         \o Flat([i \in DOMAIN Ev.claims |->
               LET c == Ev.claims[i] IN
               IF c.pods = <<>> \/ c.pods[1] \notin DOMAIN finalHeld THEN <<>>
               ELSE Chk(G_C17_PinnedToHeldIds(cfg, c.reqs, finalHeld[c.pods[1]]), "G_C17_PinnedToHeldIds",
                        "results:" \o SigPinned(cfg, c.reqs, finalHeld[c.pods[1]]))])
         \o Chk(G_C17_Capacity(cfg, GrantedHeld(Ev)), "Inv_C17_ReservationCapacity", "results:" \o SigCapacity(cfg, GrantedHeld(Ev)))
         \o Chk(G_C17_Capacity(cfg, ShapeHeld(Ev)), IF Strict THEN "Inv_C17_ReservationCapacity" ELSE "Obs_C17_ReservedOnlyClaimWithoutReservation",
                "results-by-requirements:" \o SigCapacity(cfg, ShapeHeld(Ev)))
    /\ UNCHANGED <<cfg, held, finalHeld, simple, ntr, stats>>

\* ---- a panic raised by the reservation manager's own assertions is an attempted over-commitment
TPanic ==
    /\ Ev.e = "Panic"
    /\ viol' = viol \o Chk(Ev.class \notin {"over-reserve", "unknown-reservation"}, "Inv_C17_ReservationCapacity", "panic:" \o Ev.class)
    /\ UNCHANGED <<cfg, held, finalHeld, simple, ntr, stats>>

Passive == {"Hydrate", "Api", "Read", "Prov", "Tick", "Created", "CreateErr", "End", "Env", "Dra"}
TPassive == Ev.e \in Passive /\ UNCHANGED <<cfg, held, finalHeld, simple, viol, ntr, stats>>

TraceNext ==
    \/ /\ l <= Len(Trace) /\ l' = l + 1 /\ UNCHANGED done
       /\ (TCfg \/ TSched \/ TResults \/ TPanic \/ TPassive)
    \/ /\ l = Len(Trace) + 1 /\ ~done /\ done' = TRUE
       /\ JsonSerialize(IOEnv.OUT, [viol |-> viol, consumed |-> l - 1, traces |-> ntr, stats |-> stats])
       /\ UNCHANGED <<l, cfg, held, finalHeld, simple, viol, ntr, stats>>

TraceSpec == TraceInit /\ [][TraceNext]_tvars
=============================================================================
