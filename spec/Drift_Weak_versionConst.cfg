\* spec mutation "versionConst": TLC must reject it (vacuity guard)
CONSTANTS Claims = {"c1"}  AtomIds = {6, 10, 18}  Types = {"small", "large"}  Zones = {"zone-a", "zone-b"}  CTs = {"spot"}
          MaxLen = 40  MaxEdits = 2  MaxAtoms = 1  Wk = "versionConst"
SPECIFICATION Spec
VIEW view
INVARIANTS TypeOK Inv_C15_NoSelfDrift
PROPERTIES Act_C15_HashInvariant Act_C15_HashSensitive Act_C15_Decision Act_C15_NoSelfDrift Act_C15_TemplateChangeReported Act_C15_HashStamped
