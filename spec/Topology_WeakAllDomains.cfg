\* spec mutation (W_AllDomains = FALSE: recording only one of the possible domains of an undetermined anti-affinity target): TLC must violate Inv_C02_EndState
CONSTANTS NPods = 2  Archs = {3}  Layouts = {0}  MaxClaims = 2
CONSTANTS W_AllDomains = FALSE  W_Inverse = TRUE  W_Certain = TRUE  W_Bootstrap = TRUE  W_Slack = 0  W_Exclude = TRUE  W_MatchKeys = TRUE  W_MinDomains = TRUE  W_Policies = TRUE  W_Guard = TRUE
SPECIFICATION Spec
INVARIANTS Inv_C02_EndState
