\* scenario generation, thorough scope
CONSTANTS WeightVecs = {1, 2, 3, 4, 5, 6, 7, 8, 9, 10, 11, 12}  FeatDiag = TRUE  NPods = 2  PodArchs = {1, 2, 3, 5, 6, 7, 10}
CONSTANTS Feats = {"plain", "taint", "prefer", "limit", "limit16", "zoneA", "teamX", "min2", "archMin2", "notReady", "startup"}
CONSTANTS Catalogs = {2}  DaemonSets = {0, 2}  MaxTypesSet = {2}  Policies = {"Strict"}  Weak = ""
SPECIFICATION GenSpec
INVARIANTS GenPrint
