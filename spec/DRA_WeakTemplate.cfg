\* spec mutation (W_Template = FALSE  W_Releasable = TRUE): TLC must violate Inv_C17_DeviceExclusive
CONSTANTS NCs = {"N1"}  NClaims = 2  Kinds = {"gpu"}  Pres = {0}  Slots = {0}
CONSTANTS W_OtherNC = TRUE  W_SameType = TRUE  W_Prealloc = TRUE  W_RefCount = TRUE  W_CapInflight = TRUE  W_CapDelta = TRUE  W_Counters = TRUE  W_Template = FALSE  W_Releasable = TRUE 
SPECIFICATION Spec
INVARIANTS Inv_C17_DeviceExclusive Inv_C17_SharedCapacity Inv_C17_Counters Inv_C17_TrackerCoversEveryResolution
