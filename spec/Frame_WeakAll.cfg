\* all spec mutations of Frame_Weak_*.cfg in one run: every weakening must break a consequence AND be noticed by a frame guard
CONSTANTS Cap = 2  MaxLen = 4  Weak = "*"
SPECIFICATION Spec
VIEW view
INVARIANTS WeakDetect WeakDetectGuards
