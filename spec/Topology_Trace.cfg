CONSTANT Mode = "hook"
SPECIFICATION TraceSpec
