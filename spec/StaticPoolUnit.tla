---------------------------- MODULE StaticPoolUnit ----------------------------
(***************************************************************************)
(* state.NodePoolState on its own (binding level 1 of C03-static): every   *)
(* method takes the struct's lock, so its concurrent behaviour is exactly  *)
(* "any order of method calls".  `im` is the struct as implemented         *)
(* (CodeMode), `id` the bookkeeping the statement needs (entry kept while  *)
(* anything is left to remember, untracked claims not re-inserted), `out`  *)
(* the grants that callers still hold (a caller releases only what it was  *)
(* granted), `seen` the claims that have ever been tracked.  TLC enumerates every call sequence up to MaxLen over a small *)
(* alphabet; each is replayed on the real struct and                       *)
(* StaticPool_Trace.tla re-derives every result from `id`.                 *)
(***************************************************************************)
EXTENDS StaticPoolDefs, Json

CONSTANTS NU,         \* claims 1..NU
          Limit,      \* node limit handed to ReserveNodeCount
          Wants,      \* wanted counts handed to ReserveNodeCount
          CodeMode,   \* semantics of `im`: "code" | "fixed"
          MaxLen

VARIABLES im, id, out, seen, crash, h
vars == <<im, id, out, seen, crash, h>>
view == <<im, id, out, seen, crash>>

Init == im = EmptyPS /\ id = EmptyPS /\ out = 0 /\ seen = {} /\ crash = FALSE /\ h = <<>>

Hist(e) == h' = Append(h, e)

Reserve(w) ==
    /\ im' = PsReserve(im, Limit, w) /\ id' = PsReserve(id, Limit, w)
    /\ out' = out + PsGrant(Ensure(im), Limit, w)
    /\ UNCHANGED <<crash, seen>> /\ Hist([m |-> "Reserve", n |-> 0, limit |-> Limit, k |-> w, mfd |-> FALSE])
\* callers release one unit per granted unit
Release ==
    /\ out > 0 /\ out' = out - 1
    /\ crash' = (crash \/ PsReleaseCrashes(im, CodeMode))
    /\ im' = PsRelease(im, 1) /\ id' = PsRelease(id, 1) /\ UNCHANGED seen
    /\ Hist([m |-> "Release", n |-> 0, limit |-> 0, k |-> 1, mfd |-> FALSE])
Update(n, mfd) ==
    /\ im' = PsUpdate(im, n, mfd) /\ id' = PsUpdate(id, n, mfd)
    /\ seen' = seen \cup {n}
    /\ UNCHANGED <<out, crash>> /\ Hist([m |-> "Update", n |-> n, limit |-> 0, k |-> 0, mfd |-> mfd])
\* callers mark claims they learnt from the cluster state or the API, i.e. claims that have been tracked (their
\* Cleanup may have run in the meantime: deprovisioning marks a claim Deleting after its delete call returned)
Mark(kind, n) ==
    /\ n \in seen
    /\ im' = (CASE kind = "MarkActive" -> PsMarkActive(im, n, CodeMode)
                [] kind = "MarkDeleting" -> PsMarkDeleting(im, n, CodeMode)
                [] OTHER -> PsMarkPending(im, n, CodeMode))
    /\ id' = (CASE kind = "MarkActive" -> PsMarkActive(id, n, "fixed")
                [] kind = "MarkDeleting" -> PsMarkDeleting(id, n, "fixed")
                [] OTHER -> PsMarkPending(id, n, "fixed"))
    /\ UNCHANGED <<out, crash, seen>> /\ Hist([m |-> kind, n |-> n, limit |-> 0, k |-> 0, mfd |-> FALSE])
Cleanup(n) ==
    /\ im' = PsCleanup(im, n, CodeMode) /\ id' = PsCleanup(id, n, "fixed")
    /\ UNCHANGED <<out, crash, seen>> /\ Hist([m |-> "Cleanup", n |-> n, limit |-> 0, k |-> 0, mfd |-> FALSE])

Next == /\ ~crash /\ Len(h) < MaxLen
        /\ \/ \E w \in Wants : Reserve(w)
           \/ Release
           \/ \E n \in 1..NU : \/ \E b \in BOOLEAN : Update(n, b)
                               \/ \E kd \in {"MarkActive", "MarkDeleting", "MarkPending"} : Mark(kd, n)
                               \/ Cleanup(n)
Spec == Init /\ [][Next]_vars

Counts(s) == <<Cardinality(s.act), Cardinality(s.del), Cardinality(s.pend), s.res>>
\* the struct as implemented refines the bookkeeping the statement needs
Inv_C03_NoCrash == ~crash
Inv_C03_CountsMatchSets == <<Cardinality(im.act), Cardinality(im.del), Cardinality(im.pend)>>
                             = <<Cardinality(id.act), Cardinality(id.del), Cardinality(id.pend)>>
Inv_C03_ReservedKept == im.res = id.res
\* in the ideal bookkeeping the reserved counter always covers what callers hold
Inv_C03_ReservedCovers == id.res >= out

GenPrint == (Len(h) < MaxLen /\ ~crash /\ ENABLED Next) \/ PrintT(<<"BEH", ToJson(h)>>)
=============================================================================
