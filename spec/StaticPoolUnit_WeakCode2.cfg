\* the pinned tree's entry GC also drops PendingDisruption entries / re-inserts untracked claims: must be rejected
CONSTANTS NU = 2  Limit = 3  Wants = {1, 2}  CodeMode = "code"  MaxLen = 30
SPECIFICATION Spec
VIEW view
INVARIANTS Inv_C03_CountsMatchSets
