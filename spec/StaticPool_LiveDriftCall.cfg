\* thorough: liveness of the drift scope with every method call interleaving
CONSTANTS N = 3  Pre = 1  Limit = 2  Replicas0 = 1  ScaleTo = {1}  Budget = 1  CodeMode = "fixed"  Grain = "call"
          MaxCreateFail = 1  MaxTaintFail = 1  MaxDelete = 0  MaxDrift = 1  MaxScale = 0  MaxTimeout = 0  MaxResync = 99  MaxFlip = 99  Record = "none"  MaxLen = 0
SPECIFICATION LiveSpec
INVARIANTS TypeOK
PROPERTIES Live_C03_Settles
