\* spec mutation (W_PoolOrder = FALSE): TLC must violate Inv_C17_NoPoolFallback
CONSTANTS NPods = 1  PodArchs = {1}  Layouts = {1}  Caps = {0}  PoolSets = {2}  Modes = {"strict"}  GenMod = 1  GenRes = 0
CONSTANTS W_CanReserve = TRUE  W_Release = TRUE  W_PinAll = TRUE  W_Strict = TRUE  W_KeepHeld = TRUE  W_PoolOrder = FALSE
SPECIFICATION Spec
INVARIANTS Inv_C17_ReservationCapacity Inv_C17_ManagerConsistent Inv_C17_PinnedToHeldIds Inv_C17_EveryResolutionWithinCapacity Inv_C17_StrictNoFallback Inv_C17_StrictClaim Inv_C17_NoPoolFallback Inv_C17_DeferJustified
