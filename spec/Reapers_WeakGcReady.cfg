\* spec mutation: Node readiness not consulted -> Inv_C16_GarbageCollection
CONSTANTS Claims = {"c1", "c2", "c3"}  MaxNow = 1000  MaxFaults = 1  MaxEnv = 2  MaxLen = 30  NoopEvery = 1
          EA = 600  LT = 300  RT = 900  TolReady = 120  TolDisk = 60  PoolBg = {4}  OtherBg = {5}  MaxBad = 1  ReadyVals = {"True", "False"}
          ExpireSlack = 0  ExpireNever = "check"  GcOnProvListError = "abort"  GcOnLookupError = "skip"  GcReady = "ignore"
          LiveSlack = 0  RepairSlack = 0  RepairExtra = 0  RepairScope = "pool"  RepairOnListError = "abort"
SPECIFICATION Spec
VIEW view
INVARIANTS Inv_C16_Expiration Inv_C16_GarbageCollection Inv_C16_Liveness Inv_C16_Repair
