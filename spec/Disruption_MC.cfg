CONSTANTS MaxPre = 2  MaxChurn = 1  PairMode = "all"  Weak = ""
SPECIFICATION Spec
INVARIANTS TypeOK Inv_C07_NeverProtected Inv_C07_GuardNotStricter
