\* spec mutation (W_Slack = 1: count + self - min <= maxSkew + 1 (off by one)): TLC must violate Inv_C02_EndState
CONSTANTS NPods = 2  Archs = {7}  Layouts = {0}  MaxClaims = 1
CONSTANTS W_AllDomains = TRUE  W_Inverse = TRUE  W_Certain = TRUE  W_Bootstrap = TRUE  W_Slack = 1  W_Exclude = TRUE  W_MatchKeys = TRUE  W_MinDomains = TRUE  W_Policies = TRUE  W_Guard = TRUE
SPECIFICATION Spec
INVARIANTS Inv_C02_EndState
