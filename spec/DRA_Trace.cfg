SPECIFICATION TraceSpec
