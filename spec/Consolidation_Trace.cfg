SPECIFICATION TraceSpec
