\* spec mutation (W_MinDomains = FALSE: ignoring minDomains): TLC must violate Inv_C02_EndState
CONSTANTS NPods = 3  Archs = {9}  Layouts = {0}  MaxClaims = 2
CONSTANTS W_AllDomains = TRUE  W_Inverse = TRUE  W_Certain = TRUE  W_Bootstrap = TRUE  W_Slack = 0  W_Exclude = TRUE  W_MatchKeys = TRUE  W_MinDomains = FALSE  W_Policies = TRUE  W_Guard = TRUE
SPECIFICATION Spec
INVARIANTS Inv_C02_EndState
