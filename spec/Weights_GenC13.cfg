\* scenario generation for the C13 (b)-(d) stage (checks/c13_sched_stage.py): every pool feature, both catalogs, with / without daemonsets
CONSTANTS WeightVecs = {6}  FeatDiag = TRUE  NPods = 2  PodArchs = {1, 2, 3, 6}
CONSTANTS Feats = {"plain", "taint", "prefer", "limit", "limit16", "zoneA", "teamX", "min2", "archMin2", "notReady", "startup"}
CONSTANTS Catalogs = {1, 2}  DaemonSets = {0, 2}  MaxTypesSet = {2}  Policies = {"Strict"}  Weak = ""
SPECIFICATION GenSpec
INVARIANTS GenPrint
