--------------------------- MODULE WeightsGuards ---------------------------
(***************************************************************************)
(* Variable-free guards of C19 (NodePool weight and price ordering) and of  *)
(* the scheduler-level part of C13 (b)-(d) (the created NodeClaim carries   *)
(* the scheduler's decision).  Shared by the closed model Weights.tla and   *)
(* the trace specification Weights_Trace.tla; record shapes are those of    *)
(* spec/SCHED_TRACE.md (scenario = Cfg line, Sched / Results / Created).    *)
(*                                                                         *)
(* The oracle is written from Kubernetes / set semantics: a pool CAN HOST   *)
(* a pod iff there is a launch option (instance type of the pool's catalog, *)
(* available offering) whose node - labelled by what the type, the offering *)
(* and the pool template fix - satisfies the pod's required constraints and *)
(* the pool's own requirements, tolerates nothing it must not, fits the pod *)
(* next to the daemonsets that run on such a node, and stays inside the     *)
(* pool's remaining limits.  Nothing here looks at requirement intersection *)
(* or at how Karpenter filters instance types.                              *)
(***************************************************************************)
EXTENDS SchedulingGuards

MaxOf(S) == CHOOSE x \in S : \A y \in S : y <= x
MinOf(S) == CHOOSE x \in S : \A y \in S : x <= y
RECURSIVE SumSeq(_)
SumSeq(s) == IF s = <<>> THEN 0 ELSE Head(s) + SumSeq(Tail(s))
Inf == 2000000000

----------------------------------------------------------------------------
(* pools *)
PoolByName(cfg, n) == CHOOSE p \in Range(cfg.pools) : p.name = n
KnownPool(cfg, n) == \E p \in Range(cfg.pools) : p.name = n
\* "ready NodePool": Ready condition true and not being deleted; a static pool (spec.replicas) never takes part in scheduling
PoolUsable(q) == ~q.notReady /\ ~q.deleting /\ q.replicas = 0
PoolTypes(cfg, q) == IF q.types = <<>> THEN Range(cfg.types) ELSE {t \in Range(cfg.types) : t.name \in Range(q.types)}
Strict(cfg) == cfg.options.minValues = "Strict"
MaxTypes(cfg) == IF cfg.options.maxTypes > 0 THEN cfg.options.maxTypes ELSE 600

(* remaining limits of a pool: a record [cpu, mem, nodes]; a resource is limited iff the pool says so  *)
(* (limits.cpu > 0, limits.mem > 0, limits.nodes >= 0).  Existing nodes of the pool that are not on     *)
(* their way out are charged with their capacity and one node each.                                     *)
Charged(n, q) == n.pool = q.name /\ n.stage # "unmanaged" /\ ~n.marked /\ ~n.deleting
InitLeft(cfg, q) ==
    [cpu   |-> q.limits.cpu - SumSeq([i \in DOMAIN cfg.nodes |-> IF Charged(cfg.nodes[i], q) THEN cfg.nodes[i].cap.cpu ELSE 0]),
     mem   |-> q.limits.mem - SumSeq([i \in DOMAIN cfg.nodes |-> IF Charged(cfg.nodes[i], q) THEN cfg.nodes[i].cap.mem ELSE 0]),
     nodes |-> q.limits.nodes - SumSeq([i \in DOMAIN cfg.nodes |-> IF Charged(cfg.nodes[i], q) THEN 1 ELSE 0])]
\* a NodeClaim opened with the option list `its` is charged with the LARGEST capacity it may be launched as, and one node
KnownNames(cfg, its) == {n \in Range(its) : KnownType(cfg, n)}
ChargeOpen(cfg, left, its) ==
    LET T == {TypeByName(cfg, n) : n \in KnownNames(cfg, its)} IN
    IF T = {} THEN left
    ELSE [cpu |-> left.cpu - MaxOf({t.cpu : t \in T}), mem |-> left.mem - MaxOf({t.mem : t \in T}), nodes |-> left.nodes - 1]
WithinLimits(q, it, left) ==
    /\ (q.limits.cpu > 0 => it.cpu <= left.cpu)
    /\ (q.limits.mem > 0 => it.mem <= left.mem)
    /\ (q.limits.nodes >= 0 => left.nodes >= 1)

----------------------------------------------------------------------------
(* FeasibleFresh: can pool q host pod e (the pod AS KARPENTER CURRENTLY       *)
(* SCHEDULES IT: e.terms[1] is the required term in force, tolerations as      *)
(* relaxed so far) on a NEW node, given q's remaining limits?                  *)
\* the label value of key k on a node launched from (q, it, o); several values = Karpenter picks any admitted one
LaunchDom(cfg, q, it, o, k) ==
    LET f == Fixed(it, o, k) IN
    IF k = "pool" THEN {q.name}
    ELSE IF k \in DOMAIN q.labels THEN {q.labels[k]}
    ELSE IF f # "" THEN {f}
    ELSE IF k \in WellKnown THEN {Absent}                   \* nothing defines it on a new node
    ELSE IF \E r \in Range(q.reqs) : r.key = k THEN Range(cfg.universe[k]) \cup {Absent}   \* custom key of the template: whatever its requirements admit (PoolAdmits)
    ELSE {Absent}                                           \* a custom label the template does not define is missing
\* all labellings over key set K with L[k] \in D[k]; only keys with a real choice are enumerated
LabellingsOf(D, K) ==
    LET free == {k \in K : Cardinality(D[k]) # 1}
        U == UNION {D[k] : k \in free}
    IN {[k \in K |-> IF k \in free THEN X[k] ELSE CHOOSE v \in D[k] : TRUE] : X \in {Y \in [free -> U] : \A k \in free : Y[k] \in D[k]}}
TermKeys(t) == {t[j].key : j \in DOMAIN t}
PoolAdmits(cfg, q, L) == \A i \in DOMAIN q.reqs : Admits(cfg, q.reqs[i], L)
\* constraints of the pod in force: node selector, the j-th required term (j = 0: no term) and the expressions px of the preferred
\* term Karpenter currently treats as required (<<>> = none)
\* ... and its volumes: every volume must be usable on the node (bound PV: some node-affinity term; unbound: some allowed topology of the
\* StorageClass) - Karpenter tries the combinations ("volume topology alternatives") one after the other, SOME one must do
\* A NodeClaim commits to ONE combination (`ch`: constrained volume -> index of the chosen term / topology), so the set of instance
\* types - and with it a minValues floor - is judged per combination.
VolTermCount(cfg, e, v) ==
    LET c == PvcOf(cfg, e, v) IN
    IF c.pv # "" THEN Len(PvOf(cfg, c.pv).terms)
    ELSE IF c.sc # "" /\ (\E x \in Range(cfg.scs) : x.name = c.sc) THEN Len(ScOf(cfg, c.sc).topologies) ELSE 0
ConstrainedVols(cfg, e) == {v \in Range(e.vols) : HasPvc(cfg, e, v) /\ VolTermCount(cfg, e, v) > 0}
VolChoices(cfg, e) ==
    LET CV == ConstrainedVols(cfg, e)
        mx == IF CV = {} THEN 0 ELSE MaxOf({VolTermCount(cfg, e, v) : v \in CV})
    IN {ch \in [CV -> 1..mx] : \A v \in CV : ch[v] <= VolTermCount(cfg, e, v)}
VolHoldsCh(cfg, e, v, i, L) ==
    LET c == PvcOf(cfg, e, v) IN
    IF c.pv # "" THEN TermHolds(cfg, PvOf(cfg, c.pv).terms[i], L) ELSE TopoTermHolds(ScOf(cfg, c.sc).topologies[i], L)
PodHoldsJ(cfg, e, j, px, ch, L) ==
    /\ SelHolds(e.sel, L) /\ (j = 0 \/ TermHolds(cfg, e.terms[j], L)) /\ TermHolds(cfg, px, L)
    /\ \A v \in DOMAIN ch : VolHoldsCh(cfg, e, v, ch[v], L)
PodKeysJ(cfg, e, j, px) == DOMAIN e.sel \cup (IF j = 0 THEN {} ELSE TermKeys(e.terms[j])) \cup TermKeys(px) \cup VolKeys(cfg, e)
\* preference policy Respect: the HEAVIEST preferred node-affinity term is scheduled as if it were required until it is relaxed away
Respect(cfg) == cfg.options.preference # "Ignore"
Heaviest(pref) == CHOOSE i \in DOMAIN pref : \A j \in DOMAIN pref : pref[j].weight <= pref[i].weight
PrefInForce(cfg, e) == IF Respect(cfg) /\ e.pref # <<>> THEN e.pref[Heaviest(e.pref)].exprs ELSE <<>>
PoolKeys(q) == {q.reqs[i].key : i \in DOMAIN q.reqs} \cup DOMAIN q.labels
AllDaemonKeys(cfg) == UNION {DaemonKeys(d) : d \in Range(cfg.ds)}
\* Karpenter treats PreferNoSchedule as required until it relaxed the pod (by ADDING a blanket toleration to the pod it
\* schedules); `soft` = TRUE evaluates the taint the Kubernetes way (a preference never blocks)
Blocking(t, soft) == t.effect \in {"NoSchedule", "NoExecute"} \/ (~soft /\ t.effect = "PreferNoSchedule")
TaintsOK(tols, taints, soft) == \A t \in Range(taints) : Blocking(t, soft) => \E x \in Range(tols) : Tolerates(x, t)
HostsOn(cfg, e, j, px, ch, q, it, o) ==
    /\ o.available /\ o.ct # "reserved"                     \* reserved capacity is not counted (lower bound, see C17)
    /\ LET K == PodKeysJ(cfg, e, j, px) \cup PoolKeys(q) \cup AllDaemonKeys(cfg)
           D == [k \in K |-> LaunchDom(cfg, q, it, o, k)]
       IN \E L \in LabellingsOf(D, K) :
            /\ PoolAdmits(cfg, q, L) /\ PodHoldsJ(cfg, e, j, px, ch, L)
            /\ LET dm == {d \in Range(cfg.ds) : DaemonRuns(cfg, d, L, q.taints)} IN
               /\ LeqRes(AddRes(SumReq({e}), SumReq(dm)), OfferingAlloc(it, o))
               /\ \A d \in dm : ~PortsClash(e.ports, d.ports)
FeasibleTypes(cfg, e, j, px, ch, q, left) ==
    {it \in PoolTypes(cfg, q) : WithinLimits(q, it, left) /\ \E i \in DOMAIN it.offerings : HostsOn(cfg, e, j, px, ch, q, it, it.offerings[i])}
\* the distinct values instance type `it` contributes to a minValues floor on key k
TypeValues(it, k) ==
    CASE k = "it"   -> {it.name}
      [] k = "zone" -> {it.offerings[i].zone : i \in DOMAIN it.offerings}
      [] k = "ct"   -> {it.offerings[i].ct : i \in DOMAIN it.offerings}
      [] OTHER      -> IF k \in DOMAIN it.labels THEN {it.labels[k]} ELSE {}
MinValuesMet(q, T) == \A i \in DOMAIN q.reqs : q.reqs[i].min > 0 => Cardinality(UNION {TypeValues(it, q.reqs[i].key) : it \in T}) >= q.reqs[i].min
FeasibleJ(cfg, e, j, px, q, left, soft) ==
    /\ PoolUsable(q)
    /\ TaintsOK(e.tol, q.taints, soft)
    /\ \E ch \in VolChoices(cfg, e) : LET T == FeasibleTypes(cfg, e, j, px, ch, q, left) IN T # {} /\ (Strict(cfg) => MinValuesMet(q, T))
TermInForce(e) == IF e.terms = <<>> THEN 0 ELSE 1
FeasibleFresh(cfg, e, q, left) == FeasibleJ(cfg, e, TermInForce(e), PrefInForce(cfg, e), q, left, FALSE)
\* the Kubernetes reading of the pod: ANY required term may hold, preferences and PreferNoSchedule never block
FeasibleRelaxed(cfg, e, q, left) == \E j \in (IF e.terms = <<>> THEN {0} ELSE DOMAIN e.terms) : FeasibleJ(cfg, e, j, <<>>, q, left, TRUE)
\* the forms Karpenter's relaxation ladder (preferences.go: Relax) really tries: each required term in turn (with the heaviest
\* preference, PreferNoSchedule blocking); then, with the LAST term only, each lighter preference in turn, no preference, and finally
\* no preference with the blanket PreferNoSchedule toleration
FeasibleLadder(cfg, e, q, left) ==
    LET n == Len(e.terms)
        J == IF n = 0 THEN {0} ELSE 1..n
        P == IF Respect(cfg) THEN {e.pref[i].exprs : i \in DOMAIN e.pref} ELSE {} IN
    \/ \E j \in J : FeasibleJ(cfg, e, j, PrefInForce(cfg, e), q, left, FALSE)
    \/ \E px \in P : FeasibleJ(cfg, e, n, px, q, left, FALSE)
    \/ FeasibleJ(cfg, e, n, <<>>, q, left, FALSE)
    \/ FeasibleJ(cfg, e, n, <<>>, q, left, TRUE)

(* the sub-alphabet for which FeasibleFresh is EXACT (the guard runs admissibility in the converse     *)
(* direction, DESIGN 2.5); outside it the guard is not evaluated                                        *)
NoInterPod(p) == p.aff = <<>> /\ p.anti = <<>> /\ p.prefAff = <<>> /\ p.prefAnti = <<>> /\ p.spread = <<>>
ExactScenario(cfg) ==
    /\ \A p \in Range(cfg.pods) : NoInterPod(p)
    /\ \A t \in Range(cfg.types) : \A i \in DOMAIN t.offerings : t.offerings[i].cpuOv = 0 /\ t.offerings[i].memOv = 0
                                                                    /\ t.offerings[i].podsOv = 0 /\ t.offerings[i].ohCpu = 0 /\ t.offerings[i].ohMem = 0
    /\ \A d \in Range(cfg.ds) : Len(d.terms) <= 1 /\ DaemonKeys(d) \subseteq {"arch", "os", "it", "gen"}
    \* a type label a pool requirement reads is defined on EVERY instance type (the provider contract; a catalog that breaks it is C13's food)
    /\ \A q \in Range(cfg.pools) : \A i \in DOMAIN q.reqs : q.reqs[i].key \in {"arch", "os", "gen"} => \A t \in Range(cfg.types) : q.reqs[i].key \in DOMAIN t.labels
ExactPod(cfg, e) ==
    /\ NoInterPod(e)
    \* volumes: known claims; bound ones to known volumes, unbound ones with a known StorageClass; topology on the zone only
    /\ \A v \in Range(e.vols) : /\ HasPvc(cfg, e, v)
                                 /\ LET c == PvcOf(cfg, e, v) IN IF c.pv # "" THEN \E x \in Range(cfg.pvs) : x.name = c.pv
                                                                ELSE \E x \in Range(cfg.scs) : x.name = c.sc
    /\ VolKeys(cfg, e) \subseteq {"zone"}
    \* every key is constrained once (contradictory constraints on one key are the C12 / C01 findings, not C19's business)
    /\ \A j \in DOMAIN e.terms : DOMAIN e.sel \cap TermKeys(e.terms[j]) = {} /\ Cardinality(TermKeys(e.terms[j])) = Len(e.terms[j])
    /\ \A i \in DOMAIN e.pref : /\ Cardinality(TermKeys(e.pref[i].exprs)) = Len(e.pref[i].exprs)
                                 /\ DOMAIN e.sel \cap TermKeys(e.pref[i].exprs) = {}
                                 /\ \A j \in DOMAIN e.terms : TermKeys(e.terms[j]) \cap TermKeys(e.pref[i].exprs) = {}
    \* distinct weights: the code picks the heaviest preference with an unstable sort
    /\ \A i, j \in DOMAIN e.pref : i # j => e.pref[i].weight # e.pref[j].weight

(* G_C19_HighestWeightFeasible, at the moment pod e opens a new node in pool `pn`; left[name] = the     *)
(* remaining limits of every pool BEFORE this open.  Ties in weight are free.                            *)
HigherFeasible(cfg, e, r, left) == {q \in Range(cfg.pools) : q.weight > r.weight /\ FeasibleFresh(cfg, e, q, left[q.name])}
G_C19_HighestWeightFeasible(cfg, e, pn, left) ==
    /\ KnownPool(cfg, pn)
    /\ LET r == PoolByName(cfg, pn) IN PoolUsable(r) /\ HigherFeasible(cfg, e, r, left) = {}
SigHighest(cfg, e, pn, left) ==
    IF ~KnownPool(cfg, pn) THEN "unknown-pool"
    ELSE LET r == PoolByName(cfg, pn) IN
         IF r.notReady THEN "pool-not-ready" ELSE IF r.deleting THEN "pool-being-deleted" ELSE IF r.replicas > 0 THEN "static-pool"
         ELSE "higher-weight-pool-feasible"

----------------------------------------------------------------------------
(* G_C19_CheapestPrefix: claim c (Results record: reqs) with the scheduler's *)
(* option list `options` (names) sends `emitted` (names) to the provider.    *)
OfferingCompat(cfg, c, o) ==
    /\ InUniverse(cfg, "zone", o.zone) /\ ClaimAdmits(cfg, c, "zone", o.zone)
    /\ InUniverse(cfg, "ct", o.ct) /\ ClaimAdmits(cfg, c, "ct", o.ct)
    /\ (o.rid = "" \/ (InUniverse(cfg, "rid", o.rid) /\ ClaimAdmits(cfg, c, "rid", o.rid)))
\* price of a type for claim c = its cheapest compatible available offering (none: beyond every price)
Price(cfg, c, itn) ==
    IF ~KnownType(cfg, itn) THEN Inf
    ELSE LET it == TypeByName(cfg, itn)
             P == {it.offerings[i].price : i \in {j \in DOMAIN it.offerings : it.offerings[j].available /\ OfferingCompat(cfg, c, it.offerings[j])}}
         IN IF P = {} THEN Inf ELSE MinOf(P)
PrefixParts(cfg, c, options, emitted) ==
    LET k == Min2(Len(options), MaxTypes(cfg)) IN
    [ subset |-> Range(emitted) \subseteq Range(options),
      count  |-> Len(emitted) = k /\ Cardinality(Range(emitted)) = k,
      cheap  |-> \A x \in Range(emitted) : \A y \in Range(options) \ Range(emitted) : Price(cfg, c, x) <= Price(cfg, c, y) ]
G_C19_CheapestPrefix(cfg, c, options, emitted) == LET x == PrefixParts(cfg, c, options, emitted) IN x.subset /\ x.count /\ x.cheap
SigPrefix(cfg, c, options, emitted) ==
    LET x == PrefixParts(cfg, c, options, emitted) IN
    IF ~x.subset THEN "not-an-option" ELSE IF ~x.count THEN "count" ELSE "dearer-type-kept"

----------------------------------------------------------------------------
(* C13 (b)-(d): the NodeClaim object `cr` (Created event) stored by          *)
(* CreateNodeClaims for claim c (Results record) of pool `pool`.             *)
ItReqs(cr) == {i \in DOMAIN cr.reqs : cr.reqs[i].key = "it" /\ cr.reqs[i].op = "In"}
CreatedIts(cr) == IF ItReqs(cr) = {} THEN <<>> ELSE cr.reqs[CHOOSE i \in ItReqs(cr) : TRUE].vals
\* (b) instance-type list: a non-empty subset of the scheduler's options that keeps every minValues floor (strict policy)
TypesParts(cfg, pool, options, cr) ==
    LET its == CreatedIts(cr)
        T == {TypeByName(cfg, n) : n \in KnownNames(cfg, its)} IN
    [ listed |-> its # <<>>,
      subset |-> Range(its) \subseteq Range(options),
      floor  |-> Strict(cfg) => MinValuesMet(pool, T) ]
G_C13_TypesSubsetMinValues(cfg, pool, options, cr) == LET x == TypesParts(cfg, pool, options, cr) IN x.listed /\ x.subset /\ x.floor
SigTypes(cfg, pool, options, cr) ==
    LET x == TypesParts(cfg, pool, options, cr) IN
    IF ~x.listed THEN "no-instance-type-list" ELSE IF ~x.subset THEN "not-an-option" ELSE "minvalues-floor-broken"
(* (c) requests: the pods of the claim plus daemon overhead.  Lower bound: the daemonsets that run on    *)
(* EVERY node the claim may become (minimum over the scheduler's options and their compatible available   *)
(* offerings, per resource; an option that has no such offering - Karpenter keeps them on a NodeClaim     *)
(* pinned to reserved capacity - counts with no overhead at all, DESIGN C13 (c) takes the minimum over    *)
(* every remaining option).  Upper bound: the pods plus every daemonset that tolerates the pool's taints  *)
(* (overhead counted once - a request above that is not "the pods plus daemon overhead").                 *)
MinRes(S) == [cpu |-> MinOf({x.cpu : x \in S}), mem |-> MinOf({x.mem : x \in S}), pods |-> MinOf({x.pods : x \in S})]
CertainOverheads(cfg, c, options) ==
    UNION {LET it == TypeByName(cfg, n)
               launch == {j \in DOMAIN it.offerings : it.offerings[j].available /\ OfferingCompat(cfg, c, it.offerings[j])} IN
           IF launch = {} THEN {[cpu |-> 0, mem |-> 0, pods |-> 0]}
           ELSE {SumReq(CertainDaemons(cfg, c, it, it.offerings[i])) : i \in launch}
           : n \in KnownNames(cfg, options)}
RequestParts(cfg, pool, c, options, cr) ==
    LET pods == SumReq(ClaimPods(cfg, c))
        ov == CertainOverheads(cfg, c, options)
        lower == IF ov = {} THEN pods ELSE AddRes(pods, MinRes(ov))
        upper == AddRes(pods, SumReq({d \in Range(cfg.ds) : TaintsTolerated(d.tol, pool.taints)}))
    IN [ covers |-> LeqRes(lower, cr.requests), bounded |-> LeqRes(cr.requests, upper) ]
G_C13_Requests(cfg, pool, c, options, cr) == LET x == RequestParts(cfg, pool, c, options, cr) IN x.covers /\ x.bounded
SigRequests(cfg, pool, c, options, cr) ==
    IF ~RequestParts(cfg, pool, c, options, cr).covers THEN "below-pods-plus-daemon-overhead" ELSE "above-pods-plus-daemon-overhead"
\* (d) template: labels, taints, startup taints, NodePool hash (of the pool as stored NOW), no simulation-only keys
HashKey == "karpenter.sh/nodepool-hash"
HashVersionKey == "karpenter.sh/nodepool-hash-version"
SimulationKeys == {"karpenter.sh/registered", "karpenter.sh/initialized"}
TaintSet(ts) == {[key |-> t.key, value |-> t.value, effect |-> t.effect] : t \in Range(ts)}
TemplateParts(pool, cr) ==
    [ labels  |-> /\ cr.pool = pool.name
                  /\ \A k \in DOMAIN pool.labels : k \in DOMAIN cr.labels /\ cr.labels[k] = pool.labels[k]
                  /\ cr.ncKey \in DOMAIN cr.allLabels /\ cr.allLabels[cr.ncKey] = cr.ncVal,
      taints  |-> TaintSet(cr.taints) = TaintSet(pool.taints),
      startup |-> TaintSet(cr.startup) = TaintSet(pool.startup),
      hash    |-> HashKey \in DOMAIN cr.annotations /\ cr.annotations[HashKey] = cr.expHash,
      version |-> HashVersionKey \in DOMAIN cr.annotations /\ cr.annotations[HashVersionKey] = cr.expHashVersion,
      simkeys |-> /\ SimulationKeys \cap DOMAIN cr.allLabels = {}
                  \* ... nor the placeholder hostname the scheduler gives a NodeClaim while it simulates (removed by FinalizeScheduling)
                  /\ \A i \in DOMAIN cr.reqs : cr.reqs[i].key \notin SimulationKeys /\ cr.reqs[i].key # "host" ]
G_C13_Template(pool, cr) ==
    LET x == TemplateParts(pool, cr) IN x.labels /\ x.taints /\ x.startup /\ x.hash /\ x.version /\ x.simkeys
SigTemplate(pool, cr) ==
    LET x == TemplateParts(pool, cr) IN
    IF ~x.labels THEN "labels" ELSE IF ~x.taints THEN "taints" ELSE IF ~x.startup THEN "startup-taints"
    ELSE IF ~x.hash THEN "hash" ELSE IF ~x.version THEN "hash-version" ELSE "simulation-only-key"
=============================================================================
