-------------------------- MODULE StaticPoolCtl_Trace --------------------------
(***************************************************************************)
(* Trace validation, binding level 2 of C03-static: executions of the real *)
(* static provisioning / deprovisioning controllers, the disruption        *)
(* controller (StaticDrift) + orchestration queue and the NodeClaim        *)
(* informer on the world harness.  Observed: every API write (choke        *)
(* point), the NodePoolState projection after each step, recovered panics, *)
(* the NodeClaim count once everything has run to a fix-point.  Ghost: the *)
(* set of the pool's NodeClaims that exist in the API.  The guards are the *)
(* statement: never more NodeClaims than the node limit, no crash, the     *)
(* count settles at spec.replicas.                                         *)
(***************************************************************************)
EXTENDS StaticPoolDefs, Json, IOUtils

VARIABLES l, st, viol, ntr, done
tvars == <<l, st, viol, ntr, done>>

Trace == ndJsonDeserialize(IOEnv.TRACE)
Ev == Trace[l]
Chk(ok, guard, sig) == IF ok THEN <<>> ELSE <<[line |-> l, guard |-> guard, sig |-> sig]>>
ToSet(s) == {s[i] : i \in DOMAIN s}
NoMem == [entry |-> FALSE, hasLimit |-> FALSE, act |-> <<>>, del |-> <<>>, pend |-> <<>>, map |-> <<>>, res |-> 0,
          nAct |-> 0, nDel |-> 0, nPend |-> 0]
Tracked(m) == Cardinality(ToSet(m.act) \cup ToSet(m.del) \cup ToSet(m.pend))

\* taintFail / createFail: the behaviour made a taint patch / a NodeClaim create fail (the two places after which a
\* reservation has to be given back without a NodeClaim having been created)
\* window: a reconcile was scheduled inside cluster.UpdateNodeClaim, between NodePoolState.Cleanup and UpdateNodeClaim
St0(cfg) == [cfg |-> cfg, claims |-> {}, idx |-> {}, mem |-> NoMem, gcDropped |-> FALSE, taintFail |-> FALSE,
             createFail |-> FALSE, window |-> FALSE]
TraceInit == l = 1 /\ st = St0([limit |-> 0]) /\ viol = <<>> /\ ntr = 0 /\ done = FALSE

IsClaim == Ev.kind = "NodeClaim"
\* the witness class of an over-limit create: did the entry GC throw away pending-disruption claims or reservations
\* before, does the bookkeeping know fewer claims than the API holds, or is it complete
CapSig == IF st.window THEN "reserve-inside-cluster-update-window"
          ELSE IF st.gcDropped THEN "after-entry-gc-dropped-pending-or-reservation"
          ELSE IF Tracked(st.mem) + st.mem.res < Cardinality(st.claims) THEN "tracked-fewer-than-api"
          ELSE "tracked-complete"

TApi ==
    /\ Ev.e = "Api"
    /\ LET ok == Ev.err = "-"
           created == IsClaim /\ ok /\ Ev.verb = "create" /\ Ev.post.exists /\ Ev.post.pool = st.cfg.pool
           removed == IsClaim /\ ok /\ (Ev.gone \/ (Ev.verb = "delete" /\ ~Ev.post.exists))
           claims2 == IF created THEN st.claims \cup {Ev.post.name}
                      ELSE IF removed THEN st.claims \ {Ev.name} ELSE st.claims
       IN /\ st' = [st EXCEPT !.claims = claims2]
          /\ viol' = viol \o (IF created /\ Ev.actor # "env"
                              THEN Chk(Cardinality(claims2) <= st.cfg.limit, "Inv_C03_StaticCap",
                                       "create-over-limit:" \o CapSig)
                              ELSE <<>>)

TEnv ==
    /\ Ev.e = "Env"
    /\ st' = [st EXCEPT !.claims = IF IsClaim /\ ~Ev.post.exists THEN @ \ {Ev.name} ELSE @]
    /\ UNCHANGED viol

\* the projection of the NodePoolState after a step; remember whether the entry GC dropped something
TMem ==
    /\ Ev.e = "Mem"
    /\ LET was == st.mem
           now == Ev.mem
           dropped == (was.entry \/ was.hasLimit) /\ ~(now.entry \/ now.hasLimit)
                      /\ (was.res > 0 \/ ToSet(was.pend) # {})
           \* an informer delivery never releases a reservation: if the counter went down across one, the entry was
           \* collected and re-created inside cluster.UpdateNodeClaim (Cleanup on provider-id change, then UpdateNodeClaim)
           infDrop == Ev.after \in {"I_Deliver", "I_Update", "GC"} /\ now.res < was.res
       IN /\ st' = [st EXCEPT !.mem = now, !.gcDropped = @ \/ dropped \/ infDrop]
          \* the reserved counter covers every grant whose API call is still held at the gate
          /\ viol' = viol \o Chk(now.res >= Ev.heldGrants, "G_C03_ReservedCovers",
                                  IF st.gcDropped \/ dropped \/ infDrop THEN "after-entry-gc-dropped-pending-or-reservation"
                                  ELSE "reserved-below-held-grants")

TPanic ==
    /\ Ev.e = "Panic"
    \* the witness class is the innermost Karpenter function that panicked (a worker's panic is reported
    \* asynchronously, so the state at the instant of the panic is not observable here; level 1 has it)
    /\ viol' = viol \o Chk(FALSE, "G_C03_NoCrash", Ev.fn)
    /\ UNCHANGED st

\* bounded progress: environment quiet, every controller and the environment's progress steps ran to a fix-point
SettleSig(m) == IF m.res > 0 THEN "reservation-leaked:" \o (IF st.taintFail THEN "taint-failure" ELSE "no-taint-failure")
                                                      \o (IF st.createFail THEN "+create-failure" ELSE "")
                ELSE IF ToSet(m.act) \cup ToSet(m.del) \cup ToSet(m.pend) # ToSet(m.map) THEN "untracked-entry-kept"
                ELSE "other"
TQuiesce ==
    /\ Ev.e = "Quiesce"
    /\ viol' = viol \o (IF Ev.converged /\ Ev.replicas <= Ev.limit
                        THEN Chk(Ev.live = Ev.replicas /\ Ev.deleting = 0, "Live_C03_Settles", SettleSig(Ev.mem))
                        ELSE <<>>)
    /\ st' = [st EXCEPT !.mem = Ev.mem]

TStep == /\ Ev.e = "Step"
         /\ st' = [st EXCEPT !.taintFail = @ \/ (Ev.a = "X_Taint" /\ Ev.ok = "false"),
                             !.createFail = @ \/ (Ev.a = "W_Create" /\ Ev.ok = "false")]
         /\ UNCHANGED viol
TWindow == Ev.e = "Window" /\ st' = [st EXCEPT !.window = TRUE] /\ UNCHANGED viol
TOther == Ev.e \in {"Skip", "Begin", "End", "EndTrace", "Tick", "Prov", "Read"} /\ UNCHANGED <<st, viol>>

TraceNext ==
    \/ /\ l <= Len(Trace) /\ l' = l + 1 /\ UNCHANGED done
       /\ \/ (Ev.e = "Cfg" /\ st' = St0(Ev) /\ ntr' = ntr + 1 /\ UNCHANGED viol)
          \/ ((TApi \/ TEnv \/ TMem \/ TPanic \/ TQuiesce \/ TStep \/ TWindow \/ TOther) /\ UNCHANGED ntr)
    \/ /\ l = Len(Trace) + 1 /\ ~done /\ done' = TRUE
       /\ JsonSerialize(IOEnv.OUT, [viol |-> viol, consumed |-> l - 1, traces |-> ntr])
       /\ UNCHANGED <<l, st, viol, ntr>>

TraceSpec == TraceInit /\ [][TraceNext]_tvars
=============================================================================
