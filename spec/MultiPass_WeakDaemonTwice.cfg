\* spec mutation: running daemonset pods are not subtracted from the expected overhead
CONSTANTS Catalogs = {1}  Limits = {0}  Daemons = {1}  Batches = {2}  Laters = {0}
CONSTANTS MaxRounds = 3  MaxClaims = 3  MaxSteps = 7  AllowForeign = TRUE  Resyncs = {FALSE}  EphForms = {2}  StForms = {2}
CONSTANTS W_NoSyncGate = FALSE  W_SubMin = FALSE  W_SubDominating = FALSE  W_StartupBlocks = FALSE  W_CountMarked = FALSE  W_ZeroSkips = FALSE  W_NoZeroFallback = FALSE  W_DaemonTwice = TRUE  W_SyncBeforeBatch = FALSE  C_NodesPerPass = FALSE  C_OverrideBase = FALSE
SPECIFICATION Spec
VIEW view
INVARIANTS Cex_C04_NoNeedlessOpen Cex_C04_Idempotent Cex_C04_InflightFits Cex_C04_MarkedNotCapacity Cex_C04_PassOnlyWhenSynced Cex_C03_PoolCapacity Cex_C03_OpenWithinLimits
