-------------------------- MODULE Requirements_Trace --------------------------
(***************************************************************************)
(* Trace validation for C12 and C13(a,e).  Every `Case` line is one chain  *)
(* of atoms on one key together with what the real scheduling.Requirement  *)
(* / Requirements / NodeClaimTemplate answered (harness/drivers/           *)
(* requirements).  Every answer is re-derived from RequirementsSem (the    *)
(* Kubernetes semantics) over the value universe of the trace's Cfg line.  *)
(* Guard failures are accumulated per (guard, signature) with the first    *)
(* line and a count; nothing is fatal.  A line no disjunct consumes means  *)
(* a malformed log (exit 2).                                               *)
(***************************************************************************)
EXTENDS RequirementsSem, TLC, Json, IOUtils

VARIABLES l, viol, cnt, ntr, done, cfg
tvars == <<l, viol, cnt, ntr, done, cfg>>

Trace == ndJsonDeserialize(IOEnv.TRACE)
Ev == Trace[l]

NoCfg == [universe |-> <<>>, custom |-> "-", custom2 |-> "-", custom3 |-> "-", wk |-> "-", wk2 |-> "-", alias |-> "-",
          vmap |-> <<>>, vkeys |-> <<>>]
TraceInit == l = 1 /\ viol = {} /\ cnt = <<>> /\ ntr = 0 /\ done = FALSE /\ cfg = NoCfg

uni == cfg.universe
U   == {uni[j] : j \in DOMAIN uni}

\* value translation registered for a (stable) key name: the scenario's map if the key is listed, else nothing
VMapOf(key) == IF \E j \in DOMAIN cfg.vkeys : cfg.vkeys[j] = key
               THEN [s \in {cfg.vmap[j].from : j \in DOMAIN cfg.vmap} |->
                        cfg.vmap[CHOOSE j \in DOMAIN cfg.vmap : cfg.vmap[j].from = s].to]
               ELSE <<>>
AtomOf(x) == [op |-> x.op, S |-> {x.vals[j] : j \in DOMAIN x.vals}, b |-> x.b, mv |-> x.mv]
\* atoms exactly as logged (serialised entries: already in the provider's vocabulary)
AtomsOf(xs) == [j \in DOMAIN xs |-> AtomOf(xs[j])]
\* atoms as read on stable key `key`, whichever spelling (`ka`) each atom's key was written with
AtomsOn(xs, key) == LET vm == VMapOf(key) IN [j \in DOMAIN xs |-> NormAtom(vm, AtomOf(xs[j]))]
HasVec(as) == [j \in DOMAIN uni |-> AdmitsAll(as, uni[j])]
\* coarse witness class of a chain: which kinds of operators it mixes (keeps the number of distinct signatures small)
OpsSig(as) ==
    LET Has(o) == \E j \in DOMAIN as : as[j].op \in o
        T(b, t) == IF b THEN t ELSE ""
    IN T(Has({"In"}), "In.") \o T(Has({"NotIn"}), "NotIn.") \o T(Has({"Exists"}), "Exists.")
       \o T(Has({"DoesNotExist"}), "DoesNotExist.") \o T(Has({"Gt", "Gte"}), "lower.") \o T(Has({"Lt", "Lte"}), "upper.")
       \o (IF Len(as) = 1 THEN "single" ELSE "chain")

\* a failed guard: set of (guard, sig) pairs
F(ok, guard, sig) == IF ok THEN {} ELSE {<<guard, sig>>}

\* ---------------------------------------------------------------- Case
\* (all guards take the chain `as` and its semantic Has-vector `want` as LET-bound arguments: TLC caches LET values
\*  but re-evaluates zero-arity state-level definitions at every use)
KeyOf(kk) == CASE kk = "wk" -> cfg.wk [] kk = "wk2" -> cfg.wk2 [] kk = "custom2" -> cfg.custom2
                [] kk = "custom3" -> cfg.custom3 [] OTHER -> cfg.custom
WellKnownKind(kk) == kk \in {"wk", "wk2"}
Narrow(got, exp) == \A j \in DOMAIN exp : got[j] => exp[j]
Dir(got, exp) == IF Narrow(exp, got) THEN "wider" ELSE IF Narrow(got, exp) THEN "narrower" ELSE "different"

G_New(e, as) ==
    {<<"G_C12_New", as[j].op>> : j \in {x \in DOMAIN as : e.hasNew[x] # HasVec(<<as[x]>>)}}

G_Intersection(e, as, want, ops) ==
    F(e.has = want, "G_C12_Intersection", "Add:" \o ops)
    \cup F(e.hasX = want, "G_C12_Intersection", "Intersection:" \o ops)
    \cup F(e.hasShared = want, "G_C12_Intersection", "Add-shared-operands:" \o ops)
    \cup F(Len(e.hasPod) = 0 \/ e.hasPod = want, "G_C12_Intersection", "PodRequirements:" \o ops)
    \cup F(e.hasNewAfter = e.hasNew, "G_C12_Intersection", "operands-modified:" \o ops)

G_HasIntersection(e, want, ops) ==
    LET nonEmpty == \E j \in DOMAIN want : want[j]
        bad == {j \in DOMAIN e.hi : e.hi[j].ab # nonEmpty \/ e.hi[j].ba # nonEmpty}
    IN IF bad = {} THEN {}
       ELSE {<<"G_C12_HasIntersection", (IF nonEmpty THEN "false-negative:" ELSE "false-positive:") \o ops>>}

G_Laws(e, want, mx) ==
    F(e.hasRev = want, "G_C12_Laws", "commutative")
    \cup F(e.hasAssoc = want, "G_C12_Laws", "associative")
    \cup F(e.hasIdem = want, "G_C12_Laws", "idempotent")
    \cup F(e.mv = mx /\ e.mvX = mx /\ e.mvRev = mx /\ e.mvAssoc = mx /\ e.mvIdem = mx, "G_C12_Laws", "minvalues-max")
    \cup F(/\ e.keys = <<KeyOf(e.kk)>> /\ ~e.hasAlias /\ CanonKey(cfg.alias) = cfg.wk /\ CanonKey(cfg.wk) = cfg.wk
           /\ CanonKey(cfg.custom) = cfg.custom, "G_C12_Laws", "alias-normalised")

\* compatibility for every split of the chain; allow = the key is in AllowUndefined (option given and key well known).
\* The signature is direction + witness class, whichever entry point (Compatible / IsCompatible / Intersects) disagreed.
CDir(got) == IF got THEN "false-compatible:" ELSE "false-incompatible:"
G_Compatible(e, as, UU) ==
    IF ~K8sDefined(as) THEN {}
    ELSE LET n == Len(as)
             Sem(c) == SemCompatKey(c.i > 0, SubSeq(as, 1, c.i), TRUE, SubSeq(as, c.i + 1, n), c.au /\ WellKnownKind(e.kk), UU)
             Cls(c) == CompatClass(c.i > 0, SubSeq(as, 1, c.i), TRUE, SubSeq(as, c.i + 1, n), UU)
             \* per entry: <<sem, ok, ints>> evaluated once
             R == {<<e.compat[j], Sem(e.compat[j])>> : j \in DOMAIN e.compat}
             okBad   == {p \in R : p[1].ok # p[2]}
             \* Intersects ignores keys the left side does not define ("undefined keys are allowed")
             intsBad == {p \in R : p[1].ints # (IF p[1].i = 0 THEN TRUE ELSE p[2])}
         IN {<<"G_C12_Compatible", CDir(p[1].ok) \o Cls(p[1])>> : p \in okBad}
            \cup {<<"G_C12_Compatible", CDir(p[1].ints) \o Cls(p[1])>> : p \in intsBad}
            \cup {<<"G_C12_Compatible", "IsCompatible-disagrees-with-Compatible">> : p \in {q \in R : q[1].isc # q[1].ok}}

\* serialisation: the entries admit exactly what the chain admits; re-parsing gives the same requirement and the
\* same reading of an absent label (as the scheduler itself reads it: Compatible against an empty left side).
\* `ncs` holds the ToNodeClaim outcomes: entry i = n is the NodePool carrying the whole chain, entry i < n a NodePool
\* carrying the first i atoms plus a pod carrying the rest (added the way the scheduler adds pod requirements).
\* One signature per event: the first failing aspect in the order values > ToNodeClaim > round trip > absent label.
G_Serialization(e, as, want, mx, asNC) ==
    LET cls == IF HasBound(as) /\ HasNotIn(as) THEN "bounded-notin" ELSE "other"
        wantNC == HasVec(asNC)      \* ToNodeClaim always runs on the custom key
        AspectW(ser, w) == LET sv == HasVec(AtomsOf(ser)) IN IF sv # w THEN Dir(sv, w) ELSE "ok"
        a1 == AspectW(e.ser, want)
        NcAsp(x) == IF ~x.ran THEN "ok"
                    ELSE IF ~x.panic /\ AspectW(x.ser, wantNC) # "ok" THEN AspectW(x.ser, wantNC)
                    ELSE IF ~x.panicStatic /\ AspectW(x.serStatic, wantNC) # "ok" THEN AspectW(x.serStatic, wantNC)
                    ELSE "ok"
        badNc == {j \in DOMAIN e.ncs : NcAsp(e.ncs[j]) # "ok"}
        asp == IF a1 # "ok" THEN a1
               ELSE IF badNc # {} THEN "ToNodeClaim:" \o NcAsp(e.ncs[CHOOSE j \in badNc : \A k \in badNc : j <= k])
               ELSE IF ~(e.reHas = want /\ e.reHas = e.has) THEN "roundtrip"
               ELSE IF e.absRe # e.absIn THEN "absent-label"
               ELSE "ok"
    IN F(asp = "ok", "G_C13_Serialization", cls \o ":" \o asp)
       \cup F(e.reMv = mx /\ MaxMV(AtomsOf(e.ser)) = mx, "G_C13_Serialization", "minvalues")
       \cup F(e.serKeys = 0, "G_C13_Serialization", "foreign-key")

\* the label value chosen for the key (Any) is admitted
G_AnyAdmitted(e, as) ==
    LET cls == IF HasBound(as) /\ HasNotIn(as) THEN "excluded-value:bounded-notin"
               ELSE IF HasNotIn(as) THEN "excluded-value:notin" ELSE "other"
        OK(x) == x.s = "" \/ AdmitsAll(as, x)
    IN F(/\ (e.valid => \A j \in DOMAIN e.any : OK(e.any[j]))
         /\ \A j \in DOMAIN e.ncs : (e.ncs[j].ran /\ e.ncs[j].hasLabel) => OK(e.ncs[j].label),
         "G_C13_AnyAdmitted", cls)

\* no panic in Any() for validated chains, nor in ToNodeClaim for validated pools (+ pods the scheduler admits)
G_NoPanic(e, as) ==
    LET anyP == e.valid /\ e.anyPanic
        ncP  == \E j \in DOMAIN e.ncs : e.ncs[j].ran /\ (e.ncs[j].panic \/ e.ncs[j].panicStatic)
        want == HasVec(as)
        onlyNeg == /\ HasBound(as) /\ \E j \in DOMAIN want : want[j]
                   /\ \A j \in DOMAIN want : want[j] => (uni[j].i /\ uni[j].n < 0)
        negLower == \E j \in DOMAIN as : (as[j].op = "Gt" /\ as[j].b + 1 < 0) \/ (as[j].op = "Gte" /\ as[j].b < 0)
    IN F(~anyP /\ ~ncP, "Inv_C13_NoPanic", IF onlyNeg THEN "only-negative-integers-admitted"
                                          ELSE IF negLower THEN "negative-lower-bound" ELSE "other")

\* scenario sanity (not a verdict): the logged universe must be witness complete for this chain
G_Scenario(as, UU) ==
    LET Thr == Thresholds(as) IN
    IF Thr = {} THEN F(\E v \in UU : ~v.i /\ v.s \notin ArgsOf(as), "X_Scenario", "universe-not-witness-complete")
    ELSE LET lo == CHOOSE x \in Thr : \A y \in Thr : x <= y
             hi == CHOOSE x \in Thr : \A y \in Thr : x >= y
         IN F(WitnessComplete(UU, ArgsOf(as), lo, hi), "X_Scenario", "universe-not-witness-complete")

CaseFails ==
    LET e == Ev
        as == AtomsOn(e.atoms, KeyOf(e.kk))       \* the chain as read on its own (stable) key
        asNC == AtomsOn(e.atoms, cfg.custom)      \* the chain as read on the custom key (Any / ToNodeClaim part)
        want == HasVec(as)
        mx == MaxMV(as)
        ops == OpsSig(as)
        UU == U
    IN G_New(e, as) \cup G_Intersection(e, as, want, ops) \cup G_HasIntersection(e, want, ops) \cup G_Laws(e, want, mx)
       \cup G_Compatible(e, as, UU) \cup G_Serialization(e, as, want, mx, asNC) \cup G_AnyAdmitted(e, asNC)
       \cup G_NoPanic(e, asNC) \cup G_Scenario(as, UU)

\* ---------------------------------------------------------------- Multi (several keys per side)
\* Every call was repeated e.reps times on the same two Requirements (Go map iteration order is random); okN / okAUN /
\* intsN / iscN count the nil (compatible) answers.  The guard fails if ANY repetition disagrees with the semantics.
SideAtoms(xs, k) == LET j == CHOOSE j \in DOMAIN xs : xs[j].kk = k IN AtomsOn(xs[j].atoms, KeyOf(k))
KeysOf(xs) == {xs[j].kk : j \in DOMAIN xs}
MultiFails ==
    LET e == Ev
        UU == U
        KA == KeysOf(e.A)
        KB == KeysOf(e.B)
        MK == KA \cup KB
        SA == [k \in KA |-> SideAtoms(e.A, k)]
        SB == [k \in KB |-> SideAtoms(e.B, k)]
        At(S, K, k) == IF k \in K THEN S[k] ELSE <<>>
        SemKey(k, au) == SemCompatKey(k \in KA, At(SA, KA, k), k \in KB, At(SB, KB, k), au /\ WellKnownKind(k), UU)
        ClsKey == [k \in MK |-> CompatClass(k \in KA, At(SA, KA, k), k \in KB, At(SB, KB, k), UU)]
        \* class of a disagreement: highest-ranked class among the keys on which the semantics says "incompatible"
        ClsOver(K) == IF K = {} THEN "other"
                      ELSE ClsKey[CHOOSE k \in K : \A k2 \in K : ClassRank(ClsKey[k]) >= ClassRank(ClsKey[k2])]
        defined == \A k \in MK : K8sDefined(At(SA, KA, k)) /\ K8sDefined(At(SB, KB, k))
        sem0 == \A k \in MK : SemKey(k, FALSE)
        sem1 == \A k \in MK : SemKey(k, TRUE)
        semI == \A k \in KA \cap KB : SemKey(k, FALSE)
        Want(sem) == IF sem THEN e.reps ELSE 0
        \* got is a count: every repetition must agree; "order-dependent" when the repetitions disagree with each other
        Sig(got, sem, K) == (IF got > 0 /\ got < e.reps THEN "order-dependent:" ELSE "")
                            \o CDir(~sem) \o ClsOver(K)
    IN IF ~defined THEN {}
       ELSE F(e.okN = Want(sem0), "G_C12_Compatible", Sig(e.okN, sem0, {k \in MK : ~SemKey(k, FALSE)}))
            \cup F(e.okAUN = Want(sem1), "G_C12_Compatible", Sig(e.okAUN, sem1, {k \in MK : ~SemKey(k, TRUE)}))
            \cup F(e.iscN = Want(sem1), "G_C12_Compatible", Sig(e.iscN, sem1, {k \in MK : ~SemKey(k, TRUE)}))
            \cup F(e.intsN = Want(semI), "G_C12_Compatible", Sig(e.intsN, semI, {k \in KA \cap KB : ~SemKey(k, FALSE)}))

\* ---------------------------------------------------------------- bookkeeping
Key(p) == p[1] \o "|" \o p[2]
Record(fails) ==
    \* first witness of every (guard, signature); `cnt` counts every failure
    /\ viol' = viol \cup {[guard |-> p[1], sig |-> p[2], line |-> l, id |-> Ev.id] :
                            p \in {q \in fails : ~\E y \in viol : y.guard = q[1] /\ y.sig = q[2]}}
    /\ cnt' = LET ks == {Key(p) : p \in fails} IN
              [k \in DOMAIN cnt \cup ks |-> (IF k \in DOMAIN cnt THEN cnt[k] ELSE 0) + (IF k \in ks THEN 1 ELSE 0)]

TraceNext ==
    \/ /\ l <= Len(Trace) /\ l' = l + 1 /\ UNCHANGED done
       /\ \/ (Ev.e = "Cfg" /\ cfg' = [universe |-> Ev.universe, custom |-> Ev.custom, custom2 |-> Ev.custom2,
                                      custom3 |-> Ev.custom3, wk |-> Ev.wk, wk2 |-> Ev.wk2, alias |-> Ev.alias,
                                      vmap |-> Ev.vmap, vkeys |-> Ev.vkeys]
              /\ ntr' = ntr + 1 /\ UNCHANGED <<viol, cnt>>)
          \* (\E over a singleton: binds the evaluated set of failures once; operator arguments are re-evaluated
          \*  lazily at every use otherwise, which made a step cost |cnt| guard evaluations)
          \/ (Ev.e = "Case" /\ (\E f \in {CaseFails} : Record(f)) /\ UNCHANGED <<ntr, cfg>>)
          \/ (Ev.e = "Multi" /\ (\E f \in {MultiFails} : Record(f)) /\ UNCHANGED <<ntr, cfg>>)
          \/ (Ev.e = "CasePanic" /\ Record({<<"G_C12_New", "panic">>}) /\ UNCHANGED <<ntr, cfg>>)
    \/ /\ l = Len(Trace) + 1 /\ ~done /\ done' = TRUE
       /\ JsonSerialize(IOEnv.OUT, [viol |-> viol, counts |-> cnt, consumed |-> l - 1, traces |-> ntr])
       /\ UNCHANGED <<l, viol, cnt, ntr, cfg>>

TraceSpec == TraceInit /\ [][TraceNext]_tvars
=============================================================================
