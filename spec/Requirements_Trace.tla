-------------------------- MODULE Requirements_Trace --------------------------
(***************************************************************************)
(* Trace validation for C12 and C13(a,e).  Every `Case` line is one chain  *)
(* of atoms on one key together with what the real scheduling.Requirement  *)
(* / Requirements / NodeClaimTemplate answered (harness/drivers/           *)
(* requirements).  Every answer is re-derived from RequirementsSem (the    *)
(* Kubernetes semantics) over the value universe of the trace's Cfg line.  *)
(* Guard failures are accumulated per (guard, signature) with the first    *)
(* line and a count; nothing is fatal.  A line no disjunct consumes means  *)
(* a malformed log (exit 2).                                               *)
(***************************************************************************)
EXTENDS RequirementsSem, TLC, Json, IOUtils

VARIABLES l, viol, cnt, ntr, done, cfg
tvars == <<l, viol, cnt, ntr, done, cfg>>

Trace == ndJsonDeserialize(IOEnv.TRACE)
Ev == Trace[l]

NoCfg == [universe |-> <<>>, custom |-> "-", custom2 |-> "-", wk |-> "-", alias |-> "-"]
TraceInit == l = 1 /\ viol = {} /\ cnt = <<>> /\ ntr = 0 /\ done = FALSE /\ cfg = NoCfg

uni == cfg.universe
U   == {uni[j] : j \in DOMAIN uni}

AtomOf(x) == [op |-> x.op, S |-> {x.vals[j] : j \in DOMAIN x.vals}, b |-> x.b, mv |-> x.mv]
AtomsOf(xs) == [j \in DOMAIN xs |-> AtomOf(xs[j])]
HasVec(as) == [j \in DOMAIN uni |-> AdmitsAll(as, uni[j])]
OpsSig(as) == IF Len(as) = 1 THEN as[1].op
              ELSE IF Len(as) = 2 THEN as[1].op \o "+" \o as[2].op
              ELSE IF Len(as) = 3 THEN as[1].op \o "+" \o as[2].op \o "+" \o as[3].op
              ELSE "chain"

\* a failed guard: set of (guard, sig) pairs
F(ok, guard, sig) == IF ok THEN {} ELSE {<<guard, sig>>}

\* ---------------------------------------------------------------- Case
as == AtomsOf(Ev.atoms)
n  == Len(as)
want == HasVec(as)
KeyOf(kk) == IF kk = "wk" THEN cfg.wk ELSE IF kk = "custom2" THEN cfg.custom2 ELSE cfg.custom
Narrow(got, exp) == \A j \in DOMAIN exp : got[j] => exp[j]
Dir(got, exp) == IF Narrow(exp, got) THEN "wider" ELSE IF Narrow(got, exp) THEN "narrower" ELSE "different"
SerClass == IF HasBound(as) /\ HasNotIn(as) THEN "bounded-notin" ELSE "other"

G_New ==
    LET bad == {j \in DOMAIN as : Ev.hasNew[j] # HasVec(<<as[j]>>)}
    IN {<<"G_C12_New", as[j].op>> : j \in bad}

G_Intersection ==
    F(Ev.has = want, "G_C12_Intersection", "Add:" \o OpsSig(as))
    \cup F(Ev.hasX = want, "G_C12_Intersection", "Intersection:" \o OpsSig(as))

nonEmpty == \E j \in DOMAIN want : want[j]
G_HasIntersection ==
    LET bad == {j \in DOMAIN Ev.hi : Ev.hi[j].ab # nonEmpty \/ Ev.hi[j].ba # nonEmpty}
    IN IF bad = {} THEN {} ELSE {<<"G_C12_HasIntersection", (IF nonEmpty THEN "false-negative:" ELSE "false-positive:") \o OpsSig(as)>>}

G_Laws ==
    F(Ev.hasRev = want, "G_C12_Laws", "commutative")
    \cup F(Ev.hasAssoc = want, "G_C12_Laws", "associative")
    \cup F(Ev.hasIdem = want, "G_C12_Laws", "idempotent")
    \cup F(/\ Ev.mv = MaxMV(as) /\ Ev.mvX = MaxMV(as) /\ Ev.mvRev = MaxMV(as)
           /\ Ev.mvAssoc = MaxMV(as) /\ Ev.mvIdem = MaxMV(as), "G_C12_Laws", "minvalues-max")
    \cup F(/\ Ev.keys = <<KeyOf(Ev.kk)>> /\ ~Ev.hasAlias /\ CanonKey(cfg.alias) = cfg.wk /\ CanonKey(cfg.wk) = cfg.wk
           /\ CanonKey(cfg.custom) = cfg.custom, "G_C12_Laws", "alias-normalised")

\* compatibility for every split of the chain; allow = the key is in AllowUndefined (option given and key well known)
CSem(c) == SemCompatKey(c.i > 0, SubSeq(as, 1, c.i), TRUE, SubSeq(as, c.i + 1, n), c.au /\ Ev.kk = "wk", U)
CCls(c) == CompatClass(c.i > 0, SubSeq(as, 1, c.i), TRUE, SubSeq(as, c.i + 1, n), U)
CDir(got) == IF got THEN "false-compatible:" ELSE "false-incompatible:"
G_Compatible ==
    IF ~K8sDefined(as) THEN {}
    ELSE LET C == {Ev.compat[j] : j \in DOMAIN Ev.compat} IN
         {<<"G_C12_Compatible", CDir(c.ok) \o CCls(c)>> : c \in {x \in C : x.ok # CSem(x)}}
         \cup {<<"G_C12_Compatible", "IsCompatible-disagrees-with-Compatible">> : c \in {x \in C : x.isc # x.ok}}
         \cup {<<"G_C12_Compatible", "Intersects:" \o CDir(c.ints) \o CCls(c)>> :
                 c \in {x \in C : x.ints # (IF x.i = 0 THEN TRUE ELSE CSem(x))}}

\* serialisation: the entries admit exactly what the chain admits; re-parsing gives the same requirement and the
\* same reading of an absent label (as the scheduler itself reads it: Compatible against an empty left side).
\* One signature per event: the first failing aspect in the order values > round trip > absent label.
SerVec(ser) == HasVec(AtomsOf(ser))
SerAspect(ser) == IF SerVec(ser) # want THEN Dir(SerVec(ser), want) ELSE "ok"
G_Serialization ==
    LET a1 == SerAspect(Ev.ser)
        a2 == IF Ev.nc.ran /\ ~Ev.nc.panic THEN SerAspect(Ev.nc.ser) ELSE "ok"
        a3 == IF Ev.nc.ran /\ ~Ev.nc.panicStatic THEN SerAspect(Ev.nc.serStatic) ELSE "ok"
        asp == IF a1 # "ok" THEN a1
               ELSE IF a2 # "ok" THEN "ToNodeClaim:" \o a2
               ELSE IF a3 # "ok" THEN "ToNodeClaim(static):" \o a3
               ELSE IF ~(Ev.reHas = want /\ Ev.reHas = Ev.has) THEN "roundtrip"
               ELSE IF Ev.absRe # Ev.absIn THEN "absent-label"
               ELSE "ok"
    IN F(asp = "ok", "G_C13_Serialization", SerClass \o ":" \o asp)
       \cup F(Ev.reMv = MaxMV(as) /\ MaxMV(AtomsOf(Ev.ser)) = MaxMV(as), "G_C13_Serialization", "minvalues")
       \cup F(Ev.serKeys = 0, "G_C13_Serialization", "foreign-key")

\* the label value chosen for the key (Any) is admitted
AnyClass == IF HasBound(as) /\ HasNotIn(as) THEN "excluded-value:bounded-notin"
            ELSE IF HasNotIn(as) THEN "excluded-value:notin" ELSE "other"
AnyOK(x) == x.s = "" \/ AdmitsAll(as, x)
G_AnyAdmitted ==
    F(Ev.valid => \A j \in DOMAIN Ev.any : AnyOK(Ev.any[j]), "G_C13_AnyAdmitted", AnyClass)
    \cup F((Ev.nc.ran /\ Ev.nc.hasLabel) => AnyOK(Ev.nc.label), "G_C13_AnyAdmitted", AnyClass)

OnlyNegative == HasBound(as) /\ Den(as, U) # {} /\ \A v \in Den(as, U) : v.i /\ v.n < 0
PanicClass == IF OnlyNegative THEN "only-negative-integers-admitted" ELSE "other"
G_NoPanic ==
    LET anyP == Ev.valid /\ Ev.anyPanic
        ncP  == Ev.nc.ran /\ (Ev.nc.panic \/ Ev.nc.panicStatic)
    IN F(~anyP /\ ~ncP, "Inv_C13_NoPanic", (IF anyP THEN "Any:" ELSE "ToNodeClaim-only:") \o PanicClass)

\* scenario sanity (not a verdict): the logged universe must be witness complete for this chain
Thr == Thresholds(as)
G_Scenario ==
    IF Thr = {} THEN F(\E v \in U : ~v.i /\ v.s \notin ArgsOf(as), "X_Scenario", "universe-not-witness-complete")
    ELSE LET lo == CHOOSE x \in Thr : \A y \in Thr : x <= y
             hi == CHOOSE x \in Thr : \A y \in Thr : x >= y
         IN F(WitnessComplete(U, ArgsOf(as), lo, hi), "X_Scenario", "universe-not-witness-complete")

CaseFails == G_New \cup G_Intersection \cup G_HasIntersection \cup G_Laws \cup G_Compatible
             \cup G_Serialization \cup G_AnyAdmitted \cup G_NoPanic \cup G_Scenario

\* ---------------------------------------------------------------- Multi (several keys per side)
SideAtoms(xs, k) == LET j == CHOOSE j \in DOMAIN xs : xs[j].kk = k IN AtomsOf(xs[j].atoms)
KeysOf(xs) == {xs[j].kk : j \in DOMAIN xs}
MSemKey(k, au) == LET dA == k \in KeysOf(Ev.A)  dB == k \in KeysOf(Ev.B)
                  IN SemCompatKey(dA, IF dA THEN SideAtoms(Ev.A, k) ELSE <<>>, dB, IF dB THEN SideAtoms(Ev.B, k) ELSE <<>>,
                                  au /\ k = "wk", U)
MClsKey(k) == LET dA == k \in KeysOf(Ev.A)  dB == k \in KeysOf(Ev.B)
              IN CompatClass(dA, IF dA THEN SideAtoms(Ev.A, k) ELSE <<>>, dB, IF dB THEN SideAtoms(Ev.B, k) ELSE <<>>, U)
MKeys == KeysOf(Ev.A) \cup KeysOf(Ev.B)
MSem(au) == \A k \in MKeys : MSemKey(k, au)
MInts == \A k \in KeysOf(Ev.A) \cap KeysOf(Ev.B) : MSemKey(k, FALSE)
MCls == LET best == CHOOSE k \in MKeys : \A k2 \in MKeys : ClassRank(MClsKey(k)) >= ClassRank(MClsKey(k2)) IN MClsKey(best)
MDefined == \A k \in MKeys : /\ (k \in KeysOf(Ev.A) => K8sDefined(SideAtoms(Ev.A, k)))
                             /\ (k \in KeysOf(Ev.B) => K8sDefined(SideAtoms(Ev.B, k)))
MultiFails ==
    IF ~MDefined THEN {}
    ELSE F(Ev.ok = MSem(FALSE), "G_C12_Compatible", "multi:" \o CDir(Ev.ok) \o MCls)
         \cup F(Ev.okAU = MSem(TRUE), "G_C12_Compatible", "multi:" \o CDir(Ev.okAU) \o MCls)
         \cup F(Ev.ints = MInts, "G_C12_Compatible", "multi:Intersects:" \o CDir(Ev.ints) \o MCls)

\* ---------------------------------------------------------------- bookkeeping
Key(p) == p[1] \o "|" \o p[2]
Record(fails) ==
    /\ viol' = viol \cup {[guard |-> p[1], sig |-> p[2], line |-> l, id |-> Ev.id] :
                            p \in {q \in fails : ~\E y \in viol : y.guard = q[1] /\ y.sig = q[2]}}
    /\ cnt' = LET ks == {Key(p) : p \in fails} IN
              [k \in DOMAIN cnt \cup ks |-> (IF k \in DOMAIN cnt THEN cnt[k] ELSE 0) + (IF k \in ks THEN 1 ELSE 0)]

TraceNext ==
    \/ /\ l <= Len(Trace) /\ l' = l + 1 /\ UNCHANGED done
       /\ \/ (Ev.e = "Cfg" /\ cfg' = [universe |-> Ev.universe, custom |-> Ev.custom, custom2 |-> Ev.custom2,
                                      wk |-> Ev.wk, alias |-> Ev.alias]
              /\ ntr' = ntr + 1 /\ UNCHANGED <<viol, cnt>>)
          \/ (Ev.e = "Case" /\ Record(CaseFails) /\ UNCHANGED <<ntr, cfg>>)
          \/ (Ev.e = "Multi" /\ Record(MultiFails) /\ UNCHANGED <<ntr, cfg>>)
          \/ (Ev.e = "CasePanic" /\ Record({<<"G_C12_New", "panic">>}) /\ UNCHANGED <<ntr, cfg>>)
    \/ /\ l = Len(Trace) + 1 /\ ~done /\ done' = TRUE
       /\ JsonSerialize(IOEnv.OUT, [viol |-> viol, counts |-> cnt, consumed |-> l - 1, traces |-> ntr])
       /\ UNCHANGED <<l, viol, cnt, ntr, cfg>>

TraceSpec == TraceInit /\ [][TraceNext]_tvars
=============================================================================
