\* all spec mutations of DisruptionCond_Weak_*.cfg in one run (see Disruption_WeakAll.cfg)
CONSTANTS MaxNow = 80  MaxLen = 9  MaxEdits = 2  Dedupe = 10  VD = 15  WeakC = "*"
SPECIFICATION Spec
VIEW view
INVARIANTS WeakDetect
