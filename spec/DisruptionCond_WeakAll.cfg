\* all spec mutations of DisruptionCond_Weak_*.cfg in one run (see Disruption_WeakAll.cfg)
CONSTANTS MaxNow = 24  MaxLen = 12  Dedupe = 10  WeakC = "*"
SPECIFICATION Spec
VIEW view
INVARIANTS WeakDetect
