\* spec mutation: guard rule "noReprice" weakened -> TLC must violate an Inv_C06_* invariant
CONSTANTS NTypes = 2  Prices = {1}  ZMods = {"same"}  MaxCands = 2  MinS2S = 2  Focus = "pods"  UnavCTs = {}  Weak = "noReprice"  GenMod = 1  GenRes = 0
SPECIFICATION Spec
INVARIANTS Inv_C06_CostDecreases Inv_C06_AtMostOneLaunch Inv_C06_SpotToSpotFeature Inv_C06_SpotToSpotAlternatives Inv_C06_SpotToSpotSettles Inv_C06_NotWorseThanKeeping Inv_C06_EmptyHarmless Inv_C06_PodsSchedulable
