---------------------------- MODULE Reapers_Trace ----------------------------
(***************************************************************************)
(* Trace validation for C16: every NodeClaim / Node delete that one of the *)
(* four reapers (nodeclaim.expiration, nodeclaim.garbagecollection,        *)
(* nodeclaim.lifecycle's liveness check, node.health) performs on the real *)
(* code is checked against that reaper's guard of ReapersGuards.tla.       *)
(*                                                                         *)
(* Observed state - the NodeClaims and Nodes in the store after every      *)
(* write (choke-point Api / Env events), the clock (event time) - is taken *)
(* from the log.  Ghost state of the reconcile in progress is computed     *)
(* here: whether the provider's List was read successfully and what it     *)
(* returned, which Node lookups (by provider id) succeeded or failed,      *)
(* whether the lifecycle controller saw a capacity error (its delete is    *)
(* then not the liveness check's).  The guard is evaluated on the stored   *)
(* object as it was just before the delete, at the delete's instant in     *)
(* milliseconds (event field tms).                                         *)
(***************************************************************************)
EXTENDS ReapersGuards, Json, IOUtils

VARIABLES l, st, viol, ntr, done
tvars == <<l, st, viol, ntr, done>>

Trace == ndJsonDeserialize(IOEnv.TRACE)
Ev == Trace[l]
Absent == [exists |-> FALSE]
Chk(ok, guard, sig) == IF ok THEN <<>> ELSE <<[line |-> l, guard |-> guard, sig |-> sig]>>

NoRec == [ctrl |-> "-", object |-> "-", provList |-> "none", listed |-> {}, getGone |-> {}, lookErr |-> {}, nodeReadErr |-> FALSE,
          ice |-> FALSE]
\* prov: the instances the provider currently has (every provider event carries the instance table after it)
St0(cfg) == [cfg |-> cfg, claims |-> <<>>, nodes |-> <<>>, prov |-> {}, rec |-> NoRec]

TraceInit == l = 1 /\ st = St0(Absent) /\ viol = <<>> /\ ntr = 0 /\ done = FALSE

Put(f, k, v) == [x \in DOMAIN f \cup {k} |-> IF x = k THEN v ELSE f[x]]
Drop(f, k) == [x \in DOMAIN f \ {k} |-> f[x]]
Upd(f, k, post) == IF post.exists THEN Put(f, k, post) ELSE Drop(f, k)
Lookup(f, k) == IF k \in DOMAIN f THEN f[k] ELSE Absent

GcActor == "nodeclaim.garbagecollection"
ExpActor == "nodeclaim.expiration"
LiveActor == "nodeclaim.lifecycle"
RepairActor == "node.health"
Reapers == {GcActor, ExpActor, LiveActor, RepairActor}

\* the Node whose NodeClaim node.health deletes: the object of the reconcile in progress
RepairNode == Lookup(st.nodes, st.rec.object)

\* ---- guard of the acting reaper, evaluated on the claim as stored before the delete
DeleteChecks(c, t) ==
    IF Ev.actor = ExpActor
      THEN Chk(G_C16_Expiration(c, t), "G_C16_Expiration", SigExpiration(c, t))
    ELSE IF Ev.actor = GcActor
      THEN LET \* the provider said so in this reconcile: a successful List without the instance, or a Get answered NotFound
               gone == c.providerID \in st.rec.getGone
               ok == st.rec.provList = "ok" \/ gone
               \* "no longer lists": absent from the listing the pass read AND absent from the provider at the delete
               \* (a listing taken before the instance existed establishes nothing about it)
               lst == (IF gone THEN {} ELSE st.rec.listed) \cup st.prov
               \* no Node read that concerns this claim failed in this reconcile (whatever way the controller looks the Node up)
               lk == c.providerID \notin st.rec.lookErr /\ ~st.rec.nodeReadErr
           IN Chk(G_C16_GarbageCollection(c, ok, lst, lk, st.nodes), "G_C16_GarbageCollection",
                  SigGarbageCollection(c, ok, lst, lk, st.nodes))
    ELSE IF Ev.actor = LiveActor
      THEN (IF st.rec.ice THEN <<>>       \* capacity error: the launch path's delete, judged by C14
            ELSE Chk(G_C16_LivenessMs(c, t, st.cfg.launchTimeout, st.cfg.regTimeout), "G_C16_Liveness", SigLiveness(c)))
    ELSE Chk(G_C16_Repair(c, RepairNode, t, st.cfg.policies, st.nodes), "G_C16_Repair",
             SigRepair(c, RepairNode, t, st.cfg.policies, st.nodes))

\* node.health deleting the Node object itself is held to the same trigger (c = the claim of that node, if any)
ClaimOfNode(n) == LET ks == {k \in DOMAIN st.claims : st.claims[k].providerID = n.providerID} IN
                  IF ks = {} THEN [exists |-> FALSE, labels |-> <<>>] ELSE st.claims[CHOOSE k \in ks : TRUE]
NodeDeleteChecks(n, t) ==
    IF Ev.actor = RepairActor
      THEN Chk(G_C16_Repair(ClaimOfNode(n), n, t, st.cfg.policies, st.nodes), "G_C16_Repair",
               SigRepair(ClaimOfNode(n), n, t, st.cfg.policies, st.nodes))
    ELSE <<>>

TApi ==
    /\ Ev.e = "Api"
    /\ LET ok == Ev.err = "-"
           post == IF Ev.gone THEN Absent ELSE Ev.post
           isClaim == Ev.kind = "NodeClaim"
           isNode == Ev.kind = "Node"
           pre == IF isClaim THEN Lookup(st.claims, Ev.name) ELSE IF isNode THEN Lookup(st.nodes, Ev.name) ELSE Absent
           reap == ok /\ Ev.verb = "delete" /\ Ev.actor \in Reapers /\ pre.exists /\ ~pre.deleting
       IN /\ st' = [st EXCEPT !.claims = IF isClaim /\ ok THEN Upd(@, Ev.name, post) ELSE @,
                              !.nodes = IF isNode /\ ok THEN Upd(@, Ev.name, post) ELSE @]
          /\ viol' = viol \o (IF reap /\ isClaim THEN DeleteChecks(pre, Ev.tms)
                              ELSE IF reap /\ isNode THEN NodeDeleteChecks(pre, Ev.tms) ELSE <<>>)

TEnv ==
    /\ Ev.e = "Env"
    /\ st' = [st EXCEPT !.claims = IF Ev.kind = "NodeClaim" THEN Upd(@, Ev.name, Ev.post) ELSE @,
                        !.nodes = IF Ev.kind = "Node" THEN Upd(@, Ev.name, Ev.post) ELSE @]
    /\ UNCHANGED viol

\* provider calls: the garbage collector's List (result = the instance table it was answered from)
TProv ==
    /\ Ev.e = "Prov"
    /\ LET isList == Ev.call = "List" /\ Ev.actor = st.rec.ctrl
           isCreate == Ev.call = "Create"
           getGone == Ev.call = "Get" /\ Ev.actor = st.rec.ctrl /\ Ev.err = "NotFound"
           live == {Ev.post[i].pid : i \in {j \in DOMAIN Ev.post : Ev.post[j].state # "gone"}}
       IN st' = [st EXCEPT !.prov = live,
                           !.rec.provList = IF isList THEN (IF Ev.err = "-" THEN "ok" ELSE "err") ELSE @,
                           !.rec.getGone = IF getGone THEN @ \cup {Ev.arg} ELSE @,
                           !.rec.listed = IF isList /\ Ev.err = "-"
                                          THEN {Ev.post[i].pid : i \in {j \in DOMAIN Ev.post : Ev.post[j].state # "gone"}}
                                          ELSE IF isList THEN {} ELSE @,
                           !.rec.ice = @ \/ (isCreate /\ Ev.err \in {"ICE", "NCNR"})]
    /\ UNCHANGED viol

\* reads: a failed Node read of the reconcile in progress establishes nothing about the Nodes it concerns - the provider id
\* it was addressed to (lookups by provider id are attributed: name = the provider id), the named Node's provider id, or,
\* when the read is not attributable (name "-"), every Node
TRead ==
    /\ Ev.e = "Read"
    /\ LET mine == Ev.kind = "Node" /\ Ev.actor = st.rec.ctrl /\ Ev.err # "-"
           pid == IF Ev.name \in DOMAIN st.nodes THEN st.nodes[Ev.name].providerID ELSE Ev.name
       IN st' = [st EXCEPT !.rec.lookErr = IF mine /\ Ev.name # "-" THEN @ \cup {pid} ELSE @,
                           !.rec.nodeReadErr = @ \/ (mine /\ Ev.name = "-")]
    /\ UNCHANGED viol

TBegin == /\ Ev.e = "Begin"
          /\ st' = [st EXCEPT !.rec = [NoRec EXCEPT !.ctrl = Ev.controller, !.object = Ev.object]]
          /\ UNCHANGED viol
TEnd == /\ Ev.e = "End"
        /\ st' = [st EXCEPT !.rec = NoRec]
        /\ UNCHANGED viol
TOther == Ev.e \in {"Tick", "Mem", "Skip", "Restart"} /\ UNCHANGED <<st, viol>>

TraceNext ==
    \/ /\ l <= Len(Trace) /\ l' = l + 1 /\ UNCHANGED done
       /\ \/ (Ev.e = "Cfg" /\ st' = St0(Ev) /\ ntr' = ntr + 1 /\ UNCHANGED viol)
          \/ ((TApi \/ TEnv \/ TProv \/ TRead \/ TBegin \/ TEnd \/ TOther) /\ UNCHANGED ntr)
    \/ /\ l = Len(Trace) + 1 /\ ~done /\ done' = TRUE
       /\ JsonSerialize(IOEnv.OUT, [viol |-> viol, consumed |-> l - 1, traces |-> ntr])
       /\ UNCHANGED <<l, st, viol, ntr>>

TraceSpec == TraceInit /\ [][TraceNext]_tvars
=============================================================================
