\* exhaustive check, fine granularity: the environment and the other controller interleave between the calls
CONSTANTS Pods = {"p1", "p2"}  Tol = {"p2"}  Late = {"p2"}
  Starts = {"registered", "unpersisted"}
  VaOwners = {"p1"}  TGPs <- BoolT  Instants <- BoolF
  MaxFaults = 1  MaxRestarts = 0  MaxLen = 1000  MaxSpont = 99
  Atomic = FALSE  FinalizeMode = "cache"  Weak = ""
SPECIFICATION Spec
VIEW view
INVARIANTS TypeOK Inv_C09_NoLeak Inv_ProvGoneSound
PROPERTIES Act_C09_NodeFinalizer Act_C09_ClaimFinalizer Act_C09_GuardImpliesNoLeak
