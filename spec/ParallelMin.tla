---------------------------- MODULE ParallelMin ----------------------------
(***************************************************************************)
(* parallelizeUntil + the "i >= idx" tests of Scheduler.addToExistingNode /  *)
(* addToInflightNode / addToNewNodeClaim (scheduler.go): W workers pull     *)
(* candidate indices from a FIFO channel; a worker evaluates its candidate  *)
(* OUTSIDE the lock and then, under the lock, keeps it only if its index is *)
(* lower than the best so far; a worker stops after its first non-failing   *)
(* candidate.  "poison" = a reserved-offering error in addToNewNodeClaim,   *)
(* which must invalidate every success at a higher index.                   *)
(* Claim (supports C01 / C19 "every degree of parallelism"): at termination *)
(* the selection is the lowest-index non-failing candidate if that one is   *)
(* ok, and nothing if it is poison or there is none - independent of the    *)
(* interleaving and of the number of workers.                               *)
(***************************************************************************)
EXTENDS Integers, FiniteSets

CONSTANTS Workers, NPieces, CheckLowerOnly   \* CheckLowerOnly = TRUE: the code's "if i >= idx return"; FALSE = mutation (last writer wins)
Pieces == 0..(NPieces - 1)
None == -1
Inf == NPieces

VARIABLES outcome, next, holding, idx, chosen, stopped
vars == <<outcome, next, holding, idx, chosen, stopped>>

Init == /\ outcome \in [Pieces -> {"fail", "ok", "poison"}]
        /\ next = 0                                   \* head of the channel
        /\ holding = [w \in Workers |-> None]         \* piece a worker is evaluating
        /\ idx = Inf /\ chosen = None
        /\ stopped = [w \in Workers |-> FALSE]

Take(w) == /\ ~stopped[w] /\ holding[w] = None /\ next < NPieces
           /\ holding' = [holding EXCEPT ![w] = next] /\ next' = next + 1
           /\ UNCHANGED <<outcome, idx, chosen, stopped>>

\* the channel is closed and drained: an idle worker's range loop ends
Drain(w) == /\ ~stopped[w] /\ holding[w] = None /\ next = NPieces
            /\ stopped' = [stopped EXCEPT ![w] = TRUE] /\ UNCHANGED <<outcome, next, holding, idx, chosen>>

Finish(w) ==
    /\ holding[w] # None
    /\ LET i == holding[w] IN
       \/ /\ outcome[i] = "fail"                        \* doWorkPiece returns true: keep working
          /\ holding' = [holding EXCEPT ![w] = None] /\ UNCHANGED <<idx, chosen, stopped>>
       \/ /\ outcome[i] # "fail"                        \* under the mutex; returns false: the worker exits
          /\ IF CheckLowerOnly /\ i >= idx THEN UNCHANGED <<idx, chosen>>
             ELSE idx' = i /\ chosen' = (IF outcome[i] = "ok" THEN i ELSE None)
          /\ holding' = [holding EXCEPT ![w] = None] /\ stopped' = [stopped EXCEPT ![w] = TRUE]
    /\ UNCHANGED <<outcome, next>>

Next == \E w \in Workers : Take(w) \/ Drain(w) \/ Finish(w)
Spec == Init /\ [][Next]_vars /\ WF_vars(Next)

Terminated == \A w \in Workers : stopped[w]
NonFail == {i \in Pieces : outcome[i] # "fail"}
Lowest == CHOOSE i \in NonFail : \A j \in NonFail : i <= j
Expected == IF NonFail = {} THEN None ELSE IF outcome[Lowest] = "ok" THEN Lowest ELSE None
Inv_SelectionIsLowest == Terminated => chosen = Expected
Live_Terminates == <>Terminated
=============================================================================
