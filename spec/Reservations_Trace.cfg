SPECIFICATION TraceSpec
