------------------------------- MODULE Health -------------------------------
(***************************************************************************)
(* NodePool registration health (property C20).                            *)
(*                                                                         *)
(* Ideal side: `w` is the window of the pool's most recent launch outcomes *)
(* (oldest first, at most Size).  Implementation-shaped side: the ring     *)
(* buffer as pkg/utils/ringbuffer keeps it (`buf` = storage slice, `head`  *)
(* = 0-based index of the oldest entry once full) and the what-if copy of  *)
(* nodepoolhealth.State.DryRun.  `cond` is the NodeRegistrationHealthy     *)
(* condition on the NodePool, written by the lifecycle controller          *)
(* (registration => Success, liveness timeout => Failure) and by the       *)
(* registrationhealth controller (Reset on spec/nodeclass change, Hydrate  *)
(* after a restart).                                                       *)
(*                                                                         *)
(* One action per linearization point of the code:                         *)
(*   Success  = registration.updateNodePoolRegistrationHealth              *)
(*              (DryRun(true) -> maybe patch True -> Update(true))         *)
(*   Failure  = liveness.updateNodePoolRegistrationHealth                  *)
(*   Reset    = registrationhealth: SetUnknown + SetStatus(Unknown)        *)
(*   ResetNC  = the same, triggered by a NodeClass generation change       *)
(*   Restart  = process restart: in-memory buffer lost, condition kept     *)
(*   Hydrate  = registrationhealth on an empty buffer: True -> <<T>>,      *)
(*              False -> <<F,F>>                                           *)
(***************************************************************************)
EXTENDS Naturals, Sequences, FiniteSets, TLC, Json

CONSTANTS Size,         \* window size (nodepoolhealth.BufferSize = 4)
          DryRunWalk,   \* "logical": what-if copy walks oldest..newest; "storage": walks the raw slice
          MaxLen        \* generator bound on the history length

VARIABLES w, buf, head, cond, last, h
vars == <<w, buf, head, cond, last, h>>
view == <<w, buf, head, cond, last>>

\* ---------------------------------------------------------------- pure definitions (shared with Health_Trace)
FCount(s) == Cardinality({i \in DOMAIN s : ~s[i]})
\* Tracker.Status: unhealthyCount / BufferSize >= 0.5
Status(s) == IF Len(s) = 0 THEN "Unknown"
             ELSE IF 2 * FCount(s) >= Size THEN "Unhealthy" ELSE "Healthy"
Push(s, o) == IF Len(s) < Size THEN Append(s, o) ELSE Append(Tail(s), o)
WhatIf(s, o) == Status(Push(s, o))

\* the property, per step, on the ideal window
CondAfterSuccess(c, wAfter) == IF Status(wAfter) = "Healthy" THEN "True" ELSE c
CondAfterFailure(c, wAfter) == IF Status(wAfter) = "Unhealthy" THEN "False" ELSE c
Hydrated(c) == IF c = "True" THEN <<TRUE>>
               ELSE IF c = "False" THEN [i \in 1..(Size \div 2) |-> FALSE] ELSE <<>>

\* ---------------------------------------------------------------- implementation-shaped ring buffer
RbInsert(b, hd, v) == IF Len(b) < Size THEN <<Append(b, v), hd>>
                      ELSE <<[b EXCEPT ![hd + 1] = v], (hd + 1) % Size>>
Logical(b, hd) == IF Len(b) < Size THEN b
                  ELSE [i \in 1..Size |-> b[((hd + i - 1) % Size) + 1]]
\* State.DryRun: insert the items one by one into a fresh buffer, then the prospective outcome
ImplWhatIf(b, hd, o) ==
    LET items == IF DryRunWalk = "storage" THEN b ELSE Logical(b, hd)
    IN Status(Push(items, o))

\* ---------------------------------------------------------------- closed model
Init == /\ w = <<>> /\ buf = <<>> /\ head = 0 /\ cond = "Unknown" /\ last = "Init" /\ h = <<>>

Record(o) == LET r == RbInsert(buf, head, o) IN buf' = r[1] /\ head' = r[2]

Success ==
    /\ cond' = IF ImplWhatIf(buf, head, TRUE) = "Healthy" THEN "True" ELSE cond
    /\ Record(TRUE) /\ w' = Push(w, TRUE)
    /\ last' = "S" /\ h' = Append(h, "S")

Failure ==
    /\ cond' = IF ImplWhatIf(buf, head, FALSE) = "Unhealthy" /\ cond # "False" THEN "False" ELSE cond
    /\ Record(FALSE) /\ w' = Push(w, FALSE)
    /\ last' = "F" /\ h' = Append(h, "F")

Reset ==
    /\ cond' = "Unknown" /\ w' = <<>> /\ buf' = <<>> /\ head' = 0
    /\ last' = "Reset" /\ h' = Append(h, "Reset")

\* the NodeClass (not the NodePool) changed: same reset, reached through a different test in the controller
ResetNC ==
    /\ cond' = "Unknown" /\ w' = <<>> /\ buf' = <<>> /\ head' = 0
    /\ last' = "ResetNC" /\ h' = Append(h, "ResetNC")

Restart ==
    /\ w' = <<>> /\ buf' = <<>> /\ head' = 0 /\ UNCHANGED cond
    /\ last' = "Restart" /\ h' = Append(h, "Restart")

Hydrate ==
    /\ Len(buf) = 0 /\ cond # "Unknown"
    /\ w' = Hydrated(cond) /\ buf' = Hydrated(cond) /\ head' = 0 /\ UNCHANGED cond
    /\ last' = "Hydrate" /\ h' = Append(h, IF cond = "True" THEN "HydrateT" ELSE "HydrateF")

Next == Len(h) < MaxLen /\ (Success \/ Failure \/ Reset \/ ResetNC \/ Restart \/ Hydrate)
Spec == Init /\ [][Next]_vars
\* simulation variant: resets/restarts only every 7th step, so random walks wrap the window often
NextDeep == Len(h) < MaxLen /\ (Success \/ Failure \/ (Len(h) % 7 = 6 /\ (Reset \/ ResetNC \/ Restart \/ Hydrate)))
SpecDeep == Init /\ [][NextDeep]_vars

\* ---------------------------------------------------------------- properties
TypeOK == /\ Len(w) <= Size /\ Len(buf) <= Size /\ head \in 0..(Size - 1)
          /\ cond \in {"Unknown", "True", "False"}
Inv_C20_Refines == Logical(buf, head) = w
Inv_C20_DryRunAgrees == \A o \in BOOLEAN : ImplWhatIf(buf, head, o) = WhatIf(w, o)
\* the user-visible statement, as an action property over the ideal window
Act_C20_StepRule ==
    [][ /\ (last' = "S" => cond' = CondAfterSuccess(cond, w'))
        /\ (last' = "F" => cond' = CondAfterFailure(cond, w')) ]_view

\* generator: print complete histories
GenPrint == Len(h) < MaxLen \/ PrintT(<<"BEH", ToJson(h)>>)
=============================================================================
