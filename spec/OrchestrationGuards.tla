------------------------- MODULE OrchestrationGuards -------------------------
(***************************************************************************)
(* Guards of C08 (replacements are ready before removal; failed actions    *)
(* roll back; one action per node) as plain operators over values - no     *)
(* variables - shared by the closed model Orchestration.tla and the trace  *)
(* specification Orchestration_Trace.tla.                                  *)
(*                                                                         *)
(* Written from the property statement and Kubernetes semantics:           *)
(*  - a replacement "has been created" when a NodeClaim create for it      *)
(*    succeeded at the API; it "reports Initialized" once the stored       *)
(*    NodeClaim has carried Initialized=True (Karpenter deliberately       *)
(*    latches the observation, so "until ... reports" is read as "has      *)
(*    reported by the time of the delete");                                *)
(*  - an action has failed when a replacement create failed, a replacement *)
(*    disappeared before it ever reported Initialized, or the action       *)
(*    itself was declared timed out / failed by the orchestrator;          *)
(*  - a node is back in service when it carries neither the disruption     *)
(*    taint nor the DisruptionReason condition and is not marked for       *)
(*    deletion in the cluster state (unmarked nodes with no NoSchedule     *)
(*    taint are what the scheduler counts as existing capacity).           *)
(***************************************************************************)
EXTENDS Naturals, Integers, Sequences, FiniteSets, TLC

\* need: number of replacements the command asked for; repl: the replacements known for the command;
\* created / inited: replacements whose create succeeded / that have reported Initialized=True so far
G_C08_DeleteAfterAllInitialized(need, repl, created, inited) ==
    /\ Cardinality(repl) = need
    /\ repl \subseteq created
    /\ repl \subseteq inited

\* failure: "none" or the failure the action has met; deleted: candidates this action has deleted so far
\* (evaluated when a candidate is deleted and when a failure is declared: both orders are forbidden)
G_C08_NoDeleteAfterFailure(failure, deleted) == failure = "none" \/ deleted = {}

\* mine: candidates of the action that starts / acts; others: candidate sets of the other actions in progress
G_C08_SingleCommandPerNode(mine, others) == \A o \in others : mine \cap o = {}

\* n: [tainted, reason, marked: BOOLEAN]
InService(n) == ~n.tainted /\ ~n.reason /\ ~n.marked
\* which part of "back in service" fails (signature of a Live_C08_RolledBack failure)
NotInServiceSig(n) == IF n.marked THEN "marked" ELSE IF n.tainted THEN "tainted" ELSE IF n.reason THEN "reason" ELSE "ok"

\* nodes: node records of live (not deleting) nodes that are not the subject of an action in progress
Live_C08_RolledBack(nodes) == \A n \in nodes : InService(n)

=============================================================================
