\* spec mutation (W_CanReserve = FALSE): TLC must violate Inv_C17_ReservationCapacity
CONSTANTS NPods = 2  PodArchs = {2}  Layouts = {1}  Caps = {1}  PoolSets = {4}  Modes = {"fallback"}  GenMod = 1  GenRes = 0
CONSTANTS W_CanReserve = FALSE  W_Release = TRUE  W_PinAll = TRUE  W_Strict = TRUE  W_KeepHeld = TRUE  W_PoolOrder = TRUE
SPECIFICATION Spec
INVARIANTS Inv_C17_ReservationCapacity Inv_C17_ManagerConsistent Inv_C17_PinnedToHeldIds Inv_C17_EveryResolutionWithinCapacity Inv_C17_StrictNoFallback Inv_C17_StrictClaim Inv_C17_NoPoolFallback Inv_C17_DeferJustified
