--------------------------- MODULE Topology_Trace ---------------------------
(***************************************************************************)
(* Trace validation for property C02 over the traces of the scheduling      *)
(* driver (harness/drivers/sched, spec/SCHED_TRACE.md).                      *)
(*                                                                         *)
(* Mode "hook": every Sched commit/open event of hook H1 (commit order +     *)
(*   the target's requirement state after the commit) is an admission: the  *)
(*   world W is the running pods + the pods committed so far, and            *)
(*   G_C02_Affinity / G_C02_Spread are evaluated for the admitted pod        *)
(*   against W (admission time).  At Results the placements of the pass are  *)
(*   judged as a whole: anti-affinity in either direction (the statement is  *)
(*   about the produced set of placements; the commit order only decides     *)
(*   whether a conflict is reported as G_C02_Anti - the later pod owns the   *)
(*   term - or G_C02_AntiInverse - the term of a pod already there).  A      *)
(*   trace without Sched events (tree without the hook) gets the order-free  *)
(*   end-state forms of affinity and spread as well.                         *)
(* Mode "end":  Sched events are ignored; only the end-state forms are       *)
(*   evaluated on Results (Inv_C02_EndState) - what the check can say        *)
(*   without hook H1.                                                        *)
(*                                                                         *)
(* Ghost state (computed here, never read from the code's bookkeeping): the *)
(* placement sequence plc and the location table tg.  The only thing taken  *)
(* from the code's topology groups is the domain universe of a spread        *)
(* constraint (united with the spec's own lower bound ULow); the code's      *)
(* counts are compared with the spec's [lo, hi] interval as a non-verdict    *)
(* MODEL-DRIFT note (Note_C02_Counts).  A pod admitted to a node that does   *)
(* not carry the topology key at all is in no domain: no guard applies, the  *)
(* admission is reported as the non-verdict note Note_C02_TargetLacksKey.    *)
(***************************************************************************)
EXTENDS TopologyGuards, TopologyKnown, Json, IOUtils

CONSTANT Mode      \* "hook" | "end"

VARIABLES l, cfg, batch, plc, tg, viol, ntr, nadm, done
tvars == <<l, cfg, batch, plc, tg, viol, ntr, nadm, done>>

Trace == ndJsonDeserialize(IOEnv.TRACE)
Ev == Trace[l]
VI(guard, sig, info) == [line |-> l, guard |-> guard, sig |-> sig, info |-> info]
V(guard, sig) == VI(guard, sig, "-")
Chk(ok, guard, sig) == IF ok THEN <<>> ELSE <<V(guard, sig)>>
ChkI(ok, guard, sig, info) == IF ok THEN <<>> ELSE <<VI(guard, sig, info)>>

RECURSIVE Flat(_)
Flat(ss) == IF ss = <<>> THEN <<>> ELSE Head(ss) \o Flat(Tail(ss))
RECURSIVE SetToSeq(_)
SetToSeq(S) == IF S = {} THEN <<>> ELSE LET x == CHOOSE y \in S : TRUE IN <<x>> \o SetToSeq(S \ {x})

TraceInit == l = 1 /\ cfg = <<>> /\ batch = {} /\ plc = <<>> /\ tg = <<>> /\ viol = <<>> /\ ntr = 0 /\ nadm = 0 /\ done = FALSE

\* ---- Cfg: the scenario; the batch of the pass is read ahead from the Results event of the same trace
RECURSIVE FindResults(_)
FindResults(j) == IF j > Len(Trace) THEN 0 ELSE IF Trace[j].e = "Results" THEN j ELSE IF Trace[j].e = "Cfg" THEN 0 ELSE FindResults(j + 1)
BatchOf(r) == UNION {Range(r.claims[i].pods) : i \in DOMAIN r.claims} \cup UNION {Range(r.existing[i].pods) : i \in DOMAIN r.existing}
              \cup {r.errors[i].pod : i \in DOMAIN r.errors}
TCfg ==
    /\ Ev.e = "Cfg" /\ cfg' = Ev /\ ntr' = ntr + 1 /\ plc' = <<>> /\ tg' = <<>>
    /\ batch' = (LET j == FindResults(l + 1) IN IF j = 0 THEN {} ELSE BatchOf(Trace[j]))
    /\ UNCHANGED <<viol, nadm>>

\* ---- Sched commit / open (hook H1): admission of Ev.pod to the target in its post-state
TargetOf(ev) == IF ev.targetKind = "existing" THEN NodeT(ev.target) ELSE ClaimT(ev.target, ev.pool, ev.reqs)
ULogged(ev, s) == UNION {DOMAIN g.domains : g \in {h \in Range(ev.topo) : h.type = "topology spread" /\ ~h.inverse /\ h.owned /\ h.key = s.key}}
\* the code's own count of the domain of the owned spread groups on this key (after the commit), for the drift note
CodeCounts(ev, s, d) == {g.domains[d] : g \in {h \in Range(ev.topo) : h.type = "topology spread" /\ ~h.inverse /\ h.owned /\ h.key = s.key
                                                                        /\ h.maxSkew = s.maxSkew /\ d \in DOMAIN h.domains}}
GroupsOf(ev, s) == {g \in Range(ev.topo) : g.type = "topology spread" /\ ~g.inverse /\ g.owned /\ g.key = s.key /\ g.maxSkew = s.maxSkew}
GroupOwners(ev, s) == UNION {Range(h.owners) : h \in {g \in Range(ev.topo) : g.type = "topology spread" /\ ~g.inverse /\ g.owned /\ g.key = s.key /\ g.maxSkew = s.maxSkew}}
GroupMinDomains(ev, s) == {h.minDomains : h \in {g \in Range(ev.topo) : g.type = "topology spread" /\ ~g.inverse /\ g.owned /\ g.key = s.key /\ g.maxSkew = s.maxSkew}}
\* the admitted pod object had its node filter (required terms / tolerations) changed by relaxation earlier in this pass
RelaxedSig(ev, p) == IF ev.eff # <<>> /\ (ev.eff[1].tol # p.tol \/ ev.eff[1].terms # p.terms) THEN ":relaxed-node-filter" ELSE ""
AdmissionChecks(ev) ==
    LET p == PodByKey(cfg, ev.pod)
        x == TargetOf(ev)
        tg2 == [id \in DOMAIN tg \cup {x.id} |-> IF id = x.id THEN x ELSE tg[id]]
        W == [cfg |-> cfg, batch |-> batch, plc |-> plc, tg |-> tg2]
        U(s) == ULogged(ev, s)
    IN Flat([i \in DOMAIN p.aff |-> Chk(TDom(cfg, x, p.aff[i].key) # {}, "Note_C02_TargetLacksKey", "affinity:" \o p.aff[i].key)])
       \o Flat([i \in DOMAIN p.spread |-> IF p.spread[i].when # "DoNotSchedule" THEN <<>>
                                           ELSE Chk(TDom(cfg, x, p.spread[i].key) # {}, "Note_C02_TargetLacksKey", "spread:" \o p.spread[i].key)])
       \o Flat([i \in DOMAIN p.aff |-> ChkI(AffTermOK(Strict, W, p, x, p.aff[i]), "G_C02_Affinity", SigAff(Strict, W, p, x, p.aff[i], ev.eff, KnownCauses),
                                      ToString([pod |-> ev.pod, term |-> i, parts |-> AffParts(Strict, W, p, x, p.aff[i])]))])
       \o Flat([i \in DOMAIN p.spread |->
               IF p.spread[i].when # "DoNotSchedule" THEN <<>>
               ELSE LET s == p.spread[i]
                        a == SpreadParts(Strict, W, p, x, s, U(s))
                    IN ChkI(a.ok, "G_C02_Spread", SigSpread(Strict, W, p, x, s, U(s), SpreadCause(Strict, W, p, x, s, U(s), ev.eff, GroupsOf(ev, s), KnownCauses)), ToString([pod |-> ev.pod, cnt |-> a.cnt, self |-> a.self, min |-> a.min, hi |-> a.hi, skew |-> s.maxSkew]))
                       \o (IF ~a.ok \/ Cardinality(a.dx) # 1 THEN <<>>
                           ELSE LET d == CHOOSE e \in a.dx : TRUE
                                    cc == CodeCounts(ev, s, d)
                                IN ChkI(\A c \in cc : a.cnt[d] + a.self <= c /\ c <= a.hi[d] + a.self, "Note_C02_Counts", "spread:" \o s.key,
                                        ToString([pod |-> ev.pod, d |-> d, code |-> cc, lo |-> a.cnt[d] + a.self, hi |-> a.hi[d] + a.self])))])
TSched ==
    /\ Ev.e = "Sched"
    /\ IF Mode = "hook" /\ Ev.kind \in {"commit", "open"} /\ KnownPod(cfg, Ev.pod)
       THEN /\ viol' = viol \o AdmissionChecks(Ev)
            /\ plc' = Append(plc, [pod |-> Ev.pod, tid |-> TargetOf(Ev).id, at |-> TargetOf(Ev)])
            /\ tg' = (LET x == TargetOf(Ev) IN [id \in DOMAIN tg \cup {x.id} |-> IF id = x.id THEN x ELSE tg[id]])
            /\ nadm' = nadm + 1
       ELSE UNCHANGED <<viol, plc, tg, nadm>>
    /\ UNCHANGED <<cfg, batch, ntr>>

\* ---- Results: the produced set of placements
ResultsWorld(r) ==
    LET cl == Flat([i \in DOMAIN r.claims |-> [j \in DOMAIN r.claims[i].pods |-> [pod |-> r.claims[i].pods[j], tid |-> "claim:" \o ToString(r.claims[i].idx)]]])
        ex == Flat([i \in DOMAIN r.existing |-> [j \in DOMAIN r.existing[i].pods |-> [pod |-> r.existing[i].pods[j], tid |-> NodeT(r.existing[i].node).id]]])
        ids == {"claim:" \o ToString(r.claims[i].idx) : i \in DOMAIN r.claims} \cup {NodeT(r.existing[i].node).id : i \in DOMAIN r.existing}
        tgt(id) == IF \E i \in DOMAIN r.claims : "claim:" \o ToString(r.claims[i].idx) = id
                   THEN LET c == r.claims[CHOOSE i \in DOMAIN r.claims : "claim:" \o ToString(r.claims[i].idx) = id] IN ClaimT(id, c.pool, c.reqs)
                   ELSE NodeT(r.existing[CHOOSE i \in DOMAIN r.existing : NodeT(r.existing[i].node).id = id].node)
    IN [cfg |-> cfg, batch |-> batch, plc |-> SelectSeq(cl \o ex, LAMBDA e : KnownPod(cfg, e.pod)), tg |-> [id \in ids |-> tgt(id)]]
\* commit position of a pod key in the hook's order (0 = unknown)
Pos(k) == IF \E i \in DOMAIN plc : plc[i].pod = k THEN CHOOSE i \in DOMAIN plc : plc[i].pod = k ELSE 0
AntiChecks(W) ==
    Flat(SetToSeq({LET owner == PodByKey(cfg, c[1])
                       other == PodByKey(cfg, c[3])
                       ownerPlaced == c[1] \in PlacedKeys(W)
                       inverse == ~ownerPlaced \/ (c[3] \in PlacedKeys(W) /\ Pos(c[1]) > 0 /\ Pos(c[3]) > 0 /\ Pos(c[1]) < Pos(c[3]))
                   IN IF inverse
                      THEN <<V("G_C02_AntiInverse", SigInv(W, other, Loc(W, other), <<c[1], c[2]>>))>>
                      ELSE <<V("G_C02_Anti", SigAnti(W, owner, Loc(W, owner), <<c[2], c[3]>>))>>
                   : c \in EndAntiConf(Strict, W)}))
EndChecks(W) ==
    LET Uof(q, s) == {} IN
    Flat(SetToSeq({<<V("Inv_C02_EndState", "end:" \o SigAff(Strict, Without(W, PodByKey(cfg, b[1])), PodByKey(cfg, b[1]), Loc(W, PodByKey(cfg, b[1])),
                                                              PodByKey(cfg, b[1]).aff[b[2]], <<>>, KnownCauses))>> : b \in EndAffBad(Strict, W)}))
    \o Flat(SetToSeq({LET p == PodByKey(cfg, b[1]) s == p.spread[b[2]] IN
                      <<V("Inv_C02_EndState", "end:" \o SigSpread(Strict, Without(W, p), p, Loc(W, p), s, Uof(p, s), ""))>> : b \in EndSpreadBad(Strict, W, Uof)}))
TResults ==
    /\ Ev.e = "Results"
    /\ LET W == ResultsWorld(Ev)
           hooked == Mode = "hook" /\ plc # <<>>
       IN viol' = viol \o AntiChecks(W) \o (IF hooked THEN <<>> ELSE EndChecks(W))
    /\ nadm' = nadm + (IF Mode = "hook" /\ plc # <<>> THEN 0 ELSE Len(ResultsWorld(Ev).plc))
    /\ UNCHANGED <<cfg, batch, plc, tg, ntr>>

Passive == {"Hydrate", "Api", "Read", "Prov", "Tick", "Created", "CreateErr", "Panic", "End", "Env"}
TPassive == Ev.e \in Passive /\ UNCHANGED <<cfg, batch, plc, tg, viol, ntr, nadm>>

TraceNext ==
    \/ /\ l <= Len(Trace) /\ l' = l + 1 /\ UNCHANGED done
       /\ (TCfg \/ TSched \/ TResults \/ TPassive)
    \/ /\ l = Len(Trace) + 1 /\ ~done /\ done' = TRUE
       /\ JsonSerialize(IOEnv.OUT, [viol |-> viol, consumed |-> l - 1, traces |-> ntr, admissions |-> nadm])
       /\ UNCHANGED <<l, cfg, batch, plc, tg, viol, ntr, nadm>>

TraceSpec == TraceInit /\ [][TraceNext]_tvars
=============================================================================
