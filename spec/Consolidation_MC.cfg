\* exhaustive, price focus, quick tier: every price table of 2 types x 2 capacity types x 2 zones over prices {1,2}
\* (zone zb of a capacity type: same / overlay-priced +2; unavailable offerings: MCAvail; unavailable / not offered zb: thorough tier), 1..2 removed nodes, both flag values
CONSTANTS NTypes = 2  Prices = {1, 2}  ZMods = {"same", "dear"}  MaxCands = 2  MinS2S = 2  Focus = "price"  UnavCTs = {}  Weak = ""  GenMod = 1  GenRes = 0
SPECIFICATION Spec
INVARIANTS TypeOK Inv_C06_CostDecreases Inv_C06_AtMostOneLaunch Inv_C06_SpotToSpotFeature Inv_C06_SpotToSpotAlternatives Inv_C06_SpotToSpotSettles Inv_C06_NotWorseThanKeeping Inv_C06_EmptyHarmless Inv_C06_PodsSchedulable
