\* exhaustive, avail focus, thorough tier: spot AND on-demand zone-za offerings unavailable independently, 1..2 removed nodes
CONSTANTS NTypes = 2  Prices = {1, 2}  ZMods = {"same"}  MaxCands = 2  MinS2S = 2  Focus = "avail"  UnavCTs = {"spot", "on-demand"}  Weak = ""  GenMod = 1  GenRes = 0
SPECIFICATION Spec
INVARIANTS TypeOK Inv_C06_CostDecreases Inv_C06_AtMostOneLaunch Inv_C06_SpotToSpotFeature Inv_C06_SpotToSpotAlternatives Inv_C06_SpotToSpotSettles Inv_C06_NotWorseThanKeeping Inv_C06_EmptyHarmless Inv_C06_PodsSchedulable
