\* thorough 3: three pods (limits are charged twice before the third decision)
CONSTANTS WeightVecs = {6, 12}  FeatDiag = TRUE  NPods = 3  PodArchs = {1, 2, 3}
CONSTANTS Feats = {"plain", "taint", "limit", "limit16"}
CONSTANTS Catalogs = {2}  DaemonSets = {2}  MaxTypesSet = {2}  Policies = {"Strict"}  Weak = ""
SPECIFICATION Spec
INVARIANTS Inv_C19_HighestWeightFeasible Inv_C19_CheapestPrefix Inv_C13_TypesSubsetMinValues Inv_C13_Requests Inv_C13_Template
