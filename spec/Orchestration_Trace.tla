-------------------------- MODULE Orchestration_Trace --------------------------
(***************************************************************************)
(* Trace validation for C08 on traces of the `orch` driver                 *)
(* (harness/drivers/disruption/orch.go, format: spec/DISRUPT_TRACE.md §5). *)
(*                                                                         *)
(* Observed state, taken from the log: the API store (every NodeClaim /    *)
(* Node as stored after each choke-point write or environment step: does   *)
(* it exist, Initialized, deleting, DisruptionReason, disruption taint),   *)
(* the projection of the code's memory after each controller step (OMem:   *)
(* deletion marks), the outcome of each controller step (Begin/End).       *)
(* Ghost state, computed here: which NodeClaims were created by the        *)
(* disruption controller, which have ever reported Initialized, command    *)
(* membership (candidates, replacements), the failure each command met,    *)
(* the candidates it deleted and in which order.                           *)
(*                                                                         *)
(* Guards (OrchestrationGuards.tla):                                       *)
(*  G_C08_DeleteAfterAllInitialized  at every successful NodeClaim delete  *)
(*      issued by the disruption queue for a candidate                     *)
(*  G_C08_NoDeleteAfterFailure       at that delete, and whenever a        *)
(*      failure of the command becomes known (create failed, replacement   *)
(*      gone before it was Initialized, the queue declares it failed)      *)
(*  G_C08_SingleCommandPerNode       when a command is accepted, and at    *)
(*      every write StartCommand makes                                     *)
(*  Live_C08_RolledBack              at the end of a queue pass that       *)
(*      declared the command failed (no fault injected in that pass), and  *)
(*      at every Quiescent point                                           *)
(***************************************************************************)
EXTENDS OrchestrationGuards, Json, IOUtils

VARIABLES l, st, viol, ntr, done
tvars == <<l, st, viol, ntr, done>>

Trace == ndJsonDeserialize(IOEnv.TRACE)
Ev == Trace[l]
Chk(ok, guard, sig) == IF ok THEN <<>> ELSE <<[line |-> l, guard |-> guard, sig |-> sig]>>

DisruptedKey == "karpenter.sh/disrupted"
Put(f, k, v) == [x \in DOMAIN f \cup {k} |-> IF x = k THEN v ELSE f[x]]
NoFn == [x \in {} |-> TRUE]
SeqSet(s) == {s[i] : i \in DOMAIN s}

NoCur == [ctl |-> "-", cmd |-> "-", injected |-> FALSE, rollback |-> FALSE]
St0(cfg) == [cfg |-> cfg, claims |-> NoFn, nodes |-> NoFn, created |-> {}, everInit |-> {}, cmds |-> NoFn,
             stk |-> <<>>, mem |-> <<>>]

TraceInit == l = 1 /\ st = St0([timeoutSec |-> 600]) /\ viol = <<>> /\ ntr = 0 /\ done = FALSE

\* controller steps nest (an environment step or another controller step may run at a call of a step): a stack of brackets
Cur(s) == IF s.stk = <<>> THEN NoCur ELSE s.stk[Len(s.stk)]
Push(s, c) == [s EXCEPT !.stk = Append(@, c)]
Pop(s) == [s EXCEPT !.stk = IF @ = <<>> THEN @ ELSE SubSeq(@, 1, Len(@) - 1)]
Inject(s, b) == IF s.stk = <<>> \/ ~b THEN s ELSE [s EXCEPT !.stk[Len(s.stk)].injected = TRUE]
\* a queue pass that touches a candidate's Node, patches a NodeClaim's status or re-reads a candidate NodeClaim is rolling its
\* command back (the wait / terminate path only reads replacements and deletes candidates): the orchestrator has declared the
\* command failed in this pass - whether or not it then lets go of it
IsRollbackCall(s, ev) ==
    /\ Cur(s).ctl = "queue" /\ ev.actor = "disruption.queue"
    /\ \/ ev.kind = "Node"
       \/ (ev.kind = "NodeClaim" /\ ev.verb = "patch")
       \/ (ev.kind = "NodeClaim" /\ ev.verb = "get" /\ Cur(s).cmd \in DOMAIN s.cmds /\ ev.name \in s.cmds[Cur(s).cmd].cands)
MarkRollback(s, ev) == IF s.stk # <<>> /\ IsRollbackCall(s, ev) THEN [s EXCEPT !.stk[Len(s.stk)].rollback = TRUE] ELSE s

\* ------------------------------------------------------------------ store
ClaimRec(p) == [exists |-> TRUE, init |-> p.initialized = "True", deleting |-> p.deleting, reason |-> p.disruptionReason # "Absent"]
NodeRec(p) == [exists |-> TRUE,
               tainted |-> \E i \in DOMAIN p.taints : p.taints[i].key = DisruptedKey /\ p.taints[i].effect = "NoSchedule"]
Gone == [exists |-> FALSE, init |-> FALSE, deleting |-> FALSE, reason |-> FALSE]
GoneN == [exists |-> FALSE, tainted |-> FALSE]
Claim(s, c) == IF c \in DOMAIN s.claims THEN s.claims[c] ELSE Gone
NodeOf(s, n) == IF n \in DOMAIN s.nodes THEN s.nodes[n] ELSE GoneN
MemMarked(s, c) == \E i \in DOMAIN s.mem : s.mem[i].claim = c /\ s.mem[i].marked

\* ------------------------------------------------------------------ commands
InProgressStates == {"starting", "active"}
Known(s) == DOMAIN s.cmds
Active(s) == {k \in Known(s) : s.cmds[k].state \in InProgressStates}
\* the command a candidate NodeClaim belongs to: the one being reconciled if it lists the claim, else the latest one that does
OwnersOf(s, c) == {k \in Known(s) : c \in s.cmds[k].cands}
OwnerOf(s, c) == IF Cur(s).cmd \in OwnersOf(s, c) THEN Cur(s).cmd
                 ELSE IF OwnersOf(s, c) \cap Active(s) # {} THEN CHOOSE k \in OwnersOf(s, c) \cap Active(s) : TRUE
                 ELSE CHOOSE k \in OwnersOf(s, c) : \A j \in OwnersOf(s, c) : s.cmds[j].seq <= s.cmds[k].seq
NewCmd(ev, n) == [cands |-> {ev.cands[i].claim : i \in DOMAIN ev.cands}, nodes |-> {ev.cands[i].node : i \in DOMAIN ev.cands},
                  pairs |-> ev.cands, need |-> ev.nrepl, repl |-> SeqSet(ev.repl) \ {"-"},
                  state |-> IF ev.started THEN "active" ELSE "built", failure |-> "none", deleted |-> {}, delErr |-> {}, delOk |-> {},
                  startedAt |-> ev.t, seq |-> n]
SetFailure(c, f) == IF c.failure = "none" THEN [c EXCEPT !.failure = f] ELSE c
\* partial delete: in the pass that is being judged the delete of some candidate kept failing (it never went through in this
\* pass) while another candidate was deleted, now or in an earlier pass
FailSig(c, f, order) == f \o ":" \o order \o (IF c.delErr \ c.delOk # {} THEN ":partial-delete" ELSE "")

\* a replacement that is gone from the store without ever having reported Initialized fails every command in progress that waits for it
VanishUpdate(s, name) ==
    [s EXCEPT !.cmds = [k \in Known(s) |-> IF name \in s.cmds[k].repl /\ s.cmds[k].state \in InProgressStates
                                              THEN SetFailure(s.cmds[k], "vanish") ELSE s.cmds[k]]]
VanishChecks(s, name) ==
    LET hit == {k \in Known(s) : name \in s.cmds[k].repl /\ s.cmds[k].state \in InProgressStates /\ s.cmds[k].failure = "none"}
        bad == {k \in hit : s.cmds[k].deleted # {}} IN
    IF bad = {} THEN <<>> ELSE Chk(FALSE, "G_C08_NoDeleteAfterFailure", FailSig(s.cmds[CHOOSE k \in bad : TRUE], "vanish", "del-first"))

\* store update for a NodeClaim / Node write (post = the object after the write, exists = FALSE when it is gone)
StoreUpdate(s, kind, name, post) ==
    IF kind = "NodeClaim"
    THEN LET was == Claim(s, name)
             s1 == [s EXCEPT !.claims = Put(@, name, IF post.exists THEN ClaimRec(post) ELSE Gone),
                             !.everInit = IF post.exists /\ post.initialized = "True" THEN @ \cup {name} ELSE @] IN
         IF was.exists /\ ~post.exists /\ name \notin s.everInit THEN VanishUpdate(s1, name) ELSE s1
    ELSE IF kind = "Node" THEN [s EXCEPT !.nodes = Put(@, name, IF post.exists THEN NodeRec(post) ELSE GoneN)]
    ELSE s
StoreChecks(s, kind, name, post) ==
    IF kind = "NodeClaim" /\ Claim(s, name).exists /\ ~post.exists /\ name \notin s.everInit THEN VanishChecks(s, name) ELSE <<>>

\* ------------------------------------------------------------------ Api
TApi ==
    /\ Ev.e = "Api"
    /\ LET ok == Ev.err = "-"
           post == IF ok /\ ~Ev.gone THEN Ev.post ELSE [exists |-> FALSE]
           name == IF post.exists THEN post.name ELSE Ev.name
           inStart == Cur(st).ctl = "start" /\ Cur(st).cmd \in Known(st)
           k0 == Cur(st).cmd
           isCreate == Ev.verb = "create" /\ Ev.kind = "NodeClaim" /\ Ev.actor = "disruption"
           isQDelete == Ev.verb = "delete" /\ Ev.kind = "NodeClaim" /\ Ev.actor = "disruption.queue" /\ OwnersOf(st, Ev.name) # {}
           kd == IF isQDelete THEN OwnerOf(st, Ev.name) ELSE "-"
           \* 1. ghost updates that precede the store update
           s1 == [MarkRollback(Inject(st, Ev.injected), Ev) EXCEPT !.created = IF isCreate /\ ok THEN @ \cup {name} ELSE @]
           s2 == IF isCreate /\ inStart
                 THEN [s1 EXCEPT !.cmds[k0] = IF ok THEN [@ EXCEPT !.repl = @ \cup {name}] ELSE SetFailure(@, "create")]
                 ELSE s1
           s3 == IF isQDelete
                 THEN [s2 EXCEPT !.cmds[kd] = IF ok THEN [@ EXCEPT !.deleted = @ \cup {Ev.name}, !.delOk = @ \cup {Ev.name}]
                                              ELSE IF Ev.err # "NotFound" THEN [@ EXCEPT !.delErr = @ \cup {Ev.name}] ELSE @]
                 ELSE s2
           \* 2. guards
           c == IF isQDelete THEN st.cmds[kd] ELSE [need |-> 0]
           delChecks == IF isQDelete /\ ok
                        THEN Chk(G_C08_DeleteAfterAllInitialized(c.need, c.repl, st.created, st.everInit), "G_C08_DeleteAfterAllInitialized",
                                 IF Cardinality(c.repl) # c.need \/ ~(c.repl \subseteq st.created) THEN "replacement-not-created"
                                 ELSE IF \E r \in c.repl : Claim(st, r).exists /\ ~Claim(st, r).init THEN "replacement-not-initialized"
                                 ELSE "replacement-never-initialized")
                             \o Chk(G_C08_NoDeleteAfterFailure(c.failure, c.deleted \cup {Ev.name}), "G_C08_NoDeleteAfterFailure",
                                    FailSig(c, c.failure, "fail-first"))
                        ELSE <<>>
           tgtOthers == {j \in Active(st) \ {k0} : Ev.name \in st.cmds[j].cands \cup st.cmds[j].nodes}
           writeChecks == IF inStart /\ ok /\ Ev.actor = "disruption" /\ Ev.verb = "patch" /\ Ev.kind \in {"Node", "NodeClaim"}
                          THEN Chk(tgtOthers = {}, "G_C08_SingleCommandPerNode", "write-on-node-of-command-in-progress")
                          ELSE <<>>
       IN /\ st' = IF ok THEN StoreUpdate(s3, Ev.kind, name, post) ELSE s3
          /\ viol' = viol \o delChecks \o writeChecks \o (IF ok THEN StoreChecks(s3, Ev.kind, name, post) ELSE <<>>)

TRead == /\ Ev.e = "Read"
         /\ st' = MarkRollback(Inject(st, Ev.injected), Ev)
         /\ UNCHANGED viol

TEnv == /\ Ev.e = "Env"
        /\ st' = StoreUpdate(st, Ev.kind, Ev.name, Ev.post)
        /\ viol' = viol \o StoreChecks(st, Ev.kind, Ev.name, Ev.post)

\* ------------------------------------------------------------------ commands
TOCmd ==
    /\ Ev.e = "OCmd"
    /\ LET c == NewCmd(Ev, Cardinality(Known(st)) + 1)
           others == {st.cmds[j].cands : j \in Active(st) \ {Ev.cmd}} IN
       /\ st' = [st EXCEPT !.cmds = Put(@, Ev.cmd, c)]
       /\ viol' = viol \o (IF Ev.started THEN Chk(G_C08_SingleCommandPerNode(c.cands, others), "G_C08_SingleCommandPerNode",
                                                  "accepted-while-in-progress") ELSE <<>>)

MyCtl(c) == IF c = "disruption.start" THEN "start" ELSE IF c = "disruption.queue" THEN "queue"
            ELSE IF c = "disruption.cleanup" THEN "cleanup" ELSE IF c = "disruption" THEN "round" ELSE "other"

TBegin ==
    /\ Ev.e = "Begin"
    /\ LET ctl == MyCtl(Ev.controller)
           k == IF ctl \in {"start", "queue"} THEN Ev.object ELSE "-" IN
       st' = IF ctl = "other" THEN st
             ELSE [Push(st, [ctl |-> ctl, cmd |-> k, injected |-> FALSE, rollback |-> FALSE])
                     EXCEPT !.cmds = IF ctl = "start" /\ k \in Known(st)
                                     THEN [@ EXCEPT ![k].state = "starting", ![k].startedAt = Ev.t]
                                     ELSE IF ctl = "queue" /\ k \in Known(st)
                                     THEN [@ EXCEPT ![k].delErr = {}, ![k].delOk = {}]     \* per pass
                                     ELSE @]
    /\ UNCHANGED viol

\* candidates of a command that are still live NodeClaims, as node records for Live_C08_RolledBack
CandRecs(s, c) ==
    {[claim |-> c.pairs[i].claim, tainted |-> NodeOf(s, c.pairs[i].node).tainted, reason |-> Claim(s, c.pairs[i].claim).reason,
      marked |-> MemMarked(s, c.pairs[i].claim)] :
       i \in {j \in DOMAIN c.pairs : Claim(s, c.pairs[j].claim).exists /\ ~Claim(s, c.pairs[j].claim).deleting
                                         /\ NodeOf(s, c.pairs[j].node).exists}}
FirstBad(recs) == CHOOSE n \in recs : ~InService(n)

TEnd ==
    /\ Ev.e = "End"
    /\ LET ctl == MyCtl(Ev.controller)
           k == Ev.object
           known == ctl \in {"start", "queue"} /\ k \in Known(st)
           c == IF known THEN st.cmds[k] ELSE [state |-> "-"] IN
       IF ctl = "other" THEN UNCHANGED <<st, viol>>
       ELSE IF ~known THEN st' = Pop(st) /\ UNCHANGED viol
       ELSE IF ctl = "start"
       THEN LET cands2 == {Ev.cands[i].claim : i \in DOMAIN Ev.cands}
                c2 == IF Ev.started
                      THEN [c EXCEPT !.state = "active", !.cands = cands2, !.nodes = {Ev.cands[i].node : i \in DOMAIN Ev.cands},
                                     !.pairs = Ev.cands, !.repl = @ \cup (SeqSet(Ev.repl) \ {"-"})]
                      ELSE SetFailure([c EXCEPT !.state = "startFailed"], "start")
                others == {st.cmds[j].cands : j \in Active(st) \ {k}} IN
            /\ st' = Pop([st EXCEPT !.cmds[k] = c2])
            /\ viol' = viol \o (IF Ev.started THEN Chk(G_C08_SingleCommandPerNode(cands2, others), "G_C08_SingleCommandPerNode",
                                                       "accepted-while-in-progress") ELSE <<>>)
       ELSE \* a pass of the disruption queue over command k
            LET cause == IF \E r \in c.repl : ~Claim(st, r).exists /\ r \notin st.everInit THEN "vanish"
                         ELSE IF Ev.t - c.startedAt > st.cfg.timeoutSec THEN "timeout" ELSE "other"
                \* the failure verdict is permanent: declared when the queue lets go of the command as failed, or when the pass
                \* started rolling it back (even if the command is then kept in the queue)
                declared == Ev.outcome = "failed" \/ (Cur(st).rollback /\ Ev.outcome # "succeeded")
                c2 == IF Ev.outcome = "failed" THEN SetFailure([c EXCEPT !.state = "failed"], cause)
                      ELSE IF declared THEN SetFailure(c, cause)
                      ELSE IF Ev.outcome = "succeeded" THEN [c EXCEPT !.state = "succeeded"] ELSE c
                recs == CandRecs(st, c) IN
            /\ st' = Pop([st EXCEPT !.cmds[k] = c2])
            /\ viol' = viol
                 \o (IF declared /\ c.failure = "none"
                     THEN Chk(G_C08_NoDeleteAfterFailure(cause, c.deleted), "G_C08_NoDeleteAfterFailure", FailSig(c, cause, "del-first"))
                     ELSE <<>>)
                 \o (IF Ev.outcome = "failed" /\ ~Cur(st).injected
                     THEN Chk(Live_C08_RolledBack(recs), "Live_C08_RolledBack",
                              "after-failed-pass:" \o (IF Live_C08_RolledBack(recs) THEN "ok" ELSE NotInServiceSig(FirstBad(recs))))
                     ELSE <<>>)

TOMem == Ev.e = "OMem" /\ st' = [st EXCEPT !.mem = Ev.nodes] /\ UNCHANGED viol

\* process restart: commands in memory are gone (their API effects stay)
TRestart ==
    /\ Ev.e = "Restart"
    /\ st' = [st EXCEPT !.cmds = [k \in Known(st) |-> IF st.cmds[k].state \in InProgressStates THEN [st.cmds[k] EXCEPT !.state = "lost"]
                                                       ELSE IF st.cmds[k].state = "built" THEN [st.cmds[k] EXCEPT !.state = "dropped"]
                                                       ELSE st.cmds[k]],
                        !.stk = <<>>, !.mem = <<>>]
    /\ UNCHANGED viol

\* quiescent point: every live managed node that is not a candidate of a command in progress is back in service
TQuiescent ==
    /\ Ev.e = "Quiescent"
    /\ LET protected == UNION {st.cmds[k].cands : k \in Active(st)}
           \* live nodes only: a NodeClaim whose Node is gone (or never came) is not capacity that could return to service
           idx == {i \in DOMAIN Ev.nodes : ~Ev.nodes[i].deleting /\ Ev.nodes[i].node # "-" /\ Ev.nodes[i].claim \notin protected}
           owner(c) == IF OwnersOf(st, c) = {} THEN "no-command" ELSE st.cmds[OwnerOf(st, c)].state
           RECURSIVE all(_)
           all(i) == IF i > Len(Ev.nodes) THEN <<>>
                     ELSE (IF i \in idx THEN Chk(InService(Ev.nodes[i]) /\ Ev.nodes[i].capacity, "Live_C08_RolledBack",
                                                 "quiescent:" \o (IF InService(Ev.nodes[i]) THEN "not-capacity" ELSE NotInServiceSig(Ev.nodes[i]))
                                                   \o ":" \o owner(Ev.nodes[i].claim))
                           ELSE <<>>) \o all(i + 1)
           \* a command that met a failure (or whose retry window has closed) is not still in progress once the queue ran
           stuck == {k \in Active(st) : st.cmds[k].failure # "none" \/ Ev.t - st.cmds[k].startedAt > st.cfg.timeoutSec}
           stuckSig(k) == "quiescent:still-in-progress:" \o (IF st.cmds[k].failure # "none" THEN st.cmds[k].failure ELSE "timeout") IN
       viol' = viol \o all(1) \o (IF stuck = {} THEN <<>> ELSE Chk(FALSE, "Live_C08_RolledBack", stuckSig(CHOOSE k \in stuck : TRUE)))
    /\ UNCHANGED st

TOther == Ev.e \in {"Tick", "World", "Obj", "Note", "Prov", "Cands", "Budget", "Cmd", "QCmd", "OSkip", "OCut", "EndTrace", "Mem"}
          /\ UNCHANGED <<st, viol>>

TraceNext ==
    \/ /\ l <= Len(Trace) /\ l' = l + 1 /\ UNCHANGED done
       /\ \/ (Ev.e = "Cfg" /\ st' = St0(Ev) /\ ntr' = ntr + 1 /\ UNCHANGED viol)
          \/ ((TApi \/ TRead \/ TEnv \/ TOCmd \/ TBegin \/ TEnd \/ TOMem \/ TRestart \/ TQuiescent \/ TOther) /\ UNCHANGED ntr)
    \/ /\ l = Len(Trace) + 1 /\ ~done /\ done' = TRUE
       /\ JsonSerialize(IOEnv.OUT, [viol |-> viol, consumed |-> l - 1, traces |-> ntr])
       /\ UNCHANGED <<l, st, viol, ntr>>

TraceSpec == TraceInit /\ [][TraceNext]_tvars
=============================================================================
