\* thorough tier: every chain of <= 3 Adds over the full alphabet incl. extras (no minValues); closed-model check AND case generation
CONSTANTS MaxAdds = 3  MVs = {0}  Extra = TRUE  Mut = "none"
SPECIFICATION Spec
INVARIANTS TypeOK Inv_C12_Refines Inv_C12_MinValues Inv_C12_Overlap Inv_C12_Commutative Inv_C12_Associative
           Inv_C12_Idempotent Inv_C12_Compatible Inv_C12_MultiKey Inv_C13_Serialization Inv_C13_Any GenPrint
