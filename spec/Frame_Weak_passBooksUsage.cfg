\* spec mutation "passBooksUsage": TLC must violate a consequence invariant (the frame is load-bearing)
CONSTANTS Cap = 2  MaxLen = 4  Weak = "passBooksUsage"
SPECIFICATION Spec
VIEW view
INVARIANTS Consequences
