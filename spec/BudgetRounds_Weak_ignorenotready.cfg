\* spec mutation (Variant = "ignorenotready"): TLC must reject it
CONSTANTS Rounding = "up"  WindowEnd = "open"  EmptyReasons = "all"  Variant = "ignorenotready"  MaxLen = 0
CONSTANTS N <- MC_N  PoolOf <- MC_PoolOf  KindOf <- MC_KindOf  InitPhase <- MC_InitPhase  Pools <- MC_Pools
          BudgetsOf <- MC_BudgetsOf  EnvOf <- MC_EnvOf  MaxRounds = 3
          Marks <- MC_Marks  T0 <- MC_T0  MaxT <- MC_MaxT
SPECIFICATION Spec
INVARIANTS TypeOK Inv_C05_StartWithinBudget Inv_C05_MappingAgrees Inv_C05_SelectsLive
