--------------------------- MODULE StaticPoolDefs ---------------------------
(***************************************************************************)
(* state.NodePoolState as a pure data type (no variables): shared by the   *)
(* closed model StaticPool.tla, the call-sequence model StaticPoolUnit.tla *)
(* and the trace specifications.  A value is a record                      *)
(*   [entry, act, del, pend, res, map]                                     *)
(* = existence of the per-pool entry, the Active / Deleting /              *)
(* PendingDisruption sets, the reserved counter, the claims that have a    *)
(* claim->pool mapping.  `mode` selects the pinned tree's behaviour        *)
(* ("code") or the behaviour the statement asks for ("fixed").             *)
(***************************************************************************)
EXTENDS Naturals, Integers, Sequences, FiniteSets, TLC

\* the struct as implemented: the three sets and the reserved counter exist only while the per-pool entry does
EmptyPS == [entry |-> FALSE, act |-> {}, del |-> {}, pend |-> {}, res |-> 0, map |-> {}]
Ensure(s) == IF s.entry THEN s ELSE [s EXCEPT !.entry = TRUE]
\* the Mark* methods do not consult the claim->pool mapping: marking a claim whose Cleanup already ran re-inserts a
\* name that nothing will ever remove again.  "fixed": a claim that is not tracked (any more) is not marked.
Skip(s, n, mode) == mode = "fixed" /\ n \notin s.map
PsMarkActive(s, n, mode)   == IF Skip(s, n, mode) THEN s ELSE
                              LET t == Ensure(s) IN [t EXCEPT !.act = @ \cup {n}, !.del = @ \ {n}, !.pend = @ \ {n}]
PsMarkDeleting(s, n, mode) == IF Skip(s, n, mode) THEN s ELSE
                              LET t == Ensure(s) IN [t EXCEPT !.del = @ \cup {n}, !.act = @ \ {n}, !.pend = @ \ {n}]
PsMarkPending(s, n, mode)  == IF Skip(s, n, mode) THEN s ELSE
                              LET t == Ensure(s) IN [t EXCEPT !.pend = @ \cup {n}, !.act = @ \ {n}, !.del = @ \ {n}]
PsUpdate(s, n, mfd)  == LET t == [Ensure(s) EXCEPT !.map = @ \cup {n}]
                        IN IF mfd THEN PsMarkDeleting(t, n, "code") ELSE PsMarkActive(t, n, "code")
\* Cleanup finds the pool through the claim->pool mapping; it garbage-collects the pool entry (sets AND reserved
\* counter) when Active and Deleting are empty.  "fixed": only when nothing at all is left to remember.
PsCleanup(s, n, mode) ==
    LET hit == n \in s.map /\ s.entry
        t == IF hit THEN [s EXCEPT !.act = @ \ {n}, !.del = @ \ {n}, !.pend = @ \ {n}] ELSE s
        gc == hit /\ t.act = {} /\ t.del = {} /\ (mode = "fixed" => (t.pend = {} /\ t.res = 0))
        u == IF gc THEN [t EXCEPT !.entry = FALSE, !.pend = {}, !.res = 0] ELSE t
    IN [u EXCEPT !.map = @ \ {n}]
PsTotal(s) == Cardinality(s.act) + Cardinality(s.del) + Cardinality(s.pend)
Min(a, b) == IF a < b THEN a ELSE b
PsGrant(s, limit, want) == LET rem == limit - PsTotal(s) - s.res IN IF rem < 0 THEN 0 ELSE Min(want, rem)
PsReserve(s, limit, want) == LET t == Ensure(s) IN [t EXCEPT !.res = @ + PsGrant(t, limit, want)]
PsReleaseCrashes(s, mode) == ~s.entry /\ mode = "code"
PsRelease(s, k) == IF ~s.entry THEN s ELSE [s EXCEPT !.res = IF @ < k THEN 0 ELSE @ - k]
=============================================================================
