----------------------------- MODULE BudgetRounds -----------------------------
(***************************************************************************)
(* NodePool disruption budgets (property C05), mapping level and rounds.   *)
(*                                                                         *)
(* A small cluster (nodes of a few pools, each pool with a budget list)    *)
(* evolves under the environment (launch, register, initialize, readiness  *)
(* flips, user deletions of the NodeClaim or of the Node only, instance    *)
(* termination, clock) while the disruption controller runs rounds:        *)
(*   Compute(m)  builds the remaining-allowance mapping for the method's   *)
(*               reason and selects candidates while the pool's allowance  *)
(*               lasts (decrementing as it selects);                       *)
(*   Validate    (consolidation methods, 15 s later, environment steps in  *)
(*               between) rebuilds the mapping and re-selects among the    *)
(*               still valid candidates;                                   *)
(*   Start       marks the selected nodes (one action with Validate; with  *)
(*               Compute for drift and static drift, which do not wait;    *)
(*               static drift starts one command per selected node, as     *)
(*               many as the pool's allowance lasts);                      *)
(*   Complete/Fail  the orchestration queue deletes the NodeClaim of a     *)
(*               marked node, or rolls the command back (unmark).          *)
(* The controller is modelled by what the code does (mapping, decrement,   *)
(* recomputation), NOT by the guard; TLC checks that every Start satisfies *)
(* G_C05_StartWithinBudget (BudgetGuards.tla) in every interleaving, and   *)
(* rejects the Variant mutations (no decrement while selecting, no         *)
(* recomputation at validation, not-ready nodes not subtracted).           *)
(*                                                                         *)
(* The history h records primitive steps; TLC simulation of this model     *)
(* yields the behaviours replayed on the real code (cluster state hydrated *)
(* by the real informer controllers; BuildDisruptionBudgetMapping observed *)
(* after every step; rounds run by the real disruption controller).        *)
(***************************************************************************)
EXTENDS BudgetGuards, TLC, Json

CONSTANTS N,            \* nodes are 1..N
          PoolOf,       \* node -> pool name
          KindOf,       \* node -> "empty" | "drifted" | "under" | "sdrifted" : which method may select it
          InitPhase,    \* node -> initial phase
          Pools,        \* set of pool names
          BudgetsOf,    \* pool -> budget list (records of BudgetGuards)
          Marks,        \* instants the clock may jump to
          T0, MaxT,     \* first instant, horizon
          EnvOf,        \* node -> set of environment actions that may happen to it (bounds the product)
          MaxRounds,    \* bound on the number of rounds (Compute steps)
          MaxLen,       \* bound on the history (generation only)
          Variant       \* "ok" = the algorithm as implemented; others = mutations TLC must reject

VARIABLES nd,           \* node -> [phase, ready, marked, deleting, nodeDeleting, terminating]
          now,
          pend,         \* the command awaiting validation: [reason, method, sel] or NoCmd
          ok,           \* ghost: every Start so far satisfied G_C05_StartWithinBudget for every pool
          rounds,       \* number of rounds so far
          h             \* history of primitive steps
vars == <<nd, now, pend, ok, rounds, h>>

Nodes == 1..N
Phases == {"absent", "claim", "registered", "init", "gone"}
NoCmd == [reason |-> "-", method |-> "-", sel |-> {}]
Methods == {"emptiness", "multi", "single", "drift", "sdrift"}
ReasonOf(m) == CASE m = "emptiness" -> "Empty" [] m \in {"drift", "sdrift"} -> "Drifted" [] OTHER -> "Underutilized"
KindFor(m) == CASE m = "emptiness" -> "empty" [] m = "drift" -> "drifted" [] m = "sdrift" -> "sdrifted" [] OTHER -> "under"
Waits(m) == m \notin {"drift", "sdrift"}
ValidationDelay == 15

\* the node table as the property sees it (BudgetGuards node records)
View(i) == [pool |-> PoolOf[i],
            managed |-> nd[i].phase \in {"claim", "registered", "init"},
            initialized |-> nd[i].phase = "init",
            ready |-> nd[i].ready, marked |-> nd[i].marked, deleting |-> nd[i].deleting,
            nodeDeleting |-> nd[i].nodeDeleting, terminating |-> nd[i].terminating]
Table == [i \in Nodes |-> View(i)]

\* ---- what the code computes (reading "out"/"claim" of BudgetGuards: terminating nodes left out,
\*      a Node-only deletion not counted), with the mutation switches
CodeDisrupting(x) ==
    x.managed /\ x.initialized /\ ~x.terminating
    /\ ((Variant # "ignorenotready" /\ ~x.ready) \/ x.marked \/ x.deleting)
CodeSize(tb, p) == Cardinality({i \in Nodes : tb[i].pool = p /\ tb[i].managed /\ tb[i].initialized /\ ~tb[i].terminating})
CodeMapping(tb, t, reason) ==
    [p \in Pools |->
        LET a == Allowed(BudgetsOf[p], t, CodeSize(tb, p), reason)
            d == Cardinality({i \in Nodes : tb[i].pool = p /\ CodeDisrupting(tb[i])}) IN
        Max0(a - d)]

Candidate(i, m) == /\ nd[i].phase = "init" /\ ~nd[i].marked /\ ~nd[i].deleting /\ ~nd[i].nodeDeleting
                   /\ KindOf[i] = KindFor(m)
InPool(S, p) == {i \in S : PoolOf[i] = p}
\* the selections the budget filter can produce from candidate set C under mapping mp: it walks the
\* candidates in some order, takes one while the pool's counter is positive and decrements it
Greedy(C, mp) ==
    IF Variant = "nodecrement"
    THEN {{i \in C : mp[PoolOf[i]] > 0}}
    ELSE {S \in SUBSET C : \A p \in Pools :
            Cardinality(InPool(S, p)) = (IF Cardinality(InPool(C, p)) < mp[p] THEN Cardinality(InPool(C, p)) ELSE mp[p])}
\* all-or-nothing re-check of a consolidation command
AllFit(S, mp) == IF Variant = "nodecrement" THEN \A i \in S : mp[PoolOf[i]] > 0
                 ELSE \A p \in Pools : Cardinality(InPool(S, p)) <= mp[p]

RECURSIVE SetToSeq(_)
SetToSeq(S) == IF S = {} THEN <<>> ELSE LET m == MinOf(S) IN <<m>> \o SetToSeq(S \ {m})
Log(e) == h' = IF MaxLen = 0 THEN h ELSE Append(h, e)          \* MaxLen = 0: checking configuration, no history
Log2(e1, e2) == h' = IF MaxLen = 0 THEN h ELSE h \o <<e1, e2>>
Step(a, i) == [a |-> a, i |-> i, to |-> 0, sel |-> <<>>, during |-> 0]

Init == /\ nd = [i \in Nodes |-> [phase |-> InitPhase[i], ready |-> InitPhase[i] \in {"registered", "init"}, marked |-> FALSE,
                                  deleting |-> FALSE, nodeDeleting |-> FALSE, terminating |-> FALSE]]
        /\ now = T0 /\ pend = NoCmd /\ ok = TRUE /\ rounds = 0 /\ h = <<>>

\* ---------------------------------------------------------------- environment
Env(i, a, new) == /\ a \in EnvOf[i] \cup {"Complete", "Fail"}
                  /\ nd' = [nd EXCEPT ![i] = new] /\ Log(Step(a, i)) /\ UNCHANGED <<now, pend, ok, rounds>>
Launch(i)      == nd[i].phase = "absent" /\ Env(i, "Launch", [nd[i] EXCEPT !.phase = "claim"])
Register(i)    == nd[i].phase = "claim" /\ Env(i, "Register", [nd[i] EXCEPT !.phase = "registered", !.ready = TRUE])
Initialize(i)  == nd[i].phase = "registered" /\ nd[i].ready /\ Env(i, "Initialize", [nd[i] EXCEPT !.phase = "init"])
NotReady(i)    == nd[i].phase \in {"registered", "init"} /\ nd[i].ready /\ Env(i, "NotReady", [nd[i] EXCEPT !.ready = FALSE])
Ready(i)       == nd[i].phase \in {"registered", "init"} /\ ~nd[i].ready /\ Env(i, "Ready", [nd[i] EXCEPT !.ready = TRUE])
DeleteClaim(i) == nd[i].phase \in {"claim", "registered", "init"} /\ ~nd[i].deleting
                  /\ Env(i, "DeleteClaim", [nd[i] EXCEPT !.deleting = TRUE])
DeleteNode(i)  == nd[i].phase \in {"registered", "init"} /\ ~nd[i].nodeDeleting /\ ~nd[i].deleting
                  /\ Env(i, "DeleteNode", [nd[i] EXCEPT !.nodeDeleting = TRUE])
Terminate(i)   == nd[i].deleting /\ ~nd[i].terminating /\ nd[i].phase # "gone"
                  /\ Env(i, "Terminate", [nd[i] EXCEPT !.terminating = TRUE])
Gone(i)        == nd[i].deleting /\ nd[i].phase # "gone"
                  /\ Env(i, "Gone", [phase |-> "gone", ready |-> FALSE, marked |-> FALSE, deleting |-> FALSE,
                                     nodeDeleting |-> FALSE, terminating |-> FALSE])
Tick == /\ pend = NoCmd /\ \E m \in Marks : m > now /\ (\A k \in Marks : k > now => m <= k)
                                            /\ now' = m /\ Log([Step("Tick", 0) EXCEPT !.to = m])
        /\ UNCHANGED <<nd, pend, ok, rounds>>

\* ---------------------------------------------------------------- the orchestration queue
Complete(i) == nd[i].marked /\ ~nd[i].deleting /\ nd[i].phase = "init"
               /\ Env(i, "Complete", [nd[i] EXCEPT !.deleting = TRUE])
Fail(i)     == nd[i].marked /\ ~nd[i].deleting /\ nd[i].phase = "init"
               /\ Env(i, "Fail", [nd[i] EXCEPT !.marked = FALSE])

\* ---------------------------------------------------------------- the disruption controller
DoStart(S, reason, t, e1) ==
    /\ nd' = [i \in Nodes |-> IF i \in S THEN [nd[i] EXCEPT !.marked = TRUE] ELSE nd[i]]
    /\ ok' = (ok /\ \A p \in Pools : G_C05_StartWithinBudget(S, BudgetsOf[p], Table, p, t, reason))
    /\ Log2(e1, [Step("Start", 0) EXCEPT !.sel = SetToSeq(S)])

Compute(m) ==
    /\ pend = NoCmd /\ now + ValidationDelay <= MaxT /\ rounds < MaxRounds /\ rounds' = rounds + 1
    /\ LET C == {i \in Nodes : Candidate(i, m)}
           mp == CodeMapping(Table, now, ReasonOf(m)) IN
       /\ C # {}
       /\ \E F \in Greedy(C, mp) :
            /\ F # {}
            /\ \E S \in (CASE m = "single" -> {{i} : i \in F}
                           [] m = "drift"  -> {{i} : i \in F}
                           [] m = "multi"  -> {X \in SUBSET F : X # {}}
                           [] OTHER        -> {F}) :
                 IF Waits(m)
                 THEN /\ pend' = [reason |-> ReasonOf(m), method |-> m, sel |-> S]
                      /\ Log([Step("Round", 0) EXCEPT !.during = 1])
                      /\ UNCHANGED <<nd, now, ok>>
                 ELSE /\ DoStart(S, ReasonOf(m), now, Step("Round", 0))
                      /\ UNCHANGED <<now, pend>>

\* 15 s later: candidates that are still valid, the mapping rebuilt at the new instant
Validate ==
    /\ pend # NoCmd
    /\ now' = now + ValidationDelay /\ pend' = NoCmd /\ UNCHANGED rounds
    /\ LET V  == {i \in pend.sel : Candidate(i, pend.method)}
           mp == CodeMapping(Table, now', pend.reason)
           e  == Step("EndRound", 0) IN
       IF Variant = "norevalidate"
       THEN (IF V = {} THEN Log(e) /\ UNCHANGED <<nd, ok>> ELSE DoStart(V, pend.reason, now', e))
       ELSE IF pend.method = "emptiness"
       THEN \E S \in Greedy(V, mp) :
              IF S = {} THEN Log(e) /\ UNCHANGED <<nd, ok>> ELSE DoStart(S, pend.reason, now', e)
       ELSE IF V = pend.sel /\ AllFit(V, mp) THEN DoStart(V, pend.reason, now', e)
            ELSE Log(e) /\ UNCHANGED <<nd, ok>>

\* while a command waits for validation only the environment moves (the controller is single-threaded
\* and the queue is driven between rounds)
Next ==
    \/ \E i \in Nodes : Launch(i) \/ Register(i) \/ Initialize(i) \/ NotReady(i) \/ Ready(i)
                        \/ DeleteClaim(i) \/ DeleteNode(i) \/ Terminate(i) \/ Gone(i)
    \/ (pend = NoCmd /\ \E i \in Nodes : Complete(i) \/ Fail(i))
    \/ Tick
    \/ \E m \in Methods : Compute(m)
    \/ Validate
Spec == Init /\ [][Next]_vars
GenSpec == Init /\ [][Len(h) < MaxLen /\ Next]_vars       \* generation: behaviours end at the history bound

\* ---------------------------------------------------------------- invariants
TypeOK == /\ \A i \in Nodes : nd[i].phase \in Phases
          /\ now \in T0..MaxT /\ pend.sel \subseteq Nodes
\* every command that started was within the budget of every pool: newly selected + already not ready or
\* being deleted <= allowance at the instant of the last budget computation
Inv_C05_StartWithinBudget == ok
\* the mapping the code computes agrees with the statement's reading in every reachable state
Inv_C05_MappingAgrees ==
    Variant # "ok" \/ \A p \in Pools : \A r \in {"Empty", "Drifted", "Underutilized"} :
        G_C05_Mapping(CodeMapping(Table, now, r)[p], BudgetsOf[p], Table, p, now, r)
\* only initialized nodes that were not already on their way out are ever selected
Inv_C05_SelectsLive == \A i \in Nodes : nd[i].marked => nd[i].phase = "init"

\* generator: print the history of every behaviour TLC finishes (simulation mode: at the depth bound)
GenPrint == (Len(h) < MaxLen /\ ENABLED Next) \/ PrintT(<<"BEH", ToJson(h)>>)

\* ---------------------------------------------------------------- checked configurations
Bd(cron, hits, dur, kind, val, reasons) ==
    [cron |-> cron, hits |-> hits, dur |-> dur, kind |-> kind, val |-> val, reasons |-> reasons,
     rstate |-> IF Len(reasons) = 0 THEN "nil" ELSE "set", mal |-> "-", txt |-> "-"]
\* instants are seconds after the horizon start (midnight); the hourly window [3h, 3h+10m)
Hr == 3600
MC_T0 == 3 * Hr - 40
MC_MaxT == 3 * Hr + 660
MC_Marks == {3 * Hr - 10, 3 * Hr + 580, 3 * Hr + 595, 3 * Hr + 640}
MC_Pools == {"pa", "pb"}
MC_BudgetsOf ==
    ("pa" :> <<Bd("-", <<>>, -1, "pct", 50, <<>>),
               Bd("0 * * * *", <<2 * Hr, 3 * Hr, 4 * Hr>>, 600, "count", 0, <<"Empty">>),
               Bd("-", <<>>, -1, "count", 1, <<"Drifted">>)>>) @@
    ("pb" :> <<Bd("-", <<>>, -1, "count", 1, <<>>)>>)
MC_N == 4
MC_PoolOf == <<"pa", "pa", "pa", "pb">>
MC_KindOf == <<"empty", "empty", "drifted", "empty">>
MC_InitPhase == <<"init", "init", "init", "absent">>
\* second checked configuration: consolidation (all-or-nothing validation of multi-node commands) and static drift
MC2_KindOf == <<"under", "under", "sdrifted", "under">>
MC_EnvOf == <<{"NotReady", "Ready"}, {"DeleteClaim", "Terminate", "Gone"}, {"DeleteNode", "NotReady", "Ready"},
              {"Launch", "Register", "Initialize", "DeleteClaim", "Gone"}>>
AllEnv == {"Launch", "Register", "Initialize", "NotReady", "Ready", "DeleteClaim", "DeleteNode", "Terminate", "Gone"}
MC_EnvAll == [i \in 1..MC_N |-> AllEnv]
=============================================================================
