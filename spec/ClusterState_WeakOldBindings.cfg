\* spec mutation: cleanupOldBindings omitted (pod name re-used on another node)
\* TLC must reject it; the witness history is printed (BEH) and replayed on the real code
CONSTANTS NodeNames = {"n1", "n2"}  ClaimNames = {}  PodKeys = {"p1"}  Pids = {}  Pools = {"a"}
          PortNames = {"80", "81", "82"}
          Defects = {"skipOldBindings"}  MaxMut = 5  MaxDup = 1  MaxLen = 1000  WithTerm = FALSE  WithRestart = FALSE  PodShapes = {"std"}  Start = "empty"  MaxFail = 0  MaxPend = 100
SPECIFICATION Spec
VIEW view
INVARIANTS Inv_C11_NoPanic W_C11_nodes W_C11_requests W_C11_daemonRequests W_C11_hostPorts W_C11_volumes W_C11_disruptionCost
           W_C11_marks W_C11_poolTotals W_C11_nodeCounts
