\* spec mutation (W_Avail = TRUE  W_Overhead = FALSE  W_Ports = TRUE  W_KeepTerm = TRUE  W_Override = TRUE  W_Refilter = TRUE  W_InitTaints = TRUE): TLC must violate an invariant
CONSTANTS NPods = 2  PodArchs = {1,2}  Catalogs = {1}  PoolSets = {1}  Existings = {0,3}  Daemons = {1}
CONSTANTS W_Avail = TRUE  W_Overhead = FALSE  W_Ports = TRUE  W_KeepTerm = TRUE  W_Override = TRUE  W_Refilter = TRUE  W_InitTaints = TRUE
SPECIFICATION Spec
INVARIANTS Inv_C01_NoOvercommit Inv_C01_EveryLaunchOptionHostsItsPods Inv_C01_RequiredTermNeverDropped
