---------------------------- MODULE Consolidation ----------------------------
(***************************************************************************)
(* Closed model of one consolidation decision (property C06).              *)
(*                                                                         *)
(* A scenario is a price table over Types x {spot, on-demand} x {za, zb}   *)
(* (a base price per type and capacity type from Prices; zone zb of each   *)
(* capacity type is the same / overlay-priced dearer / unavailable / not   *)
(* offered), 1..MaxCands nodes to remove (type, capacity type, zone, one   *)
(* pod each), optionally one remaining initialized node with some free     *)
(* room, and the spot-to-spot feature flag.                                *)
(*                                                                         *)
(*   Setup        the environment picks the scenario                       *)
(*   Decide(c)    the controller issues ANY command c the guards of        *)
(*                ConsolidationGuards admit (a superset of the real        *)
(*                strategies): method, replacement requirements (capacity  *)
(*                types, zones), instance-type options, placements         *)
(*   ChurnAddPod / ChurnFill / ChurnReprice   while the command waits for  *)
(*                validation a pod lands on a removed node / the remaining *)
(*                node fills up / the spot prices jump                     *)
(*   Validate     the command is issued iff the guards still hold          *)
(*   Launch(t,o)  the provider launches the replacement as ANY launch the  *)
(*                request allows: primary = an offering of the capacity    *)
(*                type that launches by precedence, fallback = an          *)
(*                on-demand offering when spot was preferred               *)
(* Invariants state the property in its own words (prices from the table,  *)
(* capacities by plain arithmetic), independently of the guards.           *)
(* CONSTANT Weak weakens one guard: every Consolidation_Weak_*.cfg must    *)
(* violate an invariant.  TLC also enumerates the scenario grid for the    *)
(* real code (GenPrint): checks/C06.py turns every scenario into a cluster *)
(* for the real consolidation methods.                                     *)
(***************************************************************************)
EXTENDS ConsolidationGuards, Json

CONSTANTS NTypes,     \* instance types t1..tN (cpu 2000 * 2^(i-1))
          Prices,     \* base prices
          ZMods,      \* zone-zb modifiers per capacity type: "same", "dear", "unavail", "none"
          MaxCands,   \* nodes to remove
          MinS2S,     \* spot-to-spot: cheaper options a single node needs (15 in the code, small here)
          Focus,      \* "price": full price grid, trivial pods; "pods": fixed price table, pod / room / churn variations;
                      \* "avail": offerings of every capacity type unavailable independently, an (exhausted) reservation
          UnavCTs,    \* avail focus: the capacity types whose zone-za offering may be unavailable, per instance type
          Weak,       \* "" | name of a weakened guard | "*" (every weakening in one run)
          GenMod, GenRes   \* scenario generation: the slice Hash(scenario) % GenMod = GenRes of the grid (1, 0 = all)

CTs == {Spot, OnDemand}
Zones == {"za", "zb"}
TypeIdx == 1..NTypes
TName(i) == "t" \o ToString(i)
RECURSIVE TCpu(_)
TCpu(i) == IF i = 1 THEN 2000 ELSE 2 * TCpu(i - 1)

VARIABLES sc, cmd, phase, launch, wk
vars == <<sc, cmd, phase, launch, wk>>
WeakPrice == {"le", "cheapest", "noPin", "s2sFlag", "s2sFew", "s2sNoTruncate", "sameType", "twoReplacements"}
WeakAvail == {"ignoreAvail"}
WeakPods == {"emptyCost", "noHome", "noRevalidate", "noReprice"}
AllWeak == WeakPrice \cup WeakPods \cup WeakAvail

\* ---------------------------------------------------------------- the price table of a scenario
\* s.unav[i]: capacity types whose zone-za offering of type i is currently unavailable (ICE);
\* s.resv = [t, state, price]: a capacity reservation on type t in zone za ("none" | "avail" | "exhausted")
Offered(s, i, ct, z) == IF ct = Reserved THEN s.resv.state # "none" /\ s.resv.t = i /\ z = "za"
                        ELSE z = "za" \/ s.zmod[ct] # "none"
Avail(s, i, ct, z) == IF ct = Reserved THEN s.resv.state = "avail"
                      ELSE IF z = "za" THEN ct \notin s.unav[i] ELSE s.zmod[ct] # "unavail"
\* s.spike: the spot prices went up by 4 while a command waited (price-table churn)
Price(s, i, ct, z) == IF ct = Reserved THEN s.resv.price
                      ELSE (IF z = "zb" /\ s.zmod[ct] = "dear" THEN s.base[i][ct] + 2 ELSE s.base[i][ct])
                           + (IF ct = Spot /\ s.spike THEN 4 ELSE 0)
\* the five offerings of a type, in a fixed order (one that is not offered is simply never available)
OffSeq == <<<<Spot, "za">>, <<Spot, "zb">>, <<OnDemand, "za">>, <<OnDemand, "zb">>, <<Reserved, "za">>>>
Usable(s, i, ct, z) == Offered(s, i, ct, z) /\ Avail(s, i, ct, z)

\* ---------------------------------------------------------------- the cluster in SchedulingGuards shapes
NoInt == -1000
NodeNames(s) == [i \in DOMAIN s.cands |-> "c" \o ToString(i)]
RestName == "r"
Universe(s) == [k \in {"zone", "ct", "it", "host"} |->
                  CASE k = "zone" -> <<"za", "zb", "~">>
                    [] k = "ct"   -> <<Spot, OnDemand, Reserved, "~">>
                    [] k = "it"   -> [i \in 1..(NTypes + 1) |-> IF i <= NTypes THEN TName(i) ELSE "~"]
                    [] k = "host" -> [i \in 1..(Len(s.cands) + 2) |->
                                        IF i <= Len(s.cands) THEN NodeNames(s)[i] ELSE IF i = Len(s.cands) + 1 THEN RestName ELSE "~"]]
PodRec(name, node, cpu, needOd) ==
    [ns |-> "d", name |-> name, node |-> node, owner |-> "rs", cpu |-> cpu, mem |-> 0,
     sel |-> IF needOd THEN [ct |-> OnDemand] ELSE <<>>, terms |-> <<>>, vols |-> <<>>, tol |-> <<>>, ports |-> <<>>]
NodeRec(name, it, zone, ct, cpu) ==
    [name |-> name, labels |-> [it |-> it, zone |-> zone, ct |-> ct], taints |-> <<>>, csi |-> <<>>,
     alloc |-> [cpu |-> cpu, mem |-> 100000, pods |-> 110], marked |-> FALSE, deleting |-> FALSE]
SetToSeq(S) == LET RECURSIVE f(_) f(T) == IF T = {} THEN <<>> ELSE LET x == CHOOSE y \in T : TRUE IN <<x>> \o f(T \ {x}) IN f(S)
TypeRec(s, i) ==
    [name |-> TName(i), cpu |-> TCpu(i), mem |-> 100000, pods |-> 110, labels |-> <<>>, ovCpu |-> 0, ovMem |-> 0,
     offerings |-> [j \in DOMAIN OffSeq |-> [zone |-> OffSeq[j][2], ct |-> OffSeq[j][1], price |-> Price(s, i, OffSeq[j][1], OffSeq[j][2]),
                                             available |-> Usable(s, i, OffSeq[j][1], OffSeq[j][2]), rid |-> "", cpuOv |-> 0, memOv |-> 0, podsOv |-> 0, ohCpu |-> 0, ohMem |-> 0]]]
\* the pods: one per removed node, the filler of the remaining node, pods that arrived while the command waited
CandPods(s) == [i \in DOMAIN s.cands |-> PodRec("p" \o ToString(i), NodeNames(s)[i], s.cands[i].pod, s.cands[i].needOd)]
RestCap == 4000
SGOf(s) ==
    [universe |-> Universe(s), unum |-> [k \in {"zone", "ct", "it", "host"} |-> [i \in DOMAIN Universe(s)[k] |-> NoInt]],
     pods |-> CandPods(s)
              \o (IF s.rest >= 0 THEN <<PodRec("fill", RestName, RestCap - s.rest, FALSE)>> ELSE <<>>)
              \o (IF s.extra > 0 THEN <<PodRec("late", NodeNames(s)[1], s.extra, FALSE)>> ELSE <<>>),
     nodes |-> [i \in DOMAIN s.cands |-> NodeRec(NodeNames(s)[i], TName(s.cands[i].t), s.cands[i].z, s.cands[i].ct, TCpu(s.cands[i].t))]
               \o (IF s.rest >= 0 THEN <<NodeRec(RestName, TName(2), "za", OnDemand, RestCap)>> ELSE <<>>),
     types |-> [i \in TypeIdx |-> TypeRec(s, i)],
     ds |-> <<>>, pvcs |-> <<>>, pvs |-> <<>>, scs |-> <<>>]

OwedKeys(s) == {"d/p" \o ToString(i) : i \in DOMAIN s.cands} \cup (IF s.extra > 0 THEN {"d/late"} ELSE {})
HomeNames(s) == IF s.rest >= 0 THEN {RestName} ELSE {}

\* ---------------------------------------------------------------- a command and its two views
\* c = [method, nrepl, opts: Seq(type index), cts, zones, place: pod key -> home]
HasVec(s, k, S) == [i \in DOMAIN Universe(s)[k] |-> Universe(s)[k][i] \in S]
ClaimRec(s, c) ==
    [pods |-> SetToSeq({k \in DOMAIN c.place : c.place[k] = NewHome}),
     reqs |-> [k \in {"zone", "ct", "it", "host"} |->
                 CASE k = "zone" -> [defined |-> TRUE, op |-> "In", has |-> HasVec(s, k, c.zones)]
                   [] k = "ct"   -> [defined |-> TRUE, op |-> "In", has |-> HasVec(s, k, c.cts)]
                   [] OTHER      -> [defined |-> FALSE, op |-> "-", has |-> [i \in DOMAIN Universe(s)[k] |-> TRUE]]],
     its |-> [i \in DOMAIN c.opts |-> TName(c.opts[i])], taints |-> <<>>, reserved |-> <<>>]
\* avail = FALSE: the (wrong) view that takes every offered, admitted offering for launchable, available or not
OptVA(s, c, i, avail) ==
    [name |-> TName(i),
     offs |-> [j \in DOMAIN OffSeq |-> [zone |-> OffSeq[j][2], ct |-> OffSeq[j][1], price |-> Price(s, i, OffSeq[j][1], OffSeq[j][2]),
                                        ok |-> /\ (IF avail THEN Usable(s, i, OffSeq[j][1], OffSeq[j][2]) ELSE Offered(s, i, OffSeq[j][1], OffSeq[j][2]))
                                               /\ OffSeq[j][1] \in c.cts /\ OffSeq[j][2] \in c.zones]]]
OptV(s, c, i) == OptVA(s, c, i, TRUE)
CandPrice(s, i) == LET x == s.cands[i] IN IF Offered(s, x.t, x.ct, x.z) THEN Price(s, x.t, x.ct, x.z) ELSE 0
CV(s, c) ==
    [method |-> c.method, s2s |-> s.flag,
     cands |-> [i \in DOMAIN s.cands |-> [name |-> NodeNames(s)[i], type |-> TName(s.cands[i].t), ct |-> s.cands[i].ct,
                                          price |-> CandPrice(s, i), costly |-> s.cands[i].costly]],
     nrepl |-> c.nrepl,
     opts |-> [i \in DOMAIN c.opts |-> OptV(s, c, c.opts[i])],
     minNeed |-> 0]
HV(s, c) ==
    [owed |-> OwedKeys(s), homes |-> HomeNames(s),
     exist |-> IF s.rest >= 0 THEN <<[node |-> RestName, pods |-> SetToSeq({k \in DOMAIN c.place : c.place[k] = RestName})]>> ELSE <<>>,
     nrepl |-> c.nrepl, claim |-> ClaimRec(s, c)]

\* the controller's rule = the conjunction of the C06 guards (with spec mutations)
Le(cv) == cv.nrepl >= 1 => \A i \in DOMAIN cv.opts : Launchable(cv.opts[i]) => WorstPrice(cv.opts[i]) <= CandSum(cv)
CheapestPrice(it) == MinOf({it.offs[i].price : i \in {j \in OkOffs(it) : it.offs[j].ct = LaunchCt(it)}})
Cheapest(cv) == cv.nrepl >= 1 => \A i \in DOMAIN cv.opts : Launchable(cv.opts[i]) => CheapestPrice(cv.opts[i]) < CandSum(cv)
Admit(s, c) ==
    LET cv == CV(s, c)
        hv == HV(s, c)
    IN /\ (wk = "twoReplacements" \/ G_C06_AtMostOneReplacement(cv))
       /\ (IF wk = "le" THEN Le(cv) ELSE IF wk = "cheapest" THEN Cheapest(cv)
           ELSE IF wk = "ignoreAvail" THEN G_C06_StrictlyCheaper([cv EXCEPT !.opts = [i \in DOMAIN c.opts |-> OptVA(s, c, c.opts[i], FALSE)]])
           ELSE G_C06_StrictlyCheaper(cv))
       /\ (S2SApplies(cv) => /\ (wk = "s2sFlag" \/ S2SFeature(cv))
                              /\ (wk = "s2sFew" \/ S2SEnough(cv, MinS2S))
                              /\ (wk = "s2sNoTruncate" \/ S2STruncated(cv, MinS2S)))
       /\ (wk = "noPin" \/ G_C06_NoOdFallback(cv))
       /\ (wk = "sameType" \/ G_C06_SameType(cv))
       /\ (IF wk = "emptyCost" THEN (cv.method = "emptiness" => cv.nrepl = 0) ELSE G_C06_EmptyMeansNoCost(cv))
       \* price focus: pods are tiny and there is no remaining node, every placement on the replacement is feasible
       /\ (wk = "noHome" \/ c.method = "emptiness" \/ Focus \in {"price", "avail"} \/ G_C06_PodsHaveHome(SGOf(s), hv))

\* ---------------------------------------------------------------- scenarios
FixedBase == [i \in TypeIdx |-> [ct \in CTs |-> IF ct = Spot THEN i ELSE i + 1]]
PodSizes == IF Focus = "pods" THEN {1000, 3000} ELSE {100}
NoUnav == [i \in TypeIdx |-> {}]
NoResv == [t |-> 1, state |-> "none", price |-> 0]
Resvs == {NoResv} \cup [t : TypeIdx, state : {"avail", "exhausted"}, price : {0}]
CandSet == [t : TypeIdx, ct : CTs, z : IF Focus \in {"pods", "avail"} THEN {"za"} ELSE Zones, pod : PodSizes,
            needOd : IF Focus = "pods" THEN BOOLEAN ELSE {FALSE}, costly : IF Focus = "pods" THEN BOOLEAN ELSE {TRUE}]
\* canonical order of the removed nodes (a multiset, not a sequence)
Rank(x) == ((((x.t * 2 + (IF x.ct = Spot THEN 0 ELSE 1)) * 2 + (IF x.z = "za" THEN 0 ELSE 1)) * 4 + x.pod \div 1000) * 2
            + (IF x.needOd THEN 1 ELSE 0)) * 2 + (IF x.costly THEN 1 ELSE 0)
Sorted(q) == \A i \in 1..(Len(q) - 1) : Rank(q[i]) <= Rank(q[i + 1])
Scenarios ==
    {s \in [base : IF Focus \in {"price", "avail"} THEN [TypeIdx -> [CTs -> Prices]] ELSE {FixedBase},
            zmod : IF Focus = "price" THEN [CTs -> ZMods] ELSE {[ct \in CTs |-> "same"]},
            unav : IF Focus = "avail" THEN [TypeIdx -> SUBSET UnavCTs] ELSE {NoUnav},
            resv : IF Focus = "avail" THEN Resvs ELSE {NoResv},
            cands : UNION {[1..n -> CandSet] : n \in 1..MaxCands},
            rest : IF Focus = "pods" THEN {-1, 0, 1000, 4000} ELSE {-1},
            extra : {0}, spike : {FALSE}, flag : IF Focus \in {"pods", "avail"} THEN {TRUE} ELSE BOOLEAN] :
        \* price focus: the removed nodes are a multiset (canonical order); pods focus: only the first one varies its
        \* pod's selector and eviction cost
        /\ (IF Focus \in {"price", "avail"} THEN Sorted(s.cands)
            ELSE \A i \in 2..Len(s.cands) : ~s.cands[i].needOd /\ s.cands[i].costly)
        /\ \A i \in DOMAIN s.cands : Offered(s, s.cands[i].t, s.cands[i].ct, s.cands[i].z)}

\* ---------------------------------------------------------------- commands the controller may consider
NoCmd == [method |-> "-", nrepl |-> 0, opts |-> <<>>, cts |-> {}, zones |-> {}, place |-> <<>>]
OptLists == UNION {{q \in [1..n -> TypeIdx] : \A i \in 1..(n - 1) : q[i] < q[i + 1]} : n \in 1..NTypes}
Places(s) == [OwedKeys(s) -> HomeNames(s) \cup {NewHome}]
Commands(s) ==
    {[method |-> "emptiness", nrepl |-> 0, opts |-> <<>>, cts |-> {}, zones |-> {}, place |-> [k \in OwedKeys(s) |-> "-"]]}
    \cup {[method |-> IF Len(s.cands) = 1 THEN "single" ELSE "multi", nrepl |-> 0, opts |-> <<>>, cts |-> {}, zones |-> {}, place |-> p] :
            p \in {q \in Places(s) : \A k \in DOMAIN q : q[k] # NewHome}}
    \cup {[method |-> IF Len(s.cands) = 1 THEN "single" ELSE "multi", nrepl |-> n, opts |-> o, cts |-> c, zones |-> z, place |-> p] :
            n \in IF wk = "twoReplacements" THEN {1, 2} ELSE {1}, o \in OptLists,
            c \in (SUBSET (IF Focus = "avail" THEN CTs \cup {Reserved} ELSE CTs)) \ {{}},
            z \in IF Focus = "price" THEN {Zones, {"za"}} ELSE IF Focus = "avail" THEN {Zones, {"za"}} ELSE {Zones},
            p \in {q \in Places(s) : \E k \in DOMAIN q : q[k] = NewHome}}

\* ---------------------------------------------------------------- the protocol
Init == /\ wk \in (IF Weak = "*" THEN AllWeak ELSE IF Weak = "*price" THEN WeakPrice ELSE IF Weak = "*pods" THEN WeakPods ELSE {Weak})
        /\ sc \in Scenarios /\ cmd = NoCmd /\ phase = "setup" /\ launch = [kind |-> "-"]

Decide(c) == /\ phase = "setup" /\ Admit(sc, c)
             /\ cmd' = c /\ phase' = "waiting" /\ UNCHANGED <<sc, launch, wk>>
\* churn while the command waits (pods focus only)
ChurnAddPod == /\ phase = "waiting" /\ Focus = "pods" /\ sc.extra = 0 /\ cmd.method # "emptiness"
               /\ sc' = [sc EXCEPT !.extra = 2000] /\ phase' = "churned" /\ UNCHANGED <<cmd, launch, wk>>
ChurnFill == /\ phase = "waiting" /\ Focus = "pods" /\ sc.rest > 0 /\ cmd.method # "emptiness"
             /\ sc' = [sc EXCEPT !.rest = 0] /\ phase' = "churned" /\ UNCHANGED <<cmd, launch, wk>>
\* ... or the price table changes (pods focus only: the fixed table's spot prices jump)
ChurnReprice == /\ phase = "waiting" /\ Focus = "pods" /\ ~sc.spike /\ cmd.nrepl >= 1
                /\ sc' = [sc EXCEPT !.spike = TRUE] /\ phase' = "churned" /\ UNCHANGED <<cmd, launch, wk>>
\* pods that arrived are not in the command's own placements: the guard's search must find them a home; the command is
\* re-priced against the current table (weakening "noReprice": homes are re-validated, prices are those of the decision)
Validate == /\ phase \in {"waiting", "churned"}
            /\ IF wk = "noRevalidate" \/ Admit(IF wk = "noReprice" THEN [sc EXCEPT !.spike = FALSE] ELSE sc, cmd)
               THEN phase' = "issued" ELSE phase' = "abandoned"
            /\ UNCHANGED <<sc, cmd, launch, wk>>
\* any launch the request allows
LaunchPrimary(i, j) ==
    /\ phase = "issued" /\ cmd.nrepl >= 1 /\ i \in DOMAIN cmd.opts
    /\ LET it == OptV(sc, cmd, cmd.opts[i]) IN
       /\ j \in OkOffs(it) /\ it.offs[j].ct = LaunchCt(it)
       /\ launch' = [kind |-> "primary", t |-> cmd.opts[i], ct |-> it.offs[j].ct, zone |-> it.offs[j].zone, price |-> it.offs[j].price]
    /\ phase' = "launched" /\ UNCHANGED <<sc, cmd, wk>>
LaunchFallback(i, j) ==
    /\ phase = "issued" /\ cmd.nrepl >= 1 /\ i \in DOMAIN cmd.opts
    /\ LET it == OptV(sc, cmd, cmd.opts[i]) IN
       /\ j \in OkOffs(it) /\ it.offs[j].ct = OnDemand /\ LaunchCt(it) # OnDemand
       /\ launch' = [kind |-> "fallback", t |-> cmd.opts[i], ct |-> it.offs[j].ct, zone |-> it.offs[j].zone, price |-> it.offs[j].price]
    /\ phase' = "launched" /\ UNCHANGED <<sc, cmd, wk>>
NoLaunch == /\ phase = "issued" /\ cmd.nrepl = 0
            /\ launch' = [kind |-> "none"] /\ phase' = "launched" /\ UNCHANGED <<sc, cmd, wk>>

Next == \/ \E c \in Commands(sc) : Decide(c)
        \/ ChurnAddPod \/ ChurnFill \/ ChurnReprice \/ Validate
        \/ \E i \in 1..NTypes, j \in DOMAIN OffSeq : LaunchPrimary(i, j) \/ LaunchFallback(i, j)
        \/ NoLaunch
Spec == Init /\ [][Next]_vars

\* ---------------------------------------------------------------- the property in its own words
Removed == 1..Len(sc.cands)
Before == SumTo([i \in Removed |-> CandPrice(sc, i)], Len(sc.cands))
Done == phase = "launched"
\* cost after < cost before for every launch the request allows: every launch at the capacity type that launches, and
\* every on-demand fall-back when an on-demand node is among the removed ones
Inv_C06_CostDecreases ==
    (Done /\ launch.kind \in {"primary", "fallback"}) =>
        ((launch.kind = "primary" \/ \E i \in Removed : sc.cands[i].ct = OnDemand) => launch.price < Before)
Inv_C06_AtMostOneLaunch == Done => cmd.nrepl <= 1
\* spot nodes are replaced by a spot launch only with the feature enabled, and a single node only when the price table
\* holds MinS2S strictly cheaper spot-capable types
SpotOnly == \A i \in Removed : sc.cands[i].ct = Spot
\* (a cheaper alternative is a type with SOME available offering below the node's price: the request may also reach it through
\* a reservation or, where its spot offering is out of capacity, through on-demand)
CheaperSpotTypes == {i \in TypeIdx : \E ct \in CTs \cup {Reserved}, z \in Zones : Usable(sc, i, ct, z) /\ Price(sc, i, ct, z) < Before}
Inv_C06_SpotToSpotFeature == (Done /\ launch.kind = "primary" /\ SpotOnly /\ launch.ct = Spot) => sc.flag
Inv_C06_SpotToSpotAlternatives ==
    (Done /\ launch.kind = "primary" /\ SpotOnly /\ launch.ct = Spot /\ Len(sc.cands) = 1) => Cardinality(CheaperSpotTypes) >= MinS2S
\* ... and the new node is not itself a spot-to-spot candidate of the request it came from (the option list was cut down)
Inv_C06_SpotToSpotSettles ==
    (Done /\ launch.kind = "primary" /\ SpotOnly /\ launch.ct = Spot /\ Len(sc.cands) = 1) =>
        Cardinality({i \in DOMAIN cmd.opts : LET it == OptV(sc, cmd, cmd.opts[i]) IN Launchable(it) /\ WorstPrice(it) < launch.price}) < MinS2S
\* several nodes are never replaced by a node of the type of one of them at the same or a higher price
Inv_C06_NotWorseThanKeeping ==
    (Done /\ launch.kind = "primary" /\ Len(sc.cands) >= 2) =>
        \A i \in Removed : sc.cands[i].t = launch.t => launch.price < CandPrice(sc, i)
\* nodes deleted as empty hold no pod with a positive eviction cost
Inv_C06_EmptyHarmless == (Done /\ cmd.method = "emptiness") => \A i \in Removed : ~sc.cands[i].costly
\* pods stay schedulable: the pods of the removed nodes can be spread over the remaining node and the launched node
\* (plain arithmetic: free cpu, nodeSelector vs labels; the launched node by SOME launch of its type the request allows)
PodCpu(k) == IF k = "d/late" THEN sc.extra ELSE sc.cands[CHOOSE i \in Removed : k = "d/p" \o ToString(i)].pod
PodNeedsOd(k) == k # "d/late" /\ sc.cands[CHOOSE i \in Removed : k = "d/p" \o ToString(i)].needOd
SumCpuOf(K) == LET RECURSIVE f(_) f(S) == IF S = {} THEN 0 ELSE LET x == CHOOSE y \in S : TRUE IN PodCpu(x) + f(S \ {x}) IN f(K)
FitsRest(K) == K = {} \/ (sc.rest >= 0 /\ SumCpuOf(K) <= sc.rest)     \* the remaining node is on-demand
FitsNew(K) == K = {} \/ /\ launch.kind \in {"primary", "fallback"}
                        /\ SumCpuOf(K) <= TCpu(launch.t)
                        /\ ((\E k \in K : PodNeedsOd(k)) =>
                              \E j \in OkOffs(OptV(sc, cmd, launch.t)) : OptV(sc, cmd, launch.t).offs[j].ct = OnDemand)
Inv_C06_PodsSchedulable ==
    (Done /\ cmd.method # "emptiness") =>
        \E K \in SUBSET OwedKeys(sc) : FitsRest(K) /\ FitsNew(OwedKeys(sc) \ K)

TypeOK == /\ phase \in {"setup", "waiting", "churned", "issued", "abandoned", "launched"}
          /\ cmd.method \in {"-", "single", "multi", "emptiness"}
AllInv == /\ Inv_C06_CostDecreases /\ Inv_C06_AtMostOneLaunch /\ Inv_C06_SpotToSpotFeature /\ Inv_C06_SpotToSpotAlternatives
          /\ Inv_C06_SpotToSpotSettles /\ Inv_C06_NotWorseThanKeeping /\ Inv_C06_EmptyHarmless /\ Inv_C06_PodsSchedulable
\* all spec mutations in one run (Weak = "*"): always true, prints the weakening under which the property breaks
WeakDetect == AllInv \/ PrintT(<<"REJ", wk>>)

\* ---------------------------------------------------------------- scenario generation for the real code
\* one line per scenario: the price table, the removed nodes, the remaining node, the flag
GenScenario == [base |-> [i \in TypeIdx |-> [spot |-> sc.base[i][Spot], od |-> sc.base[i][OnDemand]]],
                zmod |-> [spot |-> sc.zmod[Spot], od |-> sc.zmod[OnDemand]],
                cands |-> [i \in DOMAIN sc.cands |-> [t |-> sc.cands[i].t, ct |-> sc.cands[i].ct, z |-> sc.cands[i].z, pod |-> sc.cands[i].pod,
                                                      needOd |-> sc.cands[i].needOd, costly |-> sc.cands[i].costly]],
                unav |-> [i \in TypeIdx |-> [spot |-> Spot \in sc.unav[i], od |-> OnDemand \in sc.unav[i]]],
                resv |-> sc.resv,
                \* the capacity types the NodePool allows (binding only: the model's commands range over every subset anyway)
                poolCts |-> IF Focus = "price" THEN RandomElement({<<Reserved, Spot, OnDemand>>, <<Reserved, Spot, OnDemand>>, <<Reserved, OnDemand>>,
                                                                  <<Spot, OnDemand>>, <<OnDemand>>, <<Reserved, Spot>>})
                            ELSE <<Reserved, Spot, OnDemand>>,
                rest |-> sc.rest, flag |-> sc.flag]
GenPrint == phase # "setup" \/ PrintT(<<"BEH", ToJson(GenScenario)>>)
\* generation only needs the initial states; a slice of the grid is selected by a hash of the scenario
ZIdx(m) == CASE m = "same" -> 0 [] m = "dear" -> 1 [] m = "unavail" -> 2 [] OTHER -> 3
Hash(s) == SumTo([i \in TypeIdx |-> (s.base[i][Spot] * 7 + s.base[i][OnDemand] * 13) * (i + 2)], NTypes)
           + ZIdx(s.zmod[Spot]) * 31 + ZIdx(s.zmod[OnDemand]) * 37
           + SumTo([i \in DOMAIN s.cands |-> Rank(s.cands[i]) * (16 + i)], Len(s.cands))
           + (IF s.flag THEN 5 ELSE 0) + (s.rest + 1) \div 100
GenInit == Init /\ Hash(sc) % GenMod = GenRes
GenSpec == GenInit /\ [][FALSE]_vars
\* random sample of the grid (TLC's RandomElement is seeded by -seed): GenMod scenarios are drawn, the valid ones printed
RandCand(i) == [t |-> RandomElement(TypeIdx), ct |-> RandomElement(CTs), z |-> RandomElement(Zones), pod |-> RandomElement(PodSizes),
             needOd |-> FALSE, costly |-> TRUE]
RandScenario(k) == [base |-> [i \in TypeIdx |-> [ct \in CTs |-> RandomElement(Prices)]],
                    zmod |-> [ct \in CTs |-> RandomElement(ZMods)],
                    unav |-> [i \in TypeIdx |-> RandomElement(SUBSET CTs)],
                    resv |-> RandomElement(Resvs),
                    cands |-> [i \in 1..RandomElement(1..MaxCands) |-> RandCand(i)],
                    rest |-> -1, extra |-> 0, spike |-> FALSE, flag |-> RandomElement(BOOLEAN)]
RandInit == /\ wk = "" /\ cmd = NoCmd /\ phase = "setup" /\ launch = [kind |-> "-"]
            /\ sc \in {s \in {RandScenario(k) : k \in 1..GenMod} :
                          \A i \in DOMAIN s.cands : Offered(s, s.cands[i].t, s.cands[i].ct, s.cands[i].z)}
RandSpec == RandInit /\ [][FALSE]_vars
=============================================================================
