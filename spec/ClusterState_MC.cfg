\* exhaustive check of the repaired design (history hidden by VIEW): every interleaving of <= MaxMut
\* environment mutations with deliveries in any order and <= MaxDup repeated deliveries
CONSTANTS NodeNames = {"n1", "n2"}  ClaimNames = {"c1"}  PodKeys = {"p1", "p2"}  Pids = {"i1", "i2"}  Pools = {"a"}
          PortNames = {"80", "81", "82"}
          Defects = {}  MaxMut = 5  MaxDup = 1  MaxLen = 1000  WithTerm = FALSE  WithRestart = FALSE  PodShapes = {"std", "alt"}  Start = "empty"  MaxFail = 1  MaxPend = 100
SPECIFICATION Spec
VIEW view
INVARIANTS Inv_C11_NoPanic Inv_EnvUnambiguous Inv_C11_nodes Inv_C11_requests Inv_C11_daemonRequests Inv_C11_hostPorts
           Inv_C11_volumes Inv_C11_disruptionCost Inv_C11_marks Inv_C11_poolTotals Inv_C11_nodeCounts
