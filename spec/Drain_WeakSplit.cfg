\* spec mutation (the deadline split runs over every pod: static and tolerating pods are deleted directly): TLC must reject it (vacuity guard)
CONSTANTS Pods = {"p1", "p2"}  Archetypes <- ArchUndrain  TGPs <- BoolT  TGP = 3
  MaxNow = 4  MaxFaults = 0  MaxRestarts = 0  MaxDlChanges = 0  MaxLen = 1000  MaxSpont = 99
  EarlierMode = "earlier"  GateTiers = TRUE  MinGrace = 1  DndMode = "honour"  ThresholdSlack = 0  DropMode = "keep"  SplitMode = "all"
SPECIFICATION Spec
VIEW view
INVARIANTS TypeOK Inv_C10_Guards
