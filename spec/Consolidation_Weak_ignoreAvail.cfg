\* spec mutation: worst-case launch price over ALL admitted offerings, available or not -> TLC must violate an Inv_C06_* invariant
CONSTANTS NTypes = 2  Prices = {1, 2}  ZMods = {"same"}  MaxCands = 1  MinS2S = 2  Focus = "avail"  UnavCTs = {"spot"}  Weak = "ignoreAvail"  GenMod = 1  GenRes = 0
SPECIFICATION Spec
INVARIANTS Inv_C06_CostDecreases Inv_C06_AtMostOneLaunch Inv_C06_SpotToSpotFeature Inv_C06_SpotToSpotAlternatives Inv_C06_SpotToSpotSettles Inv_C06_NotWorseThanKeeping Inv_C06_EmptyHarmless Inv_C06_PodsSchedulable
