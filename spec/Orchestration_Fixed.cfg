\* CodeMode = "fixed" (only an unfinished pass can time out): only the partial-delete case (persistently failing delete) remains
CONSTANTS Nodes = {"n1", "n2"}  Cmds = {"A"}  MaxRepl = 2  T = 1  MaxNow = 2  MaxFaults = 1  MaxRestarts = 1
          DelFaults = TRUE  CodeMode = "fixed"  Weak = "none"  Serial = FALSE  Gen = FALSE  MaxLen = 0
SPECIFICATION Spec
INVARIANTS TypeOK Inv_C08_DeleteAfterAllInitialized Inv_C08_NoDeleteAfterFailure_Fixed Inv_C08_SingleCommandPerNode Inv_C08_RolledBackWhenQuiet Inv_C08_RolledBackByAction
