\* every pods-guard weakening in one TLC run (pods grid)
CONSTANTS NTypes = 2  Prices = {1}  ZMods = {"same"}  MaxCands = 1  MinS2S = 2  Focus = "pods"  UnavCTs = {}  Weak = "*pods"  GenMod = 1  GenRes = 0
SPECIFICATION Spec
INVARIANTS WeakDetect
