---------------------------- MODULE Drift_Trace ----------------------------
(***************************************************************************)
(* Trace validation for C15.                                               *)
(*                                                                         *)
(* part "hash":  every `Call` event of the reflection walker (one edit of  *)
(* the edit alphabet applied to a real NodePool, Hash() before / after) is *)
(* judged by the two hash axioms.                                          *)
(*                                                                         *)
(* part "world": observed state (the stored NodePool and NodeClaims, the   *)
(* catalog) is taken from the `Obs` event the driver emits after every     *)
(* step; every reconcile of the real nodeclaim disruption controller       *)
(* (Begin ... End ... Obs) is judged by re-deriving the Drifted verdict    *)
(* from the state observed before it with the spec's own label             *)
(* satisfaction (DriftGuards!Sat); every reconcile of the real hash        *)
(* controller must leave the pool's annotations current.  Ghost state      *)
(* computed here: per NodeClaim the template hash it was born under, and   *)
(* whether it is still "fresh" (nothing drift-relevant happened since it   *)
(* was created from the pool).                                             *)
(***************************************************************************)
EXTENDS DriftGuards, Json, IOUtils

VARIABLES l, st, viol, ntr, done
tvars == <<l, st, viol, ntr, done>>

Trace == ndJsonDeserialize(IOEnv.TRACE)
Ev == Trace[l]
Chk(ok, guard, sig) == IF ok THEN <<>> ELSE <<[line |-> l, guard |-> guard, sig |-> sig]>>

NoObs == [pool |-> [exists |-> FALSE, hashAnn |-> "-", verAnn |-> "-", specHash |-> "-", tmplCanon |-> "-", reqs |-> <<>>],
          claims |-> <<>>, types |-> <<>>]
NoPend == [ctrl |-> "-", c |-> "-", err |-> "-"]
St0(cfg) == [cfg |-> cfg, obs |-> NoObs, pre |-> NoObs, pend |-> NoPend,
             born |-> <<>>,     \* claim name -> canonical form of the pool's template (without requirements, lists sorted; computed by the
                                \* driver from the API JSON, NOT by Hash()) when the claim was created; re-set by a version migration
             fresh |-> <<>>,    \* claim name -> BOOLEAN
             tamp |-> <<>>]     \* claim name -> BOOLEAN: its labels / hash annotations were edited by the environment

TraceInit == l = 1 /\ st = St0([part |-> "-"]) /\ viol = <<>> /\ ntr = 0 /\ done = FALSE

Names(o) == {o.claims[i].name : i \in DOMAIN o.claims}
HasClaim(o, n) == \E i \in DOMAIN o.claims : o.claims[i].name = n
ClaimIn(o, n) == o.claims[CHOOSE i \in DOMAIN o.claims : o.claims[i].name = n]
Get(f, n, dflt) == IF n \in DOMAIN f THEN f[n] ELSE dflt

\* ---------------------------------------------------------------- part (a): hash axioms
TCall ==
    /\ Ev.e = "Call" /\ Ev.fn = "Hash"
    /\ viol' = viol
         \o Chk(G_C15_HashInvariant(Ev), "G_C15_HashInvariant",
                (IF Ev.kind = "reorder" THEN "reorder:" ELSE "documented:") \o Ev.path)
         \o Chk(G_C15_HashSensitive(Ev), "G_C15_HashSensitive", Ev.kind \o ":" \o Ev.path)
    /\ UNCHANGED st

\* ---------------------------------------------------------------- part (b),(c)
K == [typeKey |-> st.cfg.typeKey, zoneKey |-> st.cfg.zoneKey, ctKey |-> st.cfg.ctKey]

\* which environment steps end a claim's freshness / count as tampering with it
SpecEdits == {"addReq", "delReq", "delReqKey", "setTaints", "setStartupTaints", "taint+", "taint-", "startupTaint+", "tlabel", "tannotation",
              "expireAfter", "tgp"}
ClaimTamper == {"label", "hashAnn", "verAnn", "dropAnn", "copyPoolHash"}
StepFresh(n) ==
    LET f == Get(st.fresh, n, FALSE) IN
    CASE Ev.a = "EditPool" /\ Ev.what \in SpecEdits -> FALSE
      [] Ev.a = "EditClaim" /\ Ev.c = n /\ Ev.what \in ClaimTamper -> FALSE
      [] Ev.a \in {"ProvDrift", "DeleteClaim"} /\ Ev.c = n -> FALSE
      [] Ev.a \in {"RemoveType", "RemoveOffering"} -> FALSE
      [] OTHER -> f
StepTamp(n) == Get(st.tamp, n, FALSE) \/ (Ev.a = "EditClaim" /\ Ev.c = n /\ Ev.what \in ClaimTamper)
TStep ==
    /\ Ev.e = "Step"
    /\ st' = [st EXCEPT !.fresh = [n \in DOMAIN st.fresh |-> StepFresh(n)],
                        !.tamp = [n \in DOMAIN st.tamp |-> StepTamp(n)]]
    /\ UNCHANGED viol

\* ---- judging a drift reconcile: pre-state = the Obs before Begin, post-state = this Obs
ReqSig(p, x) == IF ReqDrift(p, x) THEN p.reqs[FirstViolated(x.labels, x.ilabels, p.reqs)].cls ELSE "-"
Why(p, x) == IF StaticDrift(p, x) THEN "static" ELSE IF ReqDrift(p, x) THEN "req:" \o ReqSig(p, x) ELSE "none"
Stage(x) == IF x.registered = "True" THEN "registered" ELSE "unregistered"
TemplateChanged(n, p) == n \in DOMAIN st.born /\ st.born[n] # "-" /\ st.born[n] # p.tmplCanon

DriftChecks(n) ==
    IF ~(HasClaim(st.pre, n) /\ HasClaim(Ev, n)) THEN <<>> ELSE
    LET p == st.pre.pool
        x == ClaimIn(st.pre, n)
        y == ClaimIn(Ev, n)
        pn == st.cfg.pool
        q == Quiescent(p, st.cfg.cur)
        ev == Evaluated(p, x, pn)
    IN  Chk(G_C15_DriftDecision(p, x, y, pn), "G_C15_DriftDecision", "missed:" \o Why(p, x))
     \o Chk(G_C15_NoSpuriousDrift(p, x, y, st.pre.types, K, pn), "G_C15_NoSpuriousDrift", "spurious:" \o y.reason)
     \* a NodeClaim freshly created from the pool and launched is not reported Drifted
     \o Chk((ev /\ q /\ Get(st.fresh, n, FALSE)) => y.drifted # "True", "Inv_C15_NoSelfDrift", y.reason \o ":" \o Why(p, x))
     \* end to end: a change of the template (its canonical content differs from the one the claim was born under) is reported,
     \* once the hash controller has caught up, for a claim stamped with the current hash version
     \o Chk((ev /\ q /\ x.verAnn = st.cfg.cur /\ ~Get(st.tamp, n, FALSE) /\ TemplateChanged(n, p)) => y.drifted = "True",
            "G_C15_TemplateChangeReported", Stage(x))

HashChecks ==
    Chk(Ev.pool.exists => (Ev.pool.hashAnn = Ev.pool.specHash /\ Ev.pool.verAnn = st.cfg.cur), "G_C15_HashStamped",
        IF st.pre.pool.verAnn = st.cfg.cur THEN "same-version" ELSE "version-bump")

\* ghost updates at an Obs
NewBorn(n) ==
    IF n \notin DOMAIN st.born THEN Ev.pool.tmplCanon
    ELSE IF st.pend.ctrl = "nodepool.hash" /\ st.pend.err = "-" /\ st.pre.pool.verAnn # st.cfg.cur /\ HasClaim(st.pre, n)
            /\ ClaimIn(st.pre, n).verAnn # st.cfg.cur /\ ClaimIn(st.pre, n).drifted = "Absent"
         THEN Ev.pool.tmplCanon     \* version migration of an undrifted claim: it is re-born under the pool's current template
         ELSE st.born[n]
NewFresh(n) ==
    IF n \notin DOMAIN st.fresh THEN TRUE
    ELSE IF st.pend.ctrl = "nodeclaim.disruption" /\ st.pend.c = n /\ HasClaim(Ev, n) /\ ClaimIn(Ev, n).drifted = "True"
            /\ ~Quiescent(st.pre.pool, st.cfg.cur)
         THEN FALSE                 \* verdict reached against stale pool annotations: no longer a "fresh, undrifted" claim
         ELSE st.fresh[n]

TObs ==
    /\ Ev.e = "Obs"
    /\ viol' = viol
         \o (IF st.pend.ctrl = "nodeclaim.disruption" /\ st.pend.err = "-" THEN DriftChecks(st.pend.c) ELSE <<>>)
         \o (IF st.pend.ctrl = "nodepool.hash" /\ st.pend.err = "-" THEN HashChecks ELSE <<>>)
    /\ st' = [st EXCEPT !.obs = Ev, !.pend = NoPend,
                        !.born = [n \in Names(Ev) |-> NewBorn(n)],
                        !.fresh = [n \in Names(Ev) |-> NewFresh(n)],
                        !.tamp = [n \in Names(Ev) |-> Get(st.tamp, n, FALSE)]]

TBegin == Ev.e = "Begin" /\ st' = [st EXCEPT !.pre = st.obs, !.pend = NoPend] /\ UNCHANGED viol
TEnd ==
    /\ Ev.e = "End"
    /\ st' = [st EXCEPT !.pend = [ctrl |-> Ev.controller, c |-> Ev.object, err |-> Ev.err]]
    /\ UNCHANGED viol      \* a reconcile that failed or panicked is not judged (C15 says nothing about crashes)
TOther == Ev.e \in {"Api", "Env", "Prov", "Tick", "Skip", "Read", "Created", "Choice", "Restart", "Panic"} /\ UNCHANGED <<st, viol>>

TraceNext ==
    \/ /\ l <= Len(Trace) /\ l' = l + 1 /\ UNCHANGED done
       /\ \/ (Ev.e = "Cfg" /\ st' = St0(Ev) /\ ntr' = ntr + 1 /\ UNCHANGED viol)
          \/ ((TCall \/ TStep \/ TObs \/ TBegin \/ TEnd \/ TOther) /\ UNCHANGED ntr)
    \/ /\ l = Len(Trace) + 1 /\ ~done /\ done' = TRUE
       /\ JsonSerialize(IOEnv.OUT, [viol |-> viol, consumed |-> l - 1, traces |-> ntr])
       /\ UNCHANGED <<l, st, viol, ntr>>

TraceSpec == TraceInit /\ [][TraceNext]_tvars
=============================================================================
