\* thorough: two claims, limit 3, scaling, drift, delete, failing create/taint at API-call granularity
CONSTANTS N = 4  Pre = 2  Limit = 3  Replicas0 = 2  ScaleTo = {1, 2, 3}  Budget = 1  CodeMode = "fixed"  Grain = "gate"
          MaxCreateFail = 1  MaxTaintFail = 1  MaxDelete = 1  MaxDrift = 1  MaxScale = 1  MaxTimeout = 0  MaxResync = 0  MaxFlip = 99  Record = "last"  MaxLen = 0
SPECIFICATION Spec
VIEW view
INVARIANTS TypeOK Inv_C03_StaticCap Inv_C03_NoCrash Inv_C03_ReservedCovers Inv_C03_CountsMatchSets Inv_C03_PendingTracked Inv_C03_ReservedExact Inv_C03_NoGhost
