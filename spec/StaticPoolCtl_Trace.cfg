SPECIFICATION TraceSpec
