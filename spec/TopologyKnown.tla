--------------------------- MODULE TopologyKnown ---------------------------
(* The findings of KNOWN_FINDINGS.jsonl that are still `known` for C02: only these deviations may be granted when a guard      *)
(* failure is classified (TopologyGuards: SpreadCause, SigAff).  checks/C02.py REWRITES this module in its scratch copy of spec/ *)
(* from the current KNOWN_FINDINGS.jsonl on every run; the committed text is the default for manual runs.                       *)
KnownCauses == {"F-C02-1", "F-C02-3", "F-C02-4", "F-C02-5", "F-C02-6", "F-C02-7", "F-C02-10", "F-C02-11", "F-C02-12"}
=============================================================================
