\* spec mutation: the launch cache is not consulted -> a failed status patch leads to a second create
CONSTANTS MaxNow = 4  LT = 1  RT = 3  MaxFaults = 2  MaxLen = 40  StartupTaint = TRUE  ExtRes = TRUE  CacheMode = "none"
SPECIFICATION Spec
VIEW view
INVARIANTS TypeOK Inv_C14_CreateOnce
