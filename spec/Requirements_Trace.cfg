SPECIFICATION TraceSpec
