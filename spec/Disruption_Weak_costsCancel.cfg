\* spec mutation: emptiness sums the pods' eviction costs (a negative one cancels its neighbours) -> TLC must violate Inv_C07_NeverProtected
CONSTANTS MaxPre = 2  MaxChurn = 1  PairMode = "tgp"  Weak = "costsCancel"
SPECIFICATION Spec
INVARIANTS Inv_C07_NeverProtected
