---------------------------- MODULE DisruptionMem ----------------------------
(***************************************************************************)
(* In-memory protections over time (third part of C07): a node is          *)
(* protected while it is inside ANY nomination window or marked for        *)
(* deletion.  The protections are updated at different instants by the     *)
(* provisioner / other commands; the disruption decision falls somewhere   *)
(* between these updates and their expiries.                               *)
(*                                                                         *)
(*   Nominate    Cluster.NominateNodeForPod at `now` (window W seconds:    *)
(*               max(2 * BatchMaxDuration, 10 s) of the options in force)  *)
(*   Mark/Unmark Cluster.MarkForDeletion / UnmarkForDeletion               *)
(*   Tick(d)     the clock advances                                        *)
(*   Compute     the method computes candidates: X is kept iff eligible    *)
(*               now; eventual methods issue at once, graceful ones wait   *)
(*   WaitNominate / WaitMark   protection arriving during the wait (it is  *)
(*               stamped with the validation instant, as the driver's      *)
(*               `during` steps are)                                       *)
(*   Validate    now + VD: issue iff X was a candidate and is eligible now *)
(* One decision per behaviour (the decision ends it).  The rule of the     *)
(* controller is G_C07_Eligible on X's view with                           *)
(* nominatedUntil = NominatedUntil(all nominations, W); the invariant      *)
(* states protection directly.  WeakM variants must be rejected:           *)
(*   firstNominationWins  a nomination inside an open window is dropped    *)
(*   remarkIgnored        a mark after an unmark is dropped                *)
(*   waitIgnored          protections arriving during the wait are ignored *)
(***************************************************************************)
EXTENDS DisruptionGuards, Json

CONSTANTS W,        \* nomination window (seconds)
          U,        \* tick unit (seconds)
          VD,       \* validation delay (15)
          MaxNow, MaxLen, WeakM

VARIABLES m, now, noms, eff, marked, effMarked, everUnmarked, phase, cand, cmds, h, wk
vars == <<m, now, noms, eff, marked, effMarked, everUnmarked, phase, cand, cmds, h, wk>>
view == <<m, now, noms, eff, marked, effMarked, everUnmarked, phase, cand, cmds, wk>>
AllWeakM == {"firstNominationWins", "remarkIgnored", "waitIgnored"}

Pod == [key |-> "default/px", active |-> TRUE, dndKind |-> "none", dndSec |-> -1, started |-> 100, evictKind |-> TRUE,
        npdb |-> 0, pdbAllowed |-> 1, pdbWaived |-> FALSE, resched |-> TRUE, costPos |-> TRUE]
\* X as the method's best candidate; only the in-memory protections vary
View(mm, until, mk) ==
    [managed |-> TRUE, hasNode |-> TRUE, initialized |-> TRUE, deleting |-> FALSE, nodeDeleting |-> FALSE,
     marked |-> mk, nominatedUntil |-> until, nodeDnd |-> FALSE, poolLabel |-> TRUE, poolKnown |-> TRUE,
     static |-> (mm = "staticdrift"), caSet |-> TRUE, policy |-> "WhenEmptyOrUnderutilized",
     consolidatable |-> IF mm = "staticdrift" THEN "Absent" ELSE "True",
     drifted |-> IF Eventual(mm) THEN "True" ELSE "Absent", tgp |-> FALSE, buffer |-> 0, pods |-> <<Pod>>]

\* what the controller believes: `eff` = nominations it took into account, effMarked = mark it took into account
EligibleNow(t) == G_C07_Eligible(m, View(m, NominatedUntil(eff, W), effMarked), t)
\* the truth
ProtectedAt(t) == marked \/ NominatedUntil(noms, W) > t

Init == /\ wk \in (IF WeakM = "*" THEN AllWeakM ELSE {WeakM})
        /\ m \in Methods /\ now = 0 /\ noms = {} /\ eff = {} /\ marked = FALSE /\ effMarked = FALSE /\ everUnmarked = FALSE
        /\ phase = "env" /\ cand = FALSE /\ cmds = {} /\ h = <<>>

Hist(e) == h' = Append(h, e)
Env == phase = "env" /\ Len(h) < MaxLen

Nominate == /\ Env /\ noms' = noms \cup {now}
            /\ eff' = IF wk = "firstNominationWins" /\ NominatedUntil(eff, W) > now THEN eff ELSE eff \cup {now}
            /\ Hist([a |-> "Nominate", d |-> 0])
            /\ UNCHANGED <<m, now, marked, effMarked, everUnmarked, phase, cand, cmds, wk>>
Mark == /\ Env /\ ~marked /\ marked' = TRUE
        /\ effMarked' = IF wk = "remarkIgnored" /\ everUnmarked THEN effMarked ELSE TRUE
        /\ Hist([a |-> "Mark", d |-> 0])
        /\ UNCHANGED <<m, now, noms, eff, everUnmarked, phase, cand, cmds, wk>>
Unmark == /\ Env /\ marked /\ marked' = FALSE /\ effMarked' = FALSE /\ everUnmarked' = TRUE
          /\ Hist([a |-> "Unmark", d |-> 0])
          /\ UNCHANGED <<m, now, noms, eff, phase, cand, cmds, wk>>
Tick(d) == /\ Env /\ now + d <= MaxNow /\ now' = now + d /\ Hist([a |-> "Tick", d |-> d])
           /\ UNCHANGED <<m, noms, eff, marked, effMarked, everUnmarked, phase, cand, cmds, wk>>
TickU == Tick(U)
TickOne == Tick(1)

Issue(t) == cmds' = cmds \cup {[now |-> t, protected |-> ProtectedAt(t)]}
Compute == /\ phase = "env"
           /\ cand' = EligibleNow(now)
           /\ IF Eventual(m)
                THEN phase' = "done" /\ (IF EligibleNow(now) THEN Issue(now) ELSE UNCHANGED cmds)
                ELSE phase' = "waiting" /\ UNCHANGED cmds
           /\ Hist([a |-> "Decide", d |-> 0])
           /\ UNCHANGED <<m, now, noms, eff, marked, effMarked, everUnmarked, wk>>
\* protections that arrive while the command waits carry the validation instant
WaitNominate == /\ phase = "waiting" /\ (now + VD) \notin noms
                /\ noms' = noms \cup {now + VD}
                /\ eff' = IF wk = "waitIgnored" \/ (wk = "firstNominationWins" /\ NominatedUntil(eff, W) > now + VD)
                          THEN eff ELSE eff \cup {now + VD}
                /\ Hist([a |-> "WaitNominate", d |-> 0])
                /\ UNCHANGED <<m, now, marked, effMarked, everUnmarked, phase, cand, cmds, wk>>
WaitMark == /\ phase = "waiting" /\ ~marked /\ marked' = TRUE
            /\ effMarked' = IF wk = "waitIgnored" \/ (wk = "remarkIgnored" /\ everUnmarked) THEN effMarked ELSE TRUE
            /\ Hist([a |-> "WaitMark", d |-> 0])
            /\ UNCHANGED <<m, now, noms, eff, everUnmarked, phase, cand, cmds, wk>>
Validate == /\ phase = "waiting" /\ now' = now + VD /\ phase' = "done"
            /\ IF cand /\ G_C07_Eligible(m, View(m, NominatedUntil(eff, W), effMarked), now + VD)
                 THEN cmds' = cmds \cup {[now |-> now + VD, protected |-> marked \/ NominatedUntil(noms, W) > now + VD]}
                 ELSE UNCHANGED cmds
            /\ UNCHANGED <<m, noms, eff, marked, effMarked, everUnmarked, cand, h, wk>>

Next == Nominate \/ Mark \/ Unmark \/ TickU \/ TickOne \/ Compute \/ WaitNominate \/ WaitMark \/ Validate
Spec == Init /\ [][Next]_vars

Inv_C07_MemNeverProtected == \A c \in cmds : ~c.protected
\* un-weakened, the controller's belief is the truth
Inv_C07_MemBelief == wk # "" \/ (NominatedUntil(eff, W) = NominatedUntil(noms, W) /\ effMarked = marked)
TypeOK == phase \in {"env", "waiting", "done"} /\ now \in 0..(MaxNow + VD)
WeakDetect == Inv_C07_MemNeverProtected \/ PrintT(<<"REJ", wk>>)

GenPrint == phase # "done" \/ PrintT(<<"BEH", ToJson([m |-> m, w |-> W, steps |-> h, issued |-> cmds # {}])>>)
=============================================================================
