\* the finalize path as the code has it (status.providerID only, launch cache not consulted): violates NoLeak
\* (known finding F-C09-1: provider Create ok, status patch fails, NodeClaim deleted before the next reconcile)
CONSTANTS Pods = {"p1"}  Tol = {}  Late = {}
  Starts = {"unpersisted"}
  VaOwners = {"-"}  TGPs <- BoolF  Instants <- BoolF
  MaxFaults = 0  MaxRestarts = 0  MaxLen = 1000  MaxSpont = 99
  Atomic = TRUE  FinalizeMode = "code"  Weak = ""
SPECIFICATION Spec
VIEW view
INVARIANTS TypeOK Inv_C09_NoLeak
