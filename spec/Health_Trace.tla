---------------------------- MODULE Health_Trace ----------------------------
(***************************************************************************)
(* Trace validation for C20: replays a recorded execution of the real      *)
(* nodepoolhealth.State / lifecycle + registrationhealth controllers       *)
(* through the actions of Health.tla and evaluates the C20 guards on every *)
(* step.  Guard failures are accumulated in `viol` (never fatal); a line   *)
(* that no action can consume means the log is malformed (exit 2).         *)
(***************************************************************************)
EXTENDS Health, IOUtils

VARIABLES l, viol, ntr, done
tvars == <<vars, l, viol, ntr, done>>

Trace == ndJsonDeserialize(IOEnv.TRACE)

TraceInit == Init /\ l = 1 /\ viol = <<>> /\ ntr = 0 /\ done = FALSE

Ev == Trace[l]
V(guard, sig) == [line |-> l, guard |-> guard, sig |-> sig]
Chk(ok, guard, sig) == IF ok THEN <<>> ELSE <<V(guard, sig)>>

\* a Cfg line starts a new trace: back to the initial state
TCfg == /\ Ev.e = "Cfg"
        /\ w' = <<>> /\ buf' = <<>> /\ head' = 0 /\ cond' = "Unknown" /\ last' = "Init" /\ h' = <<>>
        /\ ntr' = ntr + 1 /\ UNCHANGED viol

\* what-if results the real code returned *before* the operation, and Status() after it
Wrapped == Len(w) = Size
DryChecks ==
    Chk(Ev.dryT = WhatIf(w, TRUE) /\ Ev.dryF = WhatIf(w, FALSE), "G_C20_DryRunAgrees",
        IF Wrapped THEN "window-wrapped" ELSE "window-not-full")
StatusCheck == Chk(Ev.status = Status(w'), "G_C20_StatusOfWindow", Ev.op)
\* end-to-end traces also carry the NodePool condition after the step ("-" at unit level)
CondCheck(guard) == Chk(Ev.cond = "-" \/ Ev.cond = cond', guard,
                        IF Wrapped THEN "window-wrapped" ELSE "window-not-full")

TOp(name, A, guard) ==
    /\ Ev.e = "Op" /\ Ev.op = name /\ A
    /\ viol' = viol \o DryChecks \o StatusCheck \o CondCheck(guard)
    /\ UNCHANGED ntr

TraceNext ==
    \/ /\ l <= Len(Trace) /\ l' = l + 1 /\ UNCHANGED done
       /\ \/ TCfg
          \/ TOp("S", Success, "G_C20_SuccessSetsTrueIff")
          \/ TOp("F", Failure, "G_C20_FailureSetsFalseIff")
          \/ TOp("Reset", Reset, "G_C20_ResetUnknown")
          \/ TOp("ResetNC", ResetNC, "G_C20_ResetUnknown")
          \/ TOp("Restart", Restart, "G_C20_RestartKeepsCond")
          \/ TOp("HydrateT", Hydrate /\ cond = "True", "G_C20_HydrateKeepsCond")
          \/ TOp("HydrateF", Hydrate /\ cond = "False", "G_C20_HydrateKeepsCond")
    \/ /\ l = Len(Trace) + 1 /\ ~done /\ done' = TRUE
       /\ JsonSerialize(IOEnv.OUT, [viol |-> viol, consumed |-> l - 1, traces |-> ntr])
       /\ UNCHANGED <<vars, l, viol, ntr>>

TraceSpec == TraceInit /\ [][TraceNext]_tvars
=============================================================================
