\* spec mutation = the pinned tree (CodeMode = code): TLC must reject it; the printed history is replayed on the real
\* controllers.  ReleaseNodeCount dereferences the pool entry that Cleanup collected.
CONSTANTS N = 3  Pre = 1  Limit = 2  Replicas0 = 1  ScaleTo = {1}  Budget = 1  CodeMode = "code"  Grain = "gate"
          MaxCreateFail = 1  MaxTaintFail = 0  MaxDelete = 1  MaxDrift = 0  MaxScale = 0  MaxTimeout = 0  MaxResync = 0  MaxFlip = 99  Record = "all"  MaxLen = 40
SPECIFICATION Spec
VIEW view
INVARIANTS Cex_NoCrash
