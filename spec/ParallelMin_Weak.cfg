\* spec mutation: without the "i >= idx" test the last finishing worker wins; TLC must violate Inv_SelectionIsLowest
CONSTANTS Workers = {1, 2, 3}  NPieces = 4  CheckLowerOnly = FALSE
SPECIFICATION Spec
INVARIANTS Inv_SelectionIsLowest
