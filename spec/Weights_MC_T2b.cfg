\* thorough 2b: the BestEffort minValues policy on the features it concerns, both catalogs
CONSTANTS WeightVecs = {6, 12}  FeatDiag = TRUE  NPods = 2  PodArchs = {1, 2}
CONSTANTS Feats = {"plain", "min2", "archMin2"}
CONSTANTS Catalogs = {1, 2}  DaemonSets = {2}  MaxTypesSet = {1, 2}  Policies = {"BestEffort"}  Weak = ""
SPECIFICATION Spec
INVARIANTS Inv_C19_HighestWeightFeasible Inv_C19_CheapestPrefix Inv_C13_TypesSubsetMinValues Inv_C13_Requests Inv_C13_Template
