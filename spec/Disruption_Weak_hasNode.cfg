\* spec mutation: rule "hasNode" weakened -> TLC must violate Inv_C07_NeverProtected
CONSTANTS MaxPre = 2  MaxChurn = 1  PairMode = "tgp"  Weak = "hasNode"
SPECIFICATION Spec
INVARIANTS Inv_C07_NeverProtected
