\* spec mutation: rule "policy" weakened -> TLC must violate Inv_C07_NeverProtected
CONSTANTS MaxPre = 2  MaxChurn = 1  PairMode = "tgp"  Weak = "policy"
SPECIFICATION Spec
INVARIANTS Inv_C07_NeverProtected
