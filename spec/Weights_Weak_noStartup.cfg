\* spec mutation: mechanism rule "noStartup" weakened -> TLC must violate an invariant (the oracle of WeightsGuards.tla)
CONSTANTS WeightVecs = {6}  FeatDiag = TRUE  NPods = 2  PodArchs = {1, 2, 6, 8, 9, 10}
CONSTANTS Feats = {"plain", "limit8", "limit16", "min2", "archMin2", "teamX", "notReady", "startup"}
CONSTANTS Catalogs = {2}  DaemonSets = {2, 3}  MaxTypesSet = {1, 2}  Policies = {"Strict"}  Weak = "noStartup"
SPECIFICATION Spec
INVARIANTS Inv_C19_HighestWeightFeasible Inv_C19_CheapestPrefix Inv_C13_TypesSubsetMinValues Inv_C13_Requests Inv_C13_Template
