\* spec mutation (WindowEnd = "startexcl"): TLC must reject it
CONSTANTS Rounding = "up"  WindowEnd = "startexcl"  EmptyReasons = "all"
CONSTANTS Horizon <- MC_Horizon  Schedules <- MC_Schedules  Durations <- MC_Durations
          Percents <- MC_Percents  Counts <- MC_Counts  Sizes <- MC_Sizes  Reasons <- MC_Reasons
          ListAlphabet <- MC_ListAlphabet  ListInstants <- MC_ListInstants
          BadCrons <- MC_BadCrons  BadNodes <- MC_BadNodes  NoHitCrons <- MC_NoHitCrons  PctSizes <- MC_PctSizes
SPECIFICATION CaseSpec
INVARIANTS TypeOK Inv_C05_UpperBound Inv_C05_Attained Inv_C05_Monotone Inv_C05_OrderFree Inv_C05_Ceil
           Inv_C05_HalfOpen Inv_C05_EmptyListsNone Inv_C05_MalformedZero
