\* scenario generation: every scenario of the scope (initial states only), printed as JSON
CONSTANTS WeightVecs = {1, 4, 6, 7, 9, 12}  FeatDiag = TRUE  NPods = 2  PodArchs = {1, 2, 3, 6, 7}
CONSTANTS Feats = {"plain", "taint", "prefer", "limit", "limit16", "zoneA", "teamX", "min2", "archMin2", "notReady", "startup"}
CONSTANTS Catalogs = {2}  DaemonSets = {2}  MaxTypesSet = {2}  Policies = {"Strict"}  Weak = ""
SPECIFICATION GenSpec
INVARIANTS GenPrint
