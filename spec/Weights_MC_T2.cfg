\* thorough 2: every feature (one special pool) x all weight vectors x six pod archetypes x both policies x MaxInstanceTypes 1 / 2
CONSTANTS WeightVecs = {1, 2, 3, 4, 5, 6, 7, 8, 9, 10, 11, 12}  FeatDiag = TRUE  NPods = 2  PodArchs = {1, 2, 3, 5, 6, 7, 10}
CONSTANTS Feats = {"plain", "taint", "prefer", "limit", "limit16", "zoneA", "teamX", "min2", "archMin2", "notReady", "startup"}
CONSTANTS Catalogs = {2}  DaemonSets = {2}  MaxTypesSet = {1, 2}  Policies = {"Strict", "BestEffort"}  Weak = ""
SPECIFICATION Spec
INVARIANTS Inv_C19_HighestWeightFeasible Inv_C19_CheapestPrefix Inv_C13_TypesSubsetMinValues Inv_C13_Requests Inv_C13_Template
