\* thorough 2: every feature (one special pool) x four weight vectors x five pod archetypes (incl. preference and volume alternatives) x MaxInstanceTypes 1 / 2
CONSTANTS WeightVecs = {1, 6, 7, 12}  FeatDiag = TRUE  NPods = 2  PodArchs = {1, 2, 3, 7, 10}
CONSTANTS Feats = {"plain", "taint", "prefer", "limit", "limit16", "zoneA", "teamX", "min2", "archMin2", "notReady", "startup"}
CONSTANTS Catalogs = {2}  DaemonSets = {2}  MaxTypesSet = {1, 2}  Policies = {"Strict"}  Weak = ""
SPECIFICATION Spec
INVARIANTS Inv_C19_HighestWeightFeasible Inv_C19_CheapestPrefix Inv_C13_TypesSubsetMinValues Inv_C13_Requests Inv_C13_Template
