\* spec mutation noUnmark under fairness: the liveness property must be violated
CONSTANTS Nodes = {"n1", "n2"}  Cmds = {"A"}  MaxRepl = 1  T = 1  MaxNow = 2  MaxFaults = 1  MaxRestarts = 1  MaxCandVanish = 1
          DelFaults = TRUE  CodeMode = "code"  Weak = "noUnmark"  Serial = FALSE  Gen = FALSE  MaxLen = 0
SPECIFICATION FairSpec
INVARIANTS TypeOK
PROPERTIES Live_C08_RolledBack_T
