--------------------------- MODULE Lifecycle_Trace ---------------------------
(***************************************************************************)
(* Trace validation for C14 / C16-liveness: every API and provider event   *)
(* recorded from the real nodeclaim lifecycle controller is checked against *)
(* the guards of Lifecycle.tla.  Observed state (the NodeClaim and Node as  *)
(* stored after each write, the provider's instance table) is taken from    *)
(* the log; ghost state (pids the provider really created, successful       *)
(* creates since the last restart, capacity error / delete seen in the      *)
(* current reconcile) is computed here.                                     *)
(***************************************************************************)
EXTENDS LifecycleGuards, Json, IOUtils

VARIABLES l, st, viol, ntr, done
tvars == <<l, st, viol, ntr, done>>

Trace == ndJsonDeserialize(IOEnv.TRACE)
Ev == Trace[l]
Absent == [exists |-> FALSE]
Chk(ok, guard, sig) == IF ok THEN <<>> ELSE <<[line |-> l, guard |-> guard, sig |-> sig]>>

St0(cfg) == [cfg |-> cfg, claim |-> Absent, node |-> Absent, createdPids |-> {}, createOK |-> 0,
             ice |-> FALSE, del |-> FALSE, stale |-> 0, now |-> 0]

TraceInit == l = 1 /\ st = St0(Absent) /\ viol = <<>> /\ ntr = 0 /\ done = FALSE

Fld(c, f) == IF c.exists THEN c[f] ELSE "Absent"
Newly(pre, post, f) == post.exists /\ post[f] = "True" /\ Fld(pre, f) # "True"
StaleSig == IF st.stale = 1 THEN "stale-copy" ELSE "fresh-copy"
StartupKeys == IF st.cfg.startupTaint THEN {st.cfg.startupKey} ELSE {}
ExtResNames == IF st.cfg.extRes THEN {st.cfg.extResName} ELSE {}

\* ---- a successful write of the NodeClaim: evaluate the C14 guards on the transition pre -> post
ClaimWriteChecks(pre, post) ==
    (IF Newly(pre, post, "launched")
       THEN Chk(G_C14_Launched(post, st.createdPids), "G_C14_Launched", StaleSig) ELSE <<>>)
    \o (IF Newly(pre, post, "registered")
       THEN Chk(G_C14_Registered(post, st.node), "G_C14_Registered", StaleSig) ELSE <<>>)
    \o (IF Newly(pre, post, "initialized")
       THEN Chk(G_C14_Initialized(post, st.node, StartupKeys, ExtResNames), "G_C14_Initialized", StaleSig) ELSE <<>>)
    \o (IF pre.exists /\ post.exists /\ st.stale = 0
       THEN Chk(Monotone(pre, post), "Inv_C14_Monotone", Ev.actor) ELSE <<>>)

IsClaim == Ev.kind = "NodeClaim" /\ Ev.name = st.cfg.claim
IsLifecycle == Ev.actor = "nodeclaim.lifecycle"

TApi ==
    /\ Ev.e = "Api"
    /\ LET ok == Ev.err = "-"
           post == IF Ev.gone THEN Absent ELSE Ev.post
           delByLc == IsClaim /\ Ev.verb = "delete" /\ IsLifecycle
       IN /\ st' = [st EXCEPT !.claim = IF IsClaim /\ ok THEN post ELSE @,
                              !.node = IF Ev.kind = "Node" /\ ok THEN post ELSE @,
                              !.del = @ \/ delByLc,
                              !.now = Ev.t]
          /\ viol' = viol
               \o (IF IsClaim /\ ok /\ post.exists THEN ClaimWriteChecks(st.claim, post) ELSE <<>>)
               \o (IF delByLc /\ ~st.ice /\ st.claim.exists /\ ~st.claim.deleting
                   THEN Chk(G_C16_Liveness(st.claim, Ev.t, st.cfg.launchTimeout, st.cfg.regTimeout),
                            "G_C16_Liveness", IF st.claim.launched = "True" THEN "registration" ELSE "launch")
                   ELSE <<>>)

TEnv ==
    /\ Ev.e = "Env"
    /\ st' = [st EXCEPT !.claim = IF IsClaim THEN Ev.post ELSE @,
                        !.node = IF Ev.kind = "Node" THEN Ev.post ELSE @, !.now = Ev.t]
    /\ UNCHANGED viol

TProv ==
    /\ Ev.e = "Prov"
    /\ LET isCreate == Ev.call = "Create"
           okCreate == isCreate /\ Ev.err = "-"
       IN /\ st' = [st EXCEPT !.createdPids = IF okCreate THEN @ \cup {Ev.result} ELSE @,
                              !.createOK = IF okCreate THEN @ + 1 ELSE @,
                              !.ice = @ \/ (isCreate /\ Ev.err \in {"ICE", "NCNR"}),
                              !.now = Ev.t]
          /\ viol' = viol
               \o (IF isCreate THEN Chk(st.claim.exists /\ st.claim.finalizer, "G_C14_FinalizerBeforeCreate", StaleSig) ELSE <<>>)
               \o (IF okCreate THEN Chk(st.createOK = 0, "G_C14_CreateOnce", StaleSig) ELSE <<>>)

TBegin == /\ Ev.e = "Begin"
          /\ st' = [st EXCEPT !.ice = FALSE, !.del = FALSE,
                              !.stale = IF Ev.controller = "nodeclaim.lifecycle" THEN Ev.stale ELSE 0]
          /\ UNCHANGED viol
\* capacity errors delete the NodeClaim (in the same reconcile) instead of retrying
TEnd == /\ Ev.e = "End"
        /\ st' = [st EXCEPT !.ice = FALSE, !.del = FALSE, !.stale = 0]
        /\ viol' = viol \o Chk(st.ice => st.del, "G_C14_IceDeletes", "no-delete-after-capacity-error")
                        \o Chk(~Ev.panic, "Inv_C14_NoPanic", "panic")
TRestart == Ev.e = "Restart" /\ st' = [st EXCEPT !.createOK = 0] /\ UNCHANGED viol
TOther == Ev.e \in {"Tick", "Mem", "Skip", "Read"} /\ UNCHANGED <<st, viol>>

TraceNext ==
    \/ /\ l <= Len(Trace) /\ l' = l + 1 /\ UNCHANGED done
       /\ \/ (Ev.e = "Cfg" /\ st' = St0(Ev) /\ ntr' = ntr + 1 /\ UNCHANGED viol)
          \/ ((TApi \/ TEnv \/ TProv \/ TBegin \/ TEnd \/ TRestart \/ TOther) /\ UNCHANGED ntr)
    \/ /\ l = Len(Trace) + 1 /\ ~done /\ done' = TRUE
       /\ JsonSerialize(IOEnv.OUT, [viol |-> viol, consumed |-> l - 1, traces |-> ntr])
       /\ UNCHANGED <<l, st, viol, ntr>>

TraceSpec == TraceInit /\ [][TraceNext]_tvars
=============================================================================
