\* scenario generation: every scenario of the scope (initial states only), printed as JSON
CONSTANTS NPods = 3  Archs = {1,2,3,4,5,6,7,9,11,18}  Layouts = {0,1,2,3}  MaxClaims = 2
CONSTANTS W_AllDomains = TRUE  W_Inverse = TRUE  W_Certain = TRUE  W_Bootstrap = TRUE  W_Slack = 0  W_Exclude = TRUE  W_MatchKeys = TRUE  W_MinDomains = TRUE  W_Policies = TRUE  W_Guard = TRUE
SPECIFICATION GenSpec
INVARIANTS GenPrint
