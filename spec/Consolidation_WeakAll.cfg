\* every price-guard weakening in one TLC run (small price grid, one removed node; the same-type rule needs two: WeakAllMulti): WeakDetect prints <<"REJ", rule>> for each weakened rule
\* under which an invariant breaks; checks/C06.py requires every rule to be printed (quick tier)
CONSTANTS NTypes = 2  Prices = {1, 2}  ZMods = {"dear"}  MaxCands = 1  MinS2S = 2  Focus = "price"  UnavCTs = {}  Weak = "*price"  GenMod = 1  GenRes = 0
SPECIFICATION Spec
INVARIANTS WeakDetect
