\* the pinned tree's semantics: capacity-override offerings are charged with the base capacity (must be rejected: F-C03-7)
CONSTANTS Catalogs = {3}  Limits = {5}  Daemons = {1}  Batches = {6}  Laters = {0}
CONSTANTS MaxRounds = 3  MaxClaims = 3  MaxSteps = 5  AllowForeign = TRUE  Resyncs = {FALSE}  EphForms = {2}  StForms = {2}
CONSTANTS W_NoSyncGate = FALSE  W_SubMin = FALSE  W_SubDominating = FALSE  W_StartupBlocks = FALSE  W_CountMarked = FALSE  W_ZeroSkips = FALSE  W_NoZeroFallback = FALSE  W_DaemonTwice = FALSE  W_SyncBeforeBatch = FALSE  C_NodesPerPass = FALSE  C_OverrideBase = TRUE
SPECIFICATION Spec
VIEW view
INVARIANTS Cex_C03_PoolCapacity
