\* spec mutation: ephemeral taints are ignored on initialized managed nodes too; TLC must violate Inv_C01_NoOvercommit
CONSTANTS NPods = 1  PodArchs = {1,13}  Catalogs = {1}  PoolSets = {1}  Existings = {5}  Daemons = {0}
CONSTANTS W_Avail = TRUE  W_Overhead = TRUE  W_Ports = TRUE  W_KeepTerm = TRUE  W_Override = TRUE  W_Refilter = TRUE  W_InitTaints = FALSE
SPECIFICATION Spec
INVARIANTS Inv_C01_NoOvercommit Inv_C01_EveryLaunchOptionHostsItsPods Inv_C01_RequiredTermNeverDropped
