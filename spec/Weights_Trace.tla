---------------------------- MODULE Weights_Trace ----------------------------
(***************************************************************************)
(* Trace validation of the scheduling driver (harness/drivers/sched) for    *)
(* C19 and C13 (b)-(d).  One trace = Cfg (scenario) .. End.                 *)
(*                                                                         *)
(*   Sched open   (hook H1)  the pod opens a new NodeClaim in a pool:       *)
(*                           G_C19_HighestWeightFeasible in the state       *)
(*                           BEFORE the open; then the pool is charged      *)
(*   Sched final  (hook H1)  the scheduler's option list of a NodeClaim     *)
(*                           after FinalizeScheduling (before truncation)   *)
(*   Results                 per NodeClaim: G_C19_CheapestPrefix            *)
(*   Created                 the stored NodeClaim object: C13 (b)-(d) and   *)
(*                           G_C19_CheapestPrefix on what was really sent   *)
(*                                                                         *)
(* Ghost state (computed here, not logged): the remaining limits of every   *)
(* pool.  The limits Karpenter itself believes to have left (limitsLeft of  *)
(* the open event) are only compared for an Obs_ note - that figure is      *)
(* Karpenter's, the verdict uses the spec's own account.  Fid_* entries are   *)
(* the FIDELITY comparison of FeasibleFresh with the real code in both      *)
(* directions (never a verdict; the check reports and counts them).         *)
(***************************************************************************)
EXTENDS WeightsGuards, Json, IOUtils

VARIABLES l, cfg, st, viol, ntr, cases, done
tvars == <<l, cfg, st, viol, ntr, cases, done>>

Trace == ndJsonDeserialize(IOEnv.TRACE)
Ev == Trace[l]
V(guard, sig) == [line |-> l, guard |-> guard, sig |-> sig]
Chk(ok, guard, sig) == IF ok THEN <<>> ELSE <<V(guard, sig)>>
RECURSIVE Flat(_)
Flat(ss) == IF ss = <<>> THEN <<>> ELSE Head(ss) \o Flat(Tail(ss))

\* st.left: pool name -> remaining limits; st.finals: <<[opener, its]>>; st.claims: Results.claims; st.n*: counters of the trace
St0 == [left |-> <<>>, finals |-> <<>>, claims |-> <<>>, opens |-> 0, guarded |-> 0, fallbacks |-> 0, prefixes |-> 0, truncated |-> 0,
        created |-> 0, static |-> 0, failed |-> 0, hook |-> FALSE]
TraceInit == l = 1 /\ cfg = <<>> /\ st = St0 /\ viol = <<>> /\ ntr = 0 /\ cases = <<>> /\ done = FALSE

PoolNames == {cfg'.pools[i].name : i \in DOMAIN cfg'.pools}
TCfg == /\ Ev.e = "Cfg" /\ cfg' = Ev /\ ntr' = ntr + 1
        /\ st' = [St0 EXCEPT !.left = [n \in PoolNames |-> InitLeft(cfg', PoolByName(cfg', n))]]
        /\ UNCHANGED <<viol, cases>>

\* ---- Sched open
Exact(e) == ExactScenario(cfg) /\ ExactPod(cfg, e)
OpenChecks(e) ==
    IF ~Exact(e) THEN <<>>
    ELSE Chk(G_C19_HighestWeightFeasible(cfg, e, Ev.pool, st.left), "G_C19_HighestWeightFeasible", SigHighest(cfg, e, Ev.pool, st.left))
         \* observation: a heavier usable pool could host the pod the KUBERNETES way (any required term, preferences and PreferNoSchedule
         \* not binding) - Karpenter's documented reading (preferences first treated as required) sent it to a lighter pool
         \o (IF KnownPool(cfg, Ev.pool)
             THEN Chk(~\E q \in Range(cfg.pools) : q.weight > PoolByName(cfg, Ev.pool).weight /\ FeasibleRelaxed(cfg, e, q, st.left[q.name]),
                      "Obs_C19_SoftConstraintBeatsWeight", "heavier-pool-feasible-the-kubernetes-way")
             ELSE <<>>)
         \o (IF KnownPool(cfg, Ev.pool)
             THEN Chk(FeasibleFresh(cfg, e, PoolByName(cfg, Ev.pool), st.left[Ev.pool]), "Fid_C19_Chosen",
                      IF WithinLimits(PoolByName(cfg, Ev.pool), [cpu |-> 0, mem |-> 0], st.left[Ev.pool]) THEN "chosen-pool-infeasible-for-spec"
                      ELSE "chosen-pool-node-limit-exhausted-for-spec")
             ELSE <<>>)
\* the limits Karpenter believes to have left after the open (cpu / mem only: it does not charge nodes inside a pass)
LeftDrift(pn, after) ==
    LET q == PoolByName(cfg, pn) IN
    /\ (q.limits.cpu > 0 /\ "cpu" \in DOMAIN Ev.limitsLeft => Ev.limitsLeft["cpu"] = after.cpu)
    /\ (q.limits.mem > 0 /\ "mem" \in DOMAIN Ev.limitsLeft => Ev.limitsLeft["mem"] = after.mem)
TOpen ==
    /\ Ev.e = "Sched" /\ Ev.kind = "open"
    /\ LET e == Ev.eff[1]
           known == KnownPool(cfg, Ev.pool)
           after == IF known THEN ChargeOpen(cfg, st.left[Ev.pool], Ev.its) ELSE <<>>
           higher == known /\ \E q \in Range(cfg.pools) : q.weight > PoolByName(cfg, Ev.pool).weight
           fallback == known /\ \E q \in Range(cfg.pools) : q.weight > PoolByName(cfg, Ev.pool).weight /\ PoolUsable(q)
       IN /\ viol' = viol \o OpenChecks(e) \o (IF known THEN Chk(LeftDrift(Ev.pool, after), "Obs_C19_LimitsLeft", "code-and-spec-disagree-on-limits-left") ELSE <<>>)
          /\ st' = [st EXCEPT !.left = IF known THEN [st.left EXCEPT ![Ev.pool] = after] ELSE st.left,
                              !.opens = @ + 1, !.hook = TRUE,
                              !.guarded = @ + (IF Exact(e) /\ higher THEN 1 ELSE 0),
                              !.fallbacks = @ + (IF Exact(e) /\ fallback THEN 1 ELSE 0)]
    /\ UNCHANGED <<cfg, ntr, cases>>

\* ---- Sched requeue: the pod found no home in this round; fidelity: no usable pool can host it even fully relaxed
TRequeue ==
    /\ Ev.e = "Sched" /\ Ev.kind = "requeue"
    /\ viol' = viol \o (IF Ev.eff = <<>> \/ Ev.err # "unschedulable" THEN <<>>
                        ELSE LET e == Ev.eff[1] IN
                             IF ~Exact(e) THEN <<>>
                             ELSE Chk(~\E q \in Range(cfg.pools) : FeasibleLadder(cfg, e, q, st.left[q.name]), "Fid_C19_Unplaced", "spec-finds-a-feasible-pool")
                                  \o Chk((\E q \in Range(cfg.pools) : FeasibleRelaxed(cfg, e, q, st.left[q.name]))
                                           => \E q \in Range(cfg.pools) : FeasibleLadder(cfg, e, q, st.left[q.name]),
                                         "Obs_C19_Unplaced", "relaxation-ladder-skips-the-feasible-combination"))
    /\ UNCHANGED <<cfg, st, ntr, cases>>

\* ---- Sched fail: the pod ends the pass without a home (every pool was tried in the final state: the queue retries a pod
\* whenever another one was placed after its last attempt).  First sentence of C19: a pod that needs a new node IS assigned
\* to the highest-weight ready pool able to host it - so no usable pool may be able to host it now.  "Able" is judged by
\* the forms Karpenter's documented relaxation ladder tries (FeasibleLadder, weaker than the Kubernetes reading).
TFail ==
    /\ Ev.e = "Sched" /\ Ev.kind = "fail"
    \* (not judged when the scenario lets the Solve deadline expire in the middle of the batch: such a pod simply ran out of time)
    /\ viol' = viol \o (IF Ev.eff = <<>> \/ Ev.err # "unschedulable" \/ cfg.options.deadlineAfter > 0 THEN <<>>
                        ELSE LET e == Ev.eff[1] IN
                             IF ~Exact(e) THEN <<>>
                             ELSE Chk(~\E q \in Range(cfg.pools) : FeasibleLadder(cfg, e, q, st.left[q.name]),
                                      "G_C19_HighestWeightFeasible", "unplaced-though-a-pool-can-host-it"))
    /\ st' = [st EXCEPT !.failed = @ + (IF Ev.eff # <<>> /\ Ev.err = "unschedulable" /\ cfg.options.deadlineAfter = 0 /\ Exact(Ev.eff[1]) THEN 1 ELSE 0)]
    /\ UNCHANGED <<cfg, ntr, cases>>

\* ---- Sched final: the option list of a NodeClaim when scheduling is over
TFinal ==
    /\ Ev.e = "Sched" /\ Ev.kind = "final"
    /\ st' = [st EXCEPT !.finals = Append(@, [opener |-> Ev.opener, its |-> Ev.its]), !.hook = TRUE]
    /\ UNCHANGED <<cfg, viol, ntr, cases>>

TSchedOther == Ev.e = "Sched" /\ Ev.kind \notin {"open", "requeue", "final", "fail"} /\ UNCHANGED <<cfg, st, viol, ntr, cases>>

\* the scheduler's options of claim c: the final event of its opener (without hook H1: what Results still shows)
HasFinal(c) == c.pods # <<>> /\ \E i \in DOMAIN st.finals : st.finals[i].opener = c.pods[1]
OptionsOf(c) == IF HasFinal(c) THEN st.finals[CHOOSE i \in DOMAIN st.finals : st.finals[i].opener = c.pods[1]].its ELSE c.its

\* ---- Results
TResults ==
    /\ Ev.e = "Results"
    /\ viol' = viol \o Flat([i \in DOMAIN Ev.claims |->
                   LET c == Ev.claims[i] IN
                   Chk(G_C19_CheapestPrefix(cfg, c, OptionsOf(c), c.its), "G_C19_CheapestPrefix", SigPrefix(cfg, c, OptionsOf(c), c.its))])
    /\ st' = [st EXCEPT !.claims = Ev.claims, !.prefixes = @ + Len(Ev.claims),
                        !.truncated = @ + Cardinality({i \in DOMAIN Ev.claims : Len(OptionsOf(Ev.claims[i])) > Len(Ev.claims[i].its)})]
    /\ UNCHANGED <<cfg, ntr, cases>>

\* ---- Created: the stored NodeClaim of Results.claims[idx + 1]
TCreated ==
    /\ Ev.e = "Created"
    /\ LET known == Ev.idx + 1 \in DOMAIN st.claims /\ KnownPool(cfg, st.claims[Ev.idx + 1].pool) IN
       viol' = viol \o
          (IF ~known THEN <<V("Drift_C13_Created", "no-such-claim")>>
           ELSE LET c == st.claims[Ev.idx + 1]
                    pool == PoolByName(cfg, c.pool)
                    opts == OptionsOf(c)
                IN Chk(G_C13_TypesSubsetMinValues(cfg, pool, opts, Ev), "G_C13_TypesSubsetMinValues", SigTypes(cfg, pool, opts, Ev))
                   \o Chk(G_C13_Requests(cfg, pool, c, opts, Ev), "G_C13_Requests", SigRequests(cfg, pool, c, opts, Ev))
                   \o Chk(G_C13_Template(pool, Ev), "G_C13_Template", SigTemplate(pool, Ev))
                   \o Chk(G_C19_CheapestPrefix(cfg, c, opts, CreatedIts(Ev)), "G_C19_CheapestPrefix", SigPrefix(cfg, c, opts, CreatedIts(Ev)) \o ":created"))
    /\ st' = [st EXCEPT !.created = @ + 1]
    /\ UNCHANGED <<cfg, ntr, cases>>

\* ---- StaticCreated: a NodeClaim the real static provisioning controller stored for a static pool (spec.replicas): (d) on EVERY one
TStaticCreated ==
    /\ Ev.e = "StaticCreated"
    /\ viol' = viol \o (IF ~KnownPool(cfg, Ev.pool) THEN <<V("G_C13_Template", "labels")>>
                        ELSE Chk(G_C13_Template(PoolByName(cfg, Ev.pool), Ev), "G_C13_Template", SigTemplate(PoolByName(cfg, Ev.pool), Ev) \o ":static"))
    /\ st' = [st EXCEPT !.created = @ + 1, !.static = @ + 1]
    /\ UNCHANGED <<cfg, ntr, cases>>
\* ---- StaticPool: building NodeClaim templates must leave the NodePool object (the one handed to the reconciler and the stored one) alone
TStaticPool ==
    /\ Ev.e = "StaticPool"
    /\ viol' = viol \o Chk(~Ev.objectChanged /\ ~Ev.storedChanged, "G_C13_Template", "nodepool-object-changed-by-template-building")
    /\ UNCHANGED <<cfg, st, ntr, cases>>

\* ---- End: close the trace's case record
TEnd ==
    /\ Ev.e = "End"
    /\ cases' = Append(cases, [name |-> cfg.name, opens |-> st.opens, guarded |-> st.guarded, fallbacks |-> st.fallbacks, prefixes |-> st.prefixes,
                               truncated |-> st.truncated, created |-> st.created, static |-> st.static, failed |-> st.failed, hook |-> st.hook])
    /\ UNCHANGED <<cfg, st, viol, ntr>>

Passive == {"Hydrate", "Api", "Read", "Prov", "Tick", "CreateErr", "Panic", "Env"}
TPassive == Ev.e \in Passive /\ UNCHANGED <<cfg, st, viol, ntr, cases>>

TraceNext ==
    \/ /\ l <= Len(Trace) /\ l' = l + 1 /\ UNCHANGED done
       /\ (TCfg \/ TOpen \/ TRequeue \/ TFail \/ TFinal \/ TSchedOther \/ TResults \/ TCreated \/ TStaticCreated \/ TStaticPool \/ TEnd \/ TPassive)
    \/ /\ l = Len(Trace) + 1 /\ ~done /\ done' = TRUE
       /\ JsonSerialize(IOEnv.OUT, [viol |-> viol, consumed |-> l - 1, traces |-> ntr, cases |-> cases])
       /\ UNCHANGED <<l, cfg, st, viol, ntr, cases>>

TraceSpec == TraceInit /\ [][TraceNext]_tvars
=============================================================================
