\* spec mutation = the pinned tree's semantics: TLC must reject it (crash in Release after the entry was collected)
CONSTANTS NU = 2  Limit = 3  Wants = {1, 2}  CodeMode = "code"  MaxLen = 30
SPECIFICATION Spec
VIEW view
INVARIANTS Inv_C03_NoCrash
