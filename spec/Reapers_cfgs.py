#!/usr/bin/env python3
"""Writes the Reapers_*.cfg files (one table of constants, so that a new constant is added in one place).
Run inside spec/:  python3 Reapers_cfgs.py"""
base = dict(Claims='{"c1", "c2"}', MaxNow=1000, MaxFaults=1, MaxEnv=2, MaxLen=30, NoopEvery=1, OffBefore='{1, 500}', OffAfter='{0, 1}',
            EA=600, LT=300, RT=900, TolReady=120, TolUnk=90, TolDisk=60, UnknownFirst='TRUE',
            PoolBg='{0}', OtherBg='{0}', MaxBad=0, MaxDel=0, ReadyVals='{"True", "False"}',
            RoundedClock='{}', ExpireSlack=0, ExpireNever='"check"', GcOnProvListError='"abort"', GcOnLookupError='"skip"',
            GcReady='"check"', NotFoundAsEmpty='{}', GcReadOrder='"claimsFirst"', LiveGate='"registered"',
            LiveSlack=0, RepairSlack=0, RepairTolBy='"policy"', RepairAnnotated='"check"', RepairExtra=0, RepairScope='"pool"', RepairOnListError='"abort"',
            RepairTerminating='"count"')
order = list(base)
INV = "INVARIANTS TypeOK Inv_C16_Expiration Inv_C16_GarbageCollection Inv_C16_Liveness Inv_C16_Repair\nPROPERTIES Act_C16_NoTriggerNoReap\n"
WINV = "INVARIANTS Inv_C16_Expiration Inv_C16_GarbageCollection Inv_C16_Liveness Inv_C16_Repair\n"


def write(name, comment, over, view=True, inv=INV):
    d = dict(base)
    d.update(over)
    lines = ["\\* " + comment]
    cuts = [0, 8, 15, 20, 29, len(order)]
    for i in range(len(cuts) - 1):
        lines.append(("CONSTANTS " if i == 0 else "          ") + "  ".join("%s = %s" % (k, d[k]) for k in order[cuts[i]:cuts[i + 1]]))
    lines.append("SPECIFICATION Spec")
    if view:
        lines.append("VIEW view")
    open("Reapers_%s.cfg" % name, "w").write("\n".join(lines) + "\n" + inv)


R3 = '{"True", "False", "Unknown"}'
G11 = '{0, 1, 2, 3, 4, 5, 6, 7, 8, 9, 10}'
write("MC", "exhaustive check of the closed model (history hidden by VIEW): a pool claim and a standalone claim with their nodes;\n\\* mechanism constants = the code's (documented) behaviour", {})
write("MCLive", "exhaustive: an unregistered claim (liveness, expiration; it joins with a Ready or NotReady node -> initialization, gc, repair)", dict(Claims='{"c3"}', MaxEnv=2))
write("MCLiveDeep", "thorough tier: the unregistered claim with three environment steps and a node that may also report Ready=Unknown",
      dict(Claims='{"c3"}', MaxEnv=3, ReadyVals=R3))
write("MCGrid", "exhaustive: pool claim x pool sizes 1..11 (10 further nodes) x 0..3 of them unhealthy, 0..2 of those terminating, one flip",
      dict(Claims='{"c1"}', PoolBg=G11, MaxBad=3, MaxDel=2, MaxEnv=1, OffBefore='{1}', OffAfter='{0}'))
write("MCCluster", "exhaustive: standalone claim judged against the whole cluster (nodes of a pool + unlabelled nodes)",
      dict(Claims='{"c2"}', PoolBg='{0, 3}', OtherBg='{0, 2, 5, 9}', MaxBad=2, MaxDel=1, MaxEnv=1, ReadyVals=R3, OffBefore='{1}', OffAfter='{0}'))
write("MCDeep", "thorough tier: the pool claim and the standalone claim with three environment steps", dict(MaxEnv=3))
write("MCGrid2", "thorough tier: the pool-size grid with two environment steps",
      dict(Claims='{"c1"}', PoolBg=G11, MaxBad=3, MaxDel=2, MaxEnv=2, OffBefore='{1}', OffAfter='{0}'))
write("MCFull", "thorough tier: all three claims (pool, standalone, unregistered) together with a pool population (multi-wave repair)",
      dict(Claims='{"c1", "c2", "c3"}', PoolBg='{4}', MaxBad=1, MaxDel=1, MaxEnv=1))
write("Gen", "behaviour generation by TLC simulation: random deep behaviours of the closed model (h is part of the state)",
      dict(Claims='{"c1", "c2", "c3"}', PoolBg='{0, 4, 5, 9, 10}', OtherBg='{0, 3}', MaxBad=3, MaxDel=2, MaxEnv=8, MaxFaults=3, MaxLen=16,
           NoopEvery=3, ReadyVals=R3, OffBefore='{1, 500, 501, 1000}', OffAfter='{0, 1, 500}'), view=False, inv="INVARIANTS GenPrint\n")
wb = dict(Claims='{"c1", "c2", "c3"}', PoolBg='{4}', OtherBg='{5}', MaxBad=1, MaxDel=1, MaxEnv=2)
weak = [
    ("WeakExpireEarly", "spec mutation: expiration one millisecond early -> Inv_C16_Expiration", dict(ExpireSlack=1)),
    ("WeakExpireRound", "spec mutation: expiration compares a clock reading rounded to the nearest second -> Inv_C16_Expiration", dict(RoundedClock='{"expire"}')),
    ("WeakExpireNever", "spec mutation: disabled expiry (Never) not tested -> Inv_C16_Expiration", dict(ExpireNever='"ignore"')),
    ("WeakGcProvList", "spec mutation: a failed provider List is read as an empty list -> Inv_C16_GarbageCollection", dict(GcOnProvListError='"continue"')),
    ("WeakGcProvListNotFound", "spec mutation: a provider List failing with a NotFound-typed error is read as an empty list -> Inv_C16_GarbageCollection", dict(NotFoundAsEmpty='{"provList"}')),
    ("WeakGcLookup", "spec mutation (the tree before fix 1d47e5fbe): the collector continues after a failed Node lookup and deletes -> Inv_C16_GarbageCollection", dict(GcOnLookupError='"delete"')),
    ("WeakGcLookupNotFound", "spec mutation: a Node lookup failing with a NotFound-typed API error is read as 'no node' -> Inv_C16_GarbageCollection", dict(NotFoundAsEmpty='{"nodeLookup"}')),
    ("WeakGcReady", "spec mutation: Node readiness not consulted -> Inv_C16_GarbageCollection", dict(GcReady='"ignore"')),
    ("WeakGcReadOrder", "spec mutation: the provider listing is taken before the NodeClaims are listed (a claim that joins in between is judged against a stale listing) -> Inv_C16_GarbageCollection", dict(GcReadOrder='"provFirst"')),
    ("WeakLiveGate", "spec mutation: liveness keeps timing Registered claims until they are Ready (Initialized) -> Inv_C16_Liveness", dict(LiveGate='"ready"')),
    ("WeakRepairTolByType", "spec mutation: the toleration is looked up by condition type only (first policy of that type) -> Inv_C16_Repair", dict(RepairTolBy='"type"', ReadyVals=R3)),
    ("WeakLive", "spec mutation: liveness one millisecond early -> Inv_C16_Liveness", dict(LiveSlack=1)),
    ("WeakLiveRound", "spec mutation: liveness compares a rounded clock reading -> Inv_C16_Liveness", dict(RoundedClock='{"live"}')),
    ("WeakRepairEarly", "spec mutation: repair one millisecond before the toleration elapsed -> Inv_C16_Repair", dict(RepairSlack=1)),
    ("WeakRepairRound", "spec mutation: repair compares a rounded clock reading -> Inv_C16_Repair", dict(RoundedClock='{"repair"}')),
    ("WeakRepairAnnotated", "spec mutation: an already annotated NodeClaim (failed Delete of an earlier pass, or annotated by someone else) is deleted without consulting the 20 % breaker -> Inv_C16_Repair", dict(RepairAnnotated='"shortcut"')),
    ("WeakRepairExtra", "spec mutation: one more unhealthy node tolerated than 20 % rounded up -> Inv_C16_Repair", dict(RepairExtra=1)),
    ("WeakRepairScope", "spec mutation: pool claims judged against the whole cluster -> Inv_C16_Repair", dict(RepairScope='"cluster"')),
    ("WeakRepairList", "spec mutation: a failed node List is read as an empty list -> Inv_C16_Repair", dict(RepairOnListError='"continue"')),
    ("WeakRepairListNotFound", "spec mutation: a node List failing with a NotFound-typed API error is read as an empty list -> Inv_C16_Repair", dict(NotFoundAsEmpty='{"nodeList"}')),
    ("WeakRepairTerminating", "spec mutation: unhealthy nodes that are already terminating are not counted by the 20 % breaker -> Inv_C16_Repair", dict(RepairTerminating='"skip"')),
]
for n, c, o in weak:
    d = dict(wb)
    d.update(o)
    write(n, c, d, inv=WINV)
