\* the pinned tree's semantics: limits.nodes is not charged inside a pass (must be rejected: F-C03-6)
CONSTANTS Catalogs = {1}  Limits = {4}  Daemons = {1}  Batches = {2}  Laters = {0}
CONSTANTS MaxRounds = 3  MaxClaims = 3  MaxSteps = 5  AllowForeign = TRUE  Resyncs = {FALSE}  EphForms = {2}  StForms = {2}
CONSTANTS W_NoSyncGate = FALSE  W_SubMin = FALSE  W_SubDominating = FALSE  W_StartupBlocks = FALSE  W_CountMarked = FALSE  W_ZeroSkips = FALSE  W_NoZeroFallback = FALSE  W_DaemonTwice = FALSE  W_SyncBeforeBatch = FALSE  C_NodesPerPass = TRUE  C_OverrideBase = FALSE
SPECIFICATION Spec
VIEW view
INVARIANTS Cex_C03_PoolCapacity
