\* spec mutation (W_Avail = TRUE  W_Overhead = TRUE  W_Ports = TRUE  W_KeepTerm = FALSE  W_Override = TRUE  W_Refilter = TRUE  W_InitTaints = TRUE): TLC must violate Inv_C01_RequiredTermNeverDropped
CONSTANTS NPods = 1  PodArchs = {4,5}  Catalogs = {1}  PoolSets = {1}  Existings = {0}  Daemons = {0}
CONSTANTS W_Avail = TRUE  W_Overhead = TRUE  W_Ports = TRUE  W_KeepTerm = FALSE  W_Override = TRUE  W_Refilter = TRUE  W_InitTaints = TRUE
SPECIFICATION Spec
INVARIANTS Inv_C01_NoOvercommit Inv_C01_EveryLaunchOptionHostsItsPods Inv_C01_RequiredTermNeverDropped
