CONSTANTS MaxNow = 24  MaxLen = 12  Dedupe = 10  WeakC = ""
SPECIFICATION Spec
VIEW view
INVARIANTS TypeOK Inv_C07_ConsolidatableJustified
