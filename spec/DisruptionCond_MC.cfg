CONSTANTS MaxNow = 80  MaxLen = 9  MaxEdits = 2  Dedupe = 10  VD = 15  WeakC = ""
SPECIFICATION Spec
VIEW view
INVARIANTS TypeOK Inv_C07_ConsolidatableJustified Inv_C07_DecisionJustified
