\* spec mutation requeueOnRollbackError: TLC must reject it
CONSTANTS Nodes = {"n1", "n2"}  Cmds = {"A"}  MaxRepl = 2  T = 1  MaxNow = 2  MaxFaults = 1  MaxRestarts = 1  MaxCandVanish = 1
          DelFaults = TRUE  CodeMode = "code"  Weak = "requeueOnRollbackError"  Serial = FALSE  Gen = FALSE  MaxLen = 0
SPECIFICATION Spec
INVARIANTS TypeOK Inv_C08_DeleteAfterAllInitialized Inv_C08_NoDeleteAfterFailure_Code Inv_C08_SingleCommandPerNode Inv_C08_RolledBackWhenQuiet Inv_C08_RolledBackByAction
