------------------------- MODULE ReservationGuards -------------------------
(***************************************************************************)
(* Variable-free definitions of property C17, reservation half, shared by   *)
(* the closed model Reservations.tla and the trace specification            *)
(* Reservations_Trace.tla.  Record shapes are those of spec/SCHED_TRACE.md: *)
(* `cfg` = the scenario (Cfg line), a claim's requirement state = the        *)
(* logged ReqRec map (Has-vector per universe value), `its` = remaining      *)
(* instance-type names, held ids = the `reserved` list of a Sched event.     *)
(*                                                                         *)
(* The oracle is counting and set semantics over the CATALOG: a reservation *)
(* id has the capacity its offerings declare; a NodeClaim "holds" the ids   *)
(* its latest commitment lists; a reserved offering is "compatible" with a   *)
(* claim when the claim admits its zone / capacity type / reservation id;    *)
(* reserved capacity is "exhausted" when capacity - #holders = 0.  Nothing  *)
(* here looks at the ReservationManager's own table.                         *)
(***************************************************************************)
EXTENDS SchedulingGuards

ReservedCT == "reserved"
Max2(a, b) == IF a > b THEN a ELSE b
SetMax(S) == CHOOSE x \in S : \A y \in S : y <= x
SetMin(S) == CHOOSE x \in S : \A y \in S : x <= y

----------------------------------------------------------------------------
(* the catalog's reservations *)
\* every reserved offering of the catalog as [t |-> type name, o |-> offering]
ROfferings(cfg) ==
    UNION {{[t |-> cfg.types[i].name, o |-> cfg.types[i].offerings[j]] :
              j \in {x \in DOMAIN cfg.types[i].offerings : cfg.types[i].offerings[x].ct = ReservedCT}} : i \in DOMAIN cfg.types}
Rids(cfg) == {x.o.rid : x \in ROfferings(cfg)}
CapsOf(cfg, id) == {x.o.rcap : x \in {y \in ROfferings(cfg) : y.o.rid = id}}
\* capacity of a reservation.  The generators give every offering of one id the same capacity; should they differ, the
\* invariant uses the LARGEST declared value (lenient) and the "was it really exhausted" test the SMALLEST (lenient again).
CapMax(cfg, id) == IF CapsOf(cfg, id) = {} THEN 0 ELSE SetMax(CapsOf(cfg, id))
CapMin(cfg, id) == IF CapsOf(cfg, id) = {} THEN 0 ELSE SetMin(CapsOf(cfg, id))

(* holders: `held` is a function claim identity (placeholder hostname) -> set of ids *)
Holders(held, id) == {h \in DOMAIN held : id \in held[h]}
HeldIds(held) == UNION {held[h] : h \in DOMAIN held}
\* what is really left of reservation id (ghost: computed from the observed holders, never from the code's table)
Left(cfg, held, id) == CapMin(cfg, id) - Cardinality(Holders(held, id))

----------------------------------------------------------------------------
(* Inv_C17_ReservationCapacity: #NodeClaims holding id <= capacity(id) *)
OverCommitted(cfg, held) == {id \in HeldIds(held) \cup Rids(cfg) : Cardinality(Holders(held, id)) > CapMax(cfg, id)}
G_C17_Capacity(cfg, held) == OverCommitted(cfg, held) = {}
SigCapacity(cfg, held) ==
    LET id == CHOOSE x \in OverCommitted(cfg, held) : TRUE IN
    IF id \notin Rids(cfg) THEN "unknown-reservation-id"
    ELSE IF CapMax(cfg, id) = 0 THEN "capacity-0-held" ELSE "holders-exceed-capacity"

----------------------------------------------------------------------------
(* compatibility of reserved offerings with a claim's requirement state *)
ReqHas(cfg, reqs, k, v) == InUniverse(cfg, k, v) /\ reqs[k].has[Idx(cfg, k, v)]
ReqVals(cfg, reqs, k) == {cfg.universe[k][i] : i \in {j \in DOMAIN cfg.universe[k] : reqs[k].has[j]}}
OffCompat(cfg, reqs, o) ==
    /\ ReqHas(cfg, reqs, "zone", o.zone) /\ ReqHas(cfg, reqs, "ct", o.ct)
    /\ (o.rid = "" \/ ReqHas(cfg, reqs, "rid", o.rid))
\* ids of the available reserved offerings a claim (remaining types its, requirement state reqs) could be launched into
CompatIds(cfg, its, reqs) ==
    {x.o.rid : x \in {y \in ROfferings(cfg) : y.t \in Range(its) /\ y.o.available /\ OffCompat(cfg, reqs, y.o)}}

----------------------------------------------------------------------------
(* G_C17_PinnedToHeldIds: a claim that holds reservations ends up with       *)
(* capacity-type = reserved and reservation-id = exactly the held ids.       *)
PinnedParts(cfg, reqs, heldSet) ==
    [ ct  |-> reqs["ct"].defined /\ ~reqs["ct"].absent /\ ReqVals(cfg, reqs, "ct") = {ReservedCT},
      ids |-> reqs["rid"].defined /\ ~reqs["rid"].absent /\ ReqVals(cfg, reqs, "rid") = heldSet ]
G_C17_PinnedToHeldIds(cfg, reqs, heldSet) ==
    heldSet = {} \/ LET x == PinnedParts(cfg, reqs, heldSet) IN x.ct /\ x.ids
SigPinned(cfg, reqs, heldSet) ==
    LET x == PinnedParts(cfg, reqs, heldSet) IN
    IF ~x.ct THEN "capacity-type-not-reserved"
    ELSE IF ~reqs["rid"].defined \/ reqs["rid"].absent THEN "reservation-id-not-required"
    ELSE IF ReqVals(cfg, reqs, "rid") \subseteq heldSet THEN "held-id-missing-from-pin" ELSE "pinned-to-id-not-held"
\* is a final claim pinned to reserved capacity at all (the end-state form counts those)
IsPinned(cfg, reqs) == reqs["ct"].defined /\ ~reqs["ct"].absent /\ ReqVals(cfg, reqs, "ct") = {ReservedCT}
               /\ reqs["rid"].defined /\ ~reqs["rid"].absent

----------------------------------------------------------------------------
(* G_C17_StrictDefers, claim form: in strict mode a commitment never leaves  *)
(* a claim that has a compatible available reserved offering without a held  *)
(* reservation (that would be the silent fallback), and narrowing never      *)
(* drops the last held one.                                                  *)
StrictParts(cfg, its, reqs, heldPrev, heldNow) ==
    [ fallback |-> CompatIds(cfg, its, reqs) # {} /\ heldNow = {},
      dropped  |-> heldPrev # {} /\ heldNow = {} ]
G_C17_StrictClaim(cfg, its, reqs, heldPrev, heldNow) ==
    LET x == StrictParts(cfg, its, reqs, heldPrev, heldNow) IN ~x.fallback /\ ~x.dropped
SigStrictClaim(cfg, held, its, reqs, heldPrev, heldNow) ==
    LET x == StrictParts(cfg, its, reqs, heldPrev, heldNow) IN
    IF x.dropped THEN "narrowing-dropped-last-held-reservation"
    ELSE IF \A id \in CompatIds(cfg, its, reqs) : Left(cfg, held, id) <= 0 THEN "fallback-while-reserved-exhausted"
    ELSE "compatible-reservation-not-taken"

----------------------------------------------------------------------------
(* Converse readings on the sub-alphabet where "compatible" can be decided   *)
(* from the scenario alone (no daemonsets, taints, limits, minValues,        *)
(* capacity overrides; the pod constrains only zone / ct / it / arch through *)
(* its node selector and at most one required term, no preferences).         *)
SimpleKeys == {"zone", "ct", "it", "arch"}
SimplePod(e) ==
    /\ e.pref = <<>> /\ Len(e.terms) <= 1 /\ e.vols = <<>> /\ e.ports = <<>> /\ e.aff = <<>> /\ e.anti = <<>>
    /\ e.prefAff = <<>> /\ e.prefAnti = <<>> /\ e.spread = <<>>
    /\ DOMAIN e.sel \subseteq SimpleKeys /\ ExprKeys(e.terms) \subseteq SimpleKeys
SimpleCfg(cfg) ==
    /\ cfg.ds = <<>> /\ cfg.nodes = <<>>
    /\ \A i \in DOMAIN cfg.pools :
         LET p == cfg.pools[i] IN
         /\ p.taints = <<>> /\ DOMAIN p.labels = {} /\ p.limits.cpu = 0 /\ p.limits.mem = 0 /\ p.limits.nodes < 0
         /\ \A j \in DOMAIN p.reqs : p.reqs[j].min = 0 /\ p.reqs[j].key \in SimpleKeys
    /\ \A i \in DOMAIN cfg.types : \A j \in DOMAIN cfg.types[i].offerings :
         cfg.types[i].offerings[j].cpuOv = 0 /\ cfg.types[i].offerings[j].memOv = 0
    \* every offering of one reservation id declares the same capacity (otherwise "exhausted" depends on which types the pools see)
    /\ \A id \in Rids(cfg) : CapMax(cfg, id) = CapMin(cfg, id)
\* value v of key k is admitted by the pod (selector and its one required term) / by the pool template
PodAdm(cfg, e, k, v) ==
    /\ (k \in DOMAIN e.sel => e.sel[k] = v)
    /\ (e.terms = <<>> \/ \A i \in DOMAIN e.terms[1] : e.terms[1][i].key = k => Admits(cfg, e.terms[1][i], (k :> v)))
PoolAdm(cfg, pool, k, v) ==
    \A i \in DOMAIN pool.reqs :
        pool.reqs[i].key = k => Admits(cfg, [key |-> k, op |-> pool.reqs[i].op, vals |-> pool.reqs[i].vals, n |-> pool.reqs[i].n], (k :> v))
Adm(cfg, pool, e, k, v) == PodAdm(cfg, e, k, v) /\ PoolAdm(cfg, pool, k, v)
PoolTypeRecs(cfg, pool) == {t \in Range(cfg.types) : pool.types = <<>> \/ t.name \in Range(pool.types)}
OffAdm(cfg, pool, e, o) == Adm(cfg, pool, e, "zone", o.zone) /\ Adm(cfg, pool, e, "ct", o.ct)
PodFits(e, t, o) == LeqRes([cpu |-> e.cpu, mem |-> e.mem, pods |-> 1], OfferingAlloc(t, o))
\* instance types a FRESH claim of `pool` keeps for pod e alone
FreshTypes(cfg, pool, e) ==
    {t \in PoolTypeRecs(cfg, pool) :
        /\ Adm(cfg, pool, e, "it", t.name)
        /\ ("arch" \in DOMAIN t.labels => Adm(cfg, pool, e, "arch", t.labels["arch"]))
        /\ \E i \in DOMAIN t.offerings : Adm(cfg, pool, e, "zone", t.offerings[i].zone)
        /\ \E i \in DOMAIN t.offerings : Adm(cfg, pool, e, "ct", t.offerings[i].ct)
        /\ \E i \in DOMAIN t.offerings : t.offerings[i].available /\ OffAdm(cfg, pool, e, t.offerings[i]) /\ PodFits(e, t, t.offerings[i])}
FreshCompatIds(cfg, pool, e) ==
    UNION {{t.offerings[i].rid : i \in {j \in DOMAIN t.offerings :
                t.offerings[j].ct = ReservedCT /\ t.offerings[j].available /\ OffAdm(cfg, pool, e, t.offerings[j])}} : t \in FreshTypes(cfg, pool, e)}
\* pod e has compatible reserved capacity in `pool`, all of it exhausted
ReservedBlocked(cfg, held, pool, e) ==
    FreshCompatIds(cfg, pool, e) # {} /\ \A id \in FreshCompatIds(cfg, pool, e) : Left(cfg, held, id) <= 0
PoolNamed(cfg, n) == CHOOSE p \in Range(cfg.pools) : p.name = n
KnownPool(cfg, n) == \E p \in Range(cfg.pools) : p.name = n
\* G_C17_StrictDefers, pool form: a new claim is not opened in pool j while a pool of strictly higher weight is blocked
G_C17_NoPoolFallback(cfg, held, e, poolName) ==
    \A i \in DOMAIN cfg.pools :
        cfg.pools[i].weight > PoolNamed(cfg, poolName).weight => ~ReservedBlocked(cfg, held, cfg.pools[i], e)
\* G_C17_StrictDefers, converse form: a reserved-offering deferral is raised only while some reservation really is exhausted
\* (exact form on the simple sub-alphabet: some pool is blocked for this very pod)
G_C17_DeferJustified(cfg, held) == \E id \in Rids(cfg) : Left(cfg, held, id) <= 0
G_C17_DeferJustifiedExact(cfg, held, e) == \E i \in DOMAIN cfg.pools : ReservedBlocked(cfg, held, cfg.pools[i], e)
=============================================================================
