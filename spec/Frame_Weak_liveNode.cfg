\* spec mutation "liveNode": TLC must violate a consequence invariant (the frame is load-bearing)
CONSTANTS Cap = 2  MaxLen = 4  Weak = "liveNode"
SPECIFICATION Spec
VIEW view
INVARIANTS Consequences
