SPECIFICATION TraceSpec
