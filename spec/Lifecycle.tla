------------------------------ MODULE Lifecycle ------------------------------
(***************************************************************************)
(* NodeClaim launch / registration / initialization / liveness             *)
(* (properties C14, C16-liveness).                                         *)
(*                                                                         *)
(* State = what the property talks about: the NodeClaim as persisted in    *)
(* the API (finalizer, deletion mark, Launched/Registered/Initialized,     *)
(* provider id), the lifecycle controller's in-memory launch cache, the    *)
(* provider's instance set and per-process count of successful creates,    *)
(* the Node the kubelet registers (taints, readiness, reported resources,  *)
(* labels), a logical clock.                                               *)
(*                                                                         *)
(* Granularity (DESIGN 2.1, coarse): one reconcile is one action           *)
(* parameterised by the call that fails; its effect is the prefix of       *)
(* writes up to that call.  Environment steps, restarts, stale reads and   *)
(* clock ticks interleave between reconciles.  The guards G_C14_* / G_C16_**)
(* are written over the *logged* record shapes (harness/world/abs.go) so   *)
(* the trace specification evaluates the same operators on every API /     *)
(* provider event of the real controller.                                  *)
(***************************************************************************)
EXTENDS LifecycleGuards, Json

CONSTANTS MaxNow,      \* logical clock bound
          LT, RT,      \* launch / registration timeouts in logical units
          MaxFaults,   \* fault budget per behaviour
          MaxLen,      \* history bound (generator)
          StartupTaint, ExtRes,   \* scenario: pool has a startup taint / claim requests an extended resource
          CacheMode    \* "code": launch cache consulted and filled as in launch.go; "none": spec mutation

VARIABLES nc, iv, cache, inst, creates, npid, node, now, lSince, rSince, faults, h
vars == <<nc, iv, cache, inst, creates, npid, node, now, lSince, rSince, faults, h>>
view == <<nc, iv, cache, inst, creates, npid, node, now, lSince, rSince, faults>>

\* ---------------------------------------------------------------- closed model
Pids == {"i1", "i2", "i3"}
NoNode == [exists |-> FALSE, providerID |-> "-", unreg |-> FALSE, startup |-> FALSE, eph |-> FALSE, ready |-> FALSE,
           res |-> FALSE, regLabel |-> FALSE, initLabel |-> FALSE]
FaultKinds == {"none", "finPatch", "provICE", "provNCNR", "provErr", "nodePatchReg", "nodePatchInit",
               "mainPatch", "statusPatch"}

InitNC == [exists |-> TRUE, finalizer |-> FALSE, deleting |-> FALSE, launched |-> "Absent",
           registered |-> "Absent", initialized |-> "Absent", providerID |-> "-"]

Init == /\ nc = InitNC /\ iv = InitNC /\ cache = "-" /\ inst = {} /\ creates = 0 /\ npid = 1
        /\ node = NoNode /\ now = 0 /\ lSince = -1 /\ rSince = -1 /\ faults = 0 /\ h = <<>>

PidN(i) == IF i = 1 THEN "i1" ELSE IF i = 2 THEN "i2" ELSE "i3"
Hist(e) == h' = Append(h, e)

\* --- the reconcile as a deterministic function of (state, starting copy m0, fault f)
\* returns a record of the new persisted state
Reconcile(m0, f) ==
  LET \* phase 1: finalizer patch (optimistic lock; its failure ends the reconcile)
      needFin == ~m0.finalizer
      abortFin == needFin /\ (f = "finPatch" \/ m0 # nc)     \* injected failure, or conflict on a stale copy
      \* phase 2: launch
      wantLaunch == m0.launched # "True"
      cacheHit == CacheMode = "code" /\ cache # "-"
      callCreate == wantLaunch /\ ~cacheHit
      createOk == callCreate /\ f \notin {"provICE", "provNCNR", "provErr"} /\ npid <= 3
      capErr == callCreate /\ f \in {"provICE", "provNCNR"}
      newPid == PidN(npid)
      created == IF ~wantLaunch THEN "-" ELSE IF cacheHit THEN cache ELSE IF createOk THEN newPid ELSE "-"
      m1 == IF created # "-" THEN [m0 EXCEPT !.launched = "True", !.providerID = created, !.finalizer = TRUE]
            ELSE [m0 EXCEPT !.finalizer = TRUE,
                            !.launched = IF wantLaunch /\ @ = "Absent" THEN "Unknown" ELSE @]
      cache1 == IF ~wantLaunch THEN "-"                       \* Launched persisted: entry dropped
                ELSE IF created # "-" /\ CacheMode = "code" THEN created ELSE cache
      \* phase 3: registration
      wantReg == m1.registered # "True"
      nodeFound == node # NoNode /\ m1.providerID # "-" /\ node.providerID = m1.providerID
      regPatchFails == wantReg /\ nodeFound /\ (node.unreg \/ ~node.regLabel) /\ f = "nodePatchReg"
      doReg == wantReg /\ nodeFound /\ ~regPatchFails
      node2 == IF doReg THEN [node EXCEPT !.unreg = FALSE, !.regLabel = TRUE] ELSE node
      m2 == IF doReg THEN [m1 EXCEPT !.registered = "True"]
            ELSE [m1 EXCEPT !.registered = IF wantReg /\ @ = "Absent" THEN "Unknown" ELSE @]
      \* phase 4: initialization
      wantInit == m2.initialized # "True" /\ m2.registered = "True"
      nodeFound2 == node2 # NoNode /\ m2.providerID # "-" /\ node2.providerID = m2.providerID
      initOk == wantInit /\ nodeFound2 /\ node2.ready /\ ~node2.startup /\ ~node2.eph /\ (~ExtRes \/ node2.res)
      initPatchFails == initOk /\ ~node2.initLabel /\ f = "nodePatchInit"
      doInit == initOk /\ ~initPatchFails
      node3 == IF doInit THEN [node2 EXCEPT !.initLabel = TRUE] ELSE node2
      m3 == IF doInit THEN [m2 EXCEPT !.initialized = "True"]
            ELSE [m2 EXCEPT !.initialized = IF m2.registered = "True" /\ @ = "Absent" THEN "Unknown" ELSE @]
      \* phase 5: liveness
      lTime == IF lSince >= 0 THEN lSince ELSE now
      rTime == IF rSince >= 0 THEN rSince ELSE now
      liveDel == /\ m3.registered # "True"
                 /\ \/ (m3.launched # "True" /\ m0.launched # "Absent" /\ now - lTime >= LT)
                    \/ (m0.registered # "Absent" /\ now - rTime >= RT)
      deleted == capErr \/ liveDel
      \* phase 6: persist (main patch then status patch)
      changed == m3 # m0
      persistStatus == changed /\ f \notin {"mainPatch", "statusPatch"}
      ncP == IF abortFin THEN nc
             ELSE [nc EXCEPT !.finalizer = TRUE,
                             !.deleting = @ \/ deleted,
                             !.launched = IF persistStatus THEN m3.launched ELSE @,
                             !.registered = IF persistStatus THEN m3.registered ELSE @,
                             !.initialized = IF persistStatus THEN m3.initialized ELSE @,
                             !.providerID = IF persistStatus THEN m3.providerID ELSE @]
  IN [nc |-> ncP,
      cache |-> IF abortFin THEN cache ELSE cache1,
      inst |-> IF ~abortFin /\ createOk THEN inst \cup {newPid} ELSE inst,
      creates |-> IF ~abortFin /\ createOk THEN creates + 1 ELSE creates,
      npid |-> IF ~abortFin /\ createOk THEN npid + 1 ELSE npid,
      node |-> IF abortFin THEN node ELSE node3,
      lSince |-> IF ~abortFin /\ persistStatus /\ lSince < 0 THEN now ELSE lSince,
      rSince |-> IF ~abortFin /\ persistStatus /\ rSince < 0 THEN now ELSE rSince,
      createCalled |-> ~abortFin /\ callCreate,
      createOk |-> ~abortFin /\ createOk,
      finAtCreate |-> TRUE,   \* phase 1 precedes phase 2 and aborts on failure
      capErr |-> ~abortFin /\ capErr, liveDel |-> ~abortFin /\ liveDel /\ ~capErr,
      \* addressing of the injected fault for the replay driver (occurrence number of the call)
      mainNth |-> IF needFin THEN 2 ELSE 1,
      initNth |-> IF wantReg /\ nodeFound /\ (node.unreg \/ ~node.regLabel) THEN 2 ELSE 1]

Apply(r) == /\ nc' = r.nc /\ cache' = r.cache /\ inst' = r.inst /\ creates' = r.creates /\ npid' = r.npid
            /\ node' = r.node /\ lSince' = r.lSince /\ rSince' = r.rSince

\* stale = FALSE: the informer cache is up to date when the reconcile starts (iv := nc);
\* stale = TRUE: the cache still holds the version seen by the last up-to-date reconcile (it lags
\* behind the controller's own writes); versions are never observed backwards.
Rec(f, stale) ==
    /\ nc.exists /\ ~nc.deleting
    /\ (stale => iv # nc)
    /\ (f = "none" \/ faults < MaxFaults)
    /\ LET m0 == IF stale THEN iv ELSE nc
           r == Reconcile(m0, f) IN
       /\ Apply(r)
       /\ iv' = m0
       /\ Hist([a |-> "Rec", f |-> f, stale |-> IF stale THEN 1 ELSE 0, mainNth |-> r.mainNth, initNth |-> r.initNth])
    /\ faults' = IF f = "none" THEN faults ELSE faults + 1
    /\ UNCHANGED now

NodeAppears(u, s, e, r, x) ==
    /\ node = NoNode /\ inst # {}
    /\ LET pid == PidN(npid - 1) IN   \* the latest instance registers
       node' = [exists |-> TRUE, providerID |-> pid, unreg |-> u, startup |-> s /\ StartupTaint, eph |-> e, ready |-> r,
                res |-> x, regLabel |-> FALSE, initLabel |-> FALSE]
    /\ UNCHANGED <<nc, iv, cache, inst, creates, npid, now, lSince, rSince, faults>>
    /\ Hist([a |-> "NodeAppears", unreg |-> u, startup |-> s, eph |-> e, ready |-> r, res |-> x])

EnvNode(what) ==
    /\ node # NoNode
    /\ \/ (what = "RemoveStartup" /\ node.startup /\ node' = [node EXCEPT !.startup = FALSE])
       \/ (what = "RemoveEph" /\ node.eph /\ node' = [node EXCEPT !.eph = FALSE])
       \/ (what = "Ready" /\ ~node.ready /\ node' = [node EXCEPT !.ready = TRUE])
       \/ (what = "NotReady" /\ node.ready /\ node' = [node EXCEPT !.ready = FALSE])
       \/ (what = "ReportRes" /\ ExtRes /\ ~node.res /\ node' = [node EXCEPT !.res = TRUE])
    /\ UNCHANGED <<nc, iv, cache, inst, creates, npid, now, lSince, rSince, faults>>
    /\ Hist([a |-> what])

Tick == /\ now < MaxNow /\ now' = now + 1
        /\ UNCHANGED <<nc, iv, cache, inst, creates, npid, node, lSince, rSince, faults>>
        /\ Hist([a |-> "Tick"])

\* process restart: the launch cache and the per-process create count are lost
Restart == /\ (cache # "-" \/ creates > 0)
           /\ cache' = "-" /\ creates' = 0 /\ iv' = nc     \* the new process lists afresh
           /\ UNCHANGED <<nc, inst, npid, node, now, lSince, rSince, faults>>
           /\ Hist([a |-> "Restart"])

\* the NodeClaim is deleted before the finalizer landed: without a finalizer it disappears at once
ClaimGone ==
    /\ nc.exists /\ ~nc.finalizer /\ ~nc.deleting
    /\ nc' = [nc EXCEPT !.exists = FALSE]
    /\ UNCHANGED <<iv, cache, inst, creates, npid, node, now, lSince, rSince, faults>>
    /\ Hist([a |-> "ClaimGone"])

\* ... while the informer still hands the controller its copy: the finalizer patch gets NotFound and the
\* reconcile ends there (no provider call for an object that no longer exists)
RecGone ==
    /\ ~nc.exists /\ iv.exists
    /\ iv' = nc
    /\ UNCHANGED <<nc, cache, inst, creates, npid, node, now, lSince, rSince, faults>>
    /\ Hist([a |-> "Rec", f |-> "none", stale |-> 1, mainNth |-> 1, initNth |-> 1])

Next == /\ Len(h) < MaxLen
        /\ \/ /\ nc.exists /\ ~nc.deleting
              /\ \/ \E f \in FaultKinds, st \in BOOLEAN : Rec(f, st)
                 \/ \E u, s, e, r, x \in BOOLEAN : NodeAppears(u, s, e, r, x)
                 \/ \E wh \in {"RemoveStartup", "RemoveEph", "Ready", "NotReady", "ReportRes"} : EnvNode(wh)
                 \/ Tick \/ Restart \/ ClaimGone
           \/ RecGone
Spec == Init /\ [][Next]_vars

\* ---------------------------------------------------------------- properties of the closed model
TypeOK == /\ nc.launched \in {"Absent", "Unknown", "True"} /\ creates \in 0..3 /\ cache \in Pids \cup {"-"}
\* at most one successful provider create per NodeClaim while the controller keeps running
Inv_C14_CreateOnce == creates <= 1
\* Launched only for a created instance; order Launched -> Registered -> Initialized
Inv_C14_Order == /\ (nc.launched = "True" => nc.providerID \in inst)
                 /\ (nc.registered = "True" => nc.launched = "True")
                 /\ (nc.initialized = "True" => nc.registered = "True")
\* the provider is never asked before the finalizer is persisted
Inv_C14_FinalizerBeforeCreate == inst # {} => nc.finalizer
\* conditions never leave True through a reconcile that started from the latest version (a reconcile
\* on a lagging informer copy replaces the whole condition list by JSON merge patch and may regress
\* it; the statement does not exclude that, so it is reported as a note, not judged)
Act_C14_Monotone == [][ (h' # h /\ h'[Len(h')].a = "Rec" /\ h'[Len(h')].stale = 0) =>
                          \A f \in {"launched", "registered", "initialized"} : nc[f] = "True" => nc'[f] = "True" ]_vars
\* preconditions at the step where a condition becomes True (model side of the guards)
Act_C14_Preconditions ==
    [][ /\ (nc.registered # "True" /\ nc'.registered = "True") =>
             (node' # NoNode /\ node'.providerID = nc'.providerID /\ ~node'.unreg /\ node'.regLabel)
        /\ (nc.initialized # "True" /\ nc'.initialized = "True") =>
             (node' # NoNode /\ node'.ready /\ ~node'.startup /\ ~node'.eph /\ (~ExtRes \/ node'.res)) ]_view
\* capacity errors mark the claim for deletion; liveness deletes only after a timeout
Act_C16_LivenessOnlyAfterTimeout ==
    [][ (~nc.deleting /\ nc'.deleting /\ h' # h /\ h'[Len(h')].a = "Rec" /\ h'[Len(h')].f \notin {"provICE", "provNCNR"})
          => (nc.registered # "True" /\ (now - (IF lSince >= 0 THEN lSince ELSE now) >= LT
                                         \/ now - (IF rSince >= 0 THEN rSince ELSE now) >= RT)) ]_vars

GenPrint == (Len(h) < MaxLen /\ ENABLED Next) \/ PrintT(<<"BEH", ToJson(h)>>)
=============================================================================
