\* exhaustive check with TWO NodeClaims (one drifted, one not, across a version bump; old-replica stamps), fewer atoms
CONSTANTS Claims = {"c1", "c2"}  AtomIds = {10, 18}  Types = {"small", "large"}  Zones = {"zone-a"}  CTs = {"spot"}
          MaxLen = 40  MaxEdits = 2  MaxAtoms = 1  Wk = "none"
SPECIFICATION Spec
VIEW view
INVARIANTS TypeOK Inv_C15_NoSelfDrift
PROPERTIES Act_C15_HashInvariant Act_C15_HashSensitive Act_C15_Decision Act_C15_NoSelfDrift Act_C15_TemplateChangeReported Act_C15_HashStamped
