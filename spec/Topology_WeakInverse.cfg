\* spec mutation (W_Inverse = FALSE: not tracking the anti-affinity terms of pods already running (inverse direction)): TLC must violate Inv_C02_EndState
CONSTANTS NPods = 1  Archs = {1}  Layouts = {2}  MaxClaims = 1
CONSTANTS W_AllDomains = TRUE  W_Inverse = FALSE  W_Certain = TRUE  W_Bootstrap = TRUE  W_Slack = 0  W_Exclude = TRUE  W_MatchKeys = TRUE  W_MinDomains = TRUE  W_Policies = TRUE  W_Guard = TRUE
SPECIFICATION Spec
INVARIANTS Inv_C02_EndState
