\* every call sequence of length MaxLen (history is part of the state); callers are well-behaved w.r.t. the ideal grants
CONSTANTS NU = 2  Limit = 3  Wants = {1, 2}  CodeMode = "fixed"  MaxLen = 3
SPECIFICATION Spec
INVARIANTS GenPrint
