\* spec mutation (W_PinAll = FALSE): TLC must violate Inv_C17_PinnedToHeldIds
CONSTANTS NPods = 1  PodArchs = {1}  Layouts = {1}  Caps = {1}  PoolSets = {4}  Modes = {"strict"}  GenMod = 1  GenRes = 0
CONSTANTS W_CanReserve = TRUE  W_Release = TRUE  W_PinAll = FALSE  W_Strict = TRUE  W_KeepHeld = TRUE  W_PoolOrder = TRUE
SPECIFICATION Spec
INVARIANTS Inv_C17_ReservationCapacity Inv_C17_ManagerConsistent Inv_C17_PinnedToHeldIds Inv_C17_EveryResolutionWithinCapacity Inv_C17_StrictNoFallback Inv_C17_StrictClaim Inv_C17_NoPoolFallback Inv_C17_DeferJustified
