SPECIFICATION TraceSpec
