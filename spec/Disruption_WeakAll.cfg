\* every spec mutation of Disruption_Weak_*.cfg in one TLC run: WeakDetect prints <<"REJ", rule>> for each weakened rule under
\* which Inv_C07_NeverProtected breaks; checks/C07.py requires all of AllWeak to be printed (quick tier)
CONSTANTS MaxPre = 2  MaxChurn = 1  PairMode = "tgp"  Weak = "*"
SPECIFICATION Spec
INVARIANTS WeakDetect
