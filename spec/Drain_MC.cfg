\* exhaustive: every pair of archetypes of the quick alphabet, with and without a termination grace period
CONSTANTS Pods = {"p1", "p2"}  Archetypes <- ArchQuick  TGPs <- BoolBoth  TGP = 3
  MaxNow = 4  MaxFaults = 0  MaxRestarts = 0  MaxDlChanges = 0  MaxLen = 1000  MaxSpont = 99
  EarlierMode = "earlier"  GateTiers = TRUE  MinGrace = 1  DndMode = "honour"  ThresholdSlack = 0  DropMode = "keep"  SplitMode = "waiting"
SPECIFICATION Spec
VIEW view
INVARIANTS TypeOK Inv_C10_Guards
