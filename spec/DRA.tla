-------------------------------- MODULE DRA --------------------------------
(***************************************************************************)
(* Closed model of dynamic-resource allocation inside ONE scheduling pass   *)
(* (property C17, DRA half; DESIGN section 4 "C17", Appendix F "DRA.tla").  *)
(*                                                                         *)
(* World (`dra`, shape of the scenario's `dra` section): in-cluster slices  *)
(* with two exclusive devices that each consume a pool counter, one shared  *)
(* device with a capacity, optionally already allocated in the cluster to  *)
(* claims that stay (no pod consumers / a non-pod consumer) or that migrate *)
(* with a pod being rescheduled in this pass (the seed of allocated devices *)
(* = gatherAllocatedDevices as it is since /repo 576ecc993; W_Releasable =  *)
(* FALSE is the rule before that fix - findings F-C17-1..3 - and rejected); *)
(* per-instance-type templates (type A: one exclusive device, type B: two,  *)
(* each plus a shared template device); NodeClaims superposed over types    *)
(* {A, B}; claims of seven kinds (one / two exclusive in-cluster devices, a *)
(* share of 1, 2 or 3 of the shared device, a template device, a share of the  *)
(* shared template device).                                                  *)
(*                                                                         *)
(* Mechanism = the AllocationTracker as the code keeps it: exclusive        *)
(* in-cluster devices are marked in-flight for (NodeClaim, set of types) -  *)
(* free for another TYPE of the same NodeClaim, taken for every other       *)
(* NodeClaim -; template devices per (NodeClaim, type); shared capacity and *)
(* pool counters per (NodeClaim, type) with the pessimistic maximum over    *)
(* the types folded into one global in-flight figure by DELTA updates on    *)
(* Commit and ReleaseInstanceType.  Allocate runs per surviving type, picks *)
(* ANY feasible devices (superset of the DFS order), drops the types that   *)
(* cannot be served and commits; Prune releases a type; Drop loses a type   *)
(* without telling the tracker (later non-DRA narrowing).                   *)
(* TLC checks that the mechanism implies the per-RESOLUTION counting oracle *)
(* of DRAGuards.tla in every reachable state.  W_* switches weaken one      *)
(* mechanism conjunct each (DRA_Weak*.cfg); TLC must then violate.          *)
(***************************************************************************)
EXTENDS DRAGuards, Json

CONSTANTS
    NCs,          \* NodeClaim ids, e.g. {"N1", "N2"}
    NClaims,      \* number of claims
    Kinds,        \* claim kinds drawn from {"net", "net2", "shm1", "shm2", "shm3", "gpu", "tshm"}
    Pres,         \* pre-allocation variants (subset of 0..5, see PreClaim): none / n0 or a share of m0 held by claims that stay or migrate
    Slots,        \* the in-cluster pool's counter is drawn from this set (each exclusive device consumes 1; 0 = no counter)
    W_OtherNC,    \* TRUE: a device in flight for ANOTHER NodeClaim is taken                       (FALSE = mutation)
    W_SameType,   \* TRUE: a device in flight for the same NodeClaim AND type is taken
    W_Prealloc,   \* TRUE: a device the cluster has allocated is taken
    W_RefCount,   \* TRUE: releasing a type frees a device only when no other type of the NodeClaim references it
    W_CapInflight,\* TRUE: the capacity check counts what other commitments have in flight
    W_CapDelta,   \* TRUE: Commit folds the NEW pessimistic maximum into the in-flight capacity (FALSE: only the first commitment of a NodeClaim counts)
    W_Counters,   \* TRUE: the pool counter is checked
    W_Template,   \* TRUE: a template device allocated for (NodeClaim, type) is taken for that pair
    W_Releasable  \* TRUE: a device leaves the seed of allocated devices only if EVERY claim holding it migrates - the rule of
                  \*       gatherAllocatedDevices since /repo 576ecc993 (FALSE = the rule before that fix, findings F-C17-1..3:
                  \*       "every POD consumer is leaving", whatever else holds the device; kept as a Weak config TLC must reject)

VARIABLES dra, surv, meta, inflight, tmpl, capBy, capIn, ctrBy, ctrLeft, tcapBy
vars == <<dra, surv, meta, inflight, tmpl, capBy, capIn, ctrBy, ctrLeft, tcapBy>>

Types == {"A", "B"}
Dev(n, multi, cap, ctr) == [name |-> n, multi |-> multi, cap |-> cap, ctr |-> ctr]
Claim(i, kind) == [name |-> "c" \o ToString(i), ns |-> "default", kind |-> kind, alloc |-> <<>>, allocZone |-> "", reserved |-> <<>>, others |-> 0]
PC(name, kind, dev, consumed, reserved, others) ==
    [name |-> name, ns |-> "default", kind |-> kind, alloc |-> <<[driver |-> dev[1], pool |-> dev[2], device |-> dev[3], consumed |-> consumed]>>, allocZone |-> "",
     reserved |-> reserved, others |-> others]
N0 == <<"net", "np", "n0">>
M0 == <<"shm", "sp", "m0">>
\* the pod "bd" is being rescheduled in this pass (it sits on a node that is being removed)
LeavingPods == {"bd"}
PreClaim(pre) ==
    CASE pre = 1 -> <<PC("pc", "net", N0, 0, <<>>, 0)>>                                      \* n0 held by an unreserved claim
      [] pre = 2 -> <<PC("pc", "shm2", M0, 2, <<>>, 0)>>                                     \* 2 of m0 consumed by an unreserved claim
      [] pre = 3 -> <<PC("pc", "net", N0, 0, <<"bd">>, 0)>>                                  \* n0 held for the leaving pod only: the claim migrates
      [] pre = 4 -> <<PC("pc", "net", N0, 0, <<"bd">>, 1)>>                                  \* ... and for a non-pod consumer: it stays
      [] pre = 5 -> <<PC("pc", "shm2", M0, 2, <<>>, 0), PC("pm", "shm2", M0, 2, <<"bd">>, 0)>> \* m0: an unreserved share next to a migrating one
      [] OTHER -> <<>>
World(kinds, pre, slots) ==
    [slices |-> <<[name |-> "s1", driver |-> "net", pool |-> "np", slots |-> 0, devices |-> <<Dev("n0", FALSE, 0, IF slots > 0 THEN 1 ELSE 0), Dev("n1", FALSE, 0, IF slots > 0 THEN 1 ELSE 0)>>],
                  [name |-> "s2", driver |-> "shm", pool |-> "sp", slots |-> 0, devices |-> <<Dev("m0", TRUE, 5, 0)>>]>>
                \o (IF slots > 0 THEN <<[name |-> "s3", driver |-> "net", pool |-> "np", slots |-> slots, devices |-> <<>>]>> ELSE <<>>),
     templates |-> <<[type |-> "A", driver |-> "gpu", pool |-> "g", slots |-> 0, devices |-> <<Dev("g0", FALSE, 0, 0)>>],
                     [type |-> "A", driver |-> "tshm", pool |-> "tp", slots |-> 0, devices |-> <<Dev("t0", TRUE, 4, 0)>>],
                     [type |-> "B", driver |-> "gpu", pool |-> "g", slots |-> 0, devices |-> <<Dev("g0", FALSE, 0, 0), Dev("g1", FALSE, 0, 0)>>],
                     [type |-> "B", driver |-> "tshm", pool |-> "tp", slots |-> 0, devices |-> <<Dev("t0", TRUE, 4, 0)>>]>>,
     claims |-> [i \in 1..NClaims |-> Claim(i, kinds[i])] \o PreClaim(pre)]
\* claims are interchangeable (every allocation order is explored anyway): kind MULTISETS, as non-decreasing sequences
KOrd == <<"net", "net2", "shm1", "shm2", "shm3", "gpu", "tshm">>
KIdx(k) == CHOOSE i \in DOMAIN KOrd : KOrd[i] = k
KindSeqs == {s \in [1..NClaims -> Kinds] : \A i \in 1..(NClaims - 1) : KIdx(s[i]) <= KIdx(s[i + 1])}

\* what a kind asks for: candidate device keys (in-cluster or template of type t), how many, consumed share
KDriver(kind) == CASE kind \in {"net", "net2"} -> "net" [] kind \in {"shm1", "shm2", "shm3"} -> "shm" [] kind = "tshm" -> "tshm" [] OTHER -> "gpu"
KCount(kind) == IF kind = "net2" THEN 2 ELSE 1
KShare(kind) == CASE kind = "shm1" -> 1 [] kind = "shm2" -> 2 [] kind = "shm3" -> 3 [] kind = "tshm" -> 3 [] OTHER -> 0
KTemplate(kind) == kind \in {"gpu", "tshm"}
KMulti(kind) == kind \in {"shm1", "shm2", "shm3", "tshm"}
Cands(kind, t) ==
    IF KTemplate(kind) THEN {k \in TplDevKeys(dra, t) : k[1] = KDriver(kind)}
    ELSE {k \in InDevKeys(dra) : k[1] = KDriver(kind)}

\* claims to allocate in this pass: the unallocated ones and the migrating ones
ClaimNames == {dra.claims[i].name : i \in {j \in DOMAIN dra.claims : dra.claims[j].alloc = <<>> \/ MigratingC(dra.claims[j], LeavingPods)}}
\* the oracle's view of the cluster: migrating claims no longer hold their old devices
Eff == EffD(dra, LeavingPods)
(* the SEED of allocated devices the allocator starts from (gatherAllocatedDevices): per device, all claims holding it *)
Holders(k) == {c \in DRange(dra.claims) : \E i \in DOMAIN c.alloc : <<c.alloc[i].driver, c.alloc[i].pool, c.alloc[i].device>> = k}
PodConsumers(k) == UNION {DRange(c.reserved) : c \in Holders(k)}
Dropped(k) == IF W_Releasable THEN \A c \in Holders(k) : MigratingC(c, LeavingPods)
              ELSE PodConsumers(k) # {} /\ PodConsumers(k) \subseteq LeavingPods
SeedKeys == {k \in PreKeys(dra) : ~Dropped(k)}
\* seeded consumed capacity of a shared device: the shares of the claims that do not migrate (nothing if the device was dropped)
SeedCap(k) == IF Dropped(k) THEN 0 ELSE DSum({e \in PreEntries(Eff) : e.k = k}, Cons)
ClaimByName(n) == CHOOSE c \in DRange(dra.claims) : c.name = n
Unallocated == {n \in ClaimNames : n \notin DOMAIN meta}

----------------------------------------------------------------------------
Init ==
    /\ dra \in {World(ks, pre, sl) : ks \in KindSeqs, pre \in Pres, sl \in Slots}
    /\ surv = [n \in NCs |-> Types]
    /\ meta = <<>>                                   \* claim name -> [nodeclaim, devs (set of [it, k, template, consumed])]
    /\ inflight = <<>>                               \* in-cluster exclusive device key -> [nc, types]
    /\ tmpl = [n \in NCs |-> [t \in Types |-> {}]]   \* template devices taken per (NodeClaim, type)
    /\ capBy = [n \in NCs |-> <<>>]                  \* per NodeClaim: type -> consumed of m0 (domain = committed types)
    /\ capIn = 0                                     \* in-flight consumed capacity of m0 (sum over NodeClaims of their pessimistic maximum)
    /\ ctrBy = [n \in NCs |-> <<>>]                  \* per NodeClaim: type -> counter consumption of pool np
    /\ ctrLeft = InSlots(dra, "net", "np") - DSum({k \in SeedKeys : k \in InDevKeys(dra)}, LAMBDA k : InDev(dra, k).ctr)
    /\ tcapBy = [n \in NCs |-> [t \in Types |-> 0]]  \* consumed capacity of the shared template device t0 per (NodeClaim, type)

MaxOf(f) == IF DOMAIN f = {} THEN 0 ELSE LET S == {f[t] : t \in DOMAIN f} IN CHOOSE x \in S : \A y \in S : y <= x
PreCap == SeedCap(M0)

\* is exclusive in-cluster device k taken for (nc, t) as the tracker sees it
Taken(k, nc, t) ==
    \/ (W_Prealloc /\ k \in SeedKeys)
    \/ /\ k \in DOMAIN inflight
       /\ \/ (W_OtherNC /\ inflight[k].nc # nc)
          \/ (W_SameType /\ inflight[k].nc = nc /\ t \in inflight[k].types)
\* the choices for one type: a set of KCount devices, all feasible
Picks(kind, nc, t) ==
    LET cs == Cands(kind, t) IN
    IF KTemplate(kind) /\ ~KMulti(kind) THEN {S \in SUBSET cs : Cardinality(S) = KCount(kind) /\ (W_Template => S \cap tmpl[nc][t] = {})}
    ELSE IF kind = "tshm" THEN {S \in SUBSET cs : Cardinality(S) = 1 /\ tcapBy[nc][t] + KShare(kind) <= 4}
    ELSE IF KMulti(kind) THEN {S \in SUBSET cs : Cardinality(S) = 1 /\ PreCap + (IF W_CapInflight THEN capIn ELSE 0) + KShare(kind) <= 5}
    ELSE {S \in SUBSET cs : /\ Cardinality(S) = KCount(kind)
                            /\ \A k \in S : ~Taken(k, nc, t)
                            /\ (W_Counters /\ HasInSlots(dra, "net", "np") => DSum(S, LAMBDA k : InDev(dra, k).ctr) <= ctrLeft)}

\* Allocate + Commit of claim c for NodeClaim nc: one pick per servable surviving type, the other types are dropped
Allocate(c, nc) ==
    LET kind == ClaimByName(c).kind
        ok == {t \in surv[nc] : Picks(kind, nc, t) # {}}
    IN
    /\ c \in Unallocated /\ ok # {}
    /\ \E f \in [ok -> UNION {Picks(kind, nc, t) : t \in ok}] :
        /\ \A t \in ok : f[t] \in Picks(kind, nc, t)
        /\ LET devsOf(t) == {[it |-> t, driver |-> k[1], pool |-> k[2], device |-> k[3], template |-> KTemplate(kind),
                              consumed |-> IF KMulti(kind) THEN KShare(kind) ELSE -1] : k \in f[t]}
               excl == ~KTemplate(kind) /\ ~KMulti(kind)
               newCap == [t \in DOMAIN capBy[nc] \cup ok |-> (IF t \in DOMAIN capBy[nc] THEN capBy[nc][t] ELSE 0) + (IF t \in ok THEN KShare(kind) ELSE 0)]
               newCtr == [t \in DOMAIN ctrBy[nc] \cup ok |-> (IF t \in DOMAIN ctrBy[nc] THEN ctrBy[nc][t] ELSE 0)
                                                              + (IF t \in ok THEN DSum(f[t], LAMBDA k : InDev(dra, k).ctr) ELSE 0)]
           IN
           /\ meta' = [x \in DOMAIN meta \cup {c} |-> IF x = c THEN [nodeclaim |-> nc, devs |-> UNION {devsOf(t) : t \in ok}] ELSE meta[x]]
           /\ surv' = [surv EXCEPT ![nc] = ok]
           /\ inflight' = IF ~excl THEN inflight
                          ELSE [k \in DOMAIN inflight \cup UNION {f[t] : t \in ok} |->
                                  IF k \notin UNION {f[t] : t \in ok} THEN inflight[k]
                                  ELSE [nc |-> nc, types |-> (IF k \in DOMAIN inflight /\ inflight[k].nc = nc THEN inflight[k].types ELSE {}) \cup {t \in ok : k \in f[t]}]]
           /\ tmpl' = IF KTemplate(kind) /\ ~KMulti(kind) THEN [tmpl EXCEPT ![nc] = [t \in Types |-> IF t \in ok THEN tmpl[nc][t] \cup f[t] ELSE tmpl[nc][t]]] ELSE tmpl
           /\ tcapBy' = IF kind = "tshm" THEN [tcapBy EXCEPT ![nc] = [t \in Types |-> IF t \in ok THEN tcapBy[nc][t] + KShare(kind) ELSE tcapBy[nc][t]]] ELSE tcapBy
           /\ IF KMulti(kind) /\ ~KTemplate(kind)
              THEN /\ capBy' = [capBy EXCEPT ![nc] = newCap]
                   /\ capIn' = capIn + (IF W_CapDelta \/ DOMAIN capBy[nc] = {} THEN (IF MaxOf(newCap) > MaxOf(capBy[nc]) THEN MaxOf(newCap) - MaxOf(capBy[nc]) ELSE 0) ELSE 0)
              ELSE UNCHANGED <<capBy, capIn>>
           /\ IF excl /\ HasInSlots(dra, "net", "np")
              THEN /\ ctrBy' = [ctrBy EXCEPT ![nc] = newCtr]
                   /\ ctrLeft' = ctrLeft - (IF MaxOf(newCtr) > MaxOf(ctrBy[nc]) THEN MaxOf(newCtr) - MaxOf(ctrBy[nc]) ELSE 0)
              ELSE UNCHANGED <<ctrBy, ctrLeft>>
    /\ UNCHANGED dra

Restrict(f, S) == [t \in DOMAIN f \cap S |-> f[t]]
\* ReleaseInstanceType: the NodeClaim can no longer become type t
Prune(nc, t) ==
    LET rest == surv[nc] \ {t} IN
    /\ t \in surv[nc] /\ rest # {}
    /\ surv' = [surv EXCEPT ![nc] = rest]
    /\ inflight' = LET upd == [k \in DOMAIN inflight |-> IF inflight[k].nc = nc THEN [inflight[k] EXCEPT !.types = @ \ {t}] ELSE inflight[k]]
                   IN [k \in {x \in DOMAIN upd : (IF W_RefCount THEN upd[x].types # {} ELSE ~(inflight[x].nc = nc /\ t \in inflight[x].types))} |-> upd[k]]
    /\ tmpl' = [tmpl EXCEPT ![nc][t] = {}]
    /\ tcapBy' = [tcapBy EXCEPT ![nc][t] = 0]
    /\ capBy' = [capBy EXCEPT ![nc] = Restrict(@, Types \ {t})]
    /\ capIn' = capIn - (IF MaxOf(capBy[nc]) > MaxOf(capBy'[nc]) THEN MaxOf(capBy[nc]) - MaxOf(capBy'[nc]) ELSE 0)
    /\ ctrBy' = [ctrBy EXCEPT ![nc] = Restrict(@, Types \ {t})]
    /\ ctrLeft' = ctrLeft + (IF MaxOf(ctrBy[nc]) > MaxOf(ctrBy'[nc]) THEN MaxOf(ctrBy[nc]) - MaxOf(ctrBy'[nc]) ELSE 0)
    /\ meta' = [c \in DOMAIN meta |-> IF meta[c].nodeclaim = nc THEN [meta[c] EXCEPT !.devs = {x \in @ : x.it # t}] ELSE meta[c]]
    /\ UNCHANGED dra
\* the NodeClaim loses a type without the tracker being told (narrowing by a pod without claims)
Drop(nc, t) ==
    /\ t \in surv[nc] /\ surv[nc] \ {t} # {}
    /\ surv' = [surv EXCEPT ![nc] = @ \ {t}]
    /\ UNCHANGED <<dra, meta, inflight, tmpl, capBy, capIn, ctrBy, ctrLeft, tcapBy>>

Next ==
    \/ \E c \in ClaimNames, nc \in NCs : Allocate(c, nc)
    \/ \E nc \in NCs, t \in Types : Prune(nc, t)
    \/ \E nc \in NCs, t \in Types : Drop(nc, t)
Spec == Init /\ [][Next]_vars

\* world generation: only the initial states, the `dra` section printed as JSON (checks/dra_common.py wraps it into a scenario)
GenSpec == Init /\ [][FALSE]_vars
GenPrint == PrintT(<<"BEH", ToJson(dra)>>)

----------------------------------------------------------------------------
(* invariants: the counting oracle per resolution, on the state as the Results would report it *)
Recs == {[claim |-> c, nodeclaim |-> meta[c].nodeclaim, devs |-> LET S == meta[c].devs IN
            \* (any enumeration of the set as a sequence)
            LET RECURSIVE Enum(_)
                Enum(X) == IF X = {} THEN <<>> ELSE LET x == CHOOSE y \in X : TRUE IN <<x>> \o Enum(X \ {x})
            IN Enum(S)] : c \in DOMAIN meta}
Inv_C17_DeviceExclusive == LET R == Recs IN G_C17_DeviceExclusive(Eff, R, surv)
Inv_C17_SharedCapacity == LET R == Recs IN G_C17_SharedCapacity(Eff, R, surv)
Inv_C17_Counters == LET R == Recs IN G_C17_Counters(Eff, R, surv)
\* the tracker's in-flight figures never under-estimate what some resolution consumes
Inv_C17_TrackerCoversEveryResolution ==
    /\ capIn >= 0
    /\ LET R == Recs IN \A r \in Resolutions(surv) : DSum({e \in InEntries(R, r) : DKey(e.x) = <<"shm", "sp", "m0">>}, XCons) <= capIn
=============================================================================
