-------------------------- MODULE Disruption_Trace --------------------------
(***************************************************************************)
(* Trace validation for C07 on traces of harness/drivers/disruption        *)
(* (format: spec/DISRUPT_TRACE.md).                                        *)
(*                                                                         *)
(* Observed state: the latest World snapshot (every NodePool, NodeClaim,   *)
(* Node, Pod, PDB as stored in the API at that instant).  Ghost state: the *)
(* in-memory protections the property talks about but the API does not     *)
(* store - which nodes were marked for deletion, when each node was last   *)
(* nominated, capacity-buffer placements, nodes of commands already        *)
(* started - folded from Env events and started commands.                  *)
(*                                                                         *)
(* Guards:                                                                 *)
(*  G_C07_Eligible      every candidate of every command (Cmd: a method    *)
(*                      run directly; QCmd: a command the real controller  *)
(*                      started in a round) is eligible for the command's  *)
(*                      method at the instant the command was issued       *)
(*                      (= the validation instant), in the snapshot taken  *)
(*                      at/before that instant                             *)
(*  G_C07_Consolidatable every write that turns Consolidatable True is     *)
(*                      justified (consolidateAfter elapsed since the last *)
(*                      pod event, initialized, dynamic pool); and at      *)
(*                      every consolidation / emptiness command the        *)
(*                      condition's truth for candidates the controller    *)
(*                      has reconciled since the last relevant change      *)
(***************************************************************************)
EXTENDS DisruptionGuards, Json, IOUtils

VARIABLES l, st, viol, ntr, done
tvars == <<l, st, viol, ntr, done>>

Trace == ndJsonDeserialize(IOEnv.TRACE)
Ev == Trace[l]
Chk(ok, guard, sig) == IF ok THEN <<>> ELSE <<[line |-> l, guard |-> guard, sig |-> sig]>>

NoWorld == [exists |-> FALSE, pools |-> <<>>, claims |-> <<>>, nodes |-> <<>>, pods |-> <<>>, pdbs |-> <<>>]
St0(cfg) == [cfg |-> cfg, world |-> NoWorld, marked |-> {}, nominated |-> {}, buffer |-> {}, inflight |-> {},
             ctrue |-> {}, fresh |-> {}]

TraceInit == l = 1 /\ st = St0([nominationWindow |-> 20]) /\ viol = <<>> /\ ntr = 0 /\ done = FALSE

Ghost == [marked |-> st.marked \cup st.inflight, nominated |-> st.nominated, buffer |-> st.buffer,
          window |-> st.cfg.nominationWindow]

\* ---- the Consolidatable condition's TRUTH at the decision: for a candidate of a consolidation / emptiness command whose
\* NodeClaim the nodeclaim-disruption controller has reconciled since the last relevant change (st.fresh: no write to the
\* NodeClaim by anyone else and no NodePool edit since; before that the condition may legitimately lag), the pool's
\* CURRENT consolidateAfter must have elapsed since the last pod event (since initialization without one)
AtDecision(cand, t) ==
    LET W == st.world
        c == At(W.claims, {i \in DOMAIN W.claims : W.claims[i].name = cand.claim})
        pool == IF c.exists THEN At(W.pools, {i \in DOMAIN W.pools : W.pools[i].name = c.pool}) ELSE NoObj
        judged == /\ cand.claim \in st.fresh /\ c.exists /\ c.initialized = "True"
                  /\ pool.exists /\ ~pool.static /\ pool.consolidateAfter >= 0
    IN IF ~judged THEN <<>>
       ELSE Chk(t - ConsolidatableRef(c.lastPodEvent, c.initializedAt) >= pool.consolidateAfter, "G_C07_Consolidatable",
                IF c.lastPodEvent >= 0 THEN "at-command:since-pod-event" ELSE "at-command:since-initialized")

\* ---- a command: every candidate must be eligible for the command's method now
CmdChecks(cmd) ==
    LET chk(i) == LET v == ViewOf(cmd.candidates[i], st.world, Ghost) IN
                  Chk(G_C07_Eligible(cmd.method, v, cmd.t), "G_C07_Eligible", Sig(cmd.method, v, cmd.t))
                  \o (IF Consolidation(cmd.method) THEN AtDecision(cmd.candidates[i], cmd.t) ELSE <<>>)
        RECURSIVE all(_)
        all(i) == IF i > Len(cmd.candidates) THEN <<>> ELSE chk(i) \o all(i + 1)
    IN IF cmd.method \in Methods THEN all(1) ELSE <<>>

CandNames(cmd) == UNION {{cmd.candidates[i].node, cmd.candidates[i].claim} \ {"-"} : i \in DOMAIN cmd.candidates}

TWorld == /\ Ev.e = "World"
          /\ st' = [st EXCEPT !.world = [exists |-> TRUE, pools |-> Ev.pools, claims |-> Ev.claims, nodes |-> Ev.nodes,
                                         pods |-> Ev.pods, pdbs |-> Ev.pdbs],
                              !.ctrue = {Ev.claims[i].name : i \in {j \in DOMAIN Ev.claims : Ev.claims[j].consolidatable = "True"}}]
          /\ UNCHANGED viol

TCmd == /\ Ev.e = "Cmd"
        /\ viol' = viol \o CmdChecks(Ev)
        /\ UNCHANGED st

\* a command the controller started: judged like Cmd, then its candidates are in flight
TQCmd == /\ Ev.e = "QCmd"
         /\ viol' = viol \o CmdChecks(Ev)
         /\ st' = [st EXCEPT !.inflight = @ \cup CandNames(Ev)]

TEnv == /\ Ev.e = "Env"
        /\ st' = CASE Ev.what = "Mark"     -> [st EXCEPT !.marked = @ \cup {Ev.name}]
                   [] Ev.what = "Unmark"   -> [st EXCEPT !.marked = @ \ {Ev.name}]
                   [] Ev.what = "Nominate" -> [st EXCEPT !.nominated = @ \cup {<<Ev.name, Ev.t>>}]
                   [] Ev.what = "Buffer"   -> [st EXCEPT !.buffer = {x \in @ : x[1] # Ev.name} \cup {<<Ev.name, Ev.n>>}]
                   [] OTHER -> IF Ev.kind = "NodeClaim" /\ Ev.post.exists
                               THEN [st EXCEPT !.ctrue = IF Ev.post.consolidatable = "True" THEN @ \cup {Ev.name} ELSE @ \ {Ev.name},
                                               !.fresh = @ \ {Ev.name}]
                               ELSE IF Ev.kind = "NodeClaim" THEN [st EXCEPT !.fresh = @ \ {Ev.name}]
                               ELSE IF Ev.kind = "NodePool" THEN [st EXCEPT !.fresh = {}]
                               ELSE st
        /\ UNCHANGED viol

\* ---- a write to a NodeClaim: Consolidatable turning True must be justified
ClaimIdx(name) == {i \in DOMAIN st.world.claims : st.world.claims[i].name = name}
ConsolidatableCheck(name) ==
    LET c == At(st.world.claims, ClaimIdx(name))
        pool == IF c.exists THEN At(st.world.pools, {i \in DOMAIN st.world.pools : st.world.pools[i].name = c.pool}) ELSE NoObj
        ok == /\ c.exists
              /\ G_C07_Consolidatable(Ev.t, c.lastPodEvent, c.initialized = "True", c.initializedAt, pool.exists,
                                      pool.exists /\ pool.static, IF pool.exists THEN pool.consolidateAfter ELSE -1)
    IN Chk(ok, "G_C07_Consolidatable",
           IF ~c.exists THEN "unknown-claim"
           ELSE IF ~pool.exists \/ pool.static \/ pool.consolidateAfter < 0 THEN "pool"
           ELSE IF c.initialized # "True" THEN "uninitialized"
           ELSE IF c.lastPodEvent >= 0 THEN "since-pod-event" ELSE "since-initialized")

TApi == /\ Ev.e = "Api"
        /\ LET isClaim == Ev.kind = "NodeClaim" /\ Ev.err = "-" /\ ~Ev.gone /\ Ev.post.exists
               name == IF isClaim THEN Ev.post.name ELSE "-"
               nowTrue == isClaim /\ Ev.post.consolidatable = "True"
               newly == nowTrue /\ Ev.verb # "create" /\ name \notin st.ctrue
           IN /\ viol' = viol \o (IF newly THEN ConsolidatableCheck(name) ELSE <<>>)
              /\ st' = [st EXCEPT !.ctrue = IF isClaim THEN (IF nowTrue THEN @ \cup {name} ELSE @ \ {name}) ELSE @,
                                  \* anyone else writing the NodeClaim (pod-event stamp, status...) or a NodePool makes the condition stale
                                  !.fresh = IF Ev.kind = "NodePool" /\ Ev.verb # "get" THEN {}
                                            ELSE IF Ev.kind = "NodeClaim" /\ Ev.actor # "nodeclaim.disruption"
                                                 THEN @ \ {name, Ev.name} ELSE @]

TRestart == /\ Ev.e = "Restart"
            /\ st' = [st EXCEPT !.marked = {}, !.nominated = {}, !.buffer = {}, !.inflight = {}]
            /\ UNCHANGED viol
\* the nodeclaim-disruption controller finished a reconcile of a NodeClaim: its condition is up to date again
TEnd == /\ Ev.e = "End"
        /\ st' = IF Ev.controller = "nodeclaim.disruption" /\ Ev.err = "-" THEN [st EXCEPT !.fresh = @ \cup {Ev.object}] ELSE st
        /\ UNCHANGED viol
TOther == Ev.e \in {"Tick", "Begin", "Cands", "Budget", "Obj", "Note", "Prov", "Read", "Mem"} /\ UNCHANGED <<st, viol>>

TraceNext ==
    \/ /\ l <= Len(Trace) /\ l' = l + 1 /\ UNCHANGED done
       /\ \/ (Ev.e = "Cfg" /\ st' = St0(Ev) /\ ntr' = ntr + 1 /\ UNCHANGED viol)
          \/ ((TWorld \/ TCmd \/ TQCmd \/ TEnv \/ TApi \/ TRestart \/ TEnd \/ TOther) /\ UNCHANGED ntr)
    \/ /\ l = Len(Trace) + 1 /\ ~done /\ done' = TRUE
       /\ JsonSerialize(IOEnv.OUT, [viol |-> viol, consumed |-> l - 1, traces |-> ntr])
       /\ UNCHANGED <<l, st, viol, ntr>>

TraceSpec == TraceInit /\ [][TraceNext]_tvars
=============================================================================
