------------------------------ MODULE Topology ------------------------------
(***************************************************************************)
(* Closed model for property C02: one scheduling pass over a small scope -  *)
(* 2 zones, <= 2 existing nodes + <= MaxClaims new NodeClaims (<= 3-4        *)
(* hostnames), NPods batch pods drawn from the inter-pod constraint          *)
(* archetypes (DESIGN Appendix D), a handful of pre-bound pod layouts.       *)
(*                                                                         *)
(* The scheduler is "any sequence of guarded placements": any pending pod    *)
(* next (every dequeue / requeue order), any existing node, any open         *)
(* NodeClaim (narrowing its zone set to any non-empty subset), a new         *)
(* NodeClaim with any zone set, or Fail.  A placement is enabled iff the     *)
(* four C02 guards of TopologyGuards.tla hold at admission time (options o   *)
(* = Strict unless a W_* switch weakens one conjunct).  TLC checks that the  *)
(* guards imply the END-STATE semantics written independently below:         *)
(*   for EVERY resolution of the still undetermined NodeClaim zones          *)
(*   - no required anti-affinity term (either direction, running pods        *)
(*     included) has a matching pod in the same domain,                      *)
(*   - every required affinity term has a matching pod in the same domain,   *)
(*     unless the pod legitimately started the domain (ghost `boot`: it      *)
(*     matched its own term and no match was reachable when it was           *)
(*     admitted),                                                            *)
(*   - for every spread constraint whose carriers are uniform (no node       *)
(*     limits, default policies) the final skew of every domain that         *)
(*     received a carrier in this pass is within maxSkew over the true       *)
(*     domain universe (minDomains: global minimum 0 when too few domains),  *)
(* and (Inv_C02_Admission, ghost `okAdm`) that every admission satisfied the *)
(* Strict guards.  Topology_Weak*.cfg flip one W_* switch each: TLC must     *)
(* then violate an invariant.  Inv_C02_Forms ties the order-free end-state   *)
(* forms the trace spec uses on Results to the same semantics; it is also    *)
(* checked over ALL placement sequences (W_Guard = FALSE, Topology_Free.cfg) *)
(* so that both directions of the equivalences are exercised.                *)
(*                                                                         *)
(* The scenario cfg has the shape of the scheduling driver's scenario JSON,  *)
(* so GenSpec makes TLC enumerate scenarios that are replayed on the real    *)
(* Provisioner.Schedule (checks/C02.py adds the dequeue orders).             *)
(***************************************************************************)
EXTENDS TopologyGuards, Json

CONSTANTS
    NPods,        \* pods per batch
    Archs,        \* archetype ids the batch is drawn from (subset of 1..38)
    Layouts,      \* existing-state ids (subset of 0..14)
    MaxClaims,    \* new NodeClaims per pass
    W_AllDomains, W_Inverse, W_Certain, W_Bootstrap, W_Slack, W_Exclude, W_MatchKeys, W_MinDomains, W_Policies,
    W_Guard       \* TRUE: placements are guarded; FALSE (Topology_Free.cfg): ANY placement - exercises both directions of Inv_C02_Forms

VARIABLES cfg, plc, tg, state, boot, okAdm
vars == <<cfg, plc, tg, state, boot, okAdm>>

O == [Strict EXCEPT !.allDomains = W_AllDomains, !.inverse = W_Inverse, !.certain = W_Certain, !.bootstrap = W_Bootstrap,
                    !.slack = W_Slack, !.exclude = W_Exclude, !.matchKeys = W_MatchKeys, !.minDomains = W_MinDomains, !.policies = W_Policies]

----------------------------------------------------------------------------
(* scenario space *)
Zones == {"a", "b"}
U == [zone |-> <<"a", "b", "~">>, host |-> <<"n1", "n2", "~">>, ct |-> <<"od", "~">>, it |-> <<"T1", "~">>, pool |-> <<"P1", "~">>]
UNum == [k \in DOMAIN U |-> [i \in DOMAIN U[k] |-> NoInt]]
Off(z) == [zone |-> z, ct |-> "od", price |-> 100, available |-> TRUE, rid |-> "", rcap |-> 0, cpuOv |-> 0, memOv |-> 0]
Catalog == <<[name |-> "T1", cpu |-> 8000, mem |-> 16384, pods |-> 110, labels |-> <<>>, ovCpu |-> 0, ovMem |-> 0, offerings |-> <<Off("a"), Off("b")>>]>>
Pools == <<[name |-> "P1", weight |-> 0, reqs |-> <<>>, labels |-> <<>>, taints |-> <<>>, startup |-> <<>>,
            limits |-> [cpu |-> 0, mem |-> 0, nodes |-> -1], types |-> <<>>]>>
Dedicated == [key |-> "dedicated", value |-> "infra", effect |-> "NoSchedule"]
TolDedicated == [key |-> "dedicated", op |-> "Equal", value |-> "infra", effect |-> "NoSchedule"]

E(k, op, vals) == [key |-> k, op |-> op, vals |-> vals, n |-> 0]
Term(key, app) == [key |-> key, sel |-> [app |-> app], ns |-> <<>>, nsAll |-> FALSE, nsSel |-> <<>>, weight |-> 0]
Spr(key, skew) == [key |-> key, maxSkew |-> skew, minDomains |-> 0, when |-> "DoNotSchedule", sel |-> [app |-> "s"], affPol |-> "", taintPol |-> "", matchKeys |-> <<>>]
P0(name) == [name |-> name, ns |-> "default", node |-> "", owner |-> "", cpu |-> 400, mem |-> 64, created |-> 0, labels |-> <<>>,
             sel |-> <<>>, terms |-> <<>>, pref |-> <<>>, tol |-> <<>>, ports |-> <<>>, vols |-> <<>>, aff |-> <<>>, anti |-> <<>>,
             prefAff |-> <<>>, prefAnti |-> <<>>, spread |-> <<>>, terminating |-> FALSE, phase |-> ""]
App(p, a) == [p EXCEPT !.labels = [app |-> a]]
\* the inter-pod constraint archetypes (DESIGN Appendix D)
Arch(a, name) ==
    LET p == P0(name) IN
    CASE a = 1  -> App(p, "x")                                                         \* carries a label others (anti)affine to
      [] a = 2  -> [App(p, "h") EXCEPT !.anti = <<Term("host", "h")>>]                 \* self anti-affinity hostname
      [] a = 3  -> [App(p, "z") EXCEPT !.anti = <<Term("zone", "z")>>]                 \* self anti-affinity zone
      [] a = 4  -> [p EXCEPT !.anti = <<Term("zone", "x")>>]                           \* anti-affinity against app=x (zone)
      [] a = 5  -> [p EXCEPT !.aff = <<Term("zone", "x")>>]                            \* affinity to app=x (zone)
      [] a = 6  -> [App(p, "f") EXCEPT !.aff = <<Term("zone", "f")>>]                  \* self affinity zone
      [] a = 7  -> [App(p, "s") EXCEPT !.spread = <<Spr("zone", 1)>>]                  \* spread zone maxSkew 1
      [] a = 8  -> [App(p, "s") EXCEPT !.spread = <<Spr("zone", 2)>>]                  \* spread zone maxSkew 2
      [] a = 9  -> [App(p, "s") EXCEPT !.spread = <<[Spr("zone", 1) EXCEPT !.minDomains = 3]>>]   \* minDomains 3 (only 2 zones exist)
      [] a = 10 -> [App(p, "s") EXCEPT !.spread = <<Spr("host", 1)>>]                  \* spread hostname
      [] a = 11 -> [App(p, "s") EXCEPT !.spread = <<Spr("zone", 1)>>, !.sel = [zone |-> "a"]]     \* node-affinity-limited spread
      [] a = 12 -> [App(p, "s") EXCEPT !.spread = <<[Spr("zone", 1) EXCEPT !.affPol = "Ignore"]>>, !.sel = [zone |-> "a"]]
      [] a = 13 -> [App(p, "s") EXCEPT !.spread = <<[Spr("zone", 1) EXCEPT !.taintPol = "Honor"]>>]
      [] a = 14 -> [p EXCEPT !.labels = [app |-> "s", rev |-> "2"], !.spread = <<[Spr("zone", 1) EXCEPT !.matchKeys = <<"rev">>]>>]
      [] a = 15 -> [p EXCEPT !.anti = <<[Term("zone", "x") EXCEPT !.ns = <<"other">>]>>]          \* explicit namespaces list
      [] a = 16 -> [App(p, "x") EXCEPT !.ns = "other"]                                 \* app=x in a second namespace
      [] a = 17 -> [p EXCEPT !.anti = <<[Term("host", "x") EXCEPT !.nsAll = TRUE]>>]   \* namespaceSelector {}
      [] a = 18 -> App(p, "s")                                                         \* matches the spread selector, carries nothing
      [] a = 19 -> [p EXCEPT !.aff = <<Term("host", "x")>>]                            \* affinity hostname
      [] a = 20 -> [App(p, "f") EXCEPT !.aff = <<Term("zone", "f")>>, !.sel = [zone |-> "b"]]     \* self affinity, limited to zone b
      [] a = 21 -> [p EXCEPT !.aff = <<[Term("zone", "x") EXCEPT !.nsSel = [tier |-> "prod"]]>>]   \* namespaceSelector by label
      [] a = 22 -> [App(p, "s") EXCEPT !.spread = <<[Spr("zone", 1) EXCEPT !.taintPol = "Honor"]>>, !.tol = <<TolDedicated>>]
      \* namespaces list AND namespaceSelector on one term (union: the list names "other", the selector picks "default")
      [] a = 23 -> [p EXCEPT !.anti = <<[Term("zone", "x") EXCEPT !.ns = <<"other">>, !.nsSel = [tier |-> "dev"]]>>]
      [] a = 24 -> [App(p, "s") EXCEPT !.spread = <<[Spr("zone", 1) EXCEPT !.minDomains = 2]>>]   \* minDomains 2 = the number of zones
      \* ONE term / constraint (same key, selector, namespace = one topology group) carried by pods with DIFFERENT labels:
      \* the carrier matches the selector (26, 29, 31; 7 for spread) / does not (25, 28, 30, 32) / a matcher carries nothing (27; 18)
      [] a = 25 -> [App(p, "g") EXCEPT !.anti = <<Term("host", "d")>>]                 \* guard: hostname anti-affinity against app=d
      [] a = 26 -> [App(p, "d") EXCEPT !.anti = <<Term("host", "d")>>]                 \* db: the SAME term, and matched by it
      [] a = 27 -> App(p, "d")                                                         \* app=d without any term
      [] a = 28 -> [App(p, "g") EXCEPT !.anti = <<Term("zone", "d")>>]                 \* guard, zone
      [] a = 29 -> [App(p, "d") EXCEPT !.anti = <<Term("zone", "d")>>]                 \* db, zone
      [] a = 30 -> [App(p, "g") EXCEPT !.aff = <<Term("zone", "d")>>]                  \* affinity to app=d carried by a pod it does not match
      [] a = 31 -> [App(p, "d") EXCEPT !.aff = <<Term("zone", "d")>>]                  \* the SAME affinity term carried by a pod it matches
      [] a = 32 -> [App(p, "n") EXCEPT !.spread = <<Spr("zone", 1)>>]                  \* the spread constraint of 7 carried by a pod it does not select
      \* spread pods with several DIFFERENT required node-affinity terms (OR): disjoint / overlapping / one unsatisfiable, Honor and Ignore
      [] a = 33 -> [App(p, "s") EXCEPT !.spread = <<Spr("zone", 1)>>, !.terms = <<<<E("zone", "In", <<"a">>)>>, <<E("zone", "In", <<"b">>)>>>>]
      [] a = 34 -> [App(p, "s") EXCEPT !.spread = <<Spr("zone", 1)>>, !.terms = <<<<E("zone", "In", <<"a", "b">>)>>, <<E("zone", "In", <<"b">>)>>>>]
      [] a = 35 -> [App(p, "s") EXCEPT !.spread = <<Spr("zone", 1)>>, !.terms = <<<<E("zone", "In", <<"~">>)>>, <<E("zone", "In", <<"a", "b">>)>>>>]
      \* minDomains with node-affinity-restricted pods: fewer ELIGIBLE domains (1) than minDomains (2) although 2 are registered
      [] a = 37 -> [App(p, "s") EXCEPT !.spread = <<[Spr("zone", 1) EXCEPT !.minDomains = 2]>>, !.sel = [zone |-> "a"]]
      [] a = 38 -> [App(p, "s") EXCEPT !.spread = <<[Spr("zone", 1) EXCEPT !.minDomains = 2]>>, !.terms = <<<<E("zone", "In", <<"b">>)>>>>]
      [] a = 36 -> [App(p, "s") EXCEPT !.spread = <<[Spr("zone", 1) EXCEPT !.affPol = "Ignore"]>>,
                                       !.terms = <<<<E("zone", "In", <<"b">>)>>, <<E("zone", "In", <<"a">>)>>>>]
PodName(i) == "w" \o ToString(i)
Batches == {s \in [1..NPods -> Archs] : \A i \in 1..(NPods - 1) : s[i] <= s[i + 1]}

Res(c, m, p) == [cpu |-> c, mem |-> m, pods |-> p]
NodeRec(name, z, taints, marked) ==
    [name |-> name, stage |-> "initialized", pool |-> "P1", labels |-> [zone |-> z, ct |-> "od", it |-> "T1", pool |-> "P1"],
     taints |-> taints, startup |-> <<>>, ephemeral |-> FALSE, alloc |-> Res(7900, 16384, 110), cap |-> Res(8000, 16384, 110),
     marked |-> marked, deleting |-> FALSE, csi |-> <<>>]
TolAll == [key |-> "", op |-> "Exists", value |-> "", effect |-> ""]
R0(name, node) == [P0(name) EXCEPT !.node = node, !.owner = "rs", !.cpu = 100, !.tol = <<TolAll>>]
N1 == NodeRec("n1", "a", <<>>, FALSE)
N2 == NodeRec("n2", "b", <<>>, FALSE)
\* existing nodes and pre-bound pods
Layout(i) ==
    CASE i = 0 -> [nodes |-> <<>>, pods |-> <<>>]
      [] i = 1 -> [nodes |-> <<N1>>, pods |-> <<App(R0("r1", "n1"), "x")>>]                                            \* a running app=x
      [] i = 2 -> [nodes |-> <<N1>>, pods |-> <<[App(R0("r1", "n1"), "q") EXCEPT !.anti = <<Term("zone", "x")>>]>>]    \* running pod whose anti-affinity binds newcomers
      [] i = 3 -> [nodes |-> <<N1, N2>>, pods |-> <<[App(R0("r1", "n1"), "s") EXCEPT !.spread = <<Spr("zone", 1)>>],
                                                     [App(R0("r2", "n1"), "s") EXCEPT !.spread = <<Spr("zone", 1)>>]>>]   \* imbalance a:2 b:0
      [] i = 4 -> [nodes |-> <<NodeRec("n1", "a", <<>>, TRUE), N2>>,
                   pods |-> <<[App(R0("r1", "n1"), "s") EXCEPT !.spread = <<Spr("zone", 1)>>]>>]                         \* rescheduled carrier (node marked)
      [] i = 5 -> [nodes |-> <<N1, N2>>, pods |-> <<[App(R0("r1", "n1"), "s") EXCEPT !.terminating = TRUE]>>]          \* terminating pod
      [] i = 6 -> [nodes |-> <<N1, N2>>, pods |-> <<[R0("r1", "n1") EXCEPT !.labels = [app |-> "s", rev |-> "1"]],
                                                     [R0("r2", "n1") EXCEPT !.labels = [app |-> "s", rev |-> "1"]]>>]   \* previous revision (matchLabelKeys)
      [] i = 7 -> [nodes |-> <<NodeRec("n1", "a", <<Dedicated>>, FALSE), N2>>, pods |-> <<App(R0("r1", "n1"), "s"), App(R0("r2", "n1"), "s")>>]  \* tainted node
      [] i = 8 -> [nodes |-> <<N1>>, pods |-> <<[App(R0("r1", "n1"), "x") EXCEPT !.ns = "other"]>>]                    \* app=x in the other namespace
      [] i = 9 -> [nodes |-> <<N1, N2>>, pods |-> <<[App(R0("r1", "n2"), "h") EXCEPT !.anti = <<Term("host", "h")>>], App(R0("r2", "n1"), "f")>>]
      \* running carriers of the shared terms
      [] i = 10 -> [nodes |-> <<N1, N2>>, pods |-> <<[App(R0("r1", "n1"), "g") EXCEPT !.anti = <<Term("host", "d")>>]>>]    \* running guard (hostname)
      [] i = 11 -> [nodes |-> <<N1, N2>>, pods |-> <<[App(R0("r1", "n1"), "d") EXCEPT !.anti = <<Term("host", "d")>>]>>]    \* running db (hostname)
      [] i = 12 -> [nodes |-> <<N1>>, pods |-> <<[App(R0("r1", "n1"), "g") EXCEPT !.anti = <<Term("zone", "d")>>]>>]        \* running guard (zone)
      [] i = 14 -> [nodes |-> <<N1, N2>>, pods |-> <<App(R0("r1", "n1"), "s"), App(R0("r2", "n2"), "s")>>]                    \* app=s running in both zones
      [] i = 13 -> [nodes |-> <<N1, N2>>, pods |-> <<App(R0("r1", "n1"), "d"), [App(R0("r2", "n2"), "n") EXCEPT !.spread = <<Spr("zone", 1)>>]>>]  \* running app=d / non-selected carrier

Scenario(lay, batch) ==
    [name |-> "tlc-topo-" \o ToString(lay) \o "-" \o ToString(batch),
     universe |-> U, unum |-> UNum, types |-> Catalog, pools |-> Pools, nodes |-> Layout(lay).nodes,
     ds |-> <<>>, scs |-> <<>>, pvs |-> <<>>, pvcs |-> <<>>,
     nss |-> <<[name |-> "default", labels |-> [tier |-> "dev"]], [name |-> "other", labels |-> [tier |-> "prod"]]>>,
     pods |-> Layout(lay).pods \o [i \in 1..NPods |-> Arch(batch[i], PodName(i))]]
ScenarioSpace == {Scenario(lay, b) : lay \in Layouts, b \in Batches}

----------------------------------------------------------------------------
(* requirement records of a NodeClaim (same shape as the driver's ReqRec) *)
MkReq(k, S) == [defined |-> TRUE, op |-> "In", vals |-> <<>>, has |-> [i \in DOMAIN U[k] |-> U[k][i] \in S], absent |-> FALSE, min |-> -1]
ClaimReqs(Z) == [zone |-> MkReq("zone", Z), pool |-> MkReq("pool", {"P1"}), ct |-> MkReq("ct", {"od"}), it |-> MkReq("it", {"T1"}),
                 host |-> MkReq("host", {})]
ZoneSets == (SUBSET Zones) \ {{}}

BatchOf(c) == {PKey(p) : p \in {x \in Range(c.pods) : x.node = "" \/ (KnownNode(c, x.node) /\ (NodeByName(c, x.node).marked \/ NodeByName(c, x.node).deleting))}}
Batch == BatchOf(cfg)
Pending == {k \in Batch : state[k] = "pending"}
World(t) == [cfg |-> cfg, batch |-> Batch, plc |-> plc, tg |-> t]
ClaimIds == {id \in DOMAIN tg : tg[id].kind = "claim"}
\* the model's domain universe: what the pool can provision (zones) - hostnames are handled by the guard itself
UL(s) == IF s.key = "zone" THEN Zones ELSE {}

\* node-level feasibility (C01's business, kept minimal): the target's zones are admitted by the pod, taints tolerated
NodeOK(p, x) ==
    /\ \A v \in TDom(cfg, x, "zone") : PodAllowsKey(cfg, p, "zone", v)
    /\ TaintsTolerated(p.tol, IF x.kind = "node" THEN NodeByName(cfg, x.node).taints ELSE PoolTaints(cfg, x.pool))

Init ==
    /\ cfg \in ScenarioSpace
    /\ plc = <<>> /\ tg = <<>> /\ boot = {} /\ okAdm = TRUE
    /\ state = [k \in BatchOf(cfg) |-> "pending"]

Guards(o, W, p, x) ==
    /\ G_C02_Anti(o, W, p, x) /\ G_C02_AntiInverse(o, W, p, x) /\ G_C02_Affinity(o, W, p, x)
    /\ G_C02_Spread(o, W, p, x, UL)

\* ghost: the affinity terms p legitimately bootstraps (judged with the Strict semantics, whatever o admits)
LegitBoot(W, p, x) == {<<PKey(p), i>> : i \in {j \in DOMAIN p.aff : LET a == AffParts(Strict, W, p, x, p.aff[j]) IN ~a.matched /\ a.self /\ a.lonely}}

Place(k, x) ==
    LET p == PodByKey(cfg, k)
        tg2 == [id \in DOMAIN tg \cup {x.id} |-> IF id = x.id THEN x ELSE tg[id]]
        W == World(tg2)
    IN /\ NodeOK(p, x)
       /\ (W_Guard => Guards(O, W, p, x))
       /\ plc' = Append(plc, [pod |-> k, tid |-> x.id, at |-> x])
       /\ tg' = tg2
       /\ state' = [state EXCEPT ![k] = "placed"]
       /\ boot' = boot \cup LegitBoot(W, p, x)
       /\ okAdm' = (okAdm /\ Guards(Strict, W, p, x))
       /\ UNCHANGED cfg

Targets ==
    {NodeT(cfg.nodes[i].name) : i \in {j \in DOMAIN cfg.nodes : ~cfg.nodes[j].marked /\ ~cfg.nodes[j].deleting}}
    \* an open NodeClaim may only be NARROWED
    \cup UNION {{ClaimT(id, "P1", ClaimReqs(Z)) : Z \in {Y \in ZoneSets : Y \subseteq TDom(cfg, tg[id], "zone")}} : id \in ClaimIds}
    \cup (IF Cardinality(ClaimIds) < MaxClaims THEN {ClaimT("c" \o ToString(Cardinality(ClaimIds) + 1), "P1", ClaimReqs(Z)) : Z \in ZoneSets} ELSE {})

Fail(k) == state' = [state EXCEPT ![k] = "failed"] /\ UNCHANGED <<cfg, plc, tg, boot, okAdm>>

Next == \E k \in Pending : (\E x \in Targets : Place(k, x)) \/ Fail(k)
Spec == Init /\ [][Next]_vars

GenSpec == Init /\ [][FALSE]_vars
GenPrint == PrintT(<<"BEH", ToJson(cfg)>>)

----------------------------------------------------------------------------
(* END-STATE semantics, independent of the guards *)
Wn == World(tg)
Resolutions == {r \in [ClaimIds -> Zones] : \A c \in ClaimIds : r[c] \in TDom(cfg, tg[c], "zone")}
\* the domain of key k of location T under resolution r ({} = no such label)
DomR(r, T, k) == IF T.kind = "claim" /\ k = "zone" THEN {r[T.id]} ELSE TDom(cfg, T, k)
PresentS == Present(Strict, Wn)
PlacedS == PlacedPods(Wn)
SameDom(r, p, q, k) == DomR(r, Loc(Wn, p), k) \cap DomR(r, Loc(Wn, q), k) # {}
AntiHolds(r) ==
    \A p \in PresentS : \A q \in PresentS :
        (PKey(p) # PKey(q) /\ (p \in PlacedS \/ q \in PlacedS)) =>
            \A i \in DOMAIN p.anti : TermMatches(cfg, p.anti[i], p, q) => ~SameDom(r, p, q, p.anti[i].key)
AffHolds(r) ==
    \A p \in PlacedS : \A i \in DOMAIN p.aff :
        \/ <<PKey(p), i>> \in boot
        \/ \E q \in PresentS : PKey(q) # PKey(p) /\ TermMatches(cfg, p.aff[i], p, q) /\ SameDom(r, p, q, p.aff[i].key)
\* exact skew for uniform constraints
Uniform(p, s) ==
    /\ s.affPol = "" /\ s.taintPol = "" /\ s.key = "zone"
    /\ \A q \in PresentS : SpreadMatches(Strict, s, p, q) =>
          /\ q.sel = <<>> /\ q.terms = <<>>
          /\ (q \in PlacedS => Carries(q, s, p) /\ \A i \in CarriesIdx(q, s, p) : q.spread[i] = s)
    /\ \A n \in Range(cfg.nodes) : n.taints = <<>>
CountIn(r, p, s, d) == Cardinality({q \in PresentS : SpreadMatches(Strict, s, p, q) /\ DomR(r, Loc(Wn, q), s.key) = {d}})
SkewHolds(r) ==
    \A p \in PlacedS : \A i \in DnsIdx(p) :
        LET s == p.spread[i] IN
        (Uniform(p, s) /\ SpreadMatches(Strict, s, p, p)) =>
            \A d \in DomR(r, Loc(Wn, p), s.key) :
                LET mn == IF s.minDomains > Cardinality(Zones) THEN 0 ELSE MinS({CountIn(r, p, s, e) : e \in Zones})
                IN CountIn(r, p, s, d) - mn <= s.maxSkew
\* judged on the states in which the pass is over (Fail makes every prefix of a pass a complete pass, so nothing is lost)
Over == Pending = {}
Inv_C02_EndState == Over => \A r \in Resolutions : AntiHolds(r) /\ AffHolds(r) /\ SkewHolds(r)
Inv_C02_Admission == okAdm

(* the order-free end-state forms Topology_Trace evaluates on Results agree with the semantics: they flag nothing the    *)
(* resolutions accept (soundness: no false alarm) and, for anti-affinity, everything the resolutions reject.            *)
Inv_C02_Forms ==
    Over =>
    /\ (EndAntiConf(Strict, Wn) = {}) <=> (\A r \in Resolutions : AntiHolds(r))
    /\ (\A r \in Resolutions : AffHolds(r)) => EndAffBad(Strict, Wn) = {}
    /\ okAdm => EndSpreadBad(Strict, Wn, LAMBDA q, s : {}) = {}       \* exactly as Topology_Trace uses it (no logged universe)
=============================================================================
