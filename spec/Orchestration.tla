------------------------------ MODULE Orchestration ------------------------------
(***************************************************************************)
(* Orchestration of disruption commands (property C08).                    *)
(*                                                                         *)
(* State = what the statement talks about: per node the disruption taint,  *)
(* the DisruptionReason condition, the in-memory deletion mark and whether *)
(* its NodeClaim has been deleted; per replacement NodeClaim whether it    *)
(* exists / reports Initialized / is gone; the queue's map candidate ->    *)
(* command and each command's latched per-replacement observation; a       *)
(* logical clock; fault and restart budgets.                               *)
(*                                                                         *)
(* One action per linearization point of                                   *)
(*   Queue.StartCommand : Begin (HasAny) - Taint(c) - SetReason(c) -       *)
(*                        CreateRepl(r) - Mark - Enqueue                   *)
(*   Queue.Reconcile    : QBegin - Observe(r) (latched) - DeleteCand(c) -  *)
(*                        the deferred timeout wrap (Ret) - rollback       *)
(*                        Untaint(c) - ClearReason(c) - Complete (Unmark)  *)
(*   Controller.Reconcile (stale cleanup): CleanBegin - CleanTaint(n) -    *)
(*                        CleanReason(n)                                   *)
(* every API call can fail (budget MaxFaults); the environment initialises *)
(* or removes replacements and advances the clock between any two of them; *)
(* Restart wipes all in-memory state between any two of them.              *)
(*                                                                         *)
(* CodeMode = "wrapAlways" (queue.go before fix 43007e763, F-C08-1): the    *)
(* command timed out whenever the retry window has passed, even when the   *)
(* deletes just succeeded.  CodeMode = "code" (queue.go as it is now): only *)
(* an unfinished pass can time out (what the statement wants).             *)
(***************************************************************************)
EXTENDS OrchestrationGuards, Json

CONSTANTS Nodes, Cmds, MaxRepl,
          T, MaxNow,               \* retry window and clock bound in logical units
          MaxFaults, MaxRestarts,
          DelFaults,               \* BOOLEAN: candidate deletes may fail (persistently, i.e. beyond the client's retries)
          CodeMode,                \* "code" (as it is now) | "wrapAlways" (before the fix of F-C08-1; TLC must reject it)
          MaxCandVanish,           \* how many candidates may disappear (Node + NodeClaim, from the API and the cluster state)
          Weak,                    \* "none" | a spec mutation that TLC must reject
          Serial,                   \* TRUE: controller invocations do not overlap one another (behaviour generator)
          Gen, MaxLen              \* Gen: record the history h (bounded by MaxLen)

VARIABLES cands, need,   \* scenario: candidates and number of replacements of each command
          cmd,           \* per command: program counter and in-memory progress
          rs,            \* per command, per replacement: none | created | init | gone | cfail
          node,          \* per node: tainted, reason, marked (in memory), deleting (NodeClaim deleted)
          qmap,          \* queue map: node -> command | "-"
          g,             \* ghost per command: failure met, candidates deleted, order, guard results, replacements ever Initialized
          clean,         \* stale-cleanup invocation
          now, faults, restarts, h
vars == <<cands, need, cmd, rs, node, qmap, g, clean, now, faults, restarts, h>>

Idx == 1..MaxRepl
StartPhases == {"mark", "create", "markdel", "enq"}
RecPhases == {"rec", "del", "rb"}
Terminal == {"refused", "startFailed", "succeeded", "failed", "lost"}
InProgress(k) == cmd[k].pc \in StartPhases \cup RecPhases \cup {"queued"}
CtrlBusy == (\E k \in Cmds : cmd[k].pc \in StartPhases) \/ clean.pc # "idle"
AnyBusy == CtrlBusy \/ \E k \in Cmds : cmd[k].pc \in RecPhases
MayStart == Serial => ~AnyBusy

NoneN == [n \in Nodes |-> "-"]
Cmd0 == [pc |-> "none", cs |-> NoneN, cur |-> {}, oi |-> 0, werr |-> FALSE, ds |-> NoneN, rb |-> NoneN,
         latched |-> {}, startedAt |-> 0]
G0 == [failure |-> "none", deleted |-> {}, order |-> "-", delOK |-> TRUE, delErr |-> FALSE, everInit |-> {},
       rbFault |-> FALSE, rbOK |-> TRUE, partial |-> FALSE]
Node0 == [tainted |-> FALSE, reason |-> FALSE, marked |-> FALSE, deleting |-> FALSE, gone |-> FALSE]
GoneN == [tainted |-> FALSE, reason |-> FALSE, marked |-> FALSE, deleting |-> FALSE, gone |-> TRUE]
\* position of a node in a command's candidate list (UnmarkForDeletion walks the list in order)
Rank(n) == IF n = "n1" THEN 1 ELSE IF n = "n2" THEN 2 ELSE 3
Clean0 == [pc |-> "idle", st |-> NoneN]

Init == /\ cands \in {f \in [Cmds -> (SUBSET Nodes) \ {{}}] : "n1" \in f["A"]}
        /\ need \in [Cmds -> 0..MaxRepl]
        /\ cmd = [k \in Cmds |-> Cmd0]
        /\ rs = [k \in Cmds |-> [i \in Idx |-> "none"]]
        /\ node = [n \in Nodes |-> Node0]
        /\ qmap = [n \in Nodes |-> "-"]
        /\ g = [k \in Cmds |-> G0]
        /\ clean = Clean0
        /\ now = 0 /\ faults = 0 /\ restarts = 0 /\ h = <<>>

Hist(e) == (Gen => Len(h) < MaxLen) /\ h' = IF Gen THEN Append(h, e) ELSE h
SetToSeq(S) == LET RECURSIVE f(_) f(X) == IF X = {} THEN <<>> ELSE LET x == CHOOSE y \in X : TRUE IN <<x>> \o f(X \ {x}) IN f(S)
Ev(a, k, x, f) == [a |-> a, k |-> k, x |-> x, f |-> f]
FaultOK(f) == f \in {"ok", "fail"} /\ (f = "fail" => faults < MaxFaults)
Charge(f) == faults' = IF f = "fail" THEN faults + 1 ELSE faults
Created(k) == {i \in 1..need[k] : rs[k][i] \in {"created", "init", "gone"}}
Subj(k) == IF cmd[k].pc = "mark" THEN cands[k] ELSE cmd[k].cur
Others(k) == {Subj(j) : j \in {x \in Cmds \ {k} : InProgress(x)}}

\* ------------------------------------------------------------------ the disruption controller computes a command
Build(k) ==
    /\ cmd[k].pc = "none" /\ ~CtrlBusy /\ MayStart
    /\ \A n \in cands[k] : ~node[n].marked /\ ~node[n].deleting /\ ~node[n].gone /\ qmap[n] = "-"
    /\ cmd' = [cmd EXCEPT ![k].pc = "idle"]
    /\ UNCHANGED <<cands, need, rs, node, qmap, g, clean, now, faults, restarts>>
    /\ Hist(Ev("Build", k, "-", "ok"))

\* ------------------------------------------------------------------ Queue.StartCommand
AfterMark == IF Weak = "markBeforeCreate" THEN "markdel" ELSE "create"
AfterMarkDel == IF Weak = "markBeforeCreate" THEN "create" ELSE "enq"
AfterCreate == IF Weak = "markBeforeCreate" THEN "enq" ELSE "markdel"

Begin(k) ==
    /\ cmd[k].pc = "idle" /\ ~CtrlBusy /\ MayStart
    /\ LET refused == Weak # "noHasAny" /\ \E c \in cands[k] : qmap[c] # "-" IN
       cmd' = [cmd EXCEPT ![k].pc = IF refused THEN "refused" ELSE "mark",
                          ![k].cs = [n \in Nodes |-> IF ~refused /\ n \in cands[k] THEN "todo" ELSE "-"],
                          ![k].startedAt = now]
    /\ UNCHANGED <<cands, need, rs, node, qmap, g, clean, now, faults, restarts>>
    /\ Hist(Ev("Begin", k, "-", "ok"))

Taint(k, n, f) ==
    /\ cmd[k].pc = "mark" /\ cmd[k].cs[n] = "todo" /\ FaultOK(f) /\ Charge(f)
    /\ cmd' = [cmd EXCEPT ![k].cs[n] = IF f = "ok" THEN "tainted" ELSE "err"]
    /\ node' = IF f = "ok" /\ ~node[n].gone THEN [node EXCEPT ![n].tainted = TRUE] ELSE node
    /\ UNCHANGED <<cands, need, rs, qmap, g, clean, now, restarts>>
    /\ Hist(Ev("Taint", k, n, f))

SetReason(k, n, f) ==
    /\ cmd[k].pc = "mark" /\ cmd[k].cs[n] = "tainted" /\ FaultOK(f) /\ Charge(f)
    /\ cmd' = [cmd EXCEPT ![k].cs[n] = IF f = "ok" THEN "ok" ELSE "err"]
    /\ node' = IF f = "ok" /\ ~node[n].gone THEN [node EXCEPT ![n].reason = TRUE] ELSE node
    /\ UNCHANGED <<cands, need, rs, qmap, g, clean, now, restarts>>
    /\ Hist(Ev("SetReason", k, n, f))

\* markDisrupted returned: with replacements (or nothing marked) any error aborts the command, without rollback
EndMark(k) ==
    /\ cmd[k].pc = "mark" /\ \A n \in cands[k] : cmd[k].cs[n] \in {"ok", "err"}
    /\ LET okset == {n \in cands[k] : cmd[k].cs[n] = "ok"}
           fails == okset # cands[k] /\ (need[k] > 0 \/ okset = {}) IN
       /\ cmd' = [cmd EXCEPT ![k].pc = IF fails THEN "startFailed" ELSE AfterMark, ![k].cur = okset]
       /\ g' = [g EXCEPT ![k].failure = IF fails THEN "mark" ELSE @]
    /\ UNCHANGED <<cands, need, rs, node, qmap, clean, now, faults, restarts>>
    /\ Hist(Ev("EndMark", k, "-", "ok"))

CreateRepl(k, i, f) ==
    /\ cmd[k].pc = "create" /\ i \in 1..need[k] /\ rs[k][i] = "none" /\ FaultOK(f) /\ Charge(f)
    /\ rs' = [rs EXCEPT ![k][i] = IF f = "ok" THEN "created" ELSE "cfail"]
    /\ UNCHANGED <<cands, need, cmd, node, qmap, g, clean, now, restarts>>
    /\ Hist(Ev("CreateRepl", k, ToString(i), f))

\* CreateNodeClaims returned: any failed create aborts the command (created siblings stay, nothing is rolled back here)
EndCreate(k) ==
    /\ cmd[k].pc = "create" /\ \A i \in 1..need[k] : rs[k][i] # "none"
    /\ LET fails == \E i \in 1..need[k] : rs[k][i] = "cfail" IN
       /\ cmd' = [cmd EXCEPT ![k].pc = IF fails THEN "startFailed" ELSE AfterCreate]
       /\ g' = [g EXCEPT ![k].failure = IF fails /\ @ = "none" THEN "create" ELSE @]
    /\ UNCHANGED <<cands, need, rs, node, qmap, clean, now, faults, restarts>>
    /\ Hist(Ev("EndCreate", k, "-", "ok"))

Mark(k) ==
    /\ cmd[k].pc = "markdel"
    /\ node' = [n \in Nodes |-> IF n \in cmd[k].cur /\ ~node[n].gone THEN [node[n] EXCEPT !.marked = TRUE] ELSE node[n]]
    /\ cmd' = [cmd EXCEPT ![k].pc = AfterMarkDel]
    /\ UNCHANGED <<cands, need, rs, qmap, g, clean, now, faults, restarts>>
    /\ Hist(Ev("Mark", k, "-", "ok"))

Enqueue(k) ==
    /\ cmd[k].pc = "enq"
    /\ qmap' = [n \in Nodes |-> IF n \in cmd[k].cur THEN k ELSE qmap[n]]
    /\ cmd' = [cmd EXCEPT ![k].pc = "queued"]
    /\ UNCHANGED <<cands, need, rs, node, g, clean, now, faults, restarts>>
    /\ Hist(Ev("Enqueue", k, "-", "ok"))

\* ------------------------------------------------------------------ Queue.Reconcile / waitOrTerminate
QBegin(k) ==
    /\ cmd[k].pc = "queued" /\ (\E n \in Nodes : qmap[n] = k) /\ MayStart
    /\ cmd' = [cmd EXCEPT ![k].pc = "rec", ![k].oi = 1, ![k].werr = FALSE]
    /\ g' = [g EXCEPT ![k].delErr = FALSE]      \* per pass
    /\ UNCHANGED <<cands, need, rs, node, qmap, clean, now, faults, restarts>>
    /\ Hist(Ev("QBegin", k, "-", "ok"))

\* the pass returns `kind` (nil | rec(overable) | unrec(overable)); the deferred wrap turns it into a timeout
Ret(k, kind, why) ==
    LET timedOut == now - cmd[k].startedAt > T
        wrap == timedOut /\ (CodeMode = "wrapAlways" \/ kind # "nil")
        final == IF kind = "unrec" \/ wrap THEN "unrec" ELSE kind
        cause == IF kind = "unrec" THEN why ELSE "timeout" IN
    /\ cmd' = [cmd EXCEPT ![k].pc = IF final = "nil" THEN "succeeded" ELSE IF final = "rec" THEN "queued" ELSE "rb",
                          ![k].rb = [n \in Nodes |-> IF final = "unrec" /\ n \in cmd[k].cur THEN "u" ELSE "-"]]
    /\ qmap' = IF final = "nil" THEN [n \in Nodes |-> IF n \in cmd[k].cur THEN "-" ELSE qmap[n]] ELSE qmap
    /\ g' = IF final = "unrec"
            THEN [g EXCEPT ![k].failure = IF @ = "none" THEN cause ELSE @,
                           ![k].order = IF g[k].deleted # {} /\ @ = "-" THEN "del-first" ELSE @,
                           ![k].partial = @ \/ (g[k].failure = "none" /\ g[k].delErr)]
            ELSE g

Observe(k, f) ==
    /\ cmd[k].pc = "rec" /\ cmd[k].oi <= need[k]
    /\ LET i == cmd[k].oi IN
       IF i \in cmd[k].latched
       THEN /\ f = "ok" /\ cmd' = [cmd EXCEPT ![k].oi = i + 1]
            /\ UNCHANGED <<qmap, g, faults>>
       ELSE /\ FaultOK(f) /\ Charge(f)
            /\ LET ready == rs[k][i] = "init" \/ (Weak = "vanishedCountsAsReady" /\ rs[k][i] = "gone") IN
               IF f = "ok" /\ rs[k][i] = "gone" /\ ~ready
               THEN Ret(k, "unrec", "vanish")
               ELSE /\ cmd' = [cmd EXCEPT ![k].oi = i + 1,
                                          ![k].werr = @ \/ f = "fail" \/ ~ready,
                                          ![k].latched = IF f = "ok" /\ ready THEN @ \cup {i} ELSE @]
                    /\ UNCHANGED <<qmap, g>>
    /\ UNCHANGED <<cands, need, rs, node, clean, now, restarts>>
    /\ Hist(Ev("Observe", k, ToString(cmd[k].oi), IF cmd[k].oi \in cmd[k].latched THEN "skip" ELSE f))

EndObserve(k) ==
    /\ cmd[k].pc = "rec" /\ cmd[k].oi > need[k]
    /\ LET wait == IF Weak = "anyInitialized" THEN need[k] > 0 /\ cmd[k].latched = {} ELSE cmd[k].werr IN
       IF wait THEN Ret(k, "rec", "wait")
       ELSE /\ cmd' = [cmd EXCEPT ![k].pc = "del", ![k].ds = [n \in Nodes |-> IF n \in cmd[k].cur THEN "todo" ELSE "-"]]
            /\ UNCHANGED <<qmap, g>>
    /\ UNCHANGED <<cands, need, rs, node, clean, now, faults, restarts>>
    /\ Hist(Ev("EndObserve", k, "-", "ok"))

DeleteCand(k, n, f) ==
    /\ cmd[k].pc = "del" /\ cmd[k].ds[n] = "todo" /\ FaultOK(f) /\ Charge(f) /\ (f = "fail" => DelFaults)
    /\ cmd' = [cmd EXCEPT ![k].ds[n] = IF f = "ok" THEN "done" ELSE "err"]
    /\ node' = IF f = "ok" /\ ~node[n].gone THEN [node EXCEPT ![n].deleting = TRUE] ELSE node
    /\ g' = IF f = "ok" /\ node[n].gone THEN g
            ELSE IF f = "ok"
            THEN [g EXCEPT ![k].deleted = @ \cup {n},
                           ![k].order = IF g[k].failure # "none" /\ @ = "-" THEN "fail-first" ELSE @,
                           ![k].delOK = @ /\ G_C08_DeleteAfterAllInitialized(need[k], 1..need[k], Created(k), g[k].everInit)]
            ELSE [g EXCEPT ![k].delErr = TRUE]
    /\ UNCHANGED <<cands, need, rs, qmap, clean, now, restarts>>
    /\ Hist(Ev("DeleteCand", k, n, f))

EndDelete(k) ==
    /\ cmd[k].pc = "del" /\ \A n \in cmd[k].cur : cmd[k].ds[n] \in {"done", "err"}
    /\ IF \E n \in cmd[k].cur : cmd[k].ds[n] = "err" THEN Ret(k, "rec", "delete") ELSE Ret(k, "nil", "-")
    /\ UNCHANGED <<cands, need, rs, node, clean, now, faults, restarts>>
    /\ Hist(Ev("EndDelete", k, "-", "ok"))

\* rollback of a failed command: untaint all, then clear the condition of all, then unmark and leave the queue
Untaint(k, n, f) ==
    /\ cmd[k].pc = "rb" /\ cmd[k].rb[n] = "u" /\ FaultOK(f) /\ Charge(f)
    /\ cmd' = [cmd EXCEPT ![k].rb[n] = "w"]
    /\ node' = IF f = "ok" /\ Weak # "noUntaint" THEN [node EXCEPT ![n].tainted = FALSE] ELSE node
    /\ g' = [g EXCEPT ![k].rbFault = @ \/ f = "fail"]
    /\ UNCHANGED <<cands, need, rs, qmap, clean, now, restarts>>
    /\ Hist(Ev("Untaint", k, n, f))

ClearReason(k, n, f) ==
    /\ cmd[k].pc = "rb" /\ cmd[k].rb[n] = "w" /\ (\A m \in Nodes : cmd[k].rb[m] # "u") /\ FaultOK(f) /\ Charge(f)
    /\ cmd' = [cmd EXCEPT ![k].rb[n] = "d"]
    /\ node' = IF f = "ok" THEN [node EXCEPT ![n].reason = FALSE] ELSE node
    /\ g' = [g EXCEPT ![k].rbFault = @ \/ f = "fail"]
    /\ UNCHANGED <<cands, need, rs, qmap, clean, now, restarts>>
    /\ Hist(Ev("ClearReason", k, n, f))

Complete(k) ==
    /\ cmd[k].pc = "rb" /\ \A n \in cmd[k].cur : cmd[k].rb[n] = "d"
    /\ IF Weak = "requeueOnRollbackError" /\ g[k].rbFault
       THEN \* spec mutation: a rollback that hit an API error keeps the command (queued, marked) "to retry the rollback"
            /\ cmd' = [cmd EXCEPT ![k].pc = "queued"]
            /\ g' = [g EXCEPT ![k].rbFault = FALSE]
            /\ UNCHANGED <<node, qmap>>
       ELSE /\ LET reached(n) == Weak # "unmarkStopsAtMissing" \/ ~\E m \in cmd[k].cur : node[m].gone /\ Rank(m) < Rank(n) IN
               node' = [n \in Nodes |-> IF n \in cmd[k].cur /\ Weak # "noUnmark" /\ reached(n) THEN [node[n] EXCEPT !.marked = FALSE] ELSE node[n]]
            /\ qmap' = [n \in Nodes |-> IF n \in cmd[k].cur THEN "-" ELSE qmap[n]]
            /\ cmd' = [cmd EXCEPT ![k].pc = "failed"]
            /\ g' = [g EXCEPT ![k].rbOK = g[k].rbFault \/ Live_C08_RolledBack({node'[n] : n \in {m \in cmd[k].cur : ~node[m].deleting /\ ~node[m].gone}})]
    /\ UNCHANGED <<cands, need, rs, clean, now, faults, restarts>>
    /\ Hist(Ev("Complete", k, "-", "ok"))

\* ------------------------------------------------------------------ Controller.Reconcile: stale taint / condition cleanup
Outdated(n) == qmap[n] = "-" /\ ~node[n].marked /\ ~node[n].deleting /\ ~node[n].gone
CleanBegin ==
    /\ Weak # "noCleanup"
    /\ clean.pc = "idle" /\ ~CtrlBusy /\ MayStart
    /\ \E n \in Nodes : Outdated(n) /\ (node[n].tainted \/ node[n].reason)
    /\ clean' = [pc |-> "taint", st |-> [n \in Nodes |-> IF Outdated(n) THEN "t" ELSE "-"]]
    /\ UNCHANGED <<cands, need, cmd, rs, node, qmap, g, now, faults, restarts>>
    /\ Hist(Ev("CleanBegin", "-", "-", "ok"))

CleanTaint(n, f) ==
    /\ clean.pc = "taint" /\ clean.st[n] = "t" /\ FaultOK(f) /\ Charge(f)
    /\ clean' = [clean EXCEPT !.st[n] = IF f = "ok" THEN "w" ELSE "e"]
    /\ node' = IF f = "ok" THEN [node EXCEPT ![n].tainted = FALSE] ELSE node
    /\ UNCHANGED <<cands, need, cmd, rs, qmap, g, now, restarts>>
    /\ Hist(Ev("CleanTaint", "-", n, f))

\* RequireNoScheduleTaint returned: an error ends the reconcile before the conditions are cleared
CleanMid ==
    /\ clean.pc = "taint" /\ \A n \in Nodes : clean.st[n] # "t"
    /\ clean' = IF \E n \in Nodes : clean.st[n] = "e" THEN Clean0
                ELSE [pc |-> "reason", st |-> [n \in Nodes |-> IF clean.st[n] = "w" THEN "r" ELSE "-"]]
    /\ UNCHANGED <<cands, need, cmd, rs, node, qmap, g, now, faults, restarts>>
    /\ Hist(Ev("CleanMid", "-", "-", "ok"))

CleanReason(n, f) ==
    /\ clean.pc = "reason" /\ clean.st[n] = "r" /\ FaultOK(f) /\ Charge(f)
    /\ clean' = [clean EXCEPT !.st[n] = "d"]
    /\ node' = IF f = "ok" THEN [node EXCEPT ![n].reason = FALSE] ELSE node
    /\ UNCHANGED <<cands, need, cmd, rs, qmap, g, now, restarts>>
    /\ Hist(Ev("CleanReason", "-", n, f))

CleanEnd ==
    /\ clean.pc = "reason" /\ \A n \in Nodes : clean.st[n] # "r"
    /\ clean' = Clean0
    /\ UNCHANGED <<cands, need, cmd, rs, node, qmap, g, now, faults, restarts>>
    /\ Hist(Ev("CleanEnd", "-", "-", "ok"))

\* ------------------------------------------------------------------ environment
ReplInit(k, i) ==
    /\ i \in 1..need[k] /\ rs[k][i] = "created"
    /\ rs' = [rs EXCEPT ![k][i] = "init"]
    /\ g' = [g EXCEPT ![k].everInit = @ \cup {i}]
    /\ UNCHANGED <<cands, need, cmd, node, qmap, clean, now, faults, restarts>>
    /\ Hist(Ev("ReplInit", k, ToString(i), "ok"))

\* a replacement that disappears before it ever reported Initialized is a failure of the action it belongs to
ReplVanish(k, i) ==
    /\ i \in 1..need[k] /\ rs[k][i] \in {"created", "init"}
    /\ rs' = [rs EXCEPT ![k][i] = "gone"]
    /\ g' = [g EXCEPT ![k].failure = IF @ = "none" /\ i \notin g[k].everInit /\ InProgress(k) THEN "vanish" ELSE @]
    /\ UNCHANGED <<cands, need, cmd, node, qmap, clean, now, faults, restarts>>
    /\ Hist(Ev("ReplVanish", k, ToString(i), "ok"))

\* a candidate of a command in flight disappears: Node and NodeClaim leave the API and the cluster state (the queue's
\* map keeps its provider id); every later call on it gets NotFound, which Karpenter ignores
CandVanish(n) ==
    /\ ~node[n].gone /\ Cardinality({m \in Nodes : node[m].gone}) < MaxCandVanish
    /\ \E k \in Cmds : InProgress(k) /\ n \in Subj(k)
    /\ node' = [node EXCEPT ![n] = GoneN]
    /\ UNCHANGED <<cands, need, cmd, rs, qmap, g, clean, now, faults, restarts>>
    /\ Hist(Ev("CandVanish", "-", n, "ok"))

Tick == /\ now < MaxNow /\ now' = now + 1
        /\ UNCHANGED <<cands, need, cmd, rs, node, qmap, g, clean, faults, restarts>>
        /\ Hist(Ev("Tick", "-", "-", "ok"))

\* process restart: queue, marks, latches, computed commands and running invocations are gone; the API state stays
Restart ==
    /\ restarts < MaxRestarts /\ restarts' = restarts + 1
    /\ \E k \in Cmds : cmd[k].pc \notin {"none"} \cup Terminal
    /\ cmd' = [k \in Cmds |-> IF cmd[k].pc \in Terminal THEN cmd[k]
                              ELSE IF cmd[k].pc \in {"none", "idle"} THEN Cmd0
                              ELSE [cmd[k] EXCEPT !.pc = "lost", !.latched = {}]]
    /\ qmap' = [n \in Nodes |-> "-"]
    /\ node' = [n \in Nodes |-> [node[n] EXCEPT !.marked = FALSE]]
    /\ clean' = Clean0
    /\ UNCHANGED <<cands, need, rs, g, now, faults>>
    /\ Hist(Ev("Restart", "-", "-", "ok"))

CmdStep(k) ==
    \/ Build(k) \/ Begin(k) \/ EndMark(k) \/ EndCreate(k) \/ Mark(k) \/ Enqueue(k)
    \/ QBegin(k) \/ EndObserve(k) \/ EndDelete(k) \/ Complete(k)
    \/ \E f \in {"ok", "fail"} :
         \/ Observe(k, f)
         \/ \E n \in Nodes : Taint(k, n, f) \/ SetReason(k, n, f) \/ DeleteCand(k, n, f) \/ Untaint(k, n, f) \/ ClearReason(k, n, f)
         \/ \E i \in Idx : CreateRepl(k, i, f)
CleanStep == CleanBegin \/ CleanMid \/ CleanEnd \/ \E n \in Nodes, f \in {"ok", "fail"} : CleanTaint(n, f) \/ CleanReason(n, f)
EnvStep == Tick \/ Restart \/ (\E k \in Cmds, i \in Idx : ReplInit(k, i) \/ ReplVanish(k, i)) \/ \E n \in Nodes : CandVanish(n)

\* a plain disjunction of the named actions (TLC reports coverage per action)
Next == (\E k \in Cmds : CmdStep(k)) \/ CleanStep \/ EnvStep
Spec == Init /\ [][Next]_vars
\* the controllers keep running (fault and restart budgets are finite, so the fault-free variants eventually run)
FairSpec == Spec /\ WF_vars(CleanStep) /\ \A k \in Cmds : WF_vars(CmdStep(k))

\* ------------------------------------------------------------------ properties
TypeOK == /\ \A k \in Cmds : cmd[k].pc \in {"none", "idle", "queued"} \cup StartPhases \cup RecPhases \cup Terminal
          /\ faults \in 0..MaxFaults /\ restarts \in 0..MaxRestarts /\ now \in 0..MaxNow

\* every candidate delete happened after all replacements were created and had reported Initialized
Inv_C08_DeleteAfterAllInitialized == \A k \in Cmds : g[k].delOK
\* the statement: an action that met a failure (create failed, replacement vanished, timeout) deletes no candidate
Inv_C08_NoDeleteAfterFailure == \A k \in Cmds : G_C08_NoDeleteAfterFailure(g[k].failure, g[k].deleted)
\* ... as the code is: the only exception is the known non-atomic case with persistently failing deletes (F-C08-2: in the
\* pass that declared the timeout a candidate delete failed while others had gone through).  Before fix 43007e763
\* (CodeMode = "wrapAlways", F-C08-1) the deferred wrap also declared a timeout after deletes that had all succeeded.
Inv_C08_NoDeleteAfterFailure_Code ==
    \A k \in Cmds : (g[k].failure # "none" /\ g[k].deleted # {}) =>
                       (g[k].failure = "timeout" /\ g[k].order = "del-first" /\ g[k].partial)
\* a node is the subject of at most one action in progress
Inv_C08_SingleCommandPerNode == \A k \in Cmds : InProgress(k) => G_C08_SingleCommandPerNode(Subj(k), Others(k))
\* bounded progress: when every controller is at rest, nodes that are not the subject of an action in progress (and
\* whose NodeClaim was not deleted) are back in service
Quiet == /\ \A k \in Cmds : cmd[k].pc \in {"none", "idle", "queued"} \cup Terminal
         /\ clean.pc = "idle" /\ ~ENABLED CleanBegin
Free == {n \in Nodes : ~node[n].deleting /\ ~node[n].gone /\ ~\E k \in Cmds : InProgress(k) /\ n \in Subj(k)}
Inv_C08_RolledBackWhenQuiet == Quiet => Live_C08_RolledBack({node[n] : n \in Free})
\* the failed action itself puts its candidates back in service (when no call of its rollback failed)
Inv_C08_RolledBackByAction == \A k \in Cmds : g[k].rbOK
\* liveness (fair controllers): after a failure or a restart every candidate is eventually deleted by a later
\* successful action, the subject of another action, or back in service
Live_C08_RolledBack_T ==
    \A k \in Cmds : [](((g[k].failure # "none" /\ cmd[k].pc \in Terminal) \/ cmd[k].pc = "lost") =>
                        <>(\A n \in cands[k] : n \notin Free \/ InService(node[n])))

\* a generated behaviour: the scenario, the history, and what the model expects at its end (compared with the real run
\* as MODEL-DRIFT notes only - never a verdict)
\* ... and an action that met a failure does not stay in progress for ever
Live_C08_FailedEnds_T == \A k \in Cmds : (g[k].failure # "none") ~> (cmd[k].pc \in Terminal)

GenPrint == (Len(h) < MaxLen /\ ENABLED Next) \/
            PrintT(<<"BEH", ToJson([cands |-> [k \in Cmds |-> SetToSeq(cands[k])], need |-> need, h |-> h,
                                    pc |-> [k \in Cmds |-> cmd[k].pc],
                                    deleted |-> [n \in Nodes |-> node[n].deleting]])>>)
=============================================================================
