------------------------------ MODULE Requirements ------------------------------
(***************************************************************************)
(* Label-requirement algebra (C12) and requirement serialisation (C13a,e). *)
(*                                                                         *)
(* Semantic side: RequirementsSem.tla (Kubernetes operator semantics       *)
(* `Admits`, absent-label rule `AbsentOK`, denotation `Den`, `Sat`,        *)
(* per-key compatibility `SemCompatKey`).                                  *)
(*                                                                         *)
(* Implementation-shaped side (this module): pkg/scheduling.Requirement as *)
(* the record [c, vals, hg, g, hl, l, mv] (complement flag, value set,     *)
(* optional inclusive bounds, minValues) and the algorithms of             *)
(* requirement.go / requirements.go transcribed one-to-one:                *)
(*   ImplNew             = NewRequirementWithFlexibility                   *)
(*   ImplHas             = Requirement.Has / withinBounds                  *)
(*   ImplIntersection    = Requirement.Intersection                        *)
(*   ImplHasIntersection = Requirement.HasIntersection                     *)
(*   ImplOperator        = Requirement.Operator                            *)
(*   ImplCompatKey       = Requirements.Compatible + Intersects, one key   *)
(*   ImplSerialize       = Requirements.NodeSelectorRequirements           *)
(*   ImplAny             = Requirement.Any (set of possible results)       *)
(*                                                                         *)
(* Closed model: the state is the chain `h` of atoms added to one key and  *)
(* the implementation-shaped requirement `r` after those Adds (one action  *)
(* per Requirements.Add).  TLC enumerates every chain up to MaxAdds over   *)
(* the atom alphabet and checks the refinement laws Inv_* in every state.  *)
(* The same enumeration, printed by GenPrint, is the case list replayed on *)
(* the real scheduling.Requirement(s).                                     *)
(*                                                                         *)
(* `Mut` selects a design variant.  "none" is the design that satisfies    *)
(* the statements; every other value is either the pinned tree's behaviour *)
(* where it is defective ("absent-by-operator", "ser-drop-exclusions",     *)
(* "any-tree") or a plausible coding slip; each must be rejected by TLC    *)
(* (Requirements_Weak*.cfg).                                               *)
(*                                                                         *)
(* Atoms of the closed model are NORMALISED (key, value) pairs: key alias  *)
(* and value translation (RequirementsSem.NormAtom) are a pure pre-pass of *)
(* NewRequirementWithFlexibility; the trace spec applies NormAtom to every *)
(* logged atom (keyed by the stable key, whichever spelling was written)   *)
(* before evaluating `Admits`.                                             *)
(***************************************************************************)
EXTENDS RequirementsSem, TLC, Json

CONSTANTS MaxAdds,   \* longest chain of Adds on the key
          MVs,       \* minValues alphabet (0 = unset)
          Extra,     \* include the extra atoms (empty In/NotIn, three-value sets, "01" and "-1" bound operands)
          Mut        \* design variant, "none" = intended design

VARIABLES h, r
vars == <<h, r>>

\* ---------------------------------------------------------------- value universe of the closed model
ArgS == <<"-1", "0", "1", "2", "01", "a">>          \* spellings In / NotIn may name
Arg  == {ArgS[j] : j \in DOMAIN ArgS}
V == { Val("-1", TRUE, -1), Val("0", TRUE, 0), Val("1", TRUE, 1), Val("2", TRUE, 2), Val("01", TRUE, 1),
       Val("a", FALSE, 0),
       \* canonical integers never used as arguments (results of Any, probes)
       Val("3", TRUE, 3), Val("4", TRUE, 4),
       \* Fresh: one spelling outside Arg per class of the witness-completeness argument (thresholds -2..3)
       Val("-03", TRUE, -3), Val("-02", TRUE, -2), Val("-01", TRUE, -1), Val("00", TRUE, 0), Val("001", TRUE, 1),
       Val("+2", TRUE, 2), Val("03", TRUE, 3), Val("04", TRUE, 4), Val("zz", FALSE, 0) }
ASSUME WitnessComplete(V, Arg, -2, 3)
Look(s)  == CHOOSE v \in V : v.s = s
Canon(n) == CHOOSE v \in {"0", "1", "2", "3", "4"} : Look(v).n = n
BigN     == 4     \* stands for "a random draw from an unbounded range": above every threshold, never an argument
BadLabelValues == {"-1"}          \* not a valid Kubernetes label value (IsValidLabelValue)

\* ---------------------------------------------------------------- atom alphabet
Sets12 == {{ArgS[i]} : i \in DOMAIN ArgS} \cup {{ArgS[i], ArgS[j]} : i, j \in DOMAIN ArgS}
Bnd    == {<<"0", 0>>, <<"1", 1>>, <<"2", 2>>}
BndX   == {<<"01", 1>>, <<"-1", -1>>}
Atom(op, S, b, mv) == [op |-> op, S |-> S, b |-> b, mv |-> mv]
CoreAtoms == {Atom(o, S, 0, m) : o \in SetOps, S \in Sets12, m \in MVs}
        \cup {Atom(o, {}, 0, m) : o \in {"Exists", "DoesNotExist"}, m \in MVs}
        \cup {Atom(o, {p[1]}, p[2], m) : o \in BoundOps, p \in Bnd, m \in MVs}
ExtraAtoms == {Atom(o, S, 0, m) : o \in SetOps, S \in {{}, {"0", "1", "2"}}, m \in MVs}
         \cup {Atom(o, {p[1]}, p[2], m) : o \in BoundOps, p \in BndX, m \in MVs}
Atoms == CoreAtoms \cup (IF Extra THEN ExtraAtoms ELSE {})

\* what v1.ValidateRequirement admits for a custom key
ValidAtom(a) == /\ a.S \cap BadLabelValues = {}
                /\ (a.op = "In" => a.S # {} /\ Cardinality(a.S) >= a.mv)
                /\ (a.op \in BoundOps => a.b >= 0)
ValidChain(as) == \A j \in DOMAIN as : ValidAtom(as[j])

\* ---------------------------------------------------------------- implementation-shaped requirement
\* `ax` (does a node without the label satisfy it?) is NOT a field of the Go struct: the pinned tree infers it from
\* Operator().  The intended design tracks it; Mut = "absent-by-operator" is the tree's inference.
Rep(c, vals, hg, g, hl, l, mv, ax) ==
    [def |-> TRUE, c |-> c, vals |-> vals, hg |-> hg, g |-> g, hl |-> hl, l |-> l, mv |-> mv, ax |-> ax]
Undef == [def |-> FALSE, c |-> FALSE, vals |-> {}, hg |-> FALSE, g |-> 0, hl |-> FALSE, l |-> 0, mv |-> 0, ax |-> FALSE]

ImplNew(a) ==
    CASE a.op = "In"           -> Rep(FALSE, a.S, FALSE, 0, FALSE, 0, a.mv, FALSE)
      [] a.op = "NotIn"        -> Rep(TRUE, a.S, FALSE, 0, FALSE, 0, a.mv, TRUE)
      [] a.op = "Exists"       -> Rep(TRUE, {}, FALSE, 0, FALSE, 0, a.mv, FALSE)
      [] a.op = "DoesNotExist" -> Rep(FALSE, {}, FALSE, 0, FALSE, 0, a.mv, TRUE)
      [] a.op = "Gt"           -> Rep(TRUE, {}, TRUE, (IF Mut = "gt-no-canon" THEN a.b ELSE a.b + 1), FALSE, 0, a.mv, FALSE)
      [] a.op = "Lt"           -> Rep(TRUE, {}, FALSE, 0, TRUE, a.b - 1, a.mv, FALSE)
      [] a.op = "Gte"          -> Rep(TRUE, {}, TRUE, a.b, FALSE, 0, a.mv, FALSE)
      [] a.op = "Lte"          -> Rep(TRUE, {}, FALSE, 0, TRUE, a.b, a.mv, FALSE)

\* withinBounds(string, gte, lte): parses the spelling with strconv.Atoi
Within(v, hg, g, hl, l) == IF ~hg /\ ~hl THEN TRUE
                           ELSE v.i /\ (hg => v.n >= g) /\ (hl => v.n <= l)
ImplHas(q, v) == IF q.c THEN v.s \notin q.vals /\ Within(v, q.hg, q.g, q.hl, q.l)
                 ELSE v.s \in q.vals /\ Within(v, q.hg, q.g, q.hl, q.l)
ImplDen(q) == {v \in V : ImplHas(q, v)}

Max2(x, y) == IF x > y THEN x ELSE y
Min2(x, y) == IF x < y THEN x ELSE y

ImplIntersection(p, q) ==
    LET c  == IF Mut = "lose-complement" THEN FALSE ELSE p.c /\ q.c
        hg == p.hg \/ q.hg
        g  == IF p.hg /\ q.hg THEN Max2(p.g, q.g) ELSE IF p.hg THEN p.g ELSE q.g
        hl == p.hl \/ q.hl
        l  == IF p.hl /\ q.hl THEN Min2(p.l, q.l) ELSE IF p.hl THEN p.l ELSE q.l
        mv == IF Mut = "minvalues-min" /\ p.mv > 0 /\ q.mv > 0 THEN Min2(p.mv, q.mv) ELSE Max2(p.mv, q.mv)
        ax == p.ax /\ q.ax
        empty == IF Mut = "empty-range-gte" THEN g >= l ELSE g > l
        vals0 == IF p.c /\ q.c THEN p.vals \cup q.vals
                 ELSE IF p.c THEN q.vals \ p.vals
                 ELSE IF q.c THEN p.vals \ q.vals
                 ELSE p.vals \cap q.vals
        vals == IF Mut = "no-bounds-filter" THEN vals0 ELSE {s \in vals0 : Within(Look(s), hg, g, hl, l)}
    IN IF hg /\ hl /\ empty THEN Rep(FALSE, {}, FALSE, 0, FALSE, 0, mv, ax)     \* NewRequirement(key, DoesNotExist)
       ELSE IF c THEN Rep(TRUE, vals, hg, g, hl, l, mv, ax)
       ELSE Rep(FALSE, vals, FALSE, 0, FALSE, 0, mv, ax)                           \* bounds removed for concrete sets

ImplHasIntersection(p, q) ==
    LET hg == p.hg \/ q.hg
        g  == IF p.hg /\ q.hg THEN Max2(p.g, q.g) ELSE IF p.hg THEN p.g ELSE q.g
        hl == p.hl \/ q.hl
        l  == IF p.hl /\ q.hl THEN Min2(p.l, q.l) ELSE IF p.hl THEN p.l ELSE q.l
        W(s) == Mut = "hasint-ignores-bounds" \/ Within(Look(s), hg, g, hl, l)
    IN IF hg /\ hl /\ g > l THEN FALSE
       ELSE IF p.c /\ q.c THEN TRUE
       ELSE IF p.c THEN \E s \in q.vals : s \notin p.vals /\ W(s)
       ELSE IF q.c THEN \E s \in p.vals : s \notin q.vals /\ W(s)
       ELSE \E s \in p.vals : s \in q.vals /\ W(s)

ImplOperator(q) == IF q.c THEN (IF q.vals # {} THEN "NotIn" ELSE "Exists")
                   ELSE (IF q.vals # {} THEN "In" ELSE "DoesNotExist")

\* "a node without the label satisfies q"
ImplAbsOK(q) ==
    CASE Mut = "absent-by-operator"           -> ImplOperator(q) \in {"NotIn", "DoesNotExist"}                \* pinned tree
      [] Mut = "absent-by-operator-unbounded" -> ImplOperator(q) \in {"NotIn", "DoesNotExist"} /\ ~q.hg /\ ~q.hl  \* partial fix
      [] OTHER                                -> q.ax

\* Requirements.Compatible restricted to one key that B constrains; `allow` = key \in opts.AllowUndefined
\* The intended design also refuses an unsatisfiable B on an AllowUndefined key; the tree (and the partial fix) cannot
\* tell an unsatisfiable requirement from DoesNotExist.
Tracked == Mut \notin {"absent-by-operator", "absent-by-operator-unbounded"}
ImplSatisfiable(q) == q.c \/ q.vals # {} \/ q.ax     \* a complement requirement never has an empty range (collapsed)
ImplCompatKey(a, b, allow) ==
    LET skip == IF Mut = "swap-allow-undefined" THEN ~allow ELSE allow
    IN IF ~a.def THEN (skip /\ (~Tracked \/ ImplSatisfiable(b))) \/ ImplAbsOK(b)
       ELSE ImplHasIntersection(a, b) \/ (ImplAbsOK(b) /\ ImplAbsOK(a))

\* Requirements.NodeSelectorRequirements for one key: a sequence of atoms
NumAtom(op, n, mv) == Atom(op, {"#"}, n, mv)    \* a serialised bound; its spelling is FormatInt(n) and is not needed here
ImplSerialize(q) ==
    LET bounds == IF q.hg /\ q.hl THEN (IF Mut = "ser-one-bound" THEN <<NumAtom("Gte", q.g, q.mv)>>
                                        ELSE <<NumAtom("Gte", q.g, q.mv), NumAtom("Lte", q.l, q.mv)>>)
                  ELSE IF q.hg THEN <<NumAtom("Gte", q.g, q.mv)>>
                  ELSE IF q.hl THEN <<NumAtom("Lte", q.l, q.mv)>>
                  ELSE <<>>
        plain  == IF q.c THEN (IF q.vals # {} THEN <<Atom("NotIn", q.vals, 0, q.mv)>> ELSE <<Atom("Exists", {}, 0, q.mv)>>)
                  ELSE (IF q.vals # {} THEN <<Atom("In", q.vals, 0, q.mv)>> ELSE <<Atom("DoesNotExist", {}, 0, q.mv)>>)
    IN IF bounds = <<>> THEN plain
       ELSE IF Mut = "ser-drop-exclusions" THEN bounds                       \* pinned tree: the NotIn list is lost
       ELSE IF q.c /\ q.vals # {} THEN bounds \o plain ELSE bounds

\* Requirement.Any: the set of results it may return ("PANIC" = rand.Intn of a non-positive range).
\* A draw from a range that is unbounded above is represented by BigN.
ImplAny(q) ==
    LET op == ImplOperator(q) IN
    IF op = "In" THEN q.vals
    ELSE IF op = "DoesNotExist" THEN {""}
    ELSE IF Mut = "any-tree" THEN
         LET mn == IF q.hg THEN q.g ELSE 0
             mx == IF q.hl THEN q.l + 1 ELSE BigN + 1
         IN IF mx - mn <= 0 THEN {"PANIC"}
            ELSE IF q.hl THEN {Canon(n) : n \in mn..(mx - 1)} ELSE {Canon(BigN)}
    ELSE LET lo == IF q.hg THEN Max2(q.g, 0) ELSE 0
             hi == IF q.hl THEN q.l ELSE BigN
             ok == {n \in lo..hi : Canon(n) \notin q.vals}
         IN IF ok = {} THEN {""} ELSE IF q.hl THEN {Canon(n) : n \in ok} ELSE {Canon(BigN)}

\* ---------------------------------------------------------------- closed model: one action per Requirements.Add
Init == h = <<>> /\ r = Undef
Add(a) == /\ h' = Append(h, a)
          /\ r' = IF r.def THEN ImplIntersection(ImplNew(a), r) ELSE ImplNew(a)   \* requirement.Intersection(existing)
Next == Len(h) < MaxAdds /\ \E a \in Atoms : Add(a)
Spec == Init /\ [][Next]_vars

RECURSIVE FoldL(_)
FoldL(as) == IF Len(as) = 0 THEN Undef
             ELSE IF Len(as) = 1 THEN ImplNew(as[1])
             ELSE ImplIntersection(ImplNew(as[Len(as)]), FoldL(SubSeq(as, 1, Len(as) - 1)))
Rev(as)   == [j \in 1..Len(as) |-> as[Len(as) + 1 - j]]
Pre(i)    == SubSeq(h, 1, i)
Suf(i)    == SubSeq(h, i + 1, Len(h))

\* ---------------------------------------------------------------- refinement laws (C12)
TypeOK == Len(h) <= MaxAdds /\ (r.def <=> Len(h) > 0)
\* the requirement admits exactly the values every atom admits (New for one atom, Intersection for more)
Inv_C12_Refines     == r.def => ImplDen(r) = Den(h, V)
Inv_C12_MinValues   == r.def => r.mv = MaxMV(h)
\* quick overlap test = non-emptiness of the intersection, for every split of the chain into two requirements
Inv_C12_Overlap     == \A i \in 1..(Len(h) - 1) :
                          /\ ImplHasIntersection(FoldL(Pre(i)), FoldL(Suf(i))) <=> (Den(h, V) # {})
                          /\ ImplHasIntersection(FoldL(Suf(i)), FoldL(Pre(i))) <=> (Den(h, V) # {})
Inv_C12_Commutative == r.def => ImplDen(FoldL(Rev(h))) = ImplDen(r) /\ FoldL(Rev(h)).mv = r.mv
Inv_C12_Associative == Len(h) = 3 =>
                          LET a == ImplNew(h[1])  b == ImplNew(h[2])  c == ImplNew(h[3])
                          IN ImplDen(ImplIntersection(ImplIntersection(a, b), c))
                               = ImplDen(ImplIntersection(a, ImplIntersection(b, c)))
Inv_C12_Idempotent  == r.def => ImplDen(ImplIntersection(r, r)) = ImplDen(r) /\ ImplIntersection(r, r).mv = r.mv
\* compatibility: every split (left part = A's requirement on the key, possibly undefined; right part = B's)
Inv_C12_Compatible  == K8sDefined(h) =>
                          \A i \in 0..(Len(h) - 1) : \A allow \in BOOLEAN :
                             ImplCompatKey(FoldL(Pre(i)), FoldL(Suf(i)), allow)
                               <=> SemCompatKey(i > 0, Pre(i), TRUE, Suf(i), allow, V)

\* several keys: Requirements.Intersects visits the shared keys in an arbitrary (Go map) order; the verdict must be the
\* conjunction of the per-key verdicts whatever the order.  The current split of the chain is one shared key, a
\* reference pair of each per-key verdict class (overlap / disjoint / excused pair) the other; both visiting orders.
RefPairs == { <<Atom("In", {"1"}, 0, 0), Atom("In", {"1", "2"}, 0, 0)>>,
              <<Atom("In", {"1"}, 0, 0), Atom("In", {"2"}, 0, 0)>>,
              <<Atom("DoesNotExist", {}, 0, 0), Atom("NotIn", {"1"}, 0, 0)>> }
RECURSIVE Visit(_, _)
Visit(ps, k) ==
    IF k > Len(ps) THEN TRUE
    ELSE IF ImplHasIntersection(ps[k][1], ps[k][2]) THEN Visit(ps, k + 1)
    ELSE IF ImplAbsOK(ps[k][2]) /\ ImplAbsOK(ps[k][1])                   \* excused: both accept an absent label
         THEN (IF Mut = "intersects-stops-at-first" THEN TRUE ELSE Visit(ps, k + 1))
    ELSE FALSE
Inv_C12_MultiKey == K8sDefined(h) =>
    \A i \in 1..(Len(h) - 1) : \A rp \in RefPairs :
        LET cur == <<FoldL(Pre(i)), FoldL(Suf(i))>>
            ref == <<ImplNew(rp[1]), ImplNew(rp[2])>>
            sem == /\ SemCompatKey(TRUE, Pre(i), TRUE, Suf(i), FALSE, V)
                   /\ SemCompatKey(TRUE, <<rp[1]>>, TRUE, <<rp[2]>>, FALSE, V)
        IN Visit(<<cur, ref>>, 1) = sem /\ Visit(<<ref, cur>>, 1) = sem

\* ---------------------------------------------------------------- serialisation and Any (C13 a, e)
SerOf == ImplSerialize(r)
Inv_C13_Serialization == r.def =>
    /\ Den(SerOf, V) = ImplDen(r)                                  \* the serialised entries admit exactly what r admits
    /\ ImplDen(FoldL(SerOf)) = ImplDen(r)                           \* and so does the re-parsed requirement
    /\ FoldL(SerOf).mv = r.mv
    \* same treatment of an absent label as the representation itself (the wire format cannot carry more)
    /\ (AbsentAll(SerOf) <=> (ImplOperator(r) \in {"NotIn", "DoesNotExist"} /\ ~r.hg /\ ~r.hl))
Inv_C13_Any == (r.def /\ ValidChain(h)) =>
    \A x \in ImplAny(r) : x # "PANIC" /\ (x # "" => Look(x) \in Den(h, V))

\* ---------------------------------------------------------------- case generation: print every chain
\* (the initial state prints the value universe, so the replay uses the spec's own universe and integer readings)
GenPrint == IF Len(h) = 0 THEN PrintT(<<"UNI", ToJson(V)>>) ELSE PrintT(<<"BEH", ToJson(h)>>)
=============================================================================
