---------------------------- MODULE Reservations ----------------------------
(***************************************************************************)
(* Closed model of capacity reservations inside ONE scheduling pass         *)
(* (property C17, reservation half; DESIGN section 4 "C17").                *)
(*                                                                         *)
(* Scenario `cfg` (record shape of spec/SCHED_TRACE.md, so every generated  *)
(* scenario is also a driver input): 2 instance types whose reserved        *)
(* offerings carry 2 reservation ids of capacity 0..2 - shared across types *)
(* and, through the pools' common catalog, across 2 weighted pools -, some  *)
(* unavailable; NPods pods from 10 archetypes that narrow a NodeClaim (zone, *)
(* instance type, capacity type), do not fit together, carry a preference   *)
(* or two OR-terms; reserved-offering mode strict | fallback.               *)
(*                                                                         *)
(* Mechanism (what Karpenter's design relies on): a NodeClaim is a          *)
(* requirement set per key + remaining instance types; after every          *)
(* narrowing the claim asks the reservation manager (table `left`) for      *)
(* every compatible available reserved offering (CanReserve: already held   *)
(* by this claim or left > 0), reserves the new ones, releases the ones no  *)
(* longer compatible; strict mode refuses the step when a compatible        *)
(* offering exists and none can be held or the last held one would go, new  *)
(* claims are tried pool by pool in weight order and a reserved-offering    *)
(* refusal stops the search (deferral) and is never answered by relaxing;   *)
(* Finalize pins a holding claim to capacity-type reserved and its ids.     *)
(* Pods are placed in ANY order on ANY in-flight claim (superset of the     *)
(* real strategy), so every reserve/release order narrowing can produce is  *)
(* explored.  TLC checks that the mechanism implies the declarative guards  *)
(* of ReservationGuards.tla (counting holders against the catalog).  The    *)
(* W_* switches weaken one mechanism conjunct each (Reservations_Weak*.cfg) *)
(* and TLC must then violate the named invariant.                           *)
(***************************************************************************)
EXTENDS ReservationGuards, Json

CONSTANTS
    NPods,          \* pods per batch
    PodArchs,       \* archetype ids (subset of 1..10)
    Layouts,        \* catalog layouts (subset of 1..3)
    Caps,           \* capacities of r1 / r2 are drawn from this set (subset of 0..2)
    PoolSets,       \* pool-set ids (subset of 1..5)
    Modes,          \* subset of {"strict", "fallback"}
    GenMod, GenRes, \* scenario sub-sampling (1, 0 = every scenario of the scope)
    W_CanReserve,   \* TRUE: CanReserve refuses an id whose capacity is used up        (FALSE = mutation)
    W_Release,      \* TRUE: releasing an id returns its capacity to the table
    W_PinAll,       \* TRUE: Finalize pins to ALL held ids (FALSE: only one of them)
    W_Strict,       \* TRUE: strict mode refuses a step that leaves compatible reserved offerings unheld
    W_KeepHeld,     \* TRUE: strict mode refuses a narrowing that drops the last held reservation
    W_PoolOrder     \* TRUE: a reserved-offering refusal in a pool stops the search through lower-weight pools

VARIABLES cfg, eff, claims, left, st, phase, flags,
          preq, tmpl,     \* derived (cached for TLC): requirement map of every effective pod / of every pool template
          fr              \* derived: fr[k][i] = narrowing of a FRESH claim of pool i with pod k (depends on the pod's relaxation only)
vars == <<cfg, eff, claims, left, st, phase, flags, preq, tmpl, fr>>

----------------------------------------------------------------------------
(* scenario space *)
\* (the driver completes the universe with the keys the model does not need: arch, os, pool, host)
U == [zone |-> <<"a", "b", "c", "~">>, ct |-> <<"reserved", "od", "~">>, it |-> <<"T1", "T2", "~">>, rid |-> <<"r1", "r2", "~">>]
UNum == [k \in DOMAIN U |-> [i \in DOMAIN U[k] |-> NoInt]]

Od(z, av) == [zone |-> z, ct |-> "od", price |-> 100, available |-> av, rid |-> "", rcap |-> 0, cpuOv |-> 0, memOv |-> 0, podsOv |-> 0, ohCpu |-> 0, ohMem |-> 0]
Rs(z, id, cap, av) == [zone |-> z, ct |-> "reserved", price |-> 1, available |-> av, rid |-> id, rcap |-> cap, cpuOv |-> 0, memOv |-> 0, podsOv |-> 0, ohCpu |-> 0, ohMem |-> 0]
Ty(n, cpu, offs) == [name |-> n, cpu |-> cpu, mem |-> 4096, pods |-> 110, labels |-> [arch |-> "amd64", os |-> "linux"], ovCpu |-> 100, ovMem |-> 0,
                     offerings |-> offs]
\* T1 hosts two small pods or one big one, T2 four small ones
Catalog(l, c1, c2) ==
    CASE l = 1 -> \* r1 shared by both types in zone a, r2 in zone b
             <<Ty("T1", 1000, <<Od("a", TRUE), Od("b", TRUE), Rs("a", "r1", c1, TRUE), Rs("b", "r2", c2, TRUE)>>),
               Ty("T2", 2000, <<Od("a", TRUE), Od("b", TRUE), Rs("a", "r1", c1, TRUE)>>)>>
      [] l = 2 -> \* two reservations for the same type and zone; an unavailable reserved offering
             <<Ty("T1", 1000, <<Od("a", TRUE), Rs("a", "r1", c1, TRUE), Rs("a", "r2", c2, TRUE)>>),
               Ty("T2", 2000, <<Od("b", TRUE), Rs("b", "r2", c2, FALSE)>>)>>
      [] l = 3 -> \* on-demand unavailable next to a reservation; r1 and r2 on different types and zones
             <<Ty("T1", 1000, <<Od("a", FALSE), Od("b", TRUE), Rs("a", "r1", c1, TRUE)>>),
               Ty("T2", 2000, <<Od("a", TRUE), Od("b", TRUE), Rs("b", "r2", c2, TRUE)>>)>>

NoLimits == [cpu |-> 0, mem |-> 0, nodes |-> -1]
PR(k, op, vals) == [key |-> k, op |-> op, vals |-> vals, n |-> 0, min |-> 0]
Pool(n, w, reqs, types) == [name |-> n, weight |-> w, reqs |-> reqs, labels |-> <<>>, taints |-> <<>>, startup |-> <<>>, limits |-> NoLimits,
                            types |-> types]
\* pools are listed in Karpenter's evaluation order (weight descending)
PoolSet(i) ==
    CASE i = 1 -> <<Pool("P1", 10, <<>>, <<>>), Pool("P2", 1, <<>>, <<>>)>>                                   \* both pools share every reservation
      [] i = 2 -> <<Pool("P1", 10, <<PR("ct", "In", <<"reserved", "od">>)>>, <<>>), Pool("P2", 1, <<PR("ct", "In", <<"od">>)>>, <<>>)>>
      [] i = 3 -> <<Pool("P1", 10, <<PR("zone", "In", <<"a">>)>>, <<>>), Pool("P2", 1, <<PR("zone", "In", <<"b">>)>>, <<>>)>>
      [] i = 4 -> <<Pool("P1", 0, <<>>, <<>>)>>
      [] i = 5 -> <<Pool("P1", 10, <<>>, <<"T1">>), Pool("P2", 1, <<>>, <<"T2">>)>>

P0(name) == [name |-> name, ns |-> "default", node |-> "", owner |-> "", cpu |-> 400, mem |-> 64, created |-> 0, labels |-> <<>>,
             sel |-> <<>>, terms |-> <<>>, pref |-> <<>>, tol |-> <<>>, ports |-> <<>>, vols |-> <<>>, aff |-> <<>>, anti |-> <<>>,
             prefAff |-> <<>>, prefAnti |-> <<>>, spread |-> <<>>]
E(k, op, vals) == [key |-> k, op |-> op, vals |-> vals, n |-> 0]
Arch(a, name) ==
    LET p == P0(name) IN
    CASE a = 1 -> p
      [] a = 2 -> [p EXCEPT !.cpu = 900]
      [] a = 3 -> [p EXCEPT !.sel = [zone |-> "a"]]
      [] a = 4 -> [p EXCEPT !.sel = [zone |-> "b"]]
      [] a = 5 -> [p EXCEPT !.sel = [it |-> "T2"]]
      [] a = 6 -> [p EXCEPT !.terms = <<<<E("ct", "In", <<"od">>)>>>>]
      [] a = 7 -> [p EXCEPT !.pref = <<[weight |-> 10, exprs |-> <<E("zone", "In", <<"c">>)>>]>>]
      [] a = 8 -> [p EXCEPT !.terms = <<<<E("zone", "In", <<"b">>)>>, <<E("zone", "In", <<"a">>)>>>>]
      [] a = 9 -> [p EXCEPT !.sel = [zone |-> "a"], !.cpu = 900]
      [] a = 10 -> [p EXCEPT !.cpu = 2500]                            \* fits no instance type
PodName(i) == "w" \o ToString(i)
Batches == {s \in [1..NPods -> PodArchs] : \A i \in 1..(NPods - 1) : s[i] <= s[i + 1]}
Opts(mode) == [preference |-> "Respect", minValues |-> "Strict", reserved |-> mode, workers |-> 1, maxTypes |-> 0, create |-> FALSE]

Scenario(l, c1, c2, ps, mode, batch) ==
    [name |-> "tlc-resv-" \o ToString(l) \o "-" \o ToString(c1) \o ToString(c2) \o "-" \o ToString(ps) \o "-" \o mode \o "-" \o ToString(batch),
     universe |-> U, unum |-> UNum, options |-> Opts(mode), types |-> Catalog(l, c1, c2), pools |-> PoolSet(ps), nodes |-> <<>>, ds |-> <<>>,
     scs |-> <<>>, pvs |-> <<>>, pvcs |-> <<>>, pods |-> [i \in 1..NPods |-> Arch(batch[i], PodName(i))]]
\* GenMod / GenRes: every GenMod-th scenario of the space (stride over all dimensions; 1 / 0 = the whole space)
RECURSIVE SeqSum(_)
SeqSum(q) == IF q = <<>> THEN 0 ELSE Head(q) + SeqSum(Tail(q))
Params == {t \in Layouts \X Caps \X Caps \X PoolSets \X Modes \X Batches :
             (t[1] + 3 * t[2] + 5 * t[3] + 7 * t[4] + (IF t[5] = "strict" THEN 0 ELSE 11) + SeqSum(t[6]) + 13 * t[6][1]) % GenMod = GenRes}
ScenarioSpace == {Scenario(t[1], t[2], t[3], t[4], t[5], t[6]) : t \in Params}

Strict == cfg.options.reserved = "strict"

----------------------------------------------------------------------------
(* the mechanism: requirement sets (as in Scheduling.tla) *)
UVals(k) == Range(U[k])
MkReq(k, S, ab, def) ==
    [defined |-> def,
     op |-> IF ~def THEN "-" ELSE IF ab THEN (IF S = {} THEN "DoesNotExist" ELSE "NotIn") ELSE (IF S = UVals(k) THEN "Exists" ELSE "In"),
     vals |-> <<>>, has |-> [i \in DOMAIN U[k] |-> U[k][i] \in S], absent |-> ab, min |-> -1]
AnyReq(k) == MkReq(k, UVals(k), TRUE, FALSE)
RVals(r, k) == {U[k][i] : i \in {j \in DOMAIN U[k] : r.has[j]}}
NonEmpty(r, k) == RVals(r, k) # {} \/ r.absent
Meet(r1, r2, k) == IF ~r1.defined /\ ~r2.defined THEN AnyReq(k) ELSE MkReq(k, RVals(r1, k) \cap RVals(r2, k), r1.absent /\ r2.absent, TRUE)
ExprReq(e) == MkReq(e.key, {v \in UVals(e.key) : Admits(cfg, e, (e.key :> v))}, Admits(cfg, e, <<>>), TRUE)
RECURSIVE MeetAll(_, _)
MeetAll(rs, k) == IF rs = <<>> THEN AnyReq(k) ELSE Meet(Head(rs), MeetAll(Tail(rs), k), k)
ExprsOn(es, k) == SelectSeq(es, LAMBDA e : e.key = k)
ReqsOfExprs(es) == [k \in DOMAIN U |-> MeetAll([i \in DOMAIN ExprsOn(es, k) |-> ExprReq(ExprsOn(es, k)[i])], k)]
RECURSIVE SelExprsOf(_, _)
SelExprsOf(sel, S) == IF S = {} THEN <<>> ELSE LET k == CHOOSE x \in S : TRUE IN <<E(k, "In", <<sel[k]>>)>> \o SelExprsOf(sel, S \ {k})
SelExprs(sel) == SelExprsOf(sel, DOMAIN sel)
Heaviest(pref) == CHOOSE i \in DOMAIN pref : \A j \in DOMAIN pref : pref[j].weight <= pref[i].weight
\* the requirements a (possibly relaxed) pod is scheduled with: selector, FIRST required term, heaviest preference
PodExprs(e) == SelExprs(e.sel) \o (IF e.terms = <<>> THEN <<>> ELSE e.terms[1]) \o (IF e.pref = <<>> THEN <<>> ELSE e.pref[Heaviest(e.pref)].exprs)
PodReqs(e) == ReqsOfExprs(PodExprs(e))
MeetMap(a, b) == [k \in DOMAIN U |-> Meet(a[k], b[k], k)]
AllNonEmpty(m) == \A k \in DOMAIN U : NonEmpty(m[k], k)

TemplateReqs(pool) == ReqsOfExprs([i \in DOMAIN pool.reqs |-> E(pool.reqs[i].key, pool.reqs[i].op, pool.reqs[i].vals)])
PoolTypes(pool) == SelectSeq([i \in DOMAIN cfg.types |-> cfg.types[i].name], LAMBDA n : pool.types = <<>> \/ n \in Range(pool.types))
TypeReq(it, k) == IF k = "it" THEN MkReq(k, {it.name}, FALSE, TRUE)
                  ELSE IF k = "zone" THEN MkReq(k, {it.offerings[i].zone : i \in DOMAIN it.offerings}, FALSE, TRUE)
                  ELSE IF k = "ct" THEN MkReq(k, {it.offerings[i].ct : i \in DOMAIN it.offerings}, FALSE, TRUE)
                  ELSE AnyReq(k)
ItCompat(it, reqs) == \A k \in DOMAIN U : NonEmpty(Meet(TypeReq(it, k), reqs[k], k), k)
FitsType(it, reqs, P) ==
    \E i \in DOMAIN it.offerings :
        LET o == it.offerings[i] IN o.available /\ OffCompat(cfg, reqs, o) /\ LeqRes(SumReq(P), OfferingAlloc(it, o))

Orig(k) == PodByKey(cfg, k)
Solving(k) == phase = "solve" /\ st[k] \in {"pending", "deferred"}
OrigPods(ks) == {Orig(k) : k \in Range(ks)}
Batch == {PKey(p) : p \in Range(cfg.pods)}
Active == {k \in Batch : st[k] \in {"pending", "deferred"}}
PoolByName(n) == PoolNamed(cfg, n)

\* narrowing a claim (requirements reqs, types its, pods ks) with pod k
NarrowP(reqs, its, ks, k, pr) ==
    LET nr == MeetMap(reqs, pr)
        P  == OrigPods(ks) \cup {Orig(k)}
        keep == {itn \in Range(its) : LET it == TypeByName(cfg, itn) IN ItCompat(it, nr) /\ FitsType(it, nr, P)}
    IN [ok |-> AllNonEmpty(nr) /\ keep # {}, reqs |-> nr, its |-> SelectSeq(its, LAMBDA x : x \in keep)]

Narrow(reqs, its, ks, k) == NarrowP(reqs, its, ks, k, preq[k])
FreshNarrow(t, k, pr) == [i \in DOMAIN cfg.pools |-> NarrowP(t[i], PoolTypes(cfg.pools[i]), <<>>, k, pr)]

\* what the claim asks of the reservation manager after narrowing to (its, reqs)
ResStep(heldPrev, its, reqs) ==
    LET compat == CompatIds(cfg, its, reqs)
        toHold == {id \in compat : id \in heldPrev \/ left[id] > 0 \/ ~W_CanReserve}
    IN [compat |-> compat, toHold |-> toHold,
        refused |-> Strict /\ ((W_Strict /\ compat # {} /\ toHold = {}) \/ (W_KeepHeld /\ heldPrev # {} /\ toHold = {}))]
LeftAfter(heldPrev, toHold) ==
    [id \in DOMAIN left |-> left[id] - (IF id \in toHold \ heldPrev THEN 1 ELSE 0)
                                     + (IF id \in heldPrev \ toHold /\ W_Release THEN 1 ELSE 0)]

HeldMap == [h \in {claims[i].host : i \in DOMAIN claims} |-> (CHOOSE c \in Range(claims) : c.host = h).held]

\* outcome of trying a FRESH claim of pool index i for pod k: "fail" | "reserved" | "ok"
Fresh(i, k) ==
    LET pool == cfg.pools[i]
        r == fr[k][i]
    IN IF ~r.ok THEN [out |-> "fail", r |-> r, rs |-> ResStep({}, <<>>, r.reqs)]
       ELSE LET rs == ResStep({}, r.its, r.reqs) IN [out |-> IF rs.refused THEN "reserved" ELSE "ok", r |-> r, rs |-> rs]
\* pools are evaluated in order; the first pool whose outcome is not "fail" decides (a refusal stops the search)
\* (F = the table [pool index -> Fresh(i, k)], computed once per pod and state)
Decisive(F, i) == F[i].out = "ok" \/ (W_PoolOrder /\ F[i].out = "reserved")
FirstDecisive(F) == IF \E i \in DOMAIN F : Decisive(F, i) THEN CHOOSE i \in DOMAIN F : Decisive(F, i) /\ \A j \in 1..(i - 1) : ~Decisive(F, j) ELSE 0
AnyRefusal(F) == \E i \in DOMAIN F : F[i].out = "reserved"

----------------------------------------------------------------------------
Init ==
    /\ cfg \in ScenarioSpace
    /\ eff = [k \in {PKey(p) : p \in Range(cfg.pods)} |-> PodByKey(cfg, k)]
    /\ claims = <<>>
    /\ left = [id \in Rids(cfg) |-> CapMin(cfg, id)]
    /\ st = [k \in {PKey(p) : p \in Range(cfg.pods)} |-> "pending"]
    /\ phase = "solve"
    /\ flags = {}
    /\ preq = [k \in {PKey(p) : p \in Range(cfg.pods)} |-> PodReqs(PodByKey(cfg, k))]
    /\ tmpl = [i \in DOMAIN cfg.pools |-> TemplateReqs(cfg.pools[i])]
    /\ fr = [k \in DOMAIN preq |-> FreshNarrow(tmpl, k, preq[k])]

Flag(cond, name) == IF cond THEN {name} ELSE {}

FTab(k) == [i \in DOMAIN cfg.pools |-> Fresh(i, k)]

(* The four "fresh claim" actions take the table F = FTab(k); Next hands every one its own copy (named actions, coverage),    *)
(* NextFast computes it once per pod and state (the exhaustive runs).                                                      *)
OpenNewF(k, F) ==
    LET i == FirstDecisive(F) IN
    /\ Solving(k)
    /\ i # 0 /\ F[i].out = "ok"
    /\ LET f == F[i]
           host == "h" \o ToString(Len(claims) + 1)
       IN /\ claims' = Append(claims, [host |-> host, pool |-> cfg.pools[i].name, pods |-> <<k>>, reqs |-> f.r.reqs, its |-> f.r.its, held |-> f.rs.toHold])
          /\ left' = LeftAfter({}, f.rs.toHold)
          /\ flags' = flags \cup Flag(Strict /\ ~G_C17_StrictClaim(cfg, f.r.its, f.r.reqs, {}, f.rs.toHold), "strict-claim")
                            \cup Flag(Strict /\ SimplePod(eff[k]) /\ ~G_C17_NoPoolFallback(cfg, HeldMap, eff[k], cfg.pools[i].name), "pool-fallback")
    /\ st' = [st EXCEPT ![k] = "placed"]
    /\ UNCHANGED <<cfg, eff, phase, preq, tmpl, fr>>

PlaceClaim(k, i) ==
    LET c == claims[i]
        r == Narrow(c.reqs, c.its, c.pods, k)
        rs == ResStep(c.held, r.its, r.reqs) IN
    /\ Solving(k)
    /\ r.ok /\ ~rs.refused
    /\ claims' = [claims EXCEPT ![i] = [c EXCEPT !.pods = Append(c.pods, k), !.reqs = r.reqs, !.its = r.its, !.held = rs.toHold]]
    /\ left' = LeftAfter(c.held, rs.toHold)
    /\ flags' = flags \cup Flag(Strict /\ ~G_C17_StrictClaim(cfg, r.its, r.reqs, c.held, rs.toHold), "strict-claim")
    /\ st' = [st EXCEPT ![k] = "placed"]
    /\ UNCHANGED <<cfg, eff, phase, preq, tmpl, fr>>

\* strict mode: the pod is deferred with a reserved-offering error (it stays eligible: other claims may release capacity)
DeferF(k, F) ==
    /\ Solving(k)
    /\ Strict /\ st[k] = "pending"
    /\ IF W_PoolOrder THEN FirstDecisive(F) # 0 /\ F[FirstDecisive(F)].out = "reserved" ELSE FirstDecisive(F) = 0 /\ AnyRefusal(F)
    /\ st' = [st EXCEPT ![k] = "deferred"]
    /\ flags' = flags \cup Flag(~G_C17_DeferJustified(cfg, HeldMap), "defer-unjustified")
                      \cup Flag(SimplePod(eff[k]) /\ ~G_C17_DeferJustifiedExact(cfg, HeldMap, eff[k]), "defer-unjustified-exact")
    /\ UNCHANGED <<cfg, eff, claims, left, phase, preq, tmpl, fr>>

\* relaxation happens only after an ordinary failure, never after a reserved-offering refusal
RelaxF(k, F) ==
    LET e == eff[k] IN
    /\ Solving(k)
    /\ (Len(e.terms) > 1 \/ e.pref # <<>>)
    /\ FirstDecisive(F) = 0 /\ ~AnyRefusal(F)
    /\ \/ (Len(e.terms) > 1 /\ eff' = [eff EXCEPT ![k] = [e EXCEPT !.terms = Tail(e.terms)]])
       \/ (Len(e.terms) <= 1 /\ e.pref # <<>>
           /\ eff' = [eff EXCEPT ![k] = [e EXCEPT !.pref = SelectSeq(e.pref, LAMBDA x : x # e.pref[Heaviest(e.pref)])]])
    /\ preq' = [preq EXCEPT ![k] = PodReqs(eff'[k])]
    /\ fr' = [fr EXCEPT ![k] = FreshNarrow(tmpl, k, preq'[k])]
    /\ UNCHANGED <<cfg, claims, left, st, phase, flags, tmpl>>

FailF(k, F) ==
    /\ Solving(k)
    /\ Len(eff[k].terms) <= 1 /\ eff[k].pref = <<>>
    /\ FirstDecisive(F) = 0 /\ ~AnyRefusal(F)
    /\ st' = [st EXCEPT ![k] = "failed"]
    /\ UNCHANGED <<cfg, eff, claims, left, phase, flags, preq, tmpl, fr>>

PinReqs(c) ==
    IF c.held = {} THEN c.reqs
    ELSE LET ids == IF W_PinAll THEN c.held ELSE {CHOOSE id \in c.held : TRUE}   \* any one of the held ids
         IN [c.reqs EXCEPT !["ct"] = MkReq("ct", {ReservedCT}, FALSE, TRUE),
                           !["rid"] = Meet(c.reqs["rid"], MkReq("rid", ids, FALSE, TRUE), "rid")]
Finalize ==
    /\ phase = "solve"
    /\ phase' = "final"
    /\ claims' = [i \in DOMAIN claims |-> [claims[i] EXCEPT !.reqs = PinReqs(claims[i])]]
    /\ UNCHANGED <<cfg, eff, left, st, flags, preq, tmpl, fr>>

OpenNew(k) == OpenNewF(k, FTab(k))
Defer(k) == DeferF(k, FTab(k))
Relax(k) == RelaxF(k, FTab(k))
Fail(k) == FailF(k, FTab(k))
Next ==
    \/ \E k \in Batch : OpenNew(k)
    \/ \E k \in Batch : \E i \in DOMAIN claims : PlaceClaim(k, i)
    \/ \E k \in Batch : Defer(k)
    \/ \E k \in Batch : Relax(k)
    \/ \E k \in Batch : Fail(k)
    \/ Finalize
Spec == Init /\ [][Next]_vars
\* the same transition relation with the table computed once per pod
NextFast ==
    \/ \E k \in Batch : Solving(k) /\ LET F == FTab(k) IN (OpenNewF(k, F) \/ DeferF(k, F) \/ RelaxF(k, F) \/ FailF(k, F))
    \/ \E k \in Batch : \E i \in DOMAIN claims : PlaceClaim(k, i)
    \/ Finalize
SpecFast == Init /\ [][NextFast]_vars

\* scenario generation: only the initial states, printed as JSON
GenSpec == Init /\ [][FALSE]_vars
GenPrint == PrintT(<<"BEH", ToJson(cfg)>>)

----------------------------------------------------------------------------
(* invariants *)
\* the statement: #holders(id) <= capacity(id), at every commit and in the end state
Inv_C17_ReservationCapacity == G_C17_Capacity(cfg, HeldMap)
\* the manager's table equals capacity - holders (what "exhausted" means to the code is what it means in the catalog)
Inv_C17_ManagerConsistent == \A id \in Rids(cfg) : left[id] = CapMin(cfg, id) - Cardinality(Holders(HeldMap, id))
Inv_C17_PinnedToHeldIds == phase = "final" => \A i \in DOMAIN claims : G_C17_PinnedToHeldIds(cfg, claims[i].reqs, claims[i].held)
\* whichever admitted reservation the provider launches each pinned claim into, no reservation is over-used
Inv_C17_EveryResolutionWithinCapacity ==
    phase = "final" =>
        LET pinned == {i \in DOMAIN claims : IsPinned(cfg, claims[i].reqs)} IN
        \A f \in [pinned -> Rids(cfg)] :
            (\A i \in pinned : f[i] \in ReqVals(cfg, claims[i].reqs, "rid"))
                => \A id \in Rids(cfg) : Cardinality({i \in pinned : f[i] = id}) <= CapMax(cfg, id)
\* strict mode: no claim with a compatible available reserved offering goes without a reservation
Inv_C17_StrictNoFallback == Strict => \A i \in DOMAIN claims : CompatIds(cfg, claims[i].its, claims[i].reqs) # {} => claims[i].held # {}
Inv_C17_StrictClaim == "strict-claim" \notin flags
Inv_C17_NoPoolFallback == "pool-fallback" \notin flags
Inv_C17_DeferJustified == "defer-unjustified" \notin flags /\ "defer-unjustified-exact" \notin flags
=============================================================================
