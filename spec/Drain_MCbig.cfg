\* exhaustive, thorough tier: every pair of archetypes of the full alphabet, a failing call anywhere
CONSTANTS Pods = {"p1", "p2"}  Archetypes <- ArchAll  TGPs <- BoolBoth  TGP = 3
  MaxNow = 4  MaxFaults = 1  MaxRestarts = 0  MaxDlChanges = 0  MaxLen = 1000  MaxSpont = 99
  EarlierMode = "earlier"  GateTiers = TRUE  MinGrace = 1  DndMode = "honour"  ThresholdSlack = 0  DropMode = "keep"  SplitMode = "waiting"
SPECIFICATION Spec
VIEW view
INVARIANTS TypeOK Inv_C10_Guards
