\* liveness of the same scope under weak fairness (no VIEW, nothing recorded): the count settles at spec.replicas
CONSTANTS N = 4  Pre = 2  Limit = 2  Replicas0 = 2  ScaleTo = {1, 2}  Budget = 1  CodeMode = "fixed"  Grain = "call"
          MaxCreateFail = 1  MaxTaintFail = 0  MaxDelete = 1  MaxDrift = 0  MaxScale = 1  MaxTimeout = 0  MaxResync = 99  MaxFlip = 99  Record = "none"  MaxLen = 0
SPECIFICATION LiveSpec
INVARIANTS TypeOK
PROPERTIES Live_C03_Settles
