\* exhaustive check of the closed model: every scenario of the scope x every sequence of guarded placements
CONSTANTS NPods = 3  PodArchs = {1,2,3,4,5,6,7,8,9,10}  Layouts = {1,2,3}  Caps = {0,1,2}  PoolSets = {1,2,3,4,5}  Modes = {"strict", "fallback"}  GenMod = 1  GenRes = 0
CONSTANTS W_CanReserve = TRUE  W_Release = TRUE  W_PinAll = TRUE  W_Strict = TRUE  W_KeepHeld = TRUE  W_PoolOrder = TRUE
SPECIFICATION Spec
INVARIANTS Inv_C17_ReservationCapacity Inv_C17_ManagerConsistent Inv_C17_PinnedToHeldIds Inv_C17_EveryResolutionWithinCapacity Inv_C17_StrictNoFallback Inv_C17_StrictClaim Inv_C17_NoPoolFallback Inv_C17_DeferJustified
