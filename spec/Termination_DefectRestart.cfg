\* even when finalize consults the launch cache, a restart between the failed status patch and the deletion
\* loses the only record of the instance (known finding F-C09-2): the strict invariant is violated
CONSTANTS Pods = {"p1"}  Tol = {}  Late = {}
  Starts = {"unpersisted"}
  VaOwners = {"-"}  TGPs <- BoolF  Instants <- BoolF
  MaxFaults = 0  MaxRestarts = 1  MaxLen = 1000  MaxSpont = 99
  Atomic = TRUE  FinalizeMode = "cache"  Weak = ""
SPECIFICATION Spec
VIEW view
INVARIANTS TypeOK Inv_C09_NoLeakStrict
