\* pinned tree: StartCommand fails before createReplacementNodeClaims -> the reservation is never released
CONSTANTS N = 3  Pre = 1  Limit = 2  Replicas0 = 1  ScaleTo = {1}  Budget = 1  CodeMode = "code"  Grain = "gate"
          MaxCreateFail = 0  MaxTaintFail = 1  MaxDelete = 0  MaxDrift = 1  MaxScale = 0  MaxTimeout = 0  MaxResync = 0  MaxFlip = 99  Record = "all"  MaxLen = 40
SPECIFICATION Spec
VIEW view
INVARIANTS Cex_ReservedExact
