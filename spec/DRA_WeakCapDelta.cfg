\* spec mutation (W_CapDelta = FALSE): TLC must violate Inv_C17_TrackerCoversEveryResolution
CONSTANTS NCs = {"N1", "N2"}  NClaims = 3  Kinds = {"shm2", "shm3"}  Pres = {0}  Slots = {0}
CONSTANTS W_OtherNC = TRUE  W_SameType = TRUE  W_Prealloc = TRUE  W_RefCount = TRUE  W_CapInflight = TRUE  W_CapDelta = FALSE  W_Counters = TRUE  W_Template = TRUE  W_Releasable = TRUE 
SPECIFICATION Spec
INVARIANTS Inv_C17_DeviceExclusive Inv_C17_SharedCapacity Inv_C17_Counters Inv_C17_TrackerCoversEveryResolution
