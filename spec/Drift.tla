------------------------------- MODULE Drift -------------------------------
(***************************************************************************)
(* Drift (property C15): the NodePool template hash, the hash controller,  *)
(* NodeClaim creation from the template + provider launch, and the drift   *)
(* decision of the nodeclaim disruption controller.                        *)
(*                                                                         *)
(* (a) `HashOf` is uninterpreted except for what the property says about   *)
(*     it: it is a function of the template's drift-relevant content with  *)
(*     lists / maps read as sets (so reordering, and edits of the          *)
(*     documented non-drifting fields - requirements, budgets, limits,     *)
(*     weight, consolidation settings - cannot change it) and injective on *)
(*     that content (so any other template edit changes it).  The edit     *)
(*     alphabet (field class x edit kind) is the enumerated space.         *)
(* (b) the decision  Drifted <=> launched /\ ((same hash version /\ hashes *)
(*     differ) \/ ~Sat(labels, pool requirements) \/ instance type unknown *)
(*     \/ provider says so), and the hash-version migration of the hash    *)
(*     controller (pool annotation of an older version => NodeClaims of an *)
(*     older version get the current version, and the pool's current hash  *)
(*     unless they already carry a Drifted condition).                     *)
(* (c) NoSelfDrift: a NodeClaim created from the pool (labels = template   *)
(*     labels + one admitted value per constrained custom key) and         *)
(*     launched as ANY permitted (type, zone, capacity type) is not        *)
(*     reported Drifted while nothing drift-relevant has happened to it.   *)
(*                                                                         *)
(* One action per linearization point: pool edits (environment), HashRec   *)
(* (nodepool.hash reconcile), Create (provisioner writes the NodeClaim),   *)
(* Launch(choice) (lifecycle reconcile: provider Create + label merge),    *)
(* DriftRec (nodeclaim.disruption reconcile), AgeVersion / OldStamp (state *)
(* left by an earlier release), provider drift, catalog change, clock,     *)
(* restart.  `Wk` selects a spec mutation (Drift_Weak*.cfg), "none" = the  *)
(* intended design.                                                        *)
(***************************************************************************)
EXTENDS DriftGuards, Json

CONSTANTS Claims,      \* claim ids
          AtomIds,     \* indices into AtomTable usable as pool requirements
          Types, Zones, CTs,   \* catalog
          MaxLen,      \* history bound
          MaxEdits,    \* bound on environment edits
          MaxAtoms,    \* requirement atoms of the initial pool
          Wk           \* spec mutation, "none" = none

VARIABLES pool, claim, types, edits, last, h
vars == <<pool, claim, types, edits, last, h>>
view == <<pool, claim, types, edits, last>>

Cur == "=v3"
Old == "=v2"
PoolName == "pool-1"
ZoneKey == "topology.kubernetes.io/zone"
CTKey == "karpenter.sh/capacity-type"
TypeKey == "node.kubernetes.io/instance-type"
ArchKey == "kubernetes.io/arch"
TeamKey == "example.com/team"
GenKey == "example.com/gen"
KK == [typeKey |-> TypeKey, zoneKey |-> ZoneKey, ctKey |-> CTKey]
CustomKeys == {TeamKey, GenKey}

R(k, op, vals, n) == [key |-> k, op |-> op, vals |-> vals, n |-> n]
\* requirement atoms: all requirements a pool puts on ONE key (a pool uses at most one atom per key)
AtomTable == <<
  [key |-> ZoneKey, reqs |-> <<R(ZoneKey, "In", <<"zone-a">>, -1)>>],                                         \* 1
  [key |-> ZoneKey, reqs |-> <<R(ZoneKey, "NotIn", <<"zone-a">>, -1)>>],                                      \* 2
  [key |-> CTKey,   reqs |-> <<R(CTKey, "In", <<"spot">>, -1)>>],                                             \* 3
  [key |-> CTKey,   reqs |-> <<R(CTKey, "Exists", <<>>, -1)>>],                                               \* 4
  [key |-> TypeKey, reqs |-> <<R(TypeKey, "NotIn", <<"small">>, -1)>>],                                       \* 5
  [key |-> TeamKey, reqs |-> <<R(TeamKey, "In", <<"a", "b">>, -1)>>],                                         \* 6
  [key |-> TeamKey, reqs |-> <<R(TeamKey, "NotIn", <<"a">>, -1)>>],                                           \* 7
  [key |-> TeamKey, reqs |-> <<R(TeamKey, "Exists", <<>>, -1)>>],                                             \* 8
  [key |-> TeamKey, reqs |-> <<R(TeamKey, "DoesNotExist", <<>>, -1)>>],                                       \* 9
  [key |-> GenKey,  reqs |-> <<R(GenKey, "Gt", <<"2">>, 2), R(GenKey, "Lt", <<"5">>, 5), R(GenKey, "NotIn", <<"3">>, -1)>>],  \* 10
  [key |-> GenKey,  reqs |-> <<R(GenKey, "Gt", <<"1">>, 1), R(GenKey, "Lt", <<"4">>, 4)>>],                   \* 11
  [key |-> GenKey,  reqs |-> <<R(GenKey, "In", <<"1", "3", "4">>, -1), R(GenKey, "Gt", <<"2">>, 2)>>],        \* 12
  [key |-> GenKey,  reqs |-> <<R(GenKey, "Gte", <<"3">>, 3), R(GenKey, "Lte", <<"3">>, 3)>>],                 \* 13
  [key |-> ArchKey, reqs |-> <<R(ArchKey, "In", <<"amd64">>, -1)>>],                                          \* 14
  [key |-> TypeKey, reqs |-> <<R(TypeKey, "In", <<"small", "large">>, -1)>>],                                 \* 15
  [key |-> ZoneKey, reqs |-> <<R(ZoneKey, "Exists", <<>>, -1)>>],                                             \* 16
  \* requirements written with the deprecated alias spelling of a well-known key (atom.key = the label they denote)
  [key |-> ArchKey, reqs |-> <<R("beta.kubernetes.io/arch", "In", <<"amd64">>, -1)>>],                        \* 17
  [key |-> ZoneKey, reqs |-> <<R("failure-domain.beta.kubernetes.io/zone", "In", <<"zone-a">>, -1)>>],        \* 18
  [key |-> ZoneKey, reqs |-> <<R("failure-domain.beta.kubernetes.io/zone", "NotIn", <<"zone-a">>, -1)>>],     \* 19
  [key |-> TypeKey, reqs |-> <<R("beta.kubernetes.io/instance-type", "Exists", <<>>, -1)>>]                   \* 20
>>
Range(s) == {s[i] : i \in DOMAIN s}
ReqsOf(A) == UNION {Range(AtomTable[a].reqs) : a \in A}
KeysOf(A) == {AtomTable[a].key : a \in A}
\* the table is printed once per TLC run so that the orchestrator / driver use the spec's own atoms
ASSUME PrintT(<<"ATOMS", ToJson(AtomTable)>>)
OnePerKey(A) == \A a, b \in A : AtomTable[a].key = AtomTable[b].key => a = b

Digits == <<"0", "1", "2", "3", "4", "5", "6">>
StrInt(s) == IF \E i \in DOMAIN Digits : Digits[i] = s THEN (CHOOSE i \in DOMAIN Digits : Digits[i] = s) - 1 ELSE -1
IntsOf(L) == [k \in DOMAIN L |-> StrInt(L[k])]
Universe(k) == IF k = TeamKey THEN {"a", "b", "r"} ELSE Range(Digits)
Empty == [k \in {} |-> "-"]
One(k, v) == [x \in {k} |-> v]
AdmitsV(r, v) == Admits(r, One(r.key, v), One(r.key, StrInt(v)))

\* ---------------------------------------------------------------- the hash: a value, compared only by equality
\* <<algorithm version, template content, template labels, extra>>; lists / maps are sets, requirements and
\* behavioural fields are not part of it.  Spec mutations put more / less into it.
Extra(p) == (IF Wk = "hashWithReqs" THEN p.reqs ELSE {}) \cup (IF Wk = "hashWithOrder" /\ p.order THEN {100} ELSE {})
             \cup (IF Wk = "hashWithBehav" /\ p.behav THEN {101} ELSE {})
HashOf(p, alg) == <<alg, IF Wk = "hashNoTmpl" THEN 0 ELSE p.tmpl, p.tl, Extra(p)>>
NoHash == <<"-", 0, "-", {}>>
Tampered == <<"X", 0, "-", {}>>
CurT(p) == <<p.tmpl, p.tl>>
QuiescentM == pool.hashAnn = HashOf(pool, Cur) /\ pool.verAnn = Cur

\* ---------------------------------------------------------------- catalog and launch options
Options == {[type |-> t, zone |-> z, ct |-> x] : t \in Types, z \in Zones, x \in CTs}
OptLabels(o) == [k \in {TypeKey, ZoneKey, CTKey, ArchKey} |->
                   IF k = TypeKey THEN o.type ELSE IF k = ZoneKey THEN o.zone ELSE IF k = CTKey THEN o.ct ELSE "amd64"]
OptName(o) == o.type \o "/" \o o.zone \o "/" \o o.ct
WellKnownReqs(A) == {r \in ReqsOf(A) : Norm(r.key) \notin CustomKeys}
Permitted(A, o) == o.type \in types /\ SatSet(OptLabels(o), IntsOf(OptLabels(o)), WellKnownReqs(A))
Launchable(A) == \E o \in Options : Permitted(A, o)

\* ---------------------------------------------------------------- label production at creation
ReqsOnKey(k) == {r \in ReqsOf(pool.reqs) : r.key = k}
                \cup (IF k = TeamKey /\ pool.tl # "-" THEN {R(TeamKey, "In", <<pool.tl>>, -1)} ELSE {})
NoLabel(k) == ReqsOnKey(k) = {} \/ \E r \in ReqsOnKey(k) : r.op = "DoesNotExist"
Bounded(k) == \E r \in ReqsOnKey(k) : r.op \in {"Gt", "Lt", "Gte", "Lte"}
\* design: any value every requirement on the key admits.  Mutation anyBoundsOnly: a bounded key ignores its exclusions.
Picks(k) == IF NoLabel(k) THEN {"-"}
            ELSE IF Wk = "anyBoundsOnly" /\ Bounded(k)
                 THEN {v \in Universe(k) : \A r \in ReqsOnKey(k) : r.op = "NotIn" \/ AdmitsV(r, v)}
                 ELSE {v \in Universe(k) : \A r \in ReqsOnKey(k) : AdmitsV(r, v)}
MkLabels(tv, gv) == [k \in ({TeamKey} \cap (IF tv = "-" THEN {} ELSE {TeamKey})) \cup ({GenKey} \cap (IF gv = "-" THEN {} ELSE {GenKey}))
                       |-> IF k = TeamKey THEN tv ELSE gv]
Merge(f, g) == [k \in DOMAIN f \cup DOMAIN g |-> IF k \in DOMAIN f THEN f[k] ELSE g[k]]   \* f wins

NoClaim == [st |-> "none", labels |-> Empty, hashAnn |-> NoHash, verAnn |-> "-", cond |-> "Absent", provD |-> FALSE,
            old |-> FALSE, cached |-> FALSE, bornT |-> <<0, "-">>, fresh |-> FALSE, tamp |-> FALSE, birth |-> {}]

\* the claim as the guards of DriftGuards see it (logged shape)
PoolRec == [exists |-> TRUE, hashAnn |-> pool.hashAnn, verAnn |-> pool.verAnn, specHash |-> HashOf(pool, Cur)]
StaticM(x) == /\ pool.hashAnn # NoHash /\ x.hashAnn # NoHash /\ pool.verAnn # "-" /\ x.verAnn # "-"
              /\ (Wk = "crossVersion" \/ (IF Wk = "versionConst" THEN x.verAnn = Cur ELSE pool.verAnn = x.verAnn))
              /\ pool.hashAnn # x.hashAnn
ReqDriftM(x) == IF Wk = "intersects"
                THEN ~(\A r \in ReqsOf(pool.reqs) : ~Has(x.labels, Norm(r.key)) \/ Admits(r, x.labels, IntsOf(x.labels)))
                ELSE IF Wk = "rawKeyFilter"   \* labels pre-filtered by the RAW requirement keys
                THEN LET L == [k \in DOMAIN x.labels \cap {r.key : r \in ReqsOf(pool.reqs)} |-> x.labels[k]]
                     IN ~SatSet(L, IntsOf(L), ReqsOf(pool.reqs))
                ELSE ~SatSet(x.labels, IntsOf(x.labels), ReqsOf(pool.reqs))
TypeUnknownM(x) == ~Has(x.labels, TypeKey) \/ x.labels[TypeKey] \notin types
\* oracle side (never mutated)
StaticO(x) == /\ pool.hashAnn # NoHash /\ x.hashAnn # NoHash /\ pool.verAnn # "-" /\ x.verAnn # "-"
              /\ pool.verAnn = x.verAnn /\ pool.hashAnn # x.hashAnn
ReqDriftO(x) == ~SatSet(x.labels, IntsOf(x.labels), ReqsOf(pool.reqs))

\* ---------------------------------------------------------------- actions
Init == /\ types = Types /\ claim = [c \in Claims |-> NoClaim] /\ edits = 0 /\ last = [a |-> "Init", c |-> "-"]
        /\ \E A \in {B \in SUBSET AtomIds : Cardinality(B) <= MaxAtoms /\ OnePerKey(B)} :
              /\ \E o \in Options : SatSet(OptLabels(o), IntsOf(OptLabels(o)), WellKnownReqs(A))
              /\ pool = [reqs |-> A, tl |-> "-", tmpl |-> 0, order |-> FALSE, behav |-> FALSE, hashAnn |-> NoHash, verAnn |-> "-"]
              /\ h = <<[a |-> "Scn", atoms |-> A]>>

Hist(e) == h' = Append(h, e) /\ last' = [a |-> e.a, c |-> IF "c" \in DOMAIN e THEN e.c ELSE "-"]
Edit == edits < MaxEdits /\ edits' = edits + 1
AllClaims(f(_)) == [c \in Claims |-> IF claim[c].st = "none" THEN claim[c] ELSE f(claim[c])]
Unfresh(x) == [x EXCEPT !.fresh = FALSE]

\* --- (a) the edit alphabet on the pool
EditTemplate(n) ==      \* any template field outside the documented list: set / change / clear / append / remove
    /\ Edit /\ n # pool.tmpl /\ pool' = [pool EXCEPT !.tmpl = n]
    /\ claim' = AllClaims(Unfresh) /\ UNCHANGED types /\ Hist([a |-> "EditTemplate", n |-> n])
SetTLabel(v) ==         \* template labels are template fields AND feed the NodeClaim's labels
    /\ Edit /\ v # pool.tl /\ pool' = [pool EXCEPT !.tl = v]
    /\ (v # "-" => \A r \in ReqsOf(pool.reqs) : r.key = TeamKey => AdmitsV(r, v))     \* validated: labels agree with requirements
    /\ claim' = AllClaims(Unfresh) /\ UNCHANGED types /\ Hist([a |-> "SetTLabel", v |-> v])
Reorder ==              \* permutation of lists / map insertion order
    /\ Edit /\ pool' = [pool EXCEPT !.order = ~@] /\ UNCHANGED <<claim, types>> /\ Hist([a |-> "Reorder"])
EditBehav ==            \* budgets, limits, weight, consolidation settings
    /\ Edit /\ pool' = [pool EXCEPT !.behav = ~@] /\ UNCHANGED <<claim, types>> /\ Hist([a |-> "EditBehav"])
AddReq(a) ==
    /\ Edit /\ a \notin pool.reqs /\ OnePerKey(pool.reqs \cup {a}) /\ Launchable(pool.reqs \cup {a})
    /\ (pool.tl # "-" /\ AtomTable[a].key = TeamKey => \A r \in Range(AtomTable[a].reqs) : AdmitsV(r, pool.tl))
    /\ pool' = [pool EXCEPT !.reqs = @ \cup {a}]
    /\ claim' = AllClaims(Unfresh) /\ UNCHANGED types /\ Hist([a |-> "AddReq", atom |-> a])
DelReq(a) ==
    /\ Edit /\ a \in pool.reqs /\ pool' = [pool EXCEPT !.reqs = @ \ {a}]
    /\ claim' = AllClaims(Unfresh) /\ UNCHANGED types /\ Hist([a |-> "DelReq", atom |-> a])
TamperPool ==           \* somebody overwrites the pool's hash annotation; the hash controller repairs it
    /\ Edit /\ pool.hashAnn # Tampered /\ pool' = [pool EXCEPT !.hashAnn = Tampered]
    /\ UNCHANGED <<claim, types>> /\ Hist([a |-> "TamperPool"])

\* --- nodepool.hash reconcile
HashRec ==
    /\ LET bump == pool.verAnn # Cur
           restamp(x) ==
             IF x.st = "none" THEN x
             ELSE IF Wk = "restampAlways" THEN [x EXCEPT !.hashAnn = HashOf(pool, Cur), !.verAnn = Cur]
             ELSE IF bump /\ x.verAnn # Cur
                  THEN [x EXCEPT !.verAnn = Cur,
                                 !.hashAnn = IF x.cond = "Absent" \/ Wk = "restampDrifted" THEN HashOf(pool, Cur) ELSE @,
                                 \* ghost: an undrifted claim is re-born under the current template by the migration
                                 !.bornT = IF x.cond = "Absent" THEN CurT(pool) ELSE @]
                  ELSE x
       IN claim' = [c \in Claims |-> restamp(claim[c])]
    /\ pool' = [pool EXCEPT !.hashAnn = HashOf(pool, Cur), !.verAnn = Cur]
    /\ UNCHANGED <<types, edits>> /\ Hist([a |-> "HashRec"])

\* --- state as an earlier release (hash version Old, another hash algorithm) left it
AgeHash(hv) == IF hv[1] = Cur THEN <<Old, hv[2], hv[3], hv[4]>> ELSE hv
AgeVersion ==
    /\ Edit /\ QuiescentM
    /\ pool' = [pool EXCEPT !.hashAnn = AgeHash(@), !.verAnn = Old]
    /\ claim' = AllClaims(LAMBDA x : IF x.verAnn = Cur THEN [x EXCEPT !.hashAnn = AgeHash(@), !.verAnn = Old] ELSE x)
    /\ UNCHANGED types /\ Hist([a |-> "AgeVersion"])
OldStamp(c) ==          \* a replica of the earlier release wrote this claim
    /\ Edit /\ claim[c].st # "none" /\ claim[c].verAnn = Cur
    /\ claim' = [claim EXCEPT ![c].hashAnn = AgeHash(@), ![c].verAnn = Old]
    /\ UNCHANGED <<pool, types>> /\ Hist([a |-> "OldStamp", c |-> c])

\* --- provisioner: NodeClaimTemplate(pool).ToNodeClaim() - hash computed from the pool SPEC, current version,
\* labels = template labels + one value per constrained custom key
Create(c) ==
    /\ claim[c].st = "none" /\ Launchable(pool.reqs)
    /\ \E tv \in Picks(TeamKey), gv \in Picks(GenKey) :
         claim' = [claim EXCEPT ![c] = [NoClaim EXCEPT !.st = "created", !.labels = MkLabels(tv, gv),
                                                        !.hashAnn = HashOf(pool, Cur), !.verAnn = Cur,
                                                        !.bornT = CurT(pool), !.fresh = TRUE, !.birth = pool.reqs]]
    /\ UNCHANGED <<pool, types, edits>> /\ Hist([a |-> "Create", c |-> c])

\* --- lifecycle: provider Create with an explicit choice, labels of the instance merged UNDER the claim's own
Launch(c, o) ==
    /\ claim[c].st = "created" /\ Permitted(claim[c].birth, o)
    /\ claim' = [claim EXCEPT ![c].st = "launched",
                              ![c].labels = IF Wk = "noMerge" THEN @ ELSE Merge(@, OptLabels(o))]
    /\ UNCHANGED <<pool, types, edits>> /\ Hist([a |-> "Launch", c |-> c, opt |-> OptName(o)])

\* --- nodeclaim.disruption reconcile (Drift sub-reconciler)
DriftRec(c) ==
    /\ claim[c].st # "none"
    /\ LET x == claim[c]
           launched == x.st = "launched"
           static == StaticM(x)
           reqd == ReqDriftM(x)
           checkType == x.old /\ ~x.cached
           tun == checkType /\ TypeUnknownM(x)
           drifted == launched /\ (static \/ reqd \/ tun \/ x.provD)
       IN claim' = [claim EXCEPT ![c].cond = IF drifted THEN "True" ELSE "Absent",
                                 ![c].cached = IF launched /\ ~static /\ ~reqd /\ checkType /\ ~tun THEN TRUE ELSE @,
                                 ![c].fresh = @ /\ (QuiescentM \/ ~drifted)]
    /\ UNCHANGED <<pool, types, edits>> /\ Hist([a |-> "DriftRec", c |-> c])

\* --- environment around the claim
ProvDrift(c) == /\ Edit /\ claim[c].st = "launched" /\ ~claim[c].provD
                /\ claim' = [claim EXCEPT ![c].provD = TRUE, ![c].fresh = FALSE]
                /\ UNCHANGED <<pool, types>> /\ Hist([a |-> "ProvDrift", c |-> c])
LabelEdits == {<<TeamKey, "a">>, <<TeamKey, "-">>, <<GenKey, "-">>, <<ZoneKey, "-">>, <<CTKey, "on-demand">>}
EditLabel(c, e) ==
    /\ Edit /\ claim[c].st = "launched"
    /\ LET L == claim[c].labels
           L2 == IF e[2] = "-" THEN [k \in DOMAIN L \ {e[1]} |-> L[k]] ELSE Merge(One(e[1], e[2]), L)
       IN L2 # L /\ claim' = [claim EXCEPT ![c].labels = L2, ![c].fresh = FALSE, ![c].tamp = TRUE]
    /\ UNCHANGED <<pool, types>> /\ Hist([a |-> "EditLabel", c |-> c, key |-> e[1], val |-> e[2]])
RemoveType(t) == /\ Edit /\ t \in types /\ Cardinality(types) > 1 /\ types' = types \ {t}
                 /\ claim' = AllClaims(Unfresh) /\ UNCHANGED pool /\ Hist([a |-> "RemoveType", t |-> t])
Tick ==   \* an hour passes: the instance-type check becomes due (and its 30-minute cache entries expire)
    /\ Edit /\ claim' = AllClaims(LAMBDA x : [x EXCEPT !.old = TRUE, !.cached = FALSE])
    /\ UNCHANGED <<pool, types>> /\ Hist([a |-> "Tick"])
Restart ==  \* the drift controller's instance-type cache is lost
    /\ Edit /\ \E c \in Claims : claim[c].cached
    /\ claim' = AllClaims(LAMBDA x : [x EXCEPT !.cached = FALSE])
    /\ UNCHANGED <<pool, types>> /\ Hist([a |-> "Restart"])

Next == /\ Len(h) < MaxLen
        /\ \/ \E n \in 0..2 : EditTemplate(n)
           \/ \E v \in {"-", "a", "b"} : SetTLabel(v)
           \/ Reorder \/ EditBehav \/ TamperPool
           \/ \E a \in AtomIds : AddReq(a) \/ DelReq(a)
           \/ HashRec \/ AgeVersion
           \/ \E c \in Claims : \/ Create(c) \/ DriftRec(c) \/ OldStamp(c) \/ ProvDrift(c)
                                \/ \E o \in Options : Launch(c, o)
                                \/ \E e \in LabelEdits : EditLabel(c, e)
           \/ \E t \in Types : RemoveType(t)
           \/ Tick \/ Restart
Spec == Init /\ [][Next]_vars

\* ---------------------------------------------------------------- properties
TypeOK == /\ pool.verAnn \in {"-", Old, Cur} /\ OnePerKey(pool.reqs)
          /\ \A c \in Claims : claim[c].st \in {"none", "created", "launched"} /\ claim[c].cond \in {"Absent", "True"}
\* a fresh claim never carries Drifted (state form of NoSelfDrift)
Inv_C15_NoSelfDrift == \A c \in Claims : claim[c].fresh => claim[c].cond # "True"

Did(a) == last'.a = a /\ h' # h
\* (a) the two hash axioms over the edit alphabet
Act_C15_HashInvariant == [][ (Did("Reorder") \/ Did("EditBehav") \/ Did("AddReq") \/ Did("DelReq"))
                               => HashOf(pool', Cur) = HashOf(pool, Cur) ]_vars
Act_C15_HashSensitive == [][ (Did("EditTemplate") \/ Did("SetTLabel")) => HashOf(pool', Cur) # HashOf(pool, Cur) ]_vars
\* (b) the decision, both directions, re-stated with the unmutated oracle
Act_C15_Decision ==
    [][ Did("DriftRec") =>
          LET c == last'.c
              x == claim[c] IN
          /\ (x.st = "launched" /\ (StaticO(x) \/ ReqDriftO(x))) => claim'[c].cond = "True"
          /\ claim'[c].cond = "True" => (x.st = "launched" /\ (StaticO(x) \/ ReqDriftO(x) \/ x.provD \/ TypeUnknownM(x))) ]_vars
\* (c) a fresh claim is not reported Drifted by a reconcile that sees current pool annotations
Act_C15_NoSelfDrift ==
    [][ Did("DriftRec") => LET c == last'.c IN (claim[c].fresh /\ QuiescentM) => claim'[c].cond # "True" ]_vars
\* end to end: a template change is reported for a claim of the current hash version once the hash controller caught up
Act_C15_TemplateChangeReported ==
    [][ Did("DriftRec") =>
          LET c == last'.c
              x == claim[c] IN
          (x.st = "launched" /\ QuiescentM /\ x.verAnn = Cur /\ ~x.tamp /\ x.bornT # CurT(pool)) => claim'[c].cond = "True" ]_vars
\* the hash controller leaves the pool's annotations current
Act_C15_HashStamped == [][ Did("HashRec") => (pool'.hashAnn = HashOf(pool', Cur) /\ pool'.verAnn = Cur) ]_vars

\* generator: print complete histories together with the initial pool requirements
GenPrint == (Len(h) < MaxLen /\ ENABLED Next) \/ PrintT(<<"BEH", ToJson(h)>>)
=============================================================================
