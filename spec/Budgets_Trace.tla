---------------------------- MODULE Budgets_Trace ----------------------------
(***************************************************************************)
(* Trace validation for C05.  Every recorded result of the real code is    *)
(* re-derived from the pure operators of BudgetGuards.tla:                 *)
(*   Call/Allowed  one case of the arithmetic replayed on the real         *)
(*                 NodePool.GetAllowedDisruptionsByReason /                *)
(*                 MustGetAllowedDisruptions / Budget.IsActive /           *)
(*                 Budget.GetAllowedDisruptions (hit sets from the cron    *)
(*                 library, abstract budgets from the TLC case);           *)
(*   Call/Map      disruption.BuildDisruptionBudgetMapping on a cluster    *)
(*                 state hydrated by the real informer controllers: the    *)
(*                 node table is the abstraction of the API objects plus   *)
(*                 the in-memory marks the driver placed.                  *)
(* Guard failures accumulate in `viol` (never fatal); a line no disjunct   *)
(* consumes means a malformed log (exit 2).                                *)
(***************************************************************************)
EXTENDS BudgetGuards, TLC, Json, IOUtils

VARIABLES l, viol, ntr, done,
          mk        \* ghost: positions (in the logged node table) of the nodes selected by commands still in flight
tvars == <<l, viol, ntr, done, mk>>

Trace == ndJsonDeserialize(IOEnv.TRACE)
Ev == Trace[l]
Chk(ok, guard, sig) == IF ok THEN <<>> ELSE <<[line |-> l, guard |-> guard, sig |-> sig]>>

TraceInit == l = 1 /\ viol = <<>> /\ ntr = 0 /\ done = FALSE /\ mk = {}

RECURSIVE Cat(_, _)
Cat(f, S) == IF S = {} THEN <<>> ELSE LET i == MinOf(S) IN f[i] \o Cat(f, S \ {i})

\* ---- Call/Allowed
AllowedChecks ==
    LET bs == Ev.budgets IN
    Chk(G_C05_Allowed(Ev.must, bs, Ev.now, Ev.n, Ev.reason), "G_C05_Allowed",
        AllowedSig(Ev.must, bs, Ev.now, Ev.n, Ev.reason, Ev.fam))
    \* the error-returning variant is judged separately only where it can differ from the fail-closed
    \* wrapper (an error, or a different value); otherwise it is the very value judged above
    \o Chk((~Ev.err /\ Ev.res = Ev.must) \/ G_C05_ByReason(Ev.res, Ev.err, bs, Ev.now, Ev.n, Ev.reason),
           "G_C05_ByReason", AllowedSig(Ev.res, bs, Ev.now, Ev.n, Ev.reason, Ev.fam))
    \o Cat([i \in DOMAIN bs |->
              Chk(G_C05_IsActive(Ev.act[i], bs[i], Ev.now), "G_C05_IsActive",
                  "fam=" \o Ev.fam \o ",mal=" \o bs[i].mal)
              \o Chk(G_C05_BudgetValue(Ev.bval[i], Ev.berr[i], bs[i], Ev.now, Ev.n), "G_C05_BudgetValue",
                     "fam=" \o Ev.fam \o ",kind=" \o bs[i].kind \o ",mal=" \o bs[i].mal)],
           DOMAIN bs)

\* ---- Call/Map: one entry per pool [pool, present, res, budgets]; nodes = the abstraction of the API objects.
\* Which nodes are marked (selected by a command still in flight) is the spec's own ghost `mk`, accumulated
\* from the logged Start / Fail / Gone steps - not what the driver or Karpenter's cluster state believes.
Seq2Set(sq) == {sq[i] : i \in DOMAIN sq}
Marked(nodes) == [i \in DOMAIN nodes |-> [nodes[i] EXCEPT !.marked = (i \in mk)]]
\* witness class: on which side of every accepted reading the recorded value lies
\* a pool the code left out of its mapping reads as 0 there (the methods index the Go map)
Res(p) == IF p.present THEN p.res ELSE 0
MapSig(p, nodes, now, reason) ==
    LET vals == {Remaining(rb, nodes, p.pool, now, reason, rd) : rd \in MapReadings, rb \in Readings(p.budgets)} IN
    IF \A v \in vals : Res(p) > v THEN "mapping-over"
    ELSE IF \A v \in vals : Res(p) < v THEN "mapping-under" ELSE "mapping-between"
MapChecks ==
    LET nodes == Marked(Ev.nodes) IN
    Cat([k \in DOMAIN Ev.pools |->
           LET p == Ev.pools[k] IN
           Chk(G_C05_Mapping(Res(p), p.budgets, nodes, p.pool, Ev.now, Ev.reason),
               "G_C05_Mapping", MapSig(p, nodes, Ev.now, Ev.reason))],
        DOMAIN Ev.pools)

\* ---- Start: the real disruption controller handed a command to the orchestration queue.  sel = positions of
\* its candidates; computed = instant of the controller's last budget computation for it; nodes = API state then.
StartChecks ==
    LET nodes == Marked(Ev.nodes) sel == Seq2Set(Ev.sel) IN
    Cat([k \in DOMAIN Ev.pools |->
           LET p == Ev.pools[k] IN
           Chk(G_C05_StartWithinBudget(sel, p.budgets, nodes, p.pool, Ev.computed, Ev.reason),
               "G_C05_StartWithinBudget", "reason=" \o Ev.reason)],
        DOMAIN Ev.pools)

\* ---- Step: effects on the ghost
StepMk == IF ~Ev.applied THEN mk
          ELSE IF Ev.a = "Start" THEN mk \cup Seq2Set(Ev.sel)          \* mapping level: the driver marks on the queue's behalf
          ELSE IF Ev.a \in {"Fail", "Gone"} THEN mk \ {Ev.i}
          ELSE mk

TraceNext ==
    \/ /\ l <= Len(Trace) /\ l' = l + 1 /\ UNCHANGED done
       /\ \/ (Ev.e = "Cfg" /\ ntr' = ntr + 1 /\ mk' = {} /\ UNCHANGED viol)
          \/ (Ev.e = "Call" /\ Ev.fn = "Allowed" /\ viol' = viol \o AllowedChecks /\ UNCHANGED <<ntr, mk>>)
          \/ (Ev.e = "Call" /\ Ev.fn = "Map" /\ viol' = viol \o MapChecks /\ UNCHANGED <<ntr, mk>>)
          \/ (Ev.e = "Start" /\ viol' = viol \o StartChecks /\ mk' = mk \cup Seq2Set(Ev.sel) /\ UNCHANGED ntr)
          \/ (Ev.e = "Step" /\ mk' = StepMk /\ UNCHANGED <<viol, ntr>>)
          \/ (Ev.e \in {"Api", "Env", "Tick", "Prov", "Read", "Begin", "End"} /\ UNCHANGED <<viol, ntr, mk>>)
    \/ /\ l = Len(Trace) + 1 /\ ~done /\ done' = TRUE
       /\ JsonSerialize(IOEnv.OUT, [viol |-> viol, consumed |-> l - 1, traces |-> ntr])
       /\ UNCHANGED <<l, viol, ntr, mk>>

TraceSpec == TraceInit /\ [][TraceNext]_tvars
=============================================================================
