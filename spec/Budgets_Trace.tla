---------------------------- MODULE Budgets_Trace ----------------------------
(***************************************************************************)
(* Trace validation for C05.  Every recorded result of the real code is    *)
(* re-derived from the pure operators of BudgetGuards.tla:                 *)
(*   Call/Allowed  one case of the arithmetic replayed on the real         *)
(*                 NodePool.GetAllowedDisruptionsByReason /                *)
(*                 MustGetAllowedDisruptions / Budget.IsActive /           *)
(*                 Budget.GetAllowedDisruptions (hit sets from the cron    *)
(*                 library, abstract budgets from the TLC case);           *)
(*   Call/Map      disruption.BuildDisruptionBudgetMapping on a cluster    *)
(*                 state hydrated by the real informer controllers: the    *)
(*                 node table is the abstraction of the API objects plus   *)
(*                 the in-memory marks the driver placed.                  *)
(* Guard failures accumulate in `viol` (never fatal); a line no disjunct   *)
(* consumes means a malformed log (exit 2).                                *)
(***************************************************************************)
EXTENDS BudgetGuards, TLC, Json, IOUtils

VARIABLES l, viol, ntr, done
tvars == <<l, viol, ntr, done>>

Trace == ndJsonDeserialize(IOEnv.TRACE)
Ev == Trace[l]
Chk(ok, guard, sig) == IF ok THEN <<>> ELSE <<[line |-> l, guard |-> guard, sig |-> sig]>>

TraceInit == l = 1 /\ viol = <<>> /\ ntr = 0 /\ done = FALSE

RECURSIVE Cat(_, _)
Cat(f, S) == IF S = {} THEN <<>> ELSE LET i == MinOf(S) IN f[i] \o Cat(f, S \ {i})

\* ---- Call/Allowed
AllowedChecks ==
    LET bs == Ev.budgets IN
    Chk(G_C05_Allowed(Ev.must, bs, Ev.now, Ev.n, Ev.reason), "G_C05_Allowed",
        AllowedSig(Ev.must, bs, Ev.now, Ev.n, Ev.reason, Ev.fam))
    \* the error-returning variant is judged separately only where it can differ from the fail-closed
    \* wrapper (an error, or a different value); otherwise it is the very value judged above
    \o Chk((~Ev.err /\ Ev.res = Ev.must) \/ G_C05_ByReason(Ev.res, Ev.err, bs, Ev.now, Ev.n, Ev.reason),
           "G_C05_ByReason", AllowedSig(Ev.res, bs, Ev.now, Ev.n, Ev.reason, Ev.fam))
    \o Cat([i \in DOMAIN bs |->
              Chk(G_C05_IsActive(Ev.act[i], bs[i], Ev.now), "G_C05_IsActive",
                  "fam=" \o Ev.fam \o ",mal=" \o bs[i].mal)
              \o Chk(G_C05_BudgetValue(Ev.bval[i], Ev.berr[i], bs[i], Ev.now, Ev.n), "G_C05_BudgetValue",
                     "fam=" \o Ev.fam \o ",kind=" \o bs[i].kind \o ",mal=" \o bs[i].mal)],
           DOMAIN bs)

\* ---- Call/Map: one entry per pool [pool, present, res, budgets]; nodes = the abstract node table
MapSig(p) ==
    IF (\E i \in DOMAIN p.budgets : p.budgets[i].rstate = "empty") THEN "empty-reasons-list-skipped?"
    ELSE "mapping"
MapChecks ==
    Cat([k \in DOMAIN Ev.pools |->
           LET p == Ev.pools[k] IN
           Chk(p.present /\ G_C05_Mapping(p.res, p.budgets, Ev.nodes, p.pool, Ev.now, Ev.reason),
               "G_C05_Mapping", MapSig(p))],
        DOMAIN Ev.pools)

TraceNext ==
    \/ /\ l <= Len(Trace) /\ l' = l + 1 /\ UNCHANGED done
       /\ \/ (Ev.e = "Cfg" /\ ntr' = ntr + 1 /\ UNCHANGED viol)
          \/ (Ev.e = "Call" /\ Ev.fn = "Allowed" /\ viol' = viol \o AllowedChecks /\ UNCHANGED ntr)
          \/ (Ev.e = "Call" /\ Ev.fn = "Map" /\ viol' = viol \o MapChecks /\ UNCHANGED ntr)
          \/ (Ev.e \in {"Api", "Env", "Tick", "Step", "Prov", "Read"} /\ UNCHANGED <<viol, ntr>>)
    \/ /\ l = Len(Trace) + 1 /\ ~done /\ done' = TRUE
       /\ JsonSerialize(IOEnv.OUT, [viol |-> viol, consumed |-> l - 1, traces |-> ntr])
       /\ UNCHANGED <<l, viol, ntr>>

TraceSpec == TraceInit /\ [][TraceNext]_tvars
=============================================================================
