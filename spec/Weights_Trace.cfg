SPECIFICATION TraceSpec
