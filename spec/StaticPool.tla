------------------------------ MODULE StaticPool ------------------------------
(***************************************************************************)
(* Static (replica-based) NodePools: the node-count bookkeeping of         *)
(* state.NodePoolState and the processes that call it (property C03,       *)
(* static half).                                                           *)
(*                                                                         *)
(* One static NodePool.  State = what the statement talks about: the       *)
(* NodeClaims of the pool in the API (absent / live / deleting / gone),    *)
(* spec.replicas, spec.limits.nodes, plus Karpenter's in-memory state: the *)
(* NodePoolState exactly as pkg/controllers/state/statenodepool.go keeps   *)
(* it (existence of the per-pool entry, Active / Deleting /                *)
(* PendingDisruption sets, reserved counter, claim->pool mapping) and the  *)
(* few bits of state.Cluster that decide which NodePoolState method an     *)
(* informer delivery calls (provider id known / unknown, marked for        *)
(* deletion, deletion seen).                                               *)
(*                                                                         *)
(* One action per linearization point: every NodePoolState method call     *)
(* (each takes the struct's lock, so concurrency is "any order of calls")  *)
(* and every API write is its own action, guarded by a program counter of  *)
(* the process that performs it:                                           *)
(*   static provisioning reconcile  P_Count -> P_Reserve -> per worker     *)
(*        W_Get -> W_Create(ok|fail) -> W_Seed -> W_Release                *)
(*   static deprovisioning reconcile D_Count -> D_List -> D_Delete(n) ->   *)
(*        D_Mark(n)                                                        *)
(*   disruption round with the StaticDrift method and Queue.StartCommand   *)
(*        X_Begin -> X_Count -> X_Reserve -> per command X_Taint(ok|fail)  *)
(*        -> X_Pend -> W_Get -> W_Create -> W_Seed -> W_Release ->         *)
(*        X_MarkDel -> X_Enq;  queue reconcile Q_Delete / Q_Fail           *)
(*   NodeClaim informer  I_Deliver(n) [-> I_Update(n) when the provider id *)
(*        changed: cluster.UpdateNodeClaim calls Cleanup and then          *)
(*        UpdateNodeClaim on the NodePoolState], state nodeclaim GC        *)
(*   environment: Launch, Delete (user / lifecycle), Finalize, Drift,      *)
(*        Scale, Resync (periodic informer requeue), queue timeout         *)
(*                                                                         *)
(* CodeMode = "code": the pinned tree.  CodeMode = "fixed": what the       *)
(* statement wants (entry GC keeps the entry while reservations or         *)
(* pending-disruption claims exist; Release tolerates a missing entry; a   *)
(* provider-id change does not run Cleanup; the Mark* methods ignore       *)
(* claims that are not tracked; StartCommand gives its reservation back    *)
(* when it fails before creating the replacement).                         *)
(* Grain = "call": every action interleaves.  Grain = "gate": only API     *)
(* calls are scheduling points (what the harness can realise on the real   *)
(* controllers by blocking goroutines at the API choke point).             *)
(***************************************************************************)
EXTENDS StaticPoolDefs, Json

CONSTANTS N,             \* NodeClaim names are 1..N, used once each in creation order
          Pre,           \* claims 1..Pre exist, launched and tracked in the initial state
          Limit,         \* spec.limits.nodes
          Replicas0,     \* initial spec.replicas
          ScaleTo,       \* values the user may scale spec.replicas to
          Budget,        \* drift commands the disruption budget allows per round
          CodeMode,      \* "code" | "fixed"
          Grain,         \* "call" | "gate"
          MaxCreateFail, MaxTaintFail, MaxDelete, MaxDrift, MaxScale, MaxTimeout, MaxResync,
          MaxFlip,       \* informer deliveries that overtake StartCommand and put a pending-disruption candidate back
                         \* into Active (99 = unbounded; bounded for liveness: an adversary that repeats the unlucky
                         \* timing for ever is not what "settles" quantifies over)
          Record,        \* "all": history h recorded (generator); "last": only the last action is kept (diagnosis; hidden
                         \* by the VIEW of the checking configs); "none": nothing recorded (liveness checking, no VIEW)
          MaxLen         \* generator depth bound (Record = "all")

NCs == 1..N
MaxK == N                \* create workers of one provisioning reconcile
PW == 1..MaxK

VARIABLES api,       \* [NCs -> {"absent","live","deleting","gone"}]
          launched,  \* claims whose status.providerID is persisted (launched = registered = initialized here)
          drifted,   \* claims with Drifted=True
          replicas,  \* spec.replicas
          known,     \* cluster.nodeClaimNameToProviderID: [NCs -> {"none","nopid","pid"}]
          marked,    \* cluster state nodes with markedForDeletion
          cdel,      \* claims whose deletionTimestamp the cluster cache has seen
          dirty,     \* claims with an undelivered informer event
          tainted,   \* candidates carrying the disruption taint / DisruptionReason condition
          ps,        \* NodePoolState: [entry, act, del, pend, res, map]
          prov,      \* provisioning reconcile: [pc, want]
          wk,        \* create workers: provisioning <<"p",i>>, drift command <<"x",c>>: [pc, n]
          dep,       \* deprovisioning reconcile: [pc, k, dq, dm]
          dis,       \* disruption round: [pc, cands, want]
          cmd,       \* [NCs -> [pc, r]] StartCommand per candidate
          queue,     \* orchestration queue: set of <<candidate, replacement>>
          inf,       \* [NCs -> {"idle","upd-live","upd-del"}] informer reconcile between Cleanup and UpdateNodeClaim
          crash,     \* a NodePoolState method dereferenced a missing entry
          bud,       \* budgets used
          h, last    \* history (generator) / last action (diagnosis)

vars == <<api, launched, drifted, replicas, known, marked, cdel, dirty, tainted, ps, prov, wk, dep, dis, cmd,
          queue, inf, crash, bud, h, last>>
view == <<api, launched, drifted, replicas, known, marked, cdel, dirty, tainted, ps, prov, wk, dep, dis, cmd,
          queue, inf, crash, bud>>

\* ---------------------------------------------------------------- helpers
Live == {n \in NCs : api[n] = "live"}
InApi == {n \in NCs : api[n] \in {"live", "deleting"}}
Free == {n \in NCs : api[n] = "absent"}
NextName == CHOOSE n \in Free : \A m \in Free : n <= m
MFD(n) == n \in marked \/ n \in cdel             \* StateNode.MarkedForDeletion()
QC == {q[1] : q \in queue}
Synced == \A n \in NCs : known[n] # "nopid"
Idle(w) == wk[w].pc = "none"
XW(c) == <<"x", c>>
Workers == {<<"p", i>> : i \in PW} \cup {XW(c) : c \in NCs}
NoWk == [pc |-> "none", n |-> 0]
\* Provisioner.Create first reads the NodePool (an API call, hence a scheduling point of the "gate" grain); the read has
\* no effect on the counter, so the "call" grain starts a worker at its create call
FirstPc == IF Grain = "gate" THEN "get" ELSE "create"
NoCmd == [pc |-> "none", r |-> 0]
Hist(e) == /\ h' = IF Record = "all" THEN Append(h, e) ELSE h
           /\ last' = IF Record = "none" THEN last ELSE e
Used(f) == bud[f]
Spend(f) == bud' = [bud EXCEPT ![f] = @ + 1]

\* "gate" grain: a process that is between two API calls runs on to its next API call before anybody else moves
MidProv == prov.pc = "reserve"
MidWk(w) == wk[w].pc \in {"seed", "release"}
MidDep == dep.pc = "work" /\ dep.dm # {}
MidDis == dis.pc \in {"count", "reserve"}
MidCmd(c) == cmd[c].pc \in {"pend", "markdel", "enq"}
MidInf(n) == inf[n] # "idle"
AnyMid == MidProv \/ MidDep \/ MidDis \/ (\E w \in Workers : MidWk(w)) \/ (\E c \in NCs : MidCmd(c) \/ MidInf(c))
\* common enabling condition of every action: the process did not crash, the generator's depth bound, the grain
Turn(mid) == /\ ~crash
             /\ (Record # "all" \/ Len(h) < MaxLen)
             /\ (Grain = "call" \/ mid \/ ~AnyMid)

Init ==
    /\ api = [n \in NCs |-> IF n <= Pre THEN "live" ELSE "absent"]
    /\ launched = 1..Pre /\ drifted = {} /\ replicas = Replicas0
    /\ known = [n \in NCs |-> IF n <= Pre THEN "pid" ELSE "none"]
    /\ marked = {} /\ cdel = {} /\ dirty = {} /\ tainted = {}
    /\ ps = IF Pre = 0 THEN EmptyPS ELSE [entry |-> TRUE, act |-> 1..Pre, del |-> {}, pend |-> {}, res |-> 0, map |-> 1..Pre]
    /\ prov = [pc |-> "idle", want |-> 0]
    /\ wk = [w \in Workers |-> NoWk]
    /\ dep = [pc |-> "idle", k |-> 0, dq |-> {}, dm |-> {}]
    /\ dis = [pc |-> "idle", cands |-> {}, want |-> 0]
    /\ cmd = [c \in NCs |-> NoCmd]
    /\ queue = {} /\ inf = [n \in NCs |-> "idle"] /\ crash = FALSE
    /\ bud = [cf |-> 0, tf |-> 0, del |-> 0, dr |-> 0, sc |-> 0, to |-> 0, rs |-> 0, fl |-> 0]
    /\ h = <<>> /\ last = [a |-> "Init"]

\* ---------------------------------------------------------------- static provisioning reconcile
UnchApi == UNCHANGED <<api, launched, drifted, replicas>>
UnchCluster == UNCHANGED <<known, marked, cdel, dirty, tainted>>
UnchOthers(keep) == TRUE

P_Count ==
    /\ Turn(FALSE) /\ prov.pc = "idle"
    /\ Cardinality(ps.act) + Cardinality(ps.pend) < replicas
    \* "gate" grain: count and reserve are one step; a reconcile that is granted nothing changes nothing and is left
    \* out (it would only make the others' actions "enabled again and again" instead of continuously, see Fairness)
    /\ Grain = "gate" => PsGrant(Ensure(ps), Limit, replicas - Cardinality(ps.act)) > 0
    /\ prov' = [pc |-> "reserve", want |-> replicas - Cardinality(ps.act)]
    /\ Hist([a |-> "P_Count", act |-> Cardinality(ps.act), pend |-> Cardinality(ps.pend), replicas |-> replicas])
    /\ UnchApi /\ UnchCluster /\ UNCHANGED <<ps, wk, dep, dis, cmd, queue, inf, crash, bud>>

P_Reserve ==
    /\ Turn(MidProv) /\ prov.pc = "reserve"
    /\ LET g == PsGrant(Ensure(ps), Limit, prov.want) IN
       /\ ps' = PsReserve(ps, Limit, prov.want)
       /\ prov' = [pc |-> IF g = 0 THEN "idle" ELSE "work", want |-> 0]
       /\ wk' = [w \in Workers |-> IF w[1] = "p" /\ w[2] <= g THEN [pc |-> FirstPc, n |-> 0] ELSE wk[w]]
       /\ Hist([a |-> "P_Reserve", limit |-> Limit, want |-> prov.want, granted |-> g])
    /\ UnchApi /\ UnchCluster /\ UNCHANGED <<dep, dis, cmd, queue, inf, crash, bud>>

\* Provisioner.Create: Get NodePool, Create NodeClaim, cluster.UpdateNodeClaim (seed); CreateNodeClaims: Release(1)
W_Get(w) ==
    /\ Turn(FALSE) /\ wk[w].pc = "get"
    /\ wk' = [wk EXCEPT ![w].pc = "create"]
    /\ Hist([a |-> "W_Get", w |-> w])
    /\ UnchApi /\ UnchCluster /\ UNCHANGED <<ps, prov, dep, dis, cmd, queue, inf, crash, bud>>

W_Create(w, ok) ==
    /\ Turn(FALSE) /\ wk[w].pc = "create"
    /\ IF ok THEN /\ Free # {}
                  /\ api' = [api EXCEPT ![NextName] = "live"]
                  /\ dirty' = dirty \cup {NextName}
                  /\ wk' = [wk EXCEPT ![w] = [pc |-> "seed", n |-> NextName]]
                  /\ UNCHANGED bud
                  /\ Hist([a |-> "W_Create", w |-> w, ok |-> TRUE, n |-> NextName])
             ELSE /\ Used("cf") < MaxCreateFail /\ Spend("cf")
                  /\ wk' = [wk EXCEPT ![w] = [pc |-> "release", n |-> 0]]
                  /\ UNCHANGED <<api, dirty>>
                  /\ Hist([a |-> "W_Create", w |-> w, ok |-> FALSE, n |-> 0])
    /\ UNCHANGED <<launched, drifted, replicas, known, marked, cdel, tainted, ps, prov, dep, dis, cmd, queue, inf, crash>>

\* the seed hands cluster.UpdateNodeClaim the object as created: no provider id, no deletion timestamp
W_Seed(w) ==
    /\ Turn(MidWk(w)) /\ wk[w].pc = "seed"
    /\ LET n == wk[w].n IN
       /\ ps' = PsUpdate(ps, n, FALSE)
       /\ known' = [known EXCEPT ![n] = "nopid"]
       /\ Hist([a |-> "W_Seed", w |-> w, n |-> n])
    /\ wk' = [wk EXCEPT ![w].pc = "release"]
    /\ UnchApi /\ UNCHANGED <<marked, cdel, dirty, tainted, prov, dep, dis, cmd, queue, inf, crash, bud>>

ProvDone(wk2) == \A i \in PW : wk2[<<"p", i>>].pc = "none"
W_Release(w) ==
    /\ Turn(MidWk(w)) /\ wk[w].pc = "release"
    /\ crash' = (crash \/ PsReleaseCrashes(ps, CodeMode))
    /\ ps' = PsRelease(ps, 1)
    /\ LET wk2 == [wk EXCEPT ![w] = NoWk] IN
       /\ wk' = wk2
       /\ prov' = IF w[1] = "p" /\ ProvDone(wk2) THEN [pc |-> "idle", want |-> 0] ELSE prov
       \* a drift command continues with MarkForDeletion when its replacement was created, otherwise it is abandoned
       /\ cmd' = IF w[1] = "x" THEN [cmd EXCEPT ![w[2]] = IF wk[w].n # 0 THEN [pc |-> "markdel", r |-> wk[w].n] ELSE NoCmd]
                 ELSE cmd
       /\ dis' = IF w[1] = "x" /\ wk[w].n = 0 /\ \A c \in NCs \ {w[2]} : cmd[c].pc = "none"
                 THEN [pc |-> "idle", cands |-> {}, want |-> 0] ELSE dis
    /\ Hist([a |-> "W_Release", w |-> w])
    /\ UnchApi /\ UnchCluster /\ UNCHANGED <<dep, queue, inf, bud>>

\* ---------------------------------------------------------------- static deprovisioning reconcile
D_Count ==
    /\ Turn(FALSE) /\ dep.pc = "idle"
    /\ Cardinality(ps.act) > replicas
    /\ dep' = [pc |-> "list", k |-> Cardinality(ps.act) - replicas, dq |-> {}, dm |-> {}]
    /\ Hist([a |-> "D_Count", act |-> Cardinality(ps.act), replicas |-> replicas])
    /\ UnchApi /\ UnchCluster /\ UNCHANGED <<ps, prov, wk, dis, cmd, queue, inf, crash, bud>>

\* candidates: unlaunched claims first (API list), then state nodes of the pool that are not marked for deletion
D_List ==
    /\ Turn(FALSE) /\ dep.pc = "list"
    /\ LET unres == {n \in Live : n \notin launched}
           res == {n \in NCs : known[n] = "pid" /\ ~MFD(n)}
           ku == Min(dep.k, Cardinality(unres))
           kr == Min(dep.k - ku, Cardinality(res)) IN
       \E U \in SUBSET unres, R \in SUBSET res :
          /\ Cardinality(U) = ku /\ Cardinality(R) = kr
          /\ dep' = IF U \cup R = {} THEN [pc |-> "idle", k |-> 0, dq |-> {}, dm |-> {}]
                    ELSE [pc |-> "work", k |-> 0, dq |-> U \cup R, dm |-> {}]
          /\ Hist([a |-> "D_List", cands |-> U \cup R])
    /\ UnchApi /\ UnchCluster /\ UNCHANGED <<ps, prov, wk, dis, cmd, queue, inf, crash, bud>>

ApiDelete(n) == /\ api' = [api EXCEPT ![n] = IF @ = "live" THEN "deleting" ELSE @]
                /\ dirty' = IF api[n] = "live" THEN dirty \cup {n} ELSE dirty

D_Delete(n) ==
    /\ Turn(FALSE) /\ dep.pc = "work" /\ n \in dep.dq
    /\ ApiDelete(n)
    /\ dep' = [dep EXCEPT !.dq = @ \ {n}, !.dm = @ \cup {n}]
    /\ Hist([a |-> "D_Delete", n |-> n])
    /\ UNCHANGED <<launched, drifted, replicas, known, marked, cdel, tainted, ps, prov, wk, dis, cmd, queue, inf, crash, bud>>

D_Mark(n) ==
    /\ Turn(MidDep) /\ dep.pc = "work" /\ n \in dep.dm
    /\ ps' = PsMarkDeleting(ps, n, CodeMode)
    /\ dep' = IF dep.dq = {} /\ dep.dm = {n} THEN [pc |-> "idle", k |-> 0, dq |-> {}, dm |-> {}]
              ELSE [dep EXCEPT !.dm = @ \ {n}]
    /\ Hist([a |-> "D_Mark", n |-> n])
    /\ UnchApi /\ UnchCluster /\ UNCHANGED <<prov, wk, dis, cmd, queue, inf, crash, bud>>

\* ---------------------------------------------------------------- disruption round: StaticDrift + StartCommand
\* candidates come from the cluster cache: the Drifted condition must have been delivered (no undelivered event)
DriftCands == {c \in NCs : known[c] = "pid" /\ c \in drifted /\ c \notin dirty /\ ~MFD(c) /\ c \notin QC /\ api[c] # "gone"}
\* start of a round: stale taints/conditions of nodes that are neither queued nor marked are cleared (an API patch,
\* hence an informer event), then candidates are computed from the cluster cache
X_Begin ==
    /\ Turn(FALSE) /\ dis.pc = "idle" /\ Synced /\ \A c \in NCs : cmd[c].pc = "none"
    /\ LET stale == {c \in tainted : c \notin QC /\ ~MFD(c)} IN
       /\ (stale # {} \/ DriftCands # {})
       /\ (Grain = "gate" /\ stale = {}) =>
             /\ Cardinality(ps.act) + Cardinality(ps.pend) <= replicas /\ Budget > 0
             /\ PsGrant(Ensure(ps), Limit, Min(Budget, Cardinality(DriftCands))) > 0
       /\ tainted' = tainted \ stale
       /\ dirty' = dirty \cup (stale \cap InApi)
       /\ dis' = IF DriftCands = {} THEN dis ELSE [pc |-> "count", cands |-> DriftCands, want |-> 0]
       /\ Hist([a |-> "X_Begin", cands |-> DriftCands, stale |-> stale])
    /\ UnchApi /\ UNCHANGED <<known, marked, cdel, ps, prov, wk, dep, cmd, queue, inf, crash, bud>>

X_Count ==
    /\ Turn(MidDis) /\ dis.pc = "count"
    /\ dis' = IF Cardinality(ps.act) + Cardinality(ps.pend) > replicas \/ Budget = 0
              THEN [pc |-> "idle", cands |-> {}, want |-> 0]
              ELSE [dis EXCEPT !.pc = "reserve", !.want = Min(Budget, Cardinality(dis.cands))]
    /\ Hist([a |-> "X_Count", act |-> Cardinality(ps.act), pend |-> Cardinality(ps.pend), replicas |-> replicas])
    /\ UnchApi /\ UnchCluster /\ UNCHANGED <<ps, prov, wk, dep, cmd, queue, inf, crash, bud>>

X_Reserve ==
    /\ Turn(MidDis) /\ dis.pc = "reserve"
    /\ LET g == PsGrant(Ensure(ps), Limit, dis.want) IN
       /\ ps' = PsReserve(ps, Limit, dis.want)
       /\ \E S \in SUBSET dis.cands :
            /\ Cardinality(S) = g
            /\ cmd' = [c \in NCs |-> IF c \in S THEN [pc |-> "taint", r |-> 0] ELSE cmd[c]]
            /\ dis' = IF g = 0 THEN [pc |-> "idle", cands |-> {}, want |-> 0] ELSE [dis EXCEPT !.pc = "start"]
            /\ Hist([a |-> "X_Reserve", limit |-> Limit, want |-> dis.want, granted |-> g, chosen |-> S])
    /\ UnchApi /\ UnchCluster /\ UNCHANGED <<prov, wk, dep, queue, inf, crash, bud>>

DisAfter(cmd2) == IF \A c \in NCs : cmd2[c].pc = "none" THEN [pc |-> "idle", cands |-> {}, want |-> 0] ELSE dis

\* markDisrupted: taint the node, set DisruptionReason on the NodeClaim (NotFound is ignored).  A failure aborts
\* StartCommand before createReplacementNodeClaims, i.e. before the only ReleaseNodeCount of this path.
X_Taint(c, ok) ==
    /\ Turn(FALSE) /\ cmd[c].pc = "taint"
    /\ IF ok THEN /\ tainted' = tainted \cup {c}
                  /\ dirty' = IF api[c] \in {"live", "deleting"} THEN dirty \cup {c} ELSE dirty
                  /\ cmd' = [cmd EXCEPT ![c].pc = "pend"]
                  /\ UNCHANGED <<bud, dis, ps>>
             ELSE /\ Used("tf") < MaxTaintFail /\ Spend("tf")
                  /\ LET cmd2 == [cmd EXCEPT ![c] = NoCmd] IN cmd' = cmd2 /\ dis' = DisAfter(cmd2)
                  /\ ps' = IF CodeMode = "fixed" THEN PsRelease(ps, 1) ELSE ps
                  /\ UNCHANGED <<tainted, dirty>>
    /\ Hist([a |-> "X_Taint", c |-> c, ok |-> ok])
    /\ UnchApi /\ UNCHANGED <<known, marked, cdel, prov, wk, dep, queue, inf, crash>>

X_Pend(c) ==
    /\ Turn(MidCmd(c)) /\ cmd[c].pc = "pend"
    /\ ps' = PsMarkPending(ps, c, CodeMode)
    /\ cmd' = [cmd EXCEPT ![c].pc = "creating"]
    /\ wk' = [wk EXCEPT ![XW(c)] = [pc |-> FirstPc, n |-> 0]]
    /\ Hist([a |-> "X_Pend", c |-> c])
    /\ UnchApi /\ UnchCluster /\ UNCHANGED <<prov, dep, dis, queue, inf, crash, bud>>

\* cluster.MarkForDeletion(providerID): only for a state node the cluster knows
X_MarkDel(c) ==
    /\ Turn(MidCmd(c)) /\ cmd[c].pc = "markdel"
    /\ IF known[c] = "pid" THEN marked' = marked \cup {c} /\ ps' = PsMarkDeleting(ps, c, CodeMode)
                           ELSE UNCHANGED <<marked, ps>>
    /\ cmd' = [cmd EXCEPT ![c].pc = "enq"]
    /\ Hist([a |-> "X_MarkDel", c |-> c])
    /\ UnchApi /\ UNCHANGED <<known, cdel, dirty, tainted, prov, wk, dep, dis, queue, inf, crash, bud>>

X_Enq(c) ==
    /\ Turn(MidCmd(c)) /\ cmd[c].pc = "enq"
    /\ queue' = queue \cup {<<c, cmd[c].r>>}
    /\ LET cmd2 == [cmd EXCEPT ![c] = NoCmd] IN cmd' = cmd2 /\ dis' = DisAfter(cmd2)
    /\ Hist([a |-> "X_Enq", c |-> c, r |-> cmd[c].r])
    /\ UnchApi /\ UnchCluster /\ UNCHANGED <<ps, prov, wk, dep, inf, crash, bud>>

\* queue reconcile: replacement initialized -> delete the candidate; replacement gone (or timeout) -> roll back
Q_Delete(q) ==
    /\ Turn(FALSE) /\ q \in queue /\ api[q[2]] = "live" /\ q[2] \in launched
    /\ ApiDelete(q[1])
    /\ queue' = queue \ {q}
    /\ Hist([a |-> "Q_Delete", c |-> q[1], r |-> q[2]])
    /\ UNCHANGED <<launched, drifted, replicas, known, marked, cdel, tainted, ps, prov, wk, dep, dis, cmd, inf, crash, bud>>

Q_Fail(q, timeout) ==
    /\ Turn(FALSE) /\ q \in queue
    /\ IF timeout THEN Used("to") < MaxTimeout /\ Spend("to")
                  ELSE api[q[2]] \in {"gone"} /\ known[q[2]] = "none" /\ UNCHANGED bud
    /\ LET c == q[1] IN
       /\ IF known[c] = "pid"
            THEN /\ marked' = marked \ {c}
                 /\ ps' = IF c \notin cdel THEN PsMarkActive(ps, c, CodeMode) ELSE ps
            ELSE UNCHANGED <<marked, ps>>
       /\ tainted' = tainted \ {c}
       /\ dirty' = IF c \in tainted /\ api[c] \in {"live", "deleting"} THEN dirty \cup {c} ELSE dirty
    /\ queue' = queue \ {q}
    /\ Hist([a |-> "Q_Fail", c |-> q[1], r |-> q[2], timeout |-> timeout])
    /\ UnchApi /\ UNCHANGED <<known, cdel, prov, wk, dep, dis, cmd, inf, crash>>

\* ---------------------------------------------------------------- NodeClaim informer + state nodeclaim GC
\* effect of cluster.UpdateNodeClaim for an object snapshot (isDel = it carries a deletion timestamp)
ApplyUpdate(n, isDel, s) ==
    IF n \in launched
      THEN /\ known' = [known EXCEPT ![n] = "pid"]
           /\ cdel' = IF isDel THEN cdel \cup {n} ELSE cdel
           /\ ps' = PsUpdate(s, n, n \in marked \/ isDel \/ n \in cdel)
      ELSE /\ known' = [known EXCEPT ![n] = "nopid"]
           /\ UNCHANGED cdel
           /\ ps' = PsUpdate(s, n, FALSE)     \* no state node for an unlaunched claim: never "marked for deletion"

I_Deliver(n) ==
    /\ Turn(FALSE) /\ n \in dirty /\ inf[n] = "idle"
    /\ dirty' = dirty \ {n}
    /\ IF api[n] = "gone"
         THEN /\ known' = [known EXCEPT ![n] = "none"]
              /\ marked' = marked \ {n} /\ cdel' = cdel \ {n}
              /\ ps' = PsCleanup(ps, n, CodeMode)
              /\ UNCHANGED inf
              /\ Hist([a |-> "I_Deliver", n |-> n, what |-> "deleted"])
         ELSE IF known[n] = "nopid" /\ n \in launched /\ CodeMode = "code"
           \* provider id changed ("" -> id): cleanupNodeClaim -> NodePoolState.Cleanup, later NodePoolState.UpdateNodeClaim
           \* ("fixed": the claim keeps its name and pool, nothing to clean up in the NodePoolState)
           THEN /\ ps' = PsCleanup(ps, n, CodeMode)
                /\ inf' = [inf EXCEPT ![n] = IF api[n] = "deleting" THEN "upd-del" ELSE "upd-live"]
                /\ UNCHANGED <<known, marked, cdel>>
                /\ Hist([a |-> "I_Deliver", n |-> n, what |-> "relaunch"])
           ELSE /\ (n \in ps.pend /\ MaxFlip # 99) => Used("fl") < MaxFlip
                /\ ApplyUpdate(n, api[n] = "deleting", ps)
                /\ UNCHANGED <<marked, inf>>
                /\ Hist([a |-> "I_Deliver", n |-> n, what |-> IF api[n] = "deleting" THEN "deleting" ELSE "live"])
    /\ bud' = IF api[n] # "gone" /\ ~(known[n] = "nopid" /\ n \in launched /\ CodeMode = "code") /\ n \in ps.pend /\ MaxFlip # 99
              THEN [bud EXCEPT !.fl = @ + 1] ELSE bud
    /\ UnchApi /\ UNCHANGED <<tainted, prov, wk, dep, dis, cmd, queue, crash>>

I_Update(n) ==
    /\ Turn(MidInf(n)) /\ inf[n] # "idle"
    /\ ApplyUpdate(n, inf[n] = "upd-del", ps)
    /\ inf' = [inf EXCEPT ![n] = "idle"]
    /\ Hist([a |-> "I_Update", n |-> n, del |-> inf[n] = "upd-del"])
    /\ UnchApi /\ UNCHANGED <<marked, dirty, tainted, prov, wk, dep, dis, cmd, queue, crash, bud>>

\* state.nodeclaimgc: an unlaunched entry whose NodeClaim no longer exists (seed landed after the delete event)
GC(n) ==
    /\ Turn(FALSE) /\ api[n] = "gone" /\ known[n] = "nopid" /\ n \notin dirty /\ inf[n] = "idle"
    /\ known' = [known EXCEPT ![n] = "none"]
    /\ ps' = PsCleanup(ps, n, CodeMode)
    /\ Hist([a |-> "GC", n |-> n])
    /\ UnchApi /\ UNCHANGED <<marked, cdel, dirty, tainted, prov, wk, dep, dis, cmd, queue, inf, crash, bud>>

\* ---------------------------------------------------------------- environment
Launch(n) ==
    /\ Turn(FALSE) /\ api[n] = "live" /\ n \notin launched
    /\ launched' = launched \cup {n} /\ dirty' = dirty \cup {n}
    /\ Hist([a |-> "Launch", n |-> n])
    /\ UNCHANGED <<api, drifted, replicas, known, marked, cdel, tainted, ps, prov, wk, dep, dis, cmd, queue, inf, crash, bud>>

\* a user, expiration, the lifecycle controller after a failed launch ... deletes a NodeClaim
Delete(n) ==
    /\ Turn(FALSE) /\ api[n] = "live" /\ Used("del") < MaxDelete /\ Spend("del")
    /\ ApiDelete(n)
    /\ Hist([a |-> "Delete", n |-> n])
    /\ UNCHANGED <<launched, drifted, replicas, known, marked, cdel, tainted, ps, prov, wk, dep, dis, cmd, queue, inf, crash>>

Finalize(n) ==
    /\ Turn(FALSE) /\ api[n] = "deleting"
    /\ api' = [api EXCEPT ![n] = "gone"] /\ dirty' = dirty \cup {n}
    /\ Hist([a |-> "Finalize", n |-> n])
    /\ UNCHANGED <<launched, drifted, replicas, known, marked, cdel, tainted, ps, prov, wk, dep, dis, cmd, queue, inf, crash, bud>>

Drift(n) ==
    /\ Turn(FALSE) /\ api[n] = "live" /\ n \in launched /\ n \notin drifted /\ Used("dr") < MaxDrift /\ Spend("dr")
    /\ drifted' = drifted \cup {n} /\ dirty' = dirty \cup {n}
    /\ Hist([a |-> "Drift", n |-> n])
    /\ UNCHANGED <<api, launched, replicas, known, marked, cdel, tainted, ps, prov, wk, dep, dis, cmd, queue, inf, crash>>

Scale(r) ==
    /\ Turn(FALSE) /\ r # replicas /\ Used("sc") < MaxScale /\ Spend("sc")
    /\ replicas' = r
    /\ Hist([a |-> "Scale", r |-> r])
    /\ UNCHANGED <<api, launched, drifted, known, marked, cdel, dirty, tainted, ps, prov, wk, dep, dis, cmd, queue, inf, crash>>

\* the informer controller requeues every existing NodeClaim periodically (MaxResync = 99: without bound)
Resync(n) ==
    /\ Turn(FALSE) /\ api[n] \in {"live", "deleting"} /\ n \notin dirty
    /\ IF MaxResync = 99 THEN UNCHANGED bud ELSE Used("rs") < MaxResync /\ Spend("rs")
    /\ dirty' = dirty \cup {n}
    /\ Hist([a |-> "Resync", n |-> n])
    /\ UNCHANGED <<api, launched, drifted, replicas, known, marked, cdel, tainted, ps, prov, wk, dep, dis, cmd, queue, inf, crash>>

\* ---------------------------------------------------------------- next-state relation
Q_DeleteAny == \E q \in queue : Q_Delete(q)
Q_FailGone == \E q \in queue : Q_Fail(q, FALSE)
Q_FailTimeout == \E q \in queue : Q_Fail(q, TRUE)
Controllers ==
    \/ P_Count \/ P_Reserve \/ D_Count \/ D_List \/ X_Begin \/ X_Count \/ X_Reserve
    \/ \E w \in Workers : W_Get(w) \/ W_Create(w, TRUE) \/ W_Seed(w) \/ W_Release(w)
    \/ \E n \in NCs : D_Delete(n) \/ D_Mark(n) \/ X_Taint(n, TRUE) \/ X_Pend(n) \/ X_MarkDel(n) \/ X_Enq(n)
                      \/ I_Deliver(n) \/ I_Update(n) \/ GC(n)
    \/ Q_DeleteAny \/ Q_FailGone
EnvProgress == \E n \in NCs : Launch(n) \/ Finalize(n)
EnvFaults ==
    \/ \E w \in Workers : W_Create(w, FALSE)
    \/ \E n \in NCs : X_Taint(n, FALSE) \/ Delete(n) \/ Drift(n) \/ Resync(n)
    \/ \E r \in ScaleTo : Scale(r)
    \/ Q_FailTimeout

Next == Controllers \/ EnvProgress \/ EnvFaults
Spec == Init /\ [][Next]_vars

\* weak fairness of every controller step and of the environment's progress steps (launch, finalization)
Fairness ==
    /\ WF_vars(P_Count) /\ WF_vars(P_Reserve) /\ WF_vars(D_Count) /\ WF_vars(D_List)
    /\ WF_vars(X_Begin) /\ WF_vars(X_Count) /\ WF_vars(X_Reserve)
    /\ \A w \in Workers : WF_vars(W_Get(w)) /\ WF_vars(W_Create(w, TRUE)) /\ WF_vars(W_Seed(w)) /\ WF_vars(W_Release(w))
    /\ \A n \in NCs : /\ WF_vars(D_Delete(n)) /\ WF_vars(D_Mark(n)) /\ WF_vars(X_Taint(n, TRUE)) /\ WF_vars(X_Pend(n))
                      /\ WF_vars(X_MarkDel(n)) /\ WF_vars(X_Enq(n)) /\ WF_vars(I_Deliver(n)) /\ WF_vars(I_Update(n))
                      /\ WF_vars(GC(n)) /\ WF_vars(Launch(n)) /\ WF_vars(Finalize(n)) /\ WF_vars(Resync(n))
    /\ \A q \in NCs \X NCs : WF_vars(Q_Delete(q)) /\ WF_vars(Q_Fail(q, FALSE))
LiveSpec == Spec /\ Fairness

\* ---------------------------------------------------------------- properties
TypeOK ==
    /\ ps.res \in 0..N /\ (~ps.entry => (ps.act = {} /\ ps.del = {} /\ ps.pend = {} /\ ps.res = 0))
    /\ ps.act \cap ps.del = {} /\ ps.act \cap ps.pend = {} /\ ps.del \cap ps.pend = {}
    /\ replicas \in Nat
\* outstanding reservations: granted units whose NodeClaim has not been created (or given up) yet
Outstanding == Cardinality({w \in Workers : wk[w].pc \in {"get", "create"}}) + Cardinality({c \in NCs : cmd[c].pc \in {"taint", "pend"}})
\* the statement: the number of NodeClaims never exceeds the node limit (every granted unit becomes a NodeClaim)
Inv_C03_StaticCap == Cardinality(InApi) + Outstanding <= Limit
Inv_C03_NoCrash == ~crash
\* the reserved counter covers every outstanding grant
Inv_C03_ReservedCovers == ps.res >= Outstanding
\* every NodeClaim in the API that the informer has delivered is tracked in exactly one set
Inv_C03_CountsMatchSets == \A n \in InApi : (known[n] # "none" /\ inf[n] = "idle") => n \in ps.act \cup ps.del \cup ps.pend
\* a candidate handed to the orchestration queue is tracked until it is gone
Inv_C03_PendingTracked == \A c \in NCs : (cmd[c].pc = "creating" /\ api[c] # "gone") => c \in ps.act \cup ps.del \cup ps.pend
\* the two reasons why the count settles, as safety properties: the reserved counter is exactly what is still to be
\* released (nothing leaks), and every tracked name is a NodeClaim that exists or whose deletion is still to be delivered
Holding == Cardinality({w \in Workers : wk[w].pc \in {"get", "create", "seed", "release"}})
           + Cardinality({c \in NCs : cmd[c].pc \in {"taint", "pend"}})
Inv_C03_ReservedExact == ps.res = Holding
Inv_C03_NoGhost == \A n \in ps.act \cup ps.del \cup ps.pend :
                      api[n] \in {"live", "deleting"} \/ n \in dirty \/ known[n] = "nopid"
\* no name exhaustion in the explored scope (else liveness would fail for lack of names)
Inv_NamesSuffice == (\E w \in Workers : wk[w].pc = "create") => Free # {}

\* "settles at the replica count": once the environment's budgets are spent the pool reaches and keeps `replicas`
\* live NodeClaims and nothing is left terminating.  Unlucky timing can cost a round (an informer event overtakes a
\* reconcile and a fresh claim is deprovisioned again); every such round uses up a fresh name, so a behaviour that
\* keeps being unlucky runs out of the N names of the model and is not counted against the controller.  What is left
\* are behaviours that stop converging although names remain: a leaked reservation, an entry nothing removes.
Settled == Cardinality(Live) = replicas /\ InApi = Live
Live_C03_Settles == <>[](Settled \/ Free = {})

\* Weak configs (CodeMode = "code", Record = "all", history hidden by the VIEW): print the history that led to the
\* violation so that the counterexample can be replayed on the real code, then report the violation
Cex(inv) == inv \/ (PrintT(<<"BEH", ToJson(h)>>) /\ FALSE)
Cex_NoCrash == Cex(Inv_C03_NoCrash)
Cex_StaticCap == Cex(Inv_C03_StaticCap)
Cex_ReservedExact == Cex(Inv_C03_ReservedExact)
Cex_NoGhost == Cex(Inv_C03_NoGhost)

GenPrint == (Len(h) < MaxLen /\ ~crash /\ ENABLED Next) \/ Record # "all" \/ PrintT(<<"BEH", ToJson(h)>>)
=============================================================================
