\* pinned tree, every call interleaves: cluster.UpdateNodeClaim runs Cleanup and then UpdateNodeClaim on the NodePoolState when
\* the provider id appears; a reserve in between over-grants
CONSTANTS N = 3  Pre = 1  Limit = 2  Replicas0 = 1  ScaleTo = {2}  Budget = 1  CodeMode = "code"  Grain = "call"
          MaxCreateFail = 0  MaxTaintFail = 0  MaxDelete = 0  MaxDrift = 0  MaxScale = 1  MaxTimeout = 0  MaxResync = 0  MaxFlip = 99  Record = "all"  MaxLen = 40
SPECIFICATION Spec
VIEW view
INVARIANTS Cex_StaticCap
