SPECIFICATION TraceSpec
