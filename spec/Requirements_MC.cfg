\* exhaustive check of the closed model AND case generation (GenPrint prints every chain): every chain of <= 2 Adds
\* over the full alphabet (extras, minValues 0/1/2)
CONSTANTS MaxAdds = 2  MVs = {0, 1, 2}  Extra = TRUE  Mut = "none"
SPECIFICATION Spec
INVARIANTS TypeOK Inv_C12_Refines Inv_C12_MinValues Inv_C12_Overlap Inv_C12_Commutative Inv_C12_Associative
           Inv_C12_Idempotent Inv_C12_Compatible Inv_C12_MultiKey Inv_C13_Serialization Inv_C13_Any GenPrint
