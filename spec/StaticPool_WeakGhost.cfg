\* pinned tree: deprovisioning marks a claim Deleting after its Cleanup ran -> an entry nothing removes
CONSTANTS N = 3  Pre = 1  Limit = 1  Replicas0 = 1  ScaleTo = {0}  Budget = 1  CodeMode = "code"  Grain = "gate"
          MaxCreateFail = 0  MaxTaintFail = 0  MaxDelete = 1  MaxDrift = 0  MaxScale = 1  MaxTimeout = 0  MaxResync = 0  MaxFlip = 99  Record = "all"  MaxLen = 40
SPECIFICATION Spec
VIEW view
INVARIANTS Cex_NoGhost
