\* exhaustive, thorough tier: deadline rewritten while pods are enqueued, with a failing call and a restart
CONSTANTS Pods = {"p1", "p2"}  Archetypes <- ArchDl  TGPs <- BoolT  TGP = 3
  MaxNow = 4  MaxFaults = 1  MaxRestarts = 1  MaxDlChanges = 1  MaxLen = 1000  MaxSpont = 99
  EarlierMode = "earlier"  GateTiers = TRUE  MinGrace = 1  DndMode = "honour"  ThresholdSlack = 0  DropMode = "keep"  SplitMode = "waiting"
SPECIFICATION Spec
VIEW view
INVARIANTS TypeOK Inv_C10_Guards
