\* behaviour generation by TLC simulation: random deep behaviours of the closed model (two claims, all atoms)
CONSTANTS Claims = {"c1", "c2"}  AtomIds = {1, 2, 3, 4, 5, 6, 7, 8, 9, 10, 11, 12, 13, 14, 15, 16, 17, 18, 19, 20}
          Types = {"small", "large"}  Zones = {"zone-a", "zone-b"}  CTs = {"spot", "on-demand"}
          MaxLen = 16  MaxEdits = 6  MaxAtoms = 2  Wk = "none"
SPECIFICATION Spec
INVARIANTS GenPrint
