\* liveness of the drift scope: the count settles at spec.replicas also while a drifted node is replaced
CONSTANTS N = 3  Pre = 1  Limit = 2  Replicas0 = 1  ScaleTo = {1}  Budget = 1  CodeMode = "fixed"  Grain = "gate"
          MaxCreateFail = 1  MaxTaintFail = 1  MaxDelete = 1  MaxDrift = 1  MaxScale = 0  MaxTimeout = 0  MaxResync = 99  MaxFlip = 99  Record = "none"  MaxLen = 0
SPECIFICATION LiveSpec
INVARIANTS TypeOK
PROPERTIES Live_C03_Settles
