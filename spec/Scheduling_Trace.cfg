SPECIFICATION TraceSpec
