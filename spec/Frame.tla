------------------------------- MODULE Frame -------------------------------
(***************************************************************************)
(* C18 - closed model.  A small abstract world (API bindings, the cluster  *)
(* cache derived from them, in-memory marks and nominations, pod           *)
(* bookkeeping, the provider's instance-type slice, the pod objects a      *)
(* disruption decision holds) in which SIMULATIONS interleave with real    *)
(* mutations (pods bind and leave, commands mark nodes, provisioning       *)
(* passes nominate nodes and create NodeClaims).                           *)
(*                                                                         *)
(* A simulation works on a COPY of the cache: it places the pods of its    *)
(* candidates and the pending pods on the copies of the other nodes        *)
(* (usage, host ports), and throws the copy away.  The frame guards of     *)
(* FrameGuards.tla are evaluated on snapshots taken before and after every *)
(* Simulate / Pass action.  TLC's part is thin (the frame condition is     *)
(* an equality); what it adds is that the frame is LOAD-BEARING: with a    *)
(* weakening (simulate on the live node, sort the provider's slice in      *)
(* place, nominate from a simulation, relax the held pod object, a pass    *)
(* that books usage) the consequences break - the cache stops being a      *)
(* function of the API, the provider's order is lost, nodes are protected  *)
(* by nominations nobody made, a later simulation of the same decision     *)
(* sees pods without their preferences.                                    *)
(***************************************************************************)
EXTENDS FrameGuards, TLC, Json

CONSTANTS Cap,        \* pods per node
          MaxLen,     \* length of a behaviour
          Weak        \* "" | name of a spec mutation | "*" (any, chosen at Init)

Nodes == {"n1", "n2", "n3"}
Pods  == {"p1", "p2", "p3"}
PortOf == [p \in Pods |-> IF p \in {"p1", "p2"} THEN 8080 ELSE 0]     \* p1 and p2 cannot share a node
Pref0  == [p \in Pods |-> p = "p1"]                                   \* p1 carries a scheduling preference
ProviderOrder == <<"t2", "t1", "t3">>                                 \* as the provider returns it
PriceOrder    == <<"t1", "t2", "t3">>                                 \* what OrderByPrice produces
Weakenings == {"liveNode", "sortInPlace", "nominateInSim", "relaxHeld", "passBooksUsage", "simWrites"}

VARIABLES bind,      \* API: pod -> node | "pending"
          claims,    \* API: NodeClaims created by provisioning
          cache,     \* cluster state: node -> [pods, ports, marked, nominated]
          book,      \* pod bookkeeping (pods with a recorded scheduling decision)
          catalog,   \* the provider's instance-type slice
          held,      \* pod objects held by the current disruption decision: pod -> still has its preference
          need,      \* a pass decided to create a NodeClaim
          nomBy,     \* ghost: nodes nominated by a provisioning pass (and not yet expired)
          frame,     \* ghost: snapshots around the last Simulate / Pass action
          wk, h
vars == <<bind, claims, cache, book, catalog, held, need, nomBy, frame, wk, h>>

W(x) == wk = x

\* ---- the cache as a function of the API
PodsOn(b, n) == {p \in Pods : b[p] = n}
PortsOf(S) == {PortOf[p] : p \in S} \ {0}
Derived(b, old) == [n \in Nodes |-> [old[n] EXCEPT !.pods = PodsOn(b, n), !.ports = PortsOf(PodsOn(b, n))]]

\* ---- normal-form snapshot of the abstract world
It(v, c) == [v |-> v, c |-> c]
NodeFields == {"pods", "ports", "marked", "nominatedUntil"}
Snap == [api       |-> [p \in Pods \cup {"claims"} |-> IF p = "claims" THEN It(claims, "NodeClaim") ELSE It(bind[p], "Pod")],
         node      |-> [nf \in Nodes \X NodeFields |->
                          It(CASE nf[2] = "pods"   -> cache[nf[1]].pods
                               [] nf[2] = "ports"  -> cache[nf[1]].ports
                               [] nf[2] = "marked" -> cache[nf[1]].marked
                               [] OTHER            -> cache[nf[1]].nominated, nf[2])],
         cache     |-> [f \in {"podsSchedulingAttempted"} |-> It(book, f)],
         catalog   |-> [f \in {"order"} |-> It(catalog, "order")],
         instances |-> [f \in {"table"} |-> It(0, "instances")],
         x         |-> [p \in Pods |-> It(held[p], "candidatePods")]]

\* ---- placement on a working copy: pods in a fixed order, first node with room and without a host-port conflict
Order == <<"p1", "p2", "p3">>
NodeOrder == <<"n1", "n2", "n3">>
Idx(n) == CHOOSE i \in DOMAIN NodeOrder : NodeOrder[i] = n
Fits(wkc, p, n) == /\ Cardinality(wkc[n].pods) < Cap /\ ~wkc[n].marked
                   /\ (PortOf[p] = 0 \/ PortOf[p] \notin wkc[n].ports)
RECURSIVE Place(_, _, _, _, _)
\* returns [wkc, on] : the copy after placing, on = nodes that received a pod; k = placements left before the context expires
Place(wkc, R, T, i, k) ==
    IF i > Len(Order) \/ k = 0 THEN [wkc |-> wkc, on |-> {}]
    ELSE LET p == Order[i] IN
         IF p \notin R THEN Place(wkc, R, T, i + 1, k)
         ELSE LET C == {n \in T : Fits(wkc, p, n)} IN
              IF C = {} THEN Place(wkc, R, T, i + 1, k)
              ELSE LET n == CHOOSE m \in C : \A o \in C : Idx(m) <= Idx(o)      \* first in node order: deterministic
                       w2 == [wkc EXCEPT ![n].pods = @ \cup {p}, ![n].ports = @ \cup (PortsOf({p}))]
                       r == Place(w2, R, T, i + 1, k - 1)
                   IN [wkc |-> r.wkc, on |-> r.on \cup {n}]

Hist(e) == h' = Append(h, e)
Live == Len(h) < MaxLen

Init == /\ bind = [p \in Pods |-> CASE p = "p1" -> "n1" [] p = "p2" -> "n2" [] OTHER -> "pending"]
        /\ claims = {}
        /\ cache = Derived(bind, [n \in Nodes |-> [pods |-> {}, ports |-> {}, marked |-> FALSE, nominated |-> FALSE]])
        /\ book = {} /\ catalog = ProviderOrder /\ held = Pref0 /\ need = FALSE /\ nomBy = {}
        /\ frame = [kind |-> "none"]
        /\ wk \in (IF Weak = "*" THEN Weakenings ELSE {Weak})
        /\ h = <<>>

\* ---------------------------------------------------------------- environment / real mutations
Bind(p, n) == /\ Live /\ bind[p] = "pending" /\ Fits(cache, p, n)
              /\ bind' = [bind EXCEPT ![p] = n] /\ cache' = Derived(bind', cache)       \* informer, no lag
              /\ Hist([a |-> "Bind", pod |-> p, node |-> n, cset |-> "-", k |-> 0])
              /\ UNCHANGED <<claims, book, catalog, held, need, nomBy, frame, wk>>
Unbind(p) == /\ Live /\ bind[p] # "pending"
             /\ bind' = [bind EXCEPT ![p] = "pending"] /\ cache' = Derived(bind', cache)
             /\ Hist([a |-> "Unbind", pod |-> p, node |-> "-", cset |-> "-", k |-> 0])
             /\ UNCHANGED <<claims, book, catalog, held, need, nomBy, frame, wk>>
Mark(n) == /\ Live /\ ~cache[n].marked /\ cache' = [cache EXCEPT ![n].marked = TRUE]
           /\ Hist([a |-> "Mark", pod |-> "-", node |-> n, cset |-> "-", k |-> 0])
           /\ UNCHANGED <<bind, claims, book, catalog, held, need, nomBy, frame, wk>>
Unmark(n) == /\ Live /\ cache[n].marked /\ cache' = [cache EXCEPT ![n].marked = FALSE]
             /\ Hist([a |-> "Unmark", pod |-> "-", node |-> n, cset |-> "-", k |-> 0])
             /\ UNCHANGED <<bind, claims, book, catalog, held, need, nomBy, frame, wk>>
\* a new disruption decision lists its candidates' pods afresh
NewDecision == /\ Live /\ held' = Pref0
               /\ Hist([a |-> "NewDecision", pod |-> "-", node |-> "-", cset |-> "-", k |-> 0])
               /\ UNCHANGED <<bind, claims, cache, book, catalog, need, nomBy, frame, wk>>

\* ---------------------------------------------------------------- the simulation
CSets == {<<"n1">>, <<"n2">>, <<"n1", "n2">>, <<"n1", "n2", "n3">>}
SetOf(s) == {s[i] : i \in DOMAIN s}
Name(s) == IF Len(s) = 1 THEN s[1] ELSE IF Len(s) = 2 THEN s[1] \o "," \o s[2] ELSE s[1] \o "," \o s[2] \o "," \o s[3]
\* k = placements before the context expires (Len(Order) = never: the simulation completes; 0 = cancelled before it starts)
Simulate(cs, k) ==
    LET C == SetOf(cs)
        R == {p \in Pods : bind[p] \in C \/ bind[p] = "pending"}
        r == Place(cache, R, Nodes \ C, 1, k)                            \* on a COPY of the cache
        leaked == [n \in Nodes |-> [cache[n] EXCEPT !.pods = r.wkc[n].pods, !.ports = r.wkc[n].ports]]
    IN /\ Live /\ \A n \in C : ~cache[n].marked
       /\ cache' = IF W("liveNode") THEN leaked                            \* weakening: the live StateNode is used
                   ELSE IF W("nominateInSim") THEN [n \in Nodes |-> [cache[n] EXCEPT !.nominated = @ \/ n \in r.on]]
                   ELSE cache
       /\ catalog' = IF W("sortInPlace") THEN PriceOrder ELSE catalog     \* weakening: OrderByPrice on the provider's slice
       /\ held' = IF W("relaxHeld") THEN [p \in Pods |-> held[p] /\ p \notin R] ELSE held
       /\ claims' = IF W("simWrites") /\ R # {} THEN claims \cup {"sim"} ELSE claims
       /\ Hist([a |-> "Simulate", pod |-> "-", node |-> "-", cset |-> Name(cs), k |-> k])
       /\ UNCHANGED <<bind, book, need, nomBy, wk>>
       /\ frame' = [kind |-> "sim", pre |-> Snap, post |-> Snap',                 \* (last: Snap' reads every primed variable)
                    writes |-> IF W("simWrites") /\ R # {} THEN <<"NodeClaim">> ELSE <<>>]

\* ---------------------------------------------------------------- the provisioning pass and what follows it
Pass == LET R == {p \in Pods : bind[p] = "pending"}
            r == Place(cache, R, Nodes, 1, Len(Order))
            placed == UNION {r.wkc[n].pods \ cache[n].pods : n \in Nodes}
        IN /\ Live /\ ~need
           /\ cache' = [n \in Nodes |-> [cache[n] EXCEPT !.nominated = @ \/ n \in r.on,
                                                          !.pods = IF W("passBooksUsage") THEN r.wkc[n].pods ELSE @]]
           /\ nomBy' = nomBy \cup r.on
           /\ book' = book \cup R
           /\ need' = (R \ placed # {})
           /\ Hist([a |-> "Pass", pod |-> "-", node |-> "-", cset |-> "-", k |-> 0])
           /\ UNCHANGED <<bind, claims, catalog, held, wk>>
           /\ frame' = [kind |-> "pass", pre |-> Snap, post |-> Snap', writes |-> <<>>]
Create == /\ Live /\ need /\ need' = FALSE /\ claims' = claims \cup {"prov"}
          /\ Hist([a |-> "Create", pod |-> "-", node |-> "-", cset |-> "-", k |-> 0])
          /\ UNCHANGED <<bind, cache, book, catalog, held, nomBy, frame, wk>>
Expire(n) == /\ Live /\ cache[n].nominated /\ n \in nomBy
             /\ cache' = [cache EXCEPT ![n].nominated = FALSE] /\ nomBy' = nomBy \ {n}
             /\ Hist([a |-> "Expire", pod |-> "-", node |-> n, cset |-> "-", k |-> 0])
             /\ UNCHANGED <<bind, claims, book, catalog, held, need, frame, wk>>

Next == \/ \E p \in Pods, n \in Nodes : Bind(p, n)
        \/ \E p \in Pods : Unbind(p)
        \/ \E n \in Nodes : Mark(n) \/ Unmark(n) \/ Expire(n)
        \/ NewDecision
        \/ \E cs \in CSets, k \in {0, 1, Len(Order)} : Simulate(cs, k)
        \/ Pass \/ Create
Spec == Init /\ [][Next]_vars

\* ---------------------------------------------------------------- properties
\* the frame guards, on the snapshots around the last simulation / pass
Inv_C18_SimulationFrame == frame.kind = "sim"  => G_C18_SimulationFrame(frame.pre, frame.post, frame.writes)
Inv_C18_ProvisionFrame  == frame.kind = "pass" => G_C18_ProvisionFrame(frame.pre, frame.post, frame.writes)
\* what the frame protects (checked WITHOUT the guards in the Weak configurations: the frame is load-bearing)
Inv_C18_CacheIsFunctionOfApi == \A n \in Nodes : cache[n].pods = PodsOn(bind, n) /\ cache[n].ports = PortsOf(PodsOn(bind, n))
Inv_C18_ProviderOrderKept    == catalog = ProviderOrder
Inv_C18_NominationsJustified == {n \in Nodes : cache[n].nominated} \subseteq nomBy
Inv_C18_HeldPodsIntact       == held = Pref0
Inv_C18_ClaimsFromPasses     == claims \subseteq {"prov"}
Consequences == /\ Inv_C18_CacheIsFunctionOfApi /\ Inv_C18_ProviderOrderKept /\ Inv_C18_NominationsJustified
                /\ Inv_C18_HeldPodsIntact /\ Inv_C18_ClaimsFromPasses
TypeOK == /\ bind \in [Pods -> Nodes \cup {"pending"}] /\ need \in BOOLEAN /\ Len(h) <= MaxLen
          /\ \A n \in Nodes : Cardinality(cache[n].pods) <= Cap + 3

WeakDetect == Consequences \/ PrintT(<<"REJ", wk>>)
\* the guards notice every weakening, too (guard-level vacuity)
WeakDetectGuards == (Inv_C18_SimulationFrame /\ Inv_C18_ProvisionFrame) \/ PrintT(<<"REJG", wk>>)

view == <<bind, claims, cache, book, catalog, held, need, nomBy, frame, wk, Len(h)>>
GenPrint == Len(h) # MaxLen \/ PrintT(<<"BEH", ToJson([steps |-> h])>>)
=============================================================================
