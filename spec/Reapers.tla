------------------------------- MODULE Reapers -------------------------------
(***************************************************************************)
(* The four forceful reapers (property C16): NodeClaim expiration,         *)
(* NodeClaim garbage collection, the lifecycle controller's liveness check *)
(* and node repair (node.health).                                          *)
(*                                                                         *)
(* State = what the statement talks about: NodeClaims and Nodes as stored  *)
(* in the API (in the record shapes the harness logs, so that the guards   *)
(* of ReapersGuards.tla are evaluated on the model's own state and on the  *)
(* recorded state of the real code alike), the set of instances the        *)
(* provider lists, a population of further nodes of the pool / cluster     *)
(* (for the 20 % circuit breaker), the clock in seconds.                   *)
(*                                                                         *)
(* Granularity (DESIGN 2.1, coarse): one reconcile is one action made of   *)
(* the controller's sequence of reads - each of which can fail - followed  *)
(* by the decision and its writes; the parameter f names the call that     *)
(* fails, the effect is the prefix of writes up to that call.  Environment *)
(* steps (instance vanishes, node NotReady/Ready/gone, unhealthy condition *)
(* appears/clears, other nodes of the pool turn unhealthy/recover, user    *)
(* delete, launch/registration progress, restart) and clock ticks to one   *)
(* second before / exactly at / one second after every pending deadline    *)
(* interleave between reconciles.                                          *)
(*                                                                         *)
(* The history records, for every reconcile, the deletes the model       *)
(* expects (del); the check compares them with what the real controller    *)
(* did and reports differences as MODEL-DRIFT notes (never a verdict).     *)
(*                                                                         *)
(* The mechanism constants select the controller's decision procedure:     *)
(* the values of Reapers_MC.cfg are the documented behaviour; each         *)
(* Reapers_Weak*.cfg changes one of them (an off-by-one, a dropped check,  *)
(* continuing after a failed read) and TLC must then violate the matching  *)
(* Inv_C16_* - the vacuity guard.  GcOnLookupError = "delete" is what the   *)
(* pinned tree does (DESIGN section 7 item 6).                             *)
(***************************************************************************)
EXTENDS ReapersGuards, Json

CONSTANTS Claims,            \* subset of {"c1","c2","c3"} (static attributes in Attr)
          MaxNow, MaxFaults, MaxEnv, MaxLen,
          NoopEvery,         \* 1 = reconciles that change nothing are always possible (checking); k > 1 = only at every k-th
                             \* position of a behaviour (generation: random walks then spend their steps on reconciles that act)
          EA,                \* expireAfter of c1/c3 (c2: Never)
          LT, RT,            \* launch / registration timeouts
          TolReady, TolDisk, \* tolerations of the two repair policies
          PoolBg, OtherBg,   \* sets of possible numbers of further nodes in the pool / outside it
          ReadyVals,         \* statuses the Ready condition of a claim's node can take
          MaxBad,            \* at most this many of them start unhealthy
          ExpireSlack,       \* 0 = code; 1 = expires one second early
          ExpireNever,       \* "check" = code; "ignore" = disabled expiry not tested
          GcOnProvListError, \* "abort" = code; "continue" = failed provider List read as empty
          GcOnLookupError,   \* "skip" = documented; "delete" = pinned tree (continues after the failed Node lookup)
          GcReady,           \* "check" = code; "ignore" = Node readiness not consulted
          LiveSlack,         \* 0 = code; 1 = one second early
          RepairSlack,       \* 0 = code; 1 = one second before the toleration elapsed
          RepairExtra,       \* 0 = code; 1 = one more unhealthy node tolerated than 20 % rounded up
          RepairScope,       \* "pool" = code; "cluster" = pool claims judged against the whole cluster
          RepairOnListError  \* "abort" = code; "continue" = failed node List read as empty

VARIABLES now, claim, node, listed, bg, budget, last, h
vars == <<now, claim, node, listed, bg, budget, last, h>>
view == <<now, claim, node, listed, bg, budget, last>>

\* ---------------------------------------------------------------- scenario tables
Attr == [c1 |-> [pool |-> "p", ea |-> EA, pid |-> "i1", node |-> "n1", reg |-> TRUE],
         c2 |-> [pool |-> "",  ea |-> -1, pid |-> "i2", node |-> "n2", reg |-> TRUE],
         c3 |-> [pool |-> "p", ea |-> EA, pid |-> "i3", node |-> "n3", reg |-> FALSE]]
Policies == << [type |-> "Ready", status |-> "False", toleration |-> TolReady],
               [type |-> "BadDisk", status |-> "True", toleration |-> TolDisk] >>
BgPNames == <<"bgp01", "bgp02", "bgp03", "bgp04", "bgp05", "bgp06", "bgp07", "bgp08", "bgp09", "bgp10", "bgp11", "bgp12">>
BgONames == <<"bgo01", "bgo02", "bgo03", "bgo04", "bgo05", "bgo06", "bgo07", "bgo08", "bgo09", "bgo10", "bgo11", "bgo12">>
PoolLbl(p) == IF p = "" THEN <<>> ELSE (PoolKey :> p)

InitClaim(c) ==
    [name |-> c, exists |-> TRUE, deleting |-> FALSE, created |-> 0, expireAfter |-> Attr[c].ea,
     launched |-> IF Attr[c].reg THEN "True" ELSE "Unknown",
     registered |-> IF Attr[c].reg THEN "True" ELSE "Unknown",
     providerID |-> IF Attr[c].reg THEN Attr[c].pid ELSE "-",
     labels |-> PoolLbl(Attr[c].pool), condSince |-> [Launched |-> 0, Registered |-> 0], terminationAt |-> -1,
     \* dirty: the lifecycle controller has not reconciled this claim yet; its first reconcile persists the conditions it
     \* initialises (patch + Sleep(1s)), later ones of an unregistered claim change nothing
     dirty |-> ~Attr[c].reg]
MkNode(name, pid, pool, ready, readySince, bad, badSince) ==
    [name |-> name, exists |-> TRUE, providerID |-> pid, ready |-> ready, labels |-> PoolLbl(pool),
     conds |-> [Ready |-> ready, BadDisk |-> bad], condSince |-> [Ready |-> readySince, BadDisk |-> badSince]]
NoNode == [exists |-> FALSE]
InitNode(c) == IF Attr[c].reg THEN MkNode(Attr[c].node, Attr[c].pid, Attr[c].pool, "True", 0, "False", 0) ELSE NoNode
NoLast == [actor |-> "none", ok |-> TRUE]

Min(S) == CHOOSE x \in S : \A y \in S : x <= y
BgChoices == {[pt |-> t, pu |-> u, ot |-> o, ou |-> v] : t \in PoolBg, u \in 0..MaxBad, o \in OtherBg, v \in 0..MaxBad}
Init == /\ now = 0 /\ claim = [c \in Claims |-> InitClaim(c)] /\ node = [c \in Claims |-> InitNode(c)]
        /\ listed = {Attr[c].pid : c \in {x \in Claims : Attr[x].reg}}
        /\ bg \in {b \in BgChoices : b.pu <= b.pt /\ b.ou <= b.ot}
        /\ budget = [faults |-> 0, env |-> 0] /\ last = NoLast
        /\ h = << [a |-> "Init", pt |-> bg.pt, pu |-> bg.pu, ot |-> bg.ot, ou |-> bg.ou] >>

\* the Nodes in the store, name -> record
BgIdx == [k \in {BgPNames[i] : i \in DOMAIN BgPNames} \cup {BgONames[i] : i \in DOMAIN BgONames} |->
            IF \E i \in DOMAIN BgPNames : BgPNames[i] = k THEN CHOOSE i \in DOMAIN BgPNames : BgPNames[i] = k
            ELSE CHOOSE i \in DOMAIN BgONames : BgONames[i] = k]
NodeOwner == [k \in {Attr[c].node : c \in Claims} |-> CHOOSE c \in Claims : Attr[c].node = k]
BgFun(names, pool, t, u) == [k \in {names[i] : i \in 1..t} |->
                               MkNode(k, k, pool, "True", 0, IF BgIdx[k] <= u THEN "True" ELSE "False", 0)]
AllNodes == [k \in {Attr[c].node : c \in {x \in Claims : node[x].exists}} |-> node[NodeOwner[k]]]
            @@ BgFun(BgPNames, "p", bg.pt, bg.pu) @@ BgFun(BgONames, "", bg.ot, bg.ou)

Hist(e) == h' = Append(h, e)
Fault(f) == f = "none" \/ budget.faults < MaxFaults
Acts(effect) == effect \/ Len(h) % NoopEvery = 0
Spend(f) == budget' = IF f = "none" THEN budget ELSE [budget EXCEPT !.faults = @ + 1]
EnvStep == budget.env < MaxEnv /\ budget' = [budget EXCEPT !.env = @ + 1] /\ last' = NoLast
MarkDeleted(S) == claim' = [c \in Claims |-> IF c \in S THEN [claim[c] EXCEPT !.deleting = TRUE] ELSE claim[c]]

\* ---------------------------------------------------------------- controllers
\* nodeclaim.expiration: no reads beyond the object handed to the reconcile; Delete; Sleep(1s)
Expire(c, f) ==
    LET cl == claim[c]
        due == (ExpireNever = "ignore" \/ cl.expireAfter >= 0) /\ now + ExpireSlack >= cl.created + cl.expireAfter
        act == cl.exists /\ ~cl.deleting /\ due
        ok == act /\ f # "delete"
    IN /\ cl.exists /\ f \in {"none", "delete"} /\ (f = "none" \/ act) /\ Fault(f) /\ Spend(f) /\ Acts(act)
       /\ MarkDeleted(IF ok THEN {c} ELSE {})
       /\ now' = IF ok THEN now + 1 ELSE now
       /\ last' = IF ok THEN [actor |-> "expire", ok |-> G_C16_Expiration(cl, now)] ELSE NoLast
       /\ UNCHANGED <<node, listed, bg>>
       /\ Hist([a |-> "Expire", c |-> c, f |-> f, del |-> IF ok THEN {c} ELSE {}])

\* nodeclaim.garbagecollection: list NodeClaims, provider List, per candidate a Node lookup by provider id, Delete.
\* lf = the candidates whose Node lookup fails.
Gc(f, lf) ==
    LET abort == f = "claimList" \/ (f = "provList" /\ GcOnProvListError = "abort")
        seen == IF f = "provList" THEN {} ELSE listed
        cands == {c \in Claims : claim[c].exists /\ claim[c].registered = "True" /\ ~claim[c].deleting
                                 /\ claim[c].providerID \notin seen}
        all == AllNodes
        nodeReady(c) == \E k \in DOMAIN all : all[k].providerID = claim[c].providerID /\ all[k].ready = "True"
        del == IF abort THEN {}
               ELSE {c \in cands : IF c \in lf THEN GcOnLookupError = "delete" ELSE (GcReady = "ignore" \/ ~nodeReady(c))}
        delOk == IF f = "delete" THEN {} ELSE del
    IN /\ f \in {"none", "claimList", "provList", "delete"}
       /\ (lf # {} => (f \in {"none", "delete"} /\ lf \subseteq cands))
       /\ (f = "delete" => del # {})
       /\ Acts(del # {} \/ f # "none" \/ lf # {})
       /\ ((f = "none" /\ lf = {}) \/ budget.faults < MaxFaults)
       /\ budget' = IF f = "none" /\ lf = {} THEN budget ELSE [budget EXCEPT !.faults = @ + 1]
       /\ MarkDeleted(delOk)
       /\ last' = IF delOk = {} THEN NoLast
                  ELSE [actor |-> "gc",
                        ok |-> \A c \in delOk : G_C16_GarbageCollection(claim[c], f # "provList", listed, c \notin lf, all)]
       /\ UNCHANGED <<now, node, listed, bg>>
       /\ Hist([a |-> "Gc", f |-> f, lf |-> lf, del |-> delOk])

\* nodeclaim.lifecycle liveness (bound through Lifecycle.tla's driver as well): Get NodePool, Delete
Live(c, f) ==
    LET cl == claim[c]
        lDue == cl.launched # "True" /\ now + LiveSlack - cl.condSince.Launched >= LT
        rDue == cl.launched = "True" /\ now + LiveSlack - cl.condSince.Registered >= RT
        act == cl.exists /\ ~cl.deleting /\ cl.registered # "True" /\ (lDue \/ rDue)
        ok == act /\ f = "none"
    IN /\ cl.exists /\ ~cl.deleting /\ cl.registered # "True"
       /\ f \in {"none", "poolGet", "delete"} /\ (f = "none" \/ act) /\ Fault(f) /\ Spend(f) /\ Acts(act \/ cl.dirty)
       /\ claim' = [claim EXCEPT ![c] = [@ EXCEPT !.deleting = @ \/ ok, !.dirty = FALSE]]
       /\ now' = IF cl.dirty THEN now + 1 ELSE now      \* Sleep(1s) after the status patch
       /\ last' = IF ok THEN [actor |-> "live", ok |-> G_C16_Liveness(cl, now, LT, RT)] ELSE NoLast
       /\ UNCHANGED <<node, listed, bg>>
       /\ Hist([a |-> "Live", c |-> c, f |-> f, del |-> IF ok THEN {c} ELSE {}])

\* node.health: NodeClaim lookup by provider id, unhealthy condition + toleration, node List of the pool / cluster,
\* termination-timestamp annotation patch, Delete of the NodeClaim
MatchIdx(n) == {i \in DOMAIN Policies : Matches(n, Policies[i])}
TermTime(n, i) == n.condSince[Policies[i].type] + Policies[i].toleration
Repair(c, f) ==
    LET n == node[c]
        cl == claim[c]
        found == cl.exists /\ cl.providerID = n.providerID
        m == MatchIdx(n)
        due == m # {} /\ now + RepairSlack >= Min({TermTime(n, i) : i \in m})
        all == AllNodes
        scope == IF RepairScope = "cluster" \/ ~HasPool(cl) THEN DOMAIN all
                 ELSE {k \in DOMAIN all : HasPool(all[k]) /\ all[k].labels[PoolKey] = cl.labels[PoolKey]}
        seen == IF f = "nodeList" THEN {} ELSE scope
        bad == Cardinality({k \in seen : Unhealthy(all[k], Policies)})
        thr == ((20 * Cardinality(seen) + 99) \div 100) + RepairExtra
        s1 == f # "claimList" /\ found /\ due
        s2 == s1 /\ (f # "nodeList" \/ RepairOnListError = "continue") /\ bad <= thr
        needPatch == ~(cl.terminationAt >= 0 /\ cl.terminationAt < now) /\ cl.terminationAt # now
        annotate == s2 /\ needPatch /\ f # "annotate"
        s3 == s2 /\ ~(needPatch /\ f = "annotate")
        del == s3 /\ ~cl.deleting /\ f # "delete"
    IN /\ n.exists /\ f \in {"none", "claimList", "nodeList", "annotate", "delete"} /\ Fault(f) /\ Spend(f)
       /\ (f = "nodeList" => found /\ due)
       /\ (f = "annotate" => s2 /\ needPatch)
       /\ (f = "delete" => s3 /\ ~cl.deleting)
       /\ Acts(s1 \/ f # "none")
       /\ claim' = [claim EXCEPT ![c] = [@ EXCEPT !.terminationAt = IF annotate THEN now ELSE @,
                                                   !.deleting = @ \/ del]]
       /\ last' = IF del THEN [actor |-> "repair", ok |-> G_C16_Repair(cl, n, now, Policies, all)] ELSE NoLast
       /\ UNCHANGED <<now, node, listed, bg>>
       /\ Hist([a |-> "Repair", c |-> c, f |-> f, del |-> IF del THEN {c} ELSE {}])

\* ---------------------------------------------------------------- environment
Deadlines ==
    {claim[c].created + claim[c].expireAfter : c \in {x \in Claims : claim[x].exists /\ ~claim[x].deleting /\ claim[x].expireAfter >= 0}}
    \cup UNION {{TermTime(node[c], i) : i \in MatchIdx(node[c])} : c \in {x \in Claims : node[x].exists}}
    \cup UNION {{claim[c].condSince.Launched + LT, claim[c].condSince.Registered + RT} :
                c \in {x \in Claims : claim[x].exists /\ ~claim[x].deleting /\ claim[x].registered # "True"}}
Tick(to) == /\ to > now /\ to <= MaxNow
            /\ now' = to /\ last' = NoLast
            /\ UNCHANGED <<claim, node, listed, bg, budget>>
            /\ Hist([a |-> "Tick", to |-> to])

InstanceVanishes(c) ==
    /\ claim[c].providerID \in listed /\ listed' = listed \ {claim[c].providerID} /\ EnvStep
    /\ UNCHANGED <<now, claim, node, bg>> /\ Hist([a |-> "InstanceVanishes", c |-> c])
NodeReady(c, s) ==
    /\ node[c].exists /\ node[c].ready # s /\ EnvStep
    /\ node' = [node EXCEPT ![c] = [@ EXCEPT !.ready = s, !.conds.Ready = s, !.condSince.Ready = now]]
    /\ UNCHANGED <<now, claim, listed, bg>> /\ Hist([a |-> "NodeReady", c |-> c, s |-> s])
DiskBad(c, s) ==
    /\ node[c].exists /\ node[c].conds.BadDisk # s /\ EnvStep
    /\ node' = [node EXCEPT ![c] = [@ EXCEPT !.conds.BadDisk = s, !.condSince.BadDisk = now]]
    /\ UNCHANGED <<now, claim, listed, bg>> /\ Hist([a |-> "DiskBad", c |-> c, s |-> s])
NodeGone(c) ==
    /\ node[c].exists /\ EnvStep /\ node' = [node EXCEPT ![c] = NoNode]
    /\ UNCHANGED <<now, claim, listed, bg>> /\ Hist([a |-> "NodeGone", c |-> c])
\* another node of the pool ("p") / outside it ("o") turns unhealthy (d = 1) or recovers (d = -1)
BgFlip(sc, d) ==
    /\ EnvStep
    /\ \/ (sc = "p" /\ bg.pu + d \in 0..bg.pt /\ bg' = [bg EXCEPT !.pu = @ + d])
       \/ (sc = "o" /\ bg.ou + d \in 0..bg.ot /\ bg' = [bg EXCEPT !.ou = @ + d])
    /\ UNCHANGED <<now, claim, node, listed>> /\ Hist([a |-> "BgFlip", sc |-> sc, d |-> d])
UserDelete(c) ==
    /\ claim[c].exists /\ ~claim[c].deleting /\ EnvStep /\ MarkDeleted({c})
    /\ UNCHANGED <<now, node, listed, bg>> /\ Hist([a |-> "UserDelete", c |-> c])
\* launch / registration progress of an unregistered claim (lifecycle controller + kubelet, abstracted)
EnvLaunched(c) ==
    /\ claim[c].exists /\ ~claim[c].deleting /\ claim[c].launched # "True" /\ EnvStep
    /\ claim' = [claim EXCEPT ![c] = [@ EXCEPT !.launched = "True", !.providerID = Attr[c].pid, !.condSince.Launched = now]]
    /\ listed' = listed \cup {Attr[c].pid}
    /\ UNCHANGED <<now, node, bg>> /\ Hist([a |-> "Launched", c |-> c])
EnvRegistered(c) ==
    /\ claim[c].exists /\ ~claim[c].deleting /\ claim[c].launched = "True" /\ claim[c].registered # "True" /\ EnvStep
    /\ claim' = [claim EXCEPT ![c] = [@ EXCEPT !.registered = "True", !.condSince.Registered = now]]
    /\ node' = [node EXCEPT ![c] = MkNode(Attr[c].node, Attr[c].pid, Attr[c].pool, "True", now, "False", now)]
    /\ UNCHANGED <<now, listed, bg>> /\ Hist([a |-> "Registered", c |-> c])
\* the reapers keep no in-memory state: a restart re-instantiates the controllers
Restart == /\ EnvStep /\ UNCHANGED <<now, claim, node, listed, bg>> /\ Hist([a |-> "Restart"])

\* one named disjunct per action, so that TLC's coverage reports each of them
Bound == Len(h) < MaxLen
DoExpire == Bound /\ \E c \in Claims, f \in {"none", "delete"} : Expire(c, f)
DoGc == Bound /\ \E f \in {"none", "claimList", "provList", "delete"}, lf \in {{}} \cup {{c} : c \in Claims} \cup {Claims} : Gc(f, lf)
DoLive == Bound /\ \E c \in Claims, f \in {"none", "poolGet", "delete"} : Live(c, f)
DoRepair == Bound /\ \E c \in Claims, f \in {"none", "claimList", "nodeList", "annotate", "delete"} : Repair(c, f)
DoTick == Bound /\ \E d \in Deadlines, o \in {-1, 0, 1} : Tick(d + o)
DoInstanceVanishes == Bound /\ \E c \in Claims : InstanceVanishes(c)
DoNodeGone == Bound /\ \E c \in Claims : NodeGone(c)
DoUserDelete == Bound /\ \E c \in Claims : UserDelete(c)
DoLaunched == Bound /\ \E c \in Claims : EnvLaunched(c)
DoRegistered == Bound /\ \E c \in Claims : EnvRegistered(c)
DoNodeReady == Bound /\ \E c \in Claims, s \in ReadyVals : NodeReady(c, s)
DoDiskBad == Bound /\ \E c \in Claims, s \in {"True", "False"} : DiskBad(c, s)
DoBgFlip == Bound /\ \E sc \in {"p", "o"}, d \in {-1, 1} : BgFlip(sc, d)
DoRestart == Bound /\ Restart
Next == DoExpire \/ DoGc \/ DoLive \/ DoRepair \/ DoTick \/ DoInstanceVanishes \/ DoNodeGone \/ DoUserDelete
        \/ DoLaunched \/ DoRegistered \/ DoNodeReady \/ DoDiskBad \/ DoBgFlip \/ DoRestart
Spec == Init /\ [][Next]_vars

\* ---------------------------------------------------------------- properties of the closed model
TypeOK == /\ now \in 0..(MaxNow + MaxLen) /\ listed \subseteq {"i1", "i2", "i3"}
          /\ bg.pu \in 0..bg.pt /\ bg.ou \in 0..bg.ot
          /\ \A c \in Claims : claim[c].registered \in {"True", "Unknown"} /\ claim[c].expireAfter \in {-1, EA}
\* every delete a reaper performs happens on its documented trigger (guard evaluated on the state before the delete)
Inv_C16_Expiration == last.actor = "expire" => last.ok
Inv_C16_GarbageCollection == last.actor = "gc" => last.ok
Inv_C16_Liveness == last.actor = "live" => last.ok
Inv_C16_Repair == last.actor = "repair" => last.ok
\* a claim whose expiry is disabled and whose node is healthy, Ready and listed is never reaped
Act_C16_NoTriggerNoReap ==
    [][ \A c \in Claims :
          (/\ claim[c].exists /\ ~claim[c].deleting /\ claim'[c].deleting
           /\ h' # h /\ h'[Len(h')].a \in {"Expire", "Gc", "Live", "Repair"})
          => \/ (claim[c].expireAfter >= 0 /\ now >= claim[c].created + claim[c].expireAfter)
             \/ claim[c].registered # "True"
             \/ claim[c].providerID \notin listed
             \/ (node[c].exists /\ Unhealthy(node[c], Policies)) ]_vars

GenPrint == (Len(h) < MaxLen /\ ENABLED Next) \/ PrintT(<<"BEH", ToJson(h)>>)
=============================================================================
