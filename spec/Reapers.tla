------------------------------- MODULE Reapers -------------------------------
(***************************************************************************)
(* The four forceful reapers (property C16): NodeClaim expiration,         *)
(* NodeClaim garbage collection, the lifecycle controller's liveness check *)
(* and node repair (node.health).                                          *)
(*                                                                         *)
(* State = what the statement talks about: NodeClaims and Nodes as stored  *)
(* in the API (in the record shapes the harness logs, so that the guards   *)
(* of ReapersGuards.tla are evaluated on the model's own state and on the  *)
(* recorded state of the real code alike), the set of instances the        *)
(* provider lists, a population of further nodes of the pool / cluster     *)
(* (for the 20 % circuit breaker; some of its unhealthy nodes are already  *)
(* terminating - an earlier repair wave still draining), the clock in      *)
(* MILLISECONDS.  Stamps written to objects (creation, condition           *)
(* transitions, the termination annotation) are whole seconds, truncated   *)
(* like the API does.                                                      *)
(*                                                                         *)
(* Granularity (DESIGN 2.1, coarse): one reconcile is one action made of   *)
(* the controller's sequence of reads - each of which can fail - followed  *)
(* by the decision and its writes; the parameter f names the call that     *)
(* fails, the effect is the prefix of writes up to that call.  Environment *)
(* steps (instance vanishes, node NotReady/Ready/gone, unhealthy condition *)
(* appears/clears, other nodes of the pool turn unhealthy/recover, user    *)
(* delete, repaired nodes lingering as terminating objects, launch /       *)
(* registration progress, restart) and clock ticks to sub-second offsets   *)
(* (Offsets, e.g. -501 ms, -500 ms, -1 ms, 0, +1 ms) around every pending   *)
(* deadline interleave between reconciles.  A failing read has a kind      *)
(* (generic error / NotFound-typed error): a read that failed establishes  *)
(* nothing whatever the type of its error.                                 *)
(*                                                                         *)
(* The history records, for every reconcile, the deletes the model       *)
(* expects (del); the check compares them with what the real controller    *)
(* did and reports differences as MODEL-DRIFT notes (never a verdict).     *)
(*                                                                         *)
(* The mechanism constants select the controller's decision procedure:     *)
(* the values of Reapers_MC.cfg are the documented behaviour; each         *)
(* Reapers_Weak*.cfg changes one of them (an off-by-one, a dropped check,  *)
(* continuing after a failed read) and TLC must then violate the matching  *)
(* Inv_C16_* - the vacuity guard.  GcOnLookupError = "delete" is what the   *)
(* pinned tree does (DESIGN section 7 item 6).                             *)
(***************************************************************************)
EXTENDS ReapersGuards, Json

CONSTANTS Claims,            \* subset of {"c1","c2","c3"} (static attributes in Attr)
          MaxNow,            \* clock bound in seconds
          MaxFaults, MaxEnv, MaxLen,
          NoopEvery,         \* 1 = reconciles that change nothing are always possible (checking); k > 1 = only at every k-th
                             \* position of a behaviour (generation: random walks then spend their steps on reconciles that act)
          OffBefore, OffAfter, \* clock positions around every deadline: milliseconds before it / at or after it
          EA,                \* expireAfter of c1/c3 in seconds (c2: Never)
          LT, RT,            \* launch / registration timeouts (s)
          TolReady, TolUnk, TolDisk, \* tolerations (s) of the repair policies Ready=False, Ready=Unknown, BadDisk=True
          UnknownFirst,      \* order of the provider's policy list: Ready=Unknown listed before (TRUE) / after Ready=False
          PoolBg, OtherBg,   \* sets of possible numbers of further nodes in the pool / outside it
          ReadyVals,         \* statuses the Ready condition of a claim's node can take
          MaxBad,            \* at most this many of them start unhealthy
          MaxDel,            \* at most this many of the unhealthy ones start terminating
          RoundedClock,      \* reapers that compare a clock reading rounded to the nearest second: {} = code;
                             \* subsets of {"expire", "live", "repair"} = mutations (up to 500 ms early)
          ExpireSlack,       \* 0 = code; 1 = expires one millisecond early
          ExpireNever,       \* "check" = code; "ignore" = disabled expiry not tested
          GcOnProvListError, \* "abort" = code; "continue" = failed provider List read as empty
          GcOnLookupError,   \* "skip" = code (since fix 1d47e5fbe); "delete" = continues after the failed Node lookup
          GcReady,           \* "check" = code; "ignore" = Node readiness not consulted
          NotFoundAsEmpty,   \* reads whose NotFound-typed failure is taken for an empty answer: {} = code;
                             \* subsets of {"provList", "nodeLookup", "nodeList"} = mutations
          GcReadOrder,       \* "claimsFirst" = code (NodeClaims are listed, then the provider); "provFirst" = the provider
                             \* listing is taken first and judged against NodeClaims listed later
          LiveGate,          \* "registered" = code (liveness stops watching once Registered); "ready" = only once the
                             \* claim is Ready (Launched, Registered and Initialized)
          LiveSlack,         \* 0 = code; 1 = one millisecond early
          RepairSlack,       \* 0 = code; 1 = one millisecond before the toleration elapsed
          RepairTolBy,       \* "policy" = code (toleration of the policy matching type and status); "type" = of the first
                             \* policy with the same condition type
          RepairAnnotated,   \* "check" = code (the 20 % breaker is consulted on every pass); "shortcut" = a NodeClaim that already
                             \* carries the termination-timestamp annotation is deleted without consulting it
          RepairExtra,       \* 0 = code; 1 = one more unhealthy node tolerated than 20 % rounded up
          RepairScope,       \* "pool" = code; "cluster" = pool claims judged against the whole cluster
          RepairOnListError, \* "abort" = code; "continue" = failed node List read as empty
          RepairTerminating  \* "count" = code; "skip" = unhealthy nodes that are already terminating not counted

VARIABLES now, claim, node, listed, bg, budget, last, h
vars == <<now, claim, node, listed, bg, budget, last, h>>
view == <<now, claim, node, listed, bg, budget, last>>

\* ---------------------------------------------------------------- scenario tables
Attr == [c1 |-> [pool |-> "p", ea |-> EA, pid |-> "i1", node |-> "n1", reg |-> TRUE],
         c2 |-> [pool |-> "",  ea |-> -1, pid |-> "i2", node |-> "n2", reg |-> TRUE],
         c3 |-> [pool |-> "p", ea |-> EA, pid |-> "i3", node |-> "n3", reg |-> FALSE]]
\* several policies on one condition type with different statuses and tolerations, in either order, plus another type
PolRF == [type |-> "Ready", status |-> "False", toleration |-> TolReady]
PolRU == [type |-> "Ready", status |-> "Unknown", toleration |-> TolUnk]
PolBD == [type |-> "BadDisk", status |-> "True", toleration |-> TolDisk]
Policies == IF UnknownFirst THEN <<PolRU, PolRF, PolBD>> ELSE <<PolRF, PolRU, PolBD>>
BgPNames == <<"bgp01", "bgp02", "bgp03", "bgp04", "bgp05", "bgp06", "bgp07", "bgp08", "bgp09", "bgp10", "bgp11", "bgp12">>
BgONames == <<"bgo01", "bgo02", "bgo03", "bgo04", "bgo05", "bgo06", "bgo07", "bgo08", "bgo09", "bgo10", "bgo11", "bgo12">>
PoolLbl(p) == IF p = "" THEN <<>> ELSE (PoolKey :> p)
Kinds == {"generic", "notfound"}
Offsets == {0 - x : x \in OffBefore} \cup OffAfter
\* the stamp the API stores for "now": whole seconds
Stamp == now \div 1000
\* the clock as a reaper reads it
Clock(who) == IF who \in RoundedClock THEN ((now + 500) \div 1000) * 1000 ELSE now

InitClaim(c) ==
    [name |-> c, exists |-> TRUE, deleting |-> FALSE, created |-> 0, expireAfter |-> Attr[c].ea,
     launched |-> IF Attr[c].reg THEN "True" ELSE "Unknown",
     registered |-> IF Attr[c].reg THEN "True" ELSE "Unknown",
     providerID |-> IF Attr[c].reg THEN Attr[c].pid ELSE "-",
     initialized |-> IF Attr[c].reg THEN "True" ELSE "Unknown",
     labels |-> PoolLbl(Attr[c].pool), condSince |-> [Launched |-> 0, Registered |-> 0], terminationAt |-> -1]
MkNode(name, pid, pool, ready, readySince, bad, badSince, del) ==
    [name |-> name, exists |-> TRUE, deleting |-> del, providerID |-> pid, ready |-> ready, labels |-> PoolLbl(pool),
     conds |-> [Ready |-> ready, BadDisk |-> bad], condSince |-> [Ready |-> readySince, BadDisk |-> badSince]]
NoNode == [exists |-> FALSE]
InitNode(c) == IF Attr[c].reg THEN MkNode(Attr[c].node, Attr[c].pid, Attr[c].pool, "True", 0, "False", 0, FALSE) ELSE NoNode
NoLast == [actor |-> "none", ok |-> TRUE]

Min(S) == CHOOSE x \in S : \A y \in S : x <= y
\* pt/ot further nodes in the pool / outside it, the first pu/ou of them unhealthy, the first pd/od of those terminating
BgChoices == {[pt |-> t, pu |-> u, pd |-> d, ot |-> o, ou |-> v, od |-> e] :
                t \in PoolBg, u \in 0..MaxBad, d \in 0..MaxDel, o \in OtherBg, v \in 0..MaxBad, e \in 0..MaxDel}
Init == /\ now = 0 /\ claim = [c \in Claims |-> InitClaim(c)] /\ node = [c \in Claims |-> InitNode(c)]
        /\ listed = {Attr[c].pid : c \in {x \in Claims : Attr[x].reg}}
        /\ bg \in {b \in BgChoices : b.pd <= b.pu /\ b.pu <= b.pt /\ b.od <= b.ou /\ b.ou <= b.ot}
        /\ budget = [faults |-> 0, env |-> 0] /\ last = NoLast
        /\ h = << [a |-> "Init", pt |-> bg.pt, pu |-> bg.pu, pd |-> bg.pd, ot |-> bg.ot, ou |-> bg.ou, od |-> bg.od] >>

\* the Nodes in the store, name -> record
BgIdx == [k \in {BgPNames[i] : i \in DOMAIN BgPNames} \cup {BgONames[i] : i \in DOMAIN BgONames} |->
            IF \E i \in DOMAIN BgPNames : BgPNames[i] = k THEN CHOOSE i \in DOMAIN BgPNames : BgPNames[i] = k
            ELSE CHOOSE i \in DOMAIN BgONames : BgONames[i] = k]
NodeOwner == [k \in {Attr[c].node : c \in Claims} |-> CHOOSE c \in Claims : Attr[c].node = k]
BgFun(names, pool, t, u, d) == [k \in {names[i] : i \in 1..t} |->
                                 MkNode(k, k, pool, "True", 0, IF BgIdx[k] <= u THEN "True" ELSE "False", 0, BgIdx[k] <= d)]
AllNodes == [k \in {Attr[c].node : c \in {x \in Claims : node[x].exists}} |-> node[NodeOwner[k]]]
            @@ BgFun(BgPNames, "p", bg.pt, bg.pu, bg.pd) @@ BgFun(BgONames, "", bg.ot, bg.ou, bg.od)

Hist(e) == h' = Append(h, e)
Fault(f) == f = "none" \/ budget.faults < MaxFaults
Acts(effect) == effect \/ Len(h) % NoopEvery = 0
Spend(f) == budget' = IF f = "none" THEN budget ELSE [budget EXCEPT !.faults = @ + 1]
EnvStep == budget.env < MaxEnv /\ budget' = [budget EXCEPT !.env = @ + 1] /\ last' = NoLast
MarkDeleted(S) == claim' = [c \in Claims |-> IF c \in S THEN [claim[c] EXCEPT !.deleting = TRUE] ELSE claim[c]]
\* the kind of a failure matters only for reads (and only to a mechanism that looks at it)
KindOk(f, k, reads) == k = "generic" \/ f \in reads
AsEmpty(call, k) == k = "notfound" /\ call \in NotFoundAsEmpty

\* ---------------------------------------------------------------- controllers
\* nodeclaim.expiration: no reads beyond the object handed to the reconcile; Delete; Sleep(1s)
Expire(c, f) ==
    LET cl == claim[c]
        due == (ExpireNever = "ignore" \/ cl.expireAfter >= 0) /\ Clock("expire") + ExpireSlack >= Ms(cl.created + cl.expireAfter)
        act == cl.exists /\ ~cl.deleting /\ due
        ok == act /\ f # "delete"
    IN /\ cl.exists /\ f \in {"none", "delete"} /\ (f = "none" \/ act) /\ Fault(f) /\ Spend(f) /\ Acts(act)
       /\ MarkDeleted(IF ok THEN {c} ELSE {})
       /\ now' = IF ok THEN now + 1000 ELSE now
       /\ last' = IF ok THEN [actor |-> "expire", ok |-> G_C16_Expiration(cl, now)] ELSE NoLast
       /\ UNCHANGED <<node, listed, bg>>
       /\ Hist([a |-> "Expire", c |-> c, f |-> f, del |-> IF ok THEN {c} ELSE {}])

\* nodeclaim.garbagecollection: list NodeClaims, provider List, per candidate a Node lookup by provider id, Delete.
\* lf = the candidates whose Node lookup fails; k = the kind of the failing read(s).
\* mid = one environment step that happens BETWEEN the two listing reads of the pass (a schedule; "none" = the pass is
\* atomic): the first listing is answered from the state before it, everything else from the state after it.
MidNone == [a |-> "none"]
MidSteps == {MidNone} \cup {[a |-> "InstanceVanishes", c |-> c] : c \in Claims} \cup {[a |-> "UserDelete", c |-> c] : c \in Claims}
            \cup {[a |-> "NodeGone", c |-> c] : c \in Claims}
            \cup {[a |-> "Join", c |-> c, s |-> st] : c \in Claims, st \in ReadyVals}
            \cup {[a |-> "NodeReady", c |-> c, s |-> st] : c \in Claims, st \in ReadyVals}
JoinedClaim(c) == [claim[c] EXCEPT !.launched = "True", !.registered = "True", !.providerID = Attr[c].pid,
                                   !.condSince = [Launched |-> Stamp, Registered |-> Stamp]]
JoinedNode(c, st) == MkNode(Attr[c].node, Attr[c].pid, Attr[c].pool, st, Stamp, "False", Stamp, FALSE)
CanJoin(c) == claim[c].exists /\ ~claim[c].deleting /\ claim[c].launched # "True"
MidEnabled(m) ==
    \/ m.a = "none"
    \/ (m.a = "InstanceVanishes" /\ claim[m.c].providerID \in listed)
    \/ (m.a = "UserDelete" /\ claim[m.c].exists /\ ~claim[m.c].deleting)
    \/ (m.a = "NodeGone" /\ node[m.c].exists)
    \/ (m.a = "Join" /\ CanJoin(m.c))
    \/ (m.a = "NodeReady" /\ node[m.c].exists /\ node[m.c].ready # m.s)
\* the state after the mid step, as a record [claim, node, listed]
AfterMid(m) ==
    [claim |-> IF m.a = "UserDelete" THEN [claim EXCEPT ![m.c].deleting = TRUE]
               ELSE IF m.a = "Join" THEN [claim EXCEPT ![m.c] = JoinedClaim(m.c)] ELSE claim,
     node |-> IF m.a = "NodeGone" THEN [node EXCEPT ![m.c] = NoNode]
              ELSE IF m.a = "Join" THEN [node EXCEPT ![m.c] = JoinedNode(m.c, m.s)]
              ELSE IF m.a = "NodeReady" THEN [node EXCEPT ![m.c] = [@ EXCEPT !.ready = m.s, !.conds.Ready = m.s, !.condSince.Ready = Stamp]]
              ELSE node,
     listed |-> IF m.a = "InstanceVanishes" THEN listed \ {claim[m.c].providerID}
                ELSE IF m.a = "Join" THEN listed \cup {Attr[m.c].pid} ELSE listed]
NodesOfState(nd) == [n \in {Attr[c].node : c \in {x \in Claims : nd[x].exists}} |-> nd[NodeOwner[n]]]
                    @@ BgFun(BgPNames, "p", bg.pt, bg.pu, bg.pd) @@ BgFun(BgONames, "", bg.ot, bg.ou, bg.od)
Gc(f, lf, k, mid) ==
    LET S1 == AfterMid(mid)
        \* which state answers which read
        claimsAt == IF GcReadOrder = "claimsFirst" THEN claim ELSE S1.claim
        listedAt == IF GcReadOrder = "claimsFirst" THEN S1.listed ELSE listed
        provCont == GcOnProvListError = "continue" \/ AsEmpty("provList", k)
        abort == f = "claimList" \/ (f = "provList" /\ ~provCont)
        seen == IF f = "provList" THEN {} ELSE listedAt
        cands == {c \in Claims : claimsAt[c].exists /\ claimsAt[c].registered = "True" /\ ~claimsAt[c].deleting
                                 /\ claimsAt[c].providerID \notin seen}
        all == NodesOfState(S1.node)
        nodeReady(c) == \E n \in DOMAIN all : all[n].providerID = claimsAt[c].providerID /\ all[n].ready = "True"
        del == IF abort THEN {}
               ELSE {c \in cands : IF c \in lf THEN (GcOnLookupError = "delete" \/ AsEmpty("nodeLookup", k))
                                   ELSE (GcReady = "ignore" \/ ~nodeReady(c))}
        delOk == IF f = "delete" THEN {} ELSE del
        \* effective deletes: the claim is still there and not yet deleting when the Delete arrives
        eff == {c \in delOk : S1.claim[c].exists /\ ~S1.claim[c].deleting}
    IN /\ f \in {"none", "claimList", "provList", "delete"}
       /\ MidEnabled(mid)
       /\ (mid.a # "none" => (f = "none" /\ lf = {} /\ budget.env < MaxEnv))
       /\ (lf # {} => (f \in {"none", "delete"} /\ lf \subseteq cands))
       /\ (k = "generic" \/ f \in {"claimList", "provList"} \/ lf # {})
       /\ (f = "delete" => del # {})
       /\ Acts(del # {} \/ f # "none" \/ lf # {} \/ mid.a # "none")
       /\ ((f = "none" /\ lf = {}) \/ budget.faults < MaxFaults)
       /\ budget' = [faults |-> IF f = "none" /\ lf = {} THEN budget.faults ELSE budget.faults + 1,
                     env |-> IF mid.a = "none" THEN budget.env ELSE budget.env + 1]
       /\ claim' = [c \in Claims |-> IF c \in eff THEN [S1.claim[c] EXCEPT !.deleting = TRUE] ELSE S1.claim[c]]
       /\ node' = S1.node /\ listed' = S1.listed
       \* the provider no longer lists the instance: it was absent from the listing the pass read AND it is absent now
       /\ last' = IF eff = {} THEN NoLast
                  ELSE [actor |-> "gc",
                        ok |-> \A c \in eff : G_C16_GarbageCollection(S1.claim[c], f # "provList", listedAt \cup S1.listed,
                                                                     c \notin lf, all)]
       /\ UNCHANGED <<now, bg>>
       /\ Hist([a |-> "Gc", f |-> f, lf |-> lf, k |-> k, mid |-> mid, del |-> eff])

\* nodeclaim.lifecycle on a launched claim: the initialization step (a Registered claim whose Node is Ready becomes
\* Initialized), then the liveness check (bound through Lifecycle.tla's driver as well): Get NodePool, Delete.
\* The NodePool Get only feeds the pool's health condition: a NotFound answer is ignored, any other error ends the reconcile.
\* (The harness runs this controller with a clock whose Sleep returns at once, so the reconcile does not move time.)
Live(c, f, k) ==
    LET cl0 == claim[c]
        nd == node[c]
        canInit == cl0.registered = "True" /\ cl0.initialized # "True" /\ nd.exists /\ nd.ready = "True"
        cl == IF canInit THEN [cl0 EXCEPT !.initialized = "True"] ELSE cl0
        ready == cl.launched = "True" /\ cl.registered = "True" /\ cl.initialized = "True"
        gate == IF LiveGate = "registered" THEN cl.registered = "True" ELSE ready
        lDue == cl.launched # "True" /\ Clock("live") + LiveSlack >= Ms(cl.condSince.Launched + LT)
        rDue == cl.launched = "True" /\ Clock("live") + LiveSlack >= Ms(cl.condSince.Registered + RT)
        act == cl.exists /\ ~cl.deleting /\ ~gate /\ (lDue \/ rDue)
        ok == act /\ (f = "none" \/ (f = "poolGet" /\ k = "notfound"))
    IN /\ cl.exists /\ ~cl.deleting
       /\ f \in {"none", "poolGet", "delete"} /\ KindOk(f, k, {"poolGet"})
       /\ (f = "none" \/ act) /\ Fault(f) /\ Spend(f) /\ Acts(act \/ canInit)
       /\ claim' = [claim EXCEPT ![c] = [cl EXCEPT !.deleting = @ \/ ok]]
       /\ last' = IF ok THEN [actor |-> "live", ok |-> G_C16_LivenessMs(cl, now, LT, RT)] ELSE NoLast
       /\ UNCHANGED <<now, node, listed, bg>>
       /\ Hist([a |-> "Live", c |-> c, f |-> f, k |-> k, del |-> IF ok THEN {c} ELSE {}])

\* node.health: NodeClaim lookup by provider id, unhealthy condition + toleration, node List of the pool / cluster,
\* termination-timestamp annotation patch (RFC3339: whole seconds), Delete of the NodeClaim
MatchIdx(n) == {i \in DOMAIN Policies : Matches(n, Policies[i])}
TermTime(n, i) == n.condSince[Policies[i].type] + Policies[i].toleration
Repair(c, f, k) ==
    LET n == node[c]
        cl == claim[c]
        found == cl.exists /\ cl.providerID = n.providerID
        m == MatchIdx(n)
        \* the matching policy whose toleration elapses first
        pick == CHOOSE i \in m : \A j \in m : TermTime(n, i) <= TermTime(n, j)
        tol == IF RepairTolBy = "policy" THEN Policies[pick].toleration
               ELSE Policies[Min({j \in DOMAIN Policies : Policies[j].type = Policies[pick].type})].toleration
        due == m # {} /\ Clock("repair") + RepairSlack >= Ms(n.condSince[Policies[pick].type] + tol)
        all == AllNodes
        scope == IF RepairScope = "cluster" \/ ~HasPool(cl) THEN DOMAIN all
                 ELSE {x \in DOMAIN all : HasPool(all[x]) /\ all[x].labels[PoolKey] = cl.labels[PoolKey]}
        listCont == RepairOnListError = "continue" \/ AsEmpty("nodeList", k)
        seen == IF f = "nodeList" THEN {} ELSE scope
        bad == Cardinality({x \in seen : Unhealthy(all[x], Policies) /\ (RepairTerminating = "count" \/ ~all[x].deleting)})
        thr == ((20 * Cardinality(seen) + 99) \div 100) + RepairExtra
        s1 == f # "claimList" /\ found /\ due
        short == RepairAnnotated = "shortcut" /\ cl.terminationAt >= 0
        s2 == s1 /\ (short \/ ((f # "nodeList" \/ listCont) /\ bad <= thr))
        needPatch == ~(cl.terminationAt >= 0 /\ Ms(cl.terminationAt) < now) /\ cl.terminationAt # Stamp
        annotate == s2 /\ needPatch /\ f # "annotate"
        s3 == s2 /\ ~(needPatch /\ f = "annotate")
        del == s3 /\ ~cl.deleting /\ f # "delete"
    IN /\ n.exists /\ f \in {"none", "claimList", "nodeList", "annotate", "delete"} /\ KindOk(f, k, {"claimList", "nodeList"})
       /\ Fault(f) /\ Spend(f)
       /\ (f = "nodeList" => found /\ due)
       /\ (f = "annotate" => s2 /\ needPatch)
       /\ (f = "delete" => s3 /\ ~cl.deleting)
       /\ Acts(s1 \/ f # "none")
       /\ claim' = [claim EXCEPT ![c] = [@ EXCEPT !.terminationAt = IF annotate THEN Stamp ELSE @,
                                                   !.deleting = @ \/ del]]
       /\ last' = IF del THEN [actor |-> "repair", ok |-> G_C16_Repair(cl, n, now, Policies, all)] ELSE NoLast
       /\ UNCHANGED <<now, node, listed, bg>>
       /\ Hist([a |-> "Repair", c |-> c, f |-> f, k |-> k, del |-> IF del THEN {c} ELSE {}])

\* ---------------------------------------------------------------- environment
\* pending deadlines, in milliseconds
Deadlines ==
    {Ms(claim[c].created + claim[c].expireAfter) : c \in {x \in Claims : claim[x].exists /\ ~claim[x].deleting /\ claim[x].expireAfter >= 0}}
    \cup UNION {{Ms(TermTime(node[c], i)) : i \in MatchIdx(node[c])} : c \in {x \in Claims : node[x].exists}}
    \cup UNION {{Ms(claim[c].condSince.Launched + LT), Ms(claim[c].condSince.Registered + RT)} :
                c \in {x \in Claims : claim[x].exists /\ ~claim[x].deleting
                                       /\ ~(claim[x].registered = "True" /\ claim[x].initialized = "True")}}
Tick(to) == /\ to > now /\ to <= Ms(MaxNow)
            /\ now' = to /\ last' = NoLast
            /\ UNCHANGED <<claim, node, listed, bg, budget>>
            /\ Hist([a |-> "Tick", tms |-> to])

InstanceVanishes(c) ==
    /\ claim[c].providerID \in listed /\ listed' = listed \ {claim[c].providerID} /\ EnvStep
    /\ UNCHANGED <<now, claim, node, bg>> /\ Hist([a |-> "InstanceVanishes", c |-> c])
NodeReady(c, s) ==
    /\ node[c].exists /\ node[c].ready # s /\ EnvStep
    /\ node' = [node EXCEPT ![c] = [@ EXCEPT !.ready = s, !.conds.Ready = s, !.condSince.Ready = Stamp]]
    /\ UNCHANGED <<now, claim, listed, bg>> /\ Hist([a |-> "NodeReady", c |-> c, s |-> s])
DiskBad(c, s) ==
    /\ node[c].exists /\ node[c].conds.BadDisk # s /\ EnvStep
    /\ node' = [node EXCEPT ![c] = [@ EXCEPT !.conds.BadDisk = s, !.condSince.BadDisk = Stamp]]
    /\ UNCHANGED <<now, claim, listed, bg>> /\ Hist([a |-> "DiskBad", c |-> c, s |-> s])
NodeGone(c) ==
    /\ node[c].exists /\ EnvStep /\ node' = [node EXCEPT ![c] = NoNode]
    /\ UNCHANGED <<now, claim, listed, bg>> /\ Hist([a |-> "NodeGone", c |-> c])
\* the Node of a claim that is being deleted gets deleted in turn (lifecycle finalize) and lingers, terminating, behind
\* its finalizer while it drains
NodeTerminating(c) ==
    /\ node[c].exists /\ ~node[c].deleting /\ claim[c].deleting /\ EnvStep
    /\ node' = [node EXCEPT ![c] = [@ EXCEPT !.deleting = TRUE]]
    /\ UNCHANGED <<now, claim, listed, bg>> /\ Hist([a |-> "NodeTerminating", c |-> c])
\* another node of the pool ("p") / outside it ("o") turns unhealthy (d = 1), recovers (d = -1), or - unhealthy and
\* repaired in an earlier wave - is now terminating (d = 0)
BgFlip(sc, d) ==
    /\ EnvStep
    /\ \/ (sc = "p" /\ d # 0 /\ bg.pu + d \in bg.pd..bg.pt /\ bg' = [bg EXCEPT !.pu = @ + d])
       \/ (sc = "o" /\ d # 0 /\ bg.ou + d \in bg.od..bg.ot /\ bg' = [bg EXCEPT !.ou = @ + d])
       \/ (sc = "p" /\ d = 0 /\ bg.pd < bg.pu /\ bg' = [bg EXCEPT !.pd = @ + 1])
       \/ (sc = "o" /\ d = 0 /\ bg.od < bg.ou /\ bg' = [bg EXCEPT !.od = @ + 1])
    /\ UNCHANGED <<now, claim, node, listed>> /\ Hist([a |-> "BgFlip", sc |-> sc, d |-> d])
UserDelete(c) ==
    /\ claim[c].exists /\ ~claim[c].deleting /\ EnvStep /\ MarkDeleted({c})
    /\ UNCHANGED <<now, node, listed, bg>> /\ Hist([a |-> "UserDelete", c |-> c])
\* someone else (a user, another controller) stamps the termination-timestamp annotation on the claim
EnvAnnotate(c) ==
    /\ claim[c].exists /\ claim[c].terminationAt < 0 /\ EnvStep
    /\ claim' = [claim EXCEPT ![c].terminationAt = Stamp]
    /\ UNCHANGED <<now, node, listed, bg>> /\ Hist([a |-> "Annotate", c |-> c])
\* launch / registration progress of an unregistered claim (lifecycle controller + kubelet, abstracted)
EnvLaunched(c) ==
    /\ claim[c].exists /\ ~claim[c].deleting /\ claim[c].launched # "True" /\ EnvStep
    /\ claim' = [claim EXCEPT ![c] = [@ EXCEPT !.launched = "True", !.providerID = Attr[c].pid, !.condSince.Launched = Stamp]]
    /\ listed' = listed \cup {Attr[c].pid}
    /\ UNCHANGED <<now, node, bg>> /\ Hist([a |-> "Launched", c |-> c])
\* the kubelet registers the Node (reporting Ready status s) and the lifecycle controller marks the claim Registered
EnvRegistered(c, st) ==
    /\ claim[c].exists /\ ~claim[c].deleting /\ claim[c].launched = "True" /\ claim[c].registered # "True" /\ EnvStep
    /\ claim' = [claim EXCEPT ![c] = [@ EXCEPT !.registered = "True", !.condSince.Registered = Stamp]]
    /\ node' = [node EXCEPT ![c] = JoinedNode(c, st)]
    /\ UNCHANGED <<now, listed, bg>> /\ Hist([a |-> "Registered", c |-> c, s |-> st])
\* launch and registration in one go
EnvJoin(c, st) ==
    /\ CanJoin(c) /\ EnvStep
    /\ claim' = [claim EXCEPT ![c] = JoinedClaim(c)] /\ node' = [node EXCEPT ![c] = JoinedNode(c, st)]
    /\ listed' = listed \cup {Attr[c].pid}
    /\ UNCHANGED <<now, bg>> /\ Hist([a |-> "Join", c |-> c, s |-> st])
\* the reapers keep no in-memory state: a restart re-instantiates the controllers
Restart == /\ EnvStep /\ UNCHANGED <<now, claim, node, listed, bg>> /\ Hist([a |-> "Restart"])

\* one named disjunct per action, so that TLC's coverage reports each of them
Bound == Len(h) < MaxLen
DoExpire == Bound /\ \E c \in Claims, f \in {"none", "delete"} : Expire(c, f)
DoGc == Bound /\ \E f \in {"none", "claimList", "provList", "delete"}, lf \in {{}} \cup {{c} : c \in Claims} \cup {Claims}, k \in Kinds,
                     mid \in MidSteps : Gc(f, lf, k, mid)
DoLive == Bound /\ \E c \in Claims, f \in {"none", "poolGet", "delete"}, k \in Kinds : Live(c, f, k)
DoRepair == Bound /\ \E c \in Claims, f \in {"none", "claimList", "nodeList", "annotate", "delete"}, k \in Kinds : Repair(c, f, k)
DoTick == Bound /\ \E d \in Deadlines, o \in Offsets : Tick(d + o)
DoInstanceVanishes == Bound /\ \E c \in Claims : InstanceVanishes(c)
DoNodeGone == Bound /\ \E c \in Claims : NodeGone(c)
DoNodeTerminating == Bound /\ \E c \in Claims : NodeTerminating(c)
DoUserDelete == Bound /\ \E c \in Claims : UserDelete(c)
DoAnnotate == Bound /\ \E c \in Claims : EnvAnnotate(c)
DoLaunched == Bound /\ \E c \in Claims : EnvLaunched(c)
DoRegistered == Bound /\ \E c \in Claims, st \in ReadyVals : EnvRegistered(c, st)
DoJoin == Bound /\ \E c \in Claims, st \in ReadyVals : EnvJoin(c, st)
DoNodeReady == Bound /\ \E c \in Claims, s \in ReadyVals : NodeReady(c, s)
DoDiskBad == Bound /\ \E c \in Claims, s \in {"True", "False"} : DiskBad(c, s)
DoBgFlip == Bound /\ \E sc \in {"p", "o"}, d \in {-1, 0, 1} : BgFlip(sc, d)
DoRestart == Bound /\ Restart
Next == DoExpire \/ DoGc \/ DoLive \/ DoRepair \/ DoTick \/ DoInstanceVanishes \/ DoNodeGone \/ DoNodeTerminating \/ DoUserDelete \/ DoAnnotate
        \/ DoLaunched \/ DoRegistered \/ DoJoin \/ DoNodeReady \/ DoDiskBad \/ DoBgFlip \/ DoRestart
Spec == Init /\ [][Next]_vars

\* ---------------------------------------------------------------- properties of the closed model
TypeOK == /\ now \in 0..Ms(MaxNow + MaxLen) /\ listed \subseteq {"i1", "i2", "i3"}
          /\ bg.pd \in 0..bg.pu /\ bg.pu \in 0..bg.pt /\ bg.od \in 0..bg.ou /\ bg.ou \in 0..bg.ot
          /\ \A c \in Claims : claim[c].registered \in {"True", "Unknown"} /\ claim[c].expireAfter \in {-1, EA}
\* every delete a reaper performs happens on its documented trigger (guard evaluated on the state before the delete)
Inv_C16_Expiration == last.actor = "expire" => last.ok
Inv_C16_GarbageCollection == last.actor = "gc" => last.ok
Inv_C16_Liveness == last.actor = "live" => last.ok
Inv_C16_Repair == last.actor = "repair" => last.ok
\* a claim whose expiry is disabled and whose node is healthy, Ready and listed is never reaped
Act_C16_NoTriggerNoReap ==
    [][ \A c \in Claims :
          (h' # h /\ h'[Len(h')].a \in {"Expire", "Gc", "Live", "Repair"} /\ c \in h'[Len(h')].del)
          => \/ (claim[c].expireAfter >= 0 /\ now >= Ms(claim[c].created + claim[c].expireAfter))
             \/ claim'[c].registered # "True"
             \/ claim'[c].providerID \notin listed'     \* (a pass with a mid step: the state the delete was issued in)
             \/ (node'[c].exists /\ Unhealthy(node'[c], Policies)) ]_vars

GenPrint == (Len(h) < MaxLen /\ ENABLED Next) \/ PrintT(<<"BEH", ToJson(h)>>)
=============================================================================
