--------------------------- MODULE DisruptionCond ---------------------------
(***************************************************************************)
(* The Consolidatable condition of a NodeClaim (second half of C07):       *)
(* consolidation requires Consolidatable = True, and the nodeclaim         *)
(* disruption controller may write True only once consolidateAfter has     *)
(* elapsed since the last pod event (since initialization when no pod      *)
(* event was recorded), on an initialized NodeClaim of a dynamic pool with *)
(* consolidation enabled.                                                  *)
(*                                                                         *)
(* One NodeClaim; logical time in seconds.  Actions = linearization points:*)
(*   Tick(d)    the clock advances                                         *)
(*   PodEvent   the podevents controller stamps status.lastPodEventTime    *)
(*              (de-duplicated: not within Dedupe seconds of the last one) *)
(*   Reconcile  the nodeclaim disruption controller sets / clears the      *)
(*              condition; its enabling rule is G_C07_Consolidatable       *)
(* Ghosts wAt/wLpe remember the instant and the pod-event stamp of the     *)
(* last write of True, so the invariant can state the property at the      *)
(* write.  TLC enumerates the behaviours (clock at T-1 / T / T+1 around    *)
(* the threshold); each is replayed on the real controllers.               *)
(***************************************************************************)
EXTENDS DisruptionGuards, Json

CONSTANTS MaxNow, MaxLen, MaxEdits, Dedupe, VD, WeakC

\* ca: the pool's CURRENT consolidateAfter (-1 = Never), edited by the operator at any time; wAt / wLpe / wCa: instant,
\* pod-event stamp and consolidateAfter at the last write that turned the condition True; fresh: the nodeclaim disruption
\* controller has reconciled since the last relevant change (pod event stamped, pool edited) - before that the condition
\* may lag behind, which the statement does not exclude; decs: decisions of a consolidation method on this node
VARIABLES ca, static, initAt, now, lpe, cond, wAt, wLpe, wCa, fresh, edits, decs, h, wk
vars == <<ca, static, initAt, now, lpe, cond, wAt, wLpe, wCa, fresh, edits, decs, h, wk>>
view == <<ca, static, initAt, now, lpe, cond, wAt, wLpe, wCa, fresh, edits, decs, wk>>
AllWeakC == {"offByOne", "ignorePodEvent", "static", "stickyTrue"}
\* consolidateAfter values: Never, 0, and two that exceed the validation delay (a command is judged when it is issued,
\* VD seconds after the candidates were computed - a shorter window would always have elapsed by then)
CAs == {-1, 0, 20, 40}

Init == /\ wk \in (IF WeakC = "*" THEN AllWeakC ELSE {WeakC})
        /\ ca \in {-1, 0, 20} /\ static \in BOOLEAN /\ initAt \in {-1, 0}
        /\ now = 0 /\ lpe = -1 /\ cond = "Absent" /\ wAt = -1 /\ wLpe = -1 /\ wCa = -1 /\ fresh = FALSE /\ edits = 0
        /\ decs = {} /\ h = <<[a |-> "Init", d |-> ca]>>     \* the history starts with the initial consolidateAfter

Tick(d) == /\ now + d <= MaxNow /\ now' = now + d /\ h' = Append(h, [a |-> "Tick", d |-> d])
           /\ UNCHANGED <<ca, static, initAt, lpe, cond, wAt, wLpe, wCa, fresh, edits, decs, wk>>

\* the podevents controller stamps lastPodEventTime = now unless the previous stamp is younger than Dedupe seconds
PodEvent == /\ initAt >= 0     \* pods bind to initialized nodes
            /\ LET stamp == lpe < 0 \/ now - lpe >= Dedupe IN
               /\ lpe' = IF stamp THEN now ELSE lpe
               /\ fresh' = IF stamp THEN FALSE ELSE fresh
            /\ h' = Append(h, [a |-> "PodEvent", d |-> 0])
            /\ UNCHANGED <<ca, static, initAt, now, cond, wAt, wLpe, wCa, edits, decs, wk>>

\* the operator edits the pool's consolidateAfter (raise, lower, Never, back)
EditCA(c) == /\ c # ca /\ edits < MaxEdits /\ ca' = c /\ edits' = edits + 1 /\ fresh' = FALSE
             /\ h' = Append(h, [a |-> "EditCA", d |-> c])
             /\ UNCHANGED <<static, initAt, now, lpe, cond, wAt, wLpe, wCa, decs, wk>>

Rule == IF wk = "offByOne"
          THEN ~static /\ ca >= 0 /\ initAt >= 0 /\ now - ConsolidatableRef(lpe, initAt) >= ca - 1
        ELSE IF wk = "ignorePodEvent"
          THEN ~static /\ ca >= 0 /\ initAt >= 0 /\ now - initAt >= ca
        ELSE IF wk = "static"
          THEN ca >= 0 /\ initAt >= 0 /\ now - ConsolidatableRef(lpe, initAt) >= ca
        ELSE G_C07_Consolidatable(now, lpe, initAt >= 0, initAt, TRUE, static, ca)
\* spec mutation "stickyTrue": an already-True condition is kept unless a pod event is stamped strictly after its
\* transition instant (so a raised consolidateAfter, or a pod event in the very second of the transition, goes unnoticed)
Keep == wk = "stickyTrue" /\ cond = "True" /\ ~static /\ ca >= 0 /\ initAt >= 0 /\ ~(lpe > wAt)
NewCond == IF Keep THEN cond ELSE IF Rule THEN "True" ELSE "Absent"

Reconcile == /\ cond' = NewCond
             /\ wAt' = IF NewCond = "True" /\ cond # "True" THEN now ELSE wAt
             /\ wLpe' = IF NewCond = "True" /\ cond # "True" THEN lpe ELSE wLpe
             /\ wCa' = IF NewCond = "True" /\ cond # "True" THEN ca ELSE wCa
             /\ fresh' = TRUE
             /\ h' = Append(h, [a |-> "Reconcile", d |-> 0])
             /\ UNCHANGED <<ca, static, initAt, now, lpe, edits, decs, wk>>

\* a consolidation method (emptiness / single / multi) looks at the node: it trusts the condition.  A candidate's command
\* is validated and issued VD seconds later (nothing else happens meanwhile here); it is judged at that instant
Decide == LET candidate == cond = "True" /\ ~static /\ ca >= 0
              t == now + VD IN
          /\ decs' = IF candidate
                     THEN decs \cup {[fresh |-> fresh,
                                      just |-> G_C07_Consolidatable(t, lpe, initAt >= 0, initAt, TRUE, static, ca)]}
                     ELSE decs
          /\ now' = IF candidate THEN t ELSE now
          /\ h' = Append(h, [a |-> "Decide", d |-> 0])
          /\ UNCHANGED <<ca, static, initAt, lpe, cond, wAt, wLpe, wCa, fresh, edits, wk>>

Bounded == Len(h) < MaxLen
TickOne == Bounded /\ Tick(1)
TickFar == Bounded /\ Tick(Dedupe - 1)
TickWindow == Bounded /\ Tick(20)
PodEventB == Bounded /\ PodEvent
ReconcileB == Bounded /\ Reconcile
EditB == Bounded /\ \E c \in CAs : EditCA(c)
DecideB == Bounded /\ Decide
Next == TickOne \/ TickFar \/ TickWindow \/ PodEventB \/ ReconcileB \/ EditB \/ DecideB
Spec == Init /\ [][Next]_vars

\* the statement at the write: consolidateAfter (as it was then) had elapsed since the last pod event known at that instant
Inv_C07_ConsolidatableJustified ==
    cond = "True" => /\ wCa >= 0 /\ ~static /\ initAt >= 0
                     /\ wAt - (IF wLpe >= 0 THEN wLpe ELSE initAt) >= wCa
\* ... and at the decision: once the controller has reconciled after the last pod event / pool edit, a node a consolidation
\* method selects has really seen the pool's CURRENT consolidateAfter elapse since its last pod event
Inv_C07_DecisionJustified == \A d \in decs : d.fresh => d.just
TypeOK == cond \in {"Absent", "True"} /\ now >= 0
WeakDetect == (Inv_C07_ConsolidatableJustified /\ Inv_C07_DecisionJustified) \/ PrintT(<<"REJ", wk>>)

GenPrint == (Len(h) < MaxLen /\ ENABLED Next)
            \/ PrintT(<<"BEH", ToJson([ca |-> h[1].d, static |-> static, inited |-> initAt >= 0, steps |-> h])>>)
=============================================================================
