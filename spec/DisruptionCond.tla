--------------------------- MODULE DisruptionCond ---------------------------
(***************************************************************************)
(* The Consolidatable condition of a NodeClaim (second half of C07):       *)
(* consolidation requires Consolidatable = True, and the nodeclaim         *)
(* disruption controller may write True only once consolidateAfter has     *)
(* elapsed since the last pod event (since initialization when no pod      *)
(* event was recorded), on an initialized NodeClaim of a dynamic pool with *)
(* consolidation enabled.                                                  *)
(*                                                                         *)
(* One NodeClaim; logical time in seconds.  Actions = linearization points:*)
(*   Tick(d)    the clock advances                                         *)
(*   PodEvent   the podevents controller stamps status.lastPodEventTime    *)
(*              (de-duplicated: not within Dedupe seconds of the last one) *)
(*   Reconcile  the nodeclaim disruption controller sets / clears the      *)
(*              condition; its enabling rule is G_C07_Consolidatable       *)
(* Ghosts wAt/wLpe remember the instant and the pod-event stamp of the     *)
(* last write of True, so the invariant can state the property at the      *)
(* write.  TLC enumerates the behaviours (clock at T-1 / T / T+1 around    *)
(* the threshold); each is replayed on the real controllers.               *)
(***************************************************************************)
EXTENDS DisruptionGuards, Json

CONSTANTS MaxNow, MaxLen, Dedupe, WeakC

VARIABLES ca, static, initAt, now, lpe, cond, wAt, wLpe, h, wk
vars == <<ca, static, initAt, now, lpe, cond, wAt, wLpe, h, wk>>
view == <<ca, static, initAt, now, lpe, cond, wAt, wLpe, wk>>
AllWeakC == {"offByOne", "ignorePodEvent", "static"}

Init == /\ wk \in (IF WeakC = "*" THEN AllWeakC ELSE {WeakC})
        /\ ca \in {-1, 0, 2} /\ static \in BOOLEAN /\ initAt \in {-1, 0}
        /\ now = 0 /\ lpe = -1 /\ cond = "Absent" /\ wAt = -1 /\ wLpe = -1 /\ h = <<>>

Tick(d) == /\ now + d <= MaxNow /\ now' = now + d /\ h' = Append(h, [a |-> "Tick", d |-> d])
           /\ UNCHANGED <<ca, static, initAt, lpe, cond, wAt, wLpe, wk>>

PodEvent == /\ initAt >= 0     \* pods bind to initialized nodes
            /\ lpe' = IF lpe < 0 \/ now - lpe >= Dedupe THEN now ELSE lpe
            /\ h' = Append(h, [a |-> "PodEvent", d |-> 0])
            /\ UNCHANGED <<ca, static, initAt, now, cond, wAt, wLpe, wk>>

Rule == IF wk = "offByOne"
          THEN ~static /\ ca >= 0 /\ initAt >= 0 /\ now - ConsolidatableRef(lpe, initAt) >= ca - 1
        ELSE IF wk = "ignorePodEvent"
          THEN ~static /\ ca >= 0 /\ initAt >= 0 /\ now - initAt >= ca
        ELSE IF wk = "static"
          THEN ca >= 0 /\ initAt >= 0 /\ now - ConsolidatableRef(lpe, initAt) >= ca
        ELSE G_C07_Consolidatable(now, lpe, initAt >= 0, initAt, TRUE, static, ca)

Reconcile == /\ cond' = IF Rule THEN "True" ELSE "Absent"
             /\ wAt' = IF Rule /\ cond # "True" THEN now ELSE wAt
             /\ wLpe' = IF Rule /\ cond # "True" THEN lpe ELSE wLpe
             /\ h' = Append(h, [a |-> "Reconcile", d |-> 0])
             /\ UNCHANGED <<ca, static, initAt, now, lpe, wk>>

Bounded == Len(h) < MaxLen
TickOne == Bounded /\ Tick(1)
TickFar == Bounded /\ Tick(Dedupe - 1)
PodEventB == Bounded /\ PodEvent
ReconcileB == Bounded /\ Reconcile
Next == TickOne \/ TickFar \/ PodEventB \/ ReconcileB
Spec == Init /\ [][Next]_vars

\* the statement at the write: consolidateAfter had elapsed since the last pod event known at that instant
Inv_C07_ConsolidatableJustified ==
    cond = "True" => /\ ca >= 0 /\ ~static /\ initAt >= 0
                     /\ wAt - (IF wLpe >= 0 THEN wLpe ELSE initAt) >= ca
TypeOK == cond \in {"Absent", "True"} /\ now \in 0..MaxNow
WeakDetect == Inv_C07_ConsolidatableJustified \/ PrintT(<<"REJ", wk>>)

GenPrint == (Len(h) < MaxLen /\ ENABLED Next)
            \/ PrintT(<<"BEH", ToJson([ca |-> ca, static |-> static, inited |-> initAt >= 0, steps |-> h])>>)
=============================================================================
