\* spec mutation, overhead-only override (W_Avail = TRUE  W_Overhead = TRUE  W_Ports = TRUE  W_KeepTerm = TRUE  W_Override = FALSE  W_Refilter = TRUE  W_InitTaints = TRUE): TLC must violate Inv_C01_EveryLaunchOptionHostsItsPods
CONSTANTS NPods = 2  PodArchs = {2,5}  Catalogs = {5}  PoolSets = {1}  Existings = {0}  Daemons = {0}
CONSTANTS W_Avail = TRUE  W_Overhead = TRUE  W_Ports = TRUE  W_KeepTerm = TRUE  W_Override = FALSE  W_Refilter = TRUE  W_InitTaints = TRUE
SPECIFICATION Spec
INVARIANTS Inv_C01_NoOvercommit Inv_C01_EveryLaunchOptionHostsItsPods Inv_C01_RequiredTermNeverDropped
