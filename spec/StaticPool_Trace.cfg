SPECIFICATION TraceSpec
