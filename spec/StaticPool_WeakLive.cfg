\* pinned tree: the leaked reservation keeps the pool below spec.replicas for ever (liveness is not vacuous)
CONSTANTS N = 4  Pre = 1  Limit = 2  Replicas0 = 1  ScaleTo = {1, 2}  Budget = 1  CodeMode = "code"  Grain = "gate"
          MaxCreateFail = 0  MaxTaintFail = 1  MaxDelete = 0  MaxDrift = 1  MaxScale = 1  MaxTimeout = 0  MaxResync = 99  MaxFlip = 99  Record = "none"  MaxLen = 0
SPECIFICATION LiveSpec
INVARIANTS TypeOK
PROPERTIES Live_C03_Settles
