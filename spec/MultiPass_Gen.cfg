\* behaviour generation (history part of the state): used with -simulate for deep random behaviours and exhaustively to a small depth
CONSTANTS Catalogs = {1, 2, 3}  Limits = {0, 1, 2, 3, 4, 5}  Daemons = {0, 1}  Batches = {1, 2, 3, 4, 5, 6, 7}  Laters = {0, 1, 2, 3}
CONSTANTS MaxRounds = 3  MaxClaims = 3  MaxSteps = 12  AllowForeign = TRUE  Resyncs = {FALSE, TRUE}  EphForms = {1, 2, 3, 4, 5, 6, 7}  StForms = {0, 1, 2}
CONSTANTS W_NoSyncGate = FALSE  W_SubMin = FALSE  W_SubDominating = FALSE  W_StartupBlocks = FALSE  W_CountMarked = FALSE  W_ZeroSkips = FALSE
          W_NoZeroFallback = FALSE  W_DaemonTwice = FALSE  W_SyncBeforeBatch = FALSE  C_NodesPerPass = FALSE  C_OverrideBase = FALSE
SPECIFICATION Spec
INVARIANTS GenPrint
