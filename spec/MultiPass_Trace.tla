--------------------------- MODULE MultiPass_Trace ---------------------------
(***************************************************************************)
(* Trace validation for the multi-pass provisioning driver                  *)
(* (harness/drivers/multipass): properties C04 and C03 (dynamic pools).     *)
(* One trace = Cfg .. End.  Observed state comes from the log: the ground   *)
(* truth of every NodeClaim at the start of each pass (PassBegin.nodes,     *)
(* assembled from the API and the provider's instance table), the           *)
(* scheduler's decisions in commit order (Sched, hook H1), the NodeClaims a *)
(* pass stored with their launch options (Created), whether the pass ran    *)
(* (PassEnd) and the pool totals after every step (Totals).  Ghost state    *)
(* computed here: what this pass already assigned to each target, the       *)
(* NodeClaims it opened, each pod's latest nomination (`home`), the launch  *)
(* options of NodeClaims that have no instance yet.  Guards: see            *)
(* MultiPassGuards.tla; failures accumulate in `viol`.                      *)
(***************************************************************************)
EXTENDS MultiPassGuards, Json, IOUtils

VARIABLES l, st, viol, ntr, cnt, done
tvars == <<l, st, viol, ntr, cnt, done>>

Trace == ndJsonDeserialize(IOEnv.TRACE)
Ev == Trace[l]
V(guard, sig) == [line |-> l, guard |-> guard, sig |-> sig]
Chk(ok, guard, sig) == IF ok THEN <<>> ELSE <<V(guard, sig)>>
RECURSIVE Flat(_)
Flat(ss) == IF ss = <<>> THEN <<>> ELSE Head(ss) \o Flat(Tail(ss))

St0(cfg) == [cfg |-> cfg, nodes |-> <<>>, pending |-> <<>>, pools |-> <<>>, placed |-> {}, opens |-> <<>>, created |-> <<>>,
             home |-> {}, optsOf |-> {}, passOf |-> {}, ranNodes |-> <<>>, started |-> FALSE, inPass |-> FALSE, sameHome |-> FALSE, allHomed |-> FALSE, homeStage |-> "-", nopen |-> 0, nguard |-> 0]
Vs(guard, sigs) == [i \in DOMAIN sigs |-> V(guard, sigs[i])]

Cnt0 == [opens |-> 0, opensJudged |-> 0, commits |-> 0, passesRan |-> 0, idempotent |-> 0, creates |-> 0, totals |-> 0]
TraceInit == l = 1 /\ st = St0(<<>>) /\ viol = <<>> /\ ntr = 0 /\ cnt = Cnt0 /\ done = FALSE

cfg == st.cfg
TCfg == Ev.e = "Cfg" /\ st' = St0(Ev) /\ ntr' = ntr + 1 /\ UNCHANGED <<viol, cnt>>

NodeByClaim(nodes, c) == CHOOSE i \in DOMAIN nodes : nodes[i].claim = c
KnownClaim(nodes, c) == \E i \in DOMAIN nodes : nodes[i].claim = c
HomeOf(home, k) == (CHOOSE x \in home : x.p = k).c
HasHome(home, k) == \E x \in home : x.p = k
SetHome(home, keys, c) == {x \in home : x.p \notin keys} \cup {[p |-> k, c |-> c] : k \in keys}

(* Idempotence (derived form that follows from the statement): when every   *)
(* pod a pass has to place was nominated, by the latest pass that ran, to   *)
(* one and the same NodeClaim, and that NodeClaim is launched and not being *)
(* deleted, and no pod was bound to it since, the pass stores no NodeClaim  *)
(* - whatever lifecycle stage the NodeClaim is in.                          *)
\* nothing was bound to NodeClaim c since the latest pass that ran (ran = the ground truth at the start of that pass)
BoundThen(ran, c) == IF KnownClaim(ran, c) THEN Range(ran[NodeByClaim(ran, c)].bound) ELSE {}
NoNewBinding(nodes, ran, c) == Range(nodes[NodeByClaim(nodes, c)].bound) \subseteq BoundThen(ran, c)
SameHome(nodes, pending, home, ran) ==
    /\ pending # <<>>
    /\ \A i \in DOMAIN pending : HasHome(home, pending[i])
    /\ \A i, j \in DOMAIN pending : HomeOf(home, pending[i]) = HomeOf(home, pending[j])
    /\ LET h == HomeOf(home, pending[1]) IN KnownClaim(nodes, h) /\ Alive(nodes[NodeByClaim(nodes, h)]) /\ NoNewBinding(nodes, ran, h)
    /\ \A i \in DOMAIN pending : KnownPodMP(cfg, pending[i]) /\ Exact(cfg, PodOf(cfg, pending[i]))
    \* nothing else is being rescheduled (no pods on marked / deleting nodes)
    /\ \A i \in DOMAIN nodes : (nodes[i].marked \/ nodes[i].deleting) => nodes[i].bound = <<>>

(* Observation, never a verdict: every pending pod has a live home (possibly different ones), nothing else is being        *)
(* rescheduled, and the re-run still stores a NodeClaim - first-fit re-packing in a different node order (a node's sort  *)
(* name switches from the NodeClaim's to the Node's on registration).  The statement's first clause holds at that open.   *)
AllHomed(nodes, pending, home, ran) ==
    /\ pending # <<>>
    /\ \A i \in DOMAIN pending : HasHome(home, pending[i]) /\ KnownClaim(nodes, HomeOf(home, pending[i]))
                                   /\ Alive(nodes[NodeByClaim(nodes, HomeOf(home, pending[i]))])
                                   /\ NoNewBinding(nodes, ran, HomeOf(home, pending[i]))
    /\ \A i \in DOMAIN nodes : (nodes[i].marked \/ nodes[i].deleting) => nodes[i].bound = <<>>

TPassBegin ==
    /\ Ev.e = "PassBegin"
    /\ st' = [st EXCEPT !.nodes = Ev.nodes, !.pending = Ev.pending, !.pools = Ev.pools, !.placed = {}, !.opens = <<>>, !.created = <<>>,
                        !.started = FALSE, !.inPass = TRUE, !.sameHome = SameHome(Ev.nodes, Ev.pending, st.home, st.ranNodes), !.allHomed = AllHomed(Ev.nodes, Ev.pending, st.home, st.ranNodes),
                        !.homeStage = IF SameHome(Ev.nodes, Ev.pending, st.home, st.ranNodes)
                                      THEN Stage(Ev.nodes[NodeByClaim(Ev.nodes, HomeOf(st.home, Ev.pending[1]))]) ELSE "-"]
    /\ UNCHANGED <<viol, ntr, cnt>>

\* ---- scheduler decisions (hook H1)
OpenIdx(opens, t) == CHOOSE j \in DOMAIN opens : opens[j].target = t
IsOpen(opens, t) == \E j \in DOMAIN opens : opens[j].target = t
CommitExisting ==
    LET known == KnownClaim(st.nodes, Ev.target)
        n == st.nodes[NodeByClaim(st.nodes, Ev.target)]
        placed2 == st.placed \cup {[t |-> Ev.target, p |-> Ev.pod]}
    IN /\ st' = [st EXCEPT !.placed = placed2, !.home = SetHome(@, {Ev.pod}, Ev.target), !.nguard = @ + 1]
       /\ viol' = viol \o
            (IF ~known THEN <<>>     \* a node outside the NodeClaims of this driver (scenario nodes): C01's business
             ELSE Chk(G_C04_MarkedNotCapacity(n), "G_C04_MarkedNotCapacity", IF n.marked THEN "marked" ELSE "deleting")
                  \o (IF ~Alive(n) \/ ~(\A k \in PlacedOn(placed2, n.claim) : KnownPodMP(cfg, k)) THEN <<>>
                      ELSE Chk(G_C04_InflightCountsLaunchedAllocatable(cfg, n, PlacedOn(placed2, n.claim)),
                               IF n.initialized THEN "G_C01_ExistingFits" ELSE "G_C04_InflightCountsLaunchedAllocatable",
                               Stage(n) \o (IF Running(cfg, n) # {} THEN ":daemon-running" ELSE ""))))
CommitInflight ==
    /\ st' = [st EXCEPT !.opens = IF IsOpen(@, Ev.target)
                                   THEN [@ EXCEPT ![OpenIdx(@, Ev.target)] = [@ EXCEPT !.pods = Ev.pods, !.its = Ev.its]] ELSE @]
    /\ UNCHANGED viol
Open ==
    LET known == KnownPodMP(cfg, Ev.pod)
        p == PodOf(cfg, Ev.pod)
        judged == known /\ Exact(cfg, p)
    IN /\ st' = [st EXCEPT !.opens = Append(@, [target |-> Ev.target, pool |-> Ev.pool, pods |-> Ev.pods, its |-> Ev.its, opener |-> Ev.pod]),
                           !.nopen = @ + 1, !.nguard = @ + (IF judged THEN 1 ELSE 0)]
       /\ viol' = viol \o
            (IF ~judged THEN <<>>
             ELSE Chk(G_C04_OpenOnlyIfNoneAdmits(cfg, st.nodes, st.placed, st.opens, p), "G_C04_OpenOnlyIfNoneAdmits",
                      SigOpen(cfg, st.nodes, st.placed, st.opens, p)))
TSched ==
    /\ Ev.e = "Sched"
    /\ CASE Ev.kind = "commit" /\ Ev.tk = "existing" -> CommitExisting
         [] Ev.kind = "commit" /\ Ev.tk = "inflight" -> CommitInflight
         [] Ev.kind = "open" -> Open
         [] Ev.kind = "final" -> CommitInflight
         [] OTHER -> UNCHANGED <<st, viol>>
    /\ cnt' = [cnt EXCEPT !.opens = @ + (IF Ev.kind = "open" THEN 1 ELSE 0),
                          !.opensJudged = @ + (IF Ev.kind = "open" /\ KnownPodMP(cfg, Ev.pod) /\ Exact(cfg, PodOf(cfg, Ev.pod)) THEN 1 ELSE 0),
                          !.commits = @ + (IF Ev.kind = "commit" /\ Ev.tk = "existing" /\ KnownClaim(st.nodes, Ev.target) THEN 1 ELSE 0)]
    /\ UNCHANGED ntr

\* ---- API: a NodeClaim stored by the provisioner
LimOf(pools, pool) == (CHOOSE i \in DOMAIN pools : pools[i].pool = pool)
HasPool(pools, pool) == \E i \in DOMAIN pools : pools[i].pool = pool
TApi ==
    /\ Ev.e = "Api"
    /\ viol' = viol \o
         (IF Ev.kind = "NodeClaim" /\ Ev.verb = "create" /\ Ev.actor = "provisioner" /\ Ev.err = "-" /\ Ev.post.exists /\ HasPool(st.pools, Ev.post.pool)
          THEN LET lim == st.pools[LimOf(st.pools, Ev.post.pool)].limits IN
               Vs("G_C03_CreateUnderLimit", SigsCapacity(cfg, st.nodes, Ev.post.pool, lim, st.passOf))
          ELSE <<>>)
    /\ cnt' = [cnt EXCEPT !.creates = @ + (IF Ev.kind = "NodeClaim" /\ Ev.verb = "create" /\ Ev.actor = "provisioner" /\ Ev.err = "-" THEN 1 ELSE 0)]
    /\ UNCHANGED <<st, ntr>>

(* The instant Schedule starts (the provisioner lists the pending pods): the ground truth at THAT instant - a NodeClaim another   *)
(* controller stored inside the batching window included - replaces the one taken before the reconcile; no scheduling pass may   *)
(* start while a stored NodeClaim has not been launched.                                                                          *)
TSchedStart ==
    /\ Ev.e = "SchedStart"
    /\ st' = [st EXCEPT !.nodes = Ev.nodes, !.started = TRUE]
    /\ viol' = viol \o Chk(G_C04_PassOnlyWhenSynced(Ev.nodes), "G_C04_PassOnlyWhenSynced", "unlaunched:" \o ToString(Cardinality(Unlaunched(Ev.nodes))))
    /\ UNCHANGED <<ntr, cnt>>
\* a NodeClaim stored by another controller (Provisioner.CreateNodeClaims) - not one of this pass's
TForeign ==
    /\ Ev.e = "ForeignCreated"
    /\ st' = [st EXCEPT !.home = SetHome(@, Range(Ev.pods), Ev.claim),
                        !.optsOf = {x \in @ : x.claim # Ev.claim} \cup {[claim |-> Ev.claim, opts |-> Ev.opts]},
                        !.passOf = @ \cup {[claim |-> Ev.claim, pass |-> 1000 + Ev.pass]}]
    /\ UNCHANGED <<viol, ntr, cnt>>

TCreated ==
    /\ Ev.e = "Created"
    /\ st' = [st EXCEPT !.created = Append(@, Ev), !.home = SetHome(@, Range(Ev.pods), Ev.claim),
                        !.optsOf = {x \in @ : x.claim # Ev.claim} \cup {[claim |-> Ev.claim, opts |-> Ev.opts]},
                        !.passOf = @ \cup {[claim |-> Ev.claim, pass |-> Ev.pass]}]
    /\ UNCHANGED <<viol, ntr, cnt>>

\* launch options of the NodeClaims of `pool` that have no instance yet (this pass's and, if the pass ran although it should not, older ones)
OptsOf(optsOf, c) == (CHOOSE x \in optsOf : x.claim = c).opts
PendingOpts(pool) ==
    LET old == SelectSeq(st.nodes, LAMBDA n : n.pool = pool /\ ~n.launched /\ ~n.deleting /\ (\E x \in st.optsOf : x.claim = n.claim))
        new == SelectSeq(st.created, LAMBDA c : c.pool = pool)
    IN [i \in DOMAIN old |-> OptsOf(st.optsOf, old[i].claim)] \o [i \in DOMAIN new |-> new[i].opts]
CreatedIn(pool) == \E i \in DOMAIN st.created : st.created[i].pool = pool

TPassEnd ==
    /\ Ev.e = "PassEnd"
    /\ st' = [st EXCEPT !.inPass = FALSE, !.nguard = @ + (IF Ev.ran THEN 1 ELSE 0), !.ranNodes = IF Ev.ran THEN st.nodes ELSE @]
    /\ viol' = viol
         \o (IF Ev.ran /\ ~st.started THEN Chk(G_C04_PassOnlyWhenSynced(st.nodes), "G_C04_PassOnlyWhenSynced",
                                  "unlaunched:" \o ToString(Cardinality(Unlaunched(st.nodes)))) ELSE <<>>)
         \o Flat([i \in DOMAIN st.pools |->
                LET pl == st.pools[i] IN
                IF ~CreatedIn(pl.pool) THEN <<>>
                ELSE Vs("G_C03_OpenWithinLimits", SigsWithin(cfg, st.nodes, pl.pool, pl.limits, PendingOpts(pl.pool)))])
         \o (IF Ev.ran /\ st.sameHome /\ G_C04_PassOnlyWhenSynced(st.nodes)
             THEN Chk(Ev.created = 0 /\ Ev.opens = 0, "Inv_C04_Idempotent", "home:" \o st.homeStage) ELSE <<>>)
         \o (IF Ev.ran /\ st.allHomed /\ ~st.sameHome /\ G_C04_PassOnlyWhenSynced(st.nodes)
             THEN Chk(Ev.created = 0, "Obs_C04_RepackAddsNode", "several-homes") ELSE <<>>)
    /\ cnt' = [cnt EXCEPT !.passesRan = @ + (IF Ev.ran THEN 1 ELSE 0), !.idempotent = @ + (IF Ev.ran /\ st.sameHome THEN 1 ELSE 0)]
    /\ UNCHANGED ntr

\* ---- pool totals after every step
TTotals ==
    /\ Ev.e = "Totals"
    /\ viol' = viol \o Flat([i \in DOMAIN Ev.pools |->
            LET pl == Ev.pools[i] IN
            Vs("Inv_C03_PoolCapacity", SigsCapacity(cfg, Ev.nodes, pl.pool, pl.limits, st.passOf))
            \* cross-check (never a verdict): right after the informers delivered everything Cluster.NodePoolResourcesFor equals the API truth
            \o (IF Ev.fresh /\ pl.ready
                THEN LET u == PoolUsage(cfg, Ev.nodes, pl.pool, Cap)
                         c == [cpu |-> IF pl.cluster.cpu < 0 THEN 0 ELSE pl.cluster.cpu, mem |-> IF pl.cluster.mem < 0 THEN 0 ELSE pl.cluster.mem,
                               nodes |-> IF pl.cluster.nodes < 0 THEN 0 ELSE pl.cluster.nodes]
                     IN Chk(u = c, "Drift_MP_PoolResources", "cluster-differs-from-api") ELSE <<>>)
            \o Chk(pl.ready, "Drift_MP_PoolNotReady", "pool-not-ready")])
    /\ cnt' = [cnt EXCEPT !.totals = @ + 1]
    /\ UNCHANGED <<st, ntr>>

Passive == {"Read", "Prov", "Tick", "Env", "Begin", "End", "Launch", "Marked", "Skip", "Note", "Panic", "Restart"}
TPassive == Ev.e \in Passive /\ UNCHANGED <<st, viol, ntr, cnt>>

TraceNext ==
    \/ /\ l <= Len(Trace) /\ l' = l + 1 /\ UNCHANGED done
       /\ (TCfg \/ TPassBegin \/ TSched \/ TSchedStart \/ TForeign \/ TApi \/ TCreated \/ TPassEnd \/ TTotals \/ TPassive)
    \/ /\ l = Len(Trace) + 1 /\ ~done /\ done' = TRUE
       /\ JsonSerialize(IOEnv.OUT, [viol |-> viol, consumed |-> l - 1, traces |-> ntr, counts |-> cnt])
       /\ UNCHANGED <<l, st, viol, ntr, cnt>>

TraceSpec == TraceInit /\ [][TraceNext]_tvars
=============================================================================
