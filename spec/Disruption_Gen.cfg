\* behaviour generation: every terminal state of the closed model is one cell of the blocker x method table
CONSTANTS MaxPre = 2  MaxChurn = 1  PairMode = "tgp"  Weak = ""
SPECIFICATION Spec
INVARIANTS GenPrint
