\* behaviour generation (TLC simulation): controller invocations serial, environment / restart at any call
CONSTANTS Nodes = {"n1", "n2", "n3"}  Cmds = {"A", "B"}  MaxRepl = 2  T = 1  MaxNow = 2  MaxFaults = 2  MaxRestarts = 1  MaxCandVanish = 1
          DelFaults = TRUE  CodeMode = "code"  Weak = "none"  Serial = TRUE  Gen = TRUE  MaxLen = 40
SPECIFICATION Spec
INVARIANTS GenPrint
