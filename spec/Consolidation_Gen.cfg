\* scenario generation (price focus): a random sample (GenMod draws, TLC -seed) of the 3 x 2 x 2 price grid over
\* prices {1,2,3,5}, zone zb same / overlay-priced / unavailable / not offered, 1..3 removed nodes
CONSTANTS NTypes = 3  Prices = {1, 2, 3, 5}  ZMods = {"same", "dear", "unavail", "none"}  MaxCands = 3  MinS2S = 2  Focus = "price"  UnavCTs = {}  Weak = ""  GenMod = 200  GenRes = 0
SPECIFICATION RandSpec
INVARIANTS GenPrint
