---------------------------- MODULE ReapersGuards ----------------------------
(***************************************************************************)
(* Guards of C16 (forceful reapers act only on their documented trigger)   *)
(* over the *logged* record shapes of harness/world/abs.go.  No variables: *)
(* shared by the closed model Reapers.tla and the trace specification      *)
(* Reapers_Trace.tla.  Written from the property statement and Kubernetes  *)
(* label / condition semantics, not from the controllers' code.            *)
(*                                                                         *)
(*   c       a NodeClaim record as stored just before the delete           *)
(*   t       the instant of the delete (seconds since the scenario epoch)  *)
(*   nodes   the Node objects in the store at that instant, as a function  *)
(*           name -> Node record (absent nodes are not in the domain)      *)
(*   policies  the provider's repair policies, a sequence of               *)
(*           [type, status, toleration]                                    *)
(*                                                                         *)
(* G_C16_Liveness comes from LifecycleGuards (one definition for both the  *)
(* lifecycle and the reapers bindings).                                    *)
(***************************************************************************)
EXTENDS LifecycleGuards

PoolKey == "karpenter.sh/nodepool"

\* ---------------------------------------------------------------- expiration
\* no earlier than creation + expireAfter, never when expiry is disabled (expireAfter = -1 is "Never")
G_C16_Expiration(c, t) == c.expireAfter >= 0 /\ t >= c.created + c.expireAfter
SigExpiration(c, t) == IF c.expireAfter < 0 THEN "expiry-disabled" ELSE "before-expiry"

\* ---------------------------------------------------------------- garbage collection
\* provListOk : the provider's List was read successfully in this reconcile
\* listed     : provider ids that List returned
\* lookupOk   : the Node lookup for this claim's provider id was read successfully in this reconcile
\* A read that failed establishes nothing.  Two or more Nodes with the claim's provider id is the
\* "invalid state" Karpenter documents as deliberately ignored: accepted (leniency, not demanded).
NodesOf(c, nodes) == {k \in DOMAIN nodes : nodes[k].providerID = c.providerID}
NodeAbsentOrNotReady(c, nodes) ==
    \/ Cardinality(NodesOf(c, nodes)) >= 2
    \/ \A k \in NodesOf(c, nodes) : nodes[k].ready # "True"
G_C16_GarbageCollection(c, provListOk, listed, lookupOk, nodes) ==
    /\ c.registered = "True"
    /\ provListOk /\ c.providerID \notin listed
    /\ lookupOk
    /\ NodeAbsentOrNotReady(c, nodes)
SigGarbageCollection(c, provListOk, listed, lookupOk, nodes) ==
    IF c.registered # "True" THEN "unregistered"
    ELSE IF ~provListOk THEN "provider-list-failed"
    ELSE IF c.providerID \in listed THEN "instance-still-listed"
    ELSE IF ~lookupOk THEN "node-lookup-failed"
    ELSE "node-ready"

\* ---------------------------------------------------------------- node repair
Matches(n, p) == p.type \in DOMAIN n.conds /\ n.conds[p.type] = p.status
Unhealthy(n, policies) == \E i \in DOMAIN policies : Matches(n, policies[i])
\* the unhealthy condition has lasted the provider's toleration
ToleratedOut(n, t, policies) ==
    \E i \in DOMAIN policies : Matches(n, policies[i]) /\ t >= n.condSince[policies[i].type] + policies[i].toleration
\* 20 % rounded up
Ceil20(k) == (k + 4) \div 5
\* the pool's nodes = Nodes labelled with the claim's pool; for a pool-less (standalone) claim: every Node of the cluster
HasPool(x) == PoolKey \in DOMAIN x.labels
Scope(c, nodes) == IF HasPool(c) THEN {k \in DOMAIN nodes : HasPool(nodes[k]) /\ nodes[k].labels[PoolKey] = c.labels[PoolKey]}
                   ELSE DOMAIN nodes
WithinUnhealthyBudget(c, nodes, policies) ==
    LET S == Scope(c, nodes) IN Cardinality({k \in S : Unhealthy(nodes[k], policies)}) <= Ceil20(Cardinality(S))
\* n = the Node whose NodeClaim c is deleted ([exists |-> FALSE] if there is none in the store)
G_C16_Repair(c, n, t, policies, nodes) ==
    /\ n.exists
    /\ ToleratedOut(n, t, policies)
    /\ WithinUnhealthyBudget(c, nodes, policies)
SigRepair(c, n, t, policies, nodes) ==
    IF ~n.exists THEN "no-node"
    ELSE IF ~Unhealthy(n, policies) THEN "node-healthy"
    ELSE IF ~ToleratedOut(n, t, policies) THEN "before-toleration"
    ELSE IF HasPool(c) THEN "pool-over-20pct" ELSE "cluster-over-20pct"

SigLiveness(c) == IF c.registered = "True" THEN "registered" ELSE IF c.launched = "True" THEN "registration" ELSE "launch"
=============================================================================
