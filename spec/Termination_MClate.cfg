\* exhaustive check, coarse granularity: a pod that does NOT tolerate the taint is bound to the node at any time
\* (also after Drained=True was persisted, while the controller waits for volumes / the instance)
CONSTANTS Pods = {"p1", "p2"}  Tol = {}  Late = {"p2"}
  Starts = {"registered"}
  VaOwners = {"p1"}  TGPs <- BoolF  Instants <- BoolF
  MaxFaults = 1  MaxRestarts = 0  MaxLen = 1000  MaxSpont = 99
  Atomic = TRUE  FinalizeMode = "cache"  Weak = ""
SPECIFICATION Spec
VIEW view
INVARIANTS TypeOK Inv_C09_NoLeak Inv_ProvGoneSound
PROPERTIES Act_C09_NodeFinalizer Act_C09_ClaimFinalizer Act_C09_GuardImpliesNoLeak
