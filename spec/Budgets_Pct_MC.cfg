\* exhaustive enumeration of the percentage grid (family P): rounding is the exact integer ceiling
CONSTANTS Rounding = "up"  WindowEnd = "open"  EmptyReasons = "all"
CONSTANTS Horizon <- MC_Horizon  Schedules <- MC_Schedules  Durations <- MC_Durations
          Percents <- MC_Percents  Counts <- MC_Counts  Sizes <- MC_Sizes  Reasons <- MC_Reasons
          ListAlphabet <- MC_ListAlphabet  ListInstants <- MC_ListInstants
          BadCrons <- MC_BadCrons  BadNodes <- MC_BadNodes  NoHitCrons <- MC_NoHitCrons  PctSizes <- MC_PctSizes
SPECIFICATION PctSpec
INVARIANTS TypeOK Inv_C05_Ceil Inv_C05_Attained Inv_C05_UpperBound
