\* exhaustive check of the closed model (history hidden by VIEW): a pool claim and a standalone claim with their nodes;
\* mechanism constants = the code's (documented) behaviour
CONSTANTS Claims = {"c1", "c2"}  MaxNow = 1000  MaxFaults = 1  MaxEnv = 2  MaxLen = 30  NoopEvery = 1  OffBefore = {1, 500}  OffAfter = {0, 1}
          EA = 600  LT = 300  RT = 900  TolReady = 120  TolUnk = 90  TolDisk = 60  UnknownFirst = TRUE
          PoolBg = {0}  OtherBg = {0}  MaxBad = 0  MaxDel = 0  ReadyVals = {"True", "False"}
          RoundedClock = {}  ExpireSlack = 0  ExpireNever = "check"  GcOnProvListError = "abort"  GcOnLookupError = "skip"  GcReady = "check"  NotFoundAsEmpty = {}  GcReadOrder = "claimsFirst"  LiveGate = "registered"
          LiveSlack = 0  RepairSlack = 0  RepairTolBy = "policy"  RepairAnnotated = "check"  RepairExtra = 0  RepairScope = "pool"  RepairOnListError = "abort"  RepairTerminating = "count"
SPECIFICATION Spec
VIEW view
INVARIANTS TypeOK Inv_C16_Expiration Inv_C16_GarbageCollection Inv_C16_Liveness Inv_C16_Repair
PROPERTIES Act_C16_NoTriggerNoReap
