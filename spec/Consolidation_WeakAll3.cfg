\* the truncation rule of single-node spot-to-spot needs 3 types (more options than MinS2S = 2)
CONSTANTS NTypes = 3  Prices = {1, 2}  ZMods = {"dear"}  MaxCands = 1  MinS2S = 2  Focus = "price"  UnavCTs = {}  Weak = "s2sNoTruncate"  GenMod = 1  GenRes = 0
SPECIFICATION Spec
INVARIANTS WeakDetect
