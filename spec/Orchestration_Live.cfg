\* liveness under fair controllers (small: one command, <=1 replacement)
CONSTANTS Nodes = {"n1", "n2"}  Cmds = {"A"}  MaxRepl = 1  T = 1  MaxNow = 2  MaxFaults = 1  MaxRestarts = 1  MaxCandVanish = 1
          DelFaults = TRUE  CodeMode = "code"  Weak = "none"  Serial = FALSE  Gen = FALSE  MaxLen = 0
SPECIFICATION FairSpec
INVARIANTS TypeOK
PROPERTIES Live_C08_RolledBack_T Live_C08_FailedEnds_T
