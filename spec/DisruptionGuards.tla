-------------------------- MODULE DisruptionGuards --------------------------
(***************************************************************************)
(* Guards of C07 (disruption never targets protected or ineligible nodes). *)
(* Variable-free; EXTENDed by the closed model Disruption.tla and by the   *)
(* trace specification Disruption_Trace.tla.                               *)
(*                                                                         *)
(* Eligibility is defined over a *node view* v - the facts about one node  *)
(* that the property statement talks about - as a conjunction with one     *)
(* named conjunct per blocker, so that a failing cell of the               *)
(* blocker x method table is reported by name.  ViewOf derives the view    *)
(* from a logged World snapshot (harness/drivers/disruption/project.go)    *)
(* with Kubernetes semantics (label selectors, pod phases, owner kinds);   *)
(* the closed model builds views directly.                                 *)
(*                                                                         *)
(* Node view:                                                              *)
(*   managed, hasNode, initialized, deleting, nodeDeleting, marked :BOOLEAN*)
(*   nominatedUntil : Int (-1 never)     nodeDnd, poolLabel, poolKnown     *)
(*   static, caSet : BOOLEAN   policy : STRING                             *)
(*   consolidatable, drifted : "True"|"False"|"Unknown"|"Absent"           *)
(*   tgp : BOOLEAN   buffer : Nat   pods : Seq(pod view)                   *)
(* Pod view:                                                               *)
(*   active (not terminal, not terminating), dndKind in none|true|dur|     *)
(*   invalid, dndSec, started (-1 unknown), evictKind (does not tolerate   *)
(*   the disruption taint and is not a mirror pod), npdb (matching PDBs),  *)
(*   pdbAllowed (of the single matching PDB), pdbWaived (AlwaysAllow and   *)
(*   the pod is unready), resched (Karpenter would reschedule it),         *)
(*   costPos (its eviction cost is positive)                               *)
(***************************************************************************)
EXTENDS Naturals, Integers, Sequences, FiniteSets, TLC

Methods == {"emptiness", "staticdrift", "drift", "multi", "single"}
Consolidation(m) == m \in {"emptiness", "multi", "single"}
Eventual(m) == m \in {"drift", "staticdrift"}

\* ---------------------------------------------------------------- pod-level blockers
\* a duration annotation protects the pod while now - start < d; without a start time it protects
DndActive(p, now) == \/ p.dndKind = "true"
                     \/ (p.dndKind = "dur" /\ (p.started < 0 \/ now - p.started < p.dndSec))
PodDndBlocks(p, now) == p.active /\ DndActive(p, now)
\* a PDB blocks the eviction of a pod Karpenter would evict: more than one PDB selects it (the
\* eviction API refuses), or the single one allows zero disruptions (unless unhealthy pods are exempt)
PodPdbBlocks(p) == /\ p.active /\ p.evictKind
                   /\ \/ p.npdb > 1
                      \/ (p.npdb = 1 /\ p.pdbAllowed <= 0 /\ ~p.pdbWaived)
\* pod-level blockers are waived only for the eventual class and only with a terminationGracePeriod
Waived(m, v) == Eventual(m) /\ v.tgp
HasResched(v) == \E i \in DOMAIN v.pods : v.pods[i].resched
\* A node is EMPTY only if every pod Karpenter would have to reschedule has a non-positive eviction cost - pod by pod: a
\* cheap-to-delete pod never cancels out a neighbour.  (Eviction cost as pkg/utils/disruption documents it:
\* 1 + pod-deletion-cost / 2^27 + priority / 2^25, clamped to [-10, 10]; the clamp keeps the sign.)
NonEmpty(v) == \E i \in DOMAIN v.pods : v.pods[i].resched /\ v.pods[i].costPos
\* sign of the eviction cost from the annotation (0 when absent / unparsable) and the priority (0 when unset), exact in
\* 32-bit arithmetic: cost > 0  <=>  dc + 4 * prio > -2^27  <=>  (dc div 4) + prio > -2^25, or equal with a remainder
CostPositive(dc, prio) ==
    IF prio >= 536870912 THEN TRUE
    ELSE IF prio <= -1073741824 THEN FALSE
    ELSE LET s == (dc \div 4) + prio IN s > -33554432 \/ (s = -33554432 /\ dc % 4 > 0)

\* ---------------------------------------------------------------- the blocker table, one conjunct per blocker
Conjuncts == <<"managed", "hasNode", "initialized", "notDeleting", "notMarked", "notNominated", "noNodeDnd",
               "poolKnown", "podDnd", "podPdb", "consolidatable", "poolKind", "consolidateAfterSet", "policy",
               "noBuffer", "drifted">>

Holds(c, m, v, now) ==
    CASE c = "managed"             -> v.managed
      [] c = "hasNode"             -> v.hasNode
      [] c = "initialized"         -> v.initialized
      [] c = "notDeleting"         -> ~v.deleting
      [] c = "notMarked"           -> ~v.marked
      [] c = "notNominated"        -> ~(v.nominatedUntil > now)
      [] c = "noNodeDnd"           -> ~v.nodeDnd
      [] c = "poolKnown"           -> v.poolLabel /\ v.poolKnown
      [] c = "podDnd"              -> Waived(m, v) \/ \A i \in DOMAIN v.pods : ~PodDndBlocks(v.pods[i], now)
      [] c = "podPdb"              -> Waived(m, v) \/ \A i \in DOMAIN v.pods : ~PodPdbBlocks(v.pods[i])
      [] c = "consolidatable"      -> Consolidation(m) => v.consolidatable = "True"
      [] c = "poolKind"            -> IF m = "staticdrift" THEN v.static ELSE ~v.static
      [] c = "consolidateAfterSet" -> Consolidation(m) => v.caSet
      [] c = "policy"              -> (Consolidation(m) /\ NonEmpty(v)) => v.policy # "WhenEmpty"
      [] c = "noBuffer"            -> m = "emptiness" => v.buffer = 0
      [] c = "drifted"             -> Eventual(m) => v.drifted = "True"

\* Notes. "managed" is implied by the method conjuncts in every reachable world (Consolidatable / Drifted live on the
\* NodeClaim), it is kept for the report of the failing cell.  "deleting" is Karpenter's notion (NodeClaim deleting,
\* InstanceTerminating, marked by a running command); a Node object with a deletionTimestamp whose NodeClaim is not yet
\* deleting is visible in the view (nodeDeleting) but deliberately not a conjunct (see the C07 report).
\* conjuncts that depend on the pool only make sense when the pool is known
Applies(c, v) == c \in {"poolKind", "consolidateAfterSet", "policy"} => (v.poolLabel /\ v.poolKnown)

Failing(m, v, now) == {i \in DOMAIN Conjuncts : Applies(Conjuncts[i], v) /\ ~Holds(Conjuncts[i], m, v, now)}
G_C07_Eligible(m, v, now) == Failing(m, v, now) = {}
\* witness class: the first failing conjunct (stable order), prefixed by the method
FirstFailing(m, v, now) == LET F == Failing(m, v, now) IN
                           IF F = {} THEN "-" ELSE Conjuncts[CHOOSE i \in F : \A j \in F : i <= j]
Sig(m, v, now) == m \o ":" \o FirstFailing(m, v, now)

\* ---------------------------------------------------------------- in-memory protection windows
\* every nomination at instant t protects the node while now < t + window; a node nominated several times is
\* protected until the LATEST of these expiries (a re-nomination extends the window, it never shortens it and an
\* earlier one never masks a later one).  noms = set of nomination instants; -1 = never nominated
NominatedUntil(noms, window) == IF noms = {} THEN -1 ELSE (CHOOSE t \in noms : \A u \in noms : u <= t) + window

\* ---------------------------------------------------------------- Consolidatable condition
\* Consolidatable may become True only on an initialized NodeClaim of a dynamic pool with
\* consolidateAfter set, once consolidateAfter has elapsed since the last pod event (since
\* initialization when no pod event was ever recorded)
ConsolidatableRef(lastPodEvent, initializedAt) == IF lastPodEvent >= 0 THEN lastPodEvent ELSE initializedAt
G_C07_Consolidatable(now, lastPodEvent, initialized, initializedAt, poolKnown, static, ca) ==
    /\ poolKnown /\ ~static /\ ca >= 0
    /\ initialized
    /\ now - ConsolidatableRef(lastPodEvent, initializedAt) >= ca

\* ---------------------------------------------------------------- views from a logged World snapshot
\* (objects are addressed by their index in the snapshot's arrays: TLC cannot compare records of different
\* shapes, e.g. label maps, so no sets of logged records are built)
NoObj == [exists |-> FALSE]
At(seq, I) == IF I = {} THEN NoObj ELSE seq[CHOOSE i \in I : TRUE]

\* label selector (matchLabels): every selected key is present with the selected value; empty selects all
SelMatches(sel, labels) == \A k \in DOMAIN sel : k \in DOMAIN labels /\ labels[k] = sel[k]
PdbSelects(b, p) == b.ns = p.ns /\ ~b.selNil /\ SelMatches(b.sel, p.labels)

PodView(p, W) ==
    LET B == {j \in DOMAIN W.pdbs : PdbSelects(W.pdbs[j], p)}
        one == IF B = {} THEN [allowed |-> 1, alwaysAllow |-> FALSE] ELSE W.pdbs[CHOOSE j \in B : TRUE]
        terminal == p.phase \in {"Succeeded", "Failed"}
        active == ~terminal /\ ~p.terminating
    IN [key |-> p.key, active |-> active, dndKind |-> p.dndKind, dndSec |-> p.dndSec, started |-> p.started,
        evictKind |-> ~p.toleratesDisruption /\ p.owner # "node",
        npdb |-> Cardinality(B), pdbAllowed |-> one.allowed, pdbWaived |-> one.alwaysAllow /\ p.readyFalse,
        resched |-> (active \/ (p.owner = "statefulset" /\ p.terminating /\ ~terminal)) /\ p.owner \notin {"daemonset", "node"},
        costPos |-> CostPositive(IF p.hasDeletionCost THEN p.deletionCost ELSE 0, IF p.hasPriority THEN p.priority ELSE 0)]

\* G: ghost state of the trace [marked: set of node/claim names, nominated: set of <<name, at>>, buffer: set of
\* <<name, n>>, window: nomination window]; cand: a logged candidate record [node, claim, ...]
ViewOf(cand, W, G) ==
    LET node == At(W.nodes, {i \in DOMAIN W.nodes : W.nodes[i].name = cand.node})
        claim == IF node.exists /\ node.providerID # "-"
                   THEN At(W.claims, {i \in DOMAIN W.claims : W.claims[i].providerID = node.providerID})
                   ELSE At(W.claims, {i \in DOMAIN W.claims : W.claims[i].name = cand.claim})
        names == {cand.node, cand.claim} \ {"-"}
        poolName == IF node.exists THEN node.pool ELSE IF claim.exists THEN claim.pool ELSE "-"
        pool == At(W.pools, {i \in DOMAIN W.pools : W.pools[i].name = poolName})
        podIdx == IF node.exists THEN {i \in DOMAIN W.pods : W.pods[i].node = node.name} ELSE {}
        noms == {x[2] : x \in {y \in G.nominated : y[1] \in names}}
        bufs == {x[2] : x \in {y \in G.buffer : y[1] \in names}}
    IN [managed |-> claim.exists, hasNode |-> node.exists,
        initialized |-> (node.exists /\ node.initialized) \/ (claim.exists /\ claim.initialized = "True"),
        deleting |-> claim.exists /\ (claim.deleting \/ claim.instanceTerminating = "True"),
        nodeDeleting |-> node.exists /\ node.deleting,
        marked |-> (names \cap G.marked) # {},
        nominatedUntil |-> NominatedUntil(noms, G.window),
        nodeDnd |-> node.exists /\ node.dndKind = "true",
        poolLabel |-> poolName # "-", poolKnown |-> pool.exists,
        static |-> pool.exists /\ pool.static, caSet |-> pool.exists /\ pool.consolidateAfter >= 0,
        policy |-> IF pool.exists THEN pool.policy ELSE "-",
        consolidatable |-> IF claim.exists THEN claim.consolidatable ELSE "Absent",
        drifted |-> IF claim.exists THEN claim.drifted ELSE "Absent",
        tgp |-> claim.exists /\ claim.tgp >= 0,
        buffer |-> IF bufs = {} THEN 0 ELSE CHOOSE b \in bufs : TRUE,
        pods |-> [i \in podIdx |-> PodView(W.pods[i], W)]]

=============================================================================
