\* exhaustive, every method call interleaves (Grain = call), semantics the statement wants (CodeMode = fixed):
\* provisioning + deprovisioning + informer + GC with user deletes, scale up/down, a failing create, a resync
CONSTANTS N = 4  Pre = 2  Limit = 2  Replicas0 = 2  ScaleTo = {1, 2}  Budget = 1  CodeMode = "fixed"  Grain = "call"
          MaxCreateFail = 1  MaxTaintFail = 0  MaxDelete = 1  MaxDrift = 0  MaxScale = 1  MaxTimeout = 0  MaxResync = 1  MaxFlip = 99  Record = "last"  MaxLen = 0
SPECIFICATION Spec
VIEW view
INVARIANTS TypeOK Inv_C03_StaticCap Inv_C03_NoCrash Inv_C03_ReservedCovers Inv_C03_CountsMatchSets Inv_C03_PendingTracked Inv_C03_ReservedExact Inv_C03_NoGhost
