\* exhaustive check of the closed model as the statement wants it (CodeMode = "fixed"), every call interleaves
CONSTANTS N = 4  Pre = 1  Limit = 2  Replicas0 = 1  ScaleTo = {1, 2}  Budget = 1
          CodeMode = "fixed"  Grain = "call"
          MaxCreateFail = 1  MaxTaintFail = 1  MaxDelete = 1  MaxDrift = 1  MaxScale = 1  MaxTimeout = 0  MaxResync = 1  MaxFlip = 99
          Record = "last"  MaxLen = 0
SPECIFICATION Spec
VIEW view
INVARIANTS TypeOK Inv_C03_StaticCap Inv_C03_NoCrash Inv_C03_ReservedCovers Inv_C03_CountsMatchSets Inv_C03_PendingTracked
