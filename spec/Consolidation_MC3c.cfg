\* exhaustive, price focus, thorough tier: 2 types, 1..3 removed nodes, prices {1,2}, zone zb overlay-priced (+2)
CONSTANTS NTypes = 2  Prices = {1, 2}  ZMods = {"dear"}  MaxCands = 3  MinS2S = 2  Focus = "price"  UnavCTs = {}  Weak = ""  GenMod = 1  GenRes = 0
SPECIFICATION Spec
INVARIANTS TypeOK Inv_C06_CostDecreases Inv_C06_AtMostOneLaunch Inv_C06_SpotToSpotFeature Inv_C06_SpotToSpotAlternatives Inv_C06_SpotToSpotSettles Inv_C06_NotWorseThanKeeping Inv_C06_EmptyHarmless Inv_C06_PodsSchedulable
