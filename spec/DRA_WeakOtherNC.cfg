\* spec mutation (W_OtherNC = FALSE): TLC must violate Inv_C17_DeviceExclusive
CONSTANTS NCs = {"N1", "N2"}  NClaims = 2  Kinds = {"net2"}  Pres = {0}  Slots = {0}
CONSTANTS W_OtherNC = FALSE  W_SameType = TRUE  W_Prealloc = TRUE  W_RefCount = TRUE  W_CapInflight = TRUE  W_CapDelta = TRUE  W_Counters = TRUE  W_Template = TRUE  W_Releasable = TRUE 
SPECIFICATION Spec
INVARIANTS Inv_C17_DeviceExclusive Inv_C17_SharedCapacity Inv_C17_Counters Inv_C17_TrackerCoversEveryResolution
