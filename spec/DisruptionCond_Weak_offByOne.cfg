\* spec mutation "offByOne": TLC must violate Inv_C07_ConsolidatableJustified
CONSTANTS MaxNow = 80  MaxLen = 9  MaxEdits = 2  Dedupe = 10  VD = 15  WeakC = "offByOne"
SPECIFICATION Spec
VIEW view
INVARIANTS Inv_C07_ConsolidatableJustified
