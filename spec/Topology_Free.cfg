\* unguarded placements: the order-free end-state forms agree with the resolution semantics on EVERY placement sequence
CONSTANTS NPods = 2  Archs = {1,3,4,5,6,7,15,16,17}  Layouts = {0,1,2,8}  MaxClaims = 2
CONSTANTS W_AllDomains = TRUE  W_Inverse = TRUE  W_Certain = TRUE  W_Bootstrap = TRUE  W_Slack = 0  W_Exclude = TRUE  W_MatchKeys = TRUE  W_MinDomains = TRUE  W_Policies = TRUE  W_Guard = FALSE
SPECIFICATION Spec
INVARIANTS Inv_C02_Forms
