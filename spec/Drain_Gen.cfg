\* behaviour generation by TLC simulation over the full archetype alphabet
CONSTANTS Pods = {"p1", "p2", "p3"}  Archetypes <- ArchAll  TGPs <- BoolBoth  TGP = 3
  MaxNow = 6  MaxFaults = 2  MaxRestarts = 1  MaxDlChanges = 2  MaxLen = 30  MaxSpont = 1
  EarlierMode = "earlier"  GateTiers = TRUE  MinGrace = 1  DndMode = "honour"  ThresholdSlack = 0  DropMode = "keep"  SplitMode = "waiting"
SPECIFICATION Spec
INVARIANTS GenPrint
