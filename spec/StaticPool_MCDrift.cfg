\* exhaustive at API-call granularity (Grain = gate: what the harness realises on the real controllers), fixed semantics:
\* static drift -> StartCommand -> queue next to provisioning/deprovisioning, with a failing create, a failing taint patch, a delete
CONSTANTS N = 3  Pre = 1  Limit = 2  Replicas0 = 1  ScaleTo = {1}  Budget = 1  CodeMode = "fixed"  Grain = "gate"
          MaxCreateFail = 1  MaxTaintFail = 1  MaxDelete = 1  MaxDrift = 1  MaxScale = 0  MaxTimeout = 1  MaxResync = 0  MaxFlip = 99  Record = "last"  MaxLen = 0
SPECIFICATION Spec
VIEW view
INVARIANTS TypeOK Inv_C03_StaticCap Inv_C03_NoCrash Inv_C03_ReservedCovers Inv_C03_CountsMatchSets Inv_C03_PendingTracked Inv_C03_ReservedExact Inv_C03_NoGhost
