\* spec mutation (W_MatchKeys = FALSE: ignoring matchLabelKeys): TLC must violate Inv_C02_EndState
CONSTANTS NPods = 2  Archs = {14}  Layouts = {6}  MaxClaims = 1
CONSTANTS W_AllDomains = TRUE  W_Inverse = TRUE  W_Certain = TRUE  W_Bootstrap = TRUE  W_Slack = 0  W_Exclude = TRUE  W_MatchKeys = FALSE  W_MinDomains = TRUE  W_Policies = TRUE  W_Guard = TRUE
SPECIFICATION Spec
INVARIANTS Inv_C02_EndState
