\* behaviour generation by TLC simulation: random deep behaviours of the closed model at the granularity the replay
\* driver realises (reconciles without foreign steps, a failing call anywhere), finalize as the code has it
CONSTANTS Pods = {"p1", "p2"}  Tol = {"p2"}
  Starts = {"registered", "registered", "launched", "unpersisted", "fresh"}
  VaOwners = {"-", "p1", "p2", "orphan"}  TGPs <- BoolBoth  Instants <- BoolBoth
  MaxFaults = 3  MaxRestarts = 1  MaxLen = 34  MaxSpont = 1
  Atomic = TRUE  FinalizeMode = "code"  Weak = ""
SPECIFICATION Spec
INVARIANTS GenPrint
