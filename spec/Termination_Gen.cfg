\* behaviour generation by TLC simulation: random deep behaviours of the closed model at the granularity the replay
\* driver realises (reconciles without foreign steps, a failing call anywhere), finalize as the code has it now (launch cache consulted)
CONSTANTS Pods = {"p1", "p2", "p3"}  Tol = {"p2"}  Late = {"p2", "p3"}
  Starts = {"registered", "registered", "launched", "unpersisted", "fresh"}
  VaOwners = {"-", "p1", "p2", "orphan"}  TGPs <- BoolBoth  Instants <- BoolBoth
  MaxFaults = 3  MaxRestarts = 1  MaxLen = 34  MaxSpont = 1
  Atomic = TRUE  FinalizeMode = "cache"  Weak = ""
SPECIFICATION Spec
INVARIANTS GenPrint
