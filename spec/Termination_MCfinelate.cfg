\* exhaustive check, fine granularity, with a non-tolerating pod that may be bound between any two calls
CONSTANTS Pods = {"p1", "p2"}  Tol = {}  Late = {"p2"}
  Starts = {"registered"}
  VaOwners = {"p1"}  TGPs <- BoolF  Instants <- BoolF
  MaxFaults = 0  MaxRestarts = 0  MaxLen = 1000  MaxSpont = 0
  Atomic = FALSE  FinalizeMode = "cache"  Weak = ""
SPECIFICATION Spec
VIEW view
INVARIANTS TypeOK Inv_C09_NoLeak Inv_ProvGoneSound
PROPERTIES Act_C09_NodeFinalizer Act_C09_ClaimFinalizer Act_C09_GuardImpliesNoLeak
