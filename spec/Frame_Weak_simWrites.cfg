\* spec mutation "simWrites": TLC must violate a consequence invariant (the frame is load-bearing)
CONSTANTS Cap = 2  MaxLen = 4  Weak = "simWrites"
SPECIFICATION Spec
VIEW view
INVARIANTS Consequences
