\* scenario generation (pods focus): the slice Hash % GenMod = GenRes of the pods grid (fixed price table, pod sizes /
\* selectors / eviction cost / room on the remaining node)
CONSTANTS NTypes = 3  Prices = {1}  ZMods = {"same"}  MaxCands = 2  MinS2S = 2  Focus = "pods"  UnavCTs = {}  Weak = ""  GenMod = 20  GenRes = 0
SPECIFICATION GenSpec
INVARIANTS GenPrint
