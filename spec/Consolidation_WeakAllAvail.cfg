\* quick tier: the availability weakening with WeakDetect
CONSTANTS NTypes = 2  Prices = {1, 2}  ZMods = {"same"}  MaxCands = 1  MinS2S = 2  Focus = "avail"  UnavCTs = {"spot"}  Weak = "ignoreAvail"  GenMod = 1  GenRes = 0
SPECIFICATION Spec
INVARIANTS WeakDetect
