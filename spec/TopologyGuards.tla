-------------------------- MODULE TopologyGuards --------------------------
(***************************************************************************)
(* Property C02 - inter-pod constraints hold in the simulated end state.    *)
(* Variable-free definitions shared by the closed model Topology.tla and    *)
(* the trace specification Topology_Trace.tla.  Record shapes are those of  *)
(* spec/SCHED_TRACE.md (scenario JSON = Cfg line; Sched / Results events).  *)
(*                                                                         *)
(* The oracle is Kubernetes semantics of required pod (anti)affinity terms  *)
(* and DoNotSchedule topology spread constraints, written over              *)
(*   - pods       : the ORIGINAL pod records of the scenario,               *)
(*   - locations  : where a pod is - an existing node (its labels are the   *)
(*                  scenario's) or a new NodeClaim, whose topology domain   *)
(*                  for key k is the SET of values its logged requirement   *)
(*                  admits (Has-vector over the universe; the hostname of   *)
(*                  a NodeClaim is its own unique id),                      *)
(*   - a world W  : the pods running before the pass that are not part of   *)
(*                  the batch (not rescheduled), not terminating and not    *)
(*                  terminal, plus the pods committed so far in this pass.  *)
(* Nothing here looks at Karpenter's topology groups; the only thing taken  *)
(* from the code's own bookkeeping is the domain UNIVERSE of a spread       *)
(* constraint (DESIGN section 4 C02, "domain universe"), passed in as U.     *)
(*                                                                         *)
(* "When the domain of a new node is still undetermined, the guarantee      *)
(* holds for every domain the node could end up in": two locations may      *)
(* share a domain iff their domain sets intersect (the same NodeClaim       *)
(* shares every domain with itself); a pod is CERTAINLY in domain d iff     *)
(* its location's domain set is {d}.                                         *)
(*                                                                         *)
(* o is an options record; Strict is what real traces are judged with, the  *)
(* closed model weakens one field at a time (Topology_Weak*.cfg).           *)
(***************************************************************************)
EXTENDS SchedulingGuards

Strict == [allDomains |-> TRUE,   \* a placed pod blocks / occupies EVERY domain its node may end up in
           inverse    |-> TRUE,   \* anti-affinity terms of pods already there bind newcomers
           certain    |-> TRUE,   \* an affinity match must CERTAINLY share the domain
           bootstrap  |-> TRUE,   \* a self-matching pod starts a domain only if no match is reachable
           slack      |-> 0,      \* count + self - min <= maxSkew + slack
           exclude    |-> TRUE,   \* rescheduled / terminating / terminal pods do not count where they were
           matchKeys  |-> TRUE,   \* matchLabelKeys refine the spread selector
           minDomains |-> TRUE,   \* fewer eligible domains than minDomains: global minimum is 0
           policies   |-> TRUE,   \* nodeAffinityPolicy / nodeTaintsPolicy decide which nodes' pods count
           \* counterfactual switches, used ONLY to classify a failure into a narrow signature (never to pass a trace)
           ignoreWidens |-> TRUE, \* nodeAffinityPolicy Ignore: the minimum ranges over ALL domains, not only the pod's own
           dpod       |-> <<>>,   \* <<e>>: the pod object e as relaxed so far decides - eligible domains from its FIRST required term, node filter from its terms
           preferTaint |-> FALSE, \* nodeTaintsPolicy Honor also excludes nodes with an untolerated PreferNoSchedule taint
           fpod       |-> <<>>,   \* <<q>>: decide node inclusion with the node selector / required terms / tolerations of pod q
           since      |-> 0,      \* only the pods committed after position `since` of this pass are counted
           endForm    |-> FALSE,  \* TRUE in the order-free end-state form only: what the world looked like when a pod was admitted is
                                  \* unknown, so everything that may have changed since is read in the pod's favour - NodeClaims are no
                                  \* hostname domains, a NodeClaim certainly takes part only if the node filter is trivial and possibly
                                  \* always, a matching pod that does not carry the constraint may have been in any domain, and the
                                  \* universe is what the existing nodes and the pods running before the pass establish (minDomains,
                                  \* which a too small universe would trigger wrongly, is not applied)
           undefCustom |-> FALSE, \* the same for CUSTOM (not well-known) label keys only
           undefSkips |-> FALSE]  \* a pod committed to a NodeClaim that left a key of the node filter undefined at that moment is not counted

Fld(r, f, d) == IF f \in DOMAIN r THEN r[f] ELSE d
MinS(S) == CHOOSE m \in S : \A x \in S : m <= x
SameFn(f, g) == DOMAIN f = DOMAIN g /\ \A k \in DOMAIN f : f[k] = g[k]

----------------------------------------------------------------------------
(* pods and selectors *)
Terminating(q) == Fld(q, "terminating", FALSE)
TerminalPod(q) == Fld(q, "phase", "") \in {"Succeeded", "Failed"}

Nss(cfg) == Fld(cfg, "nss", <<>>)
AllNs(cfg) == {Nss(cfg)[i].name : i \in DOMAIN Nss(cfg)} \cup {p.ns : p \in Range(cfg.pods)}
NsLabels(cfg, n) == IF \E x \in Range(Nss(cfg)) : x.name = n THEN (CHOOSE x \in Range(Nss(cfg)) : x.name = n).labels ELSE <<>>
NsSelOf(t) == Fld(t, "nsSel", <<>>)
UsesNsSel(t) == t.nsAll \/ DOMAIN NsSelOf(t) # {}
\* Kubernetes: no namespaces and no namespaceSelector = the owner's namespace; otherwise the union of the list and of
\* the namespaces the selector selects ({} selects all)
TermNs(cfg, t, owner) ==
    IF t.ns = <<>> /\ ~UsesNsSel(t) THEN {owner.ns}
    ELSE Range(t.ns) \cup (IF UsesNsSel(t) THEN {n \in AllNs(cfg) : SelHolds(NsSelOf(t), NsLabels(cfg, n))} ELSE {})
\* term t of pod `owner` matches pod q
TermMatches(cfg, t, owner, q) == q.ns \in TermNs(cfg, t, owner) /\ SelHolds(t.sel, q.labels)

\* spread constraint s of pod p selects pod q (same namespace, labelSelector, matchLabelKeys values of p)
SpreadMatches(o, s, p, q) ==
    /\ q.ns = p.ns /\ SelHolds(s.sel, q.labels)
    /\ (o.matchKeys => \A k \in Range(s.matchKeys) : k \in DOMAIN p.labels => Val(q.labels, k) = p.labels[k])
MK(s, p) == {k \in Range(s.matchKeys) : k \in DOMAIN p.labels}
ExpSel(s, p) == [k \in DOMAIN s.sel \cup MK(s, p) |-> IF k \in MK(s, p) THEN p.labels[k] ELSE s.sel[k]]
\* q carries the same DoNotSchedule constraint as (p, s): same key, same namespace, same effective selector
CarriesIdx(q, s, p) == {i \in DOMAIN q.spread : q.spread[i].when = "DoNotSchedule" /\ q.spread[i].key = s.key
                                               /\ SameFn(ExpSel(q.spread[i], q), ExpSel(s, p))}
Carries(q, s, p) == q.ns = p.ns /\ CarriesIdx(q, s, p) # {}

\* value v of key k is admitted by p's own node constraints on k (node selector, SOME required term)
PodAllowsKey(cfg, p, k, v) ==
    /\ (k \in DOMAIN p.sel => p.sel[k] = v)
    /\ (p.terms = <<>> \/ \E i \in DOMAIN p.terms : \A j \in DOMAIN p.terms[i] : p.terms[i][j].key = k => Admits(cfg, p.terms[i][j], (k :> v)))
\* counterfactual: only the first required term of e counts
FirstTermAllowsKey(cfg, e, k, v) ==
    /\ (k \in DOMAIN e.sel => e.sel[k] = v)
    /\ (e.terms = <<>> \/ \A j \in DOMAIN e.terms[1] : e.terms[1][j].key = k => Admits(cfg, e.terms[1][j], (k :> v)))
AllowsKey(o, cfg, p, k, v) == IF o.dpod = <<>> THEN PodAllowsKey(cfg, p, k, v) ELSE FirstTermAllowsKey(cfg, o.dpod[1], k, v)
TaintsOK(o, tols, taints) ==
    \A t \in Range(taints) : (t.effect \in {"NoSchedule", "NoExecute"} \/ (o.preferTaint /\ t.effect = "PreferNoSchedule")) => \E x \in Range(tols) : Tolerates(x, t)
NodeConstraintKeys(p) == DOMAIN p.sel \cup ExprKeys(p.terms)
NodeAffHolds(cfg, p, L) == SelHolds(p.sel, L) /\ AnyTermHolds(cfg, p.terms, L)

----------------------------------------------------------------------------
(* locations ("targets") *)
NodeT(n) == [id |-> "node:" \o n, kind |-> "node", node |-> n, pool |-> "-", reqs |-> <<>>]
ClaimT(id, pool, reqs) == [id |-> id, kind |-> "claim", node |-> "-", pool |-> pool, reqs |-> reqs]
HasNodeObj(cfg, n) == KnownNode(cfg, n) /\ NodeByName(cfg, n).stage # "claimonly"
ReqVals(cfg, T, k) == IF k \in DOMAIN T.reqs /\ k \in Keys(cfg) THEN {v \in Range(cfg.universe[k]) : T.reqs[k].has[Idx(cfg, k, v)]} ELSE {}
\* the topology domains of key k the location may end up in ({} = the node has no such label)
TDom(cfg, T, k) ==
    IF T.kind = "node"
    THEN IF ~KnownNode(cfg, T.node) THEN {}
         ELSE LET L == NodeLabelling(NodeByName(cfg, T.node)) IN IF k \in DOMAIN L THEN {L[k]} ELSE {}
    ELSE IF k = "host" THEN {T.id} ELSE ReqVals(cfg, T, k)
\* what a (deliberately weakened) bookkeeping remembers of an earlier placement
DomFor(o, cfg, T, k) ==
    LET D == TDom(cfg, T, k) IN IF o.allDomains \/ D = {} THEN D ELSE {CHOOSE v \in D : TRUE}
\* may the new location X and the earlier location Y end up in the same domain of key k?
Overlap(o, cfg, X, Y, k) == IF X.id = Y.id THEN TDom(cfg, X, k) # {} ELSE TDom(cfg, X, k) \cap DomFor(o, cfg, Y, k) # {}

PoolTaints(cfg, pn) == IF \E x \in Range(cfg.pools) : x.name = pn THEN (CHOOSE x \in Range(cfg.pools) : x.name = pn).taints ELSE <<>>
NotReadyTaint == [key |-> "node.kubernetes.io/not-ready", value |-> "", effect |-> "NoSchedule"]
\* every labelling over key set K a node launched from claim T may carry, as far as its requirements say
ClaimLabellings(cfg, T, K) ==
    LET D == [k \in K |-> TDom(cfg, T, k) \cup (IF k # "host" /\ (k \notin DOMAIN T.reqs \/ AbsentPossible(T, k)) THEN {Absent} ELSE {})]
    IN {L \in [K -> UNION {D[k] : k \in K}] : \A k \in K : L[k] \in D[k]}
(* Does a node at location T take part in spread constraint s of pod p (node inclusion policies)?  lo = certainly,     *)
(* hi = possibly.  nodeAffinityPolicy Honor (default): only nodes matching p's node selector / required node affinity; *)
(* nodeTaintsPolicy Honor: only nodes whose NoSchedule/NoExecute taints p tolerates (default Ignore).  The two answers *)
(* differ for a NodeClaim whose labels are still open and for a not yet initialized node (startup / not-ready taints).  *)
Inc(o, cfg, p0, s, T) ==
    \* counterfactuals: the node filter of another pod (fpod), or of the pod object as relaxed so far (dpod: remaining terms, added toleration)
    LET p == IF o.fpod # <<>> THEN o.fpod[1] ELSE IF o.dpod # <<>> THEN [p0 EXCEPT !.terms = o.dpod[1].terms, !.tol = o.dpod[1].tol] ELSE p0 IN
    IF ~o.policies THEN [lo |-> TRUE, hi |-> TRUE]
    ELSE IF T.kind = "node"
    THEN IF ~KnownNode(cfg, T.node) THEN [lo |-> FALSE, hi |-> FALSE]
         ELSE LET n == NodeByName(cfg, T.node)
                  aff == s.affPol = "Ignore" \/ NodeAffHolds(cfg, p, NodeLabelling(n))
                  \* taints only the Node object carries (scenario field nodeTaints): certain on an initialized / unmanaged node; on a
                  \* node that is not initialized yet they may or may not be looked at (like its startup / not-ready taints)
                  nt == Fld(n, "nodeTaints", <<>>)
                  settled == n.stage \in {"initialized", "unmanaged"}
                  extra == IF n.stage \in {"registered", "appeared"} THEN n.startup \o (IF n.ephemeral THEN <<NotReadyTaint>> ELSE <<>>) ELSE <<>>
                  t1 == s.taintPol # "Honor" \/ TaintsOK(o, p.tol, IF settled THEN n.taints \o nt ELSE n.taints)
                  t2 == s.taintPol # "Honor" \/ TaintsOK(o, p.tol, n.taints \o nt \o extra)
              IN [lo |-> aff /\ t1 /\ t2, hi |-> aff /\ (t1 \/ t2)]
    ELSE LET Ls == ClaimLabellings(cfg, T, NodeConstraintKeys(p))
             tt == s.taintPol # "Honor" \/ TaintsOK(o, p.tol, PoolTaints(cfg, T.pool))
         IN IF o.endForm THEN [lo |-> tt /\ (s.affPol = "Ignore" \/ NodeConstraintKeys(p) = {}), hi |-> tt]
            ELSE [lo |-> tt /\ (s.affPol = "Ignore" \/ \A L \in Ls : NodeAffHolds(cfg, p, L)),
                  hi |-> tt /\ (s.affPol = "Ignore" \/ \E L \in Ls : NodeAffHolds(cfg, p, L))]

----------------------------------------------------------------------------
(* the world: W = [cfg, batch (keys of the pods this pass schedules), plc (sequence of [pod, tid] in commit order),   *)
(* tg (tid -> location record)]                                                                                         *)
PlacedKeys(W) == {W.plc[i].pod : i \in DOMAIN W.plc}
PlcIdx(W, k) == CHOOSE i \in DOMAIN W.plc : W.plc[i].pod = k
Running(o, W) ==
    {q \in Range(W.cfg.pods) : /\ q.node # "" /\ HasNodeObj(W.cfg, q.node)
                                /\ (o.exclude => PKey(q) \notin W.batch /\ ~Terminating(q) /\ ~TerminalPod(q))}
Present(o, W) == Running(o, W) \cup {PodByKey(W.cfg, k) : k \in {x \in PlacedKeys(W) : KnownPod(W.cfg, x)}}
Loc(W, q) == IF PKey(q) \in PlacedKeys(W) THEN W.tg[W.plc[PlcIdx(W, PKey(q))].tid] ELSE NodeT(q.node)
\* the location of placed pod q as it was when q was committed (plc entries may carry it as field `at`)
AtCommit(W, q) == LET e == W.plc[PlcIdx(W, PKey(q))] IN Fld(e, "at", W.tg[e.tid])
UndefAtCommit(W, q, fp) == LET T == AtCommit(W, q) IN
    T.kind = "claim" /\ \E k \in NodeConstraintKeys(fp) : k \in DOMAIN T.reqs /\ ~T.reqs[k].defined
UndefCustomAtCommit(W, q, fp) == LET T == AtCommit(W, q) IN
    T.kind = "claim" /\ \E k \in NodeConstraintKeys(fp) \ WellKnown : k \in DOMAIN T.reqs /\ ~T.reqs[k].defined
Others(o, W, p) == {q \in Present(o, W) : PKey(q) # PKey(p)}
\* W without pod p's placement
Without(W, p) == [W EXCEPT !.plc = SelectSeq(W.plc, LAMBDA e : e.pod # PKey(p))]

----------------------------------------------------------------------------
(* G_C02_Anti: pod p (original record) goes to location x; none of the pods matched by a required anti-affinity term  *)
(* of p may share the term's topology domain with x.                                                                   *)
AntiConf(o, W, p, x) ==    \* set of <<term index, key of the pod in the way>>
    UNION {{<<i, PKey(q)>> : q \in {r \in Others(o, W, p) : TermMatches(W.cfg, p.anti[i], p, r) /\ Overlap(o, W.cfg, x, Loc(W, r), p.anti[i].key)}}
           : i \in DOMAIN p.anti}
G_C02_Anti(o, W, p, x) == AntiConf(o, W, p, x) = {}

(* G_C02_AntiInverse: no pod already there (running pods included) has a required anti-affinity term that matches p   *)
(* and whose domain x may share.                                                                                       *)
InvConf(o, W, p, x) ==     \* set of <<key of the pod owning the term, term index>>
    IF ~o.inverse THEN {}
    ELSE UNION {{<<PKey(q), i>> : i \in {j \in DOMAIN q.anti : TermMatches(W.cfg, q.anti[j], q, p) /\ Overlap(o, W.cfg, x, Loc(W, q), q.anti[j].key)}}
                : q \in Others(o, W, p)}
G_C02_AntiInverse(o, W, p, x) == InvConf(o, W, p, x) = {}

(* G_C02_Affinity: every domain x may end up in certainly holds a pod matched by the term (a pod on x itself shares    *)
(* whatever domain x gets), or p matches its own term and no matching pod may be in a domain p can use.                *)
AffParts(o, W, p, x, t) ==
    LET cfg == W.cfg
        k == t.key
        M == {q \in Others(o, W, p) : TermMatches(cfg, t, p, q)}
        Dx == TDom(cfg, x, k)
        cert(q, d) == IF o.certain THEN Loc(W, q).id = x.id \/ TDom(cfg, Loc(W, q), k) = {d}
                      ELSE Loc(W, q).id = x.id \/ d \in TDom(cfg, Loc(W, q), k)
        reach(q) == \E v \in TDom(cfg, Loc(W, q), k) : AllowsKey(o, cfg, p, k, v)
    IN [haskey  |-> Dx # {},
        matched |-> \A d \in Dx : \E q \in M : cert(q, d),
        self    |-> TermMatches(cfg, t, p, p),
        lonely  |-> ~\E q \in M : reach(q),
        any     |-> M # {}]
AffTermOK(o, W, p, x, t) ==
    \* a target WITHOUT the topology key is in no domain at all: the statement has nothing to say (kube-scheduler would refuse
    \* the node; the trace spec reports it as the non-verdict note Note_C02_TargetLacksKey)
    LET a == AffParts(o, W, p, x, t) IN ~a.haskey \/ a.matched \/ (a.self /\ (~o.bootstrap \/ a.lonely))
G_C02_Affinity(o, W, p, x) == \A i \in DOMAIN p.aff : AffTermOK(o, W, p, x, p.aff[i])

(* What the universe of (p, s) must at least contain, whatever Karpenter's policy adds (sanity guard of the logged      *)
(* universe): the domain of every existing node that certainly takes part and is not on its way out, and every domain   *)
(* a counted pod is certainly in.                                                                                       *)
ULow(o, W, p, s) ==
    LET cfg == W.cfg IN
    UNION {IF ~n.marked /\ ~n.deleting /\ n.stage # "claimonly" /\ Inc(o, cfg, p, s, NodeT(n.name)).lo THEN TDom(cfg, NodeT(n.name), s.key) ELSE {}
           : n \in Range(cfg.nodes)}
    \cup UNION {LET D == TDom(cfg, Loc(W, q), s.key) IN IF Cardinality(D) = 1 THEN D ELSE {}
                : q \in {r \in Others(o, W, p) : SpreadMatches(o, s, p, r) /\ (r \in Running(o, W) \/ (~o.endForm /\ Carries(r, s, p)))
                                                     /\ Inc(o, cfg, p, s, Loc(W, r)).lo}}

(* G_C02_Spread: for every domain d the location may end up in: (pods certainly in d that count) + (1 if p matches its  *)
(* own selector) - (global minimum) <= maxSkew.  Counted in d: running pods and earlier-placed carriers of the same     *)
(* constraint whose location is certainly d and certainly takes part; the minimum is over the eligible domains D (the   *)
(* universe U = UL (Karpenter's own, logged) + ULow restricted to the values p's own node constraints admit, unless nodeAffinityPolicy is Ignore) of all      *)
(* matching pods that are possibly there (hostname: D = the nodes and NodeClaims that certainly take part); it is 0     *)
(* when fewer than minDomains domains are eligible.                                                                     *)
SpreadParts(o, W, p, x, s, UL) ==
    LET cfg == W.cfg
        k == s.key
        U == UL \cup ULow(o, W, p, s)
        R == Running(o, W)
        P == {q \in Others(o, W, p) : SpreadMatches(o, s, p, q) /\ (o.since > 0 => q \in R \/ PlcIdx(W, PKey(q)) > o.since)
                                        /\ (o.undefSkips => q \in R \/ ~UndefAtCommit(W, q, IF o.fpod = <<>> THEN p ELSE o.fpod[1]))
                                        /\ (o.undefCustom => q \in R \/ ~UndefCustomAtCommit(W, q, IF o.fpod = <<>> THEN p ELSE o.fpod[1]))}
        inc == [q \in P |-> Inc(o, cfg, p, s, Loc(W, q))]
        dom == [q \in P |-> TDom(cfg, Loc(W, q), k)]
        sure == {q \in P : q \in R \/ Carries(q, s, p)}
        \* a pod that counts for sure occupies EVERY domain its node may end up in (count side) and is certain only in a
        \* collapsed one (minimum side); a matching batch pod that does not carry the constraint is ignored on the count
        \* side and possibly anywhere on the minimum side
        lo(d) == Cardinality({q \in sure : d \in dom[q] /\ inc[q].lo})
        hi(d) == Cardinality({q \in P : inc[q].hi /\ (IF q \in sure THEN dom[q] = {d} ELSE o.endForm \/ d \in dom[q])})
        Dx == TDom(cfg, x, k)
        \* hostname: every domain is one node; the eligible ones are the nodes that certainly take part (Kubernetes has no
        \* notion of "a node that could be created": Karpenter assuming a minimum of 0 is stricter and accepted)
        HostD == {n.name : n \in {m \in Range(cfg.nodes) : m.stage # "claimonly" /\ ~m.marked /\ ~m.deleting /\ Inc(o, cfg, p, s, NodeT(m.name)).lo}}
                 \cup (IF o.endForm THEN {} ELSE {id \in DOMAIN W.tg : W.tg[id].kind = "claim" /\ Inc(o, cfg, p, s, W.tg[id]).lo})
        D == (IF k = "host" THEN HostD
              ELSE {e \in U : (o.policies /\ o.ignoreWidens /\ s.affPol = "Ignore") \/ AllowsKey(o, cfg, p, k, e)}) \cup Dx
        self == IF SpreadMatches(o, s, p, p) THEN 1 ELSE 0
        \* (the order-free form does not know the universe, and a smaller one would wrongly trigger minDomains)
        mn == IF o.minDomains /\ ~o.endForm /\ s.minDomains > 0 /\ Cardinality(D) < s.minDomains THEN 0 ELSE MinS({hi(e) : e \in D})
    IN [haskey |-> Dx # {}, dx |-> Dx, d |-> D, min |-> mn, self |-> self,
        cnt |-> [d \in Dx |-> lo(d)], hi |-> [e \in D |-> hi(e)],
        okd |-> [d \in Dx |-> lo(d) + self - mn <= s.maxSkew + o.slack],
        \* per domain of the universe: pods counted for sure / every matching pod possibly there (for the comparison with the code's counts)
        loOn |-> [e \in U \cup D |-> lo(e)],
        posOn |-> [e \in U \cup D |-> Cardinality({q \in P : e \in dom[q] /\ inc[q].hi})],
        ok |-> \A d \in Dx : lo(d) + self - mn <= s.maxSkew + o.slack]
SpreadOK(o, W, p, x, s, U) == SpreadParts(o, W, p, x, s, U).ok
DnsIdx(p) == {i \in DOMAIN p.spread : p.spread[i].when = "DoNotSchedule"}
G_C02_Spread(o, W, p, x, Uof(_)) == \A i \in DnsIdx(p) : SpreadOK(o, W, p, x, p.spread[i], Uof(p.spread[i]))

----------------------------------------------------------------------------
(* END-STATE forms: W holds ALL placements of the pass; no commit order is needed (they work without hook H1).          *)
PlacedPods(W) == {PodByKey(W.cfg, k) : k \in {x \in PlacedKeys(W) : KnownPod(W.cfg, x)}}
\* anti-affinity in either direction: every conflict shows up as <<owner of the term, term index, pod in the way>>
EndAntiConf(o, W) ==
    UNION {{<<PKey(p), c[1], c[2]>> : c \in AntiConf(o, W, p, Loc(W, p))} : p \in PlacedPods(W)}
    \cup UNION {{<<c[1], c[2], PKey(p)>> : c \in {y \in InvConf(o, W, p, Loc(W, p)) : y[1] \notin PlacedKeys(W)}} : p \in PlacedPods(W)}
(* affinity without order: the term is matched in every domain, or p matches itself and (a) no pod that was RUNNING     *)
(* before the pass is reachable and (b) no other self-starter of the same term sits in a domain p could have used while *)
(* p sits in one the other could have used (whoever came second had a reachable match).                                 *)
EndAffTermOK(o, W, p, t) ==
    LET cfg == W.cfg
        x == Loc(W, p)
        a == AffParts(o, Without(W, p), p, x, t)
        k == t.key
        reachRunning == \E q \in Running(o, W) : PKey(q) # PKey(p) /\ TermMatches(cfg, t, p, q)
                                                  /\ \E v \in TDom(cfg, Loc(W, q), k) : PodAllowsKey(cfg, p, k, v)
        rival(q) == /\ PKey(q) # PKey(p) /\ TermMatches(cfg, t, p, q)
                    /\ \E j \in DOMAIN q.aff : /\ TermMatches(cfg, q.aff[j], q, q) /\ TermMatches(cfg, q.aff[j], q, p) /\ q.aff[j].key = k
                                               /\ ~AffParts(o, Without(W, q), q, Loc(W, q), q.aff[j]).matched
                    /\ (\E v \in TDom(cfg, Loc(W, q), k) : PodAllowsKey(cfg, p, k, v))
                    /\ (\E v \in TDom(cfg, x, k) : PodAllowsKey(cfg, q, k, v))
    IN ~a.haskey \/ a.matched \/ (a.self /\ ~reachRunning /\ ~\E q \in PlacedPods(W) : rival(q))
EndAffBad(o, W) == UNION {{<<PKey(p), i>> : i \in {j \in DOMAIN p.aff : ~EndAffTermOK(o, W, p, p.aff[j])}} : p \in PlacedPods(W)}
(* spread without order: for every domain d the pod may be in, SOME carrier of the constraint placed (possibly) in d in   *)
(* this pass could have been admitted last (the one that really was, was admitted with a count of d no smaller and a    *)
(* minimum no larger than the final ones)                                                                               *)
EndSpreadOK(o, W, p, s, Uof(_, _)) ==
    LET cfg == W.cfg
        Dp == TDom(cfg, Loc(W, p), s.key)
        C(d) == {q \in PlacedPods(W) : Carries(q, s, p) /\ d \in TDom(cfg, Loc(W, q), s.key)}
    IN \A d \in Dp : \E q \in C(d) : \E i \in CarriesIdx(q, s, p) :
                      SpreadParts([o EXCEPT !.endForm = TRUE], Without(W, q), q, Loc(W, q), q.spread[i], Uof(q, q.spread[i])).okd[d]
EndSpreadBad(o, W, Uof(_, _)) ==
    UNION {{<<PKey(p), i>> : i \in {j \in DnsIdx(p) : ~EndSpreadOK(o, W, p, p.spread[j], Uof)}} : p \in PlacedPods(W)}

----------------------------------------------------------------------------
(* signatures (normalised witness classes for known-finding matching) *)
KindOf(W, q) == IF PKey(q) \in PlacedKeys(W) THEN Loc(W, q).kind ELSE "running"
SigAnti(W, p, x, c) ==       \* c = <<term index, key of the other pod>>
    LET q == PodByKey(W.cfg, c[2]) IN
    "anti:" \o p.anti[c[1]].key \o ":" \o x.kind \o "-vs-" \o KindOf(W, q) \o (IF Loc(W, q).id = x.id THEN ":same-target" ELSE "")
SigInv(W, p, x, c) ==        \* c = <<key of the owner, term index>>
    LET q == PodByKey(W.cfg, c[1]) IN
    "inverse:" \o q.anti[c[2]].key \o ":" \o x.kind \o "-vs-" \o KindOf(W, q) \o (IF Loc(W, q).id = x.id THEN ":same-target" ELSE "")
SigAff(o, W, p, x, t, e, known) ==
    LET a == AffParts(o, W, p, x, t)
        M == {q \in Others(o, W, p) : TermMatches(W.cfg, t, p, q)}
        reach == {q \in M : \E v \in TDom(W.cfg, Loc(W, q), t.key) : PodAllowsKey(W.cfg, p, t.key, v)}
    IN
    IF a.haskey /\ ~a.matched /\ a.self /\ ~a.lonely
    THEN \* a second self-starter: classify the known causes narrowly
         IF "F-C02-5" \in known /\ e # <<>> /\ Len(p.terms) > 1 /\ AffTermOK([o EXCEPT !.dpod = e], W, p, x, t) THEN "affinity:self-start:match-reachable-only-via-later-term"
         ELSE IF \A q \in reach : PKey(q) \in PlacedKeys(W) /\ Cardinality(TDom(W.cfg, AtCommit(W, q), t.key)) > 1
              THEN (IF \E q \in reach : \E j \in DOMAIN q.aff : TermMatches(W.cfg, q.aff[j], q, q) /\ q.aff[j].key = t.key
                    THEN (IF "F-C02-9" \in known THEN "affinity:self-start:earlier-self-starter-left-with-several-domains"
                          ELSE "affinity:" \o t.key \o ":" \o x.kind \o ":self-start-while-earlier-self-starter-undetermined")
                    ELSE (IF "F-C02-10" \in known THEN "affinity:self-start:earlier-match-domain-undetermined"
                          ELSE "affinity:" \o t.key \o ":" \o x.kind \o ":self-start-while-match-reachable"))
         ELSE "affinity:" \o t.key \o ":" \o x.kind \o ":self-start-while-match-reachable"
    ELSE "affinity:" \o t.key \o ":" \o x.kind \o
         (IF ~a.haskey THEN ":target-lacks-key"
          ELSE IF a.any THEN (IF Cardinality(TDom(W.cfg, x, t.key)) > 1 THEN ":domain-undetermined" ELSE ":match-elsewhere")
          ELSE ":no-match")
(* Why did the spread guard fail?  Each known cause is a COUNTERFACTUAL that must explain the admission completely: when  *)
(* EXACTLY that deviation from Kubernetes semantics is granted - and nothing else - (1) the admission passes and (2) the *)
(* spec's counts reproduce the counts the code itself held for the constraint after the commit, on EVERY domain of the   *)
(* code's group (certain count <= code's count <= possible count).  (2) is what keeps a known cause from swallowing a    *)
(* different defect: a deviation that merely makes the guard lenient (a minimum over fewer domains, a node filter that   *)
(* matches nothing) does not explain counts that are off.  The code's counts are used for this classification only,      *)
(* never for the verdict.  e = the pod object Karpenter scheduled with (relaxations applied); groups = the code's own     *)
(* groups for the constraint (Sched.topo: owned, same key and maxSkew).  Anything else stays unclassified = a violation. *)
Reproduces(o, W, p, x, s, U, g) ==
    LET a == SpreadParts(o, W, p, x, s, U) IN
    \* (hostname: the code names a node that has no Node object yet after its NodeClaim, "nc-<name>" - not comparable)
    \A e \in (DOMAIN g.domains \cap DOMAIN a.loOn) \ {"nc-" \o n.name : n \in {m \in Range(W.cfg.nodes) : m.stage = "claimonly"}} :
        \* the admitted pod itself is in the code's count iff the target takes part under the (counterfactual) node filter
        LET ix == Inc(o, W.cfg, p, s, x)
            meLo == IF e \in a.dx /\ ix.lo THEN a.self ELSE 0
            meHi == IF e \in a.dx /\ ix.hi THEN a.self ELSE 0
        IN a.loOn[e] + meLo <= g.domains[e] /\ g.domains[e] <= a.posOn[e] + meHi
Explains(o, W, p, x, s, U, groups) == SpreadOK(o, W, p, x, s, U) /\ \E g \in groups : Reproduces(o, W, p, x, s, U, g)
SpreadCause(o, W, p, x, s, U, e, groups, known) ==
    LET relaxed == e # <<>> /\ (e[1].tol # p.tol \/ e[1].terms # p.terms)
        mds == {g.minDomains : g \in groups} \ {s.minDomains}
        owners == UNION {Range(g.owners) : g \in groups}
        \* pods whose node filter the code may have judged p with: the other owners of the code's group, and (an ownerless group
        \* survives the requeue of the pod that created it) every batch pod with a constraint on the same key whose node
        \* filter constrains the same label keys with other values - the identity of a group ignores the values
        oth == {q \in {PodByKey(W.cfg, k) : k \in {y \in owners \cup W.batch : KnownPod(W.cfg, y)}} :
                    /\ q.sel # p.sel \/ q.terms # p.terms \/ q.tol # p.tol
                    /\ PKey(q) \in owners \/ (NodeConstraintKeys(q) = NodeConstraintKeys(p) /\ \E i \in DnsIdx(q) : q.spread[i].key = s.key)}
        \* ... and those pods as relaxation may have left them (leading required terms dropped)
        othR == oth \cup UNION {{[q EXCEPT !.terms = SubSeq(q.terms, k, Len(q.terms))] : k \in 2..Len(q.terms)} : q \in oth}
        K(id) == id \in known        \* only the findings still listed as `known` may explain anything (a fixed one is a regression)
        c1 == K("F-C02-2") /\ \E m \in mds : Explains(o, W, p, x, [s EXCEPT !.minDomains = m], U, {g \in groups : g.minDomains = m})
        c2 == K("F-C02-3") /\ s.affPol = "Ignore" /\ Explains([o EXCEPT !.ignoreWidens = FALSE], W, p, x, s, U, groups)
        c3 == K("F-C02-4") /\ e # <<>> /\ Len(p.terms) > 1 /\ Explains([o EXCEPT !.dpod = e], W, p, x, s, U, groups)
        c4 == K("F-C02-6") /\ s.taintPol = "Honor" /\ Explains([o EXCEPT !.preferTaint = TRUE], W, p, x, s, U, groups)
        c5 == K("F-C02-1") /\ relaxed /\ \E j \in DOMAIN W.plc : Explains([o EXCEPT !.since = j], W, p, x, s, U, groups)
        c6 == K("F-C02-7") /\ \E q \in othR : Explains([o EXCEPT !.fpod = <<q>>], W, p, x, s, U, groups)
        c8 == K("F-C02-12") /\ Explains([o EXCEPT !.undefCustom = TRUE], W, p, x, s, U, groups)
        c7 == K("F-C02-8") /\ Explains([o EXCEPT !.undefSkips = TRUE], W, p, x, s, U, groups)
        \* several of the deviations acting together: the ones that only move the minimum (another pod's minDomains, Ignore policy,
        \* first term) are granted at once, each of the ones that change the counts is granted or not - and the combination must
        \* still reproduce the code's counts on every domain
        oMin == [o EXCEPT !.ignoreWidens = ~K("F-C02-3"), !.dpod = IF K("F-C02-4") /\ e # <<>> /\ Len(p.terms) > 1 THEN e ELSE <<>>]
        call == K("F-C02-11") /\
                \E m \in (IF K("F-C02-2") THEN mds ELSE {}) \cup {s.minDomains} :
                \E uc \in (IF K("F-C02-12") THEN BOOLEAN ELSE {FALSE}) :
                \E pt \in (IF K("F-C02-6") THEN BOOLEAN ELSE {FALSE}) : \E us \in (IF K("F-C02-8") THEN BOOLEAN ELSE {FALSE}) :
                \E j \in (IF K("F-C02-1") /\ relaxed THEN DOMAIN W.plc ELSE {}) \cup {0} :
                \E fq \in (IF K("F-C02-7") THEN {<<q>> : q \in othR \cup {p}} ELSE {}) \cup {<<>>} :  \* (p itself: a relaxed pod that falls back into the group of its original form)
                    Explains([oMin EXCEPT !.preferTaint = pt /\ s.taintPol = "Honor", !.undefSkips = us, !.undefCustom = uc, !.since = j, !.fpod = fq], W, p, x,
                             [s EXCEPT !.minDomains = m], U, {g \in groups : g.minDomains = m})
    IN IF c1 THEN ":minDomains-of-another-pods-constraint"
       ELSE IF c2 THEN ":ignore-policy-minimum-over-own-domains"
       ELSE IF c3 THEN ":minimum-over-first-term-only"
       ELSE IF c4 THEN ":honor-excludes-prefer-no-schedule"
       ELSE IF c5 THEN ":placements-forgotten-after-relaxation"
       ELSE IF c6 THEN ":node-filter-of-another-pod"
       ELSE IF c7 THEN ":claim-with-undefined-label-not-counted"
       ELSE IF c8 THEN ":claim-with-undefined-custom-label-not-counted"
       ELSE IF call THEN ":several-known-causes"
       ELSE ""
SigSpread(o, W, p, x, s, U, cause) ==
    LET a == SpreadParts(o, W, p, x, s, U) IN
    IF cause # "" THEN "spread" \o cause
    ELSE "spread:" \o s.key \o ":" \o x.kind \o
         (IF ~a.haskey THEN ":target-lacks-key" ELSE IF Cardinality(a.dx) > 1 THEN ":domain-undetermined" ELSE ":unclassified")
=============================================================================
