\* scenario generation: every scenario of the scope (initial states only), printed as JSON
CONSTANTS NPods = 2  PodArchs = {1,2,3,4,5,6,7,8,9,10,11,12}  Catalogs = {1,2,3,4}  PoolSets = {1,2,3,4,5}  Existings = {0,1,2,3}  Daemons = {0,1,2,3}
CONSTANTS W_Avail = TRUE  W_Overhead = TRUE  W_Ports = TRUE  W_KeepTerm = TRUE  W_Override = TRUE  W_Refilter = TRUE  W_InitTaints = TRUE
SPECIFICATION GenSpec
INVARIANTS GenPrint
