\* exhaustive, price focus, thorough tier: prices {1,2,3}, zone zb same / overlay-priced / unavailable / not offered
CONSTANTS NTypes = 2  Prices = {1, 2, 3}  ZMods = {"same", "dear", "unavail", "none"}  MaxCands = 2  MinS2S = 2  Focus = "price"  UnavCTs = {}  Weak = ""  GenMod = 1  GenRes = 0
SPECIFICATION Spec
INVARIANTS TypeOK Inv_C06_CostDecreases Inv_C06_AtMostOneLaunch Inv_C06_SpotToSpotFeature Inv_C06_SpotToSpotAlternatives Inv_C06_SpotToSpotSettles Inv_C06_NotWorseThanKeeping Inv_C06_EmptyHarmless Inv_C06_PodsSchedulable
