\* spec mutation: the what-if copy walks the raw storage slice (the pinned tree's behaviour before the fix);
\* TLC must report a violation of Inv_C20_DryRunAgrees
CONSTANTS Size = 4  DryRunWalk = "storage"  MaxLen = 60
SPECIFICATION Spec
VIEW view
INVARIANTS TypeOK Inv_C20_Refines Inv_C20_DryRunAgrees
PROPERTIES Act_C20_StepRule
