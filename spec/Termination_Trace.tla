-------------------------- MODULE Termination_Trace --------------------------
(***************************************************************************)
(* Trace validation for C09 / C10.  Every API and provider event recorded  *)
(* from the real nodeclaim lifecycle controller (launch + finalize), the   *)
(* node termination controller and the terminator's eviction queue is      *)
(* folded into one state record; finalizer-removing writes, evictions and  *)
(* pod deletions are judged by the guards of TerminationGuards.tla.        *)
(*                                                                         *)
(* Observed (from the log): NodeClaim, Node, pods, volume attachments as   *)
(* stored after each write, the provider's instance table, the eviction    *)
(* queue (pod -> deadline) after each reconcile.                           *)
(* Ghosts (computed here): provider ids really created for the claim       *)
(* (everCreated - not status.providerID), provider ids for which the       *)
(* provider answered NotFound to Karpenter, the earliest deadline each pod *)
(* was queued under, the last NodeClaim seen.                              *)
(***************************************************************************)
EXTENDS TerminationGuards, Json, IOUtils

VARIABLES l, st, viol, ntr, done
tvars == <<l, st, viol, ntr, done>>

Trace == ndJsonDeserialize(IOEnv.TRACE)
Ev == Trace[l]
Absent == [exists |-> FALSE]
Chk(ok, guard, sig) == IF ok THEN <<>> ELSE <<[line |-> l, guard |-> guard, sig |-> sig]>>

St0(cfg) == [cfg |-> cfg, claim |-> Absent, lastClaim |-> Absent, nodes |-> <<>>,  \* nodes: name -> record
             minDl |-> -1,                           \* ghost: earliest termination time the NodeClaim ever carried
             pods |-> <<>>, vas |-> <<>>,           \* name -> record
             inst |-> <<>>,                          \* provider instance table (sequence)
             created |-> {}, notFound |-> {},        \* ghosts: pids created for the claim / reported NotFound to Karpenter
             lostPids |-> {},                        \* ghost: created pids that were not persisted when the process restarted
             queue |-> <<>>,                         \* pod name -> [uid, dl] as projected after the last reconcile
             qU |-> <<>>,                            \* ghost: pod uid -> earliest deadline it was queued under (this process)
             ctl |-> "-", obj |-> "-",               \* controller whose (outermost) reconcile is running, and its object
             depth |-> 0,                            \* reconciles in flight (an eviction-queue reconcile may run inside a mid-reconcile step)
             view |-> Absent,                        \* the informer copy an eviction-queue reconcile was handed
             \* what the running node-termination reconcile read: pods / volume attachments of the node at its last
             \* list call (only known when reads are logged; otherwise the store at the instant of the write is used,
             \* which is the same thing when no foreign step interleaves)
             obsP |-> [valid |-> FALSE, set |-> {}], obsV |-> [valid |-> FALSE, set |-> {}],
             obsP1 |-> [valid |-> FALSE, set |-> {}],  \* ... at its FIRST pod list (the drain's view)
             beginUids |-> {},                       \* uids of the pods bound to the reconciled node when the reconcile began
             qEver |-> <<>>]                         \* ghost: pod uid -> earliest deadline it was EVER enqueued under while it
                                                     \* stayed un-handled (kept when the implementation drops and re-adds the entry)

TraceInit == l = 1 /\ st = St0(Absent) /\ viol = <<>> /\ ntr = 0 /\ done = FALSE

Upd(f, k, v) == [x \in DOMAIN f \cup {k} |-> IF x = k THEN v ELSE f[x]]
Recs(f) == {f[k] : k \in {x \in DOMAIN f : f[x].exists}}
SA == st.cfg.stuckAfter
PodsOn(nodeName) == {p \in Recs(st.pods) : p.node = nodeName}
VasOn(nodeName) == {v \in Recs(st.vas) : v.node = nodeName}
Karpenter == Ev.actor # "env"
Post == IF Ev.gone THEN Absent ELSE Ev.post
IsClaim == Ev.kind = "NodeClaim" /\ Ev.name = st.cfg.claim
IsNode == Ev.kind = "Node"
NodePre == IF Ev.name \in DOMAIN st.nodes THEN st.nodes[Ev.name] ELSE Absent
\* the deadline of the node: the NodeClaim's termination timestamp (last seen, the claim may be gone)
NodeDeadline == IF st.lastClaim.exists THEN st.lastClaim.terminationAt ELSE -1
TgpSet == st.lastClaim.exists /\ st.lastClaim.tgp >= 0
\* deadline a pod is handled under: the earliest it was ever queued with while un-handled, else the earliest of its
\* current stay in the queue, else the node's current one
DlOf(p) == IF p.uid \in DOMAIN st.qEver THEN st.qEver[p.uid]
           ELSE IF p.uid \in DOMAIN st.qU THEN st.qU[p.uid] ELSE NodeDeadline
\* for the ordering check at eviction time the other pods are given the benefit of the earliest deadline ever in force
\* (the annotation may have been rewritten to a later time after the drain pass that released the second class)
DlLenient(p) == DlMin(DlOf(p), st.minDl)

\* ---------------------------------------------------------------- C09
FinalizerRemoved(pre, post) == pre.exists /\ pre.finalizer /\ (~post.exists \/ ~post.finalizer)
NodePids == {n.providerID : n \in Recs(st.nodes)}

\* witness class: which created instances are not confirmed gone
\*   all of them had not been persisted in status.providerID when the controller restarted (the launch cache, their only
\*   record, died with the process)                                     -> providerID-unpersisted-after-restart
\*   the NodeClaim never got a provider id although an instance was created -> providerID-unpersisted
\*   otherwise                                                            -> instance-not-confirmed-gone
LeakSig(pre) ==
    LET leaked == st.created \ st.notFound IN
    IF leaked # {} /\ leaked \subseteq st.lostPids THEN "providerID-unpersisted-after-restart"
    ELSE IF pre.providerID = "-" THEN "providerID-unpersisted"
    ELSE "instance-not-confirmed-gone"
ClaimChecks(pre, post) ==
    IF ~(Karpenter /\ FinalizerRemoved(pre, post)) THEN <<>> ELSE
    LET q == ClaimFinalizerParts(pre, NodePids, st.created, st.notFound)
        sig == IF ~q.nodesGone THEN "node-still-present" ELSE LeakSig(pre)
        ok == G_C09_ClaimFinalizer(pre, NodePids, st.created, st.notFound)
    IN Chk(ok, "G_C09_ClaimFinalizer", sig)
       \* the user-visible invariant, judged on the provider's real table at the instant the object disappears; reported
       \* only where the guard (what Karpenter was told) held, otherwise it is the same finding twice
       \o (IF post.exists \/ ~ok THEN <<>>
           ELSE Chk(NoLeak(st.created, st.inst), "Inv_C09_NoLeak", "instance-present-although-reported-gone"))

\* the guard applies to a managed Node that has (exactly one) NodeClaim
HasClaim(n) == st.claim.exists /\ n.providerID # "-" /\ st.claim.providerID = n.providerID
\* The drain answers for every pod that was bound before the finalizer-removing reconcile looked at the node's pods:
\* its first pod list if reads are logged, else the pods that were there when it began and still are (a pod bound
\* during that reconcile, after its list, is excused: check-then-act). Volumes are judged on its last lists, else the store.
NodeChecks(pre, post) ==
    IF ~(Karpenter /\ FinalizerRemoved(pre, post) /\ HasClaim(pre)) THEN <<>> ELSE
    LET podsD == IF st.obsP1.valid THEN st.obsP1.set ELSE {p \in PodsOn(pre.name) : p.uid \in st.beginUids}
        podsV == IF st.obsP.valid THEN st.obsP.set ELSE PodsOn(pre.name)
        vas == IF st.obsV.valid THEN st.obsV.set ELSE VasOn(pre.name)
    IN Chk(G_C09_NodeFinalizer(pre, st.claim, podsD, podsV, vas, st.cfg.podPV, st.notFound, Ev.t, SA),
           "G_C09_NodeFinalizer",
           NodeFinalizerSig(pre, st.claim, podsD, podsV, vas, st.cfg.podPV, st.notFound, Ev.t, SA))

\* ---------------------------------------------------------------- C10
PodPre == IF Ev.name \in DOMAIN st.pods THEN st.pods[Ev.name] ELSE Absent
PodChecks(pre, post, ok) ==
    IF ~(Karpenter /\ Ev.kind = "Pod" /\ pre.exists) THEN <<>> ELSE
    IF Ev.verb = "evict" THEN
        Chk(G_C10_EvictOnlyEvictable(pre, Ev.t, st.cfg.dndDur), "G_C10_EvictOnlyEvictable", EvictSig(pre, Ev.t, st.cfg.dndDur))
        \o Chk(G_C10_TierOrder(pre, DlLenient(pre), PodsOn(pre.node), DlLenient, Ev.t, SA, st.cfg.dndDur), "G_C10_TierOrder", "at-evict")
    ELSE IF Ev.verb = "delete" THEN
        \* judged on the stored pod or on the (lagging) copy the reconcile was handed: a pod seen terminating beyond
        \* the deadline may be deleted again although another delete has shortened it meanwhile
        Chk(\/ G_C10_ForceOnlyWithTgpAfterThreshold(pre, DlOf(pre), TgpSet, Ev.t)
            \/ (st.view.exists /\ st.view.uid = pre.uid /\ G_C10_ForceOnlyWithTgpAfterThreshold(st.view, DlOf(pre), TgpSet, Ev.t)),
            "G_C10_ForceOnlyWithTgpAfterThreshold", ForceSig(pre, DlOf(pre), TgpSet, Ev.t))
        \o Chk(G_C10_DeleteOnlyDrainable(pre), "G_C10_DeleteOnlyDrainable", DeleteSig(pre))
        \o Chk(G_C10_GraceAtLeastOne(pre, Ev.grace), "G_C10_GraceAtLeastOne", "zero-grace")
        \o Chk(G_C10_GraceWithinDeadline(pre, Ev.grace, DlOf(pre), Ev.t), "G_C10_EarliestDeadline", "grace-beyond-queued-deadline")
    ELSE \* any other write: pods are removed by no other call
        Chk(~(ok /\ (~post.exists \/ post.deleting # pre.deleting)), "G_C10_OnlyEvictionApi", Ev.verb)

\* the eviction queue after a reconcile: q = sequence of [pod, uid, dl]
QFun(q) == [n \in {q[i].pod : i \in DOMAIN q} |-> LET i == CHOOSE j \in DOMAIN q : q[j].pod = n IN [uid |-> q[i].uid, dl |-> q[i].dl]]
Kept(old, new, n) == n \in DOMAIN old /\ n \in DOMAIN new /\ old[n].uid = new[n].uid
QueueChecks(old, new) ==
    LET names == DOMAIN new
        fresh == {n \in names : ~Kept(old, new, n)}
        bad == {n \in names : \/ (Kept(old, new, n) /\ ~G_C10_EarliestDeadline(old[n].dl, new[n].dl))
                               \* dropped and re-added while still un-handled: the earliest deadline still binds
                               \/ (new[n].uid \in DOMAIN st.qEver /\ ~G_C10_EarliestDeadline(st.qEver[new[n].uid], new[n].dl))}
        \* pods newly handed to the queue by a drain pass: ordering of the two classes
        lateClass == {n \in fresh : /\ st.ctl = "node.termination" /\ n \in DOMAIN st.pods /\ st.pods[n].exists
                                    /\ st.pods[n].uid = new[n].uid
                                    /\ ~G_C10_TierOrder(st.pods[n], new[n].dl, PodsOn(st.pods[n].node),
                                                        LAMBDA q : new[n].dl, Ev.t, SA, st.cfg.dndDur)}
    IN Chk(bad = {}, "G_C10_EarliestDeadline", "requeued-under-later-deadline")
       \o Chk(lateClass = {}, "G_C10_TierOrder", "at-enqueue")
\* ghost: earliest deadline per pod uid while it stays enqueued
QU(old, new) ==
    LET uids == {new[n].uid : n \in DOMAIN new} IN
    [u \in uids |-> LET n == CHOOSE x \in DOMAIN new : new[x].uid = u IN
                    IF u \in DOMAIN st.qU /\ Kept(old, new, n) THEN DlMin(st.qU[u], new[n].dl) ELSE new[n].dl]
\* ghost qEver: only pods that are still un-handled (running, no eviction / deletion initiated) are tracked; an entry
\* survives the implementation dropping the pod from its queue and ends when the pod is handled (an eviction or delete
\* call that succeeded or was answered 404 / 409), stops running, or the process restarts
ActivePod(n) == n \in DOMAIN st.pods /\ st.pods[n].exists /\ ~st.pods[n].deleting /\ ~Terminal(st.pods[n])
QEver(new) ==
    LET act == {n \in DOMAIN new : ActivePod(n) /\ st.pods[n].uid = new[n].uid}
        uids == DOMAIN st.qEver \cup {new[n].uid : n \in act}
    IN [u \in uids |-> IF \E n \in act : new[n].uid = u
                       THEN LET n == CHOOSE x \in act : new[x].uid = u IN
                            (IF u \in DOMAIN st.qEver THEN DlMin(st.qEver[u], new[n].dl) ELSE new[n].dl)
                       ELSE st.qEver[u]]
Drop(f, u) == [x \in DOMAIN f \ {u} |-> f[x]]
Unhandled(post) == post.exists /\ ~post.deleting /\ ~Terminal(post)

\* ---------------------------------------------------------------- events
TApi ==
    /\ Ev.e = "Api"
    /\ LET ok == Ev.err = "-"
           post == Post
           claim2 == IF IsClaim /\ ok THEN post ELSE st.claim
       IN /\ st' = [st EXCEPT !.claim = claim2,
                              !.lastClaim = IF claim2.exists THEN claim2 ELSE @,
                              !.minDl = IF claim2.exists THEN DlMin(@, claim2.terminationAt) ELSE @,
                              !.nodes = IF IsNode /\ ok THEN Upd(@, Ev.name, post) ELSE @,
                              !.pods = IF Ev.kind = "Pod" /\ ok THEN Upd(@, Ev.name, post) ELSE @,
                              !.qEver = IF /\ Ev.kind = "Pod" /\ PodPre.exists
                                           /\ \/ (ok /\ ~Unhandled(post))
                                              \/ (Karpenter /\ Ev.verb \in {"evict", "delete"} /\ Ev.err \in {"-", "NotFound", "Conflict"})
                                        THEN Drop(@, PodPre.uid) ELSE @,
                              !.vas = IF Ev.kind = "VolumeAttachment" /\ ok THEN Upd(@, Ev.name, post) ELSE @]
          /\ viol' = viol
               \o (IF IsClaim /\ ok THEN ClaimChecks(st.claim, post) ELSE <<>>)
               \o (IF IsNode /\ ok THEN NodeChecks(NodePre, post) ELSE <<>>)
               \o (IF Ev.kind = "Pod" THEN PodChecks(PodPre, post, ok) ELSE <<>>)

TEnv ==
    /\ Ev.e = "Env"
    /\ LET claim2 == IF IsClaim THEN Ev.post ELSE st.claim IN
       st' = [st EXCEPT !.claim = claim2,
                        !.lastClaim = IF claim2.exists THEN claim2 ELSE @,
                        !.minDl = IF claim2.exists THEN DlMin(@, claim2.terminationAt) ELSE @,
                        !.nodes = IF IsNode THEN Upd(@, Ev.name, Ev.post) ELSE @,
                        !.pods = IF Ev.kind = "Pod" THEN Upd(@, Ev.name, Ev.post) ELSE @,
                        !.qEver = IF Ev.kind = "Pod" /\ PodPre.exists /\ ~Unhandled(Ev.post) THEN Drop(@, PodPre.uid) ELSE @,
                        !.vas = IF Ev.kind = "VolumeAttachment" THEN Upd(@, Ev.name, Ev.post) ELSE @]
    /\ UNCHANGED viol

TProv ==
    /\ Ev.e = "Prov"
    /\ LET okCreate == Ev.call = "Create" /\ Ev.err = "-" /\ Ev.arg = st.cfg.claim
           nf == Karpenter /\ Ev.call \in {"Delete", "Get"} /\ Ev.err = "NotFound"
       IN st' = [st EXCEPT !.inst = Ev.post,
                           !.created = IF okCreate THEN @ \cup {Ev.result} ELSE @,
                           !.notFound = IF nf THEN @ \cup {Ev.arg} ELSE @]
    /\ UNCHANGED viol

NoObs == [valid |-> FALSE, set |-> {}]
TBegin == /\ Ev.e = "Begin" /\ UNCHANGED viol
          /\ st' = IF st.depth = 0
                   THEN [st EXCEPT !.ctl = Ev.controller, !.obj = Ev.object, !.view = Ev.view, !.obsP = NoObs, !.obsV = NoObs,
                                   !.obsP1 = NoObs, !.beginUids = {p.uid : p \in PodsOn(Ev.object)}, !.depth = 1]
                   ELSE [st EXCEPT !.view = Ev.view, !.depth = @ + 1]
\* a logged read of the node termination controller: remember what it saw
TRead == /\ Ev.e = "Read" /\ UNCHANGED viol
         /\ LET mine == Ev.actor = "node.termination" /\ Ev.verb = "list" /\ Ev.err = "-" IN
            st' = [st EXCEPT !.obsP = IF mine /\ Ev.kind = "Pod" THEN [valid |-> TRUE, set |-> PodsOn(st.obj)] ELSE @,
                             !.obsP1 = IF mine /\ Ev.kind = "Pod" /\ ~@.valid THEN [valid |-> TRUE, set |-> PodsOn(st.obj)] ELSE @,
                             !.obsV = IF mine /\ Ev.kind = "VolumeAttachment" THEN [valid |-> TRUE, set |-> VasOn(st.obj)] ELSE @]
TEnd == /\ Ev.e = "End" /\ st' = [st EXCEPT !.depth = IF @ > 0 THEN @ - 1 ELSE 0]
        /\ viol' = viol \o Chk(~Ev.panic, IF Ev.controller = "eviction-queue" THEN "Inv_C10_NoPanic" ELSE "Inv_C09_NoPanic", Ev.controller)
TMem ==
    /\ Ev.e = "Mem"
    /\ LET new == QFun(Ev.queue) IN
       /\ viol' = viol \o QueueChecks(st.queue, new)
       /\ st' = IF st.depth = 0
                THEN [st EXCEPT !.queue = new, !.qU = QU(st.queue, new), !.qEver = QEver(new), !.ctl = "-", !.view = Absent,
                                !.obsP = NoObs, !.obsV = NoObs, !.obsP1 = NoObs]
                ELSE [st EXCEPT !.queue = new, !.qU = QU(st.queue, new), !.qEver = QEver(new), !.view = Absent]
\* a restart loses the in-memory eviction queue (and the lifecycle launch cache)
TRestart == /\ Ev.e = "Restart"
            /\ st' = [st EXCEPT !.queue = <<>>, !.qU = <<>>, !.qEver = <<>>,
                                !.lostPids = @ \cup {p \in st.created : ~(st.claim.exists /\ st.claim.providerID = p)}]
            /\ UNCHANGED viol
\* Settled: outcome of the bounded-progress tail (evidence only: the statements of C09 / C10 are safety statements)
TOther == Ev.e \in {"Tick", "Skip", "Settled"} /\ UNCHANGED <<st, viol>>

TraceNext ==
    \/ /\ l <= Len(Trace) /\ l' = l + 1 /\ UNCHANGED done
       /\ \/ (Ev.e = "Cfg" /\ st' = St0(Ev) /\ ntr' = ntr + 1 /\ UNCHANGED viol)
          \/ ((TApi \/ TEnv \/ TProv \/ TBegin \/ TEnd \/ TMem \/ TRestart \/ TRead \/ TOther) /\ UNCHANGED ntr)
    \/ /\ l = Len(Trace) + 1 /\ ~done /\ done' = TRUE
       /\ JsonSerialize(IOEnv.OUT, [viol |-> viol, consumed |-> l - 1, traces |-> ntr])
       /\ UNCHANGED <<l, st, viol, ntr>>

TraceSpec == TraceInit /\ [][TraceNext]_tvars
=============================================================================
