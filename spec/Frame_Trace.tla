---------------------------- MODULE Frame_Trace ----------------------------
(***************************************************************************)
(* Trace validation for C18 on traces of harness/drivers/disruption and    *)
(* harness/drivers/sched recorded with VERIF_FRAME=1.                      *)
(*                                                                         *)
(* The drivers bracket every real simulation (a direct SimulateScheduling  *)
(* call; a method's GetCandidates + budget mapping + ComputeCommands incl. *)
(* the validation re-simulation) and every provisioning pass               *)
(* (Provisioner.Schedule) with Snapshot events that carry the whole world  *)
(* in the normal form of FrameGuards.tla.  Phases:                         *)
(*   pre     opens a bracket; the snapshot is the baseline                 *)
(*   rebase  judged against the baseline except section x, new baseline    *)
(*           (the candidates handed to ComputeCommands become known)       *)
(*   pause   judged; the environment moves (churn during the validation    *)
(*           wait) until `resume`, whose snapshot is the new baseline      *)
(*   post    judged, closes the bracket                                    *)
(* Between a baseline and the next judged snapshot every successful API    *)
(* write and every provider Create/Delete by anyone but the environment is *)
(* collected (`writes`).                                                   *)
(*                                                                         *)
(* Guards: G_C18_SimulationFrame (call = simulate | method),               *)
(*         G_C18_ProvisionFrame  (call = pass); one failure record per     *)
(* failing (section, class), so the report names the section: sig =        *)
(* "<section>:<class>" (node:hostPortUsage, catalog:order, api:Pod, ...),  *)
(* "write:<Kind>" or "provider:<call>".                                    *)
(***************************************************************************)
EXTENDS FrameGuards, TLC, Json, IOUtils

VARIABLES l, st, viol, ntr, done
tvars == <<l, st, viol, ntr, done>>

Trace == ndJsonDeserialize(IOEnv.TRACE)
Ev == Trace[l]

NF(ev) == [s \in Sections |-> ev[s]]
St0 == [open |-> FALSE, paused |-> FALSE, base |-> [phase |-> "none"], writes |-> <<>>, call |-> "-"]
TraceInit == l = 1 /\ st = St0 /\ viol = <<>> /\ ntr = 0 /\ done = FALSE

GuardOf(call) == IF call = "pass" THEN "G_C18_ProvisionFrame" ELSE "G_C18_SimulationFrame"
LenientOf(call) == IF call = "pass" THEN PassAllowed ELSE IF call = "method-reserving" THEN ReservingLenient ELSE SimLenient

RECURSIVE SetToSeq(_)
SetToSeq(S) == IF S = {} THEN <<>> ELSE LET x == CHOOSE y \in S : TRUE IN <<x>> \o SetToSeq(S \ {x})
SecOrder == <<"api", "node", "cache", "catalog", "instances", "x">>

\* failure records of one judged snapshot: the un-weakened guard fails iff this sequence is non-empty
Judge(skipX) ==
    LET post == NF(Ev)
        F == Failing(st.base, post, LenientOf(st.call))
        g == GuardOf(st.call)
        secFails(s) == IF skipX /\ s = "x" THEN <<>>
                       ELSE LET cs == SetToSeq(F[s]) IN [i \in DOMAIN cs |-> [line |-> l, guard |-> g, sig |-> s \o ":" \o cs[i]]]
        RECURSIVE all(_)
        all(i) == IF i > Len(SecOrder) THEN <<>> ELSE secFails(SecOrder[i]) \o all(i + 1)
        wr == [i \in DOMAIN st.writes |-> [line |-> l, guard |-> g, sig |-> st.writes[i]]]
        ok == IF st.call = "pass" THEN G_C18_ProvisionFrame(st.base, post, st.writes)
              ELSE IF st.call = "method-reserving" THEN FrameHolds(st.base, post, st.writes, ReservingLenient)
              ELSE G_C18_SimulationFrame(st.base, post, st.writes)
    IN IF ~st.open \/ st.paused THEN <<>>
       ELSE IF ok /\ ~skipX THEN <<>>                         \* the guard itself
       ELSE all(1) \o wr                                      \* which section / class / write

TSnap == /\ Ev.e = "Snapshot"
         /\ viol' = viol \o (CASE Ev.phase = "rebase" -> Judge(TRUE)
                               [] Ev.phase \in {"pause", "post"} -> Judge(FALSE)
                               [] OTHER -> <<>>)
         /\ st' = CASE Ev.phase = "pre"    -> [open |-> TRUE, paused |-> FALSE, base |-> NF(Ev), writes |-> <<>>, call |-> Ev.call]
                    [] Ev.phase = "rebase" -> IF st.open THEN [st EXCEPT !.base = NF(Ev), !.writes = <<>>] ELSE st
                    [] Ev.phase = "pause"  -> IF st.open THEN [st EXCEPT !.paused = TRUE, !.writes = <<>>] ELSE st
                    [] Ev.phase = "resume" -> IF st.open THEN [st EXCEPT !.paused = FALSE, !.base = NF(Ev), !.writes = <<>>] ELSE st
                    [] Ev.phase = "post"   -> [st EXCEPT !.open = FALSE, !.paused = FALSE, !.writes = <<>>]
                    [] OTHER -> st

Watching == st.open /\ ~st.paused
TApi == /\ Ev.e = "Api"
        /\ st' = IF Watching /\ Ev.actor # "env" /\ Ev.err = "-" THEN [st EXCEPT !.writes = Append(@, "write:" \o Ev.kind)] ELSE st
        /\ UNCHANGED viol
TProv == /\ Ev.e = "Prov"
         /\ st' = IF Watching /\ Ev.actor # "env" /\ Ev.err = "-" /\ Ev.call \in {"Create", "Delete"}
                  THEN [st EXCEPT !.writes = Append(@, "provider:" \o Ev.call)] ELSE st
         /\ UNCHANGED viol
\* every other event of either driver is consumed without effect (they are judged by their own trace specs)
TOther == Ev.e \notin {"Cfg", "Snapshot", "Api", "Prov"} /\ UNCHANGED <<st, viol>>

TraceNext ==
    \/ /\ l <= Len(Trace) /\ l' = l + 1 /\ UNCHANGED done
       /\ \/ (Ev.e = "Cfg" /\ st' = St0 /\ ntr' = ntr + 1 /\ UNCHANGED viol)
          \/ ((TSnap \/ TApi \/ TProv \/ TOther) /\ UNCHANGED ntr)
    \/ /\ l = Len(Trace) + 1 /\ ~done /\ done' = TRUE
       /\ JsonSerialize(IOEnv.OUT, [viol |-> viol, consumed |-> l - 1, traces |-> ntr])
       /\ UNCHANGED <<l, st, viol, ntr>>

TraceSpec == TraceInit /\ [][TraceNext]_tvars
=============================================================================
