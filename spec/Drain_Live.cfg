\* liveness under fairness: with a termination grace period every pod Karpenter drains is terminating or gone in the end
CONSTANTS Pods = {"p1", "p2"}  Archetypes <- ArchDl  TGPs <- BoolT  TGP = 3
  MaxNow = 4  MaxFaults = 1  MaxRestarts = 1  MaxDlChanges = 0  MaxLen = 1000  MaxSpont = 99
  EarlierMode = "earlier"  GateTiers = TRUE  MinGrace = 1  DndMode = "honour"  ThresholdSlack = 0  DropMode = "keep"  SplitMode = "waiting"
SPECIFICATION FairSpec
VIEW view
PROPERTIES Live_C10_DrainedByDeadline
