\* the statement itself on queue.go as it is, without any fault: TLC must find the lead (delete, then timeout rollback, in one pass)
CONSTANTS Nodes = {"n1", "n2"}  Cmds = {"A"}  MaxRepl = 2  T = 1  MaxNow = 2  MaxFaults = 0  MaxRestarts = 0
          DelFaults = TRUE  CodeMode = "code"  Weak = "none"  Serial = FALSE  Gen = FALSE  MaxLen = 0
SPECIFICATION Spec
INVARIANTS Inv_C08_NoDeleteAfterFailure
