\* spec mutation = queue.go before fix 43007e763 (F-C08-1: the deferred wrap declares a timeout although the deletes just succeeded), no fault: TLC must reject it
CONSTANTS Nodes = {"n1", "n2"}  Cmds = {"A"}  MaxRepl = 2  T = 1  MaxNow = 2  MaxFaults = 0  MaxRestarts = 0  MaxCandVanish = 0
          DelFaults = TRUE  CodeMode = "wrapAlways"  Weak = "none"  Serial = FALSE  Gen = FALSE  MaxLen = 0
SPECIFICATION Spec
INVARIANTS Inv_C08_NoDeleteAfterFailure
