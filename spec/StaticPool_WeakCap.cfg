\* pinned tree: the entry GC drops PendingDisruption claims and the reserved counter -> more NodeClaims than the limit
CONSTANTS N = 4  Pre = 2  Limit = 3  Replicas0 = 2  ScaleTo = {1}  Budget = 1  CodeMode = "code"  Grain = "gate"
          MaxCreateFail = 0  MaxTaintFail = 0  MaxDelete = 1  MaxDrift = 1  MaxScale = 0  MaxTimeout = 0  MaxResync = 0  MaxFlip = 99  Record = "all"  MaxLen = 40
SPECIFICATION Spec
VIEW view
INVARIANTS Cex_StaticCap
