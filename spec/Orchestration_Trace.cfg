SPECIFICATION TraceSpec
