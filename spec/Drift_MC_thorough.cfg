\* exhaustive check of the closed model, larger scope (history hidden by VIEW)
CONSTANTS Claims = {"c1"}  AtomIds = {1, 3, 6, 9, 10, 12, 17, 19}  Types = {"small", "large"}  Zones = {"zone-a", "zone-b"}  CTs = {"spot", "on-demand"}
          MaxLen = 40  MaxEdits = 3  MaxAtoms = 1  Wk = "none"
SPECIFICATION Spec
VIEW view
INVARIANTS TypeOK Inv_C15_NoSelfDrift
PROPERTIES Act_C15_HashInvariant Act_C15_HashSensitive Act_C15_Decision Act_C15_NoSelfDrift Act_C15_TemplateChangeReported Act_C15_HashStamped
