------------------------- MODULE SchedulingGuards -------------------------
(***************************************************************************)
(* Variable-free definitions shared by the closed model Scheduling.tla and *)
(* the trace specification Scheduling_Trace.tla (property C01; the record  *)
(* shapes are those of spec/SCHED_TRACE.md, i.e. of the scenario JSON the  *)
(* driver harness/drivers/sched consumes and of its Results event).        *)
(*                                                                         *)
(* The oracle is Kubernetes filter semantics over LABELLINGS (functions    *)
(* key -> value or Absent): node selector, required node affinity (OR of   *)
(* AND of the six operators), volume node affinity / allowed topologies,   *)
(* taints vs tolerations, host ports, CSI volume limits, summed requests   *)
(* vs allocatable.  Nothing here looks at how Karpenter represents or      *)
(* intersects requirements; a NodeClaim's requirement state enters only as *)
(* the OBSERVED set of labels it admits (Has-vector over the universe).    *)
(***************************************************************************)
EXTENDS Integers, Sequences, FiniteSets, TLC

NoInt  == -1000
Absent == "<absent>"
Range(s) == {s[i] : i \in DOMAIN s}
Min2(a, b) == IF a < b THEN a ELSE b

RECURSIVE SumCpu(_), SumMem(_)
\* sums over a finite set of records with cpu / mem fields
SumCpu(S) == IF S = {} THEN 0 ELSE LET x == CHOOSE y \in S : TRUE IN x.cpu + SumCpu(S \ {x})
SumMem(S) == IF S = {} THEN 0 ELSE LET x == CHOOSE y \in S : TRUE IN x.mem + SumMem(S \ {x})

----------------------------------------------------------------------------
(* Universe: cfg.universe[k] is the sequence of values of key k (all values *)
(* the scenario mentions plus one fresh value), cfg.unum[k][i] the integer  *)
(* value of the i-th one (NoInt if it is not an integer).                   *)
Keys(cfg) == DOMAIN cfg.universe
Idx(cfg, k, v) == CHOOSE i \in DOMAIN cfg.universe[k] : cfg.universe[k][i] = v
InUniverse(cfg, k, v) == k \in Keys(cfg) /\ \E i \in DOMAIN cfg.universe[k] : cfg.universe[k][i] = v
Num(cfg, k, v) == IF InUniverse(cfg, k, v) THEN cfg.unum[k][Idx(cfg, k, v)] ELSE NoInt

\* value of key k under labelling L (a function from some keys to values; missing key = Absent)
Val(L, k) == IF k \in DOMAIN L THEN L[k] ELSE Absent

(* Kubernetes meaning of one node-selector expression on a labelling *)
Admits(cfg, e, L) ==
    LET v == Val(L, e.key) IN
    CASE e.op = "In"           -> v # Absent /\ v \in Range(e.vals)
      [] e.op = "NotIn"        -> v = Absent \/ v \notin Range(e.vals)
      [] e.op = "Exists"       -> v # Absent
      [] e.op = "DoesNotExist" -> v = Absent
      [] e.op = "Gt"           -> v # Absent /\ Num(cfg, e.key, v) # NoInt /\ Num(cfg, e.key, v) > e.n
      [] e.op = "Lt"           -> v # Absent /\ Num(cfg, e.key, v) # NoInt /\ Num(cfg, e.key, v) < e.n
      [] OTHER                 -> FALSE

TermHolds(cfg, t, L) == \A i \in DOMAIN t : Admits(cfg, t[i], L)
\* required node affinity: no terms = unconstrained, otherwise SOME term holds
AnyTermHolds(cfg, terms, L) == terms = <<>> \/ \E i \in DOMAIN terms : TermHolds(cfg, terms[i], L)
SelHolds(sel, L) == \A k \in DOMAIN sel : Val(L, k) = sel[k]

\* ---- volumes: pod volume name -> PVC -> bound PV node affinity | StorageClass allowed topologies
PvcOf(cfg, p, v) == CHOOSE c \in Range(cfg.pvcs) : c.name = v /\ c.ns = p.ns
HasPvc(cfg, p, v) == \E c \in Range(cfg.pvcs) : c.name = v /\ c.ns = p.ns
PvOf(cfg, n) == CHOOSE x \in Range(cfg.pvs) : x.name = n
ScOf(cfg, n) == CHOOSE x \in Range(cfg.scs) : x.name = n
TopoTermHolds(t, L) == \A i \in DOMAIN t : Val(L, t[i].key) # Absent /\ Val(L, t[i].key) \in Range(t[i].vals)
VolHolds(cfg, p, v, L) ==
    IF ~HasPvc(cfg, p, v) THEN TRUE
    ELSE LET c == PvcOf(cfg, p, v) IN
         IF c.pv # "" THEN AnyTermHolds(cfg, PvOf(cfg, c.pv).terms, L)
         ELSE IF c.sc # "" /\ (\E x \in Range(cfg.scs) : x.name = c.sc)
              THEN LET tt == ScOf(cfg, c.sc).topologies IN tt = <<>> \/ \E i \in DOMAIN tt : TopoTermHolds(tt[i], L)
              ELSE TRUE
VolsHold(cfg, p, L) == \A v \in Range(p.vols) : VolHolds(cfg, p, v, L)
\* CSI driver of a pod volume ("" = not tracked)
VolDriver(cfg, p, v) ==
    IF ~HasPvc(cfg, p, v) THEN ""
    ELSE LET c == PvcOf(cfg, p, v) IN
         IF c.pv # "" THEN PvOf(cfg, c.pv).driver
         ELSE IF c.sc # "" /\ (\E x \in Range(cfg.scs) : x.name = c.sc) THEN ScOf(cfg, c.sc).provisioner ELSE ""

\* the ORIGINAL required constraints of pod p (a cfg.pods record) on labelling L
OrigRequired(cfg, p, L) == SelHolds(p.sel, L) /\ AnyTermHolds(cfg, p.terms, L) /\ VolsHold(cfg, p, L)

\* keys pod p's required constraints look at
ExprKeys(terms) == UNION {{terms[i][j].key : j \in DOMAIN terms[i]} : i \in DOMAIN terms}
VolKeys(cfg, p) ==
    UNION {IF ~HasPvc(cfg, p, v) THEN {}
           ELSE LET c == PvcOf(cfg, p, v) IN
                IF c.pv # "" THEN ExprKeys(PvOf(cfg, c.pv).terms)
                ELSE IF c.sc # "" /\ (\E x \in Range(cfg.scs) : x.name = c.sc)
                     THEN LET tt == ScOf(cfg, c.sc).topologies IN UNION {{tt[i][j].key : j \in DOMAIN tt[i]} : i \in DOMAIN tt}
                     ELSE {} : v \in Range(p.vols)}
PodKeys(cfg, p) == DOMAIN p.sel \cup ExprKeys(p.terms) \cup VolKeys(cfg, p)

----------------------------------------------------------------------------
(* taints and tolerations (Kubernetes: only NoSchedule / NoExecute taints   *)
(* filter; PreferNoSchedule is a preference)                                *)
Tolerates(tol, t) ==
    /\ (tol.effect = "" \/ tol.effect = t.effect)
    /\ \/ (tol.key = "" /\ tol.op = "Exists")
       \/ (tol.key = t.key /\ (tol.op = "Exists" \/ (tol.op \in {"Equal", ""} /\ tol.value = t.value)))
TaintsTolerated(tols, taints) ==
    \A t \in Range(taints) : t.effect \in {"NoSchedule", "NoExecute"} => \E x \in Range(tols) : Tolerates(x, t)

(* Taints that filter on an existing node n (cfg.nodes record): the persistent taints plus the taints the Node object      *)
(* acquired later (nodeTaints).  On an INITIALIZED (or unmanaged) node every one of them counts, whatever its key.  Only a   *)
(* Karpenter-managed node that is NOT yet initialized gets the leniency that its startup taints and the well-known ephemeral *)
(* taints (not-ready / unreachable / cloud-provider uninitialized / karpenter unregistered / readiness.k8s.io rules) are     *)
(* expected to disappear.                                                                                                   *)
KnownEphemeral == {<<"node.kubernetes.io/not-ready", "NoSchedule">>, <<"node.kubernetes.io/not-ready", "NoExecute">>,
                   <<"node.kubernetes.io/unreachable", "NoSchedule">>, <<"node.cloudprovider.kubernetes.io/uninitialized", "NoSchedule">>,
                   <<"karpenter.sh/unregistered", "NoExecute">>}
ReadinessKeys == {"readiness.k8s.io/network-ready", "readiness.k8s.io/storage-ready"}   \* the readiness.k8s.io/* keys of the alphabet
IsEphemeral(t) == <<t.key, t.effect>> \in KnownEphemeral \/ t.key \in ReadinessKeys
NodeTaintsOf(n) == IF "nodeTaints" \in DOMAIN n THEN n.nodeTaints ELSE <<>>
\* node records of other drivers (consolidation clusters) carry no stage / startup fields: every taint of theirs counts
StageOf(n) == IF "stage" \in DOMAIN n THEN n.stage ELSE "initialized"
StartupOf(n) == IF "startup" \in DOMAIN n THEN n.startup ELSE <<>>
EffTaints(n) ==
    LET all == n.taints \o NodeTaintsOf(n) IN
    IF StageOf(n) \in {"initialized", "unmanaged"} THEN all
    ELSE SelectSeq(all, LAMBDA t : ~IsEphemeral(t) /\ ~\E s \in Range(StartupOf(n)) : s.key = t.key /\ s.effect = t.effect)

\* host ports
Unspec(ip) == ip \in {"", "0.0.0.0", "::"}
PortConflict(a, b) == a.proto = b.proto /\ a.port = b.port /\ (a.ip = b.ip \/ Unspec(a.ip) \/ Unspec(b.ip))
PortsClash(ps, qs) == \E a \in Range(ps), b \in Range(qs) : PortConflict(a, b)

\* resources: a pod asks for its cpu/mem and one pod slot
LeqRes(a, b) == a.cpu <= b.cpu /\ a.mem <= b.mem /\ a.pods <= b.pods
SumReq(S) == [cpu |-> SumCpu(S), mem |-> SumMem(S), pods |-> Cardinality(S)]
AddRes(a, b) == [cpu |-> a.cpu + b.cpu, mem |-> a.mem + b.mem, pods |-> a.pods + b.pods]

----------------------------------------------------------------------------
(* scenario lookups *)
PKey(p) == p.ns \o "/" \o p.name
PodByKey(cfg, k) == CHOOSE p \in Range(cfg.pods) : PKey(p) = k
KnownPod(cfg, k) == \E p \in Range(cfg.pods) : PKey(p) = k
TypeByName(cfg, n) == CHOOSE t \in Range(cfg.types) : t.name = n
KnownType(cfg, n) == \E t \in Range(cfg.types) : t.name = n
NodeByName(cfg, n) == CHOOSE x \in Range(cfg.nodes) : x.name = n
KnownNode(cfg, n) == \E x \in Range(cfg.nodes) : x.name = n
BoundPods(cfg, n) == {p \in Range(cfg.pods) : p.node = n.name}

\* labelling Kubernetes shows (will show) for an existing / in-flight node of the scenario
NodeLabelling(n) == [k \in DOMAIN n.labels \cup {"host"} |-> IF k = "host" THEN n.name ELSE n.labels[k]]

\* a daemonset d (cfg.ds record) runs on labelling L with persistent taints ts
DaemonRuns(cfg, d, L, ts) == SelHolds(d.sel, L) /\ AnyTermHolds(cfg, d.terms, L) /\ TaintsTolerated(d.tol, ts)
DaemonKeys(d) == DOMAIN d.sel \cup ExprKeys(d.terms)

----------------------------------------------------------------------------
(* witness classes for signatures (known-finding matching needs narrow ones) *)
\* every labelling over key set K built from the universe (Absent included)
AllLabellings(cfg, K) == [K -> UNION {Range(cfg.universe[k]) : k \in K} \cup {Absent}]
\* can pod p's original required constraints hold on ANY node at all?
Satisfiable(cfg, p) == \E L \in AllLabellings(cfg, PodKeys(cfg, p)) : OrigRequired(cfg, p, L)
\* a required OR-term of p that no node can satisfy together with p's node selector (the pod itself may still be satisfiable
\* through another term)
HasDeadTerm(cfg, p) ==
    \E i \in DOMAIN p.terms : ~\E L \in AllLabellings(cfg, PodKeys(cfg, p)) : SelHolds(p.sel, L) /\ TermHolds(cfg, p.terms[i], L)
\* keys pod q constrains negatively (NotIn / DoesNotExist)
NegKeys(q) == UNION {{q.terms[i][j].key : j \in {x \in DOMAIN q.terms[i] : q.terms[i][x].op \in {"NotIn", "DoesNotExist"}}} : i \in DOMAIN q.terms}
\* p fails on labelling L but would hold if the keys K (missing from L) carried some value
HoldsOnPhantom(cfg, p, L, K) ==
    \E X \in AllLabellings(cfg, K) : OrigRequired(cfg, p, [k \in DOMAIN L \cup K |-> IF k \in K THEN X[k] ELSE L[k]])
LabelSig(cfg, failing, others(_), L) ==
    IF \A p \in failing : ~Satisfiable(cfg, p) THEN "labels:unsatisfiable-pod"
    ELSE IF \A p \in failing : ~Satisfiable(cfg, p) \/ HasDeadTerm(cfg, p) THEN "labels:pod-with-unsatisfiable-or-term"
    ELSE IF \A p \in failing : ~Satisfiable(cfg, p) \/ HoldsOnPhantom(cfg, p, L, NegKeys(p) \ DOMAIN L)
         THEN "labels:key-missing-on-node-but-negated-by-own-term"
    ELSE IF \A p \in failing : ~Satisfiable(cfg, p)
                \/ HoldsOnPhantom(cfg, p, L, (UNION {NegKeys(q) : q \in others(p)}) \ DOMAIN L)
         THEN "labels:key-missing-on-node-but-negated-by-sibling"
         ELSE "labels"

----------------------------------------------------------------------------
(* G_C01_Existing: the pods Karpenter placed on an existing / in-flight     *)
(* node n (cfg.nodes record); placed = set of ORIGINAL pod records.          *)
ExistingParts(cfg, n, placed) ==
    LET L     == NodeLabelling(n)
        bound == BoundPods(cfg, n)
        all   == bound \cup placed
        \* daemonsets that belong on n and have no pod there yet
        outst == {d \in Range(cfg.ds) : DaemonRuns(cfg, d, L, EffTaints(n)) /\ ~\E b \in bound : b.owner = "ds:" \o d.name}
        drivers == {l.driver : l \in Range(n.csi)}
        volsOf(d) == UNION {{<<p.ns, v>> : v \in {x \in Range(p.vols) : VolDriver(cfg, p, x) = d}} : p \in all}
        limitOf(d) == (CHOOSE l \in Range(n.csi) : l.driver = d).count
    IN [ target |-> ~n.marked /\ ~n.deleting,
         labels |-> \A p \in placed : OrigRequired(cfg, p, L),
         taints |-> \A p \in placed : TaintsTolerated(p.tol, EffTaints(n)),
         ports  |-> \A p \in placed : \A q \in all : PKey(q) # PKey(p) => ~PortsClash(p.ports, q.ports),
         vols   |-> \A d \in drivers : Cardinality(volsOf(d)) <= limitOf(d),
         fit    |-> LeqRes(AddRes(SumReq(all), SumReq(outst)), n.alloc) ]
G_C01_Existing(cfg, n, placed) ==
    LET x == ExistingParts(cfg, n, placed) IN x.target /\ x.labels /\ x.taints /\ x.ports /\ x.vols /\ x.fit
SigExisting(cfg, n, placed) ==
    LET x == ExistingParts(cfg, n, placed) IN
    IF ~x.target THEN "marked-or-deleting"
    ELSE IF ~x.labels THEN LET L == NodeLabelling(n)
                               Oth(p) == {q \in placed : PKey(q) # PKey(p)}
                           IN LabelSig(cfg, {p \in placed : ~OrigRequired(cfg, p, L)}, Oth, L)
    ELSE IF ~x.taints THEN "taint"
    ELSE IF ~x.ports THEN "hostport" ELSE IF ~x.vols THEN "volume-limit"
    ELSE \* resources: would it fit without the daemonsets Karpenter's existing-node path is known to overlook?
         LET L     == NodeLabelling(n)
             bound == BoundPods(cfg, n)
             outst == {d \in Range(cfg.ds) : DaemonRuns(cfg, d, L, EffTaints(n)) /\ ~\E b \in bound : b.owner = "ds:" \o d.name}
             laterTerm == {d \in outst : Len(d.terms) > 1 /\ ~TermHolds(cfg, d.terms[1], L)}
             preferNS  == {d \in outst : \E t \in Range(EffTaints(n)) : t.effect = "PreferNoSchedule" /\ ~\E y \in Range(d.tol) : Tolerates(y, t)}
             fitsWithout(D) == LeqRes(AddRes(SumReq(bound \cup placed), SumReq(outst \ D)), n.alloc)
             \* bound daemon pods whose daemonset no longer belongs on n (the node was tainted / relabelled after they were bound):
             \* Karpenter subtracts ALL bound daemon requests from the expected overhead of the daemonsets that do belong there
             stray == {b \in bound : \E d \in Range(cfg.ds) : b.owner = "ds:" \o d.name /\ ~DaemonRuns(cfg, d, L, EffTaints(n))}
             Monus(a, b) == IF a > b THEN a - b ELSE 0
             reduced == [cpu |-> Monus(SumReq(outst).cpu, SumReq(stray).cpu), mem |-> Monus(SumReq(outst).mem, SumReq(stray).mem),
                         pods |-> Monus(SumReq(outst).pods, SumReq(stray).pods)]
         IN IF stray # {} /\ LeqRes(AddRes(SumReq(bound \cup placed), reduced), n.alloc)
            THEN "resources:stray-bound-daemon-pod-subtracted-from-expected-overhead"
            ELSE IF laterTerm # {} /\ fitsWithout(laterTerm) THEN "resources:daemonset-admitted-by-later-or-term"
            ELSE IF preferNS # {} /\ fitsWithout(preferNS) THEN "resources:daemonset-not-tolerating-prefer-no-schedule"
            ELSE IF laterTerm \cup preferNS # {} /\ fitsWithout(laterTerm \cup preferNS) THEN "resources:daemonset-overlooked-on-existing-node"
            ELSE "resources"

----------------------------------------------------------------------------
(* G_C01_Claim: a new NodeClaim c of Results (claims record: pool, pods,    *)
(* reqs[key] = [has: BOOLEAN per universe value, absent: BOOLEAN, ...],      *)
(* its: remaining instance type names, taints).                             *)
(*                                                                         *)
(* For EVERY remaining instance type there must be SOME available offering *)
(* such that, whatever labels a node launched from (c, it, o) may carry     *)
(* (each key: the value the type/offering fixes, else any value c.reqs      *)
(* admits, Absent included when c.reqs admits a missing label), every pod   *)
(* of c keeps its original required constraints, the summed requests plus   *)
(* the daemonsets that certainly run there fit the offering's allocatable,  *)
(* and no host ports clash.                                                 *)
ClaimAdmits(cfg, c, k, v) == c.reqs[k].has[Idx(cfg, k, v)]
(* Can the label k be MISSING on the launched node?  Undefined key: yes.  A  *)
(* key the claim defines: for the labels Karpenter itself resolves on the    *)
(* NodeClaim (custom keys: every defined requirement except DoesNotExist is  *)
(* resolved to a concrete label value) only DoesNotExist leaves it missing;  *)
(* for well-known keys, which the provider resolves, the Kubernetes reading  *)
(* of the requirement decides (NotIn / DoesNotExist admit a missing label).  *)
WellKnown == {"zone", "ct", "it", "arch", "os", "pool", "host", "rid", "gen"}
AbsentPossible(c, k) ==
    \/ ~c.reqs[k].defined
    \/ c.reqs[k].op = "DoesNotExist"
    \/ (k \in WellKnown /\ c.reqs[k].op = "NotIn")
\* value the instance type / offering fixes for key k ("" = it does not define k)
Fixed(it, o, k) ==
    CASE k = "it"   -> it.name
      [] k = "zone" -> o.zone
      [] k = "ct"   -> o.ct
      [] k = "rid"  -> o.rid
      [] OTHER      -> IF k \in DOMAIN it.labels THEN it.labels[k] ELSE ""
\* possible values of key k on a node launched from (c, it, o)
Dom(cfg, c, it, o, k) ==
    LET f == Fixed(it, o, k) IN
    IF f # "" THEN (IF InUniverse(cfg, k, f) /\ ClaimAdmits(cfg, c, k, f) THEN {f} ELSE {})
    ELSE {v \in Range(cfg.universe[k]) : ClaimAdmits(cfg, c, k, v)} \cup (IF AbsentPossible(c, k) THEN {Absent} ELSE {})
\* all labellings over the key set K
Labellings(cfg, c, it, o, K) ==
    LET D == [k \in K |-> Dom(cfg, c, it, o, k)] IN
    {L \in [K -> UNION {D[k] : k \in K}] : \A k \in K : L[k] \in D[k]}
(* allocatable of ONE offering, from first principles: (capacity, with the offering's capacity override per resource) minus *)
(* (total overhead, with the offering's overhead override per resource) - independent of how the code groups offerings     *)
OfferingAlloc(it, o) ==
    [cpu  |-> (IF o.cpuOv > 0 THEN o.cpuOv ELSE it.cpu) - (IF o.ohCpu > 0 THEN o.ohCpu ELSE it.ovCpu),
     mem  |-> (IF o.memOv > 0 THEN o.memOv ELSE it.mem) - (IF o.ohMem > 0 THEN o.ohMem ELSE it.ovMem),
     pods |-> IF o.podsOv > 0 THEN o.podsOv ELSE it.pods]
\* daemonsets that run on EVERY node (c, it, o) can become
CertainDaemons(cfg, c, it, o) ==
    {d \in Range(cfg.ds) : \A L \in Labellings(cfg, c, it, o, DaemonKeys(d)) : DaemonRuns(cfg, d, L, c.taints)}
LaunchParts(cfg, c, P, it, o) ==
    LET dm == CertainDaemons(cfg, c, it, o) IN
    [ offering |-> o.available /\ \A k \in Keys(cfg) : Dom(cfg, c, it, o, k) # {},
      fit      |-> LeqRes(AddRes(SumReq(P), SumReq(dm)), OfferingAlloc(it, o)),
      labels   |-> \A p \in P : \A L \in Labellings(cfg, c, it, o, PodKeys(cfg, p)) : OrigRequired(cfg, p, L),
      ports    |-> /\ \A p \in P : \A q \in P : PKey(q) # PKey(p) => ~PortsClash(p.ports, q.ports)
                   /\ \A p \in P : \A d \in dm : ~PortsClash(p.ports, d.ports) ]
LaunchOK(cfg, c, P, it, o) ==
    LET x == LaunchParts(cfg, c, P, it, o) IN x.offering /\ x.fit /\ x.labels /\ x.ports
TypeOK4Claim(cfg, c, P, itn) ==
    KnownType(cfg, itn) /\ LET it == TypeByName(cfg, itn) IN \E i \in DOMAIN it.offerings : LaunchOK(cfg, c, P, it, it.offerings[i])
ClaimPods(cfg, c) == {PodByKey(cfg, k) : k \in Range(c.pods)}
(* The instance types the NodeClaim "may be launched as".  Normally every    *)
(* remaining option must be launchable.  Once FinalizeScheduling has PINNED  *)
(* the claim to reserved capacity (capacity-type = reserved, reservation id  *)
(* in the held ids) Karpenter deliberately leaves the option list alone and  *)
(* lets the provider skip the options that have no such offering, so for a   *)
(* pinned claim only the options with a compatible available offering count  *)
(* (and there must be one).                                                  *)
Pinned(c) == c.reserved # <<>>
HasCompatOffering(cfg, c, P, itn) ==
    KnownType(cfg, itn) /\ LET it == TypeByName(cfg, itn) IN
                            \E i \in DOMAIN it.offerings : LaunchParts(cfg, c, P, it, it.offerings[i]).offering
LaunchTypes(cfg, c, P) == IF Pinned(c) THEN {itn \in Range(c.its) : HasCompatOffering(cfg, c, P, itn)} ELSE Range(c.its)
G_C01_Claim(cfg, c) ==
    LET P == ClaimPods(cfg, c) IN
    /\ \A p \in P : TaintsTolerated(p.tol, c.taints)
    /\ LaunchTypes(cfg, c, P) # {}
    /\ \A itn \in LaunchTypes(cfg, c, P) : TypeOK4Claim(cfg, c, P, itn)
SigClaim(cfg, c) ==
    LET P == ClaimPods(cfg, c)
        pin == IF Pinned(c) THEN ":reserved-pinned" ELSE ""
        \* custom keys the claim's NodePool template defines (requirements or labels)
        poolRecs == {x \in Range(cfg.pools) : x.name = c.pool}
        poolKeys == UNION {{x.reqs[i].key : i \in DOMAIN x.reqs} \cup DOMAIN x.labels : x \in poolRecs}
        \* daemonsets that select a custom label only the PODS of the claim introduced
        OnPodLabel(D) == {d \in D : \E k \in DaemonKeys(d) : k \notin WellKnown /\ k \notin poolKeys} IN
    IF ~\A p \in P : TaintsTolerated(p.tol, c.taints) THEN "taint"
    ELSE IF LaunchTypes(cfg, c, P) = {} THEN "no-instance-type" \o pin
    ELSE LET bad == CHOOSE itn \in LaunchTypes(cfg, c, P) : ~TypeOK4Claim(cfg, c, P, itn) IN
         IF ~KnownType(cfg, bad) THEN "unknown-type"
         ELSE LET it == TypeByName(cfg, bad)
                  parts == {LaunchParts(cfg, c, P, it, it.offerings[i]) : i \in DOMAIN it.offerings}
              IN IF ~\E x \in parts : x.offering THEN "no-compatible-available-offering"
                 ELSE IF ~\E x \in parts : x.offering /\ x.fit
                      THEN (IF ~Pinned(c) /\ \E i \in DOMAIN it.offerings :
                                   LET o == it.offerings[i] dm == CertainDaemons(cfg, c, it, o) IN
                                   /\ LaunchParts(cfg, c, P, it, o).offering /\ OnPodLabel(dm) # {}
                                   /\ LeqRes(AddRes(SumReq(P), SumReq(dm \ OnPodLabel(dm))), OfferingAlloc(it, o))
                            THEN "resources:daemonset-selects-label-the-pool-does-not-define" ELSE "resources" \o pin)
                 ELSE IF ~\E x \in parts : x.offering /\ x.fit /\ x.labels
                      THEN (IF \E p \in P : ~Satisfiable(cfg, p) THEN "labels:unsatisfiable-pod"
                            ELSE IF \E p \in P : HasDeadTerm(cfg, p) THEN "labels:pod-with-unsatisfiable-or-term" ELSE "labels")
                 ELSE "hostport"

----------------------------------------------------------------------------
(* G_C01_Relax: between the original pod p and the pod object e Karpenter   *)
(* finally placed only preferred terms, alternative required OR-terms and   *)
(* ScheduleAnyway constraints disappeared and at most a blanket             *)
(* PreferNoSchedule toleration appeared; a required term survives.          *)
PreferNoScheduleTol == [key |-> "", op |-> "Exists", value |-> "", effect |-> "PreferNoSchedule"]
RelaxParts(p, e) ==
    [ same   |-> e.sel = p.sel /\ e.cpu = p.cpu /\ e.mem = p.mem /\ e.ports = p.ports /\ e.vols = p.vols
                 /\ e.aff = p.aff /\ e.anti = p.anti /\ e.labels = p.labels,
      terms  |-> Range(e.terms) \subseteq Range(p.terms) /\ (p.terms # <<>> => e.terms # <<>>),
      prefs  |-> Range(e.pref) \subseteq Range(p.pref) /\ Range(e.prefAff) \subseteq Range(p.prefAff)
                 /\ Range(e.prefAnti) \subseteq Range(p.prefAnti),
      tol    |-> Range(p.tol) \subseteq Range(e.tol) /\ Range(e.tol) \ Range(p.tol) \subseteq {PreferNoScheduleTol},
      spread |-> Range(e.spread) \subseteq Range(p.spread)
                 /\ {s \in Range(p.spread) : s.when = "DoNotSchedule"} \subseteq Range(e.spread) ]
G_C01_Relax(p, e) == LET x == RelaxParts(p, e) IN x.same /\ x.terms /\ x.prefs /\ x.tol /\ x.spread
SigRelax(p, e) ==
    LET x == RelaxParts(p, e) IN
    IF ~x.terms THEN (IF e.terms = <<>> THEN "last-required-term-dropped" ELSE "required-term-changed")
    ELSE IF ~x.same THEN "required-field-changed" ELSE IF ~x.tol THEN "toleration" ELSE IF ~x.spread THEN "spread" ELSE "preferred"
=============================================================================
