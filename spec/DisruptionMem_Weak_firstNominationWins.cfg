\* spec mutation "firstNominationWins": TLC must violate Inv_C07_MemNeverProtected
CONSTANTS W = 20  U = 5  VD = 15  MaxNow = 60  MaxLen = 8  WeakM = "firstNominationWins"
SPECIFICATION Spec
VIEW view
INVARIANTS Inv_C07_MemNeverProtected
