----------------------------- MODULE DRA_Trace -----------------------------
(***************************************************************************)
(* Trace validation of property C17, DRA half, over the traces of the        *)
(* scheduling driver run with IgnoreDRARequests=false on scenarios with a   *)
(* `dra` section (spec/SCHED_TRACE.md "DRA").                               *)
(*                                                                         *)
(* Observed: hook H1 commitments (which pod went to which NodeClaim /        *)
(* existing node and the instance types the NodeClaim could still become     *)
(* after the step), the `final` events (surviving types of every new         *)
(* NodeClaim) and the Results' projection of DRAClaimAllocationMetadata.     *)
(* Judged at Results: for EVERY resolution (one surviving type per           *)
(* NodeClaim) the counting oracle of DRAGuards.tla - exclusive devices,      *)
(* shared capacity, counters -, and that no claim carries devices for an     *)
(* instance type its NodeClaim had already lost when the claim was           *)
(* allocated.  The AllocationTracker is never read.                          *)
(***************************************************************************)
EXTENDS DRAGuards, Json, IOUtils

VARIABLES l, cfg, surv, allocAt, viol, ntr, stats, done
tvars == <<l, cfg, surv, allocAt, viol, ntr, stats, done>>

Trace == ndJsonDeserialize(IOEnv.TRACE)
Ev == Trace[l]
V(guard, sig) == [line |-> l, guard |-> guard, sig |-> sig]
Chk(ok, guard, sig) == IF ok THEN <<>> ELSE <<V(guard, sig)>>
RECURSIVE Flat(_)
Flat(ss) == IF ss = <<>> THEN <<>> ELSE Head(ss) \o Flat(Tail(ss))

Stats0 == [claimsAllocated |-> 0, devices |-> 0, templateDevices |-> 0, sharedDevices |-> 0, superposed |-> 0, resolutions |-> 0, onExisting |-> 0, draTraces |-> 0]
TraceInit == l = 1 /\ cfg = <<>> /\ surv = <<>> /\ allocAt = <<>> /\ viol = <<>> /\ ntr = 0 /\ stats = Stats0 /\ done = FALSE

HasDRA == "dra" \in DOMAIN cfg
TCfg == /\ Ev.e = "Cfg" /\ cfg' = Ev /\ surv' = <<>> /\ allocAt' = <<>> /\ ntr' = ntr + 1
        /\ stats' = [stats EXCEPT !.draTraces = @ + (IF "dra" \in DOMAIN Ev THEN 1 ELSE 0)]
        /\ UNCHANGED viol

NodeIt(n) == LET x == CHOOSE y \in DRange(cfg.nodes) : y.name = n IN IF "it" \in DOMAIN x.labels THEN {x.labels["it"]} ELSE {}
KnownNode(n) == \E y \in DRange(cfg.nodes) : y.name = n
(* A claim the cluster has allocated whose consumers (status.reservedFor) are ALL pods of nodes that are being removed     *)
(* (marked for deletion / deleting) migrates with them: the pass re-allocates it and its old devices are free again, so the  *)
(* oracle does not count its old allocation.                                                                               *)
PodNamed(ns, n) == CHOOSE x \in DRange(cfg.pods) : x.ns = ns /\ x.name = n
Leaving(ns, n) == /\ \E x \in DRange(cfg.pods) : x.ns = ns /\ x.name = n
                  /\ LET nd == PodNamed(ns, n).node IN nd # "" /\ KnownNode(nd) /\ LET y == CHOOSE z \in DRange(cfg.nodes) : z.name = nd IN y.marked \/ y.deleting
\* (claims and the pods they are reserved for share a namespace; the generated scenarios use one namespace)
LeavingPods == {x.name : x \in {y \in DRange(cfg.pods) : Leaving(y.ns, y.name)}}
Migrating(c) == MigratingC(c, LeavingPods)
EffDra == EffD(cfg.dra, LeavingPods)
(* Witness class of findings F-C17-1..3 (fixed in /repo 576ecc993; the class keeps a regression of that fix apart from      *)
(* other failures): a published device on which EVERY pod consumer (over all claims holding it) is leaving, although a       *)
(* claim that does not migrate (no pod consumers at all, or a non-pod consumer) holds it too.  IgnDra additionally forgets    *)
(* the allocations on such devices; a failure that disappears under IgnDra belongs to this class.                            *)
AllocKeys(c) == {<<c.alloc[i].driver, c.alloc[i].pool, c.alloc[i].device>> : i \in DOMAIN c.alloc}
Mixed(k) == LET cs == {c \in DRange(cfg.dra.claims) : k \in AllocKeys(c)} IN
            /\ \E c \in cs : ~Migrating(c)
            /\ \E c \in cs : c.reserved # <<>>
            /\ \A c \in cs : \A i \in DOMAIN c.reserved : Leaving(c.ns, c.reserved[i])
IgnDra == [EffDra EXCEPT !.claims = [i \in DOMAIN EffDra.claims |-> IF \E k \in AllocKeys(EffDra.claims[i]) : Mixed(k)
                                                                      THEN [EffDra.claims[i] EXCEPT !.alloc = <<>>] ELSE EffDra.claims[i]]]
KnownClass == "allocation-forgotten-because-all-its-pod-consumers-are-leaving"
ClaimsOfPod(p) == UNION {DRange(pc.claims) : pc \in {x \in DRange(cfg.dra.podClaims) : x.pod = p}}
ClaimKey(p, c) == (CHOOSE x \in DRange(cfg.pods) : x.ns \o "/" \o x.name = p).ns \o "/" \o c

\* ---- a commitment: remember where (and with which instance types left) the pod's claims were first placed
TCommit ==
    LET existing == Ev.targetKind = "existing"
        where == IF existing THEN Ev.target ELSE Ev.hostname
        its == IF existing THEN (IF KnownNode(Ev.target) THEN NodeIt(Ev.target) ELSE {}) ELSE DRange(Ev.its)
        new == {ClaimKey(Ev.pod, c) : c \in ClaimsOfPod(Ev.pod)} \ DOMAIN allocAt
    IN /\ allocAt' = [c \in DOMAIN allocAt \cup new |-> IF c \in new THEN [where |-> where, its |-> its] ELSE allocAt[c]]
       /\ UNCHANGED <<cfg, surv, viol, ntr, stats>>
TFinal == /\ surv' = [h \in DOMAIN surv \cup {Ev.hostname} |-> IF h = Ev.hostname THEN DRange(Ev.its) ELSE surv[h]]
          /\ UNCHANGED <<cfg, allocAt, viol, ntr, stats>>
TSched ==
    /\ Ev.e = "Sched"
    /\ IF HasDRA /\ Ev.kind \in {"open", "commit"} /\ Ev.pod # "-" THEN TCommit
       ELSE IF HasDRA /\ Ev.kind = "final" THEN TFinal
       ELSE UNCHANGED <<cfg, surv, allocAt, viol, ntr, stats>>

\* ---- Results: the end state
TResults ==
    /\ Ev.e = "Results"
    /\ IF ~HasDRA \/ Ev.dra = <<>> THEN UNCHANGED <<viol, stats>>
       ELSE LET recs == DRange(Ev.dra)
                d == EffDra
                ids == {x.nodeclaim : x \in recs}
                node(id) == (CHOOSE x \in recs : x.nodeclaim = id).node
                sAll == [id \in ids |-> IF node(id) # "-" THEN (IF KnownNode(node(id)) THEN NodeIt(node(id)) ELSE {})
                                        ELSE IF id \in DOMAIN surv THEN surv[id] ELSE {}]
                live == {id \in ids : sAll[id] # {}}
                s == [id \in live |-> sAll[id]]
                where(x) == IF x.node # "-" THEN x.node ELSE x.nodeclaim
            IN /\ viol' = viol
                    \o Chk(live = ids, "Drift_C17_NodeClaimWithoutSurvivors", "claim-allocated-for-unknown-or-dropped-nodeclaim")
                    \o Chk(G_C17_DeviceExclusive(d, recs, s), "Inv_C17_DeviceExclusive",
                           IF G_C17_DeviceExclusive(IgnDra, recs, s) THEN KnownClass ELSE SigExclusive(d, recs, s))
                    \o Chk(G_C17_SharedCapacity(d, recs, s), "Inv_C17_SharedCapacity",
                           IF G_C17_SharedCapacity(IgnDra, recs, s) THEN KnownClass ELSE SigShared(d, recs, s))
                    \o Chk(G_C17_Counters(d, recs, s), "Inv_C17_Counters",
                           IF G_C17_Counters(IgnDra, recs, s) THEN KnownClass ELSE SigCounters(d, recs, s))
                    \o Flat([i \in DOMAIN Ev.dra |->
                          LET x == Ev.dra[i] IN
                          IF x.claim \notin DOMAIN allocAt \/ allocAt[x.claim].where # where(x) THEN <<V("Drift_C17_ClaimPlacementUnknown", "no-commit-event-for-claim")>>
                          ELSE Chk(G_C17_NoDeviceForPrunedType(x, allocAt[x.claim].its), "G_C17_NoDeviceForPrunedType", "device-committed-for-pruned-instance-type")])
               /\ stats' = [stats EXCEPT !.claimsAllocated = @ + Cardinality(recs),
                                         !.devices = @ + SumFn([x \in recs |-> Len(x.devs)]),
                                         !.templateDevices = @ + SumFn([x \in recs |-> Cardinality({j \in DOMAIN x.devs : x.devs[j].template})]),
                                         !.sharedDevices = @ + SumFn([x \in recs |-> Cardinality({j \in DOMAIN x.devs : x.devs[j].consumed >= 0})]),
                                         !.superposed = @ + Cardinality({id \in live : Cardinality(s[id]) > 1}),
                                         !.resolutions = @ + Cardinality(Resolutions(s)),
                                         !.onExisting = @ + Cardinality({x \in recs : x.node # "-"})]
    /\ UNCHANGED <<cfg, surv, allocAt, ntr>>

\* ---- a panic raised by the allocation tracker's own assertions is an attempted double allocation
TPanic ==
    /\ Ev.e = "Panic"
    /\ viol' = viol \o Chk(Ev.class # "dra-tracker", "Inv_C17_DeviceExclusive", "panic:allocation-tracker-assertion")
    /\ UNCHANGED <<cfg, surv, allocAt, ntr, stats>>

Passive == {"Hydrate", "Api", "Read", "Prov", "Tick", "Created", "CreateErr", "End", "Env"}
TPassive == Ev.e \in Passive /\ UNCHANGED <<cfg, surv, allocAt, viol, ntr, stats>>

TraceNext ==
    \/ /\ l <= Len(Trace) /\ l' = l + 1 /\ UNCHANGED done
       /\ (TCfg \/ TSched \/ TResults \/ TPanic \/ TPassive)
    \/ /\ l = Len(Trace) + 1 /\ ~done /\ done' = TRUE
       /\ JsonSerialize(IOEnv.OUT, [viol |-> viol, consumed |-> l - 1, traces |-> ntr, stats |-> stats])
       /\ UNCHANGED <<l, cfg, surv, allocAt, viol, ntr, stats>>

TraceSpec == TraceInit /\ [][TraceNext]_tvars
=============================================================================
