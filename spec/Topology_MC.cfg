\* exhaustive check of the closed model (checks/C02.py writes the scope actually used per tier)
CONSTANTS NPods = 3  Archs = {1,2,3,4,5,6,7,9,11,18}  Layouts = {0,1,2,3}  MaxClaims = 2
CONSTANTS W_AllDomains = TRUE  W_Inverse = TRUE  W_Certain = TRUE  W_Bootstrap = TRUE  W_Slack = 0  W_Exclude = TRUE  W_MatchKeys = TRUE  W_MinDomains = TRUE  W_Policies = TRUE  W_Guard = TRUE
SPECIFICATION Spec
INVARIANTS Inv_C02_EndState Inv_C02_Admission Inv_C02_Forms
