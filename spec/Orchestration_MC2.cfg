\* exhaustive, two commands (any candidate sets, overlapping or not) x <=1 replacement each, one fault, one restart
CONSTANTS Nodes = {"n1", "n2"}  Cmds = {"A", "B"}  MaxRepl = 1  T = 1  MaxNow = 2  MaxFaults = 1  MaxRestarts = 1  MaxCandVanish = 0
          DelFaults = TRUE  CodeMode = "code"  Weak = "none"  Serial = FALSE  Gen = FALSE  MaxLen = 0
SPECIFICATION Spec
INVARIANTS TypeOK Inv_C08_DeleteAfterAllInitialized Inv_C08_NoDeleteAfterFailure_Code Inv_C08_SingleCommandPerNode Inv_C08_RolledBackWhenQuiet Inv_C08_RolledBackByAction
