------------------------------ MODULE MultiPass ------------------------------
(***************************************************************************)
(* Closed model of MULTI-ROUND provisioning (property C04 and the dynamic-  *)
(* limits half of C03): scheduling passes of the provisioner interleaved    *)
(* with the life of the NodeClaims they create.                             *)
(*                                                                         *)
(*   Pass(deliver)   [informers deliver every object;] Synced gate; the     *)
(*                   pods that need room are taken in Karpenter's queue     *)
(*                   order and each is put on ANY existing / in-flight node *)
(*                   that admits it, else on any NodeClaim of this pass     *)
(*                   that admits it, else a new NodeClaim is opened if the  *)
(*                   pool's remaining limits leave an instance type, else   *)
(*                   it stays pending (a superset of first-fit);            *)
(*                   the opened NodeClaims are stored (state `created`)     *)
(*   Launch(c,t,o)   the provider launches c as ANY permitted instance type *)
(*                   x available offering (capacity-override offerings      *)
(*                   included)                                              *)
(*   Appear / Register / Partial / Init   the node shows up (labels or not, *)
(*                   zero-valued status resources or not, ephemeral taint   *)
(*                   or not; startup taint always), is registered, loses    *)
(*                   its startup taint, is initialized                      *)
(*   Daemon / Bind   the daemonset pod starts; the nominated pods bind      *)
(*   Mark / Delete   marked for deletion in cluster state / deleted         *)
(*   AddPod          another pending pod arrives                            *)
(*   Restart         Karpenter restarts with empty cluster state            *)
(*   Pass(.., fp)    another controller stores a NodeClaim for pod fp       *)
(*                   inside the pass's batching window                      *)
(*                                                                         *)
(* Two layers, as in the code.  The MECHANISM is what state.Cluster         *)
(* presents of an in-flight node at each lifecycle stage (View*: status     *)
(* fallbacks of StateNode.Allocatable, startup / ephemeral taints hidden    *)
(* until initialized, running daemonset pods subtracted from the expected   *)
(* overhead, marked nodes dropped, the per-resource maximum of the          *)
(* permitted types charged against the pool's remaining limits, the Synced  *)
(* gate).  The ORACLE is MultiPassGuards.tla over the ground truth (what    *)
(* each NodeClaim was launched as, from the catalog).  TLC checks on every  *)
(* reachable state that the mechanism implies the statements:               *)
(* Inv_C04_NoNeedlessOpen, Inv_C04_InflightFits, Inv_C04_Idempotent,        *)
(* Inv_C04_MarkedNotCapacity, Inv_C04_PassOnlyWhenSynced,                   *)
(* Inv_C03_PoolCapacity (for EVERY launch choice), Inv_C03_OpenWithinLimits.*)
(* W_* switches weaken one mechanism conjunct each, C_* switches select the *)
(* pinned tree's semantics where it differs from what the statement needs;  *)
(* TLC must reject every one of them (MultiPass_Weak*.cfg).                 *)
(***************************************************************************)
EXTENDS MultiPassGuards, Json, SequencesExt

CONSTANTS
    Catalogs, Limits, Daemons, Batches, Laters,   \* scenario scope (sets of ids)
    MaxRounds, MaxClaims, MaxSteps,
    AllowForeign,        \* whether another controller may store a NodeClaim inside a batching window (FALSE restricts the exhaustive run)
    Resyncs,             \* whether a delivered pass may end with a NodeClaim-only re-delivery (history only: the order of informer events)
    W_SyncBeforeBatch,   \* the Synced gate is evaluated before the batching window instead of after it
    EphForms, StForms,   \* forms of the ephemeral / startup taints on a node that appears (history only: same taints to Kubernetes)
    W_NoSyncGate,      \* a pass runs although a NodeClaim is not launched / not known to be launched
    W_SubMin,          \* the per-resource MINIMUM of the permitted types is charged against the limits
    W_SubDominating,   \* one "dominating" type (largest cpu) is charged instead of the per-resource maximum
    W_StartupBlocks,   \* startup / ephemeral taints of a not yet initialized node count as taints
    W_CountMarked,     \* marked / deleting nodes stay targets
    W_ZeroSkips,       \* a limit whose remainder is exactly zero is skipped by the filter
    W_NoZeroFallback,  \* zero-valued node status resources are taken at face value
    W_DaemonTwice,     \* the expected daemonset overhead is not reduced by daemonset pods already running
    C_NodesPerPass,    \* pinned tree: `nodes` is not charged for NodeClaims opened within a pass
    C_OverrideBase     \* pinned tree: limits are charged with the base capacity, capacity-override offerings ignored

VARIABLES sc, pst, bto, home, cl, nc, ph, q, plc, opn, rem, sh, rounds, ns, bad, rst, fgn, h
vars == <<sc, pst, bto, home, cl, nc, ph, q, plc, opn, rem, sh, rounds, ns, bad, rst, fgn, h>>
view == <<sc, pst, bto, home, cl, nc, ph, q, plc, opn, rem, sh, rounds, ns, bad, rst, fgn>>

----------------------------------------------------------------------------
(* scenario space (record shapes of the driver's scenario JSON) *)
Off(z, cov) == [zone |-> z, ct |-> "od", price |-> 100, available |-> TRUE, rid |-> "", rcap |-> 0, cpuOv |-> cov, memOv |-> 0, podsOv |-> 0, ohCpu |-> 0, ohMem |-> 0]
Ty(n, cpu, mem, offs) == [name |-> n, cpu |-> cpu, mem |-> mem, pods |-> 110, labels |-> <<>>, ovCpu |-> 0, ovMem |-> 0, offerings |-> offs]
Catalog(i) ==
    CASE i = 1 -> <<Ty("A", 4000, 4096, <<Off("a", 0)>>), Ty("B", 2000, 8192, <<Off("a", 0)>>)>>                 \* incomparable
      [] i = 2 -> <<Ty("A", 4000, 8192, <<Off("a", 0), Off("b", 0)>>), Ty("B", 2000, 4096, <<Off("a", 0)>>)>>    \* comparable, two offerings
      [] i = 3 -> <<Ty("A", 4000, 8192, <<Off("a", 0)>>), Ty("B", 2000, 4096, <<Off("a", 0), Off("b", 4000)>>)>> \* B in zone b: capacity override cpu 4000
LimitRec(i) ==
    CASE i = 0 -> [cpu |-> 0, mem |-> 0, nodes |-> -1]
      [] i = 1 -> [cpu |-> 4000, mem |-> 0, nodes |-> -1]
      [] i = 2 -> [cpu |-> 6000, mem |-> 12288, nodes |-> -1]
      [] i = 3 -> [cpu |-> 8000, mem |-> 16384, nodes |-> -1]
      [] i = 4 -> [cpu |-> 0, mem |-> 0, nodes |-> 1]
      [] i = 5 -> [cpu |-> 6000, mem |-> 0, nodes |-> -1]
Startup == [key |-> "startup.example/agent", value |-> "", effect |-> "NoSchedule"]
NotReady == [key |-> "node.kubernetes.io/not-ready", value |-> "", effect |-> "NoSchedule"]
Unregistered == [key |-> "karpenter.sh/unregistered", value |-> "", effect |-> "NoExecute"]
PoolRec(lim) == [name |-> "p", weight |-> 0, reqs |-> <<>>, labels |-> <<>>, taints |-> <<>>, startup |-> <<Startup>>, limits |-> lim, types |-> <<>>]
TolAll == [key |-> "", op |-> "Exists", value |-> "", effect |-> ""]
DS0 == [name |-> "ds0", ns |-> "kube-system", cpu |-> 200, mem |-> 128, sel |-> <<>>, terms |-> <<>>, tol |-> <<TolAll>>, ports |-> <<>>]
DaemonSet(i) == IF i = 0 THEN <<>> ELSE <<DS0>>
P0(name, cpu, mem, created) ==
    [name |-> name, ns |-> "default", node |-> "", owner |-> "rs", cpu |-> cpu, mem |-> mem, created |-> created, labels |-> <<>>,
     sel |-> <<>>, terms |-> <<>>, pref |-> <<>>, tol |-> <<>>, ports |-> <<>>, vols |-> <<>>, aff |-> <<>>, anti |-> <<>>,
     prefAff |-> <<>>, prefAnti |-> <<>>, spread |-> <<>>]
\* sizes: S small, M medium (two fit type A), H heavy on memory (two never share the 4 GiB type), X large, E: two of them + the daemonset fill type A's cpu EXACTLY
Size(s) == CASE s = "S" -> <<600, 512>> [] s = "M" -> <<1500, 1024>> [] s = "H" -> <<1700, 3000>> [] s = "X" -> <<3100, 2048>> [] s = "E" -> <<1900, 1024>>
Batch(i) == CASE i = 1 -> <<"M", "M">> [] i = 2 -> <<"H", "H">> [] i = 3 -> <<"M", "S">> [] i = 4 -> <<"H", "M">> [] i = 5 -> <<"X", "S">> [] i = 6 -> <<"X", "M">> [] i = 7 -> <<"E", "E">>
Later(i) == CASE i = 0 -> <<>> [] i = 1 -> <<"S">> [] i = 2 -> <<"M">> [] i = 3 -> <<"H">>
PodNames == {"w1", "w2", "w3"}
PodSeq == <<"w1", "w2", "w3">>
Key(p) == "default/" \o p
InitPods(s) == [i \in 1..2 |-> P0(PodSeq[i], Size(Batch(s.batch)[i])[1], Size(Batch(s.batch)[i])[2], i)]
LaterPods(s) == [i \in DOMAIN Later(s.later) |-> P0("w3", Size(Later(s.later)[i])[1], Size(Later(s.later)[i])[2], 3)]
U == [zone |-> <<"a", "b">>, ct |-> <<"od">>, it |-> <<"A", "B">>, pool |-> <<"p">>]
Cfg(s) == [types |-> Catalog(s.cat), pools |-> <<PoolRec(LimitRec(s.lim))>>, ds |-> DaemonSet(s.dm), pods |-> InitPods(s), later |-> LaterPods(s),
           universe |-> U, unum |-> [k \in DOMAIN U |-> [i \in DOMAIN U[k] |-> NoInt]], nodes |-> <<>>, scs |-> <<>>, pvs |-> <<>>, pvcs |-> <<>>]
ScSpace == [cat : Catalogs, lim : Limits, dm : Daemons, batch : Batches, later : Laters]
cfg == Cfg(sc)
pool == cfg.pools[1]
TypeNames == {cfg.types[i].name : i \in DOMAIN cfg.types}
PodRec(p) == PodOf(cfg, Key(p))
Lim3 == LET x == pool.limits IN [cpu |-> IF x.cpu = 0 THEN -1 ELSE x.cpu, mem |-> IF x.mem = 0 THEN -1 ELSE x.mem, nodes |-> x.nodes]

----------------------------------------------------------------------------
(* NodeClaims *)
NoClaim == [st |-> "none", its |-> {}, pods |-> {}, opener |-> "-", ty |-> "-", off |-> -1, known |-> FALSE, marked |-> FALSE, deleting |-> FALSE,
            dmn |-> FALSE, startupT |-> FALSE, eph |-> FALSE, zero |-> FALSE, lbl |-> FALSE]
Claims == 1..nc
Launched(c) == cl[c].st \in {"launched", "appeared", "registered", "initialized"}
NodeExists(c) == cl[c].st \in {"appeared", "registered", "initialized"}
CName(c) == "c" \o ToString(c)
BoundOn(c) == {p \in PodNames : pst[p] = "bound" /\ bto[p] = c}
KeySeq(S) == SelectSeq([i \in DOMAIN PodSeq |-> Key(PodSeq[i])], LAMBDA k : \E p \in S : k = Key(p))
\* ground truth record of NodeClaim c (the shape the driver logs in PassBegin / Totals)
NodeRec(c) ==
    LET x == cl[c] IN
    [claim |-> CName(c), opener |-> x.opener, pool |-> "p", launched |-> Launched(c), deleting |-> x.deleting, marked |-> x.marked,
     type |-> x.ty, off |-> x.off, node |-> "n-" \o CName(c), nodeExists |-> NodeExists(c),
     registered |-> x.st \in {"registered", "initialized"}, initialized |-> x.st = "initialized",
     nodeTaints |-> (IF x.startupT THEN <<Startup>> ELSE <<>>) \o (IF x.eph THEN <<NotReady>> ELSE <<>>)
                    \o (IF x.st = "appeared" THEN <<Unregistered>> ELSE <<>>),
     taints |-> <<>>, startup |-> <<Startup>>,
     labels |-> [it |-> x.ty, zone |-> IF Launched(c) THEN TypeByName(cfg, x.ty).offerings[x.off + 1].zone ELSE "-", pool |-> "p"],
     bound |-> KeySeq(BoundOn(c)), daemons |-> IF x.dmn THEN <<"ds0">> ELSE <<>>]
Truth == [c \in Claims |-> NodeRec(c)]
PlacedSet == {[t |-> CName(x[1]), p |-> Key(x[2])] : x \in {y \in Claims \X PodNames : y[2] \in plc[y[1]]}}
OpenRec(c) == [target |-> CName(c), pool |-> "p", pods |-> KeySeq(cl[c].pods), its |-> SetToSeq(cl[c].its), opener |-> cl[c].opener]
OpensSeq == [i \in 1..Cardinality(opn) |-> OpenRec(SetToSeq(opn)[i])]

----------------------------------------------------------------------------
(* the mechanism: what cluster state presents of an in-flight node *)
R3(c, m, p) == [cpu |-> c, mem |-> m, pods |-> p]
AllocOf(c) == OfferingAlloc(TypeByName(cfg, cl[c].ty), TypeByName(cfg, cl[c].ty).offerings[cl[c].off + 1])
ViewAlloc(c) ==
    \* claim only: NodeClaim.status.allocatable; node not initialized: node status, zero values overridden by the NodeClaim's;
    \* initialized: node status (the kubelet reports what the instance has)
    IF cl[c].st \in {"appeared", "registered"} /\ cl[c].zero /\ W_NoZeroFallback THEN R3(0, 0, 0) ELSE AllocOf(c)
ViewUsable(c) == Launched(c) /\ cl[c].known /\ (W_CountMarked \/ (~cl[c].marked /\ ~cl[c].deleting))
ViewBlocked(c) == W_StartupBlocks /\ cl[c].st \in {"appeared", "registered"} /\ (cl[c].startupT \/ cl[c].eph)
HasDs == cfg.ds # <<>>
DsRes == IF HasDs THEN R3(DS0.cpu, DS0.mem, 1) ELSE R3(0, 0, 0)
RECURSIVE SumPods(_)
SumPods(S) == IF S = {} THEN R3(0, 0, 0) ELSE LET p == CHOOSE x \in S : TRUE IN AddRes(PodRes(PodRec(p)), SumPods(S \ {p}))
ViewLoad(c) ==
    AddRes(AddRes(SumPods(BoundOn(c) \cup plc[c]), IF cl[c].dmn THEN DsRes ELSE R3(0, 0, 0)),   \* pod requests the cache tracks
           IF ~cl[c].dmn \/ W_DaemonTwice THEN DsRes ELSE R3(0, 0, 0))                          \* expected daemon overhead still outstanding
ViewAdmits(c, p) == ViewUsable(c) /\ ~ViewBlocked(c) /\ LeqRes(AddRes(ViewLoad(c), PodRes(PodRec(p))), ViewAlloc(c))

\* limits
Big == 1000000
CapM(t, o) == IF C_OverrideBase THEN BaseCap(t, o) ELSE Cap(t, o)
TypeCap(tn) == LET t == TypeByName(cfg, tn) IN MaxSeq3([i \in DOMAIN t.offerings |-> IF t.offerings[i].available THEN CapM(t, t.offerings[i]) ELSE Zero3])
UsageM == SumSeq3([c \in Claims |-> IF ViewUsable(c) /\ ~cl[c].marked /\ ~cl[c].deleting THEN Cap(TypeByName(cfg, cl[c].ty), TypeByName(cfg, cl[c].ty).offerings[cl[c].off + 1]) ELSE Zero3])
Rem0 == LET l == Lim3 u == UsageM IN
        [cpu |-> IF l.cpu < 0 THEN Big ELSE l.cpu - u.cpu, mem |-> IF l.mem < 0 THEN Big ELSE l.mem - u.mem, nodes |-> IF l.nodes < 0 THEN Big ELSE l.nodes - u.nodes]
Hosts(tn, keys) == LET t == TypeByName(cfg, tn) IN \E i \in DOMAIN t.offerings : OptionHosts(cfg, pool, t, t.offerings[i], keys)
Min3(a, b) == [cpu |-> IF a.cpu < b.cpu THEN a.cpu ELSE b.cpu, mem |-> IF a.mem < b.mem THEN a.mem ELSE b.mem, nodes |-> 1]
RECURSIVE MinSet3(_)
MinSet3(S) == LET t == CHOOSE x \in S : TRUE IN IF S = {t} THEN TypeCap(t) ELSE Min3(TypeCap(t), MinSet3(S \ {t}))
Charge(its) ==
    IF W_SubMin THEN MinSet3(its)
    ELSE IF W_SubDominating THEN TypeCap(CHOOSE t \in its : \A u \in its : TypeCap(t).cpu >= TypeCap(u).cpu)
    ELSE MaxSeq3([i \in 1..Cardinality(its) |-> TypeCap(SetToSeq(its)[i])])
Sub3(r, k) == [cpu |-> IF r.cpu = Big THEN Big ELSE r.cpu - k.cpu, mem |-> IF r.mem = Big THEN Big ELSE r.mem - k.mem,
               nodes |-> IF r.nodes = Big \/ C_NodesPerPass THEN r.nodes ELSE r.nodes - 1]

----------------------------------------------------------------------------
Stp(a, c, d, t, o, lb, z, e, pod) == [a |-> a, c |-> c, deliver |-> d, type |-> t, off |-> o, labels |-> lb, zero |-> z, eph |-> e, ephv |-> 0, stv |-> 0, resync |-> FALSE, pod |-> pod]
S1(a, c) == Stp(a, cl[c].opener, FALSE, "-", 0, FALSE, FALSE, FALSE, "-")
Log(s) == h' = Append(h, s) /\ ns' = ns + 1
More == ns < MaxSteps /\ ph = "idle"

Init ==
    /\ sc \in ScSpace
    /\ pst = [p \in PodNames |-> IF p = "w3" THEN "absent" ELSE "pending"] /\ bto = [p \in PodNames |-> 0] /\ home = [p \in PodNames |-> 0]
    /\ cl = [c \in 1..MaxClaims |-> NoClaim] /\ nc = 0 /\ ph = "idle" /\ q = <<>> /\ plc = [c \in 1..MaxClaims |-> {}] /\ opn = {}
    /\ rem = [cpu |-> 0, mem |-> 0, nodes |-> 0] /\ sh = FALSE /\ rounds = 0 /\ ns = 0 /\ bad = [needless |-> FALSE, idem |-> FALSE] /\ rst = FALSE /\ fgn = FALSE /\ h = <<>>

\* ---- a pass
Delivered == [c \in 1..MaxClaims |-> IF Launched(c) THEN [cl[c] EXCEPT !.known = TRUE] ELSE cl[c]]
SyncedOn(cc, n) == \A c \in 1..n : cc[c].st # "created" /\ (cc[c].st \in {"launched", "appeared", "registered", "initialized"} => cc[c].known)
Resched(cc) == {p \in PodNames : pst[p] = "bound" /\ (cc[bto[p]].marked \/ cc[bto[p]].deleting)}
BatchSet(cc) == {p \in PodNames : pst[p] = "pending"} \cup Resched(cc)
\* Karpenter's queue order: cpu descending, memory descending, creation time
Before(a, b) == LET x == PodRec(a) y == PodRec(b) IN
                x.cpu > y.cpu \/ (x.cpu = y.cpu /\ (x.mem > y.mem \/ (x.mem = y.mem /\ x.created < y.created)))
SameHomeM(cc) ==
    LET B == BatchSet(cc) IN
    /\ B # {} /\ Resched(cc) = {} /\ (\A p \in B : home[p] # 0) /\ (\A p, r \in B : home[p] = home[r])
    /\ LET c == home[CHOOSE p \in B : TRUE] IN ~cc[c].marked /\ ~cc[c].deleting /\ cc[c].st # "none"
Stale == \E c \in Claims : cl[c].st = "created" \/ (Launched(c) /\ ~cl[c].known)
AnyNodeAdmits(p) == \E c \in Claims : ViewAdmits(c, p)
\* instance types a NodeClaim opened for pod p on the current state may use (limits as at the start of a pass)
ItsFor(p) == {tn \in TypeNames : (LET k == TypeCap(tn) r == Rem0 IN r.nodes >= 1 /\ k.cpu <= r.cpu /\ k.mem <= r.mem) /\ Hosts(tn, {Key(p)})}
(* ANOTHER controller (disruption replacement, ...) stores a NodeClaim for the pending pod fp through CreateNodeClaims while the  *)
(* provisioner sits in its batching window: its own scheduling simulation on the delivered state finds no node for the pod.      *)
\* That controller gates on Synced itself (disruption.Controller.Reconcile does), so every stored NodeClaim is launched and known.
ForeignOK(fp) == /\ ~fgn /\ ~rst /\ nc < MaxClaims /\ fp \in PodNames /\ pst[fp] = "pending" /\ Delivered = cl /\ SyncedOn(cl, nc)
                 /\ ~AnyNodeAdmits(fp) /\ ItsFor(fp) # {}
PassStart(d, rs, fp) ==
    LET fg == fp # "-"
        cc0 == IF d THEN Delivered ELSE cl
        cc == IF fg THEN [cc0 EXCEPT ![nc + 1] = [NoClaim EXCEPT !.st = "created", !.its = ItsFor(fp), !.pods = {fp}, !.opener = Key(fp)]] ELSE cc0
        nn == IF fg THEN nc + 1 ELSE nc
        \* the gate sees the foreign NodeClaim (CreateNodeClaims seeds cluster state) - unless it was evaluated before the window
        syn == IF W_SyncBeforeBatch THEN SyncedOn(cc0, nc) ELSE SyncedOn(cc, nn)
    IN /\ More /\ rounds < MaxRounds /\ (rs => d) /\ (fg => AllowForeign /\ d /\ ForeignOK(fp))
       /\ (~d => Stale \/ rst)    \* a pass without delivery is only interesting when something is not launched / not known to be launched
       /\ cl' = cc /\ nc' = nn /\ rounds' = rounds + 1 /\ fgn' = (fgn \/ fg) /\ rst' = FALSE
       /\ home' = IF fg THEN [home EXCEPT ![fp] = nc + 1] ELSE home
       /\ Log([Stp("Pass", "-", d, "-", 0, FALSE, FALSE, FALSE, fp) EXCEPT !.resync = rs])
       /\ IF syn \/ W_NoSyncGate
          THEN /\ ph' = "sched" /\ q' = SortSeq(SetToSeq(BatchSet(cc)), Before) /\ plc' = [c \in 1..MaxClaims |-> {}] /\ opn' = {}
               /\ sh' = SameHomeM(cc)
          ELSE UNCHANGED <<ph, q, plc, opn, sh>>
       /\ UNCHANGED <<sc, pst, bto, bad, rem>>
FixRem == ph = "sched" /\ q # <<>>
AnyOpenAdmits(p) == \E c \in opn : AdmitsClaim(cfg, OpenRec(c), PodRec(p))
PlaceNode(c) ==
    /\ FixRem /\ ViewAdmits(c, Head(q))
    /\ plc' = [plc EXCEPT ![c] = @ \cup {Head(q)}] /\ home' = [home EXCEPT ![Head(q)] = c] /\ q' = Tail(q)
    /\ UNCHANGED <<sc, pst, bto, cl, nc, ph, opn, rem, sh, rounds, ns, bad, h, rst, fgn>>
PlaceOpen(c) ==
    /\ FixRem /\ ~AnyNodeAdmits(Head(q)) /\ c \in opn /\ AdmitsClaim(cfg, OpenRec(c), PodRec(Head(q)))
    /\ LET P == cl[c].pods \cup {Head(q)} IN
       cl' = [cl EXCEPT ![c] = [@ EXCEPT !.pods = P, !.its = {tn \in @ : Hosts(tn, {Key(p) : p \in P})}]]
    /\ home' = [home EXCEPT ![Head(q)] = c] /\ q' = Tail(q)
    /\ UNCHANGED <<sc, pst, bto, nc, ph, plc, opn, rem, sh, rounds, ns, bad, h, rst, fgn>>
OpenNew ==
    LET p == Head(q)
        r == IF opn = {} THEN Rem0 ELSE rem
        its == {tn \in TypeNames : (LET k == TypeCap(tn) IN r.nodes >= 1 /\ (k.cpu <= r.cpu \/ (W_ZeroSkips /\ r.cpu = 0))
                                                                 /\ (k.mem <= r.mem \/ (W_ZeroSkips /\ r.mem = 0)))
                                   /\ Hosts(tn, {Key(p)})}
    IN /\ FixRem /\ ~AnyNodeAdmits(p) /\ ~AnyOpenAdmits(p)
       /\ IF its # {} /\ nc < MaxClaims
          THEN /\ nc' = nc + 1 /\ opn' = opn \cup {nc + 1}
               /\ cl' = [cl EXCEPT ![nc + 1] = [NoClaim EXCEPT !.st = "opened", !.its = its, !.pods = {p}, !.opener = Key(p)]]
               /\ rem' = Sub3(r, Charge(its)) /\ home' = [home EXCEPT ![p] = nc + 1]
               /\ bad' = [needless |-> bad.needless \/ ~G_C04_OpenOnlyIfNoneAdmits(cfg, Truth, PlacedSet, OpensSeq, PodRec(p)),
                          idem |-> bad.idem \/ sh]
          ELSE /\ home' = [home EXCEPT ![p] = 0] /\ UNCHANGED <<nc, opn, cl, rem, bad>>      \* the pod stays pending
       /\ q' = Tail(q)
       /\ UNCHANGED <<sc, pst, bto, ph, plc, sh, rounds, ns, h, rst, fgn>>
PassEnd ==
    /\ ph = "sched" /\ q = <<>>
    /\ cl' = [c \in 1..MaxClaims |-> IF c \in opn THEN [cl[c] EXCEPT !.st = "created"] ELSE cl[c]]
    /\ ph' = "idle" /\ opn' = {}
    /\ UNCHANGED <<sc, pst, bto, home, nc, q, plc, rem, sh, rounds, ns, bad, h, rst, fgn>>

\* ---- the life of a NodeClaim
Launch(c, tn, o) ==
    /\ More /\ c \in Claims /\ cl[c].st = "created" /\ ~cl[c].deleting /\ tn \in cl[c].its
    /\ LET t == TypeByName(cfg, tn) IN o + 1 \in DOMAIN t.offerings /\ OptionHosts(cfg, pool, t, t.offerings[o + 1], {Key(p) : p \in cl[c].pods})
    /\ cl' = [cl EXCEPT ![c] = [@ EXCEPT !.st = "launched", !.ty = tn, !.off = o]]
    /\ Log(Stp("Launch", cl[c].opener, FALSE, tn, o, FALSE, FALSE, FALSE, "-"))
    /\ UNCHANGED <<sc, pst, bto, home, nc, ph, q, plc, opn, rem, sh, rounds, bad, rst, fgn>>
AppearVariants == {<<FALSE, TRUE, TRUE>>, <<TRUE, FALSE, FALSE>>, <<FALSE, FALSE, TRUE>>, <<TRUE, TRUE, FALSE>>}   \* labels, zero, eph
\* ev: which known ephemeral taint and in which form (same taint by key + effect, different value / timeAdded): 1 not-ready NoSchedule,
\* 2 not-ready NoExecute + timeAdded, 3 not-ready NoSchedule + timeAdded, 4 unreachable NoSchedule + timeAdded, 5 cloud-provider
\* uninitialized + timeAdded, 6 not-ready with a value, 7 uninitialized with another value; sv: form of the startup taint on the Node
\* (0 as declared, 1 other value, 2 timeAdded).  The forms are the same taints to Kubernetes, so they only show in the history.
Appear(c, v, ev, sv) ==
    /\ More /\ c \in Claims /\ cl[c].st = "launched" /\ ~cl[c].deleting /\ (v[3] <=> ev > 0)
    /\ cl' = [cl EXCEPT ![c] = [@ EXCEPT !.st = "appeared", !.lbl = v[1], !.zero = v[2], !.eph = v[3], !.startupT = TRUE]]
    /\ Log([Stp("Appear", cl[c].opener, FALSE, "-", 0, v[1], v[2], v[3], "-") EXCEPT !.ephv = ev, !.stv = sv])
    /\ UNCHANGED <<sc, pst, bto, home, nc, ph, q, plc, opn, rem, sh, rounds, bad, rst, fgn>>
Register(c) ==
    /\ More /\ c \in Claims /\ cl[c].st = "appeared" /\ ~cl[c].deleting
    /\ cl' = [cl EXCEPT ![c] = [@ EXCEPT !.st = "registered"]] /\ Log(S1("Register", c))
    /\ UNCHANGED <<sc, pst, bto, home, nc, ph, q, plc, opn, rem, sh, rounds, bad, rst, fgn>>
Partial(c) ==
    /\ More /\ c \in Claims /\ cl[c].st = "registered" /\ cl[c].startupT /\ (cl[c].eph \/ cl[c].zero)
    /\ cl' = [cl EXCEPT ![c] = [@ EXCEPT !.startupT = FALSE]] /\ Log(S1("Partial", c))
    /\ UNCHANGED <<sc, pst, bto, home, nc, ph, q, plc, opn, rem, sh, rounds, bad, rst, fgn>>
Initialize(c) ==
    /\ More /\ c \in Claims /\ cl[c].st = "registered" /\ ~cl[c].deleting
    /\ cl' = [cl EXCEPT ![c] = [@ EXCEPT !.st = "initialized", !.startupT = FALSE, !.eph = FALSE, !.zero = FALSE]] /\ Log(S1("Init", c))
    /\ UNCHANGED <<sc, pst, bto, home, nc, ph, q, plc, opn, rem, sh, rounds, bad, rst, fgn>>
Daemon(c) ==
    /\ More /\ c \in Claims /\ HasDs /\ cl[c].st \in {"registered", "initialized"} /\ ~cl[c].dmn
    /\ cl' = [cl EXCEPT ![c] = [@ EXCEPT !.dmn = TRUE]] /\ Log(S1("Daemon", c))
    /\ UNCHANGED <<sc, pst, bto, home, nc, ph, q, plc, opn, rem, sh, rounds, bad, rst, fgn>>
Nominated(c) == {p \in PodNames : pst[p] = "pending" /\ home[p] = c}
Bind(c) ==
    /\ More /\ c \in Claims /\ cl[c].st = "initialized" /\ ~cl[c].marked /\ ~cl[c].deleting /\ Nominated(c) # {}
    /\ pst' = [p \in PodNames |-> IF p \in Nominated(c) THEN "bound" ELSE pst[p]]
    /\ bto' = [p \in PodNames |-> IF p \in Nominated(c) THEN c ELSE bto[p]] /\ Log(S1("Bind", c))
    /\ UNCHANGED <<sc, home, cl, nc, ph, q, plc, opn, rem, sh, rounds, bad, rst, fgn>>
Mark(c) ==
    /\ More /\ c \in Claims /\ Launched(c) /\ cl[c].known /\ ~cl[c].marked /\ ~cl[c].deleting
    /\ cl' = [cl EXCEPT ![c] = [@ EXCEPT !.marked = TRUE]] /\ Log(S1("Mark", c))
    /\ UNCHANGED <<sc, pst, bto, home, nc, ph, q, plc, opn, rem, sh, rounds, bad, rst, fgn>>
Delete(c) ==
    /\ More /\ c \in Claims /\ Launched(c) /\ ~cl[c].deleting /\ ~cl[c].marked
    /\ cl' = [cl EXCEPT ![c] = [@ EXCEPT !.deleting = TRUE]] /\ Log(S1("Delete", c))
    /\ UNCHANGED <<sc, pst, bto, home, nc, ph, q, plc, opn, rem, sh, rounds, bad, rst, fgn>>
\* Karpenter restarts: cluster state forgets everything (what is launched has to be delivered again) and the next Synced()
\* evaluation is the FIRST one of the new process (hydration path).  At every point of every NodeClaim's life, also while a
\* NodeClaim is stored but not launched.  Not while a node is marked for deletion: the in-memory mark would be lost and a
\* node that "is being deleted" would count again - that combination is outside the statements.
Restart ==
    /\ More /\ nc > 0 /\ ~rst /\ (\A c \in Claims : ~cl[c].marked)
    /\ cl' = [c \in 1..MaxClaims |-> [cl[c] EXCEPT !.known = FALSE]] /\ rst' = TRUE
    /\ Log(Stp("Restart", "-", FALSE, "-", 0, FALSE, FALSE, FALSE, "-"))
    /\ UNCHANGED <<sc, pst, bto, home, nc, ph, q, plc, opn, rem, sh, rounds, bad, fgn>>
AddPod ==
    /\ More /\ sc.later # 0 /\ pst["w3"] = "absent"
    /\ pst' = [pst EXCEPT !["w3"] = "pending"] /\ Log(Stp("AddPod", "-", FALSE, "-", 0, FALSE, FALSE, FALSE, "w3"))
    /\ UNCHANGED <<sc, bto, home, cl, nc, ph, q, plc, opn, rem, sh, rounds, bad, rst, fgn>>

Next ==
    \/ \E d \in BOOLEAN, rs \in Resyncs, fp \in PodNames \cup {"-"} : PassStart(d, rs, fp)
    \/ \E c \in 1..MaxClaims : PlaceNode(c) \/ PlaceOpen(c)
    \/ OpenNew \/ PassEnd
    \/ \E c \in 1..MaxClaims : (\E tn \in {"A", "B"}, o \in 0..1 : Launch(c, tn, o)) \/ (\E v \in AppearVariants, ev \in EphForms \cup {0}, sv \in StForms : Appear(c, v, ev, sv))
                               \/ Register(c) \/ Partial(c) \/ Initialize(c) \/ Daemon(c) \/ Bind(c) \/ Mark(c) \/ Delete(c)
    \/ AddPod \/ Restart
Spec == Init /\ [][Next]_vars

----------------------------------------------------------------------------
(* the statements *)
Inv_C04_NoNeedlessOpen == ~bad.needless
Inv_C04_Idempotent == ~bad.idem
Inv_C04_InflightFits ==
    \A c \in Claims : (Launched(c) /\ ~cl[c].marked /\ ~cl[c].deleting /\ cl[c].st # "initialized")
                        => G_C04_InflightCountsLaunchedAllocatable(cfg, NodeRec(c), {Key(p) : p \in plc[c]})
Inv_C04_MarkedNotCapacity == \A c \in Claims : plc[c] # {} /\ ph = "sched" => G_C04_MarkedNotCapacity(NodeRec(c))
Inv_C04_PassOnlyWhenSynced == ph = "sched" => G_C04_PassOnlyWhenSynced(SelectSeq(Truth, LAMBDA n : n.claim \notin {CName(c) : c \in opn}))
Inv_C03_PoolCapacity == PoolCapacityOK(cfg, Truth, "p", Lim3)
\* every NodeClaim that has no instance yet may still become its worst permitted option
OptsSeq(c) == LET S == {[type |-> tn, off |-> o] : tn \in cl[c].its, o \in 0..1} IN
              SelectSeq(SetToSeq(S), LAMBDA x : x.off + 1 \in DOMAIN TypeByName(cfg, x.type).offerings
                                                  /\ OptionHosts(cfg, pool, TypeByName(cfg, x.type), TypeByName(cfg, x.type).offerings[x.off + 1], {Key(p) : p \in cl[c].pods}))
Unborn == SelectSeq([c \in Claims |-> c], LAMBDA c : cl[c].st = "created" /\ ~cl[c].deleting)
Inv_C03_OpenWithinLimits == ph = "idle" => G_C03_OpenWithinLimits(cfg, Truth, "p", Lim3, [i \in DOMAIN Unborn |-> OptsSeq(Unborn[i])])
TypeOK == nc \in 0..MaxClaims /\ ph \in {"idle", "sched"}

\* ---- behaviour generation: the scenario + the driver-level steps
Beh == [name |-> "tlc-" \o ToString(sc.cat) \o "-" \o ToString(sc.lim) \o "-" \o ToString(sc.dm) \o "-" \o ToString(sc.batch) \o "-" \o ToString(sc.later),
        scenario |-> [options |-> [create |-> TRUE], types |-> cfg.types, pools |-> cfg.pools, nodes |-> <<>>, ds |-> cfg.ds, scs |-> <<>>, pvs |-> <<>>,
                      pvcs |-> <<>>, pods |-> cfg.pods],
        later |-> cfg.later, steps |-> h]
Final == ph = "idle" /\ (ns >= MaxSteps \/ ~ENABLED Next)
GenPrint == ~Final \/ PrintT(<<"BEH", ToJson(Beh)>>)
\* a rejected spec mutation prints the history that leads to the violation: it is replayed on the real code (a witness for
\* the pinned tree's semantics C_*, a targeted control behaviour for the W_* mutations)
Witness(inv) == inv \/ (PrintT(<<"BEH", ToJson(Beh)>>) /\ FALSE)
Cex_C04_NoNeedlessOpen == Witness(ph = "sched" \/ Inv_C04_NoNeedlessOpen)
Cex_C04_Idempotent == Witness(ph = "sched" \/ Inv_C04_Idempotent)
Cex_C04_InflightFits == Witness(Inv_C04_InflightFits)
Cex_C04_MarkedNotCapacity == Witness(Inv_C04_MarkedNotCapacity)
Cex_C04_PassOnlyWhenSynced == Witness(Inv_C04_PassOnlyWhenSynced)
Cex_C03_PoolCapacity == Witness(Inv_C03_PoolCapacity)
Cex_C03_OpenWithinLimits == Witness(Inv_C03_OpenWithinLimits)
=============================================================================
