SPECIFICATION TraceSpec
