\* behaviour generation (-simulate; checks/C07.py adds systematic tours)
CONSTANTS MaxNow = 80  MaxLen = 6  MaxEdits = 2  Dedupe = 10  VD = 15  WeakC = ""
SPECIFICATION Spec
INVARIANTS GenPrint
