\* behaviour generation (exhaustive to MaxLen, or -simulate for deeper walks)
CONSTANTS MaxNow = 24  MaxLen = 6  Dedupe = 10  WeakC = ""
SPECIFICATION Spec
INVARIANTS GenPrint
