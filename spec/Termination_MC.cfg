\* exhaustive check, coarse granularity (a reconcile runs without foreign steps; every call may fail)
CONSTANTS Pods = {"p1", "p2"}  Tol = {"p2"}  Late = {"p2"}
  Starts = {"registered", "launched", "unpersisted", "fresh"}
  VaOwners = {"p1", "p2"}  TGPs <- BoolBoth  Instants <- BoolF
  MaxFaults = 1  MaxRestarts = 1  MaxLen = 1000  MaxSpont = 99
  Atomic = TRUE  FinalizeMode = "cache"  Weak = ""
SPECIFICATION Spec
VIEW view
INVARIANTS TypeOK Inv_C09_NoLeak Inv_ProvGoneSound
PROPERTIES Act_C09_NodeFinalizer Act_C09_ClaimFinalizer Act_C09_GuardImpliesNoLeak
