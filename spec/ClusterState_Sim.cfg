\* behaviour generation by TLC simulation: random deep histories over a larger universe
CONSTANTS NodeNames = {"n1", "n2"}  ClaimNames = {"c1", "c2"}  PodKeys = {"p1", "p2", "p3", "p4"}  Pids = {"i1", "i2", "i3"}
          Pools = {"a", "b"}  PortNames = {"80", "81", "82"}
          Defects = {"nodeGone", "podUnbound", "volUnion", "dsKept"}  MaxMut = 1000  MaxDup = 1000  MaxLen = 30  WithTerm = TRUE
          WithRestart = TRUE  PodShapes = {"std", "alt", "bare"}  Start = "empty"  MaxFail = 2  MaxPend = 3
SPECIFICATION Spec
INVARIANTS GenPrint
