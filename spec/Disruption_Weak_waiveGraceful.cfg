\* spec mutation: rule "waiveGraceful" weakened -> TLC must violate Inv_C07_NeverProtected
CONSTANTS MaxPre = 2  MaxChurn = 1  PairMode = "tgp"  Weak = "waiveGraceful"
SPECIFICATION Spec
INVARIANTS Inv_C07_NeverProtected
