\* spec mutation (W_Exclude = FALSE: counting rescheduled / terminating pods where they were): TLC must violate Inv_C02_EndState
CONSTANTS NPods = 2  Archs = {7}  Layouts = {4}  MaxClaims = 1
CONSTANTS W_AllDomains = TRUE  W_Inverse = TRUE  W_Certain = TRUE  W_Bootstrap = TRUE  W_Slack = 0  W_Exclude = FALSE  W_MatchKeys = TRUE  W_MinDomains = TRUE  W_Policies = TRUE  W_Guard = TRUE
SPECIFICATION Spec
INVARIANTS Inv_C02_EndState
