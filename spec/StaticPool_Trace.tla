--------------------------- MODULE StaticPool_Trace ---------------------------
(***************************************************************************)
(* Trace validation, binding level 1 of C03-static: every call recorded    *)
(* from the real state.NodePoolState is re-derived.  The state before a    *)
(* call is the struct's own projection after the previous call (observed), *)
(* the expected state after it is the step function of StaticPoolDefs in   *)
(* the semantics the statement needs ("fixed"); result, sets, reserved     *)
(* counter, GetNodeCount and the absence of a panic are compared.          *)
(* Differences are accumulated in `viol`, never fatal.                     *)
(***************************************************************************)
EXTENDS StaticPoolDefs, Json, IOUtils

VARIABLES l, pre, viol, ntr, done
tvars == <<l, pre, viol, ntr, done>>

Trace == ndJsonDeserialize(IOEnv.TRACE)
Ev == Trace[l]
Chk(ok, guard, sig) == IF ok THEN <<>> ELSE <<[line |-> l, guard |-> guard, sig |-> sig]>>
ToSet(s) == {s[i] : i \in DOMAIN s}
Obs(p) == [entry |-> p.entry \/ p.hasLimit, act |-> ToSet(p.act), del |-> ToSet(p.del), pend |-> ToSet(p.pend),
           res |-> p.res, map |-> ToSet(p.map)]

TraceInit == l = 1 /\ pre = EmptyPS /\ viol = <<>> /\ ntr = 0 /\ done = FALSE

Marks == {"MarkActive", "MarkDeleting", "MarkPending"}
Expected(s, e) ==
    CASE e.m = "Reserve" -> PsReserve(s, e.limit, e.k)
      [] e.m = "Release" -> PsRelease(s, e.k)
      [] e.m = "Update" -> PsUpdate(s, e.n, e.mfd)
      [] e.m = "MarkActive" -> PsMarkActive(s, e.n, "fixed")
      [] e.m = "MarkDeleting" -> PsMarkDeleting(s, e.n, "fixed")
      [] e.m = "MarkPending" -> PsMarkPending(s, e.n, "fixed")
      [] e.m = "Cleanup" -> PsCleanup(s, e.n, "fixed")

Sets(s) == <<s.act, s.del, s.pend>>
CallChecks(e) ==
    LET exp == Expected(pre, e)
        obs == Obs(e.post)
        collected == e.m = "Cleanup" /\ exp.entry /\ ~obs.entry
    IN Chk(~e.panic, "G_C03_NoCrash", e.m \o (IF pre.entry THEN ":entry-present" ELSE ":entry-collected"))
       \o Chk(e.panic \/ Sets(obs) = Sets(exp), "G_C03_CountsMatchSets",
              IF collected /\ exp.pend # {} THEN "Cleanup:entry-collected-with-pending"
              ELSE IF e.m \in Marks /\ e.n \notin pre.map THEN e.m \o ":untracked-claim-inserted"
              ELSE e.m \o ":sets-differ")
       \o Chk(e.panic \/ obs.res = exp.res, "G_C03_ReservedKept",
              IF collected /\ exp.res > 0 THEN "Cleanup:entry-collected-with-reservation" ELSE e.m \o ":reserved-differs")
       \o Chk(e.panic \/ Sets(obs) # Sets(exp) \/ obs.map = exp.map, "G_C03_CountsMatchSets", e.m \o ":mapping-differs")
       \o Chk(e.m # "Reserve" \/ e.panic \/ e.granted = PsGrant(Ensure(pre), e.limit, e.k), "G_C03_GrantRule",
              IF e.granted > PsGrant(Ensure(pre), e.limit, e.k) THEN "over-grant" ELSE "under-grant")
       \o Chk(<<e.post.nAct, e.post.nDel, e.post.nPend>> = <<Cardinality(obs.act), Cardinality(obs.del), Cardinality(obs.pend)>>,
              "G_C03_CountsMatchSets", "GetNodeCount-differs")

TCall == /\ Ev.e = "Call"
         /\ viol' = viol \o CallChecks(Ev)
         /\ pre' = Obs(Ev.post)
         /\ UNCHANGED ntr

TraceNext ==
    \/ /\ l <= Len(Trace) /\ l' = l + 1 /\ UNCHANGED done
       /\ \/ (Ev.e = "Cfg" /\ pre' = EmptyPS /\ ntr' = ntr + 1 /\ UNCHANGED viol)
          \/ TCall
    \/ /\ l = Len(Trace) + 1 /\ ~done /\ done' = TRUE
       /\ JsonSerialize(IOEnv.OUT, [viol |-> viol, consumed |-> l - 1, traces |-> ntr])
       /\ UNCHANGED <<l, pre, viol, ntr>>

TraceSpec == TraceInit /\ [][TraceNext]_tvars
=============================================================================
