\* behaviour generation: every action sequence of length MaxLen (history is part of the state)
CONSTANTS Size = 4  DryRunWalk = "logical"  MaxLen = 6
SPECIFICATION Spec
INVARIANTS GenPrint
