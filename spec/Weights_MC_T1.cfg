\* thorough 1: every combination of four pool features on three pools x all 12 weight vectors
CONSTANTS WeightVecs = {1, 2, 3, 4, 5, 6, 7, 8, 9, 10, 11, 12}  FeatDiag = FALSE  NPods = 2  PodArchs = {1, 2, 3, 6}
CONSTANTS Feats = {"plain", "taint", "limit", "min2"}
CONSTANTS Catalogs = {2}  DaemonSets = {2}  MaxTypesSet = {2}  Policies = {"Strict"}  Weak = ""
SPECIFICATION Spec
INVARIANTS Inv_C19_HighestWeightFeasible Inv_C19_CheapestPrefix Inv_C13_TypesSubsetMinValues Inv_C13_Requests Inv_C13_Template
