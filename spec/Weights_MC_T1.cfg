\* thorough 1: every combination of four pool features on three pools x four weight vectors (distinct / tie on top / tie below / unset on top)
CONSTANTS WeightVecs = {1, 6, 7, 12}  FeatDiag = FALSE  NPods = 2  PodArchs = {1, 2, 3, 6}
CONSTANTS Feats = {"plain", "taint", "limit", "min2"}
CONSTANTS Catalogs = {2}  DaemonSets = {2}  MaxTypesSet = {2}  Policies = {"Strict"}  Weak = ""
SPECIFICATION Spec
INVARIANTS Inv_C19_HighestWeightFeasible Inv_C19_CheapestPrefix Inv_C13_TypesSubsetMinValues Inv_C13_Requests Inv_C13_Template
