\* spec mutation: rule "noBuffer" weakened -> TLC must violate Inv_C07_NeverProtected
CONSTANTS MaxPre = 2  MaxChurn = 1  PairMode = "tgp"  Weak = "noBuffer"
SPECIFICATION Spec
INVARIANTS Inv_C07_NeverProtected
