---------------------------- MODULE ClusterStateF ----------------------------
(***************************************************************************)
(* Property C11 - pure definitions shared by the closed model              *)
(* (ClusterState.tla) and the trace specification (ClusterState_Trace.tla).*)
(*                                                                         *)
(* `F(api, marks)` is the cluster state "computed from the API objects     *)
(* from scratch", written from the property statement and Kubernetes/set   *)
(* semantics (NOT from the incremental update code):                       *)
(*                                                                         *)
(*   - there is one state node per provider id that a tracked Node or a    *)
(*     launched NodeClaim carries (a Node without provider id is keyed by  *)
(*     its name when it is not Karpenter-managed and is not tracked at all *)
(*     while it is managed);                                               *)
(*   - a state node holds the latest Node and NodeClaim with that id;      *)
(*   - its usage (requests, daemonset requests, host ports, volumes,       *)
(*     disruption cost) is the aggregate over the non-terminal pods that   *)
(*     the API binds to its Node (no Node => no pods);                     *)
(*   - it is marked for deletion iff it was explicitly marked (ghost       *)
(*     `marks`, an in-memory decision of the disruption controllers) or    *)
(*     its NodeClaim is deleting / terminating, or it has no NodeClaim and *)
(*     its Node is deleting;                                               *)
(*   - a NodePool's totals are the capacities of its unmarked state nodes  *)
(*     (+1 node each); its node counts partition its NodeClaims into       *)
(*     deleting (launched and marked) and active (all others).             *)
(*                                                                         *)
(* Record shapes (identical in the closed model and in the logged traces): *)
(*   NodeRec  = [ex, name, pid, pool, reg, init, del, cap:[cpu,mem], rv]   *)
(*   ClaimRec = [ex, name, pid, pool, del, term, cap:[cpu,mem], rv]        *)
(*   PodRec   = [ex, name, node, term, ds, cpu, mem, port, vol, delCost,   *)
(*               prio, rv]       ("" = no provider id / unbound,           *)
(*                                "-" = no port / no volume)               *)
(*   api      = [nodes: name -> NodeRec, claims: name -> ClaimRec,         *)
(*               pods: key -> PodRec]                                      *)
(*   state-node view (F's result and the projection of the real cache):    *)
(*     [ex, node: NodeRec, claim: ClaimRec, req:[cpu,mem,pods],            *)
(*      dreq:[cpu,mem,pods], cost (milli), ports: port -> holder,          *)
(*      vols: set of volume ids, marked]                                   *)
(***************************************************************************)
EXTENDS Integers, Sequences, FiniteSets

CONSTANTS PortNames    \* universe of host ports probed, as strings, e.g. {"80","81"}

\* ---------------------------------------------------------------- small helpers
RECURSIVE SumSet(_, _)
\* sum of f[x] over the finite set S (f a function defined on S)
SumSet(S, f) == IF S = {} THEN 0 ELSE LET x == CHOOSE y \in S : TRUE IN f[x] + SumSet(S \ {x}, f)
Max2(a, b) == IF a > b THEN a ELSE b
Min2(a, b) == IF a < b THEN a ELSE b

NoCap == [cpu |-> 0, mem |-> 0]
NoNode == [ex |-> FALSE, name |-> "-", pid |-> "", pool |-> "", reg |-> FALSE, init |-> FALSE, del |-> FALSE,
           cap |-> NoCap, rv |-> 0]
NoClaim == [ex |-> FALSE, name |-> "-", pid |-> "", pool |-> "", del |-> FALSE, term |-> FALSE, cap |-> NoCap, rv |-> 0]
NoPod == [ex |-> FALSE, name |-> "-", node |-> "", term |-> FALSE, ds |-> FALSE, cpu |-> 0, mem |-> 0, port |-> "-",
          vol |-> "-", delCost |-> 0, prio |-> 0, rv |-> 0]
ZeroReq == [cpu |-> 0, mem |-> 0, pods |-> 0]
SameObj(a, b) == a.ex = b.ex /\ (a.ex => a = b)

\* ---------------------------------------------------------------- what a (Node, NodeClaim) pair means
\* (these are the statement's notions of "belongs to pool", "capacity", "deleting"; they are evaluated on
\*  API objects by F and on the cached objects by the closed model's incremental bookkeeping)
PManaged(nd, cl) == cl.ex
PRegistered(nd, cl) == IF cl.ex THEN nd.ex /\ nd.reg ELSE TRUE
PInitialized(nd, cl) == IF cl.ex THEN nd.ex /\ nd.init ELSE TRUE
\* pool label: the Node's once it is registered (or unmanaged), the NodeClaim's before
PPool(nd, cl) == IF ~nd.ex THEN cl.pool ELSE IF ~cl.ex THEN nd.pool ELSE IF ~nd.reg THEN cl.pool ELSE nd.pool
\* capacity: the Node's once initialized (or unmanaged); before that the NodeClaim's promise fills the
\* resources the Node does not report yet
Fill(a, b) == IF a = 0 THEN b ELSE a
PCap(nd, cl) ==
    IF ~PInitialized(nd, cl) /\ cl.ex
    THEN (IF nd.ex THEN [cpu |-> Fill(nd.cap.cpu, cl.cap.cpu), mem |-> Fill(nd.cap.mem, cl.cap.mem)] ELSE cl.cap)
    ELSE nd.cap
PDeleted(nd, cl) == (cl.ex /\ (cl.del \/ cl.term)) \/ (nd.ex /\ ~cl.ex /\ nd.del)

\* ---------------------------------------------------------------- pod aggregates
\* eviction cost of a pod in 1/1000: 1 + deletionCost / 2^27 + priority / 2^25, clamped to [-10, 10]
\* (pod-deletion-cost annotation and priority; the integer arithmetic is exact for the multiples of 2^17 / 2^15 used)
EvCost(p) == Max2(-10000, Min2(10000, 1000 + ((p.delCost \div 131072) * 1000) \div 1024 + ((p.prio \div 32768) * 1000) \div 1024))
ReqOf(pods, S) == [cpu |-> SumSet(S, [p \in S |-> pods[p].cpu]), mem |-> SumSet(S, [p \in S |-> pods[p].mem]),
                   pods |-> Cardinality(S)]
CostOf(pods, S) == 1000 + SumSet(S, [p \in S |-> IF pods[p].ds THEN 0 ELSE Max2(0, EvCost(pods[p]))])
\* host port -> the pod holding it ("-" nobody, "many" more than one)
PortsOf(pods, S) == [pt \in PortNames |->
    LET H == {p \in S : pods[p].port = pt}
    IN IF H = {} THEN "-" ELSE IF Cardinality(H) = 1 THEN (CHOOSE p \in H : TRUE) ELSE "many"]
VolsOf(pods, S) == {pods[p].vol : p \in S} \ {"-"}

\* ---------------------------------------------------------------- F
FTracked(api, n) == api.nodes[n].ex /\ ~(api.nodes[n].pool # "" /\ api.nodes[n].pid = "")
FKeyOfNode(api, n) == IF api.nodes[n].pid = "" THEN n ELSE api.nodes[n].pid
FNodesAt(api, k) == {n \in DOMAIN api.nodes : FTracked(api, n) /\ FKeyOfNode(api, n) = k}
FClaimsAt(api, k) == {c \in DOMAIN api.claims : api.claims[c].ex /\ k # "" /\ api.claims[c].pid = k}
\* the statement presupposes provider ids identify instances: at most one Node and one NodeClaim per id
FUnambiguous(api, K) == \A k \in K : Cardinality(FNodesAt(api, k)) <= 1 /\ Cardinality(FClaimsAt(api, k)) <= 1
FNode(api, k) == IF FNodesAt(api, k) = {} THEN NoNode ELSE api.nodes[CHOOSE n \in FNodesAt(api, k) : TRUE]
FClaim(api, k) == IF FClaimsAt(api, k) = {} THEN NoClaim ELSE api.claims[CHOOSE c \in FClaimsAt(api, k) : TRUE]
FPodsOn(api, k) == LET nd == FNode(api, k)
                   IN IF ~nd.ex THEN {}
                      ELSE {p \in DOMAIN api.pods : api.pods[p].ex /\ api.pods[p].node = nd.name /\ ~api.pods[p].term}
FMarked(api, marks, k) == k \in marks \/ PDeleted(FNode(api, k), FClaim(api, k))

FStateNode(api, marks, k) ==
    LET nd == FNode(api, k)  cl == FClaim(api, k)  S == FPodsOn(api, k)
    IN [ex |-> nd.ex \/ cl.ex, node |-> nd, claim |-> cl,
        req |-> ReqOf(api.pods, S), dreq |-> ReqOf(api.pods, {p \in S : api.pods[p].ds}),
        cost |-> CostOf(api.pods, S), ports |-> PortsOf(api.pods, S), vols |-> VolsOf(api.pods, S),
        marked |-> (nd.ex \/ cl.ex) /\ FMarked(api, marks, k)]

FPoolTotal(api, marks, K, pl) ==
    LET M == {k \in K : LET s == FStateNode(api, marks, k) IN s.ex /\ ~s.marked /\ PPool(s.node, s.claim) = pl}
    IN [cpu |-> SumSet(M, [k \in M |-> PCap(FNode(api, k), FClaim(api, k)).cpu]),
        mem |-> SumSet(M, [k \in M |-> PCap(FNode(api, k), FClaim(api, k)).mem]),
        nodes |-> Cardinality(M)]
FCounts(api, marks, pl) ==
    LET C == {c \in DOMAIN api.claims : api.claims[c].ex /\ api.claims[c].pool = pl}
        D == {c \in C : api.claims[c].pid # "" /\ FMarked(api, marks, api.claims[c].pid)}
    IN [active |-> Cardinality(C \ D), deleting |-> Cardinality(D)]

\* ---------------------------------------------------------------- the guards (cache view m vs F), one per field
\* m = [sn: key -> state-node view, pool: pool -> totals, counts: pool -> [active, deleting]]
G_C11_CacheEqualsF_nodes(m, api, marks, K) ==
    \A k \in K : LET f == FStateNode(api, marks, k) IN
        m.sn[k].ex = f.ex /\ (f.ex => SameObj(m.sn[k].node, f.node) /\ SameObj(m.sn[k].claim, f.claim))
FieldEq(m, api, marks, K, fld) ==
    \A k \in K : LET f == FStateNode(api, marks, k) IN (f.ex /\ m.sn[k].ex) => m.sn[k][fld] = f[fld]
G_C11_CacheEqualsF_requests(m, api, marks, K) == FieldEq(m, api, marks, K, "req")
G_C11_CacheEqualsF_daemonRequests(m, api, marks, K) == FieldEq(m, api, marks, K, "dreq")
G_C11_CacheEqualsF_hostPorts(m, api, marks, K) == FieldEq(m, api, marks, K, "ports")
G_C11_CacheEqualsF_volumes(m, api, marks, K) == FieldEq(m, api, marks, K, "vols")
G_C11_CacheEqualsF_disruptionCost(m, api, marks, K) == FieldEq(m, api, marks, K, "cost")
G_C11_CacheEqualsF_marks(m, api, marks, K) == FieldEq(m, api, marks, K, "marked")
G_C11_CacheEqualsF_poolTotals(m, api, marks, K, P) == \A pl \in P : m.pool[pl] = FPoolTotal(api, marks, K, pl)
G_C11_CacheEqualsF_nodeCounts(m, api, marks, P) == \A pl \in P : m.counts[pl] = FCounts(api, marks, pl)
=============================================================================
