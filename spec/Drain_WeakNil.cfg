\* spec mutation (a re-add without deadline clears the deadline the pod was queued under): TLC must reject it (vacuity guard)
CONSTANTS Pods = {"p1", "p2"}  Archetypes <- ArchDl  TGPs <- BoolT  TGP = 3
  MaxNow = 4  MaxFaults = 0  MaxRestarts = 0  MaxDlChanges = 1  MaxLen = 1000  MaxSpont = 99
  EarlierMode = "nilclears"  GateTiers = TRUE  MinGrace = 1  DndMode = "honour"  ThresholdSlack = 0  DropMode = "keep"  SplitMode = "waiting"
SPECIFICATION Spec
VIEW view
INVARIANTS TypeOK Inv_C10_Guards
