\* exhaustive, one command with up to THREE candidates x <=1 replacement, one fault, one restart, one candidate lost mid-command
CONSTANTS Nodes = {"n1", "n2", "n3"}  Cmds = {"A"}  MaxRepl = 1  T = 1  MaxNow = 2  MaxFaults = 1  MaxRestarts = 1  MaxCandVanish = 1
          DelFaults = TRUE  CodeMode = "code"  Weak = "none"  Serial = FALSE  Gen = FALSE  MaxLen = 0
SPECIFICATION Spec
INVARIANTS TypeOK Inv_C08_DeleteAfterAllInitialized Inv_C08_NoDeleteAfterFailure_Code Inv_C08_SingleCommandPerNode
           Inv_C08_RolledBackWhenQuiet Inv_C08_RolledBackByAction
