\* exhaustive: standalone claim judged against the whole cluster (nodes of a pool + unlabelled nodes)
CONSTANTS Claims = {"c2"}  MaxNow = 1000  MaxFaults = 1  MaxEnv = 1  MaxLen = 30  NoopEvery = 1  OffBefore = {1}  OffAfter = {0}
          EA = 600  LT = 300  RT = 900  TolReady = 120  TolUnk = 90  TolDisk = 60  UnknownFirst = TRUE
          PoolBg = {0, 3}  OtherBg = {0, 2, 5, 9}  MaxBad = 2  MaxDel = 1  ReadyVals = {"True", "False", "Unknown"}
          RoundedClock = {}  ExpireSlack = 0  ExpireNever = "check"  GcOnProvListError = "abort"  GcOnLookupError = "skip"  GcReady = "check"  NotFoundAsEmpty = {}  GcReadOrder = "claimsFirst"  LiveGate = "registered"
          LiveSlack = 0  RepairSlack = 0  RepairTolBy = "policy"  RepairAnnotated = "check"  RepairExtra = 0  RepairScope = "pool"  RepairOnListError = "abort"  RepairTerminating = "count"
SPECIFICATION Spec
VIEW view
INVARIANTS TypeOK Inv_C16_Expiration Inv_C16_GarbageCollection Inv_C16_Liveness Inv_C16_Repair
PROPERTIES Act_C16_NoTriggerNoReap
