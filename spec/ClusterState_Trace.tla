------------------------- MODULE ClusterState_Trace -------------------------
(***************************************************************************)
(* Trace validation for C11.  The recorded execution of the real informer  *)
(* controllers + state.Cluster is a sequence of                            *)
(*   Step    an environment mutation of one API object (or Mark / Unmark / *)
(*           Seed / Restart)                 -> the object becomes pending *)
(*           (kind2: a created NodeClaim also schedules state.nodeclaimgc) *)
(*   Deliver one Reconcile of the real informer controller for one object  *)
(*           (requeue = it asked to be called again: still pending)        *)
(*   Mem     the cache projected through its exported accessors, together  *)
(*           with an abstract snapshot of the API objects                  *)
(* Ghost state computed here (never taken from the implementation):        *)
(*   pend    objects whose latest version has not been delivered           *)
(*   marks   provider ids explicitly marked for deletion (an explicit mark *)
(*           lives as long as the cache entry it was put on)               *)
(*   ncs     provider ids that saw a NodeClaim delivery since the last     *)
(*           delivery of their Node (only used to classify a failure)      *)
(*   shape / reshaped / dsflip  the shape each pod name was last created   *)
(*           with, the names re-created with a different shape and those   *)
(*           whose daemonset ownership changed thereby (classification)    *)
(* At every Mem with pend = {} the cache view must equal F(api, marks),    *)
(* field by field; failures are accumulated per field and per state node   *)
(* with a signature that names the witness class.                          *)
(***************************************************************************)
EXTENDS ClusterStateF, TLC, Json, IOUtils

VARIABLES l, st, viol, ntr, nq, done
tvars == <<l, st, viol, ntr, nq, done>>

Trace == ndJsonDeserialize(IOEnv.TRACE)
Ev == Trace[l]
Range(s) == {s[i] : i \in DOMAIN s}
RECURSIVE SetToSeq(_)
SetToSeq(S) == IF S = {} THEN <<>> ELSE LET x == CHOOSE y \in S : TRUE IN <<x>> \o SetToSeq(S \ {x})
RECURSIVE Flat(_)
Flat(ss) == IF ss = <<>> THEN <<>> ELSE Head(ss) \o Flat(Tail(ss))
V(guard, sig) == [line |-> l, guard |-> guard, sig |-> sig]
Chk(ok, guard, sig) == IF ok THEN <<>> ELSE <<V(guard, sig)>>

St0(cfg) == [keys |-> Range(cfg.pids) \cup Range(cfg.nodes), pools |-> Range(cfg.pools), pend |-> {}, marks |-> {}, ncs |-> {},
             shapes |-> cfg.shapes, shape |-> [p \in Range(cfg.pods) |-> "none"], reshaped |-> {}, dsflip |-> {}]
TraceInit == l = 1 /\ st = [keys |-> {}, pools |-> {}, pend |-> {}, marks |-> {}, ncs |-> {}, shapes |-> <<>>, shape |-> <<>>,
                            reshaped |-> {}, dsflip |-> {}]
             /\ viol = <<>> /\ ntr = 0 /\ nq = 0 /\ done = FALSE

\* ---------------------------------------------------------------- Step / Deliver: ghost bookkeeping
ShapeNames == {"std", "alt", "bare"}
ShapeOf(z) == IF z \in ShapeNames THEN z ELSE "std"
TStep ==
    /\ Ev.e = "Step"
    /\ st' = [st EXCEPT
         !.pend = IF Ev.a = "Restart" THEN {<<o[1], o[2]>> : o \in Range(Ev.objs)}
                  ELSE (IF Ev.kind = "-" THEN @ ELSE @ \cup {<<Ev.kind, Ev.x>>})
                       \cup (IF Ev.kind2 = "-" THEN {} ELSE {<<Ev.kind2, Ev.x>>}),
         !.marks = IF Ev.a = "Restart" THEN {}
                   ELSE IF Ev.a = "Mark" /\ Ev.hit THEN @ \cup {Ev.x}
                   ELSE IF Ev.a = "Unmark" THEN @ \ {Ev.x} ELSE @,
         !.ncs = IF Ev.a = "Restart" THEN {} ELSE @,
         !.shape = IF Ev.a = "CreatePod" THEN [@ EXCEPT ![Ev.x] = ShapeOf(Ev.z)] ELSE @,
         !.reshaped = IF Ev.a = "Restart" THEN {}
                      ELSE IF Ev.a = "CreatePod" /\ st.shape[Ev.x] \notin {"none", ShapeOf(Ev.z)} THEN @ \cup {Ev.x} ELSE @,
         !.dsflip = IF Ev.a = "Restart" THEN {}
                    ELSE IF Ev.a = "CreatePod" /\ st.shape[Ev.x] # "none"
                            /\ st.shapes[Ev.x][st.shape[Ev.x]].ds # st.shapes[Ev.x][ShapeOf(Ev.z)].ds THEN @ \cup {Ev.x} ELSE @]
    /\ UNCHANGED <<viol, nq>>

TDeliver ==
    /\ Ev.e = "Deliver"
    /\ st' = [st EXCEPT
         !.pend = IF Ev.requeue THEN @ ELSE @ \ {<<Ev.kind, Ev.name>>},
         !.marks = @ \cap Range(Ev.keys),
         !.ncs = IF Ev.okey = "-" \/ Ev.requeue THEN @
                 ELSE IF Ev.kind = "NodeClaim" THEN @ \cup {Ev.okey}
                 ELSE IF Ev.kind = "Node" THEN @ \ {Ev.okey} ELSE @]
    /\ viol' = viol \o Chk(Ev.panic = "-", "G_C11_DeliveryCompletes", "panic:" \o Ev.kind)
    /\ UNCHANGED nq

\* ---------------------------------------------------------------- Mem: cache view vs F
Api == Ev.api
Keys == st.keys
\* the logged projection, reduced to the fields F defines
M == [sn |-> [k \in Keys |-> LET s == Ev.sn[k] IN
               [ex |-> s.ex, node |-> s.node, claim |-> s.claim, req |-> s.req, dreq |-> s.dreq, cost |-> s.cost,
                ports |-> [pt \in PortNames |-> s.ports[pt]], vols |-> Range(s.vols), marked |-> s.marked]],
      pool |-> [pl \in st.pools |-> Ev.pool[pl]],
      counts |-> [pl \in st.pools |-> [active |-> Ev.counts[pl].active, deleting |-> Ev.counts[pl].deleting]]]
FS(k) == FStateNode(Api, st.marks, k)

\* ---- witness classes (signatures).  A state node's usage can only be wrong in the listed known ways if ...
\* pods that exist unbound (a predecessor of the same name may still be tracked on this node)
Unbound == {p \in DOMAIN Api.pods : Api.pods[p].ex /\ Api.pods[p].node = "" /\ ~Api.pods[p].term}
\* A known defect explains a difference only if the WHOLE picture fits it (a signature must not swallow another defect):
\*  - a stale binding (F-C11-3) keeps every aggregate of the phantom pod, so the same phantom pods S (each in one of the
\*    shapes sa of its name) must explain the node's requests AND the field at hand;
\*  - an entry kept after a change of daemonset ownership (F-C11-5) concerns pods D that are on the node now, whose name
\*    changed ownership, and adds exactly the entry of one of their other-ownership shapes da;
\*  - volumes kept after a same-name replacement (F-C11-4) are volumes of some shape of a re-shaped pod counted on the node;
\*  - usage kept after the Node vanished (F-C11-2) is only accepted while the API has no Node for the state node.
PhPods(S, sa) == [p \in DOMAIN Api.pods |-> IF p \in S THEN st.shapes[p][sa[p]] ELSE Api.pods[p]]
ReqAdd(a, b) == [cpu |-> a.cpu + b.cpu, mem |-> a.mem + b.mem, pods |-> a.pods + b.pods]
ShapeVols(T) == UNION {{st.shapes[p][sh].vol : sh \in ShapeNames} : p \in T} \ {"-"}
Explains(k, fld, S, sa, D, da) ==
    LET m == M.sn[k]  pf == PhPods(S, sa)  T == FPodsOn(Api, k) \cup S  df == PhPods(D, da)
    IN /\ m.req = ReqOf(pf, T)
       /\ CASE fld = "req" -> D = {}
            [] fld = "ports" -> D = {} /\ m.ports = PortsOf(pf, T)
            [] fld = "vols" -> /\ VolsOf(pf, T) \subseteq m.vols
                               /\ (m.vols \ VolsOf(pf, T)) \subseteq (IF D = {} THEN {} ELSE ShapeVols(D))
            [] fld = "dreq" -> /\ \A p \in D : ~pf[p].ds /\ df[p].ds
                               /\ m.dreq = ReqAdd(ReqOf(pf, {p \in T : pf[p].ds}), ReqOf(df, D))
            [] fld = "cost" -> /\ \A p \in D : pf[p].ds /\ ~df[p].ds
                               /\ m.cost = CostOf(pf, T) + SumSet(D, [p \in D |-> Max2(0, EvCost(df[p]))])
\* candidates for D: pods counted on the node (really, or as phantoms of S) whose name was re-shaped (volumes) / changed
\* daemonset ownership (entries) - a tracked predecessor carries along what an earlier replacement left on it
DCand(k, fld, S) == (FPodsOn(Api, k) \cup S)
                    \cap (IF fld = "vols" THEN st.reshaped ELSE IF fld \in {"dreq", "cost"} THEN st.dsflip ELSE {})
Explained(k, fld, needS, needD) ==
    \E S \in SUBSET Unbound : (S # {}) = needS /\ \E sa \in [S -> ShapeNames] :
    \E D \in SUBSET DCand(k, fld, S) : (D # {}) = needD /\ \E da \in [D -> ShapeNames] : Explains(k, fld, S, sa, D, da)
KeptSig(fld) == IF fld = "vols" THEN "volumes-kept-after-same-name-pod-replaced" ELSE "entry-kept-after-daemonset-ownership-change"
UsageSig(k, fld) ==
    LET f == FS(k)  m == M.sn[k]
    IN IF ~f.node.ex THEN "usage-kept-after-node-gone"
       ELSE IF Explained(k, fld, TRUE, FALSE) THEN "stale-binding-of-recreated-unbound-pod"
       ELSE IF Explained(k, fld, FALSE, TRUE) THEN KeptSig(fld)
       ELSE IF Explained(k, fld, TRUE, TRUE) THEN "stale-binding+" \o KeptSig(fld)
       ELSE IF fld \in {"req", "dreq", "cost"} THEN (IF m[fld] = f[fld] THEN "-" ELSE IF m.req = f.req THEN "other:requests-agree" ELSE "other")
       ELSE "other"
UsageChk(fld, guard) ==
    Flat([i \in 1..Len(SetToSeq(Keys)) |->
            LET k == SetToSeq(Keys)[i]  f == FS(k)
            IN Chk((f.ex /\ M.sn[k].ex) => M.sn[k][fld] = f[fld], guard, UsageSig(k, fld))])
NodesSig(k) ==
    LET f == FS(k)  m == M.sn[k]
    IN IF ~m.ex THEN "missing" ELSE IF ~f.ex THEN "leftover"
       ELSE IF ~SameObj(m.node, f.node)
            THEN (IF ~m.node.ex THEN "node-missing" ELSE IF ~f.node.ex THEN "node-leftover" ELSE "node-stale")
       ELSE (IF ~m.claim.ex THEN "claim-missing" ELSE IF ~f.claim.ex THEN "claim-leftover" ELSE "claim-stale")
NodesChk ==
    Chk(Ev.extra = <<>>, "G_C11_CacheEqualsF_nodes", "unknown-key")
    \o Flat([i \in 1..Len(SetToSeq(Keys)) |->
            LET k == SetToSeq(Keys)[i]  f == FS(k)  m == M.sn[k]
            IN Chk(m.ex = f.ex /\ (f.ex => SameObj(m.node, f.node) /\ SameObj(m.claim, f.claim)),
                   "G_C11_CacheEqualsF_nodes", NodesSig(k))])
MarksChk ==
    Flat([i \in 1..Len(SetToSeq(Keys)) |->
            LET k == SetToSeq(Keys)[i]  f == FS(k)
            IN Chk((f.ex /\ M.sn[k].ex) => M.sn[k].marked = f.marked, "G_C11_CacheEqualsF_marks",
                   IF f.marked THEN "mark-lost" ELSE "mark-invented")])
Cmp(a, b) == IF a = b THEN "=" ELSE IF a > b THEN ">" ELSE "<"
PoolChk ==
    Flat([i \in 1..Len(SetToSeq(st.pools)) |->
            LET pl == SetToSeq(st.pools)[i]  f == FPoolTotal(Api, st.marks, Keys, pl)  m == M.pool[pl]
            IN Chk(m = f, "G_C11_CacheEqualsF_poolTotals",
                   "cpu" \o Cmp(m.cpu, f.cpu) \o " mem" \o Cmp(m.mem, f.mem) \o " nodes" \o Cmp(m.nodes, f.nodes))])
CountsChk ==
    Flat([i \in 1..Len(SetToSeq(st.pools)) |->
            LET pl == SetToSeq(st.pools)[i]  f == FCounts(Api, st.marks, pl)  m == M.counts[pl]
            IN Chk(m = f, "G_C11_CacheEqualsF_nodeCounts",
                   "active" \o Cmp(m.active, f.active) \o " deleting" \o Cmp(m.deleting, f.deleting))])

Quiescent == st.pend = {}
TMem ==
    /\ Ev.e = "Mem"
    /\ UNCHANGED st
    /\ nq' = IF Quiescent THEN nq + 1 ELSE nq
    /\ viol' = IF ~Quiescent \/ ~FUnambiguous(Api, Keys) THEN viol
               ELSE viol \o NodesChk
                         \o UsageChk("req", "G_C11_CacheEqualsF_requests")
                         \o UsageChk("dreq", "G_C11_CacheEqualsF_daemonRequests")
                         \o UsageChk("ports", "G_C11_CacheEqualsF_hostPorts")
                         \o UsageChk("vols", "G_C11_CacheEqualsF_volumes")
                         \o UsageChk("cost", "G_C11_CacheEqualsF_disruptionCost")
                         \o MarksChk \o PoolChk \o CountsChk

TraceNext ==
    \/ /\ l <= Len(Trace) /\ l' = l + 1 /\ UNCHANGED done
       /\ \/ (Ev.e = "Cfg" /\ st' = St0(Ev) /\ ntr' = ntr + 1 /\ UNCHANGED <<viol, nq>>)
          \/ ((TStep \/ TDeliver \/ TMem) /\ UNCHANGED ntr)
    \/ /\ l = Len(Trace) + 1 /\ ~done /\ done' = TRUE
       /\ JsonSerialize(IOEnv.OUT, [viol |-> viol, consumed |-> l - 1, traces |-> ntr, quiescent |-> nq])
       /\ UNCHANGED <<l, st, viol, ntr, nq>>

TraceSpec == TraceInit /\ [][TraceNext]_tvars
=============================================================================
