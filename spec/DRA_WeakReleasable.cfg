\* spec mutation (W_Releasable = FALSE = the rule gatherAllocatedDevices had before /repo 576ecc993, findings F-C17-1..3 (fixed)): TLC must violate Inv_C17_DeviceExclusive
CONSTANTS NCs = {"N1"}  NClaims = 1  Kinds = {"net"}  Pres = {4}  Slots = {0}
CONSTANTS W_OtherNC = TRUE  W_SameType = TRUE  W_Prealloc = TRUE  W_RefCount = TRUE  W_CapInflight = TRUE  W_CapDelta = TRUE  W_Counters = TRUE  W_Template = TRUE  W_Releasable = FALSE 
SPECIFICATION Spec
INVARIANTS Inv_C17_DeviceExclusive Inv_C17_SharedCapacity Inv_C17_Counters Inv_C17_TrackerCoversEveryResolution
