"""Shared orchestration library for /verif checks.

One Run object per `bin/check <id>` invocation.  It
  * copies the TLA+ specs into a scratch directory under /verif/.work (TLC litters),
  * runs TLC on closed models (exhaustive / simulate) and parses the summary,
  * lets TLC generate behaviours (history variable printed as JSON),
  * builds the Go harness from /repo's *current working tree* with -tags verif,
  * runs drivers that replay behaviours on the real code and record ndjson traces,
  * validates the recorded traces with TLC trace specifications (guards accumulate in `viol`),
  * maps guard failures to properties / known findings, writes evidence, prints verdict lines.

Exit codes: 0 property held on everything explored; 1 VIOLATION (real-code behaviour failed a guard
that is not a listed known finding); 2 infrastructure problem (never a verdict).
"""
import glob
import hashlib
import json
import os
import re
import shutil
import subprocess
import sys
import time

ROOT = os.path.dirname(os.path.dirname(os.path.abspath(__file__)))
REPO = os.environ.get("VERIF_REPO", "/repo")
TLA_CP = "/opt/veriftools/tla/tla2tools.jar:/opt/veriftools/tla/CommunityModules-deps.jar"
NCPU = os.cpu_count() or 4


class InfraError(Exception):
    pass


import threading  # noqa: E402
_TLC_LOCK = threading.Lock()


def log(*a):
    print("[check]", *a, file=sys.stderr, flush=True)


def go_env():
    env = dict(os.environ)
    env["GOFLAGS"] = "-mod=mod"
    env["GOPROXY"] = "off"
    env.pop("GOTOOLCHAIN", None)  # GOTOOLCHAIN=local breaks the 1.26.6 switch in this sandbox
    env.pop("GOSUMDB", None)
    env.setdefault("GOCACHE", os.path.expanduser("~/.cache/go-build"))
    return env


class TlcResult:
    def __init__(self):
        self.ok = False
        self.generated = 0
        self.distinct = 0
        self.depth = 0
        self.violated = None      # name of violated invariant / property
        self.error = None         # other error text
        self.stdout = ""
        self.wall = 0.0
        self.coverage_zero = []   # actions with 0 count when -coverage used
        self.printed = []         # decoded PrintT payloads tagged "BEH"
        self.counterexample = None


class Run:
    def __init__(self, pid, tier="quick", seed=0, level="model_checking"):
        self.pid = pid
        self.tier = tier
        self.seed = int(seed)
        self.level = level
        self.t0 = time.time()
        self.work = os.path.join(ROOT, ".work", "%s-%s-%d" % (pid, tier, os.getpid()))
        if os.path.exists(self.work):
            shutil.rmtree(self.work)
        os.makedirs(self.work)
        self.specdir = os.path.join(self.work, "spec")
        shutil.copytree(os.path.join(ROOT, "spec"), self.specdir)
        self.states = 0
        self.transitions = 0
        self.models = []          # per closed-model run summary
        self.traces_validated = 0
        self.events_validated = 0
        self.evaluations = 0
        self.nontrivial = set()
        self.samples = []
        self.viol = []            # guard failures on real traces (dicts)
        self.notes = []
        self.assumptions = []
        self.extra_cov = {}
        self.exhaustive = False
        self.rule = ""
        self._drv = None
        self._tlc_n = 0
        self.known = load_known()
        self.pmap = load_pmap()

    # ------------------------------------------------------------------ TLC
    def tlc(self, module, cfg, workers=None, simulate=None, depth=None, env=None, timeout=600,
            coverage=False, heap="6g", deadlock=False, extra=None, dfs=False, collect_beh=False,
            expect_violation=False):
        """Run TLC on spec/<module>.tla with spec/<cfg>. Returns TlcResult."""
        with _TLC_LOCK:     # run.tlc may be called from several threads (independent TLC jobs of one check)
            self._tlc_n += 1
            n = self._tlc_n
        meta = os.path.join(self.work, "meta-%d" % n)
        jopts = ["-XX:+UseParallelGC", "-Xmx" + heap, "-Xss64m"]
        if dfs:
            jopts.append("-Dtlc2.tool.queue.IStateQueue=StateDeque")
        cmd = ["java"] + jopts + ["-cp", TLA_CP, "tlc2.TLC", "-metadir", meta, "-config", cfg,
                                   "-workers", str(workers or "auto")]
        if not deadlock:
            cmd.append("-deadlock")      # -deadlock *disables* deadlock checking
        if simulate:
            cmd += ["-simulate", simulate]
            if depth:
                cmd += ["-depth", str(depth)]
            cmd += ["-seed", str(self.seed + 1)]
        if coverage:
            cmd += ["-coverage", "1"]
        if extra:
            cmd += extra
        cmd.append(module + ".tla")
        e = dict(os.environ)
        e.pop("JAVA_TOOL_OPTIONS", None)
        if env:
            e.update({k: str(v) for k, v in env.items()})
        t = time.time()
        outpath = os.path.join(self.work, "tlc-%d.out" % n)
        with open(outpath, "w") as out:
            try:
                p = subprocess.run(cmd, cwd=self.specdir, env=e, stdout=out, stderr=subprocess.STDOUT,
                                   timeout=timeout)
                rc = p.returncode
            except subprocess.TimeoutExpired:
                raise InfraError("TLC timeout after %ss on %s/%s" % (timeout, module, cfg))
        r = TlcResult()
        r.wall = time.time() - t
        r.stdout = open(outpath, errors="replace").read()
        m = re.search(r"(\d+) states generated, (\d+) distinct states found", r.stdout)
        if m:
            r.generated, r.distinct = int(m.group(1)), int(m.group(2))
        m = re.search(r"The number of states generated: (\d+)", r.stdout)
        if m and not r.generated:
            r.generated = int(m.group(1))
        m = re.search(r"depth of the complete state graph search is (\d+)", r.stdout)
        if m:
            r.depth = int(m.group(1))
        m = re.search(r"Invariant (\S+) is violated", r.stdout)
        if m:
            r.violated = m.group(1)
        m = re.search(r"Action property (\S+) is violated|Temporal properties were violated", r.stdout)
        if m and not r.violated:
            r.violated = m.group(1) or "temporal"
        if "Error:" in r.stdout and not r.violated:
            em = re.search(r"Error: (.*(?:\n.*){0,6})", r.stdout)
            r.error = em.group(1) if em else "unknown TLC error"
        if "Deadlock reached" in r.stdout:
            r.violated = r.violated or "Deadlock"
        r.ok = (rc == 0 and not r.violated and not r.error)
        if coverage:
            # with -coverage TLC prints interim reports during long runs (actions not reached yet show 0):
            # only the final report counts
            covtxt = r.stdout
            k = covtxt.rfind("The coverage statistics")
            if k >= 0:
                covtxt = covtxt[k:]
            for cm in re.finditer(r"^<(\w+) line \d+, col \d+ to line \d+, col \d+ of module (\w+)>: (\d+):(\d+)$",
                                  covtxt, re.M):
                if int(cm.group(4)) == 0 and cm.group(1) not in ("Init",):
                    r.coverage_zero.append(cm.group(1))
        if collect_beh:
            for line in r.stdout.splitlines():
                if line.startswith('<<"BEH", '):
                    payload = line[len('<<"BEH", '):-2]
                    try:
                        r.printed.append(json.loads(json.loads(payload)))
                    except Exception:
                        pass
        if r.violated:
            r.counterexample = self._parse_cex(r.stdout)
        self.notes.append("tlc %s/%s: generated=%d distinct=%d depth=%d wall=%.1fs%s" % (
            module, cfg, r.generated, r.distinct, r.depth, r.wall,
            (" VIOLATED " + str(r.violated)) if r.violated else (" ERROR " + r.error[:200] if r.error else "")))
        if r.error and not expect_violation:
            raise InfraError("TLC error on %s/%s: %s\n(see %s)" % (module, cfg, r.error, outpath))
        return r

    @staticmethod
    def _parse_cex(out):
        """Return list of state texts of a TLC counterexample (raw, for diagnosis)."""
        states = re.split(r"\nState \d+: ", out)
        return [s.split("\n\n")[0] for s in states[1:]]

    def closed_model(self, module, cfg, must_hold=True, **kw):
        """Exhaustive (or simulated) check of a closed model; accumulate state counts."""
        r = self.tlc(module, cfg, **kw)
        self.states += r.distinct
        self.transitions += r.generated
        self.models.append({"module": module, "cfg": cfg, "distinct": r.distinct, "generated": r.generated,
                            "depth": r.depth, "wall_s": round(r.wall, 1), "violated": r.violated})
        if must_hold and not r.ok:
            # A closed-model failure is a statement about the *model*; verdicts only come from real code.
            raise InfraError("closed model %s/%s does not satisfy its invariants (%s); model and code "
                             "must be reconciled before this check can be trusted" % (module, cfg, r.violated))
        return r

    def generate(self, module, cfg, **kw):
        """Let TLC enumerate behaviours (history variable h printed as <<"BEH", ToJson(h)>>)."""
        r = self.tlc(module, cfg, collect_beh=True, **kw)
        if r.violated or r.error:
            raise InfraError("behaviour generation %s/%s failed: %s" % (module, cfg, r.violated or r.error))
        return r.printed

    # ------------------------------------------------------------------ Go harness
    def build_drv(self):
        if self._drv:
            return self._drv
        h = os.path.join(ROOT, "harness")
        if os.path.realpath(REPO) != "/repo":
            # mutation testing against a scratch worktree: build a private copy of the harness whose
            # replace directive points at that tree (registered checks always use /repo itself)
            h2 = os.path.join(self.work, "harness")
            shutil.copytree(h, h2)
            gm = open(os.path.join(h2, "go.mod")).read().replace("=> /repo", "=> " + os.path.realpath(REPO))
            open(os.path.join(h2, "go.mod"), "w").write(gm)
            h = h2
        shutil.copy(os.path.join(REPO, "go.sum"), os.path.join(h, "go.sum"))
        out = os.path.join(self.work, "drv")
        t = time.time()
        tags = "verif"
        # optional hooks: a driver file guarded by tag verif_<h> is compiled in only when /repo carries that hook
        if os.path.exists(os.path.join(REPO, "pkg/controllers/provisioning/scheduling/hooks_verif.go")):
            tags += ",verif_h1"
        p = subprocess.run(["go", "build", "-trimpath", "-tags", tags, "-o", out, "./cmd/drv"], cwd=h, env=go_env(),
                           stdout=subprocess.PIPE, stderr=subprocess.STDOUT, text=True, timeout=1500)
        if p.returncode != 0:
            raise InfraError("harness build failed:\n" + p.stdout[-4000:])
        self.notes.append("harness build %.1fs" % (time.time() - t))
        self._drv = out
        return out

    def drv(self, driver, args=None, stdin=None, timeout=1200, env=None):
        """Run a harness driver. Returns (rc, stdout). Drivers only record; they never judge."""
        exe = self.build_drv()
        e = go_env()
        e["VERIF_SEED"] = str(self.seed)
        e["VERIF_TIER"] = self.tier
        if env:
            e.update({k: str(v) for k, v in env.items()})
        cmd = [exe, driver] + [str(a) for a in (args or [])]
        try:
            p = subprocess.run(cmd, cwd=self.work, env=e, input=stdin, stdout=subprocess.PIPE,
                               stderr=subprocess.PIPE, text=True, timeout=timeout)
        except subprocess.TimeoutExpired:
            raise InfraError("driver %s timed out after %ss" % (driver, timeout))
        if p.returncode != 0:
            raise InfraError("driver %s failed rc=%d:\n%s" % (driver, p.returncode, (p.stderr or "")[-4000:]))
        return p.stdout

    # ------------------------------------------------------------------ trace validation
    def validate(self, module, cfg, trace_files, timeout=900, heap="3g", par=None):
        """Validate ndjson trace files with TLC trace spec `module`. Each file may hold many traces
        (a Cfg line starts a new one). Files are validated in parallel, one TLC (-workers 1) each.
        Returns list of guard failures [{file,line,guard,sig,...}]."""
        import concurrent.futures as cf
        par = par or min(NCPU, max(1, len(trace_files)))
        viol = []

        def one(i_path):
            i, path = i_path
            outp = path + ".viol.json"
            meta = os.path.join(self.work, "vmeta-%s-%d" % (os.path.basename(path), i))
            cmd = ["java", "-XX:+UseParallelGC", "-Xmx" + heap, "-Xss64m", "-cp", TLA_CP, "tlc2.TLC",
                   "-metadir", meta, "-config", cfg, "-workers", "1", "-deadlock", module + ".tla"]
            e = dict(os.environ)
            e.pop("JAVA_TOOL_OPTIONS", None)
            e["TRACE"] = path
            e["OUT"] = outp
            logp = path + ".tlc.out"
            with open(logp, "w") as out:
                try:
                    p = subprocess.run(cmd, cwd=self.specdir, env=e, stdout=out, stderr=subprocess.STDOUT,
                                       timeout=timeout)
                except subprocess.TimeoutExpired:
                    raise InfraError("trace validation timeout on %s" % path)
            txt = open(logp, errors="replace").read()
            if p.returncode != 0 or not os.path.exists(outp):
                em = re.search(r"Error: (.*(?:\n.*){0,12})", txt)
                raise InfraError("trace spec %s rejected/failed on %s (malformed log or spec error): %s" % (
                    module, path, em.group(1) if em else txt[-1500:]))
            res = json.load(open(outp))
            nlines = sum(1 for _ in open(path))
            if res.get("consumed") != nlines:
                raise InfraError("trace %s: only %s of %d lines consumed" % (path, res.get("consumed"), nlines))
            shutil.rmtree(meta, ignore_errors=True)
            return path, res, nlines

        with cf.ThreadPoolExecutor(max_workers=par) as ex:
            for path, res, nlines in ex.map(one, list(enumerate(trace_files))):
                self.traces_validated += int(res.get("traces", 1))
                self.events_validated += nlines
                for v in res.get("viol", []):
                    v = dict(v)
                    v["file"] = path
                    viol.append(v)
        self.viol += viol
        return viol

    # ------------------------------------------------------------------ verdict
    def note_case(self, key, nontrivial=True):
        self.evaluations += 1
        if nontrivial:
            self.nontrivial.add(key)

    def finish(self):
        """Map guard failures to this property, match known findings, write evidence, exit."""
        mine = [v for v in self.viol if self.pmap.get(v.get("guard", "")) == self.pid]
        other = [v for v in self.viol if self.pmap.get(v.get("guard", "")) != self.pid]
        known_hit, fresh = {}, []
        for v in mine:
            k = match_known(self.known, self.pid, v)
            if k is not None:
                known_hit.setdefault(k["id"], (k, v))
            else:
                fresh.append(v)
        for kid, (k, v) in sorted(known_hit.items()):
            print("KNOWN-FINDING: property=%s %s" % (self.pid, k["summary"]))
        rc = 0
        replay = None
        if fresh:
            rc = 1
            rdir = os.path.join(ROOT, ".work", "replays")
            os.makedirs(rdir, exist_ok=True)
            seen = set()
            for v in fresh:
                sigkey = (v.get("guard"), v.get("sig"))
                if sigkey in seen:
                    continue
                seen.add(sigkey)
                body = self._replay_body(v)
                hsh = hashlib.sha1(json.dumps(body, sort_keys=True).encode()).hexdigest()[:12]
                replay = os.path.join(rdir, "%s-%s.json" % (self.pid, hsh))
                json.dump(body, open(replay, "w"), indent=1)
                print("VIOLATION property=%s replay=%s" % (self.pid, replay), flush=True)
                log("violation detail: guard=%s sig=%s line=%s file=%s" % (v.get("guard"), v.get("sig"), v.get("line"), v.get("file")))
        if other:
            oth = sorted({"%s(%s)" % (v.get("guard"), self.pmap.get(v.get("guard"), "?")) for v in other})
            self.notes.append("guards of other properties failed on these traces (reported by their own check): "
                              + ", ".join(oth))
        if not getattr(self, "is_replay", False):   # a replay never overwrites the evidence of the registered tiers
            self.write_evidence(len(fresh), sorted(known_hit))
        for n in self.notes:
            log(n)
        log("%s %s: %s  (states=%d transitions=%d traces=%d events=%d evals=%d nontrivial=%d, %.1fs)" % (
            self.pid, self.tier, "OK" if rc == 0 else "VIOLATION", self.states, self.transitions,
            self.traces_validated, self.events_validated, self.evaluations, len(self.nontrivial),
            time.time() - self.t0))
        if rc == 0 and not os.environ.get("VERIF_KEEP"):
            shutil.rmtree(self.work, ignore_errors=True)
        sys.exit(rc)

    def _replay_body(self, v):
        """Self-contained replay: the trace (Cfg..End) that contains the failing line."""
        body = {"property": self.pid, "tier": self.tier, "seed": self.seed, "guard": v.get("guard"),
                "sig": v.get("sig"), "line": v.get("line"), "detail": v}
        try:
            lines = open(v["file"]).read().splitlines()
            ln = int(v.get("line", 1)) - 1
            s = ln
            while s > 0 and '"e":"Cfg"' not in lines[s].replace(" ", ""):
                s -= 1
            e = ln
            while e + 1 < len(lines) and '"e":"Cfg"' not in lines[e + 1].replace(" ", ""):
                e += 1
            body["trace"] = [json.loads(x) for x in lines[s:e + 1]]
            body["failing_event"] = json.loads(lines[ln])
        except Exception as ex:  # pragma: no cover
            body["trace_error"] = str(ex)
        return body

    def write_evidence(self, nviol, known_ids):
        cov = {
            "states": self.states,
            "transitions": self.transitions,
            "traces_validated_against_impl": self.traces_validated,
            "events_validated": self.events_validated,
            "evaluations": self.evaluations,
            "distinct_nontrivial": len(self.nontrivial),
            "rule": self.rule,
            "samples": self.samples[:6] if self.samples else ["(none)"],
            "closed_models": self.models,
            "exhaustive": bool(self.exhaustive),
            "known_findings_hit": known_ids,
            "notes": self.notes,
        }
        cov.update(self.extra_cov)
        ev = {
            "property_id": self.pid,
            "tier": self.tier,
            "seed": self.seed,
            "level": self.level,
            "coverage": cov,
            "assumptions": self.assumptions,
            "wall_s": round(time.time() - self.t0, 2),
            "violations": nviol,
        }
        evdir = os.path.join(ROOT, "evidence")
        if os.path.realpath(REPO) != "/repo":
            # mutation / seed testing against another tree never touches the registered evidence
            evdir = os.path.join(self.work, "evidence-not-registered")
        os.makedirs(evdir, exist_ok=True)
        p = os.path.join(evdir, self.pid + ".json")
        tmp = p + ".tmp%d" % os.getpid()
        json.dump(ev, open(tmp, "w"), indent=1)
        os.replace(tmp, p)


def load_pmap():
    """guard/invariant name -> property id; one JSON file per module under spec/pmap/."""
    out = {}
    for p in sorted(glob.glob(os.path.join(ROOT, "spec", "pmap", "*.json"))):
        out.update(json.load(open(p)))
    return out


# ---------------------------------------------------------------------- known findings
def load_known():
    p = os.path.join(ROOT, "KNOWN_FINDINGS.jsonl")
    out = []
    if os.path.exists(p):
        for line in open(p):
            line = line.strip()
            if line and not line.startswith("#"):
                out.append(json.loads(line))
    return out


def match_known(known, pid, v):
    """A violation matches a known finding iff property, guard and signature are all equal and the
    entry's status is 'known' ('fixed' entries suppress nothing)."""
    for k in known:
        if k.get("status") != "known" or k.get("property") != pid:
            continue
        if k.get("guard") == v.get("guard") and k.get("signature") == v.get("sig"):
            return k
    return None


def write_ndjson(path, rows):
    with open(path, "w") as f:
        for r in rows:
            f.write(json.dumps(r, separators=(",", ":")) + "\n")


def shard(items, n):
    n = max(1, min(n, len(items)))
    return [items[i::n] for i in range(n)]


def main_wrapper(fn):
    """Run a check function turning InfraError into exit 2."""
    try:
        fn()
    except InfraError as e:
        print("INFRA-ERROR: %s" % e, file=sys.stderr)
        sys.exit(2)
