"""Single source for MANIFEST.json: one entry per claimed property; everything else is listed
under not_applicable with the reason.  `bin/mkmanifest` regenerates MANIFEST.json from this."""

CHECKS = {
    "C20": {
        "engine": "Health",
        "technique": "TLA+ closed model (TLC exhaustive) + TLC-enumerated behaviours replayed on nodepoolhealth.State + TLC trace validation",
        "category": "model_checking",
        "text": "Health.tla relates the ideal four-outcome window to the ring buffer as implemented (refinement, what-if agreement, "
                "per-step condition rule) and is checked exhaustively; every action sequence up to depth 7 (9 thorough) plus seeded "
                "deep TLC simulations is replayed on the real State and each recorded DryRun/Status result is re-derived by "
                "Health_Trace.tla from the ideal window.",
        "design_ref": "DESIGN.md §4 C20",
        "note": "trusts TLC, the Json module, and that State.Update/DryRun/Status/SetStatus are the only mutators of the window",
    },
}

PENDING_REASON = "check not built yet in this session (planned per DESIGN.md §8); not claimed until its machinery exists"

ALL = ["C%02d" % i for i in range(1, 21)]
