"""Single source for MANIFEST.json: one JSON file per claimed property under lib/manifest/<id>.json
(keys: engine, technique, category, text, design_ref, note); everything else is listed under
not_applicable with the reason from NA (or PENDING_REASON).  `bin/mkmanifest` regenerates MANIFEST.json."""
import glob, json, os

HERE = os.path.dirname(os.path.abspath(__file__))
CHECKS = {}
for p in sorted(glob.glob(os.path.join(HERE, "manifest", "C*.json"))):
    CHECKS[os.path.basename(p)[:-5]] = json.load(open(p))

NA = {}
PENDING_REASON = "check not built yet in this session (planned per DESIGN.md §8); not claimed until its machinery exists"
ALL = ["C%02d" % i for i in range(1, 21)]
