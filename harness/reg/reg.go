// Package reg is the driver registry; driver packages register themselves in init().
package reg

var Registry = map[string]func(args []string) error{}

func Register(name string, f func(args []string) error) {
	if _, dup := Registry[name]; dup {
		panic("duplicate driver " + name)
	}
	Registry[name] = f
}
