// Package cstate binds ClusterState.tla (C11) to the real cluster-state cache: pkg/controllers/state
// (Cluster, StateNode, NodePoolState) fed by the real informer controllers of
// pkg/controllers/state/informer running against the harness world.
//
// A behaviour is a history of ClusterState.tla: environment steps mutate the API objects
// (w.EnvCreate / EnvMutate / EnvRemove), `Deliver` steps call the real informer controller's
// Reconcile for one object (level-triggered: the controller reads the object's current version or
// finds it absent), `Mark`/`Unmark` call Cluster.MarkForDeletion / UnmarkForDeletion.  The driver
// only records: after every step at which no delivery is outstanding it logs a `Mem` event holding
// (i) an abstract snapshot of the API objects, (ii) the projection of the real cache through its
// exported accessors and (iii) as a second opinion the same projection of a fresh Cluster fed only
// the current objects.  ClusterState_Trace.tla computes F from (i) and compares it with (ii).
package cstate

import (
	"context"
	"encoding/json"
	"flag"
	"fmt"
	"os"
	"sort"
	"strconv"
	"strings"

	"github.com/samber/lo"
	appsv1 "k8s.io/api/apps/v1"
	corev1 "k8s.io/api/core/v1"
	storagev1 "k8s.io/api/storage/v1"
	"k8s.io/apimachinery/pkg/api/resource"
	metav1 "k8s.io/apimachinery/pkg/apis/meta/v1"
	"k8s.io/apimachinery/pkg/types"
	"k8s.io/apimachinery/pkg/util/sets"
	"sigs.k8s.io/controller-runtime/pkg/client"
	"sigs.k8s.io/controller-runtime/pkg/reconcile"

	v1 "sigs.k8s.io/karpenter/pkg/apis/v1"
	"sigs.k8s.io/karpenter/pkg/controllers/state"
	"sigs.k8s.io/karpenter/pkg/controllers/state/informer"
	"sigs.k8s.io/karpenter/pkg/controllers/state/nodeclaimgc"
	"sigs.k8s.io/karpenter/pkg/scheduling"
	"sigs.k8s.io/karpenter/pkg/state/cost"

	"verif/harness/reg"
	"verif/harness/trace"
	"verif/harness/world"
)

func init() { reg.Register("cstate", Run) }

type Step struct {
	A string `json:"a"`
	X string `json:"x"`
	Y string `json:"y"`
	Z string `json:"z"`
}

type Universe struct {
	Nodes  []string `json:"nodes"`
	Claims []string `json:"claims"`
	Pods   []string `json:"pods"`
	Pids   []string `json:"pids"`
	Pools  []string `json:"pools"`
	Ports  []string `json:"ports"`
	Vols   []string `json:"vols"`
}

type Behaviour struct {
	Tag   string `json:"tag"`
	Steps []Step `json:"steps"`
}

type Input struct {
	U    Universe    `json:"universe"`
	Behs []Behaviour `json:"behs"`
}

// PodSpec is the static shape of a pod key (mirrors PodAttr of ClusterState.tla).
type PodSpec struct {
	DS      bool
	CPU     int
	MemMi   int
	Port    int32
	Vol     string
	DelCost string // pod-deletion-cost annotation, "" = none
	Prio    *int32
}

// podSpec: the shape of a pod key.  A pod name can be re-used by a different pod: shape "alt" has other requests,
// another host port, the other volume and another deletion cost; shape "bare" has no host port, no volume, no
// deletion cost / priority, other requests and the opposite daemonset ownership.
func podSpec(key, shape string) PodSpec {
	switch shape {
	case "alt":
		ps := podSpec(key, "-")
		ps.CPU += 10
		ps.Port = 82
		ps.Vol = map[string]string{"va": "vb", "vb": "va", "": "va"}[ps.Vol]
		ps.DelCost = "268435456"
		return ps
	case "bare":
		ps := podSpec(key, "-")
		return PodSpec{DS: !ps.DS, CPU: ps.CPU + 20}
	}
	switch key {
	case "p1":
		return PodSpec{CPU: 100, MemMi: 64, Port: 80, Vol: "va", DelCost: "134217728"}
	case "p2":
		return PodSpec{DS: true, CPU: 50, MemMi: 32}
	case "p3":
		return PodSpec{CPU: 200, Port: 81, Vol: "va", DelCost: "-268435456"}
	}
	return PodSpec{CPU: 300, MemMi: 128, Vol: "vb", Prio: lo.ToPtr(int32(33554432))}
}

const (
	csiDriver   = "csi.test"
	volLimit    = 8
	scName      = "sc"
	ns          = "default"
	typeLabel   = "t-small"
	finalizer   = v1.TerminationFinalizer
	dsName      = "ds"
	probePodKey = "zz-probe"
)

type sim struct {
	w       *world.World
	ctx     context.Context
	u       Universe
	cl      *state.Cluster
	nodeC   *informer.NodeController
	claimC  *informer.NodeClaimController
	podC    *informer.PodController
	dsC     *informer.DaemonSetController
	poolC   *informer.NodePoolController
	gcC     *nodeclaimgc.Controller
	pend    map[string]bool // "Kind/name" with an outstanding delivery
	marks   sets.Set[string]
	tw      *trace.Writer
	nMem    int
	nRich   int // quiescent points at which some state node carries pods
	created map[string]*v1.NodeClaim // NodeClaims as created (for the provisioner's seed)
}

type ctrls struct {
	cl     *state.Cluster
	nodeC  *informer.NodeController
	claimC *informer.NodeClaimController
	podC   *informer.PodController
	dsC    *informer.DaemonSetController
	poolC  *informer.NodePoolController
	gcC    *nodeclaimgc.Controller
}

func newCtrls(ctx context.Context, w *world.World) ctrls {
	cl := state.NewCluster(w.Clock, w.Client, w.Prov)
	return ctrls{cl: cl,
		nodeC:  informer.NewNodeController(w.Client, cl),
		claimC: informer.NewNodeClaimController(w.Client, w.Prov, cl, cost.NewClusterCost(ctx, w.Prov, w.Client)),
		podC:   informer.NewPodController(w.Client, cl),
		dsC:    informer.NewDaemonSetController(w.Client, cl),
		poolC:  informer.NewNodePoolController(w.Client, w.Prov, cl, cost.NewClusterCost(ctx, w.Prov, w.Client)),
		gcC:    nodeclaimgc.NewController(w.Client, cl),
	}
}

func (s *sim) restart() {
	c := newCtrls(s.ctx, s.w)
	s.cl, s.nodeC, s.claimC, s.podC, s.dsC, s.poolC, s.gcC = c.cl, c.nodeC, c.claimC, c.podC, c.dsC, c.poolC, c.gcC
	s.marks = sets.New[string]()
}

// ---------------------------------------------------------------- abstraction of API objects

func capOf(rl corev1.ResourceList) trace.M {
	return trace.M{"cpu": int(lo.ToPtr(rl[corev1.ResourceCPU]).MilliValue()), "mem": int(lo.ToPtr(rl[corev1.ResourceMemory]).Value() >> 20)}
}

func reqOf(rl corev1.ResourceList) trace.M {
	return trace.M{"cpu": int(lo.ToPtr(rl[corev1.ResourceCPU]).MilliValue()), "mem": int(lo.ToPtr(rl[corev1.ResourceMemory]).Value() >> 20),
		"pods": int(lo.ToPtr(rl[corev1.ResourcePods]).Value())}
}

func rvOf(o client.Object) int {
	n, _ := strconv.Atoi(o.GetResourceVersion())
	return n
}

var noCap = trace.M{"cpu": 0, "mem": 0}

func noNode() trace.M {
	return trace.M{"ex": false, "name": "-", "pid": "", "pool": "", "reg": false, "init": false, "del": false, "cap": noCap, "rv": 0}
}
func noClaim() trace.M {
	return trace.M{"ex": false, "name": "-", "pid": "", "pool": "", "del": false, "term": false, "cap": noCap, "rv": 0}
}
func noPod() trace.M {
	return trace.M{"ex": false, "name": "-", "node": "", "term": false, "ds": false, "cpu": 0, "mem": 0, "port": "-", "vol": "-",
		"delCost": 0, "prio": 0, "rv": 0}
}

// absNode: a Node without provider id is keyed by its name when unmanaged (UpdateNode writes the name into the
// copy it caches), so a provider id equal to the name is the abstract "no provider id".
func absNode(n *corev1.Node) trace.M {
	if n == nil {
		return noNode()
	}
	pid := n.Spec.ProviderID
	if pid == n.Name {
		pid = ""
	}
	return trace.M{"ex": true, "name": n.Name, "pid": pid, "pool": n.Labels[v1.NodePoolLabelKey],
		"reg": n.Labels[v1.NodeRegisteredLabelKey] == "true", "init": n.Labels[v1.NodeInitializedLabelKey] == "true",
		"del": !n.DeletionTimestamp.IsZero(), "cap": capOf(n.Status.Capacity), "rv": rvOf(n)}
}

func absClaim(c *v1.NodeClaim) trace.M {
	if c == nil {
		return noClaim()
	}
	return trace.M{"ex": true, "name": c.Name, "pid": c.Status.ProviderID, "pool": c.Labels[v1.NodePoolLabelKey],
		"del": !c.DeletionTimestamp.IsZero(), "term": c.StatusConditions().Get(v1.ConditionTypeInstanceTerminating).IsTrue(),
		"cap": capOf(c.Status.Capacity), "rv": rvOf(c)}
}

func absPod(p *corev1.Pod) trace.M {
	if p == nil {
		return noPod()
	}
	m := noPod()
	m["ex"], m["name"], m["node"], m["rv"] = true, p.Name, p.Spec.NodeName, rvOf(p)
	m["term"] = p.Status.Phase == corev1.PodSucceeded || p.Status.Phase == corev1.PodFailed
	for _, o := range p.OwnerReferences {
		if o.Kind == "DaemonSet" && o.APIVersion == "apps/v1" {
			m["ds"] = true
		}
	}
	cpu, mem := 0, 0
	for _, c := range p.Spec.Containers {
		cpu += int(c.Resources.Requests.Cpu().MilliValue())
		mem += int(c.Resources.Requests.Memory().Value() >> 20)
		for _, pt := range c.Ports {
			if pt.HostPort != 0 {
				m["port"] = strconv.Itoa(int(pt.HostPort))
			}
		}
	}
	m["cpu"], m["mem"] = cpu, mem
	for _, v := range p.Spec.Volumes {
		if v.PersistentVolumeClaim != nil {
			m["vol"] = v.PersistentVolumeClaim.ClaimName
		}
	}
	if s, ok := p.Annotations[corev1.PodDeletionCost]; ok {
		if n, err := strconv.Atoi(s); err == nil {
			m["delCost"] = n
		}
	}
	if p.Spec.Priority != nil {
		m["prio"] = int(*p.Spec.Priority)
	}
	return m
}

func (s *sim) getNode(n string) *corev1.Node {
	o := &corev1.Node{ObjectMeta: metav1.ObjectMeta{Name: n}}
	if !s.w.Get(o) {
		return nil
	}
	return o
}
func (s *sim) getClaim(n string) *v1.NodeClaim {
	o := &v1.NodeClaim{ObjectMeta: metav1.ObjectMeta{Name: n}}
	if !s.w.Get(o) {
		return nil
	}
	return o
}
func (s *sim) getPod(n string) *corev1.Pod {
	o := &corev1.Pod{ObjectMeta: metav1.ObjectMeta{Name: n, Namespace: ns}}
	if !s.w.Get(o) {
		return nil
	}
	return o
}

func (s *sim) apiSnapshot() trace.M {
	nodes, claims, pods := trace.M{}, trace.M{}, trace.M{}
	for _, n := range s.u.Nodes {
		nodes[n] = absNode(s.getNode(n))
	}
	for _, c := range s.u.Claims {
		claims[c] = absClaim(s.getClaim(c))
	}
	for _, p := range s.u.Pods {
		pods[p] = absPod(s.getPod(p))
	}
	return trace.M{"nodes": nodes, "claims": claims, "pods": pods}
}

// ---------------------------------------------------------------- projection of the real cache

func probePod(name string) *corev1.Pod {
	return &corev1.Pod{ObjectMeta: metav1.ObjectMeta{Name: name, Namespace: ns}}
}

// portHolders probes HostPortUsage().Conflicts: who (of the pod-key universe) holds each port.
func (s *sim) portHolders(hp *scheduling.HostPortUsage) trace.M {
	out := trace.M{}
	for _, ps := range s.u.Ports {
		pn, _ := strconv.Atoi(ps)
		port := []scheduling.HostPort{{IP: []byte{0, 0, 0, 0}, Port: int32(pn), Protocol: corev1.ProtocolTCP}}
		holder := "-"
		if hp.Conflicts(probePod(probePodKey), port) != nil {
			holder = "many"
			for _, k := range s.u.Pods {
				if hp.Conflicts(probePod(k), port) == nil {
					holder = k
					break
				}
			}
		}
		out[ps] = holder
	}
	return out
}

// volumes probes VolumeUsage().ExceedsLimits against the CSINode limit: which volumes of the universe are counted.
func (s *sim) volumes(vu *scheduling.VolumeUsage) (vols []string, known bool) {
	vols = []string{}
	fresh := func(k int, extra ...string) scheduling.Volumes {
		set := sets.New[string](extra...)
		for i := 0; i < k; i++ {
			set.Insert(fmt.Sprintf("%s/probe-%d", ns, i))
		}
		return scheduling.Volumes{csiDriver: set}
	}
	count := -1
	for k := 1; k <= volLimit+1; k++ {
		if vu.ExceedsLimits(fresh(k)) != nil {
			count = volLimit + 1 - k
			break
		}
	}
	if count < 0 {
		return vols, false // no limit known for the driver: nothing can be probed
	}
	for _, v := range s.u.Vols {
		if vu.ExceedsLimits(fresh(volLimit-count, ns+"/"+v)) == nil {
			vols = append(vols, v)
		}
	}
	if len(vols) != count {
		vols = append(vols, fmt.Sprintf("?%d", count)) // volumes outside the universe are counted
	}
	return vols, true
}

func (s *sim) project(cl *state.Cluster) trace.M {
	keys := map[string]bool{}
	for _, k := range s.u.Pids {
		keys[k] = true
	}
	for _, k := range s.u.Nodes {
		keys[k] = true
	}
	sn := trace.M{}
	extra := []string{}
	for n := range cl.Nodes() {
		// the key of the nodes map is the provider id the state node was stored under
		key := n.ProviderID()
		if !keys[key] {
			extra = append(extra, key)
			continue
		}
		vols, known := s.volumes(n.VolumeUsage())
		taints := 0
		if n.Node != nil || n.NodeClaim != nil {
			taints = len(n.Taints())
		}
		sn[key] = trace.M{"ex": true, "node": absNode(n.Node), "claim": absClaim(n.NodeClaim),
			"req": reqOf(n.PodRequests()), "dreq": reqOf(n.DaemonSetRequests()), "lim": reqOf(n.PodLimits()),
			"cost": int(n.DisruptionCost()*1000 + 0.5), "ports": s.portHolders(n.HostPortUsage()),
			"vols": vols, "volsKnown": known, "marked": n.MarkedForDeletion(), "nominated": n.Nominated(s.w.Clock),
			"cap": capOf(n.Capacity()), "alloc": capOf(n.Allocatable()), "pool": n.Labels()[v1.NodePoolLabelKey],
			"registered": n.Registered(), "initialized": n.Initialized(), "taints": taints}
	}
	for k := range keys {
		if _, ok := sn[k]; !ok {
			ports := trace.M{}
			for _, p := range s.u.Ports {
				ports[p] = "-"
			}
			sn[k] = trace.M{"ex": false, "node": noNode(), "claim": noClaim(), "req": reqOf(nil), "dreq": reqOf(nil), "lim": reqOf(nil),
				"cost": 1000, "ports": ports, "vols": []string{}, "volsKnown": false, "marked": false, "nominated": false,
				"cap": noCap, "alloc": noCap, "pool": "", "registered": false, "initialized": false, "taints": 0}
		}
	}
	sort.Strings(extra)
	pool, counts := trace.M{}, trace.M{}
	for _, p := range s.u.Pools {
		rl := cl.NodePoolResourcesFor(p)
		pool[p] = trace.M{"cpu": int(lo.ToPtr(rl[corev1.ResourceCPU]).MilliValue()), "mem": int(lo.ToPtr(rl[corev1.ResourceMemory]).Value() >> 20),
			"nodes": int(lo.ToPtr(rl[corev1.ResourceName("nodes")]).Value())}
		a, d, pd := cl.NodePoolState.GetNodeCount(p)
		counts[p] = trace.M{"active": a, "deleting": d, "pending": pd}
	}
	return trace.M{"sn": sn, "extra": extra, "pool": pool, "counts": counts, "synced": cl.Synced(s.ctx)}
}

func (s *sim) cacheKeys() []string {
	out := []string{}
	for n := range s.cl.Nodes() {
		out = append(out, n.ProviderID())
	}
	sort.Strings(out)
	return out
}

// fresh: a new Cluster fed only the current objects (NodeClaims, Nodes, then Pods), with the same explicit marks.
func (s *sim) fresh() trace.M {
	c := newCtrls(s.ctx, s.w)
	for _, n := range s.u.Claims {
		_, _ = c.claimC.Reconcile(s.ctx, reconcile.Request{NamespacedName: types.NamespacedName{Name: n}})
	}
	for _, n := range s.u.Nodes {
		_, _ = c.nodeC.Reconcile(s.ctx, reconcile.Request{NamespacedName: types.NamespacedName{Name: n}})
	}
	for _, n := range s.u.Pods {
		_, _ = c.podC.Reconcile(s.ctx, reconcile.Request{NamespacedName: types.NamespacedName{Name: n, Namespace: ns}})
	}
	for _, k := range sets.List(s.marks) {
		c.cl.MarkForDeletion(k)
	}
	return s.project(c.cl)
}

func (s *sim) quiescent() bool { return len(s.pend) == 0 }

func (s *sim) mem() {
	if !s.quiescent() {
		return
	}
	s.nMem++
	m := s.project(s.cl)
	for _, v := range m["sn"].(trace.M) {
		if v.(trace.M)["req"].(trace.M)["pods"].(int) > 0 {
			s.nRich++
			break
		}
	}
	m["e"] = "Mem"
	m["api"] = s.apiSnapshot()
	m["fresh"] = s.fresh()
	s.tw.Emit(m)
}

// ---------------------------------------------------------------- steps

func (s *sim) touch(kind, name string) { s.pend[kind+"/"+name] = true }

func nodeCap(init bool) corev1.ResourceList {
	rl := corev1.ResourceList{corev1.ResourceCPU: *resource.NewMilliQuantity(3900, resource.DecimalSI),
		corev1.ResourcePods: resource.MustParse("110")}
	if init {
		rl[corev1.ResourceMemory] = *resource.NewQuantity(8000<<20, resource.BinarySI)
	}
	return rl
}

func claimCap() corev1.ResourceList {
	return corev1.ResourceList{corev1.ResourceCPU: *resource.NewMilliQuantity(4000, resource.DecimalSI),
		corev1.ResourceMemory: *resource.NewQuantity(8192<<20, resource.BinarySI), corev1.ResourcePods: resource.MustParse("110")}
}

func (s *sim) mkPod(key, node, shape string) *corev1.Pod {
	ps := podSpec(key, shape)
	o := world.PodOpts{Name: key, Namespace: ns, Node: node, CPU: ps.CPU, MemMi: ps.MemMi, Phase: corev1.PodRunning, TGPS: -1,
		Annotations: map[string]string{}}
	if node == "" {
		o.Phase = corev1.PodPending
	}
	if ps.DS {
		o.Owner = "daemonset"
	}
	if ps.Port != 0 {
		o.HostPorts = []int32{ps.Port}
	}
	if ps.DelCost != "" {
		o.Annotations[corev1.PodDeletionCost] = ps.DelCost
	}
	p := world.Pod(o)
	if ps.DS {
		p.OwnerReferences[0].Name, p.OwnerReferences[0].UID = dsName, types.UID("uid-"+dsName)
	}
	p.Spec.Priority = ps.Prio
	p.Spec.Containers[0].Resources.Limits = world.RL(2*ps.CPU, 2*ps.MemMi)
	if ps.Vol != "" {
		p.Spec.Volumes = []corev1.Volume{{Name: "data", VolumeSource: corev1.VolumeSource{
			PersistentVolumeClaim: &corev1.PersistentVolumeClaimVolumeSource{ClaimName: ps.Vol}}}}
	}
	return p
}

func (s *sim) env(st Step) error {
	w := s.w
	miss := func() error { return fmt.Errorf("step %v: object missing/present unexpectedly", st) }
	switch st.A {
	case "CreateNode":
		n := &corev1.Node{ObjectMeta: metav1.ObjectMeta{Name: st.X, Labels: map[string]string{corev1.LabelHostname: st.X,
			corev1.LabelInstanceTypeStable: typeLabel}},
			Spec:   corev1.NodeSpec{ProviderID: st.Y},
			Status: corev1.NodeStatus{Capacity: nodeCap(false), Allocatable: nodeCap(false)}}
		if st.Z != "" {
			n.Labels[v1.NodePoolLabelKey] = st.Z
		}
		if s.getNode(st.X) != nil {
			return miss()
		}
		w.EnvCreate(n)
		s.touch("Node", st.X)
	case "SetNodePid", "RegNode", "InitNode", "NodeDeleting":
		n := &corev1.Node{ObjectMeta: metav1.ObjectMeta{Name: st.X}}
		if !w.EnvMutate(n, st.A, func() {
			switch st.A {
			case "SetNodePid":
				n.Spec.ProviderID = st.Y
			case "RegNode":
				n.Labels[v1.NodeRegisteredLabelKey] = "true"
			case "InitNode":
				n.Labels[v1.NodeInitializedLabelKey] = "true"
				n.Status.Capacity, n.Status.Allocatable = nodeCap(true), nodeCap(true)
			case "NodeDeleting":
				n.Finalizers = append(n.Finalizers, finalizer)
				n.DeletionTimestamp = lo.ToPtr(metav1.NewTime(w.Clock.Now()))
			}
		}) {
			return miss()
		}
		s.touch("Node", st.X)
	case "RemoveNode":
		if !w.EnvRemove(&corev1.Node{ObjectMeta: metav1.ObjectMeta{Name: st.X}}, st.A) {
			return miss()
		}
		s.touch("Node", st.X)
	case "CreateClaim":
		pool := &v1.NodePool{ObjectMeta: metav1.ObjectMeta{Name: st.Y}}
		if !w.Get(pool) || s.getClaim(st.X) != nil {
			return miss()
		}
		nc := world.NodeClaim(st.X, pool)
		nc.Status.Capacity, nc.Status.Allocatable = claimCap(), claimCap()
		w.EnvCreate(nc)
		if st.Z == "seed" {
			s.created[st.X] = nc.DeepCopy() // what the provisioner holds after its Create call returned
		}
		s.touch("NodeClaim", st.X)
		s.touch("ClaimGC", st.X) // state.nodeclaimgc is scheduled once for every created NodeClaim
	case "SetClaimPid", "ClaimDeleting", "ClaimTerminating":
		nc := &v1.NodeClaim{ObjectMeta: metav1.ObjectMeta{Name: st.X}}
		if !w.EnvMutate(nc, st.A, func() {
			switch st.A {
			case "SetClaimPid":
				nc.Status.ProviderID = st.Y
			case "ClaimDeleting":
				nc.Finalizers = append(nc.Finalizers, finalizer)
				nc.DeletionTimestamp = lo.ToPtr(metav1.NewTime(w.Clock.Now()))
			case "ClaimTerminating":
				nc.StatusConditions().SetTrue(v1.ConditionTypeInstanceTerminating)
			}
		}) {
			return miss()
		}
		s.touch("NodeClaim", st.X)
	case "RemoveClaim":
		if !w.EnvRemove(&v1.NodeClaim{ObjectMeta: metav1.ObjectMeta{Name: st.X}}, st.A) {
			return miss()
		}
		s.touch("NodeClaim", st.X)
	case "CreatePod":
		if s.getPod(st.X) != nil {
			return miss()
		}
		w.EnvCreate(s.mkPod(st.X, st.Y, st.Z))
		s.touch("Pod", st.X)
	case "BindPod", "PodTerminal", "PodTerminating":
		p := &corev1.Pod{ObjectMeta: metav1.ObjectMeta{Name: st.X, Namespace: ns}}
		if !w.EnvMutate(p, st.A, func() {
			switch st.A {
			case "BindPod":
				p.Spec.NodeName = st.Y
				p.Status.Phase = corev1.PodRunning
			case "PodTerminal":
				p.Status.Phase = corev1.PodSucceeded
			case "PodTerminating":
				p.DeletionTimestamp = lo.ToPtr(metav1.NewTime(w.Clock.Now()))
			}
		}) {
			return miss()
		}
		s.touch("Pod", st.X)
	case "RemovePod":
		if !w.EnvRemove(&corev1.Pod{ObjectMeta: metav1.ObjectMeta{Name: st.X, Namespace: ns}}, st.A) {
			return miss()
		}
		s.touch("Pod", st.X)
	case "CreateDS":
		w.EnvCreate(&appsv1.DaemonSet{ObjectMeta: metav1.ObjectMeta{Name: dsName, Namespace: ns, UID: types.UID("uid-" + dsName)},
			Spec: appsv1.DaemonSetSpec{Selector: &metav1.LabelSelector{MatchLabels: map[string]string{"app": dsName}}}})
		s.touch("DaemonSet", dsName)
	case "RemoveDS":
		if !w.EnvRemove(&appsv1.DaemonSet{ObjectMeta: metav1.ObjectMeta{Name: dsName, Namespace: ns}}, st.A) {
			return miss()
		}
		s.touch("DaemonSet", dsName)
	default:
		return fmt.Errorf("unknown step %q", st.A)
	}
	return nil
}

// objKey: the cache key the delivered object maps to at delivery time ("-" none): a Node's provider id (its name
// when unmanaged without id), a NodeClaim's provider id.
func (s *sim) objKey(kind, name string) string {
	switch kind {
	case "Node":
		if n := s.getNode(name); n != nil {
			if n.Spec.ProviderID != "" {
				return n.Spec.ProviderID
			}
			if n.Labels[v1.NodePoolLabelKey] == "" {
				return n.Name
			}
		}
	case "NodeClaim":
		if c := s.getClaim(name); c != nil && c.Status.ProviderID != "" {
			return c.Status.ProviderID
		}
	}
	return "-"
}

// readFault: "fail:<which>" makes one API read of the reconcile fail with a server error (the delivery is retried
// later): own = the Get of the reconciled object, pods = the pod list of a Node reconcile, pvc / sc = the first
// PersistentVolumeClaim / StorageClass lookup while resolving pod volumes, csinode = the CSINode lookup.
func readFault(kind, how string) (world.Fault, bool) {
	if !strings.HasPrefix(how, "fail:") {
		return world.Fault{}, false
	}
	f := world.Fault{Nth: 1, Err: "Server"}
	switch strings.TrimPrefix(how, "fail:") {
	case "own":
		f.Verb, f.Kind = "get", map[string]string{"ClaimGC": "NodeClaim"}[kind]
		if f.Kind == "" {
			f.Kind = kind
		}
	case "pods":
		f.Verb, f.Kind = "list", "Pod"
	case "pvc":
		f.Kind = "PersistentVolumeClaim"
	case "sc":
		f.Kind = "StorageClass"
	case "csinode":
		f.Kind = "CSINode"
	default:
		return world.Fault{}, false
	}
	return f, true
}

func (s *sim) deliver(kind, name, how string) error {
	var res reconcile.Result
	var err error
	okey := s.objKey(kind, name)
	fault, faulty := readFault(kind, how)
	if faulty {
		s.w.AddFault(fault)
		defer s.w.ClearFaults()
	}
	req := reconcile.Request{NamespacedName: types.NamespacedName{Name: name}}
	panicked := "-"
	func() {
		defer func() {
			if r := recover(); r != nil {
				panicked = fmt.Sprint(r)
			}
		}()
		switch kind {
		case "Node":
			res, err = s.nodeC.Reconcile(s.ctx, req)
		case "NodeClaim":
			res, err = s.claimC.Reconcile(s.ctx, req)
		case "Pod":
			req.Namespace = ns
			res, err = s.podC.Reconcile(s.ctx, req)
		case "DaemonSet":
			req.Namespace = ns
			res, err = s.dsC.Reconcile(s.ctx, req)
		case "NodePool":
			res, err = s.poolC.Reconcile(s.ctx, req)
		case "ClaimGC":
			res, err = s.gcC.Reconcile(s.ctx, req)
		default:
			err = fmt.Errorf("unknown kind %q", kind)
		}
	}()
	if kind != "Node" && kind != "NodeClaim" && kind != "Pod" && kind != "DaemonSet" && kind != "NodePool" && kind != "ClaimGC" {
		return err
	}
	requeue := err != nil || res.Requeue //nolint:staticcheck
	if !requeue && panicked == "-" {
		delete(s.pend, kind+"/"+name)
	}
	// an explicit mark lives and dies with the cache entry
	keys := s.cacheKeys()
	for _, k := range sets.List(s.marks) {
		if !lo.Contains(keys, k) {
			s.marks.Delete(k)
		}
	}
	s.tw.Emit(trace.M{"e": "Deliver", "kind": kind, "name": name, "requeue": requeue, "err": err != nil, "panic": panicked,
		"keys": keys, "okey": okey, "fault": lo.Ternary(faulty, how, "-")})
	return nil
}

func (s *sim) step(st Step) error {
	switch st.A {
	case "Deliver":
		return s.deliver(st.X, st.Y, st.Z)
	case "Mark", "Unmark":
		hit := lo.Contains(s.cacheKeys(), st.X)
		if st.A == "Mark" {
			s.cl.MarkForDeletion(st.X)
			if hit {
				s.marks.Insert(st.X)
			}
		} else {
			s.cl.UnmarkForDeletion(st.X)
			s.marks.Delete(st.X)
		}
		s.tw.Emit(trace.M{"e": "Step", "a": st.A, "x": st.X, "y": st.Y, "z": st.Z, "kind": "-", "kind2": "-", "hit": hit, "objs": [][]string{}})
		return nil
	case "Seed":
		// the provisioner's post-create cluster.UpdateNodeClaim with the object as it was created
		nc, ok := s.created[st.X]
		if !ok {
			return fmt.Errorf("seed of unknown claim %s", st.X)
		}
		s.cl.UpdateNodeClaim(nc.DeepCopy())
		delete(s.created, st.X)
		s.tw.Emit(trace.M{"e": "Step", "a": st.A, "x": st.X, "y": st.Y, "z": st.Z, "kind": "-", "kind2": "-", "hit": true, "objs": [][]string{}})
		return nil
	case "Restart":
		s.restart()
		s.pend = map[string]bool{}
		s.created = map[string]*v1.NodeClaim{} // in-flight seeds and the gc queue die with the process
		for _, n := range s.u.Nodes {
			if s.getNode(n) != nil {
				s.touch("Node", n)
			}
		}
		for _, n := range s.u.Claims {
			if s.getClaim(n) != nil {
				s.touch("NodeClaim", n)
			}
		}
		for _, n := range s.u.Pods {
			if s.getPod(n) != nil {
				s.touch("Pod", n)
			}
		}
		objs := [][]string{}
		for k := range s.pend {
			i := strings.Index(k, "/")
			objs = append(objs, []string{k[:i], k[i+1:]})
		}
		sort.Slice(objs, func(i, j int) bool { return objs[i][0]+objs[i][1] < objs[j][0]+objs[j][1] })
		s.tw.Emit(trace.M{"e": "Step", "a": st.A, "x": st.X, "y": st.Y, "z": st.Z, "kind": "-", "kind2": "-", "hit": true, "objs": objs})
		return nil
	}
	if err := s.env(st); err != nil {
		return err
	}
	var kind string
	switch {
	case st.A == "CreateDS" || st.A == "RemoveDS":
		kind = "DaemonSet"
	case st.A == "CreateNode" || st.A == "SetNodePid" || st.A == "RegNode" || st.A == "InitNode" || st.A == "NodeDeleting" || st.A == "RemoveNode":
		kind = "Node"
	case st.A == "CreateClaim" || st.A == "SetClaimPid" || st.A == "ClaimDeleting" || st.A == "ClaimTerminating" || st.A == "RemoveClaim":
		kind = "NodeClaim"
	default:
		kind = "Pod"
	}
	name := st.X
	if kind == "DaemonSet" {
		name = dsName
	}
	kind2 := "-"
	if st.A == "CreateClaim" {
		kind2 = "ClaimGC"
	}
	s.tw.Emit(trace.M{"e": "Step", "a": st.A, "x": name, "y": st.Y, "z": st.Z, "kind": kind, "kind2": kind2, "hit": true, "objs": [][]string{}})
	return nil
}

// RunOne executes one behaviour in a fresh world.
func RunOne(u Universe, b Behaviour, tw *trace.Writer) (int, int, error) {
	w := world.New()
	ctx := world.Ctx()
	s := &sim{w: w, ctx: ctx, u: u, pend: map[string]bool{}, tw: tw, created: map[string]*v1.NodeClaim{}}
	shapes := trace.M{}
	for _, p := range u.Pods {
		shapes[p] = trace.M{"std": absPod(s.mkPod(p, "", "-")), "alt": absPod(s.mkPod(p, "", "alt")),
			"bare": absPod(s.mkPod(p, "", "bare"))}
	}
	tw.Begin(trace.M{"module": "ClusterState", "tag": b.Tag, "nodes": u.Nodes, "claims": u.Claims, "pods": u.Pods, "pids": u.Pids,
		"pools": u.Pools, "ports": u.Ports, "vols": u.Vols, "shapes": shapes})
	w.EnvCreate(world.NodeClass())
	for _, p := range u.Pools {
		w.EnvCreate(world.NodePool(p))
	}
	w.EnvCreate(&storagev1.StorageClass{ObjectMeta: metav1.ObjectMeta{Name: scName}, Provisioner: csiDriver})
	for _, v := range u.Vols {
		w.EnvCreate(&corev1.PersistentVolumeClaim{ObjectMeta: metav1.ObjectMeta{Name: v, Namespace: ns},
			Spec: corev1.PersistentVolumeClaimSpec{StorageClassName: lo.ToPtr(scName)}})
	}
	for _, n := range u.Nodes {
		w.EnvCreate(&storagev1.CSINode{ObjectMeta: metav1.ObjectMeta{Name: n}, Spec: storagev1.CSINodeSpec{
			Drivers: []storagev1.CSINodeDriver{{Name: csiDriver, NodeID: n, Allocatable: &storagev1.VolumeNodeResources{Count: lo.ToPtr(int32(volLimit))}}}}})
	}
	s.restart()
	for i, st := range b.Steps {
		if err := s.step(st); err != nil {
			return s.nMem, s.nRich, fmt.Errorf("step %d: %w", i, err)
		}
		s.mem()
	}
	return s.nMem, s.nRich, nil
}

func Run(args []string) error {
	fs := flag.NewFlagSet("cstate", flag.ContinueOnError)
	in := fs.String("in", "", "behaviours JSON {universe, behs}")
	out := fs.String("out", "traces", "output directory")
	shards := fs.Int("shards", 8, "trace shards")
	if err := fs.Parse(args); err != nil {
		return err
	}
	raw, err := os.ReadFile(*in)
	if err != nil {
		return err
	}
	var inp Input
	if err := json.Unmarshal(raw, &inp); err != nil {
		return err
	}
	tw, err := trace.NewWriter(*out, "cstate", *shards)
	if err != nil {
		return err
	}
	mems := make([]int, 0, len(inp.Behs))
	rich := make([]int, 0, len(inp.Behs))
	for i, b := range inp.Behs {
		n, r, err := RunOne(inp.U, b, tw)
		if err != nil {
			return fmt.Errorf("behaviour %d (%s): %w", i, b.Tag, err)
		}
		mems = append(mems, n)
		rich = append(rich, r)
	}
	paths := tw.Close()
	sum, _ := json.Marshal(trace.M{"traces": tw.N, "lines": tw.Lines, "files": paths, "mems": mems, "rich": rich})
	fmt.Println(string(sum))
	return nil
}
