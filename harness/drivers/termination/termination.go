// Package termination binds Termination.tla / Drain.tla (C09, C10) to the real node termination
// controller, the terminator + eviction queue and the NodeClaim lifecycle controller (launch and
// finalize paths) running against the harness world.  The driver only executes behaviours and
// records; every judgement is made by Termination_Trace.tla.
package termination

import (
	"context"
	"encoding/json"
	"flag"
	"fmt"
	"os"
	"reflect"
	"sort"
	"time"
	"unsafe"

	"github.com/go-logr/logr"
	corev1 "k8s.io/api/core/v1"
	policyv1 "k8s.io/api/policy/v1"
	storagev1 "k8s.io/api/storage/v1"
	metav1 "k8s.io/apimachinery/pkg/apis/meta/v1"
	"k8s.io/apimachinery/pkg/util/intstr"
	"sigs.k8s.io/controller-runtime/pkg/client"
	ctrllog "sigs.k8s.io/controller-runtime/pkg/log"

	v1 "sigs.k8s.io/karpenter/pkg/apis/v1"
	nodetermination "sigs.k8s.io/karpenter/pkg/controllers/node/termination"
	"sigs.k8s.io/karpenter/pkg/controllers/node/termination/terminator"
	nclifecycle "sigs.k8s.io/karpenter/pkg/controllers/nodeclaim/lifecycle"
	"sigs.k8s.io/karpenter/pkg/operator/injection"
	"sigs.k8s.io/karpenter/pkg/state/nodepoolhealth"

	"verif/harness/reg"
	"verif/harness/trace"
	"verif/harness/world"
)

func init() {
	reg.Register("termination", Run)
	ctrllog.SetLogger(logr.Discard()) // the controllers log through controller-runtime; nothing is judged from logs
}

const (
	claimName = "nc-1"
	nodeName  = "node-1"
	poolName  = "pool-1"
	podNS     = "default"

	actLifecycle   = "nodeclaim.lifecycle"
	actTermination = "node.termination"
	actQueue       = "eviction-queue"
)

// FaultSpec addresses one API call of a reconcile (verb, kind, sub, nth occurrence).
type FaultSpec struct {
	Verb string `json:"verb"`
	Kind string `json:"kind"`
	Sub  string `json:"sub"`
	Nth  int    `json:"nth"`
	Err  string `json:"err"`
}

// PodCfg is one pod of the scenario alphabet (DESIGN C10: tier, do-not-disrupt, toleration, static,
// grace period, PDB state, volume).
type PodCfg struct {
	Name     string `json:"name"`
	Owner    string `json:"owner"`    // none | replicaset | daemonset | node | statefulset
	Critical bool   `json:"critical"` // priority class system-cluster-critical
	Dnd      string `json:"dnd"`      // "-" | "true" | duration string | invalid string
	Tol      bool   `json:"tol"`      // tolerates karpenter.sh/disrupted:NoSchedule (toleration form: TolKind, default key + Exists)
	// TolKind: the toleration the pod carries. Tolerating forms: key-exists | key-equal | wildcard ({operator: Exists}) |
	// wildcard-effect ({operator: Exists, effect: NoSchedule}); NOT tolerating: wrong-effect (key, NoExecute only) |
	// wrong-key | "" (none, unless Tol). Whether it tolerates is decided by the abstraction with Kubernetes' own
	// Toleration.ToleratesTaint, never by Karpenter's helper.
	TolKind string `json:"tolKind"`
	TGPS     int    `json:"tgps"`     // terminationGracePeriodSeconds, <0 = unset
	Pdb      string `json:"pdb"`      // "-" | ok | blocked | multi
	Phase    string `json:"phase"`    // "" = Running
	PV       bool   `json:"pv"`       // pod mounts pvc-<name> bound to pv-<name>, attached to the node
	Late     bool   `json:"late"`     // not created with the node; bound later by a PodBinds step
}

// PermFault: a call that fails in every reconcile of the behaviour (a permanent error), from step From on.
type PermFault struct {
	Actor string `json:"actor"`
	Verb  string `json:"verb"` // API verb, or "provDelete" / "provGet" for the provider
	Kind  string `json:"kind"`
	Sub   string `json:"sub"`
	Err   string `json:"err"`
}

type Cfg struct {
	Perm     []PermFault `json:"perm"`
	LogReads bool     `json:"logReads"` // log get/list calls too (needed to judge mid-reconcile interleavings)
	TGP      int      `json:"tgp"`      // NodeClaim spec.terminationGracePeriod in seconds, <0 = none
	Instant  bool     `json:"instant"`  // provider Delete removes the instance at once
	Pods     []PodCfg `json:"pods"`     // pods of the node
	OrphanVA bool     `json:"orphanVA"` // a VolumeAttachment on the node that no pod owns
}

// MidStep: environment steps executed right before the At-th API call (reads included) of the reconcile - the
// choke point's gate runs them inside the controller's goroutine, which realises API-call-granularity interleavings
// (time-of-check / time-of-use windows) deterministically and without touching the code.
type MidStep struct {
	At    int    `json:"at"`
	Steps []Step `json:"steps"`
}

type Step struct {
	A          string      `json:"a"`
	Mid        []MidStep   `json:"mid"`
	CrashAt    int         `json:"crashAt"` // the process dies right before the k-th API call of this reconcile (then restarts)
	Pod        string      `json:"pod"`
	Faults     []FaultSpec `json:"faults"`
	ProvCreate string      `json:"provCreate"` // ok | ICE | NCNR | err
	ProvDelete string      `json:"provDelete"` // ok | err
	ProvGet    string      `json:"provGet"`    // ok | err
	Stale      int         `json:"stale"`      // reconcile with the object as of the previous up-to-date reconcile
	Ready      bool        `json:"ready"`
	Unreg      bool        `json:"unreg"`
	D          int         `json:"d"`
	Grace      int         `json:"grace"`
	To         int         `json:"to"`
	Allowed    int         `json:"allowed"`
	Phase      string      `json:"phase"`
	Which      string      `json:"which"`
}

type Behaviour struct {
	Cfg   Cfg    `json:"cfg"`
	Steps []Step `json:"steps"`
	Tag   string `json:"tag"`
	Idx   int    `json:"idx"`
}

type crash struct{}

type sim struct {
	w     *world.World
	cfg   Cfg
	ctx   context.Context
	lc    *nclifecycle.Controller
	queue *terminator.Queue
	term  *nodetermination.Controller
	pool  *v1.NodePool
	views map[string]*corev1.Pod // informer copies handed to stale eviction-queue reconciles
	ncView *v1.NodeClaim         // informer copy of the NodeClaim: refreshed by up-to-date reconciles, reused by stale ones
	nView  *corev1.Node
	lastDl string // the termination timestamp the annotation carried before it was removed (clock steps stay relative to it)
	permOn bool // the permanent faults of the scenario are in force (switched on by the PermOn step)
}

func (s *sim) restart() {
	s.lc = nclifecycle.NewController(s.w.Clock, s.w.Client, s.w.Prov, s.w.Rec, nodepoolhealth.NewState(), nil)
	s.queue = terminator.NewQueue(s.w.Clock, s.w.Client, s.w.Rec)
	s.term = nodetermination.NewController(s.w.Clock, s.w.Client, s.w.Prov,
		terminator.NewTerminator(s.w.Clock, s.w.Client, s.queue, s.w.Rec), s.w.Rec)
	s.views = map[string]*corev1.Pod{}
	s.ncView, s.nView = nil, nil
}

// queueItems reads the eviction queue's unexported items map (pod -> node deadline) by reflection.
func (s *sim) queueItems() map[terminator.QueueKey]*time.Time {
	s.queue.Lock()
	defer s.queue.Unlock()
	f := reflect.ValueOf(s.queue).Elem().FieldByName("items")
	if !f.IsValid() {
		return nil
	}
	m, ok := reflect.NewAt(f.Type(), unsafe.Pointer(f.UnsafeAddr())).Elem().Interface().(map[terminator.QueueKey]*time.Time)
	if !ok {
		return nil
	}
	out := map[terminator.QueueKey]*time.Time{}
	for k, v := range m {
		out[k] = v
	}
	return out
}

// mem projects the eviction queue: which pods are enqueued and under which node deadline
// (dl = -1: no deadline).  has = what the exported Queue.Has reports for the stored pods.
func (s *sim) mem() {
	items := s.queueItems()
	q := []trace.M{}
	for k, dl := range items {
		d := -1
		if dl != nil {
			d = world.Sec(*dl)
		}
		q = append(q, trace.M{"pod": k.Name, "uid": string(k.UID), "dl": d})
	}
	sort.Slice(q, func(i, j int) bool { return q[i]["pod"].(string)+q[i]["uid"].(string) < q[j]["pod"].(string)+q[j]["uid"].(string) })
	has := []string{}
	pods := &corev1.PodList{}
	s.w.List(pods)
	for i := range pods.Items {
		if s.queue.Has(&pods.Items[i]) {
			has = append(has, pods.Items[i].Name)
		}
	}
	sort.Strings(has)
	s.w.Emit(trace.M{"e": "Mem", "queue": q, "has": has, "reflect": items != nil})
}

func (s *sim) plan(actor string, st Step) {
	s.w.ClearFaults()
	for _, f := range st.Faults {
		sub := f.Sub
		if sub == "-" {
			sub = ""
		}
		s.w.AddFault(world.Fault{Actor: actor, Verb: f.Verb, Kind: f.Kind, Sub: sub, Nth: f.Nth, Err: f.Err})
	}
	s.w.Prov.CreateOutcomes, s.w.Prov.DeleteOutcomes, s.w.Prov.GetOutcomes = nil, nil, nil
	for _, f := range s.cfg.Perm {
		if f.Actor != actor || !s.permOn {
			continue
		}
		switch f.Verb {
		case "provDelete":
			s.w.Prov.DeleteOutcomes = []string{"err", "err", "err", "err"}
		case "provGet":
			s.w.Prov.GetOutcomes = []string{"err", "err", "err", "err"}
		default:
			sub := f.Sub
			if sub == "-" {
				sub = ""
			}
			s.w.AddFault(world.Fault{Actor: actor, Verb: f.Verb, Kind: f.Kind, Sub: sub, Nth: 0, Err: f.Err})
		}
	}
	if st.ProvCreate != "" && st.ProvCreate != "ok" {
		s.w.Prov.CreateOutcomes = []string{st.ProvCreate}
	}
	if st.ProvDelete != "" && st.ProvDelete != "ok" {
		s.w.Prov.DeleteOutcomes = []string{st.ProvDelete}
	}
	if st.ProvGet != "" && st.ProvGet != "ok" {
		s.w.Prov.GetOutcomes = []string{st.ProvGet}
	}
}

func (s *sim) unplan() {
	s.w.ClearFaults()
	s.w.Prov.CreateOutcomes, s.w.Prov.DeleteOutcomes, s.w.Prov.GetOutcomes = nil, nil, nil
}

// bracket runs one reconcile of a real controller between Begin/End events.
func (s *sim) bracket(controller, object string, st Step, view trace.M, f func() (bool, error)) {
	s.plan(controller, st)
	if view == nil {
		view = trace.M{"exists": false}
	}
	// view: the (possibly lagging) informer copy the reconcile was handed, for the eviction queue
	s.w.Emit(trace.M{"e": "Begin", "controller": controller, "object": object, "stale": st.Stale, "view": view})
	errS, panicked, requeue := "-", false, false
	if len(st.Mid) > 0 || st.CrashAt > 0 {
		n := 0
		s.w.Gate = func(c world.Call) {
			if c.Actor != controller {
				return
			}
			n++
			if st.CrashAt == n {
				panic(crash{})
			}
			for _, m := range st.Mid {
				if m.At == n {
					s.w.Emit(trace.M{"e": "Skip", "a": "Mid", "why": fmt.Sprintf("before call %d (%s %s)", n, c.Verb, c.Kind)})
					for _, x := range m.Steps {
						_ = s.step(x)
					}
				}
			}
		}
		defer func() { s.w.Gate = nil }()
	}
	func() {
		defer func() {
			if r := recover(); r != nil {
				if _, ok := r.(crash); ok { // a simulated process death, not a panic of the code
					errS = "crash"
					return
				}
				panicked = true
				errS = fmt.Sprint(r)
			}
		}()
		rq, err := f()
		requeue = rq
		if err != nil {
			errS = "error"
		}
	}()
	s.unplan()
	s.w.Gate = nil
	s.w.Emit(trace.M{"e": "End", "controller": controller, "object": object, "err": errS, "panic": panicked, "requeue": requeue})
	s.mem()
	if errS == "crash" {
		_ = s.step(Step{A: "Restart"})
	}
}

func (s *sim) skip(a, why string) { s.w.Emit(trace.M{"e": "Skip", "a": a, "why": why}) }

func claim() *v1.NodeClaim  { return &v1.NodeClaim{ObjectMeta: metav1.ObjectMeta{Name: claimName}} }
func node() *corev1.Node    { return &corev1.Node{ObjectMeta: metav1.ObjectMeta{Name: nodeName}} }
func pod(n string) *corev1.Pod {
	return &corev1.Pod{ObjectMeta: metav1.ObjectMeta{Name: n, Namespace: podNS}}
}

func (s *sim) podCfg(name string) (PodCfg, bool) {
	for _, p := range s.cfg.Pods {
		if p.Name == name {
			return p, true
		}
	}
	return PodCfg{}, false
}

func (s *sim) createPod(pc PodCfg) {
	o := world.PodOpts{Name: pc.Name, Namespace: podNS, Node: nodeName, CPU: 100, MemMi: 64, Owner: pc.Owner, TGPS: pc.TGPS,
		Labels: map[string]string{"app": pc.Name}, Annotations: map[string]string{}, Phase: corev1.PodPhase(pc.Phase)}
	if pc.Owner == "none" {
		o.Owner = ""
	}
	if pc.Critical {
		o.PriorityClass = "system-cluster-critical"
	}
	if pc.Dnd != "" && pc.Dnd != "-" {
		o.Annotations[v1.DoNotDisruptAnnotationKey] = pc.Dnd
	}
	kind := pc.TolKind
	if kind == "" && pc.Tol {
		kind = "key-exists"
	}
	switch kind {
	case "key-exists":
		o.Tolerations = []corev1.Toleration{{Key: v1.DisruptedTaintKey, Operator: corev1.TolerationOpExists, Effect: corev1.TaintEffectNoSchedule}}
	case "key-equal":
		o.Tolerations = []corev1.Toleration{{Key: v1.DisruptedTaintKey, Operator: corev1.TolerationOpEqual, Value: v1.DisruptedNoScheduleTaint.Value}}
	case "wildcard":
		o.Tolerations = []corev1.Toleration{{Operator: corev1.TolerationOpExists}}
	case "wildcard-effect":
		o.Tolerations = []corev1.Toleration{{Operator: corev1.TolerationOpExists, Effect: corev1.TaintEffectNoSchedule}}
	case "wrong-effect":
		o.Tolerations = []corev1.Toleration{{Key: v1.DisruptedTaintKey, Operator: corev1.TolerationOpExists, Effect: corev1.TaintEffectNoExecute}}
	case "wrong-key":
		o.Tolerations = []corev1.Toleration{{Key: "example.com/other", Operator: corev1.TolerationOpExists}}
	}
	p := world.Pod(o)
	now := metav1.NewTime(s.w.Clock.Now())
	p.Status.StartTime = &now
	if pc.PV {
		p.Spec.Volumes = []corev1.Volume{{Name: "data", VolumeSource: corev1.VolumeSource{
			PersistentVolumeClaim: &corev1.PersistentVolumeClaimVolumeSource{ClaimName: "pvc-" + pc.Name}}}}
	}
	s.w.EnvCreate(p)
}

func (s *sim) createPodSideObjects(pc PodCfg) {
	sel := &metav1.LabelSelector{MatchLabels: map[string]string{"app": pc.Name}}
	mk := func(name string, allowed int32) {
		mu := intstr.FromInt32(1)
		s.w.EnvCreate(&policyv1.PodDisruptionBudget{ObjectMeta: metav1.ObjectMeta{Name: name, Namespace: podNS},
			Spec:   policyv1.PodDisruptionBudgetSpec{Selector: sel, MaxUnavailable: &mu},
			Status: policyv1.PodDisruptionBudgetStatus{DisruptionsAllowed: allowed}})
	}
	switch pc.Pdb {
	case "ok":
		mk("pdb-"+pc.Name, 1)
	case "blocked":
		mk("pdb-"+pc.Name, 0)
	case "multi":
		mk("pdb-"+pc.Name, 1)
		mk("pdb2-"+pc.Name, 1)
	}
	if pc.PV {
		s.w.EnvCreate(&corev1.PersistentVolumeClaim{ObjectMeta: metav1.ObjectMeta{Name: "pvc-" + pc.Name, Namespace: podNS},
			Spec: corev1.PersistentVolumeClaimSpec{VolumeName: "pv-" + pc.Name}})
	}
}

func (s *sim) createVA(name, pv string) {
	// the CSI external-attacher holds a finalizer: a deleted VolumeAttachment stays (deletionTimestamp set, detach in
	// progress) until the VolumeDetach step removes it
	s.w.EnvCreate(&storagev1.VolumeAttachment{ObjectMeta: metav1.ObjectMeta{Name: name, Finalizers: []string{"external-attacher/csi-verif"}},
		Spec: storagev1.VolumeAttachmentSpec{Attacher: "csi.verif", NodeName: nodeName,
			Source: storagev1.VolumeAttachmentSource{PersistentVolumeName: &pv}}})
}

func (s *sim) step(st Step) error {
	w := s.w
	switch st.A {
	case "LcRec": // nodeclaim lifecycle controller (launch / registration / finalize)
		nc := claim()
		if !w.Get(nc) {
			s.skip(st.A, "no-claim")
			return nil
		}
		if st.Stale == 0 || s.ncView == nil {
			s.ncView = nc.DeepCopy()
		}
		nc = s.ncView.DeepCopy()
		s.bracket(actLifecycle, claimName, st, nil, func() (bool, error) {
			r, err := s.lc.Reconcile(s.ctx, nc)
			return r.Requeue || r.RequeueAfter > 0, err //nolint:staticcheck
		})
	case "NodeRec": // node termination controller (Which: the duplicate node "node-2", default node-1)
		n := node()
		if st.Which != "" {
			n.Name = st.Which
		}
		if !w.Get(n) {
			s.skip(st.A, "no-node")
			return nil
		}
		if n.Name == nodeName {
			if st.Stale == 0 || s.nView == nil {
				s.nView = n.DeepCopy()
			}
			n = s.nView.DeepCopy()
		}
		s.bracket(actTermination, n.Name, st, nil, func() (bool, error) {
			r, err := s.term.Reconcile(injection.WithControllerName(s.ctx, actTermination), n)
			return r.Requeue || r.RequeueAfter > 0, err //nolint:staticcheck
		})
	case "QRec": // eviction queue reconcile of one pod (controller-runtime hands it the informer copy)
		p := pod(st.Pod)
		if !w.Get(p) {
			s.skip(st.A, "no-pod") // AsReconciler drops requests for objects that are gone
			return nil
		}
		if st.Stale == 0 || s.views[st.Pod] == nil {
			s.views[st.Pod] = p.DeepCopy()
		}
		obj := s.views[st.Pod].DeepCopy()
		s.bracket(actQueue, st.Pod, st, world.Abs(obj), func() (bool, error) {
			r, err := s.queue.Reconcile(s.ctx, obj)
			return r.Requeue || r.RequeueAfter > 0, err //nolint:staticcheck
		})
	case "QAll": // one reconcile of every stored pod the queue holds
		pods := &corev1.PodList{}
		w.List(pods)
		for i := range pods.Items {
			if s.queue.Has(&pods.Items[i]) {
				if err := s.step(Step{A: "QRec", Pod: pods.Items[i].Name}); err != nil {
					return err
				}
			}
		}
	case "NodeAppears":
		var pid string
		for id, i := range w.Prov.Instances {
			if i.Claim == claimName && i.State == "running" {
				pid = id
			}
		}
		if pid == "" || w.Get(node()) {
			s.skip(st.A, "no-instance-or-node-exists")
			return nil
		}
		n := world.NodeFor(w.Prov.Instances[pid].NodeClaim, nodeName, st.Unreg)
		world.SetNodeReady(n, st.Ready, w.Clock.Now())
		w.EnvCreate(n)
		for _, pc := range s.cfg.Pods {
			if !pc.Late {
				s.createPod(pc)
			}
			if pc.PV {
				s.createVA("va-"+pc.Name, "pv-"+pc.Name)
			}
		}
		if s.cfg.OrphanVA {
			s.createVA("va-orphan", "pv-orphan")
		}
	case "NodeAppears2": // a second Node object for the same instance (kubelet re-registered under another name), synced like the first
		n1 := node()
		if !w.Get(n1) || w.Get(&corev1.Node{ObjectMeta: metav1.ObjectMeta{Name: nodeName + "-dup"}}) {
			s.skip(st.A, "no-node-or-exists")
			return nil
		}
		n2 := &corev1.Node{ObjectMeta: metav1.ObjectMeta{Name: nodeName + "-dup", Labels: map[string]string{}, Finalizers: n1.Finalizers,
			OwnerReferences: n1.OwnerReferences}, Spec: corev1.NodeSpec{ProviderID: n1.Spec.ProviderID, Taints: n1.Spec.Taints},
			Status: *n1.Status.DeepCopy()}
		for k, v := range n1.Labels {
			n2.Labels[k] = v
		}
		n2.Labels[corev1.LabelHostname] = n2.Name
		w.EnvCreate(n2)
	case "PreTaint": // somebody put a karpenter.sh/disrupted taint with ANOTHER effect (Which) / a value on the node beforehand
		n := node()
		eff := corev1.TaintEffect(st.Which)
		if !w.EnvMutate(n, "PreTaint", func() {
			n.Spec.Taints = append(n.Spec.Taints, corev1.Taint{Key: v1.DisruptedTaintKey, Effect: eff, Value: "foreign"})
		}) {
			s.skip(st.A, "no-node")
		}
	case "DeleteClaim":
		nc := claim()
		if !w.Get(nc) {
			s.skip(st.A, "no-claim")
			return nil
		}
		_ = w.Client.Delete(world.WithActor(context.Background(), "env"), nc)
	case "DeleteNode":
		n := node()
		if !w.Get(n) {
			s.skip(st.A, "no-node")
			return nil
		}
		_ = w.Client.Delete(world.WithActor(context.Background(), "env"), n)
	case "NodeGone": // the cloud controller manager removes a node that has no finalizer left / instance gone
		if !w.EnvRemove(node(), "NodeGone") {
			s.skip(st.A, "no-node")
		}
	case "Ready":
		n := node()
		if !w.EnvMutate(n, "KubeletReady", func() { world.SetNodeReady(n, st.Ready, w.Clock.Now()) }) {
			s.skip(st.A, "no-node")
		}
	case "PodGone": // the kubelet finished the pod (or it was removed by its owner)
		if !w.EnvRemove(pod(st.Pod), "PodGone") {
			s.skip(st.A, "no-pod")
		}
	case "PodBinds": // a late pod is bound to the node (only tolerating pods in generated behaviours)
		pc, ok := s.podCfg(st.Pod)
		if !ok || w.Get(pod(st.Pod)) || !w.Get(node()) {
			s.skip(st.A, "no-such-pod-or-exists-or-no-node")
			return nil
		}
		s.createPod(pc)
	case "PodPhase":
		p := pod(st.Pod)
		if !w.EnvMutate(p, "PodPhase", func() { p.Status.Phase = corev1.PodPhase(st.Phase) }) {
			s.skip(st.A, "no-pod")
		}
	case "UserDeletePod": // somebody else deletes the pod with an explicit grace period (<0: the pod's own)
		p := pod(st.Pod)
		if !w.Get(p) {
			s.skip(st.A, "no-pod")
			return nil
		}
		var opts []client.DeleteOption
		if st.Grace >= 0 {
			opts = append(opts, client.GracePeriodSeconds(int64(st.Grace)))
		}
		_ = w.Client.Delete(world.WithActor(context.Background(), "env"), p, opts...)
	case "DndClear":
		p := pod(st.Pod)
		if !w.EnvMutate(p, "DndClear", func() { delete(p.Annotations, v1.DoNotDisruptAnnotationKey) }) {
			s.skip(st.A, "no-pod")
		}
	case "PdbFlip":
		b := &policyv1.PodDisruptionBudget{ObjectMeta: metav1.ObjectMeta{Name: "pdb-" + st.Pod, Namespace: podNS}}
		if !w.EnvMutate(b, "PdbFlip", func() { b.Status.DisruptionsAllowed = int32(st.Allowed) }) {
			s.skip(st.A, "no-pdb")
		}
	case "VolumeDetachStart": // the attach-detach controller deletes the VolumeAttachment; the detach itself is still running
		name := "va-" + st.Pod
		if st.Pod == "" {
			name = "va-orphan"
		}
		va := &storagev1.VolumeAttachment{ObjectMeta: metav1.ObjectMeta{Name: name}}
		if !w.Get(va) || !va.DeletionTimestamp.IsZero() {
			s.skip(st.A, "no-va-or-already-detaching")
			return nil
		}
		_ = w.Client.Delete(world.WithActor(context.Background(), "env"), va)
	case "VolumeDetach":
		name := "va-" + st.Pod
		if st.Pod == "" {
			name = "va-orphan"
		}
		if !w.EnvRemove(&storagev1.VolumeAttachment{ObjectMeta: metav1.ObjectMeta{Name: name}}, "VolumeDetached") {
			s.skip(st.A, "no-va")
		}
	case "InstanceGone", "InstanceVanishes": // the cloud finished terminating / the instance disappeared by itself
		done := false
		for id, i := range w.Prov.Instances {
			if st.A == "InstanceGone" && i.State != "terminating" {
				continue
			}
			if w.Prov.EnvInstanceGone(id) {
				done = true
			}
		}
		if !done {
			s.skip(st.A, "no-instance")
		}
	case "Deadline": // somebody rewrites the NodeClaim's termination timestamp annotation
		nc := claim()
		if !w.EnvMutate(nc, "Deadline", func() {
			if nc.Annotations == nil {
				nc.Annotations = map[string]string{}
			}
			nc.Annotations[v1.NodeClaimTerminationTimestampAnnotationKey] = world.Epoch.Add(time.Duration(st.To) * time.Second).Format(time.RFC3339)
		}) {
			s.skip(st.A, "no-claim")
		}
	case "DeadlineRemove": // the termination timestamp annotation disappears (the next drain pass has no deadline)
		nc := claim()
		if !w.EnvMutate(nc, "DeadlineRemoved", func() {
			if ts, ok := nc.Annotations[v1.NodeClaimTerminationTimestampAnnotationKey]; ok {
				s.lastDl = ts
			}
			delete(nc.Annotations, v1.NodeClaimTerminationTimestampAnnotationKey)
		}) {
			s.skip(st.A, "no-claim")
		}
	case "DeadlineRel": // ... to D seconds after the NodeClaim's deletion timestamp
		nc := claim()
		if !w.Get(nc) || nc.DeletionTimestamp.IsZero() {
			s.skip(st.A, "no-deleting-claim")
			return nil
		}
		return s.step(Step{A: "Deadline", To: world.Sec(nc.DeletionTimestamp.Time) + st.D})
	case "TickToDeadline": // move the clock to D seconds after (before, if negative) the NodeClaim's termination time
		nc := claim()
		ts, ok := "", false
		if w.Get(nc) {
			ts, ok = nc.Annotations[v1.NodeClaimTerminationTimestampAnnotationKey]
		}
		if !ok && s.lastDl != "" {
			ts, ok = s.lastDl, true
		}
		t, err := time.Parse(time.RFC3339, ts)
		if !ok || err != nil {
			s.skip(st.A, "no-deadline")
			return nil
		}
		if target := t.Add(time.Duration(st.D) * time.Second); target.After(w.Clock.Now()) {
			w.Clock.SetTo(target)
		} else {
			s.skip(st.A, "already-past")
		}
	case "TickPodStuck": // move the clock past the pod's deletion time plus the minute Karpenter waits for it
		p := pod(st.Pod)
		if !w.Get(p) || p.DeletionTimestamp.IsZero() {
			s.skip(st.A, "no-terminating-pod")
			return nil
		}
		if target := p.DeletionTimestamp.Time.Add(time.Duration(61+st.D) * time.Second); target.After(w.Clock.Now()) {
			w.Clock.SetTo(target)
		} else {
			s.skip(st.A, "already-past")
		}
	case "Tick":
		w.Clock.Step(time.Duration(st.D) * time.Second)
	case "TickTo":
		w.Clock.SetTo(world.Epoch.Add(time.Duration(st.To) * time.Second))
	case "Settle": // the environment goes quiet and cooperates; every controller runs until nothing is left (bounded progress)
		rounds, claimGone, nodeGone := 0, false, false
		for ; rounds < 14; rounds++ {
			claimGone = !w.Get(claim())
			nodeGone = !w.Get(node()) && !w.Get(&corev1.Node{ObjectMeta: metav1.ObjectMeta{Name: nodeName + "-dup"}})
			if claimGone && nodeGone {
				break
			}
			seq := []Step{{A: "LcRec"}, {A: "NodeRec"}, {A: "QAll"}}
			dup := w.Get(&corev1.Node{ObjectMeta: metav1.ObjectMeta{Name: nodeName + "-dup"}})
			if dup {
				seq = append(seq, Step{A: "NodeRec", Which: nodeName + "-dup"})
			}
			pods := &corev1.PodList{}
			w.List(pods)
			for i := range pods.Items {
				if !pods.Items[i].DeletionTimestamp.IsZero() {
					seq = append(seq, Step{A: "PodGone", Pod: pods.Items[i].Name})
				}
			}
			seq = append(seq, Step{A: "Tick", D: 6}, Step{A: "NodeRec"}, Step{A: "InstanceGone"}, Step{A: "NodeRec"})
			if dup {
				seq = append(seq, Step{A: "NodeRec", Which: nodeName + "-dup"})
			}
			seq = append(seq, Step{A: "LcRec"})
			if rounds >= 2 { // volumes detach late (first "deleting", two rounds later gone), so that the wait is exercised first
				vas := &storagev1.VolumeAttachmentList{}
				w.List(vas)
				for i := range vas.Items {
					if rounds >= 4 {
						w.EnvRemove(&vas.Items[i], "VolumeDetached")
					} else if vas.Items[i].DeletionTimestamp.IsZero() {
						_ = w.Client.Delete(world.WithActor(context.Background(), "env"), &vas.Items[i])
					}
				}
			}
			for _, x := range seq {
				if err := s.step(x); err != nil {
					return err
				}
			}
		}
		leaked := 0
		for _, i := range w.Prov.Instances {
			if i.State != "gone" {
				leaked++
			}
		}
		w.Emit(trace.M{"e": "Settled", "rounds": rounds, "claimGone": claimGone, "nodeGone": nodeGone, "instancesLeft": leaked})
	case "PermOn":
		s.permOn = true
	case "Restart":
		s.restart()
		w.Emit(trace.M{"e": "Restart"})
		s.mem()
	default:
		return fmt.Errorf("unknown step %q", st.A)
	}
	return nil
}

// DndDurations is the alphabet of do-not-disrupt annotation values the behaviours use, in seconds
// ("true" = forever = 0; invalid formats = -1: Karpenter documents them as ignored).
var DndDurations = map[string]int{"true": 0, "90s": 90, "10m": 600, "bogus": -1, "-5s": -1}

// RunOne executes one behaviour in a fresh world, writing its trace.
func RunOne(b Behaviour, tw *trace.Writer) error {
	w := world.New()
	w.Prov.Types = world.DefaultCatalog()
	w.Prov.InstantTerminate = b.Cfg.Instant
	w.LogReads = b.Cfg.LogReads
	s := &sim{w: w, cfg: b.Cfg, ctx: world.Ctx()}
	podPV, names := map[string]string{}, []string{}
	for _, pc := range b.Cfg.Pods {
		names = append(names, pc.Name)
		if pc.PV {
			podPV[pc.Name] = "pv-" + pc.Name
		} else {
			podPV[pc.Name] = "-"
		}
	}
	tw.Begin(trace.M{"module": "Termination", "claim": claimName, "node": nodeName, "tgp": b.Cfg.TGP, "instant": b.Cfg.Instant,
		"podNames": names, "podPV": podPV, "dndDur": DndDurations, "stuckAfter": 60, "minDrain": int(nodetermination.MinDrainTime / time.Second),
		"tag": b.Tag, "idx": b.Idx})
	w.Sink = tw.Emit
	w.EnvCreate(world.NodeClass())
	pool := world.NodePool(poolName)
	w.EnvCreate(pool)
	s.pool = pool
	nc := world.NodeClaim(claimName, pool)
	// what NodeClaimTemplate.ToNodeClaim adds: the node class label that makes the registered Node "managed"
	nc.Labels[v1.NodeClassLabelKey(nc.Spec.NodeClassRef.GroupKind())] = nc.Spec.NodeClassRef.Name
	if b.Cfg.TGP >= 0 {
		nc.Spec.TerminationGracePeriod = &metav1.Duration{Duration: time.Duration(b.Cfg.TGP) * time.Second}
	}
	w.EnvCreate(nc)
	for _, pc := range b.Cfg.Pods {
		s.createPodSideObjects(pc)
	}
	s.restart()
	for _, st := range b.Steps {
		if err := s.step(st); err != nil {
			return err
		}
	}
	return nil
}

func Run(args []string) error {
	fs := flag.NewFlagSet("termination", flag.ContinueOnError)
	in := fs.String("in", "", "behaviours JSON")
	out := fs.String("out", "traces", "output directory")
	shards := fs.Int("shards", 8, "trace shards")
	if err := fs.Parse(args); err != nil {
		return err
	}
	raw, err := os.ReadFile(*in)
	if err != nil {
		return err
	}
	var behs []Behaviour
	if err := json.Unmarshal(raw, &behs); err != nil {
		return err
	}
	tw, err := trace.NewWriter(*out, "termination", *shards)
	if err != nil {
		return err
	}
	for i, b := range behs {
		if err := RunOne(b, tw); err != nil {
			return fmt.Errorf("behaviour %d: %w", i, err)
		}
	}
	paths := tw.Close()
	sum, _ := json.Marshal(trace.M{"traces": tw.N, "lines": tw.Lines, "files": paths})
	fmt.Println(string(sum))
	return nil
}
