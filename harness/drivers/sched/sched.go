package sched

import (
	"bufio"
	"context"
	"encoding/json"
	"errors"
	"flag"
	"fmt"
	"math"
	"os"
	"sort"
	"strings"
	"time"

	"github.com/samber/lo"
	appsv1 "k8s.io/api/apps/v1"
	corev1 "k8s.io/api/core/v1"
	metav1 "k8s.io/apimachinery/pkg/apis/meta/v1"
	"k8s.io/apimachinery/pkg/types"
	"k8s.io/apimachinery/pkg/util/sets"
	"sigs.k8s.io/controller-runtime/pkg/client"
	"sigs.k8s.io/controller-runtime/pkg/reconcile"

	v1 "sigs.k8s.io/karpenter/pkg/apis/v1"
	"sigs.k8s.io/karpenter/pkg/cloudprovider"
	"sigs.k8s.io/karpenter/pkg/controllers/dynamicresources/deviceallocation"
	"sigs.k8s.io/karpenter/pkg/controllers/provisioning"
	pscheduling "sigs.k8s.io/karpenter/pkg/controllers/provisioning/scheduling"
	"sigs.k8s.io/karpenter/pkg/controllers/state"
	"sigs.k8s.io/karpenter/pkg/controllers/state/informer"
	"sigs.k8s.io/karpenter/pkg/operator/injection"
	"sigs.k8s.io/karpenter/pkg/operator/options"
	"sigs.k8s.io/karpenter/pkg/scheduling"
	"sigs.k8s.io/karpenter/pkg/state/cost"
	"sigs.k8s.io/karpenter/pkg/state/virtualpods"

	"verif/harness/reg"
	"verif/harness/trace"
	"verif/harness/world"
)

func init() { reg.Register("sched", Run) }

// Sim is one materialised scenario: world + hydrated cluster + provisioner.
type Sim struct {
	S       *Scenario
	W       *world.World
	Ctx     context.Context
	Cluster *state.Cluster
	Prov    *provisioning.Provisioner
	Types   map[string]*cloudprovider.InstanceType
	podKey  map[types.UID]string
	ovl     *frameOverlay // C18 (x_frame.go): NodeOverlay wiring, nil without overlays
}

func podKey(p *corev1.Pod) string { return p.Namespace + "/" + p.Name }

type corevPod = corev1.Pod

func uid(s string) types.UID { return types.UID(s) }

// Materialise creates the API objects and the provider catalog of the scenario and hydrates
// state.Cluster through the real informer controllers.  No events are recorded (the scenario is
// the Cfg line); the Hydrate event afterwards shows what the cluster cache ended up with.
func Materialise(s *Scenario) (*Sim, error) {
	w := world.New()
	w.Client = scopedClient(w.Client)
	sim := &Sim{S: s, W: w, Types: map[string]*cloudprovider.InstanceType{}, podKey: map[types.UID]string{}}
	sim.Ctx = injection.WithControllerName(world.Ctx(func(o *options.Options) {
		o.CPURequests = int64(s.Options.Workers) * 1000
		if s.Options.Preference == "Ignore" {
			o.PreferencePolicy = options.PreferencePolicyIgnore
		}
		if s.Options.MinValues == "BestEffort" {
			o.MinValuesPolicy = options.MinValuesPolicyBestEffort
		}
		o.IgnoreDRARequests = s.DRA == nil
		o.FeatureGates.NodeOverlay = len(s.Overlays) > 0 // C18
	}), "provisioner")
	// catalog
	var all []*cloudprovider.InstanceType
	for _, t := range s.Types {
		it := BuildType(t)
		applyDRATemplates(s, it)
		sim.Types[t.Name] = it
		all = append(all, it)
	}
	w.Prov.Types = all
	w.EnvCreate(world.NodeClass())
	pools := map[string]*v1.NodePool{}
	for _, p := range s.Pools {
		np := BuildPool(p)
		w.EnvCreate(np)
		st := np.Status
		cur := &v1.NodePool{ObjectMeta: metav1.ObjectMeta{Name: np.Name}}
		w.EnvMutate(cur, "seed-status", func() { cur.Status = st })
		pools[p.Name] = cur
		deletePoolIfDeleting(w, p)
		if len(p.Types) > 0 {
			var sub []*cloudprovider.InstanceType
			for _, n := range p.Types {
				if it, ok := sim.Types[n]; ok {
					sub = append(sub, it)
				}
			}
			w.Prov.TypesForPool[p.Name] = sub
		}
	}
	for _, c := range s.SCs {
		w.EnvCreate(BuildSC(c))
	}
	for _, v := range s.PVs {
		w.EnvCreate(BuildPV(v))
	}
	for _, c := range s.PVCs {
		pvc := BuildPVC(c)
		st := pvc.Status
		w.EnvCreate(pvc)
		cur := &corev1.PersistentVolumeClaim{ObjectMeta: metav1.ObjectMeta{Name: c.Name, Namespace: c.Ns}}
		w.EnvMutate(cur, "seed-status", func() { cur.Status = st })
	}
	dsRef := map[string]metav1.OwnerReference{}
	for _, d := range s.DS {
		ds := BuildDaemonSet(d)
		w.EnvCreate(ds)
		dsRef[d.Name] = metav1.OwnerReference{APIVersion: "apps/v1", Kind: "DaemonSet", Name: ds.Name, UID: ds.UID,
			Controller: lo.ToPtr(true), BlockOwnerDeletion: lo.ToPtr(true)}
	}
	now := w.Clock.Now()
	for _, n := range s.Nodes {
		nc, node := BuildNode(n, pools[n.Pool], now)
		if nc != nil {
			st := nc.Status
			w.EnvCreate(nc)
			cur := &v1.NodeClaim{ObjectMeta: metav1.ObjectMeta{Name: nc.Name}}
			w.EnvMutate(cur, "seed-status", func() { cur.Status = st })
		}
		if node != nil {
			st := node.Status
			w.EnvCreate(node)
			cur := &corev1.Node{ObjectMeta: metav1.ObjectMeta{Name: node.Name}}
			w.EnvMutate(cur, "seed-status", func() { cur.Status = st })
			if len(n.CSI) > 0 {
				w.EnvCreate(BuildCSINode(n))
			}
		}
	}
	for _, p := range s.Pods {
		pod := BuildPod(p, dsRef)
		applyDRAPodClaims(s, pod)
		st := pod.Status
		w.EnvCreate(pod)
		cur := &corev1.Pod{ObjectMeta: metav1.ObjectMeta{Name: pod.Name, Namespace: pod.Namespace}}
		w.EnvMutate(cur, "seed-status", func() { cur.Status = st })
		sim.podKey[cur.UID] = podKey(cur)
	}
	materialiseTopo(w, s) // C02: namespaces, terminating / terminal bound pods (topo.go)
	if err := sim.materialiseDRA(); err != nil {
		return nil, err
	}
	// deleting nodes: API delete (finalizers keep them, virtual deletionTimestamp)
	for _, n := range s.Nodes {
		if !n.Deleting {
			continue
		}
		if n.Stage != "unmanaged" {
			_ = w.Client.Delete(world.WithActor(context.Background(), "env"), &v1.NodeClaim{ObjectMeta: metav1.ObjectMeta{Name: "nc-" + n.Name}})
		} else {
			nd := &corev1.Node{ObjectMeta: metav1.ObjectMeta{Name: n.Name}}
			w.EnvMutate(nd, "add-finalizer", func() { nd.Finalizers = append(nd.Finalizers, "verif.harness/hold") })
			_ = w.Client.Delete(world.WithActor(context.Background(), "env"), nd)
		}
	}
	// cluster state through the real informer controllers
	cp := frameProvider(sim) // C18: the harness provider, or behind the NodeOverlay decorator (x_frame.go)
	sim.Cluster = state.NewCluster(w.Clock, w.Client, cp)
	frameOverlayInit(sim) // C18: the instance type store learns the pools (no overlay exists yet)
	cc := cost.NewClusterCost(sim.Ctx, cp, w.Client)
	npc := informer.NewNodePoolController(w.Client, cp, sim.Cluster, cc)
	ncc := informer.NewNodeClaimController(w.Client, cp, sim.Cluster, cc)
	nc := informer.NewNodeController(w.Client, sim.Cluster)
	pc := informer.NewPodController(w.Client, sim.Cluster)
	dc := informer.NewDaemonSetController(w.Client, sim.Cluster)
	req := func(ns, name string) reconcile.Request {
		return reconcile.Request{NamespacedName: types.NamespacedName{Namespace: ns, Name: name}}
	}
	for _, p := range s.Pools {
		_, _ = npc.Reconcile(sim.Ctx, req("", p.Name))
	}
	for _, n := range s.Nodes {
		if n.Stage != "unmanaged" {
			_, _ = ncc.Reconcile(sim.Ctx, req("", "nc-"+n.Name)) // a cluster-cost error does not affect cluster state
		}
	}
	for _, n := range s.Nodes {
		if n.Stage != "claimonly" {
			if _, err := nc.Reconcile(sim.Ctx, req("", n.Name)); err != nil {
				return nil, fmt.Errorf("node informer %s: %w", n.Name, err)
			}
		}
	}
	for _, d := range s.DS {
		if _, err := dc.Reconcile(sim.Ctx, req(d.Ns, d.Name)); err != nil {
			return nil, fmt.Errorf("daemonset informer %s: %w", d.Name, err)
		}
	}
	for _, p := range s.Pods {
		if _, err := pc.Reconcile(sim.Ctx, req(p.Ns, p.Name)); err != nil {
			return nil, fmt.Errorf("pod informer %s: %w", p.Name, err)
		}
	}
	for _, n := range s.Nodes {
		if n.Marked {
			sim.Cluster.MarkForDeletion(ProviderID(n))
		}
	}
	if !sim.Cluster.Synced(sim.Ctx) {
		return nil, fmt.Errorf("cluster state not synced after hydration")
	}
	dac := deviceallocation.NewController(w.Client)
	if s.DRA != nil {
		dac.Hydrate(sim.Ctx) // AllocatedDevices blocks until the controller has listed the ResourceClaims once
	}
	sim.Prov = provisioning.NewProvisioner(w.Client, w.Rec, cp, sim.Cluster, w.Clock, dac, virtualpods.NewVirtualPodCache(w.Client))
	return sim, nil
}

// ---------------------------------------------------------------- projections

func milliRes(r corev1.ResourceList) Res {
	out := Res{}
	if q, ok := r[corev1.ResourceCPU]; ok {
		out.CPU = int(q.MilliValue())
	}
	if q, ok := r[corev1.ResourceMemory]; ok {
		out.Mem = int(q.Value() >> 20)
	}
	if q, ok := r[corev1.ResourcePods]; ok {
		out.Pods = int(q.Value())
	}
	return out
}

func absTaints(ts []corev1.Taint) []Taint {
	out := []Taint{}
	for _, t := range ts {
		out = append(out, Taint{Key: t.Key, Value: t.Value, Effect: string(t.Effect), TimeAdded: t.TimeAdded != nil})
	}
	sort.Slice(out, func(i, j int) bool { return out[i].Key+out[i].Effect < out[j].Key+out[j].Effect })
	return out
}

func shortLabels(m map[string]string) map[string]string {
	out := map[string]string{}
	for k, v := range m {
		if s := Short(k); s != "" {
			out[s] = v
		}
	}
	return out
}

// ReqRec is the logged form of one requirement over the scenario universe: Has[i] = the real
// Requirement.Has(universe[key][i]); Absent = a missing label satisfies it (operator NotIn /
// DoesNotExist, or the key is not defined at all); Op/Vals = Operator()/Values(); Min = minValues or -1.
type ReqRec struct {
	Defined bool     `json:"defined"`
	Op      string   `json:"op"`
	Vals    []string `json:"vals"`
	Has     []bool   `json:"has"`
	Absent  bool     `json:"absent"`
	Min     int      `json:"min"`
}

// ProjectReqs logs requirements for EVERY universe key (undefined keys admit everything) plus the
// list of defined keys that are outside the universe.
func (sim *Sim) ProjectReqs(reqs scheduling.Requirements) (map[string]ReqRec, []string) {
	out := map[string]ReqRec{}
	for k, vals := range sim.S.Universe {
		real := Key(k)
		rec := ReqRec{Op: "-", Vals: []string{}, Has: make([]bool, len(vals)), Absent: true, Min: -1}
		if reqs.Has(real) {
			r := reqs.Get(real)
			rec.Defined = true
			rec.Op = string(r.Operator())
			rec.Vals = r.Values()
			sort.Strings(rec.Vals)
			if len(rec.Vals) > 12 {
				rec.Vals = rec.Vals[:12]
			}
			for i, v := range vals {
				rec.Has[i] = r.Has(v)
			}
			rec.Absent = r.Operator() == corev1.NodeSelectorOpNotIn || r.Operator() == corev1.NodeSelectorOpDoesNotExist
			if r.MinValues != nil {
				rec.Min = *r.MinValues
			}
		} else {
			for i := range vals {
				rec.Has[i] = true
			}
		}
		out[k] = rec
	}
	other := []string{}
	for k := range reqs {
		if s := Short(k); s == "" || sim.S.Universe[s] == nil {
			other = append(other, k)
		}
	}
	sort.Strings(other)
	return out, other
}

func absExpr(r corev1.NodeSelectorRequirement) Expr {
	e := Expr{Key: Short(r.Key), Op: string(r.Operator), Vals: append([]string{}, r.Values...)}
	if e.Key == "" {
		e.Key = r.Key
	}
	if e.Op == "Gt" || e.Op == "Lt" {
		e.N = atoiOr(lo.FirstOr(r.Values, ""), NoInt)
		e.Vals = []string{}
	}
	return e
}

func absPodTerm(t corev1.PodAffinityTerm, w int32) PodTerm {
	out := PodTerm{Key: Short(t.TopologyKey), Sel: map[string]string{}, Ns: append([]string{}, t.Namespaces...), NsAll: t.NamespaceSelector != nil, Weight: int(w)}
	if t.NamespaceSelector != nil && len(t.NamespaceSelector.MatchLabels) > 0 {
		out.NsAll, out.NsSel = false, t.NamespaceSelector.MatchLabels
	}
	if t.LabelSelector != nil && t.LabelSelector.MatchLabels != nil {
		out.Sel = t.LabelSelector.MatchLabels
	}
	return out
}

// AbsPod is the inverse of BuildPod: the logged form of a (possibly relaxed) pod object.
func AbsPod(p *corev1.Pod) Pod {
	out := Pod{Name: p.Name, Ns: p.Namespace, Node: p.Spec.NodeName, Labels: p.Labels, Sel: shortLabels(p.Spec.NodeSelector),
		Created: world.Sec(p.CreationTimestamp.Time), Terminating: p.DeletionTimestamp != nil, Phase: absPhase(p)}
	for _, r := range p.OwnerReferences {
		switch r.Kind {
		case "ReplicaSet":
			out.Owner = "rs"
		case "DaemonSet":
			out.Owner = "ds:" + r.Name
		case "Node":
			out.Owner = "node"
		}
	}
	for _, c := range p.Spec.Containers {
		out.CPU += int(c.Resources.Requests.Cpu().MilliValue())
		out.Mem += int(c.Resources.Requests.Memory().Value() >> 20)
		for _, cp := range c.Ports {
			if cp.HostPort != 0 {
				out.Ports = append(out.Ports, Port{Port: int(cp.HostPort), IP: cp.HostIP, Proto: string(cp.Protocol)})
			}
		}
	}
	for _, t := range p.Spec.Tolerations {
		out.Tol = append(out.Tol, Tol{Key: t.Key, Op: string(t.Operator), Value: t.Value, Effect: string(t.Effect)})
	}
	for _, v := range p.Spec.Volumes {
		if v.PersistentVolumeClaim != nil {
			out.Vols = append(out.Vols, v.PersistentVolumeClaim.ClaimName)
		}
	}
	if a := p.Spec.Affinity; a != nil {
		if na := a.NodeAffinity; na != nil {
			if na.RequiredDuringSchedulingIgnoredDuringExecution != nil {
				for _, t := range na.RequiredDuringSchedulingIgnoredDuringExecution.NodeSelectorTerms {
					term := []Expr{}
					for _, e := range t.MatchExpressions {
						term = append(term, absExpr(e))
					}
					out.Terms = append(out.Terms, term)
				}
			}
			for _, pr := range na.PreferredDuringSchedulingIgnoredDuringExecution {
				x := Pref{Weight: int(pr.Weight)}
				for _, e := range pr.Preference.MatchExpressions {
					x.Exprs = append(x.Exprs, absExpr(e))
				}
				out.Pref = append(out.Pref, x)
			}
		}
		if pa := a.PodAffinity; pa != nil {
			for _, t := range pa.RequiredDuringSchedulingIgnoredDuringExecution {
				out.Aff = append(out.Aff, absPodTerm(t, 0))
			}
			for _, t := range pa.PreferredDuringSchedulingIgnoredDuringExecution {
				out.PrefAff = append(out.PrefAff, absPodTerm(t.PodAffinityTerm, t.Weight))
			}
		}
		if pa := a.PodAntiAffinity; pa != nil {
			for _, t := range pa.RequiredDuringSchedulingIgnoredDuringExecution {
				out.Anti = append(out.Anti, absPodTerm(t, 0))
			}
			for _, t := range pa.PreferredDuringSchedulingIgnoredDuringExecution {
				out.PrefAnti = append(out.PrefAnti, absPodTerm(t.PodAffinityTerm, t.Weight))
			}
		}
	}
	for _, s := range p.Spec.TopologySpreadConstraints {
		x := Spread{Key: Short(s.TopologyKey), MaxSkew: int(s.MaxSkew), When: string(s.WhenUnsatisfiable), Sel: map[string]string{},
			MatchKeys: append([]string{}, s.MatchLabelKeys...)}
		if s.LabelSelector != nil && s.LabelSelector.MatchLabels != nil {
			x.Sel = s.LabelSelector.MatchLabels
		}
		if s.MinDomains != nil {
			x.MinDomains = int(*s.MinDomains)
		}
		if s.NodeAffinityPolicy != nil {
			x.AffPol = string(*s.NodeAffinityPolicy)
		}
		if s.NodeTaintsPolicy != nil {
			x.TaintPol = string(*s.NodeTaintsPolicy)
		}
		out.Spread = append(out.Spread, x)
	}
	out.normalise()
	return out
}

// nodeOf maps a provider id back to the scenario's node name ("-" if it is none of them).
func (sim *Sim) nodeOf(pid string) string {
	for _, n := range sim.S.Nodes {
		if ProviderID(n) == pid {
			return n.Name
		}
	}
	return "-"
}

// ErrKind classifies a pod error of Results.PodErrors.
func ErrKind(err error) string {
	switch {
	case err == nil:
		return "-"
	case pscheduling.IsReservedOfferingError(err):
		return "reserved"
	case pscheduling.IsDRAError(err):
		return "dra"
	}
	return "unschedulable"
}

func trunc(s string, n int) string {
	s = strings.ReplaceAll(s, "\n", " ")
	if len(s) > n {
		return s[:n]
	}
	return s
}

// HydrateEvent projects what the cluster cache holds after hydration (one record per state node).
func (sim *Sim) HydrateEvent() trace.M {
	nodes := []trace.M{}
	for n := range sim.Cluster.Nodes() {
		nodes = append(nodes, trace.M{
			"node": sim.nodeOf(n.ProviderID()), "name": n.Name(), "hostname": n.HostName(), "pid": n.ProviderID(), "managed": n.Managed(), "registered": n.Registered(),
			"initialized": n.Initialized(), "marked": n.MarkedForDeletion(), "deleted": n.Deleted(),
			"labels": shortLabels(n.Labels()), "taints": absTaints(n.Taints()), "alloc": milliRes(n.Allocatable()),
			"cap": milliRes(n.Capacity()), "podRequests": milliRes(n.PodRequests()), "daemonRequests": milliRes(n.DaemonSetRequests()),
			"available": milliRes(n.Available()),
		})
	}
	sort.Slice(nodes, func(i, j int) bool { return nodes[i]["name"].(string) < nodes[j]["name"].(string) })
	return trace.M{"e": "Hydrate", "synced": sim.Cluster.Synced(sim.Ctx), "nodes": nodes}
}

// ResultsEvent projects scheduling.Results.
func (sim *Sim) ResultsEvent(res pscheduling.Results, runErr error, phase string) trace.M {
	claims := []trace.M{}
	eff := []Pod{}
	for i, c := range res.NewNodeClaims {
		reqs, other := sim.ProjectReqs(c.Requirements)
		pods := []string{}
		for _, p := range c.Pods {
			pods = append(pods, podKey(p))
			eff = append(eff, AbsPod(p))
		}
		its := lo.Map(c.InstanceTypeOptions, func(it *cloudprovider.InstanceType, _ int) string { return it.Name })
		reserved := []string{}
		if r := c.Requirements.Get(v1.CapacityTypeLabelKey); c.Requirements.Has(cloudprovider.ReservationIDLabel) &&
			r.Operator() == corev1.NodeSelectorOpIn && r.Len() == 1 && r.Has(v1.CapacityTypeReserved) {
			reserved = c.Requirements.Get(cloudprovider.ReservationIDLabel).Values()
			sort.Strings(reserved)
		}
		claims = append(claims, trace.M{"idx": i, "pool": c.NodePoolName, "pods": pods, "reqs": reqs, "otherKeys": other, "its": its,
			"requests": milliRes(c.Spec.Resources.Requests), "reserved": reserved, "taints": absTaints(c.Spec.Taints),
			"startup": absTaints(c.Spec.StartupTaints), "labels": shortLabels(c.Labels),
			"minRelaxed": c.Annotations[v1.NodeClaimMinValuesRelaxedAnnotationKey] == "true"})
	}
	existing := []trace.M{}
	for _, n := range res.ExistingNodes {
		pods := []string{}
		for _, p := range n.Pods {
			pods = append(pods, podKey(p))
			eff = append(eff, AbsPod(p))
		}
		existing = append(existing, trace.M{"node": sim.nodeOf(n.ProviderID()), "name": n.Name(), "hostname": n.HostName(), "managed": n.Managed(),
			"initialized": n.Initialized(), "pods": pods})
	}
	sort.Slice(existing, func(i, j int) bool { return existing[i]["name"].(string) < existing[j]["name"].(string) })
	errs := []trace.M{}
	for p, err := range res.PodErrors {
		errs = append(errs, trace.M{"pod": podKey(p), "kind": ErrKind(err), "msg": trunc(err.Error(), 160)})
	}
	sort.Slice(errs, func(i, j int) bool { return errs[i]["pod"].(string) < errs[j]["pod"].(string) })
	errS := "-"
	if runErr != nil {
		errS = trunc(runErr.Error(), 200)
	}
	return trace.M{"e": "Results", "phase": phase, "err": errS, "claims": claims, "existing": existing, "errors": errs, "eff": eff,
		"dra": sim.DRAResults(res)}
}

// ---------------------------------------------------------------- the run

// Schedule runs one pass.  Reserved="strict" goes through the real Provisioner.Schedule; "fallback"
// replicates its body with the exported pieces but without DisableReservedCapacityFallback (the
// mode the disruption simulations use).
func (sim *Sim) Schedule() (res pscheduling.Results, err error, panicked string) {
	defer func() {
		if r := recover(); r != nil {
			panicked = trunc(fmt.Sprint(r), 200)
		}
	}()
	if sim.S.Options.MaxTypes > 0 {
		pscheduling.MaxInstanceTypes = sim.S.Options.MaxTypes
	} else {
		pscheduling.MaxInstanceTypes = 600
	}
	if sim.S.Options.Reserved != "fallback" {
		res, err = sim.Prov.Schedule(sim.scheduleCtx())
		return res, err, ""
	}
	ctx := sim.Ctx
	nodes := sim.Cluster.DeepCopyNodes()
	pending, err := sim.Prov.GetPendingPods(ctx)
	if err != nil {
		return res, err, ""
	}
	deleting, err := nodes.Deleting().CurrentlyReschedulablePods(ctx, sim.W.Client, sim.W.Clock, sim.W.Rec)
	if err != nil {
		return res, err, ""
	}
	pods := append(pending, deleting...)
	if len(pods) == 0 {
		return res, nil, ""
	}
	opts := []pscheduling.Options{
		pscheduling.NumConcurrentReconciles(int(math.Ceil(float64(options.FromContext(ctx).CPURequests) / 1000.0))),
		pscheduling.MinValuesPolicy(options.FromContext(ctx).MinValuesPolicy),
	}
	if options.FromContext(ctx).PreferencePolicy == options.PreferencePolicyIgnore {
		opts = append(opts, pscheduling.IgnorePreferences)
	}
	s, err := sim.Prov.NewScheduler(ctx, pods, nodes.Active(), sets.New(lo.Map(deleting, func(p *corev1.Pod, _ int) types.UID { return p.UID })...), opts...)
	if err != nil {
		if errors.Is(err, provisioning.ErrNodePoolsNotFound) {
			return res, nil, ""
		}
		return res, err, ""
	}
	tctx, cancel := context.WithTimeout(ctx, time.Minute)
	defer cancel()
	res, err = s.Solve(tctx, pods)
	if err != nil {
		return res, err, ""
	}
	return res.TruncateInstanceTypes(ctx, pscheduling.MaxInstanceTypes), nil, ""
}

// RunScenario executes one scenario and writes its trace.
func RunScenario(s *Scenario, tw *trace.Writer) (sum trace.M, err error) {
	s.Normalise()
	cfg := ToM(s)
	tw.Begin(cfg)
	emit := func(ev trace.M) { tw.Emit(ev) }
	sim, err := Materialise(s)
	if err != nil {
		emit(trace.M{"e": "End", "status": "setup-error", "msg": trunc(err.Error(), 200)})
		return trace.M{"name": s.Name, "status": "setup-error"}, nil
	}
	frameOverlaysAppear(sim) // C18: the NodeOverlays appear now; their first application falls into the bracketed pass
	emit(sim.HydrateEvent())
	sim.W.Sink = func(ev trace.M) { emit(ev) }
	sim.W.ResetSeq()
	installHook(sim, emit)
	frameSnap(sim, "pre", "pass") // C18 (x_frame.go)
	res, rerr, pan := sim.Schedule()
	removeHook()
	frameSnap(sim, "post", "pass") // C18
	if pan != "" {
		emit(trace.M{"e": "Panic", "where": "Schedule", "msg": pan, "class": PanicClass(pan)})
	}
	ev := sim.ResultsEvent(res, rerr, "schedule")
	emit(ev)
	created := 0
	if s.Options.Create && pan == "" && rerr == nil && len(res.NewNodeClaims) > 0 {
		names, cerr := func() (n []string, e error) {
			defer func() {
				if r := recover(); r != nil {
					emit(trace.M{"e": "Panic", "where": "CreateNodeClaims", "msg": trunc(fmt.Sprint(r), 200), "class": PanicClass(fmt.Sprint(r))})
				}
			}()
			return sim.Prov.CreateNodeClaims(sim.Ctx, res.NewNodeClaims, provisioning.WithReason("provisioned"))
		}()
		for i, name := range names {
			if name == "" {
				continue
			}
			nc := &v1.NodeClaim{ObjectMeta: metav1.ObjectMeta{Name: name}}
			if sim.W.Get(nc) {
				created++
				emit(sim.CreatedEvent(i, nc))
			}
		}
		if cerr != nil {
			emit(trace.M{"e": "CreateErr", "msg": trunc(cerr.Error(), 200)})
		}
	}
	sim.staticStep(emit)
	sim.W.Sink = nil
	emit(trace.M{"e": "End", "status": "ok", "msg": "-"})
	placed := 0
	for _, c := range res.NewNodeClaims {
		placed += len(c.Pods)
	}
	onExisting := 0
	for _, n := range res.ExistingNodes {
		onExisting += len(n.Pods)
	}
	return trace.M{"name": s.Name, "status": "ok", "claims": len(res.NewNodeClaims), "onNew": placed, "onExisting": onExisting,
		"errors": len(res.PodErrors), "created": created, "panic": pan != ""}, nil
}

// CreatedEvent logs a NodeClaim object as stored by the API after CreateNodeClaims (C13 b-d).
func (sim *Sim) CreatedEvent(idx int, nc *v1.NodeClaim) trace.M {
	reqs := []trace.M{}
	for _, r := range nc.Spec.Requirements {
		k := Short(r.Key)
		if k == "" {
			k = r.Key
		}
		vals := append([]string{}, r.Values...)
		sort.Strings(vals)
		reqs = append(reqs, trace.M{"key": k, "op": string(r.Operator), "vals": vals, "min": lo.FromPtrOr(r.MinValues, -1)})
	}
	sort.Slice(reqs, func(i, j int) bool {
		return reqs[i]["key"].(string)+reqs[i]["op"].(string) < reqs[j]["key"].(string)+reqs[j]["op"].(string)
	})
	return sim.createdExt(trace.M{"e": "Created", "idx": idx, "name": nc.Name, "pool": nc.Labels[v1.NodePoolLabelKey], "reqs": reqs,
		"requests": milliRes(nc.Spec.Resources.Requests), "labels": shortLabels(nc.Labels), "allLabels": nc.Labels,
		"annotations": nc.Annotations, "taints": absTaints(nc.Spec.Taints), "startup": absTaints(nc.Spec.StartupTaints)}, nc)
}

// Run: drv sched -in scenarios.ndjson -out dir -shards N  (one scenario JSON per line)
func Run(args []string) error {
	fs := flag.NewFlagSet("sched", flag.ContinueOnError)
	in := fs.String("in", "", "ndjson file, one scenario per line")
	out := fs.String("out", "traces", "output directory")
	shards := fs.Int("shards", 4, "trace shards")
	prefix := fs.String("prefix", "sched", "trace file prefix")
	if err := fs.Parse(args); err != nil {
		return err
	}
	f, err := os.Open(*in)
	if err != nil {
		return err
	}
	defer f.Close()
	tw, err := trace.NewWriter(*out, *prefix, *shards)
	if err != nil {
		return err
	}
	sc := bufio.NewScanner(f)
	sc.Buffer(make([]byte, 1<<20), 64<<20)
	sums := []trace.M{}
	for sc.Scan() {
		line := strings.TrimSpace(sc.Text())
		if line == "" {
			continue
		}
		s := &Scenario{}
		if err := json.Unmarshal([]byte(line), s); err != nil {
			return fmt.Errorf("scenario %d: %w", len(sums)+1, err)
		}
		sum, err := RunScenario(s, tw)
		if err != nil {
			return err
		}
		sums = append(sums, sum)
	}
	files := tw.Close()
	b, _ := json.Marshal(trace.M{"files": files, "traces": tw.N, "lines": tw.Lines, "summaries": sums, "hook": hookAvailable})
	fmt.Println(string(b))
	return nil
}

var _ = appsv1.DaemonSet{}
var _ client.Object
