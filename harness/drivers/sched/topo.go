package sched

// C02 (Topology.tla) additions to the scheduling driver, all additive (spec/SCHED_TRACE.md "C02 additions"):
//   - Scenario.Nss: Namespace objects with labels, so that namespaceSelector terms select what a real API
//     server would (every namespace a pod lives in exists; PodTerm.NsSel = namespaceSelector matchLabels)
//   - Pod.Terminating / Pod.Phase: bound pods that are terminating (deletionTimestamp) or terminal
//     (Succeeded / Failed) - Kubernetes and Karpenter do not count them for topology purposes
//   - a bound pod may name a node that is not in the scenario (pod leaked after its node was removed)
//   - ParseSelector: the structured form of a topology group's selector string in Sched.topo (field selm)

import (
	"sort"
	"strings"

	corev1 "k8s.io/api/core/v1"
	metav1 "k8s.io/apimachinery/pkg/apis/meta/v1"
	"k8s.io/apimachinery/pkg/labels"
	"k8s.io/apimachinery/pkg/selection"

	"verif/harness/world"
)

// NS is a namespace with its (user) labels.
type NS struct {
	Name   string            `json:"name"`
	Labels map[string]string `json:"labels"`
}

// completeNamespaces makes sure every namespace a pod, PVC or daemonset lives in (and "default") is listed.
func (s *Scenario) completeNamespaces() {
	seen := map[string]bool{}
	out := make([]NS, 0, len(s.Nss)+2)
	for _, n := range s.Nss {
		if n.Name == "" || seen[n.Name] {
			continue
		}
		n.Labels = nzM(n.Labels)
		seen[n.Name] = true
		out = append(out, n)
	}
	add := func(name string) {
		if name != "" && !seen[name] {
			seen[name] = true
			out = append(out, NS{Name: name, Labels: map[string]string{}})
		}
	}
	add("default")
	names := []string{}
	for _, p := range s.Pods {
		names = append(names, p.Ns)
		for _, t := range append(append(append(append([]PodTerm{}, p.Aff...), p.Anti...), p.PrefAff...), p.PrefAnti...) {
			names = append(names, t.Ns...)
		}
	}
	for _, d := range s.DS {
		names = append(names, d.Ns)
	}
	sort.Strings(names)
	for _, n := range names {
		add(n)
	}
	s.Nss = out
}

// materialiseTopo creates the Namespace objects and turns the bound pods marked terminating / terminal into
// such objects (the fake API has no kubelet: the deletionTimestamp is written through the raw tracker).
func materialiseTopo(w *world.World, s *Scenario) {
	for _, n := range s.Nss {
		lbl := map[string]string{corev1.LabelMetadataName: n.Name}
		for k, v := range n.Labels {
			lbl[k] = v
		}
		w.EnvCreate(&corev1.Namespace{ObjectMeta: metav1.ObjectMeta{Name: n.Name, Labels: lbl}})
	}
	for _, p := range s.Pods {
		if p.Node == "" || (!p.Terminating && p.Phase == "") {
			continue
		}
		p := p
		cur := &corev1.Pod{ObjectMeta: metav1.ObjectMeta{Name: p.Name, Namespace: p.Ns}}
		w.EnvMutate(cur, "seed-terminating", func() {
			if p.Terminating {
				ts := metav1.NewTime(w.Clock.Now())
				cur.DeletionTimestamp = &ts
				cur.Finalizers = append(cur.Finalizers, "verif.harness/kubelet")
			}
			if p.Phase != "" {
				cur.Status.Phase = corev1.PodPhase(p.Phase)
			}
		})
	}
}

func absPhase(p *corev1.Pod) string {
	if p.Status.Phase == corev1.PodSucceeded || p.Status.Phase == corev1.PodFailed {
		return string(p.Status.Phase)
	}
	return ""
}

// ParseSelector turns labels.Selector.String() of a topology group into key -> value for the requirements that
// pin a key to one value (k=v, k in (v)); other counts the requirements it cannot express that way.
func ParseSelector(sel string) (m map[string]string, other int) {
	m = map[string]string{}
	if strings.TrimSpace(sel) == "" {
		return m, 0
	}
	parsed, err := labels.Parse(sel)
	if err != nil {
		return m, 1
	}
	reqs, _ := parsed.Requirements()
	for _, r := range reqs {
		vals := r.Values().List()
		switch r.Operator() {
		case selection.Equals, selection.DoubleEquals, selection.In:
			if len(vals) == 1 {
				if old, ok := m[r.Key()]; ok && old != vals[0] {
					other++ // contradictory: selects nothing
				}
				m[r.Key()] = vals[0]
				continue
			}
		}
		other++
	}
	return m, other
}
