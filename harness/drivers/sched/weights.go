package sched

import (
	"context"
	"fmt"
	"sort"
	"sync"
	"time"

	"github.com/samber/lo"
	"k8s.io/apimachinery/pkg/api/equality"
	metav1 "k8s.io/apimachinery/pkg/apis/meta/v1"

	v1 "sigs.k8s.io/karpenter/pkg/apis/v1"
	"sigs.k8s.io/karpenter/pkg/controllers/dynamicresources/deviceallocation"
	staticprovisioning "sigs.k8s.io/karpenter/pkg/controllers/static/provisioning"
	"sigs.k8s.io/karpenter/pkg/state/virtualpods"

	"verif/harness/trace"
	"verif/harness/world"
)

// Extensions of the scheduling driver for C19 (NodePool weight / price ordering) and C13 (b)-(d)
// (the created NodeClaim vs the scheduler's decision).  Everything here is additive: three optional
// scenario fields on a pool and four extra fields on the Created event (spec/SCHED_TRACE.md).

const holdFinalizer = "verif.harness/hold"

// applyPoolExt: a pool that is not Ready (its NodeClass is not ready), a pool that will be deleted
// (needs a finalizer to stay visible) and a stored hash annotation (what the nodepool hash controller
// wrote at some earlier time - stale when it differs from Hash() of the current spec).
func applyPoolExt(np *v1.NodePool, p Pool) {
	if p.HashAnn != "" {
		if np.Annotations == nil {
			np.Annotations = map[string]string{}
		}
		np.Annotations[v1.NodePoolHashAnnotationKey] = p.HashAnn
		np.Annotations[v1.NodePoolHashVersionAnnotationKey] = v1.NodePoolHashVersion
	}
	if p.NotReady {
		np.StatusConditions().SetFalse(v1.ConditionTypeNodeClassReady, "NodeClassNotReady", "verif scenario: nodeclass not ready")
	}
	if p.Deleting {
		np.Finalizers = append(np.Finalizers, holdFinalizer)
	}
	if p.Replicas > 0 {
		np.Spec.Replicas = lo.ToPtr(int64(p.Replicas))
	}
}

// deletePoolIfDeleting gives the stored pool a deletionTimestamp (the finalizer keeps it listed).
func deletePoolIfDeleting(w *world.World, p Pool) {
	if p.Deleting {
		_ = w.Client.Delete(world.WithActor(context.Background(), "env"), &v1.NodePool{ObjectMeta: metav1.ObjectMeta{Name: p.Name}})
	}
}

// createdExt adds to a Created event what the NodePool CURRENTLY stored in the API implies for the
// NodeClaim: expHash = Hash() of that pool, expHashVersion, and the nodeclass label (ncKey = ncVal).
// "-" when the pool is gone.
func (sim *Sim) createdExt(ev trace.M, nc *v1.NodeClaim) trace.M {
	ev["expHash"], ev["expHashVersion"], ev["ncKey"], ev["ncVal"] = "-", v1.NodePoolHashVersion, "-", "-"
	np := &v1.NodePool{ObjectMeta: metav1.ObjectMeta{Name: nc.Labels[v1.NodePoolLabelKey]}}
	if np.Name != "" && sim.W.Get(np) {
		ev["expHash"] = np.Hash()
		ref := np.Spec.Template.Spec.NodeClassRef
		ev["ncKey"], ev["ncVal"] = v1.NodeClassLabelKey(ref.GroupKind()), ref.Name
	}
	return ev
}

// ---------------------------------------------------------------- Solve deadline after k placements (options.deadlineAfter)

// expiringCtx is a context that expires (DeadlineExceeded) when the driver says so.  It implements the AfterFunc method the
// context package looks for, so the child context.WithTimeout Provisioner.Schedule derives from it is cancelled SYNCHRONOUSLY
// inside expire() - the very next ctx.Err() poll of Solve sees the deadline.
type expiringCtx struct {
	context.Context
	mu   sync.Mutex
	done chan struct{}
	err  error
	fns  map[int]func()
	n    int
}

func (c *expiringCtx) Deadline() (time.Time, bool) { return time.Time{}, false }
func (c *expiringCtx) Done() <-chan struct{}       { return c.done }
func (c *expiringCtx) Err() error {
	c.mu.Lock()
	defer c.mu.Unlock()
	return c.err
}
func (c *expiringCtx) AfterFunc(f func()) func() bool {
	c.mu.Lock()
	defer c.mu.Unlock()
	if c.err != nil {
		go f()
		return func() bool { return false }
	}
	c.n++
	id := c.n
	c.fns[id] = f
	return func() bool {
		c.mu.Lock()
		defer c.mu.Unlock()
		_, ok := c.fns[id]
		delete(c.fns, id)
		return ok
	}
}
func (c *expiringCtx) expire() {
	c.mu.Lock()
	if c.err != nil {
		c.mu.Unlock()
		return
	}
	c.err = context.DeadlineExceeded
	close(c.done)
	fns := c.fns
	c.fns = map[int]func(){}
	c.mu.Unlock()
	for _, f := range fns {
		f()
	}
}

// one scenario runs at a time in a driver process
var deadline struct {
	ctx    *expiringCtx
	after  int
	placed int
}

// scheduleCtx is the context Provisioner.Schedule runs under.
func (sim *Sim) scheduleCtx() context.Context {
	deadline.ctx, deadline.after, deadline.placed = nil, sim.S.Options.DeadlineAfter, 0
	if deadline.after <= 0 {
		return sim.Ctx
	}
	deadline.ctx = &expiringCtx{Context: sim.Ctx, done: make(chan struct{}), fns: map[int]func(){}}
	return deadline.ctx
}

// afterSched is called by the H1 hook handler after every Sched event: the k-th placement expires the Solve context.
func (sim *Sim) afterSched(kind string) {
	if deadline.ctx == nil || (kind != "commit" && kind != "open") {
		return
	}
	deadline.placed++
	if deadline.placed == deadline.after {
		deadline.ctx.expire()
	}
}

// ---------------------------------------------------------------- static NodePools (pool.replicas)

// staticStep runs the REAL static provisioning controller once on every static pool of the scenario, the way
// reconcile.AsReconciler does (a fresh copy of the stored object), and records every NodeClaim it stored (StaticCreated, same
// fields as Created, idx = position among the pool's new NodeClaims) plus one StaticPool event: objectChanged = the NodePool object
// handed to Reconcile differs afterwards (spec / labels / annotations), storedChanged = the pool stored in the API differs.
func (sim *Sim) staticStep(emit func(trace.M)) {
	for _, p := range sim.S.Pools {
		if p.Replicas <= 0 {
			continue
		}
		np := &v1.NodePool{ObjectMeta: metav1.ObjectMeta{Name: p.Name}}
		if !sim.W.Get(np) {
			continue
		}
		before := np.DeepCopy()
		known := map[string]bool{}
		ncs := &v1.NodeClaimList{}
		_ = sim.W.Client.List(sim.Ctx, ncs)
		for _, nc := range ncs.Items {
			known[nc.Name] = true
		}
		ctrl := staticprovisioning.NewController(sim.W.Client, sim.Cluster, sim.W.Rec, sim.W.Prov, sim.Prov, sim.W.Clock,
			deviceallocation.NewController(sim.W.Client), virtualpods.NewVirtualPodCache(sim.W.Client))
		errS, pan := "-", false
		func() {
			defer func() {
				if r := recover(); r != nil {
					pan = true
					emit(trace.M{"e": "Panic", "where": "StaticReconcile", "msg": trunc(fmt.Sprint(r), 200)})
				}
			}()
			if _, err := ctrl.Reconcile(sim.Ctx, np); err != nil {
				errS = trunc(err.Error(), 200)
			}
		}()
		_ = sim.W.Client.List(sim.Ctx, ncs)
		fresh := []v1.NodeClaim{}
		for _, nc := range ncs.Items {
			if !known[nc.Name] && nc.Labels[v1.NodePoolLabelKey] == p.Name {
				fresh = append(fresh, nc)
			}
		}
		sort.Slice(fresh, func(i, j int) bool { return fresh[i].Name < fresh[j].Name })
		for i := range fresh {
			ev := sim.CreatedEvent(i, &fresh[i])
			ev["e"] = "StaticCreated"
			emit(ev)
		}
		stored := &v1.NodePool{ObjectMeta: metav1.ObjectMeta{Name: p.Name}}
		storedChanged := !sim.W.Get(stored) || !samePool(before, stored)
		emit(trace.M{"e": "StaticPool", "pool": p.Name, "replicas": p.Replicas, "created": len(fresh), "err": errS, "panic": pan,
			"objectChanged": !samePool(before, np), "storedChanged": storedChanged})
	}
}

func samePool(a, b *v1.NodePool) bool {
	return equality.Semantic.DeepEqual(a.Spec, b.Spec) && equality.Semantic.DeepEqual(a.Labels, b.Labels) &&
		equality.Semantic.DeepEqual(a.Annotations, b.Annotations)
}
