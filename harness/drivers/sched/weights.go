package sched

import (
	"context"

	metav1 "k8s.io/apimachinery/pkg/apis/meta/v1"

	v1 "sigs.k8s.io/karpenter/pkg/apis/v1"

	"verif/harness/trace"
	"verif/harness/world"
)

// Extensions of the scheduling driver for C19 (NodePool weight / price ordering) and C13 (b)-(d)
// (the created NodeClaim vs the scheduler's decision).  Everything here is additive: three optional
// scenario fields on a pool and four extra fields on the Created event (spec/SCHED_TRACE.md).

const holdFinalizer = "verif.harness/hold"

// applyPoolExt: a pool that is not Ready (its NodeClass is not ready), a pool that will be deleted
// (needs a finalizer to stay visible) and a stored hash annotation (what the nodepool hash controller
// wrote at some earlier time - stale when it differs from Hash() of the current spec).
func applyPoolExt(np *v1.NodePool, p Pool) {
	if p.HashAnn != "" {
		if np.Annotations == nil {
			np.Annotations = map[string]string{}
		}
		np.Annotations[v1.NodePoolHashAnnotationKey] = p.HashAnn
		np.Annotations[v1.NodePoolHashVersionAnnotationKey] = v1.NodePoolHashVersion
	}
	if p.NotReady {
		np.StatusConditions().SetFalse(v1.ConditionTypeNodeClassReady, "NodeClassNotReady", "verif scenario: nodeclass not ready")
	}
	if p.Deleting {
		np.Finalizers = append(np.Finalizers, holdFinalizer)
	}
}

// deletePoolIfDeleting gives the stored pool a deletionTimestamp (the finalizer keeps it listed).
func deletePoolIfDeleting(w *world.World, p Pool) {
	if p.Deleting {
		_ = w.Client.Delete(world.WithActor(context.Background(), "env"), &v1.NodePool{ObjectMeta: metav1.ObjectMeta{Name: p.Name}})
	}
}

// createdExt adds to a Created event what the NodePool CURRENTLY stored in the API implies for the
// NodeClaim: expHash = Hash() of that pool, expHashVersion, and the nodeclass label (ncKey = ncVal).
// "-" when the pool is gone.
func (sim *Sim) createdExt(ev trace.M, nc *v1.NodeClaim) trace.M {
	ev["expHash"], ev["expHashVersion"], ev["ncKey"], ev["ncVal"] = "-", v1.NodePoolHashVersion, "-", "-"
	np := &v1.NodePool{ObjectMeta: metav1.ObjectMeta{Name: nc.Labels[v1.NodePoolLabelKey]}}
	if np.Name != "" && sim.W.Get(np) {
		ev["expHash"] = np.Hash()
		ref := np.Spec.Template.Spec.NodeClassRef
		ev["ncKey"], ev["ncVal"] = v1.NodeClassLabelKey(ref.GroupKind()), ref.Name
	}
	return ev
}
