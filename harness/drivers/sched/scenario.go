// Package sched is the scheduling driver: it materialises a scenario (catalog, NodePools, existing
// nodes, daemonsets, storage, pods, options) as API objects in the harness world, hydrates
// state.Cluster through the real informer controllers, runs the real Provisioner.Schedule
// (NewScheduler, Solve, TruncateInstanceTypes) and optionally CreateNodeClaims, and records a trace
// (Cfg, Hydrate, Sched* (hook H1), Results, Api/Created, End).  It only records; verdicts are TLC's.
//
// The scenario JSON schema, every event kind and every field are documented in spec/SCHED_TRACE.md.
package sched

import (
	"encoding/json"
	"sort"
)

// All label keys and values in a scenario are SHORT names; the driver maps keys to real label keys
// (KeyMap) and leaves values as they are.  Quantities: milli-CPU, MiB, pod counts, price in 1/1000.

// Expr is one node-selector expression.  Op: In NotIn Exists DoesNotExist Gt Lt.  For Gt/Lt the
// operand is N (Vals is ignored and logged empty).
type Expr struct {
	Key  string   `json:"key"`
	Op   string   `json:"op"`
	Vals []string `json:"vals"`
	N    int      `json:"n"`
}

// Pref is a preferred node-affinity term.
type Pref struct {
	Weight int    `json:"weight"`
	Exprs  []Expr `json:"exprs"`
}

// Tol is a toleration. Op: Exists | Equal. Effect "" = all effects. Key "" (with Exists) = all keys.
type Tol struct {
	Key    string `json:"key"`
	Op     string `json:"op"`
	Value  string `json:"value"`
	Effect string `json:"effect"`
}

// Taint: Effect NoSchedule | NoExecute | PreferNoSchedule.
type Taint struct {
	Key    string `json:"key"`
	Value  string `json:"value"`
	Effect string `json:"effect"`
	// TimeAdded: the taint carries a timeAdded stamp (as the node lifecycle controller sets on NoExecute taints).
	TimeAdded bool `json:"timeAdded"`
}

// Port is a host port. IP "" = 0.0.0.0; Proto TCP|UDP.
type Port struct {
	Port  int    `json:"port"`
	IP    string `json:"ip"`
	Proto string `json:"proto"`
}

// PodTerm is a pod (anti)affinity term: topology key (short), matchLabels selector, namespaces.
// NsAll = namespaceSelector {} (all namespaces).  Weight is used by preferred terms only.
type PodTerm struct {
	Key    string            `json:"key"`
	Sel    map[string]string `json:"sel"`
	Ns     []string          `json:"ns"`
	NsAll  bool              `json:"nsAll"`
	Weight int               `json:"weight"`
	NsSel  map[string]string `json:"nsSel"` // C02: namespaceSelector matchLabels (non-empty, or NsAll = {}); see topo.go
}

// Spread is a topology spread constraint. When: DoNotSchedule | ScheduleAnyway.
// AffPol / TaintPol: "" (default) | Honor | Ignore.
type Spread struct {
	Key        string            `json:"key"`
	MaxSkew    int               `json:"maxSkew"`
	MinDomains int               `json:"minDomains"` // 0 = unset
	When       string            `json:"when"`
	Sel        map[string]string `json:"sel"`
	AffPol     string            `json:"affPol"`
	TaintPol   string            `json:"taintPol"`
	MatchKeys  []string          `json:"matchKeys"`
}

// Pod: a pending pod (Node == "") or a pod bound to an existing node (Node = its name).
// Owner: "" | "rs" (ReplicaSet) | "ds:<daemonset name>" | "node" (static pod).
type Pod struct {
	Name     string            `json:"name"`
	Ns       string            `json:"ns"`
	Node     string            `json:"node"`
	Owner    string            `json:"owner"`
	CPU      int               `json:"cpu"`
	Mem      int               `json:"mem"`
	Created  int               `json:"created"` // seconds since epoch (queue tie-break)
	Labels   map[string]string `json:"labels"`
	Sel      map[string]string `json:"sel"`   // nodeSelector
	Terms    [][]Expr          `json:"terms"` // required node affinity, OR of AND
	Pref     []Pref            `json:"pref"`
	Tol      []Tol             `json:"tol"`
	Ports    []Port            `json:"ports"`
	Vols     []string          `json:"vols"` // PVC names in the pod's namespace
	Aff      []PodTerm         `json:"aff"`
	Anti     []PodTerm         `json:"anti"`
	PrefAff  []PodTerm         `json:"prefAff"`
	PrefAnti []PodTerm         `json:"prefAnti"`
	Spread   []Spread          `json:"spread"`
	// C02 additions (topo.go): a bound pod with a deletionTimestamp / a terminal phase ("" = Running|Pending, Succeeded, Failed)
	Terminating bool   `json:"terminating"`
	Phase       string `json:"phase"`
}

// Res is a resource triple (0 = absent for limits).
type Res struct {
	CPU  int `json:"cpu"`
	Mem  int `json:"mem"`
	Pods int `json:"pods"`
}

type Offering struct {
	Zone      string `json:"zone"`
	Ct        string `json:"ct"`
	Price     int    `json:"price"`
	Available bool   `json:"available"`
	Rid       string `json:"rid"`  // "" = none
	Rcap      int    `json:"rcap"` // reservation capacity
	CPUOv     int    `json:"cpuOv"`
	MemOv     int    `json:"memOv"`  // capacity overrides (0 = none)
	PodsOv    int    `json:"podsOv"` // capacity override of the pods resource (0 = none)
	OhCPU     int    `json:"ohCpu"`  // OVERHEAD override: replaces the type's total cpu overhead for this offering (0 = none)
	OhMem     int    `json:"ohMem"`  // overhead override for memory (0 = none)
}

// Type is an instance type. Labels: extra single-valued requirement labels (short keys; arch/os
// default to amd64/linux when absent). Ov*: kube-reserved overhead.
type Type struct {
	Name      string            `json:"name"`
	CPU       int               `json:"cpu"`
	Mem       int               `json:"mem"`
	Pods      int               `json:"pods"`
	Labels    map[string]string `json:"labels"`
	OvCPU     int               `json:"ovCpu"`
	OvMem     int               `json:"ovMem"`
	Offerings []Offering        `json:"offerings"`
}

// PoolReq is a NodePool requirement with optional minValues (0 = none).
type PoolReq struct {
	Key  string   `json:"key"`
	Op   string   `json:"op"`
	Vals []string `json:"vals"`
	N    int      `json:"n"`
	Min  int      `json:"min"`
}

// Limits: 0 = no limit on that resource; Nodes -1 = no node limit.
type Limits struct {
	CPU   int `json:"cpu"`
	Mem   int `json:"mem"`
	Nodes int `json:"nodes"`
}

// Pool is a (dynamic) NodePool. Weight 0 = unset. Types empty = whole catalog.
type Pool struct {
	Name    string            `json:"name"`
	Weight  int               `json:"weight"`
	Reqs    []PoolReq         `json:"reqs"`
	Labels  map[string]string `json:"labels"`
	Taints  []Taint           `json:"taints"`
	Startup []Taint           `json:"startup"`
	Limits  Limits            `json:"limits"`
	Types   []string          `json:"types"`
	// C19 / C13 extensions (weights.go): NotReady = the pool's Ready condition is False; Deleting = it carries a
	// deletionTimestamp; HashAnn = a (possibly stale) karpenter.sh/nodepool-hash annotation stored on the pool ("" none).
	NotReady bool   `json:"notReady"`
	Deleting bool   `json:"deleting"`
	HashAnn  string `json:"hashAnn"`
	// Replicas > 0: a STATIC NodePool (spec.replicas); the dynamic scheduler ignores it, the driver runs the real static provisioning
	// controller on it after the pass (StaticCreated / StaticPool events)
	Replicas int `json:"replicas"`
}

type CSILimit struct {
	Driver string `json:"driver"`
	Count  int    `json:"count"`
}

// Node is an existing node.  Stage:
//
//	unmanaged   Node without NodeClaim
//	initialized NodeClaim (Launched, Registered, Initialized) + Node with registered/initialized labels
//	registered  NodeClaim (Launched, Registered) + Node with registered label (startup/ephemeral taints may remain)
//	appeared    NodeClaim (Launched) + Node that has not been registered yet (unregistered taint, no labels synced)
//	claimonly   NodeClaim (Launched, provider id) and no Node
//
// Labels are the labels Kubernetes would show on the (future) node, short keys, without hostname
// (hostname = Name).  Taints are the persistent taints; Startup the startup taints (present on the
// Node object while not initialized); Ephemeral adds node.kubernetes.io/not-ready:NoSchedule while
// not initialized.  Marked = cluster.MarkForDeletion; Deleting = NodeClaim/Node has a deletionTimestamp.
type Node struct {
	Name      string            `json:"name"`
	Stage     string            `json:"stage"`
	Pool      string            `json:"pool"`
	Labels    map[string]string `json:"labels"`
	Taints    []Taint           `json:"taints"`
	Startup   []Taint           `json:"startup"`
	Ephemeral bool              `json:"ephemeral"`
	Alloc     Res               `json:"alloc"`
	Cap       Res               `json:"cap"`
	Marked    bool              `json:"marked"`
	Deleting  bool              `json:"deleting"`
	CSI       []CSILimit        `json:"csi"`
	// NoHost: the Node object lacks the kubernetes.io/hostname label (C18: the kubelet has not set it yet / it was removed)
	NoHost bool `json:"noHost,omitempty"`
	// NodeTaints are taints present on the Node object only (acquired after launch: node.kubernetes.io/not-ready,
	// unreachable, readiness.k8s.io/* rules, ...), not in the NodeClaim's spec.  Ignored for claimonly.
	NodeTaints []Taint `json:"nodeTaints"`
}

// DS is a daemonset (pod template).
type DS struct {
	Name  string            `json:"name"`
	Ns    string            `json:"ns"`
	CPU   int               `json:"cpu"`
	Mem   int               `json:"mem"`
	Sel   map[string]string `json:"sel"`
	Terms [][]Expr          `json:"terms"`
	Tol   []Tol             `json:"tol"`
	Ports []Port            `json:"ports"`
}

// TopoExpr is one matchLabelExpression of a StorageClass allowedTopologies term.
type TopoExpr struct {
	Key  string   `json:"key"`
	Vals []string `json:"vals"`
}

// SC: Mode WaitForFirstConsumer | Immediate. Topologies: OR of AND.
type SC struct {
	Name        string       `json:"name"`
	Provisioner string       `json:"provisioner"`
	Mode        string       `json:"mode"`
	Topologies  [][]TopoExpr `json:"topologies"`
}

// PV: CSI driver name ("" = not CSI) and required node-affinity terms (OR of AND).
type PV struct {
	Name   string   `json:"name"`
	Driver string   `json:"driver"`
	Terms  [][]Expr `json:"terms"`
}

// PVC: bound to PV (PV != "") or unbound with a StorageClass.
type PVC struct {
	Name string `json:"name"`
	Ns   string `json:"ns"`
	PV   string `json:"pv"`
	SC   string `json:"sc"`
}

// Options of one scheduling run.
type Options struct {
	Preference string `json:"preference"` // Respect | Ignore
	MinValues  string `json:"minValues"`  // Strict | BestEffort
	Reserved   string `json:"reserved"`   // strict (Provisioner.Schedule) | fallback (NewScheduler+Solve without DisableReservedCapacityFallback)
	Workers    int    `json:"workers"`    // candidate-evaluation parallelism (options.CPURequests = Workers*1000)
	MaxTypes   int    `json:"maxTypes"`   // scheduling.MaxInstanceTypes (0 = default 600)
	Create     bool   `json:"create"`     // also run CreateNodeClaims
	// DeadlineAfter k > 0: the context handed to Provisioner.Schedule expires (DeadlineExceeded) right after the k-th pod was placed
	// (hook H1 commit / open) - the Solve timeout firing in the middle of a batch, deterministically
	DeadlineAfter int `json:"deadlineAfter"`
}

// Scenario is the driver input and (normalised) the Cfg line of the trace.
type Scenario struct {
	Name     string              `json:"name"`
	Universe map[string][]string `json:"universe"` // short key -> every value used anywhere + one fresh value
	Unum     map[string][]int    `json:"unum"`     // short key -> integer value of each universe value (NoInt = -1000)
	Options  Options             `json:"options"`
	Types    []Type              `json:"types"`
	Pools    []Pool              `json:"pools"`
	Nodes    []Node              `json:"nodes"`
	DS       []DS                `json:"ds"`
	SCs      []SC                `json:"scs"`
	PVs      []PV                `json:"pvs"`
	PVCs     []PVC               `json:"pvcs"`
	Pods     []Pod               `json:"pods"`
	Nss      []NS                `json:"nss"` // C02: namespaces with labels (completed by the driver: every namespace a pod lives in)
	DRA      *DRA                `json:"dra,omitempty"` // dynamic resource allocation (dra.go); absent = IgnoreDRARequests
	// Overlays (C18, x_frame.go): non-empty = NodeOverlay feature gate on, every component behind the overlay decorator, the
	// NodeOverlay objects appear (and the real nodeoverlay controller evaluates them) right before the provisioning pass
	Overlays []Overlay `json:"overlays,omitempty"`
}

// Overlay: a NodeOverlay. Reqs use short keys; Capacity: extended resource name -> quantity; Price / PriceAdjustment as in the API.
type Overlay struct {
	Name            string            `json:"name"`
	Weight          int               `json:"weight,omitempty"`
	Reqs            []Expr            `json:"reqs"`
	Price           string            `json:"price,omitempty"`
	PriceAdjustment string            `json:"priceAdjustment,omitempty"`
	Capacity        map[string]string `json:"capacity,omitempty"`
}

const NoInt = -1000

// ---------------------------------------------------------------- normalisation (no nil slices/maps)

func nzS(s []string) []string {
	if s == nil {
		return []string{}
	}
	return s
}
func nzM(m map[string]string) map[string]string {
	if m == nil {
		return map[string]string{}
	}
	return m
}
func nzE(e []Expr) []Expr {
	out := make([]Expr, 0, len(e))
	for _, x := range e {
		x.Vals = nzS(x.Vals)
		if x.Op == "Gt" || x.Op == "Lt" {
			x.Vals = []string{}
		}
		out = append(out, x)
	}
	return out
}
func nzT(t [][]Expr) [][]Expr {
	out := make([][]Expr, 0, len(t))
	for _, x := range t {
		out = append(out, nzE(x))
	}
	return out
}
func nzPT(t []PodTerm) []PodTerm {
	out := make([]PodTerm, 0, len(t))
	for _, x := range t {
		x.Sel = nzM(x.Sel)
		x.Ns = nzS(x.Ns)
		x.NsSel = nzM(x.NsSel)
		if len(x.NsSel) > 0 {
			x.NsAll = false
		}
		out = append(out, x)
	}
	return out
}
func nzTaints(t []Taint) []Taint {
	if t == nil {
		return []Taint{}
	}
	return t
}
func nzTol(t []Tol) []Tol {
	if t == nil {
		return []Tol{}
	}
	return t
}
func nzPorts(p []Port) []Port {
	out := make([]Port, 0, len(p))
	for _, x := range p {
		if x.Proto == "" {
			x.Proto = "TCP"
		}
		out = append(out, x)
	}
	return out
}

func (p *Pod) normalise() {
	if p.Ns == "" {
		p.Ns = "default"
	}
	p.Labels, p.Sel = nzM(p.Labels), nzM(p.Sel)
	p.Terms = nzT(p.Terms)
	pref := make([]Pref, 0, len(p.Pref))
	for _, x := range p.Pref {
		x.Exprs = nzE(x.Exprs)
		pref = append(pref, x)
	}
	p.Pref = pref
	p.Tol, p.Ports, p.Vols = nzTol(p.Tol), nzPorts(p.Ports), nzS(p.Vols)
	p.Aff, p.Anti, p.PrefAff, p.PrefAnti = nzPT(p.Aff), nzPT(p.Anti), nzPT(p.PrefAff), nzPT(p.PrefAnti)
	sp := make([]Spread, 0, len(p.Spread))
	for _, x := range p.Spread {
		x.Sel, x.MatchKeys = nzM(x.Sel), nzS(x.MatchKeys)
		if x.When == "" {
			x.When = "DoNotSchedule"
		}
		sp = append(sp, x)
	}
	p.Spread = sp
}

// Normalise fills defaults and replaces every nil slice/map so that the Cfg line has a fixed shape.
func (s *Scenario) Normalise() {
	if s.Options.Preference == "" {
		s.Options.Preference = "Respect"
	}
	if s.Options.MinValues == "" {
		s.Options.MinValues = "Strict"
	}
	if s.Options.Reserved == "" {
		s.Options.Reserved = "strict"
	}
	if s.Options.Workers <= 0 {
		s.Options.Workers = 1
	}
	if s.Types == nil {
		s.Types = []Type{}
	}
	for i := range s.Overlays {
		s.Overlays[i].Reqs = nzE(s.Overlays[i].Reqs)
	}
	for i := range s.Types {
		t := &s.Types[i]
		t.Labels = nzM(t.Labels)
		if t.Labels["arch"] == "" {
			t.Labels["arch"] = "amd64"
		}
		if t.Labels["os"] == "" {
			t.Labels["os"] = "linux"
		}
		if t.Pods == 0 {
			t.Pods = 110
		}
		if t.Offerings == nil {
			t.Offerings = []Offering{}
		}
	}
	if s.Pools == nil {
		s.Pools = []Pool{}
	}
	for i := range s.Pools {
		p := &s.Pools[i]
		p.Labels, p.Taints, p.Startup, p.Types = nzM(p.Labels), nzTaints(p.Taints), nzTaints(p.Startup), nzS(p.Types)
		reqs := make([]PoolReq, 0, len(p.Reqs))
		for _, r := range p.Reqs {
			r.Vals = nzS(r.Vals)
			if r.Op == "Gt" || r.Op == "Lt" {
				r.Vals = []string{}
			}
			reqs = append(reqs, r)
		}
		p.Reqs = reqs
		if p.Limits.Nodes == 0 {
			p.Limits.Nodes = -1
		}
	}
	if s.Nodes == nil {
		s.Nodes = []Node{}
	}
	for i := range s.Nodes {
		n := &s.Nodes[i]
		n.Labels, n.Taints, n.Startup = nzM(n.Labels), nzTaints(n.Taints), nzTaints(n.Startup)
		n.NodeTaints = nzTaints(n.NodeTaints)
		if n.CSI == nil {
			n.CSI = []CSILimit{}
		}
		if n.Alloc.Pods == 0 {
			n.Alloc.Pods = 110
		}
		if n.Cap == (Res{}) {
			n.Cap = n.Alloc
		}
	}
	if s.DS == nil {
		s.DS = []DS{}
	}
	for i := range s.DS {
		d := &s.DS[i]
		if d.Ns == "" {
			d.Ns = "kube-system"
		}
		d.Sel, d.Terms, d.Tol, d.Ports = nzM(d.Sel), nzT(d.Terms), nzTol(d.Tol), nzPorts(d.Ports)
	}
	if s.SCs == nil {
		s.SCs = []SC{}
	}
	for i := range s.SCs {
		c := &s.SCs[i]
		if c.Mode == "" {
			c.Mode = "WaitForFirstConsumer"
		}
		tt := make([][]TopoExpr, 0, len(c.Topologies))
		for _, t := range c.Topologies {
			te := make([]TopoExpr, 0, len(t))
			for _, e := range t {
				e.Vals = nzS(e.Vals)
				te = append(te, e)
			}
			tt = append(tt, te)
		}
		c.Topologies = tt
	}
	if s.PVs == nil {
		s.PVs = []PV{}
	}
	for i := range s.PVs {
		s.PVs[i].Terms = nzT(s.PVs[i].Terms)
	}
	if s.PVCs == nil {
		s.PVCs = []PVC{}
	}
	for i := range s.PVCs {
		if s.PVCs[i].Ns == "" {
			s.PVCs[i].Ns = "default"
		}
	}
	if s.Pods == nil {
		s.Pods = []Pod{}
	}
	for i := range s.Pods {
		s.Pods[i].normalise()
	}
	s.completeNamespaces()
	if s.DRA != nil {
		s.DRA.normalise()
	}
	s.completeUniverse()
}

// completeUniverse makes sure every key/value the scenario mentions is in the universe (generators
// normally supply it; hand-written scenarios may omit it), appends one fresh value "~" per key and
// derives Unum.  The order of generator-supplied values is kept.
func (s *Scenario) completeUniverse() {
	if s.Universe == nil {
		s.Universe = map[string][]string{}
	}
	add := func(k string, vs ...string) {
		if k == "" {
			return
		}
		cur := s.Universe[k]
		if cur == nil {
			cur = []string{}
		}
		for _, v := range vs {
			found := false
			for _, c := range cur {
				if c == v {
					found = true
				}
			}
			if !found {
				cur = append(cur, v)
			}
		}
		s.Universe[k] = cur
	}
	addM := func(m map[string]string) {
		ks := make([]string, 0, len(m))
		for k := range m {
			ks = append(ks, k)
		}
		sort.Strings(ks)
		for _, k := range ks {
			add(k, m[k])
		}
	}
	addE := func(es []Expr) {
		for _, e := range es {
			add(e.Key, e.Vals...)
		}
	}
	for _, k := range []string{"zone", "ct", "it", "arch", "os", "pool", "host", "rid"} {
		add(k)
	}
	for _, t := range s.Types {
		add("it", t.Name)
		addM(t.Labels)
		for _, o := range t.Offerings {
			add("zone", o.Zone)
			add("ct", o.Ct)
			if o.Rid != "" {
				add("rid", o.Rid)
			}
		}
	}
	for _, p := range s.Pools {
		add("pool", p.Name)
		addM(p.Labels)
		for _, r := range p.Reqs {
			add(r.Key, r.Vals...)
		}
	}
	for _, n := range s.Nodes {
		add("host", n.Name)
		addM(n.Labels)
	}
	for _, d := range s.DS {
		addM(d.Sel)
		for _, t := range d.Terms {
			addE(t)
		}
	}
	for _, c := range s.SCs {
		for _, t := range c.Topologies {
			for _, e := range t {
				add(e.Key, e.Vals...)
			}
		}
	}
	for _, v := range s.PVs {
		for _, t := range v.Terms {
			addE(t)
		}
	}
	for _, p := range s.Pods {
		addM(p.Sel)
		for _, t := range p.Terms {
			addE(t)
		}
		for _, pr := range p.Pref {
			addE(pr.Exprs)
		}
		for _, t := range append(append(append(append([]PodTerm{}, p.Aff...), p.Anti...), p.PrefAff...), p.PrefAnti...) {
			add(t.Key)
		}
		for _, sp := range p.Spread {
			add(sp.Key)
		}
	}
	s.Unum = map[string][]int{}
	for k := range s.Universe {
		add(k, "~")
		nums := make([]int, len(s.Universe[k]))
		for i, v := range s.Universe[k] {
			nums[i] = atoiOr(v, NoInt)
		}
		s.Unum[k] = nums
	}
}

func atoiOr(s string, def int) int {
	if s == "" {
		return def
	}
	n, neg := 0, false
	for i, c := range s {
		if i == 0 && c == '-' {
			neg = true
			continue
		}
		if c < '0' || c > '9' {
			return def
		}
		n = n*10 + int(c-'0')
		if n > 1<<20 {
			return def
		}
	}
	if neg {
		n = -n
	}
	return n
}

// ToM converts any JSON-marshalable value into the generic map/slice form the trace writer takes.
func ToM(v any) map[string]any {
	b, err := json.Marshal(v)
	if err != nil {
		panic(err)
	}
	out := map[string]any{}
	if err := json.Unmarshal(b, &out); err != nil {
		panic(err)
	}
	return out
}
