//go:build !verif_h1

package sched

import "verif/harness/trace"

// Built against a tree without hook H1 (repo-patches/hook-H1.patch): no Sched events.
const hookAvailable = false

func installHook(sim *Sim, emit func(trace.M)) {}
func removeHook()                              {}
