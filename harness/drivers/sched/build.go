package sched

import (
	"fmt"
	"sort"
	"strconv"
	"time"

	"github.com/awslabs/operatorpkg/status"
	"github.com/samber/lo"
	appsv1 "k8s.io/api/apps/v1"
	corev1 "k8s.io/api/core/v1"
	storagev1 "k8s.io/api/storage/v1"
	"k8s.io/apimachinery/pkg/api/resource"
	metav1 "k8s.io/apimachinery/pkg/apis/meta/v1"
	"k8s.io/component-helpers/storage/volume"

	v1 "sigs.k8s.io/karpenter/pkg/apis/v1"
	"sigs.k8s.io/karpenter/pkg/cloudprovider"
	"sigs.k8s.io/karpenter/pkg/scheduling"
	"sigs.k8s.io/karpenter/pkg/test/v1alpha1"

	"verif/harness/world"
)

// GenLabel is a provider-specific well-known integer label ("gen") carried by instance types.
const GenLabel = "verif.example/gen"

// CustomPrefix is the domain of custom (user-defined, not well-known) label keys.
const CustomPrefix = "example.com/"

func init() {
	v1.WellKnownLabels = v1.WellKnownLabels.Insert(GenLabel)
}

// KeyMap maps the short key names of scenarios to real label keys; any other short key k is the
// custom label example.com/k.
var KeyMap = map[string]string{
	"zone": corev1.LabelTopologyZone,
	"ct":   v1.CapacityTypeLabelKey,
	"it":   corev1.LabelInstanceTypeStable,
	"arch": corev1.LabelArchStable,
	"os":   corev1.LabelOSStable,
	"pool": v1.NodePoolLabelKey,
	"host": corev1.LabelHostname,
	"rid":  v1alpha1.LabelReservationID,
	"gen":  GenLabel,
}

var revKey = func() map[string]string {
	m := map[string]string{}
	for k, v := range KeyMap {
		m[v] = k
	}
	return m
}()

// Key returns the real label key of a short key.
func Key(short string) string {
	if k, ok := KeyMap[short]; ok {
		return k
	}
	return CustomPrefix + short
}

// Short returns the short name of a real label key ("" when it has none).
func Short(key string) string {
	if s, ok := revKey[key]; ok {
		return s
	}
	if len(key) > len(CustomPrefix) && key[:len(CustomPrefix)] == CustomPrefix {
		return key[len(CustomPrefix):]
	}
	return ""
}

func labelsOf(m map[string]string) map[string]string {
	out := map[string]string{}
	for k, v := range m {
		out[Key(k)] = v
	}
	return out
}

func rl(cpu, mem, pods int) corev1.ResourceList {
	out := corev1.ResourceList{}
	if cpu > 0 {
		out[corev1.ResourceCPU] = *resource.NewMilliQuantity(int64(cpu), resource.DecimalSI)
	}
	if mem > 0 {
		out[corev1.ResourceMemory] = *resource.NewQuantity(int64(mem)<<20, resource.BinarySI)
	}
	if pods > 0 {
		out[corev1.ResourcePods] = *resource.NewQuantity(int64(pods), resource.DecimalSI)
	}
	return out
}

func nsr(e Expr) corev1.NodeSelectorRequirement {
	r := corev1.NodeSelectorRequirement{Key: Key(e.Key), Operator: corev1.NodeSelectorOperator(e.Op), Values: append([]string{}, e.Vals...)}
	if e.Op == "Gt" || e.Op == "Lt" {
		r.Values = []string{strconv.Itoa(e.N)}
	}
	if e.Op == "Exists" || e.Op == "DoesNotExist" {
		r.Values = nil
	}
	return r
}

func nsTerms(ts [][]Expr) []corev1.NodeSelectorTerm {
	var out []corev1.NodeSelectorTerm
	for _, t := range ts {
		term := corev1.NodeSelectorTerm{}
		for _, e := range t {
			term.MatchExpressions = append(term.MatchExpressions, nsr(e))
		}
		out = append(out, term)
	}
	return out
}

func tolerations(ts []Tol) []corev1.Toleration {
	var out []corev1.Toleration
	for _, t := range ts {
		out = append(out, corev1.Toleration{Key: t.Key, Operator: corev1.TolerationOperator(t.Op), Value: t.Value, Effect: corev1.TaintEffect(t.Effect)})
	}
	return out
}

func taints(ts []Taint) []corev1.Taint {
	var out []corev1.Taint
	for _, t := range ts {
		x := corev1.Taint{Key: t.Key, Value: t.Value, Effect: corev1.TaintEffect(t.Effect)}
		if t.TimeAdded {
			x.TimeAdded = &metav1.Time{Time: world.Epoch}
		}
		out = append(out, x)
	}
	return out
}

func podAffTerm(t PodTerm) corev1.PodAffinityTerm {
	out := corev1.PodAffinityTerm{TopologyKey: Key(t.Key), LabelSelector: &metav1.LabelSelector{MatchLabels: t.Sel},
		Namespaces: append([]string{}, t.Ns...)}
	if len(t.Ns) == 0 {
		out.Namespaces = nil
	}
	if t.NsAll || len(t.NsSel) > 0 {
		out.NamespaceSelector = &metav1.LabelSelector{MatchLabels: t.NsSel}
	}
	return out
}

func containerPorts(ps []Port) []corev1.ContainerPort {
	var out []corev1.ContainerPort
	for _, p := range ps {
		out = append(out, corev1.ContainerPort{HostPort: int32(p.Port), ContainerPort: int32(p.Port), HostIP: p.IP, Protocol: corev1.Protocol(p.Proto)})
	}
	return out
}

// podSpec builds the PodSpec shared by pods and daemonset templates.
func podSpec(cpu, mem int, sel map[string]string, terms [][]Expr, tol []Tol, ports []Port) corev1.PodSpec {
	spec := corev1.PodSpec{
		NodeSelector: labelsOf(sel),
		Tolerations:  tolerations(tol),
		Containers: []corev1.Container{{Name: "c", Image: "i", Ports: containerPorts(ports),
			Resources: corev1.ResourceRequirements{Requests: rl(cpu, mem, 0)}}},
	}
	if len(sel) == 0 {
		spec.NodeSelector = nil
	}
	if len(terms) > 0 {
		spec.Affinity = &corev1.Affinity{NodeAffinity: &corev1.NodeAffinity{
			RequiredDuringSchedulingIgnoredDuringExecution: &corev1.NodeSelector{NodeSelectorTerms: nsTerms(terms)}}}
	}
	return spec
}

// BuildPod turns a scenario pod into the API object. dsUID resolves "ds:<name>" owners.
func BuildPod(p Pod, dsUID map[string]metav1.OwnerReference) *corev1.Pod {
	spec := podSpec(p.CPU, p.Mem, p.Sel, p.Terms, p.Tol, p.Ports)
	spec.NodeName = p.Node
	aff := spec.Affinity
	ensure := func() *corev1.Affinity {
		if aff == nil {
			aff = &corev1.Affinity{}
		}
		return aff
	}
	if len(p.Pref) > 0 {
		a := ensure()
		if a.NodeAffinity == nil {
			a.NodeAffinity = &corev1.NodeAffinity{}
		}
		for _, pr := range p.Pref {
			term := corev1.NodeSelectorTerm{}
			for _, e := range pr.Exprs {
				term.MatchExpressions = append(term.MatchExpressions, nsr(e))
			}
			a.NodeAffinity.PreferredDuringSchedulingIgnoredDuringExecution = append(a.NodeAffinity.PreferredDuringSchedulingIgnoredDuringExecution,
				corev1.PreferredSchedulingTerm{Weight: int32(pr.Weight), Preference: term})
		}
	}
	if len(p.Aff)+len(p.PrefAff) > 0 {
		a := ensure()
		a.PodAffinity = &corev1.PodAffinity{}
		for _, t := range p.Aff {
			a.PodAffinity.RequiredDuringSchedulingIgnoredDuringExecution = append(a.PodAffinity.RequiredDuringSchedulingIgnoredDuringExecution, podAffTerm(t))
		}
		for _, t := range p.PrefAff {
			a.PodAffinity.PreferredDuringSchedulingIgnoredDuringExecution = append(a.PodAffinity.PreferredDuringSchedulingIgnoredDuringExecution,
				corev1.WeightedPodAffinityTerm{Weight: int32(t.Weight), PodAffinityTerm: podAffTerm(t)})
		}
	}
	if len(p.Anti)+len(p.PrefAnti) > 0 {
		a := ensure()
		a.PodAntiAffinity = &corev1.PodAntiAffinity{}
		for _, t := range p.Anti {
			a.PodAntiAffinity.RequiredDuringSchedulingIgnoredDuringExecution = append(a.PodAntiAffinity.RequiredDuringSchedulingIgnoredDuringExecution, podAffTerm(t))
		}
		for _, t := range p.PrefAnti {
			a.PodAntiAffinity.PreferredDuringSchedulingIgnoredDuringExecution = append(a.PodAntiAffinity.PreferredDuringSchedulingIgnoredDuringExecution,
				corev1.WeightedPodAffinityTerm{Weight: int32(t.Weight), PodAffinityTerm: podAffTerm(t)})
		}
	}
	spec.Affinity = aff
	for _, s := range p.Spread {
		c := corev1.TopologySpreadConstraint{TopologyKey: Key(s.Key), MaxSkew: int32(s.MaxSkew),
			WhenUnsatisfiable: corev1.UnsatisfiableConstraintAction(s.When), LabelSelector: &metav1.LabelSelector{MatchLabels: s.Sel},
			MatchLabelKeys: append([]string{}, s.MatchKeys...)}
		if len(s.MatchKeys) == 0 {
			c.MatchLabelKeys = nil
		}
		if s.MinDomains > 0 {
			c.MinDomains = lo.ToPtr(int32(s.MinDomains))
		}
		if s.AffPol != "" {
			c.NodeAffinityPolicy = lo.ToPtr(corev1.NodeInclusionPolicy(s.AffPol))
		}
		if s.TaintPol != "" {
			c.NodeTaintsPolicy = lo.ToPtr(corev1.NodeInclusionPolicy(s.TaintPol))
		}
		spec.TopologySpreadConstraints = append(spec.TopologySpreadConstraints, c)
	}
	for _, v := range p.Vols {
		spec.Volumes = append(spec.Volumes, corev1.Volume{Name: "v-" + v, VolumeSource: corev1.VolumeSource{
			PersistentVolumeClaim: &corev1.PersistentVolumeClaimVolumeSource{ClaimName: v}}})
	}
	pod := &corev1.Pod{
		ObjectMeta: metav1.ObjectMeta{Name: p.Name, Namespace: p.Ns, Labels: p.Labels,
			CreationTimestamp: metav1.NewTime(world.Epoch.Add(time.Duration(p.Created) * time.Second))},
		Spec: spec,
	}
	if p.Node == "" {
		pod.Status.Phase = corev1.PodPending
		pod.Status.Conditions = []corev1.PodCondition{{Type: corev1.PodScheduled, Status: corev1.ConditionFalse, Reason: corev1.PodReasonUnschedulable}}
	} else {
		pod.Status.Phase = corev1.PodRunning
		pod.Status.Conditions = []corev1.PodCondition{{Type: corev1.PodScheduled, Status: corev1.ConditionTrue}}
	}
	switch {
	case p.Owner == "rs":
		pod.OwnerReferences = []metav1.OwnerReference{{APIVersion: "apps/v1", Kind: "ReplicaSet", Name: "rs-" + p.Name, UID: "rs-uid-" + "x",
			Controller: lo.ToPtr(true), BlockOwnerDeletion: lo.ToPtr(true)}}
	case p.Owner == "node":
		pod.OwnerReferences = []metav1.OwnerReference{{APIVersion: "v1", Kind: "Node", Name: p.Node, UID: "node-uid", Controller: lo.ToPtr(true)}}
	case len(p.Owner) > 3 && p.Owner[:3] == "ds:":
		if ref, ok := dsUID[p.Owner[3:]]; ok {
			pod.OwnerReferences = []metav1.OwnerReference{ref}
		}
	}
	return pod
}

func BuildDaemonSet(d DS) *appsv1.DaemonSet {
	lbl := map[string]string{"ds": d.Name}
	return &appsv1.DaemonSet{
		ObjectMeta: metav1.ObjectMeta{Name: d.Name, Namespace: d.Ns},
		Spec: appsv1.DaemonSetSpec{
			Selector: &metav1.LabelSelector{MatchLabels: lbl},
			Template: corev1.PodTemplateSpec{ObjectMeta: metav1.ObjectMeta{Labels: lbl},
				Spec: podSpec(d.CPU, d.Mem, d.Sel, d.Terms, d.Tol, d.Ports)},
		},
	}
}

// BuildType builds a cloudprovider.InstanceType from the scenario (own builder: memory/pods
// overrides and arbitrary single-valued labels, which world.MakeType does not offer).
func BuildType(t Type) *cloudprovider.InstanceType {
	zones, cts := []string{}, []string{}
	var offs cloudprovider.Offerings
	for _, o := range t.Offerings {
		zones, cts = append(zones, o.Zone), append(cts, o.Ct)
		reqs := scheduling.NewRequirements(
			scheduling.NewRequirement(v1.CapacityTypeLabelKey, corev1.NodeSelectorOpIn, o.Ct),
			scheduling.NewRequirement(corev1.LabelTopologyZone, corev1.NodeSelectorOpIn, o.Zone),
		)
		if o.Rid != "" {
			reqs.Add(scheduling.NewRequirement(v1alpha1.LabelReservationID, corev1.NodeSelectorOpIn, o.Rid))
		}
		off := &cloudprovider.Offering{Requirements: reqs, Price: float64(o.Price) / 1000.0, Available: o.Available, ReservationCapacity: o.Rcap}
		if o.CPUOv > 0 || o.MemOv > 0 || o.PodsOv > 0 {
			off.CapacityOverride = rl(o.CPUOv, o.MemOv, o.PodsOv)
		}
		if o.OhCPU > 0 || o.OhMem > 0 {
			// deliberately spread over other overhead categories than the base (KubeReserved): only the totals matter
			off.OverheadOverride = &cloudprovider.InstanceTypeOverhead{SystemReserved: rl(o.OhCPU, 0, 0), EvictionThreshold: rl(0, o.OhMem, 0)}
		}
		offs = append(offs, off)
	}
	reqs := scheduling.NewRequirements(
		scheduling.NewRequirement(corev1.LabelInstanceTypeStable, corev1.NodeSelectorOpIn, t.Name),
		scheduling.NewRequirement(corev1.LabelTopologyZone, corev1.NodeSelectorOpIn, lo.Uniq(zones)...),
		scheduling.NewRequirement(v1.CapacityTypeLabelKey, corev1.NodeSelectorOpIn, lo.Uniq(cts)...),
	)
	keys := lo.Keys(t.Labels)
	sort.Strings(keys)
	for _, k := range keys {
		reqs.Add(scheduling.NewRequirement(Key(k), corev1.NodeSelectorOpIn, t.Labels[k]))
	}
	it := &cloudprovider.InstanceType{Name: t.Name, Requirements: reqs, Offerings: offs, Capacity: rl(t.CPU, t.Mem, t.Pods),
		Overhead: &cloudprovider.InstanceTypeOverhead{}}
	if t.OvCPU > 0 || t.OvMem > 0 {
		it.Overhead.KubeReserved = rl(t.OvCPU, t.OvMem, 0)
	}
	return it
}

func BuildPool(p Pool) *v1.NodePool {
	np := world.NodePool(p.Name)
	if p.Weight > 0 {
		np.Spec.Weight = lo.ToPtr(int32(p.Weight))
	}
	for _, r := range p.Reqs {
		req := v1.NodeSelectorRequirementWithMinValues{Key: Key(r.Key), Operator: corev1.NodeSelectorOperator(r.Op), Values: append([]string{}, r.Vals...)}
		if r.Op == "Gt" || r.Op == "Lt" {
			req.Values = []string{strconv.Itoa(r.N)}
		}
		if r.Op == "Exists" || r.Op == "DoesNotExist" {
			req.Values = nil
		}
		if r.Min > 0 {
			req.MinValues = lo.ToPtr(r.Min)
		}
		np.Spec.Template.Spec.Requirements = append(np.Spec.Template.Spec.Requirements, req)
	}
	if len(p.Labels) > 0 {
		np.Spec.Template.Labels = labelsOf(p.Labels)
	}
	np.Spec.Template.Spec.Taints = taints(p.Taints)
	np.Spec.Template.Spec.StartupTaints = taints(p.Startup)
	lim := corev1.ResourceList{}
	if p.Limits.CPU > 0 {
		lim[corev1.ResourceCPU] = *resource.NewMilliQuantity(int64(p.Limits.CPU), resource.DecimalSI)
	}
	if p.Limits.Mem > 0 {
		lim[corev1.ResourceMemory] = *resource.NewQuantity(int64(p.Limits.Mem)<<20, resource.BinarySI)
	}
	if p.Limits.Nodes >= 0 {
		lim[corev1.ResourceName("nodes")] = *resource.NewQuantity(int64(p.Limits.Nodes), resource.DecimalSI)
	}
	if len(lim) > 0 {
		np.Spec.Limits = v1.Limits(lim)
	}
	np.StatusConditions().SetTrue(v1.ConditionTypeValidationSucceeded)
	np.StatusConditions().SetTrue(v1.ConditionTypeNodeClassReady)
	np.StatusConditions().SetTrue(status.ConditionReady)
	applyPoolExt(np, p)
	return np
}

// ProviderID of an existing node of the scenario.
func ProviderID(n Node) string { return "verif://existing/" + n.Name }

// BuildNode returns the NodeClaim (nil for unmanaged) and Node (nil for claimonly) of an existing node.
func BuildNode(n Node, pool *v1.NodePool, now time.Time) (*v1.NodeClaim, *corev1.Node) {
	full := labelsOf(n.Labels)
	var nc *v1.NodeClaim
	if n.Stage != "unmanaged" {
		nc = world.NodeClaim("nc-"+n.Name, pool)
		nc.Labels = lo.Assign(full, nc.Labels)
		if pool != nil {
			nc.Labels[v1.NodeClassLabelKey(pool.Spec.Template.Spec.NodeClassRef.GroupKind())] = pool.Spec.Template.Spec.NodeClassRef.Name
		}
		nc.Spec.Taints = taints(n.Taints)
		nc.Spec.StartupTaints = taints(n.Startup)
		nc.Spec.Resources.Requests = rl(100, 64, 0)
		for k, val := range full {
			if k == v1.NodePoolLabelKey {
				continue
			}
			nc.Spec.Requirements = append(nc.Spec.Requirements, v1.NodeSelectorRequirementWithMinValues{Key: k, Operator: corev1.NodeSelectorOpIn, Values: []string{val}})
		}
		sort.Slice(nc.Spec.Requirements, func(i, j int) bool { return nc.Spec.Requirements[i].Key < nc.Spec.Requirements[j].Key })
		nc.Finalizers = []string{v1.TerminationFinalizer}
		nc.Status.ProviderID = ProviderID(n)
		nc.Status.Capacity = rl(n.Cap.CPU, n.Cap.Mem, n.Cap.Pods)
		nc.Status.Allocatable = rl(n.Alloc.CPU, n.Alloc.Mem, n.Alloc.Pods)
		nc.StatusConditions().SetTrue(v1.ConditionTypeLaunched)
		switch n.Stage {
		case "initialized":
			nc.StatusConditions().SetTrue(v1.ConditionTypeRegistered)
			nc.StatusConditions().SetTrue(v1.ConditionTypeInitialized)
			nc.Status.NodeName = n.Name
		case "registered":
			nc.StatusConditions().SetTrue(v1.ConditionTypeRegistered)
			nc.StatusConditions().SetUnknown(v1.ConditionTypeInitialized)
			nc.Status.NodeName = n.Name
		default:
			nc.StatusConditions().SetUnknown(v1.ConditionTypeRegistered)
			nc.StatusConditions().SetUnknown(v1.ConditionTypeInitialized)
		}
	}
	if n.Stage == "claimonly" {
		return nc, nil
	}
	node := &corev1.Node{
		ObjectMeta: metav1.ObjectMeta{Name: n.Name, Labels: lo.Assign(full, map[string]string{corev1.LabelHostname: n.Name})},
		Spec:       corev1.NodeSpec{ProviderID: ProviderID(n), Taints: append(taints(n.Taints), taints(n.NodeTaints)...)},
		Status: corev1.NodeStatus{Capacity: rl(n.Cap.CPU, n.Cap.Mem, n.Cap.Pods), Allocatable: rl(n.Alloc.CPU, n.Alloc.Mem, n.Alloc.Pods)},
	}
	world.SetNodeReady(node, true, now)
	if n.NoHost { // C18
		defer func() { delete(node.Labels, corev1.LabelHostname) }()
	}
	switch n.Stage {
	case "initialized":
		node.Labels[v1.NodeRegisteredLabelKey] = "true"
		node.Labels[v1.NodeInitializedLabelKey] = "true"
		node.Finalizers = []string{v1.TerminationFinalizer}
	case "registered":
		node.Labels[v1.NodeRegisteredLabelKey] = "true"
		node.Finalizers = []string{v1.TerminationFinalizer}
		node.Spec.Taints = append(node.Spec.Taints, taints(n.Startup)...)
		if n.Ephemeral {
			node.Spec.Taints = append(node.Spec.Taints, corev1.Taint{Key: corev1.TaintNodeNotReady, Effect: corev1.TaintEffectNoSchedule})
		}
	case "appeared":
		// the kubelet registered the node, Karpenter has not synced labels/taints yet
		node.Labels = map[string]string{corev1.LabelHostname: n.Name}
		node.Spec.Taints = append([]corev1.Taint{v1.UnregisteredNoExecuteTaint}, taints(n.Startup)...)
		if n.Ephemeral {
			node.Spec.Taints = append(node.Spec.Taints, corev1.Taint{Key: corev1.TaintNodeNotReady, Effect: corev1.TaintEffectNoSchedule})
		}
	}
	return nc, node
}

func BuildSC(c SC) *storagev1.StorageClass {
	sc := &storagev1.StorageClass{ObjectMeta: metav1.ObjectMeta{Name: c.Name}, Provisioner: c.Provisioner,
		VolumeBindingMode: lo.ToPtr(storagev1.VolumeBindingMode(c.Mode))}
	for _, t := range c.Topologies {
		term := corev1.TopologySelectorTerm{}
		for _, e := range t {
			term.MatchLabelExpressions = append(term.MatchLabelExpressions, corev1.TopologySelectorLabelRequirement{Key: Key(e.Key), Values: e.Vals})
		}
		sc.AllowedTopologies = append(sc.AllowedTopologies, term)
	}
	return sc
}

func BuildPV(p PV) *corev1.PersistentVolume {
	pv := &corev1.PersistentVolume{ObjectMeta: metav1.ObjectMeta{Name: p.Name}}
	if p.Driver != "" {
		pv.Spec.CSI = &corev1.CSIPersistentVolumeSource{Driver: p.Driver, VolumeHandle: p.Name}
	}
	if len(p.Terms) > 0 {
		pv.Spec.NodeAffinity = &corev1.VolumeNodeAffinity{Required: &corev1.NodeSelector{NodeSelectorTerms: nsTerms(p.Terms)}}
	}
	return pv
}

func BuildPVC(c PVC) *corev1.PersistentVolumeClaim {
	pvc := &corev1.PersistentVolumeClaim{ObjectMeta: metav1.ObjectMeta{Name: c.Name, Namespace: c.Ns}}
	if c.PV != "" {
		pvc.Spec.VolumeName = c.PV
		pvc.Annotations = map[string]string{volume.AnnBindCompleted: "yes"}
		pvc.Status.Phase = corev1.ClaimBound
	}
	if c.SC != "" {
		pvc.Spec.StorageClassName = lo.ToPtr(c.SC)
	}
	return pvc
}

func BuildCSINode(n Node) *storagev1.CSINode {
	c := &storagev1.CSINode{ObjectMeta: metav1.ObjectMeta{Name: n.Name}}
	for _, l := range n.CSI {
		c.Spec.Drivers = append(c.Spec.Drivers, storagev1.CSINodeDriver{Name: l.Driver, NodeID: n.Name,
			Allocatable: &storagev1.VolumeNodeResources{Count: lo.ToPtr(int32(l.Count))}})
	}
	return c
}

func mustf(ok bool, f string, a ...any) {
	if !ok {
		panic(fmt.Sprintf(f, a...))
	}
}
