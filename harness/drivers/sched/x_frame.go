package sched

// C18 (frame conditions): the provisioning pass (Provisioner.Schedule, i.e. everything before CreateNodeClaims) is
// bracketed by two Snapshot events of the whole world (harness/world/x_snapshot.go).  Frame_Trace.tla demands that
// only node nominations and pod bookkeeping differ between them and that no API write lies in between.

import (
	"fmt"

	corev1 "k8s.io/api/core/v1"
	"k8s.io/apimachinery/pkg/api/resource"
	metav1 "k8s.io/apimachinery/pkg/apis/meta/v1"
	"sigs.k8s.io/controller-runtime/pkg/reconcile"

	"sigs.k8s.io/karpenter/pkg/apis/v1alpha1"
	"sigs.k8s.io/karpenter/pkg/cloudprovider"
	"sigs.k8s.io/karpenter/pkg/cloudprovider/overlay"
	"sigs.k8s.io/karpenter/pkg/controllers/nodeoverlay"

	"verif/harness/trace"
	"verif/harness/world"
)

var frameN int

func frameSnap(sim *Sim, phase, call string) {
	if !world.SnapshotEnabled() {
		return
	}
	frameN++
	ev := sim.W.Snapshot(sim.Cluster)
	ev["phase"], ev["call"], ev["n"] = phase, call, frameN
	sim.W.Emit(ev)
}

var _ = trace.M{}

// ---------------------------------------------------------------- NodeOverlay (Scenario.Overlays)
//
// Wired as in the operator: cluster state, informers and provisioner get overlay.Decorate(provider, client, store); the real
// nodeoverlay controller runs on the UNDECORATED provider.  The snapshot's catalog section digests the provider's own types.

type frameOverlay struct {
	store *nodeoverlay.InstanceTypeStore
	ctrl  *nodeoverlay.Controller
}

func frameProvider(sim *Sim) cloudprovider.CloudProvider {
	if len(sim.S.Overlays) == 0 {
		return sim.W.Prov
	}
	sim.ovl = &frameOverlay{store: nodeoverlay.NewInstanceTypeStore()}
	return overlay.Decorate(sim.W.Prov, sim.W.Client, sim.ovl.store)
}

func frameOverlayReconcile(sim *Sim) {
	for i := 0; i < 5; i++ {
		res, _ := sim.ovl.ctrl.Reconcile(world.WithActor(sim.Ctx, "nodeoverlay"), reconcile.Request{})
		if !res.Requeue { //nolint:staticcheck
			return
		}
	}
	panic("nodeoverlay controller keeps requeueing")
}

func frameOverlayInit(sim *Sim) {
	if sim.ovl == nil {
		return
	}
	sim.ovl.ctrl = nodeoverlay.NewController(sim.W.Clock, sim.W.Client, sim.W.Prov, sim.ovl.store, sim.Cluster)
	frameOverlayReconcile(sim)
}

func frameOverlaysAppear(sim *Sim) {
	if sim.ovl == nil {
		return
	}
	for _, o := range sim.S.Overlays {
		ov := &v1alpha1.NodeOverlay{ObjectMeta: metav1.ObjectMeta{Name: o.Name}}
		ov.Spec.Requirements = []v1alpha1.NodeSelectorRequirement{}
		for _, r := range o.Reqs {
			ov.Spec.Requirements = append(ov.Spec.Requirements, v1alpha1.NodeSelectorRequirement{Key: Key(r.Key), Operator: corev1.NodeSelectorOperator(r.Op), Values: r.Vals})
		}
		if o.Weight > 0 {
			w := int32(o.Weight)
			ov.Spec.Weight = &w
		}
		if o.Price != "" {
			p := o.Price
			ov.Spec.Price = &p
		}
		if o.PriceAdjustment != "" {
			p := o.PriceAdjustment
			ov.Spec.PriceAdjustment = &p
		}
		if len(o.Capacity) > 0 {
			ov.Spec.Capacity = corev1.ResourceList{}
			for k, v := range o.Capacity {
				ov.Spec.Capacity[corev1.ResourceName(k)] = resource.MustParse(v)
			}
		}
		sim.W.EnvCreate(ov)
	}
	frameOverlayReconcile(sim)
}

var _ = fmt.Sprint
