package sched

// C18 (frame conditions): the provisioning pass (Provisioner.Schedule, i.e. everything before CreateNodeClaims) is
// bracketed by two Snapshot events of the whole world (harness/world/x_snapshot.go).  Frame_Trace.tla demands that
// only node nominations and pod bookkeeping differ between them and that no API write lies in between.

import (
	"verif/harness/trace"
	"verif/harness/world"
)

var frameN int

func frameSnap(sim *Sim, phase, call string) {
	if !world.SnapshotEnabled() {
		return
	}
	frameN++
	ev := sim.W.Snapshot(sim.Cluster)
	ev["phase"], ev["call"], ev["n"] = phase, call, frameN
	sim.W.Emit(ev)
}

var _ = trace.M{}
