//go:build verif_h1

package sched

import (
	"sort"

	"github.com/samber/lo"

	"sigs.k8s.io/karpenter/pkg/cloudprovider"
	pscheduling "sigs.k8s.io/karpenter/pkg/controllers/provisioning/scheduling"
	"sigs.k8s.io/karpenter/pkg/scheduling"

	"verif/harness/trace"
)

// Built against a tree that carries hook H1 (repo-patches/hook-H1.patch): every scheduling decision
// inside Solve becomes a Sched event (spec/SCHED_TRACE.md).
const hookAvailable = true

func installHook(sim *Sim, emit func(trace.M)) {
	n := 0
	pscheduling.VerifSchedTrace = func(ev pscheduling.VerifSchedEvent) {
		n++
		m := trace.M{"e": "Sched", "n": n, "kind": ev.Kind, "pod": "-", "targetKind": lo.Ternary(ev.TargetKind == "", "-", ev.TargetKind),
			"target": "-", "hostname": lo.Ternary(ev.Hostname == "", "-", ev.Hostname), "pool": "-", "opener": "-",
			"reqs": trace.M{}, "otherKeys": []string{}, "its": []string{}, "reserved": []string{}, "requests": Res{}, "remaining": Res{},
			"limitsLeft": trace.M{}, "pods": []string{}, "err": ErrKind(ev.Err), "msg": "-", "eff": []Pod{}, "topo": []trace.M{}}
		if ev.Err != nil {
			m["msg"] = trunc(ev.Err.Error(), 160)
		}
		if ev.Pod != nil {
			m["pod"] = podKey(ev.Pod)
			m["eff"] = []Pod{AbsPod(ev.Pod)}
		}
		reqs := scheduling.Requirements(nil)
		switch {
		case ev.Existing != nil:
			m["target"] = sim.nodeOf(ev.Existing.ProviderID())
			m["pool"] = ev.Existing.Labels()["karpenter.sh/nodepool"]
			m["pods"] = lo.Map(ev.Existing.Pods, func(p *corevPod, _ int) string { return podKey(p) })
			m["remaining"] = milliRes(ev.Remaining)
			reqs = ev.Requirements
		case ev.Claim != nil:
			m["target"] = ev.Hostname
			m["pool"] = ev.Claim.NodePoolName
			pods := lo.Map(ev.Claim.Pods, func(p *corevPod, _ int) string { return podKey(p) })
			m["pods"] = pods
			if len(pods) > 0 {
				m["opener"] = pods[0]
			}
			m["its"] = lo.Map(ev.InstanceTypes, func(it *cloudprovider.InstanceType, _ int) string { return it.Name })
			m["reserved"] = append([]string{}, ev.Reserved...)
			m["requests"] = milliRes(ev.Requests)
			reqs = ev.Requirements
			if ev.RemainingLimits != nil {
				left := trace.M{}
				for k, q := range ev.RemainingLimits {
					switch string(k) {
					case "cpu":
						left["cpu"] = int(q.MilliValue())
					case "memory":
						left["mem"] = int(q.Value() >> 20)
					default:
						left[string(k)] = int(q.Value())
					}
				}
				m["limitsLeft"] = left
			}
		}
		if reqs != nil {
			r, other := sim.ProjectReqs(reqs)
			m["reqs"], m["otherKeys"] = r, other
		}
		topo := []trace.M{}
		for _, g := range ev.Topology {
			owners := []string{}
			for _, o := range g.Owners {
				if k, ok := sim.podKey[uid(o)]; ok {
					owners = append(owners, k)
				} else {
					owners = append(owners, o)
				}
			}
			sort.Strings(owners)
			key := Short(g.Key)
			if key == "" {
				key = g.Key
			}
			doms := map[string]int{}
			for d, c := range g.Domains {
				doms[d] = int(c)
			}
			selm, selOther := ParseSelector(g.Selector) // C02: structured selector (topo.go)
			topo = append(topo, trace.M{"selm": selm, "selOther": selOther, "key": key, "type": g.Type, "inverse": g.Inverse, "maxSkew": int(g.MaxSkew), "minDomains": int(g.MinDomains),
				"ns": append([]string{}, g.Namespaces...), "selector": g.Selector, "owned": g.Owned, "selects": g.Selects, "owners": owners, "domains": doms})
		}
		m["topo"] = topo
		emit(m)
		sim.afterSched(ev.Kind)
	}
}

func removeHook() { pscheduling.VerifSchedTrace = nil }
