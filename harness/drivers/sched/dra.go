package sched

// Dynamic resource allocation (C17, DRA half): the optional `dra` section of a scenario, its
// materialisation as ResourceSlices / DeviceClasses / ResourceClaims (API objects) and as
// ResourceSliceTemplates of the catalog's instance types, and the projection of
// Results.DRAClaimAllocationMetadata.  Documented in spec/SCHED_TRACE.md ("DRA").
//
// The alphabet is deliberately narrow so that the TLA+ side stays integer-only: every device has at
// most one capacity dimension ("mem") and consumes at most one counter ("slots" of counter set "cs"
// of its pool); every claim has one request "r0" for `count` devices of one class.

import (
	"fmt"
	"sort"
	"unique"

	"github.com/samber/lo"
	corev1 "k8s.io/api/core/v1"
	resourcev1 "k8s.io/api/resource/v1"
	"k8s.io/apimachinery/pkg/api/resource"
	metav1 "k8s.io/apimachinery/pkg/apis/meta/v1"
	"k8s.io/apimachinery/pkg/types"

	"sigs.k8s.io/karpenter/pkg/cloudprovider"
	pscheduling "sigs.k8s.io/karpenter/pkg/controllers/provisioning/scheduling"

	"verif/harness/trace"
)

const (
	DRADim     = "mem"   // the one capacity dimension
	DRASet     = "cs"    // the one counter set of a pool
	DRACounter = "slots" // the one counter
	DRARequest = "r0"    // the one request of a claim
)

// DRADevice: Multi = allowMultipleAllocations; Cap = capacity of dimension "mem" (0 = no capacity);
// Ctr = how much of the pool's counter "slots" the device consumes when allocated (0 = none).
type DRADevice struct {
	Name  string `json:"name"`
	Multi bool   `json:"multi"`
	Cap   int    `json:"cap"`
	Ctr   int    `json:"ctr"`
}

// DRASlice is an in-cluster (published) ResourceSlice.  Access: all (AllNodes) | zone (NodeSelector
// zone In [Zone]) | node (spec.nodeName = Node, owned by that Node).  Slots > 0: the slice declares the
// pool's SharedCounters {cs: {slots: Slots}} and carries no devices.
type DRASlice struct {
	Name    string      `json:"name"`
	Driver  string      `json:"driver"`
	Pool    string      `json:"pool"`
	Access  string      `json:"access"`
	Zone    string      `json:"zone"`
	Node    string      `json:"node"`
	Devices []DRADevice `json:"devices"`
	Slots   int         `json:"slots"`
}

// DRATemplate is a ResourceSliceTemplate of instance type Type (same Slots convention).
type DRATemplate struct {
	Type    string      `json:"type"`
	Driver  string      `json:"driver"`
	Pool    string      `json:"pool"`
	Devices []DRADevice `json:"devices"`
	Slots   int         `json:"slots"`
}

// DRAClass: a DeviceClass selecting the devices of one driver (CEL device.driver == Driver).
type DRAClass struct {
	Name   string `json:"name"`
	Driver string `json:"driver"`
}

// DRAResult is one device of a pre-allocated claim (status.allocation.devices.results).
type DRAResult struct {
	Driver   string `json:"driver"`
	Pool     string `json:"pool"`
	Device   string `json:"device"`
	Consumed int    `json:"consumed"` // consumed capacity of "mem" (0 = exclusive allocation)
}

// DRAClaim is a ResourceClaim: Count devices of Class (All = allocation mode All), CapReq = capacity
// request on "mem" (0 = none).  Alloc non-empty = already allocated in the cluster (AllocZone "" or
// the zone of the allocation's node selector); Reserved = names of pods in status.reservedFor, Others = further
// non-pod consumers there.
type DRAClaim struct {
	Name      string      `json:"name"`
	Ns        string      `json:"ns"`
	Class     string      `json:"class"`
	Count     int         `json:"count"`
	All       bool        `json:"all"`
	CapReq    int         `json:"capReq"`
	Alloc     []DRAResult `json:"alloc"`
	AllocZone string      `json:"allocZone"`
	Reserved  []string    `json:"reserved"`
	Others    int         `json:"others"` // number of additional NON-pod consumers in status.reservedFor
	// AltClass != "": the request is FirstAvailable [a: Count x Class (CapReq), b: AltCount x AltClass]
	AltClass string `json:"altClass"`
	AltCount int    `json:"altCount"`
}

// DRAPodClaims lists the claims a pod (key ns/name) references through spec.resourceClaims.
type DRAPodClaims struct {
	Pod    string   `json:"pod"`
	Claims []string `json:"claims"`
}

// DRA is the optional scenario section.  Present = the pass runs with IgnoreDRARequests=false.
type DRA struct {
	Classes   []DRAClass     `json:"classes"`
	Slices    []DRASlice     `json:"slices"`
	Templates []DRATemplate  `json:"templates"`
	Claims    []DRAClaim     `json:"claims"`
	PodClaims []DRAPodClaims `json:"podClaims"`
}

func nzDev(d []DRADevice) []DRADevice {
	if d == nil {
		return []DRADevice{}
	}
	return d
}

func (d *DRA) normalise() {
	if d.Classes == nil {
		d.Classes = []DRAClass{}
	}
	if d.Slices == nil {
		d.Slices = []DRASlice{}
	}
	for i := range d.Slices {
		d.Slices[i].Devices = nzDev(d.Slices[i].Devices)
		if d.Slices[i].Access == "" {
			d.Slices[i].Access = "all"
		}
	}
	if d.Templates == nil {
		d.Templates = []DRATemplate{}
	}
	for i := range d.Templates {
		d.Templates[i].Devices = nzDev(d.Templates[i].Devices)
	}
	if d.Claims == nil {
		d.Claims = []DRAClaim{}
	}
	for i := range d.Claims {
		c := &d.Claims[i]
		if c.Ns == "" {
			c.Ns = "default"
		}
		if c.Alloc == nil {
			c.Alloc = []DRAResult{}
		}
		c.Reserved = nzS(c.Reserved)
	}
	if d.PodClaims == nil {
		d.PodClaims = []DRAPodClaims{}
	}
	for i := range d.PodClaims {
		d.PodClaims[i].Claims = nzS(d.PodClaims[i].Claims)
	}
}

func qty(n int) resource.Quantity { return *resource.NewQuantity(int64(n), resource.DecimalSI) }

func apiDevice(d DRADevice) resourcev1.Device {
	out := resourcev1.Device{Name: d.Name}
	if d.Multi {
		out.AllowMultipleAllocations = lo.ToPtr(true)
	}
	if d.Cap > 0 {
		out.Capacity = map[resourcev1.QualifiedName]resourcev1.DeviceCapacity{DRADim: {Value: qty(d.Cap)}}
	}
	if d.Ctr > 0 {
		out.ConsumesCounters = []resourcev1.DeviceCounterConsumption{{CounterSet: DRASet, Counters: map[string]resourcev1.Counter{DRACounter: {Value: qty(d.Ctr)}}}}
	}
	return out
}

func counterSets(slots int) []resourcev1.CounterSet {
	return []resourcev1.CounterSet{{Name: DRASet, Counters: map[string]resourcev1.Counter{DRACounter: {Value: qty(slots)}}}}
}

// applyDRATemplates attaches the scenario's ResourceSliceTemplates to a catalog instance type.
func applyDRATemplates(s *Scenario, it *cloudprovider.InstanceType) {
	if s.DRA == nil {
		return
	}
	for _, t := range s.DRA.Templates {
		if t.Type != it.Name {
			continue
		}
		tpl := &cloudprovider.ResourceSliceTemplate{Driver: unique.Make(t.Driver), Pool: cloudprovider.ResourcePool{Name: unique.Make(t.Pool)}}
		if t.Slots > 0 {
			tpl.SharedCounters = counterSets(t.Slots)
		} else {
			for _, d := range t.Devices {
				a := apiDevice(d)
				tpl.Devices = append(tpl.Devices, cloudprovider.Device{Name: unique.Make(d.Name), Capacity: a.Capacity,
					AllowMultipleAllocations: d.Multi, ConsumesCounters: a.ConsumesCounters})
			}
		}
		it.DynamicResources.ResourceSliceTemplates = append(it.DynamicResources.ResourceSliceTemplates, tpl)
	}
}

// applyDRAPodClaims adds spec.resourceClaims (by ResourceClaimName) to a pod object before it is created.
func applyDRAPodClaims(s *Scenario, pod *corev1.Pod) {
	if s.DRA == nil {
		return
	}
	for _, pc := range s.DRA.PodClaims {
		if pc.Pod != podKey(pod) {
			continue
		}
		for _, c := range pc.Claims {
			pod.Spec.ResourceClaims = append(pod.Spec.ResourceClaims, corev1.PodResourceClaim{Name: c, ResourceClaimName: lo.ToPtr(c)})
			pod.Spec.Containers[0].Resources.Claims = append(pod.Spec.Containers[0].Resources.Claims, corev1.ResourceClaim{Name: c})
		}
	}
}

// materialiseDRA creates DeviceClasses, ResourceSlices and ResourceClaims.  Called after the pods exist
// (reservedFor needs their UIDs).
func (sim *Sim) materialiseDRA() error {
	d := sim.S.DRA
	if d == nil {
		return nil
	}
	w := sim.W
	for _, c := range d.Classes {
		dc := &resourcev1.DeviceClass{ObjectMeta: metav1.ObjectMeta{Name: c.Name}}
		if c.Driver != "" {
			dc.Spec.Selectors = []resourcev1.DeviceSelector{{CEL: &resourcev1.CELDeviceSelector{Expression: fmt.Sprintf("device.driver == %q", c.Driver)}}}
		}
		w.EnvCreate(dc)
	}
	perPool := map[string]int64{}
	for _, s := range d.Slices {
		perPool[s.Driver+"/"+s.Pool]++
	}
	for _, s := range d.Slices {
		rs := &resourcev1.ResourceSlice{ObjectMeta: metav1.ObjectMeta{Name: s.Name},
			Spec: resourcev1.ResourceSliceSpec{Driver: s.Driver, Pool: resourcev1.ResourcePool{Name: s.Pool, Generation: 1, ResourceSliceCount: perPool[s.Driver+"/"+s.Pool]}}}
		switch s.Access {
		case "zone":
			rs.Spec.NodeSelector = &corev1.NodeSelector{NodeSelectorTerms: []corev1.NodeSelectorTerm{{MatchExpressions: []corev1.NodeSelectorRequirement{
				{Key: corev1.LabelTopologyZone, Operator: corev1.NodeSelectorOpIn, Values: []string{s.Zone}}}}}}
		case "node":
			rs.Spec.NodeName = lo.ToPtr(s.Node)
			rs.OwnerReferences = []metav1.OwnerReference{{APIVersion: "v1", Kind: "Node", Name: s.Node, UID: types.UID("node-uid-" + s.Node)}}
		default:
			rs.Spec.AllNodes = lo.ToPtr(true)
		}
		if s.Slots > 0 {
			rs.Spec.SharedCounters = counterSets(s.Slots)
		} else {
			for _, dev := range s.Devices {
				rs.Spec.Devices = append(rs.Spec.Devices, apiDevice(dev))
			}
		}
		w.EnvCreate(rs)
	}
	for _, c := range d.Claims {
		rc := &resourcev1.ResourceClaim{ObjectMeta: metav1.ObjectMeta{Name: c.Name, Namespace: c.Ns}}
		req := &resourcev1.ExactDeviceRequest{DeviceClassName: c.Class, AllocationMode: resourcev1.DeviceAllocationModeExactCount, Count: int64(c.Count)}
		if c.All {
			req.AllocationMode, req.Count = resourcev1.DeviceAllocationModeAll, 0
		}
		if c.CapReq > 0 {
			req.Capacity = &resourcev1.CapacityRequirements{Requests: map[resourcev1.QualifiedName]resource.Quantity{DRADim: qty(c.CapReq)}}
		}
		rc.Spec.Devices.Requests = []resourcev1.DeviceRequest{{Name: DRARequest, Exactly: req}}
		if c.AltClass != "" {
			rc.Spec.Devices.Requests = []resourcev1.DeviceRequest{{Name: DRARequest, FirstAvailable: []resourcev1.DeviceSubRequest{
				{Name: "a", DeviceClassName: req.DeviceClassName, AllocationMode: req.AllocationMode, Count: req.Count, Capacity: req.Capacity},
				{Name: "b", DeviceClassName: c.AltClass, AllocationMode: resourcev1.DeviceAllocationModeExactCount, Count: int64(c.AltCount)}}}}
		}
		var st resourcev1.ResourceClaimStatus
		if len(c.Alloc) > 0 {
			st.Allocation = &resourcev1.AllocationResult{}
			for _, r := range c.Alloc {
				res := resourcev1.DeviceRequestAllocationResult{Request: DRARequest, Driver: r.Driver, Pool: r.Pool, Device: r.Device}
				if r.Consumed > 0 {
					res.ConsumedCapacity = map[resourcev1.QualifiedName]resource.Quantity{DRADim: qty(r.Consumed)}
				}
				st.Allocation.Devices.Results = append(st.Allocation.Devices.Results, res)
			}
			if c.AllocZone != "" {
				st.Allocation.NodeSelector = &corev1.NodeSelector{NodeSelectorTerms: []corev1.NodeSelectorTerm{{MatchExpressions: []corev1.NodeSelectorRequirement{
					{Key: corev1.LabelTopologyZone, Operator: corev1.NodeSelectorOpIn, Values: []string{c.AllocZone}}}}}}
			}
		}
		for _, pn := range c.Reserved {
			p := &corev1.Pod{ObjectMeta: metav1.ObjectMeta{Name: pn, Namespace: c.Ns}}
			if !w.Get(p) {
				return fmt.Errorf("claim %s reserved for unknown pod %s", c.Name, pn)
			}
			st.ReservedFor = append(st.ReservedFor, resourcev1.ResourceClaimConsumerReference{Resource: "pods", Name: pn, UID: p.UID})
		}
		for i := 0; i < c.Others; i++ {
			st.ReservedFor = append(st.ReservedFor, resourcev1.ResourceClaimConsumerReference{APIGroup: "example.com", Resource: "workloads",
				Name: fmt.Sprintf("wl-%d", i), UID: types.UID(fmt.Sprintf("wl-uid-%s-%d", c.Name, i))})
		}
		rc.Status = st
		w.EnvCreate(rc)
		cur := &resourcev1.ResourceClaim{ObjectMeta: metav1.ObjectMeta{Name: c.Name, Namespace: c.Ns}}
		w.EnvMutate(cur, "seed-status", func() { cur.Status = st })
	}
	return nil
}

// DRAResults projects Results.DRAClaimAllocationMetadata: one record per claim the allocator allocated in
// this pass, with the devices it would hold for EACH instance type its NodeClaim may still become.
func (sim *Sim) DRAResults(res pscheduling.Results) []trace.M {
	out := []trace.M{}
	for key, meta := range res.DRAClaimAllocationMetadata {
		if meta == nil {
			continue
		}
		devs := []trace.M{}
		for it, results := range meta.Devices {
			for _, r := range results {
				consumed := -1
				if q, ok := r.ConsumedCapacity[DRADim]; ok {
					consumed = int(q.Value())
				}
				devs = append(devs, trace.M{"it": it.Value(), "driver": r.DeviceID.Driver.Value(), "pool": r.DeviceID.Pool.Value(),
					"device": r.DeviceID.Device.Value(), "template": r.DeviceID.Template, "consumed": consumed, "request": r.RequestName.String()})
			}
		}
		sort.Slice(devs, func(i, j int) bool {
			a, b := devs[i], devs[j]
			ka := a["it"].(string) + "/" + a["driver"].(string) + "/" + a["pool"].(string) + "/" + a["device"].(string)
			kb := b["it"].(string) + "/" + b["driver"].(string) + "/" + b["pool"].(string) + "/" + b["device"].(string)
			return ka < kb
		})
		id := meta.NodeClaimID.Value()
		out = append(out, trace.M{"claim": key.Namespace + "/" + key.Name, "nodeclaim": id, "node": sim.nodeOf(id), "template": meta.UsedTemplateDevices, "devs": devs})
	}
	sort.Slice(out, func(i, j int) bool { return out[i]["claim"].(string) < out[j]["claim"].(string) })
	return out
}
