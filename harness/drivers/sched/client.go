package sched

import (
	"context"

	corev1 "k8s.io/api/core/v1"
	storagev1 "k8s.io/api/storage/v1"

	v1 "sigs.k8s.io/karpenter/pkg/apis/v1"

	"sigs.k8s.io/controller-runtime/pkg/client"
	"sigs.k8s.io/controller-runtime/pkg/client/interceptor"
)

// scopedClient makes the in-memory API behave like a real API server for cluster-scoped kinds that
// are addressed WITH a namespace: a real client drops the namespace of a cluster-scoped resource
// (Karpenter's volume topology does Get(PersistentVolume, {Namespace: pod.Namespace, Name: ...})),
// while the fake tracker keys objects by namespace and would answer NotFound.
func scopedClient(c client.Client) client.Client {
	ww, ok := c.(client.WithWatch)
	if !ok {
		return c
	}
	return interceptor.NewClient(ww, interceptor.Funcs{
		Get: func(ctx context.Context, cl client.WithWatch, key client.ObjectKey, obj client.Object, opts ...client.GetOption) error {
			if key.Namespace != "" && clusterScoped(obj) {
				key.Namespace = ""
			}
			return cl.Get(ctx, key, obj, opts...)
		},
	})
}

// clusterScoped lists the cluster-scoped kinds the scheduling path reads (the fake client has no
// REST mapper to ask).
func clusterScoped(o client.Object) bool {
	switch o.(type) {
	case *corev1.PersistentVolume, *storagev1.StorageClass, *storagev1.CSINode, *corev1.Node, *v1.NodeClaim, *v1.NodePool,
		*corev1.Namespace, *storagev1.VolumeAttachment:
		return true
	}
	return false
}
