package sched

import "strings"

// PanicClass classifies a recovered panic message for the trace specs (TLA+ has no substring test):
// the reservation manager's own assertions (C17), otherwise "other".
func PanicClass(msg string) string {
	switch {
	case strings.Contains(msg, "over-reserve"):
		return "over-reserve"
	case strings.Contains(msg, "reserve non-existent offering"):
		return "unknown-reservation"
	case strings.Contains(msg, "already allocated"), strings.Contains(msg, "missing reference count for device"),
		strings.Contains(msg, "inflight allocation metadata for device"):
		return "dra-tracker" // the AllocationTracker's own assertions (device / claim allocated twice)
	}
	return "other"
}
