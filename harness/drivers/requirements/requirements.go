// Package requirements binds Requirements.tla (C12, C13 a/e) to pkg/scheduling.Requirement(s),
// v1.ValidateRequirement / NodePool.RuntimeValidate and provisioning/scheduling.NodeClaimTemplate.
//
// The driver replays cases (chains of node-selector atoms on one key, enumerated by TLC from the closed
// model or drawn by the seeded explorer in checks/requirements_common.py) on the real code and only
// records what the code answered: Has-vectors over the scenario's value universe, HasIntersection /
// Compatible / Intersects results for every split of the chain, the serialised NodeSelectorRequirements
// and their re-parse, Any() results, and ToNodeClaim() outcomes.  Requirements_Trace.tla re-derives
// every answer from the Kubernetes semantics (`Admits`).
package requirements

import (
	"context"
	"encoding/json"
	"flag"
	"fmt"
	"math/rand"
	"os"
	"sort"
	"strconv"

	"github.com/awslabs/operatorpkg/option"
	corev1 "k8s.io/api/core/v1"

	v1 "sigs.k8s.io/karpenter/pkg/apis/v1"
	"sigs.k8s.io/karpenter/pkg/cloudprovider"
	provsched "sigs.k8s.io/karpenter/pkg/controllers/provisioning/scheduling"
	"sigs.k8s.io/karpenter/pkg/scheduling"

	"verif/harness/reg"
	"verif/harness/trace"
	"verif/harness/world"
)

func init() { reg.Register("requirements-replay", Replay) }

// Val is a label value with the integer reading the *scenario* assigns to it (never computed here for inputs).
type Val struct {
	S string `json:"s"`
	I bool   `json:"i"`
	N int    `json:"n"`
}

type Atom struct {
	Op   string   `json:"op"`
	Vals []string `json:"vals"`
	B    int      `json:"b"`
	Mv   int      `json:"mv"`
	Ka   string   `json:"ka"` // "c" canonical key, "a" deprecated alias of the well-known key
}

type Case struct {
	ID    int    `json:"id"`
	KK    string `json:"kk"` // "custom" | "wk"
	Atoms []Atom `json:"atoms"`
}

type KeyReq struct {
	KK    string `json:"kk"`
	Atoms []Atom `json:"atoms"`
}

type Multi struct {
	ID int      `json:"id"`
	A  []KeyReq `json:"A"`
	B  []KeyReq `json:"B"`
}

type VPair struct {
	From string `json:"from"`
	To   string `json:"to"`
}

type Input struct {
	Universe []Val             `json:"universe"`
	Keys     map[string]string `json:"keys"` // custom, custom2, custom3, wk, wk2, alias (current chunk)
	// VMap / VKeys: value normalisation a cloud provider registers at init (v1.NormalizedLabelValues): the
	// translation VMap is registered, for the whole driver process, under every (canonical) key name in VKeys.
	VMap  []VPair  `json:"vmap"`
	VKeys []string `json:"vkeys"`
	Reps  int      `json:"reps"` // repetitions of every multi-key call (Go map iteration order is random)
	// KeySets rotate per chunk (one Cfg line each), so that every alias pair of the scenario is exercised
	KeySets []map[string]string `json:"keysets"`
	Cases    []Case            `json:"cases"`
	Multi    []Multi           `json:"multi"`
	AnyDraws int               `json:"anyDraws"`
	Chunk    int               `json:"chunk"`
}

type drv struct {
	in      Input
	ctx     context.Context
	catalog []*cloudprovider.InstanceType
}

// absVal is the harness's abstraction of a label value the code *returned*: its spelling and the reading
// Kubernetes gives it (strconv.ParseInt base 10, 64 bit), clamped so that it fits TLC's 32-bit integers
// (all thresholds of a scenario are far inside the clamp, so the order w.r.t. every bound is preserved).
func absVal(s string) trace.M {
	n, err := strconv.ParseInt(s, 10, 64)
	if err != nil {
		return trace.M{"s": s, "i": false, "n": 0}
	}
	const lim = 1000000
	if n > lim {
		n = lim
	}
	if n < -lim {
		n = -lim
	}
	return trace.M{"s": s, "i": true, "n": int(n)}
}

func (d *drv) key(kk, ka string) string {
	if kk == "wk" && ka == "a" {
		return d.in.Keys["alias"]
	}
	return d.in.Keys[kk]
}

func newReq(key string, a Atom) *scheduling.Requirement {
	var mv *int
	if a.Mv > 0 {
		m := a.Mv
		mv = &m
	}
	vals := append([]string{}, a.Vals...) // the constructor may rewrite its arguments (value normalisation)
	return scheduling.NewRequirementWithFlexibility(key, corev1.NodeSelectorOperator(a.Op), mv, vals...)
}

func (d *drv) has(r *scheduling.Requirement) []bool {
	out := make([]bool, len(d.in.Universe))
	for i, v := range d.in.Universe {
		out[i] = r.Has(v.S)
	}
	return out
}

func mvOf(r *scheduling.Requirement) int {
	if r.MinValues == nil {
		return 0
	}
	return *r.MinValues
}

// build a Requirements value the way every caller in Karpenter does: NewRequirements() + Add per atom
func (d *drv) build(kk string, atoms []Atom) scheduling.Requirements {
	rs := scheduling.NewRequirements()
	for _, a := range atoms {
		rs.Add(newReq(d.key(kk, a.Ka), a))
	}
	return rs
}

// the single requirement a chain folds to (atoms non-empty)
func (d *drv) fold(kk string, atoms []Atom) *scheduling.Requirement {
	rs := d.build(kk, atoms)
	return rs.Get(d.in.Keys[kk])
}

func serEntries(entries []v1.NodeSelectorRequirementWithMinValues, key string) []trace.M {
	out := []trace.M{}
	for _, e := range entries {
		if e.Key != key {
			continue
		}
		vals := append([]string{}, e.Values...)
		sort.Strings(vals)
		b := 0
		switch e.Operator {
		case corev1.NodeSelectorOpGt, corev1.NodeSelectorOpLt, v1.NodeSelectorOpGte, v1.NodeSelectorOpLte:
			if len(vals) == 1 {
				b = absVal(vals[0])["n"].(int)
			}
		}
		mv := 0
		if e.MinValues != nil {
			mv = *e.MinValues
		}
		out = append(out, trace.M{"op": string(e.Operator), "vals": vals, "b": b, "mv": mv})
	}
	// deterministic order (map iteration inside NodeSelectorRequirements)
	sort.SliceStable(out, func(i, j int) bool { return out[i]["op"].(string) < out[j]["op"].(string) })
	return out
}

func atomsJSON(atoms []Atom) []trace.M {
	out := make([]trace.M, 0, len(atoms))
	for _, a := range atoms {
		v := a.Vals
		if v == nil {
			v = []string{}
		}
		ka := a.Ka
		if ka == "" {
			ka = "c"
		}
		out = append(out, trace.M{"op": a.Op, "vals": v, "b": a.B, "mv": a.Mv, "ka": ka})
	}
	return out
}

func opts(au bool) []option.Function[scheduling.CompatibilityOptions] {
	if au {
		return []option.Function[scheduling.CompatibilityOptions]{scheduling.AllowUndefinedWellKnownLabels}
	}
	return nil
}

func (d *drv) validAtom(key string, a Atom) bool {
	var mv *int
	if a.Mv > 0 {
		m := a.Mv
		mv = &m
	}
	return v1.ValidateRequirement(d.ctx, v1.NodeSelectorRequirementWithMinValues{
		Key: key, Operator: corev1.NodeSelectorOperator(a.Op), Values: append([]string{}, a.Vals...), MinValues: mv}) == nil
}

// anyDraws calls Requirement.Any() k times (it is randomised) and returns the distinct results.
func anyDraws(r *scheduling.Requirement, k int) (res []trace.M, panicked bool, panicMsg string) {
	res = []trace.M{}
	seen := map[string]bool{}
	for i := 0; i < k; i++ {
		func() {
			defer func() {
				if p := recover(); p != nil {
					panicked = true
					panicMsg = fmt.Sprint(p)
				}
			}()
			s := r.Any()
			if !seen[s] {
				seen[s] = true
				res = append(res, absVal(s))
			}
		}()
		if panicked {
			break
		}
	}
	sort.Slice(res, func(i, j int) bool { return res[i]["s"].(string) < res[j]["s"].(string) })
	return
}

// podValid: what a pod's required node affinity can carry (core operators; Gt/Lt take any integer).
func podValid(a Atom) bool {
	switch a.Op {
	case "In", "NotIn":
		return len(a.Vals) > 0
	case "Exists", "DoesNotExist":
		return len(a.Vals) == 0
	case "Gt", "Lt":
		return len(a.Vals) == 1
	}
	return false
}

func podWith(key string, atoms []Atom) *corev1.Pod {
	p := &corev1.Pod{}
	exprs := []corev1.NodeSelectorRequirement{}
	for _, a := range atoms {
		exprs = append(exprs, corev1.NodeSelectorRequirement{Key: key, Operator: corev1.NodeSelectorOperator(a.Op), Values: append([]string{}, a.Vals...)})
	}
	p.Spec.Affinity = &corev1.Affinity{NodeAffinity: &corev1.NodeAffinity{RequiredDuringSchedulingIgnoredDuringExecution: &corev1.NodeSelector{
		NodeSelectorTerms: []corev1.NodeSelectorTerm{{MatchExpressions: exprs}}}}}
	return p
}

// toNodeClaim builds a NodePool whose template carries poolAtoms on the custom key, asks the real validation,
// adds the requirements of a pod carrying podAtoms the way the scheduler does (only if the scheduler's own gate,
// Compatible with AllowUndefinedWellKnownLabels, lets the pod onto the in-flight NodeClaim) and drives
// NewNodeClaimTemplate(...).ToNodeClaim() (dynamic and static flavour).
func (d *drv) toNodeClaim(split int, poolAtoms, podAtoms []Atom) trace.M {
	key := d.in.Keys["custom"]
	np := world.NodePool("pool")
	np.UID = "pool-uid"
	for _, a := range poolAtoms {
		var mv *int
		if a.Mv > 0 {
			m := a.Mv
			mv = &m
		}
		np.Spec.Template.Spec.Requirements = append(np.Spec.Template.Spec.Requirements, v1.NodeSelectorRequirementWithMinValues{
			Key: key, Operator: corev1.NodeSelectorOperator(a.Op), Values: append([]string{}, a.Vals...), MinValues: mv})
	}
	out := trace.M{"i": split, "ran": false, "panic": false, "panicStatic": false, "msg": "-",
		"ser": []trace.M{}, "hasLabel": false, "label": absVal(""), "serStatic": []trace.M{}}
	if np.RuntimeValidate(d.ctx) != nil {
		return out
	}
	for _, a := range podAtoms {
		if !podValid(a) {
			return out
		}
	}
	gateOK := true
	run := func(static bool) (ser []trace.M, label string, hasLabel bool, panicked bool, msg string) {
		ser, msg = []trace.M{}, "-"
		defer func() {
			if p := recover(); p != nil {
				panicked, msg = true, fmt.Sprint(p)
			}
		}()
		p := np.DeepCopy()
		if static {
			one := int64(1)
			p.Spec.Replicas = &one
		}
		nct := provsched.NewNodeClaimTemplate(p)
		nct.InstanceTypeOptions = d.catalog
		if len(podAtoms) > 0 {
			podReqs := scheduling.NewStrictPodRequirements(podWith(key, podAtoms))
			if nct.Requirements.Compatible(podReqs, scheduling.AllowUndefinedWellKnownLabels) != nil {
				gateOK = false
				return
			}
			nct.Requirements.Add(podReqs.Values()...)
		}
		nc := nct.ToNodeClaim()
		ser = serEntries(nc.Spec.Requirements, key)
		label, hasLabel = nc.Labels[key]
		return
	}
	ser, label, hasLabel, panicked, msg := run(false)
	if !gateOK {
		return out
	}
	out["ran"] = true
	out["ser"], out["hasLabel"], out["label"], out["panic"] = ser, hasLabel, absVal(label), panicked
	if panicked {
		out["msg"] = msg
	}
	if len(podAtoms) == 0 { // static pools do not take pods through the scheduler's NodeClaim path
		serS, _, _, panickedS, msgS := run(true)
		out["serStatic"], out["panicStatic"] = serS, panickedS
		if panickedS && !panicked {
			out["msg"] = msgS
		}
	} else {
		out["serStatic"], out["panicStatic"] = ser, panicked
	}
	return out
}

func (d *drv) doCase(c Case) (ev trace.M) {
	ev = trace.M{"e": "Case", "id": c.ID, "kk": c.KK, "atoms": atomsJSON(c.Atoms), "panic": false, "msg": "-"}
	defer func() {
		if p := recover(); p != nil {
			ev = trace.M{"e": "CasePanic", "id": c.ID, "kk": c.KK, "atoms": atomsJSON(c.Atoms), "msg": fmt.Sprint(p)}
		}
	}()
	n := len(c.Atoms)
	canon := d.in.Keys[c.KK]
	// --- New: every atom on its own
	hasNew := make([][]bool, n)
	for i, a := range c.Atoms {
		hasNew[i] = d.has(newReq(d.key(c.KK, a.Ka), a))
	}
	ev["hasNew"] = hasNew
	// --- the Add chain
	rs := d.build(c.KK, c.Atoms)
	keys := []string{}
	for k := range rs {
		keys = append(keys, k)
	}
	sort.Strings(keys)
	ev["keys"] = keys
	ev["hasAlias"] = rs.Has(d.in.Keys["alias"])
	f := rs.Get(canon)
	ev["has"], ev["mv"], ev["opr"] = d.has(f), mvOf(f), string(f.Operator())
	// --- Intersection called directly, left-nested, right-nested, reversed Add chain, with itself
	probes := make([]*scheduling.Requirement, n)
	for i := range c.Atoms {
		probes[i] = newReq(d.key(c.KK, c.Atoms[i].Ka), c.Atoms[i]) // written with the atom's own key spelling
	}
	x := probes[0]
	for i := 1; i < n; i++ {
		x = x.Intersection(probes[i])
	}
	ev["hasX"], ev["mvX"] = d.has(x), mvOf(x)
	y := probes[n-1]
	for i := n - 2; i >= 0; i-- {
		y = probes[i].Intersection(y)
	}
	// Requirements.Add with shared operands: two Requirements built from the same *Requirement values
	shared1, shared2 := scheduling.NewRequirements(), scheduling.NewRequirements()
	for i := range probes {
		shared1.Add(probes[i])
	}
	for i := n - 1; i >= 0; i-- {
		shared2.Add(probes[i])
	}
	ev["hasShared"] = d.has(shared1.Get(canon))
	ev["hasAssoc"], ev["mvAssoc"] = d.has(y), mvOf(y)
	rev := make([]Atom, n)
	for i := range c.Atoms {
		rev[n-1-i] = c.Atoms[i]
	}
	fr := d.fold(c.KK, rev)
	ev["hasRev"], ev["mvRev"] = d.has(fr), mvOf(fr)
	fi := f.Intersection(f)
	ev["hasIdem"], ev["mvIdem"] = d.has(fi), mvOf(fi)
	// --- HasIntersection for every split into two requirements, both directions
	hi := []trace.M{}
	for i := 1; i < n; i++ {
		p, s := d.fold(c.KK, c.Atoms[:i]), d.fold(c.KK, c.Atoms[i:])
		hi = append(hi, trace.M{"i": i, "ab": p.HasIntersection(s), "ba": s.HasIntersection(p)})
	}
	ev["hi"] = hi
	// --- Compatible / Intersects / IsCompatible for every split (left part may be undefined), both options
	compat := []trace.M{}
	for i := 0; i < n; i++ {
		for _, au := range []bool{false, true} {
			A, B := d.build(c.KK, c.Atoms[:i]), d.build(c.KK, c.Atoms[i:])
			compat = append(compat, trace.M{"i": i, "au": au,
				"ok":   A.Compatible(B, opts(au)...) == nil,
				"isc":  A.IsCompatible(B, opts(au)...),
				"ints": A.Intersects(B) == nil})
		}
	}
	ev["compat"] = compat
	// --- serialisation, re-parse, treatment of an absent label as the scheduler itself reads it
	entries := rs.NodeSelectorRequirements()
	ev["ser"] = serEntries(entries, canon)
	ev["serKeys"] = len(entries) - len(ev["ser"].([]trace.M)) // entries under another key (must be 0)
	re := scheduling.NewNodeSelectorRequirementsWithMinValues(entries...)
	rf := re.Get(canon)
	ev["reHas"], ev["reMv"] = d.has(rf), mvOf(rf)
	ev["absIn"] = scheduling.NewRequirements().Compatible(rs) == nil
	ev["absRe"] = scheduling.NewRequirements().Compatible(re) == nil
	// --- validation, Any, ToNodeClaim (always on the custom key)
	valid := true
	for _, a := range c.Atoms {
		valid = valid && d.validAtom(d.in.Keys["custom"], a)
	}
	ev["valid"] = valid
	rand.Seed(int64(c.ID)*7919 + seed()) //nolint:staticcheck // effective only with GODEBUG=randseednop=0
	anyRes, anyPanic, anyMsg := anyDraws(d.fold("custom", c.Atoms), d.in.AnyDraws)
	ev["any"], ev["anyPanic"] = anyRes, anyPanic
	if anyPanic {
		ev["msg"] = anyMsg
	}
	// ToNodeClaim for the pool alone (i = n) and for every pool-prefix / pod-suffix split
	ncs := []trace.M{d.toNodeClaim(n, c.Atoms, nil)}
	for i := 1; i < n; i++ {
		ncs = append(ncs, d.toNodeClaim(i, c.Atoms[:i], c.Atoms[i:]))
	}
	ev["ncs"] = ncs
	// the operands of Intersection / Add must not have been modified by any of the calls above
	after := make([][]bool, n)
	for i := range probes {
		after[i] = d.has(probes[i])
	}
	ev["hasNewAfter"] = after
	// the same conjunction read from a pod (required node affinity, first term)
	hasPod := []bool{}
	allPod := true
	for _, a := range c.Atoms {
		allPod = allPod && podValid(a)
	}
	if allPod {
		hasPod = d.has(scheduling.NewStrictPodRequirements(podWith(canon, c.Atoms)).Get(canon))
	}
	ev["hasPod"] = hasPod
	return ev
}

func (d *drv) doMulti(m Multi) (ev trace.M) {
	side := func(krs []KeyReq) ([]trace.M, scheduling.Requirements) {
		out := []trace.M{}
		rs := scheduling.NewRequirements()
		for _, kr := range krs {
			out = append(out, trace.M{"kk": kr.KK, "atoms": atomsJSON(kr.Atoms)})
			for _, a := range kr.Atoms {
				rs.Add(newReq(d.key(kr.KK, a.Ka), a))
			}
		}
		return out, rs
	}
	aj, A := side(m.A)
	bj, B := side(m.B)
	ev = trace.M{"e": "Multi", "id": m.ID, "A": aj, "B": bj}
	defer func() {
		if p := recover(); p != nil {
			ev = trace.M{"e": "CasePanic", "id": m.ID, "kk": "multi", "atoms": []trace.M{}, "msg": fmt.Sprint(p)}
		}
	}()
	// Every call is repeated: Compatible / Intersects range over Go maps, whose iteration order is random, so an
	// order-dependent answer shows only on a fraction of the calls.  The number of nil results is recorded.
	reps := d.in.Reps
	okN, okAUN, intsN, iscN := 0, 0, 0, 0
	for i := 0; i < reps; i++ {
		if A.Compatible(B) == nil {
			okN++
		}
		if A.Compatible(B, scheduling.AllowUndefinedWellKnownLabels) == nil {
			okAUN++
		}
		if A.Intersects(B) == nil {
			intsN++
		}
		if A.IsCompatible(B, scheduling.AllowUndefinedWellKnownLabels) {
			iscN++
		}
	}
	ev["reps"], ev["okN"], ev["okAUN"], ev["intsN"], ev["iscN"] = reps, okN, okAUN, intsN, iscN
	return ev
}

func seed() int64 {
	s, _ := strconv.ParseInt(os.Getenv("VERIF_SEED"), 10, 64)
	return s
}

// Replay: `drv requirements-replay -in cases.json -out dir -shards N`
func Replay(args []string) error {
	fs := flag.NewFlagSet("requirements-replay", flag.ContinueOnError)
	in := fs.String("in", "", "input JSON (universe, keys, cases, multi)")
	out := fs.String("out", "traces", "output directory")
	prefix := fs.String("prefix", "req", "trace file prefix")
	shards := fs.Int("shards", 4, "trace shards")
	if err := fs.Parse(args); err != nil {
		return err
	}
	raw, err := os.ReadFile(*in)
	if err != nil {
		return err
	}
	d := &drv{ctx: context.Background(), catalog: world.DefaultCatalog()}
	if err := json.Unmarshal(raw, &d.in); err != nil {
		return err
	}
	if d.in.AnyDraws <= 0 {
		d.in.AnyDraws = 8
	}
	if d.in.Chunk <= 0 {
		d.in.Chunk = 500
	}
	if len(d.in.KeySets) == 0 {
		d.in.KeySets = []map[string]string{d.in.Keys}
	}
	// sanity of the scenario: the driver refuses to run with key names the code would not treat as intended
	for _, ks := range d.in.KeySets {
		if !v1.WellKnownLabels.Has(ks["wk"]) || !v1.WellKnownLabels.Has(ks["wk2"]) || ks["wk"] == ks["wk2"] ||
			v1.WellKnownLabels.Has(ks["custom"]) || v1.WellKnownLabels.Has(ks["custom2"]) || v1.WellKnownLabels.Has(ks["custom3"]) {
			return fmt.Errorf("scenario keys: wk=%q wk2=%q must be distinct well-known keys, custom=%q/%q/%q must not be",
				ks["wk"], ks["wk2"], ks["custom"], ks["custom2"], ks["custom3"])
		}
	}
	if d.in.Reps <= 0 {
		d.in.Reps = 24
	}
	// register the value normalisation the way a cloud provider does at init; it stays for the whole process
	vmap := []trace.M{}
	for _, k := range d.in.VKeys {
		m := map[string]string{}
		for _, p := range d.in.VMap {
			m[p.From] = p.To
		}
		v1.NormalizedLabelValues[k] = m
	}
	for _, p := range d.in.VMap {
		vmap = append(vmap, trace.M{"from": p.From, "to": p.To})
	}
	vkeys := append([]string{}, d.in.VKeys...)
	chunkNo := 0
	nextKeys := func() {
		d.in.Keys = d.in.KeySets[chunkNo%len(d.in.KeySets)]
		chunkNo++
	}
	w, err := trace.NewWriter(*out, *prefix, *shards)
	if err != nil {
		return err
	}
	uni := make([]trace.M, 0, len(d.in.Universe))
	for _, v := range d.in.Universe {
		uni = append(uni, trace.M{"s": v.S, "i": v.I, "n": v.N})
	}
	cfg := func() trace.M {
		return trace.M{"universe": uni, "custom": d.in.Keys["custom"], "custom2": d.in.Keys["custom2"],
			"custom3": d.in.Keys["custom3"], "wk": d.in.Keys["wk"], "wk2": d.in.Keys["wk2"], "alias": d.in.Keys["alias"],
			"vmap": vmap, "vkeys": vkeys}
	}
	for i, c := range d.in.Cases {
		if i%d.in.Chunk == 0 {
			nextKeys()
			w.Begin(cfg())
		}
		w.Emit(d.doCase(c))
	}
	for i, m := range d.in.Multi {
		if i%d.in.Chunk == 0 {
			nextKeys()
			w.Begin(cfg())
		}
		w.Emit(d.doMulti(m))
	}
	paths := w.Close()
	sum, _ := json.Marshal(trace.M{"traces": w.N, "lines": w.Lines, "files": paths})
	fmt.Println(string(sum))
	return nil
}
