//go:build !verif_h1

package multipass

import "verif/harness/trace"

// Built against a tree without hook H1: no Sched events (checks/C04.py turns that into an infrastructure error).
const hookAvailable = false

func installHook(m *mp, emit func(trace.M)) {}
func removeHook()                           {}
func suspendHook()                          {}
func resumeHook()                           {}
