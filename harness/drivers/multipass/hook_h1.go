//go:build verif_h1

package multipass

import (
	"github.com/samber/lo"
	corev1 "k8s.io/api/core/v1"

	v1 "sigs.k8s.io/karpenter/pkg/apis/v1"
	"sigs.k8s.io/karpenter/pkg/cloudprovider"
	pscheduling "sigs.k8s.io/karpenter/pkg/controllers/provisioning/scheduling"

	"verif/harness/drivers/sched"
	"verif/harness/trace"
)

// Built against a tree that carries hook H1: every scheduling decision inside Solve becomes a Sched event.  The
// multi-pass form is compact: an existing / in-flight target is identified by the NAME OF ITS NODECLAIM (through the
// provider id), a NodeClaim of this pass by its placeholder hostname.
const hookAvailable = true

func installHook(m *mp, emit func(trace.M)) {
	n := 0
	pscheduling.VerifSchedTrace = func(ev pscheduling.VerifSchedEvent) {
		n++
		e := trace.M{"e": "Sched", "n": n, "kind": ev.Kind, "pod": "-", "tk": lo.Ternary(ev.TargetKind == "", "-", ev.TargetKind), "target": "-",
			"pool": "-", "pods": []string{}, "its": []string{}, "left": lim3(nil), "remaining": res3(nil), "requests": res3(nil),
			"err": sched.ErrKind(ev.Err), "msg": "-", "simple": false}
		if ev.Err != nil {
			e["msg"] = trunc(ev.Err.Error(), 200)
		}
		if ev.Pod != nil {
			e["pod"] = podKey(ev.Pod)
		}
		switch {
		case ev.Existing != nil:
			e["target"] = "-"
			if ev.Existing.NodeClaim != nil {
				e["target"] = ev.Existing.NodeClaim.Name
			} else if ev.Existing.Node != nil {
				e["target"] = ev.Existing.Node.Name
			}
			e["pool"] = ev.Existing.Labels()[v1.NodePoolLabelKey]
			e["pods"] = lo.Map(ev.Existing.Pods, func(p *corev1.Pod, _ int) string { return podKey(p) })
			e["remaining"] = res3(ev.Remaining)
		case ev.Claim != nil:
			e["target"] = ev.Hostname
			e["pool"] = ev.Claim.NodePoolName
			e["pods"] = lo.Map(ev.Claim.Pods, func(p *corev1.Pod, _ int) string { return podKey(p) })
			e["its"] = lo.Map(ev.InstanceTypes, func(it *cloudprovider.InstanceType, _ int) string { return it.Name })
			e["requests"] = res3(ev.Requests)
			if ev.RemainingLimits != nil {
				e["left"] = lim3(ev.RemainingLimits)
			}
		}
		emit(e)
	}
}

func removeHook() { pscheduling.VerifSchedTrace = nil }

var suspended func(pscheduling.VerifSchedEvent)

// suspendHook / resumeHook: a scheduling simulation run by another controller inside the pass must not show up as decisions of the pass
func suspendHook() { suspended, pscheduling.VerifSchedTrace = pscheduling.VerifSchedTrace, nil }
func resumeHook()  { pscheduling.VerifSchedTrace = suspended }
