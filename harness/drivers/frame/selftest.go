// Package frame holds the self-test of the C18 snapshot projection (harness/world/x_snapshot.go): it applies, one at a
// time, direct in-memory mutations of the kind a leaky simulation would cause (and a few that must NOT show) to a
// materialised scheduling scenario and brackets each with Snapshot events.  checks/C18.py demands that Frame_Trace.tla
// reports exactly the expected section/class for every one of them - the projection is not blind anywhere it matters.
// These traces are synthetic (the harness mutates the world, not Karpenter) and never reach a verdict.
package frame

import (
	"bufio"
	"context"
	"encoding/json"
	"flag"
	"fmt"
	"os"
	"reflect"
	"sync"
	"unsafe"

	corev1 "k8s.io/api/core/v1"
	"k8s.io/apimachinery/pkg/api/resource"
	metav1 "k8s.io/apimachinery/pkg/apis/meta/v1"
	"k8s.io/apimachinery/pkg/types"

	"sigs.k8s.io/karpenter/pkg/controllers/state"
	"sigs.k8s.io/karpenter/pkg/scheduling"

	"verif/harness/drivers/sched"
	"verif/harness/reg"
	"verif/harness/trace"
)

func init() { reg.Register("frame-selftest", Run) }

type mutation struct {
	name string
	// want: the signatures Frame_Trace must report for a SIMULATION bracket ("" = none: the change is invisible or lenient)
	want []string
	do   func(sim *sched.Sim, n *state.StateNode) bool // false = not applicable to this scenario
}

func ghostPod(node string) *corev1.Pod {
	return &corev1.Pod{ObjectMeta: metav1.ObjectMeta{Name: "ghost", Namespace: "default", UID: "uid-ghost"},
		Spec: corev1.PodSpec{NodeName: node, Containers: []corev1.Container{{Name: "c", Resources: corev1.ResourceRequirements{
			Requests: corev1.ResourceList{corev1.ResourceCPU: resource.MustParse("100m")}}}}},
		Status: corev1.PodStatus{Phase: corev1.PodRunning}}
}

// unexported field f of the struct behind pointer p, writable
func fieldOf(p any, f string) reflect.Value {
	v := reflect.ValueOf(p).Elem().FieldByName(f)
	return reflect.NewAt(v.Type(), unsafe.Pointer(v.UnsafeAddr())).Elem()
}

func mutations() []mutation {
	return []mutation{
		{"hostport on the live node", []string{"node:hostPortUsage"}, func(s *sched.Sim, n *state.StateNode) bool {
			n.HostPortUsage().Add(ghostPod(n.Name()), []scheduling.HostPort{{IP: nil, Port: 31999, Protocol: corev1.ProtocolTCP}})
			return true
		}},
		{"volume on the live node", []string{"node:volumeUsage"}, func(s *sched.Sim, n *state.StateNode) bool {
			v := scheduling.Volumes{}
			v.Add("csi.example", "default/ghost-claim")
			n.VolumeUsage().Add(ghostPod(n.Name()), v)
			return true
		}},
		{"deletion mark", []string{"node:markedForDeletion", "cache:nodePoolResources", "cache:NodePoolState"}, func(s *sched.Sim, n *state.StateNode) bool {
			if n.MarkedForDeletion() {
				return false
			}
			s.Cluster.MarkForDeletion(n.ProviderID())
			return true
		}},
		{"nomination", []string{"node:nominatedUntil"}, func(s *sched.Sim, n *state.StateNode) bool {
			s.Cluster.NominateNodeForPod(s.Ctx, n.ProviderID())
			return true
		}},
		{"pod usage booked on the live node", []string{"node:podRequests", "node:podLimits", "node:podDisruptionCosts", "node:hostPortUsage", "node:volumeUsage", "cache:bindings", "cache:clusterState"},
			func(s *sched.Sim, n *state.StateNode) bool {
				if n.Node == nil {
					return false
				}
				return s.Cluster.UpdatePod(s.Ctx, ghostPod(n.Node.Name)) == nil
			}},
		{"label on the cached Node object", []string{"node:Node"}, func(s *sched.Sim, n *state.StateNode) bool {
			if n.Node == nil {
				return false
			}
			if n.Node.Labels == nil {
				n.Node.Labels = map[string]string{}
			}
			n.Node.Labels["leak"] = "x"
			return true
		}},
		{"daemonset requests map of the live node", []string{"node:daemonSetRequests"}, func(s *sched.Sim, n *state.StateNode) bool {
			m := fieldOf(n, "daemonSetRequests").Interface().(map[types.NamespacedName]corev1.ResourceList)
			m[types.NamespacedName{Namespace: "default", Name: "ghost"}] = corev1.ResourceList{corev1.ResourceCPU: resource.MustParse("1")}
			return true
		}},
		{"quantity inside the live node changed by 1m", []string{"node:Node"}, func(s *sched.Sim, n *state.StateNode) bool {
			if n.Node == nil || n.Node.Status.Allocatable == nil {
				return false
			}
			q := n.Node.Status.Allocatable[corev1.ResourceCPU]
			q.Sub(resource.MustParse("1m"))
			n.Node.Status.Allocatable[corev1.ResourceCPU] = q
			return true
		}},
		{"buffer pod counts", []string{"cache:bufferPodCounts"}, func(s *sched.Sim, n *state.StateNode) bool {
			s.Cluster.UpdateBufferPodCounts(map[string]int{n.ProviderID(): 1})
			return true
		}},
		{"pod acknowledged (bookkeeping: lenient)", nil, func(s *sched.Sim, n *state.StateNode) bool {
			s.Cluster.AckPods(ghostPod(""))
			return true
		}},
		{"anti-affinity pod cache", []string{"cache:antiAffinityPods"}, func(s *sched.Sim, n *state.StateNode) bool {
			m := (*sync.Map)(unsafe.Pointer(fieldOf(s.Cluster, "antiAffinityPods").UnsafeAddr()))
			m.Store(types.NamespacedName{Namespace: "default", Name: "ghost"}, ghostPod(""))
			return true
		}},
		{"cached daemonset pod edited in place", []string{"cache:daemonSetPods"}, func(s *sched.Sim, n *state.StateNode) bool {
			m := (*sync.Map)(unsafe.Pointer(fieldOf(s.Cluster, "daemonSetPods").UnsafeAddr()))
			done := false
			m.Range(func(k, v any) bool {
				v.(*corev1.Pod).Spec.Affinity = &corev1.Affinity{NodeAffinity: &corev1.NodeAffinity{}}
				done = true
				return false
			})
			return done
		}},
		{"API object edited", []string{"api:Pod"}, func(s *sched.Sim, n *state.StateNode) bool {
			var pods corev1.PodList
			s.W.List(&pods)
			if len(pods.Items) == 0 {
				return false
			}
			p := &pods.Items[0]
			return s.W.EnvMutate(p, "selftest", func() { p.Labels = map[string]string{"leak": "x"} })
		}},
		{"provider slice reversed in place", []string{"catalog:order"}, func(s *sched.Sim, n *state.StateNode) bool {
			t := s.W.Prov.Types
			if len(t) < 2 || t[0].Name == t[len(t)-1].Name {
				return false
			}
			for i, j := 0, len(t)-1; i < j; i, j = i+1, j-1 {
				t[i], t[j] = t[j], t[i]
			}
			return true
		}},
		{"offerings of a type swapped in place", []string{"catalog:offerings", "catalog:type-content"}, func(s *sched.Sim, n *state.StateNode) bool {
			for _, it := range s.W.Prov.Types {
				if len(it.Offerings) >= 2 && it.Offerings[0] != it.Offerings[1] {
					it.Offerings[0], it.Offerings[1] = it.Offerings[1], it.Offerings[0]
					return true
				}
			}
			return false
		}},
		{"offering made unavailable", []string{"catalog:offerings", "catalog:type-content"}, func(s *sched.Sim, n *state.StateNode) bool {
			o := s.W.Prov.Types[0].Offerings[0]
			o.Available = !o.Available
			return true
		}},
		{"offering requirement narrowed", []string{"catalog:offerings", "catalog:type-content"}, func(s *sched.Sim, n *state.StateNode) bool {
			o := s.W.Prov.Types[0].Offerings[0]
			o.Requirements.Add(scheduling.NewRequirement(corev1.LabelTopologyZone, corev1.NodeSelectorOpIn, "nowhere"))
			return true
		}},
		{"instance-type requirement narrowed", []string{"catalog:requirements", "catalog:type-content"}, func(s *sched.Sim, n *state.StateNode) bool {
			it := s.W.Prov.Types[0]
			it.Requirements.Add(scheduling.NewRequirement(corev1.LabelArchStable, corev1.NodeSelectorOpIn, "none"))
			return true
		}},
		{"reservation capacity decremented on the shared offering", []string{"catalog:offerings", "catalog:type-content"}, func(s *sched.Sim, n *state.StateNode) bool {
			s.W.Prov.Types[0].Offerings[0].ReservationCapacity--
			return true
		}},
		{"instance-type capacity edited", []string{"catalog:capacity", "catalog:type-content"}, func(s *sched.Sim, n *state.StateNode) bool {
			s.W.Prov.Types[0].Capacity[corev1.ResourceCPU] = resource.MustParse("77")
			return true
		}},
		{"memoised allocatable edited in place", []string{"catalog:type-content"}, func(s *sched.Sim, n *state.StateNode) bool {
			s.W.Prov.Types[0].Allocatable()[corev1.ResourceCPU] = resource.MustParse("78")
			return true
		}},
		// ---- must NOT show: representation, not value
		{"quantities stringified (cached string representation)", nil, func(s *sched.Sim, n *state.StateNode) bool {
			if n.Node == nil {
				return false
			}
			for k, q := range n.Node.Status.Allocatable {
				_ = q.String()
				n.Node.Status.Allocatable[k] = q
			}
			for _, q := range s.W.Prov.Types[0].Capacity {
				_ = q.String()
			}
			return true
		}},
		{"quantity re-expressed (1000m for 1)", nil, func(s *sched.Sim, n *state.StateNode) bool {
			c := s.W.Prov.Types[0].Capacity
			q := c[corev1.ResourceCPU]
			c[corev1.ResourceCPU] = *resource.NewMilliQuantity(q.MilliValue(), resource.BinarySI)
			return true
		}},
		{"reads only (accessors, deep copies, requirement queries)", nil, func(s *sched.Sim, n *state.StateNode) bool {
			_ = s.Cluster.DeepCopyNodes()
			_ = n.Available()
			_ = n.Taints()
			for _, it := range s.W.Prov.Types {
				_ = it.Requirements.Get(corev1.LabelTopologyZone).Values()
				_ = it.Offerings.Available().Cheapest()
			}
			return true
		}},
	}
}

// Run: drv frame-selftest -in scenarios.ndjson -out <dir>   (sched scenarios with at least one initialized node)
func Run(args []string) error {
	fs := flag.NewFlagSet("frame-selftest", flag.ContinueOnError)
	in := fs.String("in", "", "ndjson file, one sched scenario per line")
	out := fs.String("out", "traces", "output directory")
	if err := fs.Parse(args); err != nil {
		return err
	}
	f, err := os.Open(*in)
	if err != nil {
		return err
	}
	defer f.Close()
	tw, err := trace.NewWriter(*out, "frame-selftest", 1)
	if err != nil {
		return err
	}
	scn := bufio.NewScanner(f)
	scn.Buffer(make([]byte, 1<<20), 64<<20)
	var expect []trace.M
	for scn.Scan() {
		if len(scn.Bytes()) == 0 {
			continue
		}
		for _, m := range mutations() {
			s := &sched.Scenario{}
			if err := json.Unmarshal(scn.Bytes(), s); err != nil {
				return err
			}
			s.Normalise()
			sim, err := sched.Materialise(s) // a fresh world per mutation
			if err != nil {
				continue
			}
			var node *state.StateNode
			for n := range sim.Cluster.Nodes() {
				if n.Node != nil && n.NodeClaim != nil && (node == nil || n.Name() < node.Name()) {
					node = n
				}
			}
			if node == nil {
				continue
			}
			name := fmt.Sprintf("%s | %s", s.Name, m.name)
			tw.Begin(trace.M{"name": name, "module": "FrameSelftest"})
			sim.W.Sink = tw.Emit
			emit := func(phase string) {
				ev := sim.W.Snapshot(sim.Cluster)
				ev["phase"], ev["call"], ev["n"] = phase, "simulate", 0
				sim.W.Emit(ev)
			}
			emit("pre")
			sim.W.Sink = nil // the mutation's own API events are not the point
			ok := m.do(sim, node)
			sim.W.Sink = tw.Emit
			emit("post")
			tw.Emit(trace.M{"e": "End", "status": "ok", "msg": "-"})
			want := m.want
			if want == nil {
				want = []string{}
			}
			expect = append(expect, trace.M{"name": name, "mutation": m.name, "applied": ok, "want": want})
		}
	}
	files := tw.Close()
	b, _ := json.Marshal(trace.M{"files": files, "traces": tw.N, "expect": expect})
	fmt.Println(string(b))
	return nil
}

var _ = context.Background
